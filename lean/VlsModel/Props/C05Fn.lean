import VlsModel.Model.Policy
import VlsModel.Gen.FnSimple
import VlsModel.Gen.FnTxUtil
import VlsModel.Gen.FnTx
import VlsModel.Gen.FnFilter
import VlsModel.Gen.FnOnchain
import VlsModel.Gen.FnSimpleCommit
import VlsModel.Gen.FnSimpleSetup
import VlsModel.Gen.FnOnchainPass
import VlsModel.Gen.FnPolicyMod
import VlsModel.Gen.FnOnchainFactory
import VlsModel.Gen.FnDefaultPolicy
import VlsModel.Gen.FnSimpleMisc
import VlsModel.Gen.FnB3Filter
import VlsModel.Gen.FnB3OnchainPolicy
import VlsModel.Gen.FnB3TestBuilder
import VlsModel.Gen.FnB3NodeVal
import VlsModel.Gen.FnB3ChannelVal
import VlsModel.Gen.FnB3LogPrefix
import VlsModel.Gen.Chain
import VlsModel.Lemmas.FnGen
/-
C05 — pieces of the hand-written policy model (`Model/Policy.lean`) proved equal to the function bodies that
`translate/rs2lean.py` regenerates on every run from
  vls-core/src/policy/simple_validator.rs  (`validate_delay`, `validate_expiry`, `validate_fee`),
  vls-core/src/util/transaction_utils.rs   (`expected_commitment_tx_weight`),
  vls-core/src/tx/tx.rs                    (`CommitmentInfo2::{value_to_parties, total_value}`).

The generated bodies return `Rs.M α` (`.err tag` / `.panic` / `.overflow`); the model returns `Except Kind α`.
`rel t` maps one to the other for the policy tag `t` the model passes: an error carrying exactly `t.name` becomes
`t.kind`, a panic or overflow becomes `Kind.panic`.

Where the model is total and the code is not, the precondition is explicit in the theorem and the behaviour of the
code outside it is stated by a companion theorem (`…_weight_zero`, `…_overflow`).
-/
namespace VlsModel.Props.C05Fn
open VlsModel VlsModel.Policy
open VlsModel.Gen.FnSimple (SimpleValidator SimplePolicy)

/-- the `SimplePolicy` fields read by the translated functions -/
def toV (p : Policy) : SimpleValidator :=
  { policy := { min_delay := p.minDelay, max_delay := p.maxDelay, use_chain_state := p.useChainState,
                min_feerate_per_kw := p.minFeerate, max_feerate_per_kw := p.maxFeerate,
                epsilon_sat := p.epsilon, dev_flags := none } }

/-- the external of `policy_err!`: does the policy filter keep this tag an error? -/
def filt (p : Policy) : String → Bool := fun tag => filterEval p.filter tag == .error

def rel (t : Tag) : Rs.M Unit → Except Kind Unit
  | .ok () => .ok ()
  | .error (.err s) => if s = t.name then .error t.kind else .error .other
  | .error _ => .error .panic

theorem C05_fn_validate_delay (p : Policy) (t : Tag) (name : String)
    (ht : t.name = "policy-channel-contest-delay-range-" ++ name) (delay : Nat) :
    rel t ((toV p).validate_delay (filt p) name delay) = validateDelay p t delay := by
  unfold SimpleValidator.validate_delay validateDelay check policyErr errs Rs.policyErr
  rw [← ht]
  simp only [toV, filt]
  by_cases h1 : delay < p.minDelay <;> by_cases h2 : delay > p.maxDelay <;>
    by_cases h3 : filterEval p.filter t.name = Gen.Policy.Action.error <;>
    simp [h1, h2, h3, rel, Rs.fail, bind, Except.bind, pure, Except.pure]

theorem C05_fn_validate_expiry (p : Policy) (c : ChainState) (name : String) (expiry : Nat) :
    rel .htlcCltvRange ((toV p).validate_expiry (filt p) name expiry c.height) = validateExpiry p c expiry := by
  unfold SimpleValidator.validate_expiry validateExpiry check policyErr errs Rs.policyErr addU32 Rs.uadd
  have hn : Tag.htlcCltvRange.name = "policy-commitment-htlc-cltv-range" := rfl
  rw [← hn]
  simp only [toV, filt, Gen.Policy.maxCltvExpiry, Rs.U32_MAX, U32.MAX]
  by_cases h0 : p.useChainState = true <;>
    by_cases h1 : expiry ≥ 500000000 <;>
    by_cases h3 : filterEval p.filter Tag.htlcCltvRange.name = Gen.Policy.Action.error <;>
    by_cases h4 : c.height + p.minDelay ≤ 4294967295 <;>
    by_cases h5 : c.height + p.maxDelay ≤ 4294967295 <;>
    by_cases h6 : expiry < c.height + p.minDelay <;>
    by_cases h7 : expiry > c.height + p.maxDelay <;>
    simp [h0, h1, h3, h4, h5, h6, h7, rel, Rs.fail, Rs.overflow, bind, Except.bind, pure, Except.pure]

/-- `validate_fee`: equal to the model for a positive weight and a 64-bit input sum (both call sites guarantee
    them: the weight of a transaction with at least one input, a sum of `u64` amounts checked by `checked_add`). -/
theorem C05_fn_validate_fee (p : Policy) (t : Tag) (hk : t.kind = .fee) (sumIn sumOut weight : Nat)
    (hw : weight ≠ 0) (hin : sumIn ≤ Rs.U64_MAX) :
    rel t ((toV p).validate_fee (filt p) t.name sumIn sumOut weight) = validateFee p t sumIn sumOut weight := by
  unfold SimpleValidator.validate_fee validateFee hard check policyErr errs Rs.policyErr exactFeerate
  simp only [toV, filt, Rs.okOr, Rs.ucheckedSub]
  by_cases h1 : sumOut ≤ sumIn
  · have h1' : ¬ sumIn < sumOut := Nat.not_lt.mpr h1
    have hm := (Rs.fee_rate_fits (sumIn - sumOut) (Nat.le_trans (Nat.sub_le _ _) hin)).1
    have ha := (Rs.fee_rate_fits (sumIn - sumOut) (Nat.le_trans (Nat.sub_le _ _) hin)).2
    simp only [h1, h1', if_true, Rs.umul, hm, Rs.uadd, ha, Rs.udiv, hw, if_false, Rs.bind_ok, Rs.pure_eq,
      decide_false, decide_true]
    by_cases h2 : ((sumIn - sumOut) * 1000 + 999) / weight < p.minFeerate <;>
      by_cases h3 : ((sumIn - sumOut) * 1000 + 999) / weight > p.maxFeerate <;>
      by_cases h4 : filterEval p.filter t.name = Gen.Policy.Action.error <;>
      simp [h2, h3, h4, rel, Rs.fail, bind, Except.bind, pure, Except.pure]
  · have h1' : sumIn < sumOut := Nat.lt_of_not_le h1
    simp [h1, h1', rel, Rs.fail, hk, bind, Except.bind]

/-- outside the precondition: a zero weight is a division panic in the code (the model's `exactFeerate` would
    compute a rate of 0 and go on) -/
theorem C05_fn_validate_fee_weight_zero (p : Policy) (tag : String) (sumIn sumOut : Nat)
    (h : sumOut ≤ sumIn) (hin : sumIn ≤ Rs.U64_MAX) :
    (toV p).validate_fee (filt p) tag sumIn sumOut 0 = .error .panic := by
  unfold SimpleValidator.validate_fee
  have hm := (Rs.fee_rate_fits (sumIn - sumOut) (Nat.le_trans (Nat.sub_le _ _) hin)).1
  have ha := (Rs.fee_rate_fits (sumIn - sumOut) (Nat.le_trans (Nat.sub_le _ _) hin)).2
  simp [Rs.okOr, Rs.ucheckedSub, h, Rs.umul, hm, Rs.uadd, ha, Rs.udiv, Rs.panic, bind, Except.bind]

/-- `expected_commitment_tx_weight` = `commitmentWeight` as long as the `usize` arithmetic does not overflow
    (`num_untrimmed_htlc` is the length of a vector held in memory) -/
theorem C05_fn_commitment_weight (anchors : Bool) (n : Nat) (hn : n * 172 + 1124 ≤ Rs.USIZE_MAX) :
    Gen.FnTxUtil.expected_commitment_tx_weight anchors n = .ok (commitmentWeight anchors n) := by
  unfold Gen.FnTxUtil.expected_commitment_tx_weight commitmentWeight
  unfold Rs.USIZE_MAX at hn
  have h1 : n * 172 ≤ 18446744073709551615 := by omega
  have h2 : 1124 + n * 172 ≤ 18446744073709551615 := by omega
  have h3 : 724 + n * 172 ≤ 18446744073709551615 := by omega
  cases anchors <;>
    simp [Rs.umul, Rs.uadd, Rs.USIZE_MAX, h1, h2, h3, Gen.Policy.commitmentBaseAnchorWeight,
      Gen.Policy.commitmentBaseWeight, Gen.Policy.commitmentWeightPerHtlc]

def toCI (i : Info) : Gen.FnTx.CommitmentInfo2 :=
  { is_counterparty_broadcaster := i.isCp, to_countersigner_value_sat := i.toCountersigner,
    to_broadcaster_value_sat := i.toBroadcaster,
    offered_htlcs := i.offered.map (fun h => { value_sat := h.value }),
    received_htlcs := i.received.map (fun h => { value_sat := h.value }) }

theorem C05_fn_value_to_parties (i : Info) :
    (toCI i).value_to_parties = (i.toHolder, i.toCounterparty) := by
  unfold Gen.FnTx.CommitmentInfo2.value_to_parties Info.toHolder Info.toCounterparty
  by_cases h : i.isCp = true <;> simp [toCI, h]

/-- `total_value` (plain `+` and `.sum::<u64>()`) = `Info.total` whenever the total fits into `u64`;
    otherwise the code overflows (`C05_fn_total_value_overflow`) -/
theorem C05_fn_total_value (i : Info) (h : i.total ≤ Rs.U64_MAX) :
    (toCI i).total_value = .ok i.total := by
  unfold Gen.FnTx.CommitmentInfo2.total_value
  unfold Info.total sumValues at h
  simp only [toCI, List.map_map, Rs.usum_eq, Rs.uadd]
  have e1 : (List.map ((fun h : Gen.FnTx.HTLCInfo2 => h.value_sat) ∘ fun h : Htlc => ({ value_sat := h.value } : Gen.FnTx.HTLCInfo2)) i.offered)
      = i.offered.map (·.value) := by simp [Function.comp_def]
  have e2 : (List.map ((fun h : Gen.FnTx.HTLCInfo2 => h.value_sat) ∘ fun h : Htlc => ({ value_sat := h.value } : Gen.FnTx.HTLCInfo2)) i.received)
      = i.received.map (·.value) := by simp [Function.comp_def]
  rw [e1, e2]
  have a1 : i.toBroadcaster + i.toCountersigner ≤ Rs.U64_MAX := by omega
  have a2 : (i.offered.map (·.value)).sum ≤ Rs.U64_MAX := by omega
  have a3 : i.toBroadcaster + i.toCountersigner + (i.offered.map (·.value)).sum ≤ Rs.U64_MAX := by omega
  have a4 : (i.received.map (·.value)).sum ≤ Rs.U64_MAX := by omega
  simp [a1, a2, a3, a4, h, Info.total, sumValues]

theorem C05_fn_total_value_overflow (i : Info) (h : ¬ i.total ≤ Rs.U64_MAX) :
    (toCI i).total_value = .error .overflow := by
  unfold Gen.FnTx.CommitmentInfo2.total_value
  unfold Info.total sumValues at h
  simp only [toCI, List.map_map, Rs.usum_eq, Rs.uadd]
  have e1 : (List.map ((fun h : Gen.FnTx.HTLCInfo2 => h.value_sat) ∘ fun h : Htlc => ({ value_sat := h.value } : Gen.FnTx.HTLCInfo2)) i.offered)
      = i.offered.map (·.value) := by simp [Function.comp_def]
  have e2 : (List.map ((fun h : Gen.FnTx.HTLCInfo2 => h.value_sat) ∘ fun h : Htlc => ({ value_sat := h.value } : Gen.FnTx.HTLCInfo2)) i.received)
      = i.received.map (·.value) := by simp [Function.comp_def]
  rw [e1, e2]
  by_cases a1 : i.toBroadcaster + i.toCountersigner ≤ Rs.U64_MAX
  · by_cases a2 : (i.offered.map (·.value)).sum ≤ Rs.U64_MAX
    · by_cases a3 : i.toBroadcaster + i.toCountersigner + (i.offered.map (·.value)).sum ≤ Rs.U64_MAX
      · by_cases a4 : (i.received.map (·.value)).sum ≤ Rs.U64_MAX
        · simp [a1, a2, a3, a4, h, Rs.overflow]
        · simp [a1, a2, a3, a4, Rs.overflow, bind, Except.bind]
      · simp [a1, a2, a3, Rs.overflow, bind, Except.bind]
    · simp [a1, a2, Rs.overflow, bind, Except.bind]
  · simp [a1, Rs.overflow, bind, Except.bind]

/-! ## Round 8: the policy filter itself, the on-chain gate, the channel-size check and the whole of
`SimpleValidator::validate_commitment_tx`

Generated areas (own namespaces, `translate/x_fn.py`): `Gen.FnFilter` (`policy/filter.rs`), `Gen.FnOnchain`
(`policy/onchain_validator.rs`), `Gen.FnSimpleCommit` (`policy/simple_validator.rs` + the methods it calls in
`channel.rs`, `tx/tx.rs`, `util/transaction_utils.rs`). -/

/-! ### `PolicyFilter::filter` = `filterEval`: this closes the external `policy_filter_err` of every other tie -/

def ofAction : Gen.Policy.Action → Gen.FnFilter.FilterResult
  | .error => .Error
  | .warn => .Warn

def toPF (rs : List Gen.Policy.Rule) : Gen.FnFilter.PolicyFilter :=
  { rules := rs.map (fun r => { tag := r.tag, is_prefix := r.isPrefix, action := ofAction r.action }) }

/-- the loop with the early `return` of `PolicyFilter::filter` (first matching rule decides, prefix or exact
    match, no match = `Error`; `Rs.loopM` in the generated text) is the model's `filterEval`, for every rule list and
    every tag; it never fails -/
theorem C05_fn_policy_filter (rs : List Gen.Policy.Rule) (tag : String) :
    (toPF rs).filter tag = .ok (ofAction (filterEval rs tag)) := by
  unfold Gen.FnFilter.PolicyFilter.filter
  induction rs with
  | nil => simp [toPF, filterEval, ofAction, Rs.loopM]
  | cons r rs ih =>
    simp only [toPF, List.map_cons, Rs.loopM] at ih ⊢
    simp only [filterEval, ruleMatches]
    by_cases hm : (if r.isPrefix = true then String.isPrefixOf r.tag tag else tag == r.tag) = true
    · simp [hm]
    · simpa [hm] using ih

/-- `make_policy_error_with_filter`'s test `filter.filter(&tag) == FilterResult::Error` on the generated filter
    is the external `policy_filter_err` that the ties of this file instantiate (`filt p`) -/
theorem C05_fn_filt_is_filter (p : Policy) (tag : String) :
    (toPF p.filter).filter tag
      = .ok (if filt p tag = true then Gen.FnFilter.FilterResult.Error else Gen.FnFilter.FilterResult.Warn) := by
  rw [C05_fn_policy_filter]
  unfold filt
  cases filterEval p.filter tag <;> rfl

/-! ### `OnchainValidator::ensure_funding_buried_and_unspent` -/

def toOV : Gen.FnOnchain.OnchainValidator := { policy := { min_funding_depth := Gen.Policy.minFundingDepth } }

def toOCh (c : ChainState) : Gen.FnOnchain.ChainState :=
  { funding_depth := c.fundingDepth, closing_depth := c.closingDepth }

theorem C05_fn_ensure_funding_buried (p : Policy) (c : ChainState) (n : Nat) :
    rel .spendsActiveUtxo (toOV.ensure_funding_buried_and_unspent (filt p) n (toOCh c))
      = ensureFundingBuried p c n := by
  unfold Gen.FnOnchain.OnchainValidator.ensure_funding_buried_and_unspent ensureFundingBuried check policyErr errs
    Rs.policyErr
  have hn : Tag.spendsActiveUtxo.name = "policy-commitment-spends-active-utxo" := rfl
  rw [← hn]
  simp only [toOV, toOCh, filt]
  by_cases h0 : n > 0 <;>
    by_cases h1 : c.fundingDepth < Gen.Policy.minFundingDepth <;>
    by_cases h2 : c.closingDepth > 0 <;>
    by_cases h3 : filterEval p.filter Tag.spendsActiveUtxo.name = Gen.Policy.Action.error <;>
    simp [h0, h1, h2, h3, rel, Rs.fail, bind, Except.bind, pure, Except.pure]

/-! ### `validate_channel_value` and `validate_commitment_tx` -/

def toCT : Gen.Policy.CType → Gen.FnSimpleCommit.CommitmentType
  | .legacy => .Legacy
  | .staticRemoteKey => .StaticRemoteKey
  | .anchors => .Anchors
  | .anchorsZeroFeeHtlc => .AnchorsZeroFeeHtlc

def toV2 (p : Policy) : Gen.FnSimpleCommit.SimpleValidator :=
  { policy := { min_delay := p.minDelay, max_delay := p.maxDelay, max_channel_size_sat := p.maxChannelSize,
                max_htlcs := p.maxHtlcs, max_htlc_value_sat := p.maxHtlcValue, use_chain_state := p.useChainState,
                min_feerate_per_kw := p.minFeerate, max_feerate_per_kw := p.maxFeerate } }

def toCS (s : Setup) : Gen.FnSimpleCommit.ChannelSetup :=
  { is_outbound := s.isOutbound, channel_value_sat := s.channelValue, push_value_msat := s.pushMsat,
    commitment_type := toCT s.ctype }

def toH (h : Htlc) : Gen.FnSimpleCommit.HTLCInfo2 Nat :=
  { value_sat := h.value, payment_hash := h.hash, cltv_expiry := h.expiry }

def toCI2 (i : Info) : Gen.FnSimpleCommit.CommitmentInfo2 Nat :=
  { is_counterparty_broadcaster := i.isCp, to_countersigner_value_sat := i.toCountersigner,
    to_broadcaster_value_sat := i.toBroadcaster, offered_htlcs := i.offered.map toH,
    received_htlcs := i.received.map toH, feerate_per_kw := i.feerate }

def toCh (c : ChainState) : Gen.FnSimpleCommit.ChainState :=
  { current_height := c.height, funding_depth := c.fundingDepth, closing_depth := c.closingDepth }

/-- the `EnforcementState` fields read by the two sequencing wrappers (points and payment hashes are opaque ids) -/
def toES2 (e : EState) : Gen.FnSimpleCommit.EnforcementState Nat Nat :=
  { next_holder_commit_num := e.nextHolder, next_counterparty_commit_num := e.nextCp,
    next_counterparty_revoke_num := e.nextRevoke, current_counterparty_point := e.curCpPoint,
    current_holder_commit_info := e.curHolderInfo.map toCI2,
    current_counterparty_commit_info := e.curCpInfo.map toCI2,
    previous_counterparty_commit_info := e.prevCpInfo.map toCI2, channel_closed := e.closed }

theorem C05_fn_validate_channel_value (p : Policy) (s : Setup) :
    rel .fundingMax ((toV2 p).validate_channel_value (filt p) (toCS s)) = validateChannelValue p s := by
  unfold Gen.FnSimpleCommit.SimpleValidator.validate_channel_value validateChannelValue check policyErr errs
    Rs.policyErr
  have hn : Tag.fundingMax.name = "policy-funding-max" := rfl
  rw [← hn]
  simp only [toV2, toCS, filt]
  by_cases h1 : s.channelValue > p.maxChannelSize <;>
    by_cases h3 : filterEval p.filter Tag.fundingMax.name = Gen.Policy.Action.error <;>
    simp [h1, h3, rel, Rs.fail, bind, Except.bind, pure, Except.pure]

/-- the refusal class of every tag that `validate_commitment_tx` can raise (`Tag.kind` of the model) -/
def kindOfTag (s : String) : Kind :=
  if s = "policy-commitment-outputs-trimmed" then .dust
  else if s = "policy-commitment-htlc-count-limit" then .count
  else if s = "policy-commitment-htlc-cltv-range" then .expiry
  else if s = "policy-commitment-payment-velocity" then .overflow
  else if s = "policy-commitment-htlc-inflight-limit" then .inflight
  else if s = "policy-commitment-fee-range" then .fee
  else if s = "policy-commitment-first-no-htlcs" then .first
  else if s = "policy-commitment-initial-funding-value" then .first
  else if s = "policy-commitment-previous-revoked" then .seq
  else if s = "policy-commitment-retry-same" then .seq
  else if s = "policy-commitment-holder-not-revoked" then .seq
  else if s = "policy-commitment-spends-active-utxo" then .chain
  else .other

/-- outcome of the generated code read as an outcome of the model: an error carries the class of its tag, a panic
    or an arithmetic overflow (overflow-checked build) is `Kind.panic` -/
def relK {α : Type} : Rs.M α → Except Kind α
  | .ok a => .ok a
  | .error (.err s) => .error (kindOfTag s)
  | .error _ => .error .panic

theorem relK_bind {α β : Type} (x : Rs.M α) (f : α → Rs.M β) :
    relK (x >>= f) = relK x >>= fun a => relK (f a) := by
  cases x with
  | ok a => rfl
  | error e => cases e <;> rfl

@[simp] theorem relK_ok {α : Type} (a : α) : relK (Except.ok a : Rs.M α) = Except.ok a := rfl
@[simp] theorem relK_pure {α : Type} (a : α) : relK (pure a : Rs.M α) = pure a := rfl

/-- `if c { policy_err!(self, tag, ..) }` -/
theorem relK_check (p : Policy) (t : Tag) (tag : String) (ht : tag = t.name) (hk : kindOfTag tag = t.kind) (c : Bool) :
    relK (if c = true then (do let _ ← Rs.policyErr (filt p) tag; pure ()) else pure ()) = check p t c := by
  subst ht
  unfold Rs.policyErr check policyErr errs filt
  cases c <;> by_cases h : filterEval p.filter t.name = Gen.Policy.Action.error <;>
    simp [h, relK, Rs.fail, hk, bind, Except.bind, pure, Except.pure]

/-- `validate_expiry` of the area `SimpleCommit` (same source function as `C05_fn_validate_expiry`, other generated
    structure) -/
theorem relK_validate_expiry (p : Policy) (c : ChainState) (name : String) (expiry : Nat) :
    relK ((toV2 p).validate_expiry (filt p) name expiry c.height) = validateExpiry p c expiry := by
  unfold Gen.FnSimpleCommit.SimpleValidator.validate_expiry validateExpiry check policyErr errs Rs.policyErr addU32 Rs.uadd
  simp only [toV2, filt, Gen.Policy.maxCltvExpiry, Rs.U32_MAX, U32.MAX, Tag.name]
  by_cases h0 : p.useChainState = true <;>
    by_cases h1 : expiry ≥ 500000000 <;>
    by_cases h3 : filterEval p.filter "policy-commitment-htlc-cltv-range" = Gen.Policy.Action.error <;>
    by_cases h4 : c.height + p.minDelay ≤ 4294967295 <;>
    by_cases h5 : c.height + p.maxDelay ≤ 4294967295 <;>
    by_cases h6 : expiry < c.height + p.minDelay <;>
    by_cases h7 : expiry > c.height + p.maxDelay <;>
    simp [h0, h1, h3, h4, h5, h6, h7, relK, kindOfTag, Tag.kind, Rs.fail, Rs.overflow, bind, Except.bind, pure,
      Except.pure]

theorem relK_validate_fee (p : Policy) (sumIn sumOut weight : Nat) (hw : weight ≠ 0) (hin : sumIn ≤ Rs.U64_MAX) :
    relK ((toV2 p).validate_fee (filt p) "policy-commitment-fee-range" sumIn sumOut weight)
      = validateFee p .commitmentFeeRange sumIn sumOut weight := by
  unfold Gen.FnSimpleCommit.SimpleValidator.validate_fee validateFee hard check policyErr errs Rs.policyErr exactFeerate
  simp only [toV2, filt, Rs.okOr, Rs.ucheckedSub, Tag.name]
  by_cases h1 : sumOut ≤ sumIn
  · have h1' : ¬ sumIn < sumOut := Nat.not_lt.mpr h1
    have hm := (Rs.fee_rate_fits (sumIn - sumOut) (Nat.le_trans (Nat.sub_le _ _) hin)).1
    have ha := (Rs.fee_rate_fits (sumIn - sumOut) (Nat.le_trans (Nat.sub_le _ _) hin)).2
    simp only [h1, h1', if_true, Rs.umul, hm, Rs.uadd, ha, Rs.udiv, hw, if_false, Rs.bind_ok, Rs.pure_eq,
      decide_false]
    by_cases h2 : ((sumIn - sumOut) * 1000 + 999) / weight < p.minFeerate <;>
      by_cases h3 : ((sumIn - sumOut) * 1000 + 999) / weight > p.maxFeerate <;>
      by_cases h4 : filterEval p.filter "policy-commitment-fee-range" = Gen.Policy.Action.error <;>
      simp [h2, h3, h4, relK, kindOfTag, Tag.kind, Rs.fail, bind, Except.bind, pure, Except.pure]
  · have h1' : sumIn < sumOut := Nat.lt_of_not_le h1
    simp [h1, h1', relK, kindOfTag, Rs.fail, bind, Except.bind]

/-- one HTLC loop of `validate_commitment_tx` (`for htlc in &info.…_htlcs { validate_expiry(..)?; checked_add(..)?;
    if htlc.value_sat < limit { policy_err!(..) } }`, a `List.foldlM` in the generated text) = `checkHtlcs` -/
theorem relK_htlc_loop (p : Policy) (c : ChainState) (limit : Nat)
    (f : Nat → Gen.FnSimpleCommit.HTLCInfo2 Nat → Rs.M Nat)
    (hf : ∀ acc h, relK (f acc (toH h)) = (do
        validateExpiry p c h.expiry
        hard .overflow (decide (acc + h.value > U64.MAX))
        check p .outputsTrimmed (decide (h.value < limit))
        pure (acc + h.value))) :
    ∀ (l : List Htlc) (acc : Nat), relK (List.foldlM f acc (l.map toH)) = checkHtlcs p c limit l acc := by
  intro l
  induction l with
  | nil => intro acc; simp [checkHtlcs]
  | cons h rest ih =>
    intro acc
    simp only [List.map_cons, List.foldlM_cons, relK_bind, hf, checkHtlcs, ih]
    simp only [bind_assoc, pure_bind]

theorem is_zero_fee_eq (s : Setup) :
    Gen.FnSimpleCommit.ChannelSetup.is_zero_fee_htlc (toCS s) = s.isZeroFeeHtlc := by
  unfold Gen.FnSimpleCommit.ChannelSetup.is_zero_fee_htlc Setup.isZeroFeeHtlc
  simp only [toCS]
  generalize s.ctype = t
  cases t <;> rfl

theorem is_anchors_eq (s : Setup) : Gen.FnSimpleCommit.ChannelSetup.is_anchors (toCS s) = s.isAnchors := by
  unfold Gen.FnSimpleCommit.ChannelSetup.is_anchors Setup.isAnchors
  simp only [toCS]
  generalize s.ctype = t
  cases t <;> rfl

/-- the copy of `expected_commitment_tx_weight` in the area `SimpleCommit` (same source function as
    `C05_fn_commitment_weight`) -/
theorem weight_eq (anchors : Bool) (n : Nat) (hn : n * 172 + 1124 ≤ Rs.USIZE_MAX) :
    Gen.FnSimpleCommit.expected_commitment_tx_weight anchors n = .ok (commitmentWeight anchors n) := by
  unfold Gen.FnSimpleCommit.expected_commitment_tx_weight commitmentWeight
  unfold Rs.USIZE_MAX at hn
  have h1 : n * 172 ≤ 18446744073709551615 := by omega
  have h2 : 1124 + n * 172 ≤ 18446744073709551615 := by omega
  have h3 : 724 + n * 172 ≤ 18446744073709551615 := by omega
  cases anchors <;>
    simp [Rs.umul, Rs.uadd, Rs.USIZE_MAX, h1, h2, h3, Gen.Policy.commitmentBaseAnchorWeight,
      Gen.Policy.commitmentBaseWeight, Gen.Policy.commitmentWeightPerHtlc]

theorem toV2_max_htlcs (p : Policy) : (toV2 p).policy.max_htlcs = p.maxHtlcs := rfl
theorem toV2_max_htlc_value (p : Policy) : (toV2 p).policy.max_htlc_value_sat = p.maxHtlcValue := rfl
theorem toCS_outbound (s : Setup) : (toCS s).is_outbound = s.isOutbound := rfl
theorem toCS_value (s : Setup) : (toCS s).channel_value_sat = s.channelValue := rfl
theorem toCS_push (s : Setup) : (toCS s).push_value_msat = s.pushMsat := rfl
theorem toCh_height (c : ChainState) : (toCh c).current_height = c.height := rfl
theorem toH_value (h : Htlc) : (toH h).value_sat = h.value := rfl
theorem toH_expiry (h : Htlc) : (toH h).cltv_expiry = h.expiry := rfl
theorem toCI2_cp (i : Info) : (toCI2 i).is_counterparty_broadcaster = i.isCp := rfl
theorem toCI2_cs (i : Info) : (toCI2 i).to_countersigner_value_sat = i.toCountersigner := rfl
theorem toCI2_br (i : Info) : (toCI2 i).to_broadcaster_value_sat = i.toBroadcaster := rfl
theorem toCI2_off (i : Info) : (toCI2 i).offered_htlcs = i.offered.map toH := rfl
theorem toCI2_rec (i : Info) : (toCI2 i).received_htlcs = i.received.map toH := rfl
theorem toCI2_fee (i : Info) : (toCI2 i).feerate_per_kw = i.feerate := rfl

theorem value_to_parties_eq (i : Info) :
    Gen.FnSimpleCommit.CommitmentInfo2.value_to_parties (toCI2 i) = (i.toHolder, i.toCounterparty) := by
  unfold Gen.FnSimpleCommit.CommitmentInfo2.value_to_parties Info.toHolder Info.toCounterparty
  by_cases h : i.isCp = true <;> simp [toCI2, h]

/-- the body of both HTLC loops, one step (the shape Lean's `do` gives the generated text: the trailing
    `pure htlc_value_sat` is moved into both branches of the `if`) -/
theorem htlc_step (p : Policy) (c : ChainState) (name : String) (limit acc : Nat) (h : Htlc) :
    relK (do
        Gen.FnSimpleCommit.SimpleValidator.validate_expiry (filt p) (toV2 p) name (toH h).cltv_expiry c.height
        let t_7 ← Rs.okOr (Rs.ucheckedAdd Rs.U64_MAX acc (toH h).value_sat) "policy-commitment-payment-velocity"
        if decide ((toH h).value_sat < limit) = true then do
          Rs.policyErr (filt p) "policy-commitment-outputs-trimmed"
          pure t_7
        else pure t_7)
      = (do
        validateExpiry p c h.expiry
        hard .overflow (decide (acc + h.value > U64.MAX))
        check p .outputsTrimmed (decide (h.value < limit))
        pure (acc + h.value)) := by
  simp only [relK_bind, toH_value, toH_expiry, relK_validate_expiry]
  cases validateExpiry p c h.expiry with
  | error e => rfl
  | ok u =>
    by_cases hle : acc + h.value ≤ 18446744073709551615
    · have hgt : ¬ 18446744073709551615 < acc + h.value := by omega
      by_cases hlt : h.value < limit <;>
        by_cases hflt : filterEval p.filter "policy-commitment-outputs-trimmed" = Gen.Policy.Action.error <;>
        simp [hle, hgt, hlt, hflt, Rs.okOr, Rs.ucheckedAdd, Rs.U64_MAX, U64.MAX, hard, check, policyErr, errs,
          Rs.policyErr, filt, Tag.name, Tag.kind, kindOfTag, relK, Rs.fail, bind, Except.bind, pure, Except.pure]
    · have hgt : 18446744073709551615 < acc + h.value := by omega
      by_cases hlt : h.value < limit <;>
        by_cases hflt : filterEval p.filter "policy-commitment-outputs-trimmed" = Gen.Policy.Action.error <;>
        simp [hle, hgt, hlt, hflt, Rs.okOr, Rs.ucheckedAdd, Rs.U64_MAX, U64.MAX, hard, check, policyErr, errs,
          Rs.policyErr, filt, Tag.name, Tag.kind, kindOfTag, relK, Rs.fail, bind, Except.bind, pure, Except.pure]

/-- either HTLC loop of the generated `validate_commitment_tx` = `checkHtlcs` -/
theorem relK_loop (p : Policy) (c : ChainState) (name : String) (limit : Nat) (l : List Htlc) (acc : Nat) :
    relK (List.foldlM (fun htlc_value_sat htlc => do
        Gen.FnSimpleCommit.SimpleValidator.validate_expiry (filt p) (toV2 p) name htlc.cltv_expiry c.height
        let t_7 ← Rs.okOr (Rs.ucheckedAdd Rs.U64_MAX htlc_value_sat htlc.value_sat) "policy-commitment-payment-velocity"
        if decide (htlc.value_sat < limit) = true then do
          Rs.policyErr (filt p) "policy-commitment-outputs-trimmed"
          pure t_7
        else pure t_7) acc (l.map toH)) = checkHtlcs p c limit l acc :=
  relK_htlc_loop p c limit _ (fun acc h => htlc_step p c name limit acc h) l acc

/-- `if c { policy_err!(self, tag, ..) }; rest` (Lean's `do` copies `rest` into both branches) -/
theorem relK_ite_policy {α : Type} (p : Policy) (t : Tag) (tag : String) (ht : tag = t.name) (hk : kindOfTag tag = t.kind)
    (c : Bool) (R : Rs.M α) :
    relK (if c = true then (do Rs.policyErr (filt p) tag; R) else R) = (do check p t c; relK R) := by
  subst ht
  unfold Rs.policyErr check policyErr errs filt
  cases c <;> by_cases h : filterEval p.filter t.name = Gen.Policy.Action.error <;>
    simp [h, relK, Rs.fail, hk, bind, Except.bind, pure, Except.pure]

/-- `a.checked_add(b).ok_or_else(|| policy_error("policy-commitment-payment-velocity", ..))?` -/
theorem relK_checked_add (a b : Nat) :
    relK (Rs.okOr (Rs.ucheckedAdd Rs.U64_MAX a b) "policy-commitment-payment-velocity")
      = (do hard .overflow (decide (a + b > U64.MAX)); pure (a + b)) := by
  by_cases h : a + b ≤ 18446744073709551615
  · have hgt : ¬ 18446744073709551615 < a + b := by omega
    simp [h, hgt, Rs.okOr, Rs.ucheckedAdd, Rs.U64_MAX, U64.MAX, hard, relK, kindOfTag, Rs.fail, bind, Except.bind, pure,
      Except.pure]
  · have hgt : 18446744073709551615 < a + b := by omega
    simp [h, hgt, Rs.okOr, Rs.ucheckedAdd, Rs.U64_MAX, U64.MAX, hard, relK, kindOfTag, Rs.fail, bind, Except.bind, pure,
      Except.pure]

/-- **`SimpleValidator::validate_commitment_tx`, the whole function** (dust of both main outputs, HTLC count, both
    HTLC loops with expiry / running `checked_add` / trim limit, in-flight limit, expected weight, the two `checked_add`s,
    `validate_fee`, the initial-commitment rules, and the order of all of them) is the model's `validateCommitmentTx`,
    outcome by outcome (`relK`: same refusal class, panic ↔ panic), for every policy, filter, setup, chain state,
    commitment number and content.  Hypotheses = what the callers guarantee by typing: the feerate is a `u32`, the
    channel value a `u64`, the HTLC vectors fit in memory; and LDK's `htlc_{timeout,success}_tx_weight` return
    663 / 703 for the non-zero-fee feature sets `ChannelSetup::features()` builds (externals; the only place they
    are consulted). -/
theorem C05_fn_validate_commitment_tx {CF : Type} (p : Policy) (s : Setup) (c : ChainState) (n : Nat) (i : Info)
    (es : Gen.FnSimpleCommit.EnforcementState Nat Nat) (point : Nat)
    (extF : Gen.FnSimpleCommit.ChannelSetup → CF) (extT extS : CF → Nat)
    (hT : s.isZeroFeeHtlc = false → extT (extF (toCS s)) = htlcTimeoutWeight)
    (hS : s.isZeroFeeHtlc = false → extS (extF (toCS s)) = htlcSuccessWeight)
    (hf : i.feerate ≤ Rs.U32_MAX)
    (hn : (i.offered.length + i.received.length) * 172 + 1124 ≤ Rs.USIZE_MAX)
    (hv : s.channelValue ≤ Rs.U64_MAX) :
    relK (Gen.FnSimpleCommit.SimpleValidator.validate_commitment_tx (filt p) extF extT extS (toV2 p) es n point
            (toCS s) (toCh c) (toCI2 i)) = validateCommitmentTx p s c n i := by
  have hlen : Rs.uadd Rs.USIZE_MAX i.offered.length i.received.length
      = Except.ok (i.offered.length + i.received.length) := by
    unfold Rs.uadd
    rw [if_pos (by omega)]; rfl
  have hw := weight_eq s.isAnchors (i.offered.length + i.received.length) hn
  have hwpos : commitmentWeight s.isAnchors (i.offered.length + i.received.length) ≠ 0 := by
    unfold commitmentWeight
    cases s.isAnchors <;>
      simp [Gen.Policy.commitmentBaseAnchorWeight, Gen.Policy.commitmentBaseWeight]
  have hfee := fun so => relK_validate_fee p s.channelValue so _ hwpos hv
  have e1 : ∀ {α : Type} (cc : Bool) (R : Rs.M α), _ := fun {α} cc R =>
    relK_ite_policy (α := α) p .outputsTrimmed "policy-commitment-outputs-trimmed" rfl (by simp [kindOfTag, Tag.kind]) cc R
  have e2 : ∀ {α : Type} (cc : Bool) (R : Rs.M α), _ := fun {α} cc R =>
    relK_ite_policy (α := α) p .htlcCountLimit "policy-commitment-htlc-count-limit" rfl (by simp [kindOfTag, Tag.kind]) cc R
  have e3 : ∀ {α : Type} (cc : Bool) (R : Rs.M α), _ := fun {α} cc R =>
    relK_ite_policy (α := α) p .htlcInflightLimit "policy-commitment-htlc-inflight-limit" rfl (by simp [kindOfTag, Tag.kind]) cc R
  have e4 : ∀ {α : Type} (cc : Bool) (R : Rs.M α), _ := fun {α} cc R =>
    relK_ite_policy (α := α) p .firstNoHtlcs "policy-commitment-first-no-htlcs" rfl (by simp [kindOfTag, Tag.kind]) cc R
  have e5 : ∀ {α : Type} (cc : Bool) (R : Rs.M α), _ := fun {α} cc R =>
    relK_ite_policy (α := α) p .initialFundingValue "policy-commitment-initial-funding-value" rfl
      (by simp [kindOfTag, Tag.kind]) cc R
  unfold Gen.FnSimpleCommit.SimpleValidator.validate_commitment_tx validateCommitmentTx
  have hdT : ∀ x, Rs.udiv x 1000 = Except.ok (x / 1000) := by intro x; simp [Rs.udiv]
  by_cases hz : s.isZeroFeeHtlc = true
  · by_cases hn0 : n = 0 <;> by_cases ho : s.isOutbound = true <;>
      simp only [toV2_max_htlcs, toV2_max_htlc_value, toCS_outbound, toCS_value, toCS_push, toCI2_cs, toCI2_br,
        toCI2_off, toCI2_rec, toCI2_fee, toCh_height, List.length_map, is_zero_fee_eq, is_anchors_eq, value_to_parties_eq,
        hlen, hw, hdT, Rs.bind_ok, pure_bind, hz, hn0, ho, beq_iff_eq, if_true, if_false, offeredDustLimit,
        receivedDustLimit, Gen.Policy.minChanDustLimit, Bool.false_eq_true] <;>
      simp only [e1, e2, e3, e4, e5, relK_bind, relK_loop, relK_checked_add, hfee, relK_ok, relK_pure, bind_assoc,
        pure_bind] <;>
      (simp [Gen.Policy.minChanDustLimit]; try rfl)
  · have hzf : s.isZeroFeeHtlc = false := by simpa using hz
    have hT' := hT hzf
    have hS' := hS hzf
    have hmT : Rs.umul Rs.U64_MAX i.feerate htlcTimeoutWeight = Except.ok (i.feerate * htlcTimeoutWeight) := by
      unfold Rs.umul Rs.U64_MAX htlcTimeoutWeight
      unfold Rs.U32_MAX at hf
      rw [if_pos (by omega)]; rfl
    have hmS : Rs.umul Rs.U64_MAX i.feerate htlcSuccessWeight = Except.ok (i.feerate * htlcSuccessWeight) := by
      unfold Rs.umul Rs.U64_MAX htlcSuccessWeight
      unfold Rs.U32_MAX at hf
      rw [if_pos (by omega)]; rfl
    have haT : Rs.uadd Rs.U64_MAX 330 (i.feerate * htlcTimeoutWeight / 1000)
        = Except.ok (330 + i.feerate * htlcTimeoutWeight / 1000) := by
      unfold Rs.uadd Rs.U64_MAX htlcTimeoutWeight
      unfold Rs.U32_MAX at hf
      rw [if_pos (by omega)]; rfl
    have haS : Rs.uadd Rs.U64_MAX 330 (i.feerate * htlcSuccessWeight / 1000)
        = Except.ok (330 + i.feerate * htlcSuccessWeight / 1000) := by
      unfold Rs.uadd Rs.U64_MAX htlcSuccessWeight
      unfold Rs.U32_MAX at hf
      rw [if_pos (by omega)]; rfl
    by_cases hn0 : n = 0 <;> by_cases ho : s.isOutbound = true <;>
      simp only [toV2_max_htlcs, toV2_max_htlc_value, toCS_outbound, toCS_value, toCS_push, toCI2_cs, toCI2_br,
        toCI2_off, toCI2_rec, toCI2_fee, toCh_height, List.length_map, is_zero_fee_eq, is_anchors_eq, value_to_parties_eq,
        hlen, hw, hdT, hT', hS', hmT, hmS, haT, haS, Rs.bind_ok, pure_bind, hzf, hn0, ho, beq_iff_eq, if_true, if_false,
        offeredDustLimit, receivedDustLimit, Gen.Policy.minDustLimit, Bool.false_eq_true] <;>
      simp only [e1, e2, e3, e4, e5, relK_bind, relK_loop, relK_checked_add, hfee, relK_ok, relK_pure, bind_assoc,
        pure_bind] <;>
      (simp [Gen.Policy.minChanDustLimit]; try rfl)

/-! ### the two sequencing wrappers `validate_counterparty_commitment_tx` / `validate_holder_commitment_tx`

They call `validate_commitment_tx` (tied above) and then compare the request with the enforcement state: counters,
the recorded per-commitment point, and the recorded `CommitmentInfo2` (derived `PartialEq`: every field, so the
generated structures carry every field and their `DecidableEq` is that relation; `toCI2` is injective). -/

theorem toH_inj : Function.Injective toH := by
  intro a b h
  cases a; cases b
  simp only [toH, Gen.FnSimpleCommit.HTLCInfo2.mk.injEq] at h
  obtain ⟨h1, h2, h3⟩ := h
  subst h1; subst h2; subst h3; rfl

theorem map_toH_inj : ∀ (a b : List Htlc), a.map toH = b.map toH → a = b
  | [], [], _ => rfl
  | [], _ :: _, h => by simp at h
  | _ :: _, [], h => by simp at h
  | x :: xs, y :: ys, h => by
    simp only [List.map_cons, List.cons.injEq] at h
    rw [toH_inj h.1, map_toH_inj xs ys h.2]

theorem toCI2_inj : Function.Injective toCI2 := by
  intro a b h
  cases a; cases b
  simp only [toCI2, Gen.FnSimpleCommit.CommitmentInfo2.mk.injEq] at h
  obtain ⟨h1, h2, h3, h4, h5, h6⟩ := h
  have h4' := map_toH_inj _ _ h4
  have h5' := map_toH_inj _ _ h5
  subst h1; subst h2; subst h3; subst h4'; subst h5'; subst h6; rfl

theorem toCI2_ne (i j : Info) : (toCI2 i != toCI2 j) = decide (i ≠ j) := by
  by_cases h : i = j
  · subst h; simp
  · have : toCI2 i ≠ toCI2 j := fun e => h (toCI2_inj e)
    simp [h, this]

theorem toCI2_some_ne (i : Info) (o : Option Info) : (some (toCI2 i) != o.map toCI2) = decide (some i ≠ o) := by
  cases o with
  | none => simp
  | some j =>
    by_cases h : i = j
    · subst h; simp
    · have : toCI2 i ≠ toCI2 j := fun e => h (toCI2_inj e)
      simp [h, this]

theorem relK_uadd64 (a b : Nat) : relK (Rs.uadd Rs.U64_MAX a b) = addU64 a b := by
  unfold Rs.uadd addU64
  by_cases h : a + b ≤ 18446744073709551615 <;> simp [h, Rs.U64_MAX, U64.MAX, relK, Rs.overflow, pure, Except.pure]

theorem relK_policyErr (p : Policy) (t : Tag) (tag : String) (ht : tag = t.name) (hk : kindOfTag tag = t.kind) :
    relK (Rs.policyErr (filt p) tag) = policyErr p t := by
  subst ht
  unfold Rs.policyErr policyErr errs filt
  by_cases h : filterEval p.filter t.name = Gen.Policy.Action.error <;>
    simp [h, relK, Rs.fail, hk, pure, Except.pure]

theorem toES2_nh (e : EState) : (toES2 e).next_holder_commit_num = e.nextHolder := rfl
theorem toES2_nc (e : EState) : (toES2 e).next_counterparty_commit_num = e.nextCp := rfl
theorem toES2_nr (e : EState) : (toES2 e).next_counterparty_revoke_num = e.nextRevoke := rfl
theorem toES2_pt (e : EState) : (toES2 e).current_counterparty_point = e.curCpPoint := rfl
theorem toES2_hi (e : EState) : (toES2 e).current_holder_commit_info = e.curHolderInfo.map toCI2 := rfl
theorem toES2_ci (e : EState) : (toES2 e).current_counterparty_commit_info = e.curCpInfo.map toCI2 := rfl
theorem toES2_pi (e : EState) : (toES2 e).previous_counterparty_commit_info = e.prevCpInfo.map toCI2 := rfl
theorem toES2_cl (e : EState) : (toES2 e).channel_closed = e.closed := rfl

/-- **`SimpleValidator::validate_counterparty_commitment_tx`** = the model's `validateCounterparty` (simple validator:
    `p.onchain = false`; the on-chain wrapper adds `ensure_funding_buried_and_unspent` in front,
    `C05_fn_ensure_funding_buried`): the common checks, `commit_num > next_counterparty_revoke_num + 1`, and on a
    retry the recorded point and the recorded `CommitmentInfo2` (through `get_previous_counterparty_commit_info`) -/
theorem C05_fn_validate_counterparty_commitment_tx {CF HD : Type} (p : Policy) (s : Setup) (c : ChainState) (e : EState)
    (n point : Nat) (i : Info)
    (dO dR : Gen.FnSimpleCommit.CommitmentInfo2 Nat → Gen.FnSimpleCommit.CommitmentInfo2 Nat → HD × HD)
    (extF : Gen.FnSimpleCommit.ChannelSetup → CF) (extT extS : CF → Nat)
    (hoc : p.onchain = false)
    (hT : s.isZeroFeeHtlc = false → extT (extF (toCS s)) = htlcTimeoutWeight)
    (hS : s.isZeroFeeHtlc = false → extS (extF (toCS s)) = htlcSuccessWeight)
    (hf : i.feerate ≤ Rs.U32_MAX)
    (hn : (i.offered.length + i.received.length) * 172 + 1124 ≤ Rs.USIZE_MAX)
    (hv : s.channelValue ≤ Rs.U64_MAX) :
    relK (Gen.FnSimpleCommit.SimpleValidator.validate_counterparty_commitment_tx dO dR (filt p) extF extT extS (toV2 p)
            (toES2 e) n point (toCS s) (toCh c) (toCI2 i)) = validateCounterparty p s c e n point i := by
  have hct := C05_fn_validate_commitment_tx p s c n i (toES2 e) point extF extT extS hT hS hf hn hv
  have q1 := relK_policyErr p .previousRevoked "policy-commitment-previous-revoked" rfl (by simp [kindOfTag, Tag.kind])
  have q2 := relK_policyErr p .retrySame "policy-commitment-retry-same" rfl (by simp [kindOfTag, Tag.kind])
  unfold Gen.FnSimpleCommit.SimpleValidator.validate_counterparty_commitment_tx validateCounterparty
    Gen.FnSimpleCommit.EnforcementState.get_previous_counterparty_commit_info
  simp only [hoc, whenE, Bool.false_eq_true, if_false, toES2_nc, toES2_nr, toES2_pt, toES2_ci, toES2_pi]
  simp only [relK_bind, hct]
  cases validateCommitmentTx p s c n i with
  | error k => rfl
  | ok u =>
    by_cases h1 : e.nextRevoke + 1 ≤ 18446744073709551615
    · by_cases h2 : n + 1 ≤ 18446744073709551615
      · by_cases h3 : e.nextCp = n + 1
        · have h3' : n + 1 = e.nextCp := h3.symm
          cases hp : e.curCpPoint with
          | none =>
            by_cases h0 : n > e.nextRevoke + 1 <;>
              by_cases f1 : filterEval p.filter "policy-commitment-previous-revoked" = Gen.Policy.Action.error <;>
              by_cases f2 : filterEval p.filter "policy-commitment-retry-same" = Gen.Policy.Action.error <;>
              by_cases h5 : some i = e.curCpInfo <;>
              simp [h1, h2, h0, h3, f1, f2, h5, hp, Rs.uadd, addU64, Rs.U64_MAX, U64.MAX, Rs.policyErr, filt, check,
                policyErr, errs, Tag.name, Tag.kind, kindOfTag, relK, cpRetryPoint, toCI2_some_ne, Rs.fail, Rs.overflow, bind,
                Except.bind, pure, Except.pure]
          | some prev =>
            by_cases h4 : point = prev
            ·
              by_cases h0 : n > e.nextRevoke + 1 <;>
                by_cases f1 : filterEval p.filter "policy-commitment-previous-revoked" = Gen.Policy.Action.error <;>
                by_cases f2 : filterEval p.filter "policy-commitment-retry-same" = Gen.Policy.Action.error <;>
                by_cases h5 : some i = e.curCpInfo <;>
                simp [h1, h2, h0, h3, f1, f2, h5, hp, h4, Rs.uadd, addU64, Rs.U64_MAX, U64.MAX, Rs.policyErr, filt, check,
                  policyErr, errs, Tag.name, Tag.kind, kindOfTag, relK, cpRetryPoint, toCI2_some_ne, Rs.fail, Rs.overflow, bind,
                  Except.bind, pure, Except.pure]
            ·
              by_cases h0 : n > e.nextRevoke + 1 <;>
                by_cases f1 : filterEval p.filter "policy-commitment-previous-revoked" = Gen.Policy.Action.error <;>
                by_cases f2 : filterEval p.filter "policy-commitment-retry-same" = Gen.Policy.Action.error <;>
                by_cases h5 : some i = e.curCpInfo <;>
                simp [h1, h2, h0, h3, f1, f2, h5, hp, h4, Rs.uadd, addU64, Rs.U64_MAX, U64.MAX, Rs.policyErr, filt, check,
                  policyErr, errs, Tag.name, Tag.kind, kindOfTag, relK, cpRetryPoint, toCI2_some_ne, Rs.fail, Rs.overflow, bind,
                  Except.bind, pure, Except.pure]
        · have h3' : ¬ n + 1 = e.nextCp := fun h => h3 h.symm
          cases hp : e.curCpPoint with
          | none =>
            by_cases h0 : n > e.nextRevoke + 1 <;>
              by_cases f1 : filterEval p.filter "policy-commitment-previous-revoked" = Gen.Policy.Action.error <;>
              by_cases f2 : filterEval p.filter "policy-commitment-retry-same" = Gen.Policy.Action.error <;>
              by_cases h5 : some i = e.curCpInfo <;>
              simp [h1, h2, h0, h3, h3', f1, f2, h5, hp, Rs.uadd, addU64, Rs.U64_MAX, U64.MAX, Rs.policyErr, filt, check,
                policyErr, errs, Tag.name, Tag.kind, kindOfTag, relK, cpRetryPoint, toCI2_some_ne, Rs.fail, Rs.overflow, bind,
                Except.bind, pure, Except.pure]
          | some prev =>
            by_cases h4 : point = prev
            ·
              by_cases h0 : n > e.nextRevoke + 1 <;>
                by_cases f1 : filterEval p.filter "policy-commitment-previous-revoked" = Gen.Policy.Action.error <;>
                by_cases f2 : filterEval p.filter "policy-commitment-retry-same" = Gen.Policy.Action.error <;>
                by_cases h5 : some i = e.curCpInfo <;>
                simp [h1, h2, h0, h3, h3', f1, f2, h5, hp, h4, Rs.uadd, addU64, Rs.U64_MAX, U64.MAX, Rs.policyErr, filt, check,
                  policyErr, errs, Tag.name, Tag.kind, kindOfTag, relK, cpRetryPoint, toCI2_some_ne, Rs.fail, Rs.overflow, bind,
                  Except.bind, pure, Except.pure]
            ·
              by_cases h0 : n > e.nextRevoke + 1 <;>
                by_cases f1 : filterEval p.filter "policy-commitment-previous-revoked" = Gen.Policy.Action.error <;>
                by_cases f2 : filterEval p.filter "policy-commitment-retry-same" = Gen.Policy.Action.error <;>
                by_cases h5 : some i = e.curCpInfo <;>
                simp [h1, h2, h0, h3, h3', f1, f2, h5, hp, h4, Rs.uadd, addU64, Rs.U64_MAX, U64.MAX, Rs.policyErr, filt, check,
                  policyErr, errs, Tag.name, Tag.kind, kindOfTag, relK, cpRetryPoint, toCI2_some_ne, Rs.fail, Rs.overflow, bind,
                  Except.bind, pure, Except.pure]
      · simp [h1, h2, Rs.uadd, addU64, Rs.U64_MAX, U64.MAX, Rs.policyErr, filt, check, policyErr, errs, Tag.name, Tag.kind,
          kindOfTag, relK, Rs.fail, Rs.overflow, bind, Except.bind, pure, Except.pure]
        by_cases h0 : n > e.nextRevoke + 1 <;>
          by_cases f1 : filterEval p.filter "policy-commitment-previous-revoked" = Gen.Policy.Action.error <;>
          simp [h0, f1, relK, Rs.overflow]
    · simp [h1, Rs.uadd, addU64, Rs.U64_MAX, U64.MAX, relK, Rs.overflow, bind, Except.bind]

/-- **`SimpleValidator::validate_holder_commitment_tx`** = the model's `validateHolder` (simple validator): the common
    checks, on a retry (`commit_num + 1 == next_holder_commit_num`) the recorded `CommitmentInfo2` (`expect` = panic when
    there is none), `commit_num + 2 <= next_holder_commit_num`, and no new holder commitment once the channel is closed -/
theorem C05_fn_validate_holder_commitment_tx {CF HD : Type} (p : Policy) (s : Setup) (c : ChainState) (e : EState)
    (n point : Nat) (i : Info)
    (dO dR : Gen.FnSimpleCommit.CommitmentInfo2 Nat → Gen.FnSimpleCommit.CommitmentInfo2 Nat → HD × HD)
    (extF : Gen.FnSimpleCommit.ChannelSetup → CF) (extT extS : CF → Nat)
    (hoc : p.onchain = false)
    (hT : s.isZeroFeeHtlc = false → extT (extF (toCS s)) = htlcTimeoutWeight)
    (hS : s.isZeroFeeHtlc = false → extS (extF (toCS s)) = htlcSuccessWeight)
    (hf : i.feerate ≤ Rs.U32_MAX)
    (hn : (i.offered.length + i.received.length) * 172 + 1124 ≤ Rs.USIZE_MAX)
    (hv : s.channelValue ≤ Rs.U64_MAX) :
    relK (Gen.FnSimpleCommit.SimpleValidator.validate_holder_commitment_tx dO dR (filt p) extF extT extS (toV2 p)
            (toES2 e) n point (toCS s) (toCh c) (toCI2 i)) = validateHolder p s c e n i := by
  have hct := C05_fn_validate_commitment_tx p s c n i (toES2 e) point extF extT extS hT hS hf hn hv
  unfold Gen.FnSimpleCommit.SimpleValidator.validate_holder_commitment_tx validateHolder
  simp only [hoc, whenE, Bool.false_and, Bool.false_eq_true, if_false, toES2_nh, toES2_hi, toES2_cl]
  simp only [relK_bind, hct]
  cases validateCommitmentTx p s c n i with
  | error k => rfl
  | ok u =>
    obtain ⟨N, hN⟩ : ∃ N, N = e.nextHolder := ⟨_, rfl⟩
    simp only [← hN]
    by_cases h2 : n + 1 ≤ 18446744073709551615
    · by_cases h2b : n + 2 ≤ 18446744073709551615
      rcases (by omega : N < n ∨ N = n ∨ N = n + 1 ∨ n + 2 ≤ N) with hr | hr | hr | hr
      · have k1 : ¬ n + 1 = N := by omega
        have k2 : ¬ n + 2 ≤ N := by omega
        have k3 : ¬ n = N := by omega
        clear hr
        cases hcur : e.curHolderInfo with
        | none =>
          by_cases f2 : filterEval p.filter "policy-commitment-retry-same" = Gen.Policy.Action.error <;>
            by_cases f3 : filterEval p.filter "policy-commitment-holder-not-revoked" = Gen.Policy.Action.error <;>
            by_cases f4 : filterEval p.filter "policy-commitment-spends-active-utxo" = Gen.Policy.Action.error <;>
            by_cases hcl : e.closed = true <;>
            simp [h2, h2b, k1, k2, k3, hcur, f2, f3, f4, hcl, Rs.uadd, addU64, Rs.U64_MAX, U64.MAX, Rs.policyErr, filt, check,
              policyErr, errs, Tag.name, Tag.kind, kindOfTag, relK, holderRetry, toCI2_ne, Rs.unwrap, Rs.panic, Rs.fail, Rs.overflow,
              bind, Except.bind, pure, Except.pure]
        | some cur =>
          by_cases h5 : i = cur
          ·
            by_cases f2 : filterEval p.filter "policy-commitment-retry-same" = Gen.Policy.Action.error <;>
              by_cases f3 : filterEval p.filter "policy-commitment-holder-not-revoked" = Gen.Policy.Action.error <;>
              by_cases f4 : filterEval p.filter "policy-commitment-spends-active-utxo" = Gen.Policy.Action.error <;>
              by_cases hcl : e.closed = true <;>
              simp [h2, h2b, k1, k2, k3, hcur, h5, f2, f3, f4, hcl, Rs.uadd, addU64, Rs.U64_MAX, U64.MAX, Rs.policyErr, filt, check,
              policyErr, errs, Tag.name, Tag.kind, kindOfTag, relK, holderRetry, toCI2_ne, Rs.unwrap, Rs.panic, Rs.fail, Rs.overflow,
              bind, Except.bind, pure, Except.pure]
          ·
            by_cases f2 : filterEval p.filter "policy-commitment-retry-same" = Gen.Policy.Action.error <;>
              by_cases f3 : filterEval p.filter "policy-commitment-holder-not-revoked" = Gen.Policy.Action.error <;>
              by_cases f4 : filterEval p.filter "policy-commitment-spends-active-utxo" = Gen.Policy.Action.error <;>
              by_cases hcl : e.closed = true <;>
              simp [h2, h2b, k1, k2, k3, hcur, h5, f2, f3, f4, hcl, Rs.uadd, addU64, Rs.U64_MAX, U64.MAX, Rs.policyErr, filt, check,
              policyErr, errs, Tag.name, Tag.kind, kindOfTag, relK, holderRetry, toCI2_ne, Rs.unwrap, Rs.panic, Rs.fail, Rs.overflow,
              bind, Except.bind, pure, Except.pure]
      · subst hr
        have k1 : ¬ N + 1 = N := by omega
        have k2 : ¬ N + 2 ≤ N := by omega
        have k3 : True := trivial
        cases hcur : e.curHolderInfo with
        | none =>
          by_cases f2 : filterEval p.filter "policy-commitment-retry-same" = Gen.Policy.Action.error <;>
            by_cases f3 : filterEval p.filter "policy-commitment-holder-not-revoked" = Gen.Policy.Action.error <;>
            by_cases f4 : filterEval p.filter "policy-commitment-spends-active-utxo" = Gen.Policy.Action.error <;>
            by_cases hcl : e.closed = true <;>
            simp [h2, h2b, k1, k2, k3, hcur, f2, f3, f4, hcl, Rs.uadd, addU64, Rs.U64_MAX, U64.MAX, Rs.policyErr, filt, check,
              policyErr, errs, Tag.name, Tag.kind, kindOfTag, relK, holderRetry, toCI2_ne, Rs.unwrap, Rs.panic, Rs.fail, Rs.overflow,
              bind, Except.bind, pure, Except.pure]
        | some cur =>
          by_cases h5 : i = cur
          ·
            by_cases f2 : filterEval p.filter "policy-commitment-retry-same" = Gen.Policy.Action.error <;>
              by_cases f3 : filterEval p.filter "policy-commitment-holder-not-revoked" = Gen.Policy.Action.error <;>
              by_cases f4 : filterEval p.filter "policy-commitment-spends-active-utxo" = Gen.Policy.Action.error <;>
              by_cases hcl : e.closed = true <;>
              simp [h2, h2b, k1, k2, k3, hcur, h5, f2, f3, f4, hcl, Rs.uadd, addU64, Rs.U64_MAX, U64.MAX, Rs.policyErr, filt, check,
              policyErr, errs, Tag.name, Tag.kind, kindOfTag, relK, holderRetry, toCI2_ne, Rs.unwrap, Rs.panic, Rs.fail, Rs.overflow,
              bind, Except.bind, pure, Except.pure]
          ·
            by_cases f2 : filterEval p.filter "policy-commitment-retry-same" = Gen.Policy.Action.error <;>
              by_cases f3 : filterEval p.filter "policy-commitment-holder-not-revoked" = Gen.Policy.Action.error <;>
              by_cases f4 : filterEval p.filter "policy-commitment-spends-active-utxo" = Gen.Policy.Action.error <;>
              by_cases hcl : e.closed = true <;>
              simp [h2, h2b, k1, k2, k3, hcur, h5, f2, f3, f4, hcl, Rs.uadd, addU64, Rs.U64_MAX, U64.MAX, Rs.policyErr, filt, check,
              policyErr, errs, Tag.name, Tag.kind, kindOfTag, relK, holderRetry, toCI2_ne, Rs.unwrap, Rs.panic, Rs.fail, Rs.overflow,
              bind, Except.bind, pure, Except.pure]
      · subst hr
        have k1 : True := trivial
        have k2 : ¬ n + 2 ≤ n + 1 := by omega
        have k3 : ¬ n = n + 1 := by omega
        cases hcur : e.curHolderInfo with
        | none =>
          by_cases f2 : filterEval p.filter "policy-commitment-retry-same" = Gen.Policy.Action.error <;>
            by_cases f3 : filterEval p.filter "policy-commitment-holder-not-revoked" = Gen.Policy.Action.error <;>
            by_cases f4 : filterEval p.filter "policy-commitment-spends-active-utxo" = Gen.Policy.Action.error <;>
            by_cases hcl : e.closed = true <;>
            simp [h2, h2b, k1, k2, k3, hcur, f2, f3, f4, hcl, Rs.uadd, addU64, Rs.U64_MAX, U64.MAX, Rs.policyErr, filt, check,
              policyErr, errs, Tag.name, Tag.kind, kindOfTag, relK, holderRetry, toCI2_ne, Rs.unwrap, Rs.panic, Rs.fail, Rs.overflow,
              bind, Except.bind, pure, Except.pure]
        | some cur =>
          by_cases h5 : i = cur
          ·
            by_cases f2 : filterEval p.filter "policy-commitment-retry-same" = Gen.Policy.Action.error <;>
              by_cases f3 : filterEval p.filter "policy-commitment-holder-not-revoked" = Gen.Policy.Action.error <;>
              by_cases f4 : filterEval p.filter "policy-commitment-spends-active-utxo" = Gen.Policy.Action.error <;>
              by_cases hcl : e.closed = true <;>
              simp [h2, h2b, k1, k2, k3, hcur, h5, f2, f3, f4, hcl, Rs.uadd, addU64, Rs.U64_MAX, U64.MAX, Rs.policyErr, filt, check,
              policyErr, errs, Tag.name, Tag.kind, kindOfTag, relK, holderRetry, toCI2_ne, Rs.unwrap, Rs.panic, Rs.fail, Rs.overflow,
              bind, Except.bind, pure, Except.pure]
          ·
            by_cases f2 : filterEval p.filter "policy-commitment-retry-same" = Gen.Policy.Action.error <;>
              by_cases f3 : filterEval p.filter "policy-commitment-holder-not-revoked" = Gen.Policy.Action.error <;>
              by_cases f4 : filterEval p.filter "policy-commitment-spends-active-utxo" = Gen.Policy.Action.error <;>
              by_cases hcl : e.closed = true <;>
              simp [h2, h2b, k1, k2, k3, hcur, h5, f2, f3, f4, hcl, Rs.uadd, addU64, Rs.U64_MAX, U64.MAX, Rs.policyErr, filt, check,
              policyErr, errs, Tag.name, Tag.kind, kindOfTag, relK, holderRetry, toCI2_ne, Rs.unwrap, Rs.panic, Rs.fail, Rs.overflow,
              bind, Except.bind, pure, Except.pure]
      · have k1 : ¬ n + 1 = N := by omega
        have k2 : n + 2 ≤ N := by omega
        have k3 : ¬ n = N := by omega
        clear hr
        cases hcur : e.curHolderInfo with
        | none =>
          by_cases f2 : filterEval p.filter "policy-commitment-retry-same" = Gen.Policy.Action.error <;>
            by_cases f3 : filterEval p.filter "policy-commitment-holder-not-revoked" = Gen.Policy.Action.error <;>
            by_cases f4 : filterEval p.filter "policy-commitment-spends-active-utxo" = Gen.Policy.Action.error <;>
            by_cases hcl : e.closed = true <;>
            simp [h2, h2b, k1, k2, k3, hcur, f2, f3, f4, hcl, Rs.uadd, addU64, Rs.U64_MAX, U64.MAX, Rs.policyErr, filt, check,
              policyErr, errs, Tag.name, Tag.kind, kindOfTag, relK, holderRetry, toCI2_ne, Rs.unwrap, Rs.panic, Rs.fail, Rs.overflow,
              bind, Except.bind, pure, Except.pure]
        | some cur =>
          by_cases h5 : i = cur
          ·
            by_cases f2 : filterEval p.filter "policy-commitment-retry-same" = Gen.Policy.Action.error <;>
              by_cases f3 : filterEval p.filter "policy-commitment-holder-not-revoked" = Gen.Policy.Action.error <;>
              by_cases f4 : filterEval p.filter "policy-commitment-spends-active-utxo" = Gen.Policy.Action.error <;>
              by_cases hcl : e.closed = true <;>
              simp [h2, h2b, k1, k2, k3, hcur, h5, f2, f3, f4, hcl, Rs.uadd, addU64, Rs.U64_MAX, U64.MAX, Rs.policyErr, filt, check,
              policyErr, errs, Tag.name, Tag.kind, kindOfTag, relK, holderRetry, toCI2_ne, Rs.unwrap, Rs.panic, Rs.fail, Rs.overflow,
              bind, Except.bind, pure, Except.pure]
          ·
            by_cases f2 : filterEval p.filter "policy-commitment-retry-same" = Gen.Policy.Action.error <;>
              by_cases f3 : filterEval p.filter "policy-commitment-holder-not-revoked" = Gen.Policy.Action.error <;>
              by_cases f4 : filterEval p.filter "policy-commitment-spends-active-utxo" = Gen.Policy.Action.error <;>
              by_cases hcl : e.closed = true <;>
              simp [h2, h2b, k1, k2, k3, hcur, h5, f2, f3, f4, hcl, Rs.uadd, addU64, Rs.U64_MAX, U64.MAX, Rs.policyErr, filt, check,
              policyErr, errs, Tag.name, Tag.kind, kindOfTag, relK, holderRetry, toCI2_ne, Rs.unwrap, Rs.panic, Rs.fail, Rs.overflow,
              bind, Except.bind, pure, Except.pure]
      ·
        rcases (by omega : N < n ∨ N = n ∨ N = n + 1 ∨ n + 2 ≤ N) with hr | hr | hr | hr
        · have k1 : ¬ n + 1 = N := by omega
          have k2 : ¬ n + 2 ≤ N := by omega
          have k3 : ¬ n = N := by omega
          clear hr
          cases hcur : e.curHolderInfo with
          | none =>
            by_cases f2 : filterEval p.filter "policy-commitment-retry-same" = Gen.Policy.Action.error <;>
              by_cases f3 : filterEval p.filter "policy-commitment-holder-not-revoked" = Gen.Policy.Action.error <;>
              by_cases f4 : filterEval p.filter "policy-commitment-spends-active-utxo" = Gen.Policy.Action.error <;>
              by_cases hcl : e.closed = true <;>
              simp [h2, h2b, k1, k2, k3, hcur, f2, f3, f4, hcl, Rs.uadd, addU64, Rs.U64_MAX, U64.MAX, Rs.policyErr, filt, check,
              policyErr, errs, Tag.name, Tag.kind, kindOfTag, relK, holderRetry, toCI2_ne, Rs.unwrap, Rs.panic, Rs.fail, Rs.overflow,
              bind, Except.bind, pure, Except.pure]
          | some cur =>
            by_cases h5 : i = cur
            ·
              by_cases f2 : filterEval p.filter "policy-commitment-retry-same" = Gen.Policy.Action.error <;>
                by_cases f3 : filterEval p.filter "policy-commitment-holder-not-revoked" = Gen.Policy.Action.error <;>
                by_cases f4 : filterEval p.filter "policy-commitment-spends-active-utxo" = Gen.Policy.Action.error <;>
                by_cases hcl : e.closed = true <;>
                simp [h2, h2b, k1, k2, k3, hcur, h5, f2, f3, f4, hcl, Rs.uadd, addU64, Rs.U64_MAX, U64.MAX, Rs.policyErr, filt, check,
              policyErr, errs, Tag.name, Tag.kind, kindOfTag, relK, holderRetry, toCI2_ne, Rs.unwrap, Rs.panic, Rs.fail, Rs.overflow,
              bind, Except.bind, pure, Except.pure]
            ·
              by_cases f2 : filterEval p.filter "policy-commitment-retry-same" = Gen.Policy.Action.error <;>
                by_cases f3 : filterEval p.filter "policy-commitment-holder-not-revoked" = Gen.Policy.Action.error <;>
                by_cases f4 : filterEval p.filter "policy-commitment-spends-active-utxo" = Gen.Policy.Action.error <;>
                by_cases hcl : e.closed = true <;>
                simp [h2, h2b, k1, k2, k3, hcur, h5, f2, f3, f4, hcl, Rs.uadd, addU64, Rs.U64_MAX, U64.MAX, Rs.policyErr, filt, check,
              policyErr, errs, Tag.name, Tag.kind, kindOfTag, relK, holderRetry, toCI2_ne, Rs.unwrap, Rs.panic, Rs.fail, Rs.overflow,
              bind, Except.bind, pure, Except.pure]
        · subst hr
          have k1 : ¬ N + 1 = N := by omega
          have k2 : ¬ N + 2 ≤ N := by omega
          have k3 : True := trivial
          cases hcur : e.curHolderInfo with
          | none =>
            by_cases f2 : filterEval p.filter "policy-commitment-retry-same" = Gen.Policy.Action.error <;>
              by_cases f3 : filterEval p.filter "policy-commitment-holder-not-revoked" = Gen.Policy.Action.error <;>
              by_cases f4 : filterEval p.filter "policy-commitment-spends-active-utxo" = Gen.Policy.Action.error <;>
              by_cases hcl : e.closed = true <;>
              simp [h2, h2b, k1, k2, k3, hcur, f2, f3, f4, hcl, Rs.uadd, addU64, Rs.U64_MAX, U64.MAX, Rs.policyErr, filt, check,
              policyErr, errs, Tag.name, Tag.kind, kindOfTag, relK, holderRetry, toCI2_ne, Rs.unwrap, Rs.panic, Rs.fail, Rs.overflow,
              bind, Except.bind, pure, Except.pure]
          | some cur =>
            by_cases h5 : i = cur
            ·
              by_cases f2 : filterEval p.filter "policy-commitment-retry-same" = Gen.Policy.Action.error <;>
                by_cases f3 : filterEval p.filter "policy-commitment-holder-not-revoked" = Gen.Policy.Action.error <;>
                by_cases f4 : filterEval p.filter "policy-commitment-spends-active-utxo" = Gen.Policy.Action.error <;>
                by_cases hcl : e.closed = true <;>
                simp [h2, h2b, k1, k2, k3, hcur, h5, f2, f3, f4, hcl, Rs.uadd, addU64, Rs.U64_MAX, U64.MAX, Rs.policyErr, filt, check,
              policyErr, errs, Tag.name, Tag.kind, kindOfTag, relK, holderRetry, toCI2_ne, Rs.unwrap, Rs.panic, Rs.fail, Rs.overflow,
              bind, Except.bind, pure, Except.pure]
            ·
              by_cases f2 : filterEval p.filter "policy-commitment-retry-same" = Gen.Policy.Action.error <;>
                by_cases f3 : filterEval p.filter "policy-commitment-holder-not-revoked" = Gen.Policy.Action.error <;>
                by_cases f4 : filterEval p.filter "policy-commitment-spends-active-utxo" = Gen.Policy.Action.error <;>
                by_cases hcl : e.closed = true <;>
                simp [h2, h2b, k1, k2, k3, hcur, h5, f2, f3, f4, hcl, Rs.uadd, addU64, Rs.U64_MAX, U64.MAX, Rs.policyErr, filt, check,
              policyErr, errs, Tag.name, Tag.kind, kindOfTag, relK, holderRetry, toCI2_ne, Rs.unwrap, Rs.panic, Rs.fail, Rs.overflow,
              bind, Except.bind, pure, Except.pure]
        · subst hr
          have k1 : True := trivial
          have k2 : ¬ n + 2 ≤ n + 1 := by omega
          have k3 : ¬ n = n + 1 := by omega
          cases hcur : e.curHolderInfo with
          | none =>
            by_cases f2 : filterEval p.filter "policy-commitment-retry-same" = Gen.Policy.Action.error <;>
              by_cases f3 : filterEval p.filter "policy-commitment-holder-not-revoked" = Gen.Policy.Action.error <;>
              by_cases f4 : filterEval p.filter "policy-commitment-spends-active-utxo" = Gen.Policy.Action.error <;>
              by_cases hcl : e.closed = true <;>
              simp [h2, h2b, k1, k2, k3, hcur, f2, f3, f4, hcl, Rs.uadd, addU64, Rs.U64_MAX, U64.MAX, Rs.policyErr, filt, check,
              policyErr, errs, Tag.name, Tag.kind, kindOfTag, relK, holderRetry, toCI2_ne, Rs.unwrap, Rs.panic, Rs.fail, Rs.overflow,
              bind, Except.bind, pure, Except.pure]
          | some cur =>
            by_cases h5 : i = cur
            ·
              by_cases f2 : filterEval p.filter "policy-commitment-retry-same" = Gen.Policy.Action.error <;>
                by_cases f3 : filterEval p.filter "policy-commitment-holder-not-revoked" = Gen.Policy.Action.error <;>
                by_cases f4 : filterEval p.filter "policy-commitment-spends-active-utxo" = Gen.Policy.Action.error <;>
                by_cases hcl : e.closed = true <;>
                simp [h2, h2b, k1, k2, k3, hcur, h5, f2, f3, f4, hcl, Rs.uadd, addU64, Rs.U64_MAX, U64.MAX, Rs.policyErr, filt, check,
              policyErr, errs, Tag.name, Tag.kind, kindOfTag, relK, holderRetry, toCI2_ne, Rs.unwrap, Rs.panic, Rs.fail, Rs.overflow,
              bind, Except.bind, pure, Except.pure]
            ·
              by_cases f2 : filterEval p.filter "policy-commitment-retry-same" = Gen.Policy.Action.error <;>
                by_cases f3 : filterEval p.filter "policy-commitment-holder-not-revoked" = Gen.Policy.Action.error <;>
                by_cases f4 : filterEval p.filter "policy-commitment-spends-active-utxo" = Gen.Policy.Action.error <;>
                by_cases hcl : e.closed = true <;>
                simp [h2, h2b, k1, k2, k3, hcur, h5, f2, f3, f4, hcl, Rs.uadd, addU64, Rs.U64_MAX, U64.MAX, Rs.policyErr, filt, check,
              policyErr, errs, Tag.name, Tag.kind, kindOfTag, relK, holderRetry, toCI2_ne, Rs.unwrap, Rs.panic, Rs.fail, Rs.overflow,
              bind, Except.bind, pure, Except.pure]
        · have k1 : ¬ n + 1 = N := by omega
          have k2 : n + 2 ≤ N := by omega
          have k3 : ¬ n = N := by omega
          clear hr
          cases hcur : e.curHolderInfo with
          | none =>
            by_cases f2 : filterEval p.filter "policy-commitment-retry-same" = Gen.Policy.Action.error <;>
              by_cases f3 : filterEval p.filter "policy-commitment-holder-not-revoked" = Gen.Policy.Action.error <;>
              by_cases f4 : filterEval p.filter "policy-commitment-spends-active-utxo" = Gen.Policy.Action.error <;>
              by_cases hcl : e.closed = true <;>
              simp [h2, h2b, k1, k2, k3, hcur, f2, f3, f4, hcl, Rs.uadd, addU64, Rs.U64_MAX, U64.MAX, Rs.policyErr, filt, check,
              policyErr, errs, Tag.name, Tag.kind, kindOfTag, relK, holderRetry, toCI2_ne, Rs.unwrap, Rs.panic, Rs.fail, Rs.overflow,
              bind, Except.bind, pure, Except.pure]
          | some cur =>
            by_cases h5 : i = cur
            ·
              by_cases f2 : filterEval p.filter "policy-commitment-retry-same" = Gen.Policy.Action.error <;>
                by_cases f3 : filterEval p.filter "policy-commitment-holder-not-revoked" = Gen.Policy.Action.error <;>
                by_cases f4 : filterEval p.filter "policy-commitment-spends-active-utxo" = Gen.Policy.Action.error <;>
                by_cases hcl : e.closed = true <;>
                simp [h2, h2b, k1, k2, k3, hcur, h5, f2, f3, f4, hcl, Rs.uadd, addU64, Rs.U64_MAX, U64.MAX, Rs.policyErr, filt, check,
              policyErr, errs, Tag.name, Tag.kind, kindOfTag, relK, holderRetry, toCI2_ne, Rs.unwrap, Rs.panic, Rs.fail, Rs.overflow,
              bind, Except.bind, pure, Except.pure]
            ·
              by_cases f2 : filterEval p.filter "policy-commitment-retry-same" = Gen.Policy.Action.error <;>
                by_cases f3 : filterEval p.filter "policy-commitment-holder-not-revoked" = Gen.Policy.Action.error <;>
                by_cases f4 : filterEval p.filter "policy-commitment-spends-active-utxo" = Gen.Policy.Action.error <;>
                by_cases hcl : e.closed = true <;>
                simp [h2, h2b, k1, k2, k3, hcur, h5, f2, f3, f4, hcl, Rs.uadd, addU64, Rs.U64_MAX, U64.MAX, Rs.policyErr, filt, check,
              policyErr, errs, Tag.name, Tag.kind, kindOfTag, relK, holderRetry, toCI2_ne, Rs.unwrap, Rs.panic, Rs.fail, Rs.overflow,
              bind, Except.bind, pure, Except.pure]
    · have h2b : ¬ n + 2 ≤ 18446744073709551615 := by omega
      simp [h2, h2b, Rs.uadd, addU64, Rs.U64_MAX, U64.MAX, relK, Rs.overflow, bind, Except.bind]

/-! ### the `OnchainValidator` wrappers around them (`policy/onchain_validator.rs`)

`self.inner` (an `Arc<dyn Validator>`) is an external of the generated wrappers; the theorems instantiate it with the
generated `SimpleValidator` methods tied above, so the statement is about the composition the on-chain factory builds:
WHICH requests pass `ensure_funding_buried_and_unspent` (every counterparty commitment; a holder commitment iff
`next_holder_commit_num <= commit_num`) and that the arguments are handed on unchanged. -/

def toOV2 : Gen.FnSimpleCommit.OnchainValidator Unit :=
  { inner := (), policy := { min_funding_depth := Gen.Policy.minFundingDepth } }

theorem relK_ensure_funding (p : Policy) (c : ChainState) (n : Nat) :
    relK (Gen.FnSimpleCommit.OnchainValidator.ensure_funding_buried_and_unspent (filt p) toOV2 n (toCh c))
      = ensureFundingBuried p c n := by
  unfold Gen.FnSimpleCommit.OnchainValidator.ensure_funding_buried_and_unspent ensureFundingBuried check policyErr errs
    Rs.policyErr
  simp only [toOV2, toCh, filt, Tag.name]
  by_cases h0 : n > 0 <;>
    by_cases h1 : c.fundingDepth < Gen.Policy.minFundingDepth <;>
    by_cases h2 : c.closingDepth > 0 <;>
    by_cases h3 : filterEval p.filter "policy-commitment-spends-active-utxo" = Gen.Policy.Action.error <;>
    simp [h0, h1, h2, h3, relK, kindOfTag, Tag.kind, Rs.fail, bind, Except.bind, pure, Except.pure]

theorem checkHtlcs_off (p : Policy) (c : ChainState) (lim : Nat) :
    ∀ (l : List Htlc) (acc : Nat), checkHtlcs { p with onchain := false } c lim l acc = checkHtlcs p c lim l acc := by
  intro l
  induction l with
  | nil => intro acc; rfl
  | cons h rest ih =>
    intro acc
    simp only [checkHtlcs, ih]
    rfl

theorem validateCommitmentTx_off (p : Policy) (s : Setup) (c : ChainState) (n : Nat) (i : Info) :
    validateCommitmentTx { p with onchain := false } s c n i = validateCommitmentTx p s c n i := by
  unfold validateCommitmentTx
  simp only [checkHtlcs_off]
  rfl

/-- the part of the model's `validateCounterparty` / `validateHolder` behind the on-chain gate does not depend on which
    factory built the validator -/
theorem validateCounterparty_split (p : Policy) (s : Setup) (c : ChainState) (e : EState) (n point : Nat) (i : Info) :
    validateCounterparty p s c e n point i
      = (do whenE p.onchain (ensureFundingBuried p c n)
            validateCounterparty { p with onchain := false } s c e n point i) := by
  unfold validateCounterparty
  simp only [whenE, Bool.false_eq_true, if_false, validateCommitmentTx_off]
  rfl

theorem validateHolder_split (p : Policy) (s : Setup) (c : ChainState) (e : EState) (n : Nat) (i : Info) :
    validateHolder p s c e n i
      = (do whenE (p.onchain && decide (e.nextHolder ≤ n)) (ensureFundingBuried p c n)
            validateHolder { p with onchain := false } s c e n i) := by
  unfold validateHolder
  simp only [whenE, Bool.false_and, Bool.false_eq_true, if_false, validateCommitmentTx_off]
  rfl

/-- **`OnchainValidator::validate_counterparty_commitment_tx` over the simple validator** = `validateCounterparty` with
    `p.onchain = true`: every counterparty commitment number goes through the gate, whatever the counters say -/
theorem C05_fn_onchain_validate_counterparty_commitment_tx {CF HD : Type} (p : Policy) (s : Setup) (c : ChainState)
    (e : EState) (n point : Nat) (i : Info)
    (dO dR : Gen.FnSimpleCommit.CommitmentInfo2 Nat → Gen.FnSimpleCommit.CommitmentInfo2 Nat → HD × HD)
    (extF : Gen.FnSimpleCommit.ChannelSetup → CF) (extT extS : CF → Nat)
    (hoc : p.onchain = true)
    (hT : s.isZeroFeeHtlc = false → extT (extF (toCS s)) = htlcTimeoutWeight)
    (hS : s.isZeroFeeHtlc = false → extS (extF (toCS s)) = htlcSuccessWeight)
    (hf : i.feerate ≤ Rs.U32_MAX)
    (hn : (i.offered.length + i.received.length) * 172 + 1124 ≤ Rs.USIZE_MAX)
    (hv : s.channelValue ≤ Rs.U64_MAX) :
    relK (Gen.FnSimpleCommit.OnchainValidator.validate_counterparty_commitment_tx (filt p)
            (fun _ es m pt st cs inf => Gen.FnSimpleCommit.SimpleValidator.validate_counterparty_commitment_tx dO dR
              (filt p) extF extT extS (toV2 p) es m pt st cs inf)
            toOV2 (toES2 e) n point (toCS s) (toCh c) (toCI2 i)) = validateCounterparty p s c e n point i := by
  have hin := C05_fn_validate_counterparty_commitment_tx { p with onchain := false } s c e n point i dO dR extF extT extS rfl
    hT hS hf hn hv
  rw [validateCounterparty_split, hoc]
  unfold Gen.FnSimpleCommit.OnchainValidator.validate_counterparty_commitment_tx
  simp only [relK_bind, relK_ensure_funding, whenE, if_true]
  exact congrArg _ (funext fun _ => hin)

/-- **`OnchainValidator::validate_holder_commitment_tx` over the simple validator** = `validateHolder` with
    `p.onchain = true`: the gate is applied iff `next_holder_commit_num <= commit_num` (a NEW holder commitment) -/
theorem C05_fn_onchain_validate_holder_commitment_tx {CF HD : Type} (p : Policy) (s : Setup) (c : ChainState)
    (e : EState) (n point : Nat) (i : Info)
    (dO dR : Gen.FnSimpleCommit.CommitmentInfo2 Nat → Gen.FnSimpleCommit.CommitmentInfo2 Nat → HD × HD)
    (extF : Gen.FnSimpleCommit.ChannelSetup → CF) (extT extS : CF → Nat)
    (hoc : p.onchain = true)
    (hT : s.isZeroFeeHtlc = false → extT (extF (toCS s)) = htlcTimeoutWeight)
    (hS : s.isZeroFeeHtlc = false → extS (extF (toCS s)) = htlcSuccessWeight)
    (hf : i.feerate ≤ Rs.U32_MAX)
    (hn : (i.offered.length + i.received.length) * 172 + 1124 ≤ Rs.USIZE_MAX)
    (hv : s.channelValue ≤ Rs.U64_MAX) :
    relK (Gen.FnSimpleCommit.OnchainValidator.validate_holder_commitment_tx (filt p)
            (fun _ es m pt st cs inf => Gen.FnSimpleCommit.SimpleValidator.validate_holder_commitment_tx dO dR
              (filt p) extF extT extS (toV2 p) es m pt st cs inf)
            toOV2 (toES2 e) n point (toCS s) (toCh c) (toCI2 i)) = validateHolder p s c e n i := by
  have hin := C05_fn_validate_holder_commitment_tx { p with onchain := false } s c e n point i dO dR extF extT extS rfl
    hT hS hf hn hv
  rw [validateHolder_split, hoc]
  unfold Gen.FnSimpleCommit.OnchainValidator.validate_holder_commitment_tx
  simp only [toES2_nh, Bool.true_and, whenE]
  by_cases hg : e.nextHolder ≤ n
  · simp only [hg, decide_true, if_true, relK_bind, relK_ensure_funding]
    exact congrArg _ (funext fun _ => hin)
  · simp only [hg, decide_false, Bool.false_eq_true, if_false]
    exact hin

/-! ### `validate_setup_channel` (area `SimpleSetup`; the wallet is an external) -/

def toCT4 : Gen.Policy.CType → Gen.FnSimpleSetup.CommitmentType
  | .legacy => .Legacy
  | .staticRemoteKey => .StaticRemoteKey
  | .anchors => .Anchors
  | .anchorsZeroFeeHtlc => .AnchorsZeroFeeHtlc

def toV4 (p : Policy) : Gen.FnSimpleSetup.SimpleValidator :=
  { policy := { min_delay := p.minDelay, max_delay := p.maxDelay } }

def toCS4 (s : Setup) : Gen.FnSimpleSetup.ChannelSetup Nat :=
  { holder_selected_contest_delay := s.holderDelay, holder_shutdown_script := s.upfront,
    counterparty_selected_contest_delay := s.cpDelay, commitment_type := toCT4 s.ctype }

def kindOfTagS (s : String) : Kind :=
  if s = "policy-channel-safe-type" then .safeType
  else if s = "policy-channel-contest-delay-range-holder" then .delay
  else if s = "policy-channel-contest-delay-range-counterparty" then .delay
  else if s = "policy-mutual-destination-allowlisted" then .dest
  else .other

def relS {α : Type} : Rs.M α → Except Kind α
  | .ok a => .ok a
  | .error (.err s) => .error (kindOfTagS s)
  | .error _ => .error .panic

theorem relS_bind {α β : Type} (x : Rs.M α) (f : α → Rs.M β) :
    relS (x >>= f) = relS x >>= fun a => relS (f a) := by
  cases x with
  | ok a => rfl
  | error e => cases e <;> rfl

@[simp] theorem relS_ok {α : Type} (a : α) : relS (Except.ok a : Rs.M α) = Except.ok a := rfl
@[simp] theorem relS_pure {α : Type} (a : α) : relS (pure a : Rs.M α) = pure a := rfl

theorem relS_ite_policy {α : Type} (p : Policy) (t : Tag) (tag : String) (ht : tag = t.name) (hk : kindOfTagS tag = t.kind)
    (c : Bool) (R : Rs.M α) :
    relS (if c = true then (do Rs.policyErr (filt p) tag; R) else R) = (do check p t c; relS R) := by
  subst ht
  unfold Rs.policyErr check policyErr errs filt
  cases c <;> by_cases h : filterEval p.filter t.name = Gen.Policy.Action.error <;>
    simp [h, relS, Rs.fail, hk, bind, Except.bind, pure, Except.pure]

theorem relS_validate_delay (p : Policy) (t : Tag) (name : String)
    (ht : t.name = "policy-channel-contest-delay-range-" ++ name) (hk : kindOfTagS t.name = t.kind) (delay : Nat) :
    relS ((toV4 p).validate_delay (filt p) name delay) = validateDelay p t delay := by
  unfold Gen.FnSimpleSetup.SimpleValidator.validate_delay validateDelay check policyErr errs Rs.policyErr
  rw [← ht]
  simp only [toV4, filt]
  by_cases h1 : delay < p.minDelay <;> by_cases h2 : delay > p.maxDelay <;>
    by_cases h3 : filterEval p.filter t.name = Gen.Policy.Action.error <;>
    simp [h1, h2, h3, relS, hk, Rs.fail, bind, Except.bind, pure, Except.pure]

theorem isSafe_eq (s : Setup) :
    ([Gen.FnSimpleSetup.CommitmentType.StaticRemoteKey, Gen.FnSimpleSetup.CommitmentType.AnchorsZeroFeeHtlc].contains
        (toCS4 s).commitment_type) = isSafeType s.ctype := by
  unfold isSafeType
  simp only [toCS4]
  generalize s.ctype = t
  cases t <;> rfl

theorem toCS4_cp (s : Setup) : (toCS4 s).counterparty_selected_contest_delay = s.cpDelay := rfl
theorem toCS4_h (s : Setup) : (toCS4 s).holder_selected_contest_delay = s.holderDelay := rfl
theorem toCS4_up (s : Setup) : (toCS4 s).holder_shutdown_script = s.upfront := rfl

/-- **`SimpleValidator::validate_setup_channel`, the whole function** (safe commitment type, both contest delays,
    upfront shutdown script wallet-spendable or allowlisted) = the model's `validateSetupChannel`; the wallet's
    answers for the upfront script are the model's two flags (`can_spend` does not fail) -/
theorem C05_fn_validate_setup_channel {W D : Type} (p : Policy) (s : Setup) (w : W) (path : D)
    (extC : W → D → Nat → Option Bool) (extA : W → Nat → D → Bool)
    (hC : ∀ sid, s.upfront = some sid → extC w path sid = some s.upfrontSpendable)
    (hA : ∀ sid, s.upfront = some sid → extA w sid path = s.upfrontAllowlisted) :
    relS (Gen.FnSimpleSetup.SimpleValidator.validate_setup_channel (filt p) extC extA (toV4 p) w (toCS4 s) path)
      = validateSetupChannel p s := by
  have e1 : ∀ {α : Type} (cc : Bool) (R : Rs.M α), _ := fun {α} cc R =>
    relS_ite_policy (α := α) p .channelSafeType "policy-channel-safe-type" rfl (by simp [kindOfTagS, Tag.kind]) cc R
  have e2 : ∀ {α : Type} (cc : Bool) (R : Rs.M α), _ := fun {α} cc R =>
    relS_ite_policy (α := α) p .mutualDestinationAllowlisted "policy-mutual-destination-allowlisted" rfl
      (by simp [kindOfTagS, Tag.kind]) cc R
  have d1 := relS_validate_delay p .delayHolder "holder" rfl (by simp [kindOfTagS, Tag.kind, Tag.name])
  have d2 := relS_validate_delay p .delayCounterparty "counterparty" rfl (by simp [kindOfTagS, Tag.kind, Tag.name])
  unfold Gen.FnSimpleSetup.SimpleValidator.validate_setup_channel validateSetupChannel
  cases hu : s.upfront with
  | none =>
    simp only [isSafe_eq, toCS4_cp, toCS4_h, toCS4_up, hu]
    simp only [e1, e2, relS_bind, d1, d2, relS_ok, relS_pure, bind_assoc, pure_bind]
  | some sid =>
    have hC' := hC sid hu
    have hA' := hA sid hu
    simp only [isSafe_eq, toCS4_cp, toCS4_h, toCS4_up, hu, hC', hA', Rs.okOr, Rs.bind_ok, pure_bind]
    simp only [e1, e2, relS_bind, d1, d2, relS_ok, relS_pure, bind_assoc, pure_bind]
    simp

/-! ### non-vacuity: the hypotheses of the round-8 ties are satisfiable, on a non-trivial request -/

def exPolicy : Policy := { Gen.Policy.defaultTestnet with onchain := true }
def exSetup : Setup := ⟨true, 3000000, 0, 6, 7, .staticRemoteKey, none, false, false⟩
def exInfo : Info := ⟨true, 1000000, 1989000, [⟨10000, 500, 0⟩], [], 1000⟩

/-- the generated `validate_commitment_tx` on a concrete counterparty commitment with one HTLC (LDK's weight functions
    instantiated by the constants 663 / 703): same verdict as the model, which accepts it -/
example :
    relK (Gen.FnSimpleCommit.SimpleValidator.validate_commitment_tx (filt exPolicy) (fun _ => ()) (fun _ => 663)
            (fun _ => 703) (toV2 exPolicy) (toES2 EState.init) 1 (0 : Nat) (toCS exSetup) (toCh ⟨1000, 3, 0⟩) (toCI2 exInfo))
      = validateCommitmentTx exPolicy exSetup ⟨1000, 3, 0⟩ 1 exInfo :=
  C05_fn_validate_commitment_tx exPolicy exSetup ⟨1000, 3, 0⟩ 1 exInfo (toES2 EState.init) 0 _ _ _ (fun _ => rfl) (fun _ => rfl)
    (by decide) (by decide) (by decide)

/-- first-match semantics on overlapping rules, through the generated `PolicyFilter::filter` -/
example : (toPF [⟨"policy-commitment-fee-range", false, .error⟩, ⟨"policy-", true, .warn⟩]).filter "policy-commitment-fee-range"
    = .ok .Error := by
  rw [C05_fn_policy_filter]; rfl

example : ensureFundingBuried exPolicy ⟨1000, 0, 0⟩ 1 = .error .chain := by rfl

/-- `validate_setup_channel` with an upfront shutdown script the wallet can spend -/
example :
    relS (Gen.FnSimpleSetup.SimpleValidator.validate_setup_channel (filt exPolicy) (fun _ _ _ => some true)
            (fun _ _ _ => false) (toV4 exPolicy) () (toCS4 { exSetup with upfront := some 5, upfrontSpendable := true }) ())
      = validateSetupChannel exPolicy { exSetup with upfront := some 5, upfrontSpendable := true } :=
  C05_fn_validate_setup_channel exPolicy { exSetup with upfront := some 5, upfrontSpendable := true } () () _ _
    (fun _ _ => rfl) (fun _ _ => rfl)

/-- the two sequencing wrappers on a concrete retry of the current counterparty commitment / a new holder commitment -/
example :
    relK (Gen.FnSimpleCommit.SimpleValidator.validate_counterparty_commitment_tx (fun _ _ => ((), ())) (fun _ _ => ((), ()))
            (filt { exPolicy with onchain := false }) (fun _ => ()) (fun _ => 663) (fun _ => 703)
            (toV2 { exPolicy with onchain := false })
            (toES2 { EState.init with nextCp := 2, curCpPoint := some 2, curCpInfo := some exInfo }) 1 (2 : Nat)
            (toCS exSetup) (toCh ⟨1000, 3, 0⟩) (toCI2 exInfo))
      = validateCounterparty { exPolicy with onchain := false } exSetup ⟨1000, 3, 0⟩
          { EState.init with nextCp := 2, curCpPoint := some 2, curCpInfo := some exInfo } 1 2 exInfo :=
  C05_fn_validate_counterparty_commitment_tx _ exSetup ⟨1000, 3, 0⟩ _ 1 2 exInfo _ _ _ _ _ rfl (fun _ => rfl) (fun _ => rfl)
    (by decide) (by decide) (by decide)

example :
    relK (Gen.FnSimpleCommit.SimpleValidator.validate_holder_commitment_tx (fun _ _ => ((), ())) (fun _ _ => ((), ()))
            (filt { exPolicy with onchain := false }) (fun _ => ()) (fun _ => 663) (fun _ => 703)
            (toV2 { exPolicy with onchain := false }) (toES2 { EState.init with nextHolder := 1 }) 1 (0 : Nat)
            (toCS exSetup) (toCh ⟨1000, 3, 0⟩) (toCI2 { exInfo with isCp := false }))
      = validateHolder { exPolicy with onchain := false } exSetup ⟨1000, 3, 0⟩ { EState.init with nextHolder := 1 } 1
          { exInfo with isCp := false } :=
  C05_fn_validate_holder_commitment_tx _ exSetup ⟨1000, 3, 0⟩ _ 1 0 _ _ _ _ _ _ rfl (fun _ => rfl) (fun _ => rfl)
    (by decide) (by decide) (by decide)


/-! ## Round 9 — configuration branches and the error plumbing behind `policy_err!`

Generated areas: `Gen.FnFilter` (now also `new_permissive`, `merge`, `default`), `Gen.FnOnchain` (`is_ready`),
`Gen.FnPolicyMod` (`policy/mod.rs`: the three `…_with_filter` functions; the `Policy` impls of `SimplePolicy` and
`OnchainPolicy`; `make_onchain_policy`; the factory constructors), `Gen.FnOnchainPass` (the fourteen
`OnchainValidator` methods that only delegate to the inner validator). -/

/-! ### `PolicyFilter::{default, new_permissive, merge}` -/

/-- `PolicyFilter::default()` (translated body) is the rule list `x_policy.py` extracts as the default filter of both
    network policies -/
theorem C05_fn_filter_default : Gen.FnFilter.PolicyFilter.default = toPF Gen.Policy.defaultFilter := rfl

/-- … and with it every tag is an error: nothing is downgraded unless a rule says so -/
theorem C05_fn_filter_default_errs (tag : String) :
    Gen.FnFilter.PolicyFilter.default.filter tag = .ok .Error := by
  rw [C05_fn_filter_default, C05_fn_policy_filter]; rfl

/-- `PolicyFilter::new_permissive()` is the model's `permissiveFilter` … -/
theorem C05_fn_filter_new_permissive : Gen.FnFilter.PolicyFilter.new_permissive = toPF permissiveFilter := rfl

/-- … which downgrades every tag (the documented opt-out the property excludes) -/
theorem C05_fn_filter_new_permissive_warns (tag : String) :
    Gen.FnFilter.PolicyFilter.new_permissive.filter tag = .ok .Warn := by
  rw [C05_fn_filter_new_permissive, C05_fn_policy_filter]
  simp [filterEval, permissiveFilter, ruleMatches, String.isPrefixOf, ofAction]

/-- `PolicyFilter::merge`: the other filter's rules are appended behind the receiver's -/
theorem C05_fn_filter_merge (a b : List Gen.Policy.Rule) :
    (toPF a).merge (toPF b) = toPF (a ++ b) := by
  simp [Gen.FnFilter.PolicyFilter.merge, toPF]

/-- "rules in this filter take precedence": a tag matched by a rule of the receiver is decided by the receiver, any
    other tag by the merged-in filter (model level; with `C05_fn_filter_merge` and `C05_fn_policy_filter` this is a
    statement about the translated `merge` + `filter`) -/
theorem filterEval_append (a b : List Gen.Policy.Rule) (tag : String) :
    filterEval (a ++ b) tag = if a.any (fun r => ruleMatches r tag) then filterEval a tag else filterEval b tag := by
  induction a with
  | nil => simp [filterEval]
  | cons r rs ih =>
    simp only [List.cons_append, filterEval, List.any_cons]
    by_cases h : ruleMatches r tag = true
    · simp [h]
    · simp [h, ih]

theorem C05_fn_filter_merge_precedence (a b : List Gen.Policy.Rule) (tag : String) :
    ((toPF a).merge (toPF b)).filter tag
      = if a.any (fun r => ruleMatches r tag) then (toPF a).filter tag else (toPF b).filter tag := by
  rw [C05_fn_filter_merge, C05_fn_policy_filter, C05_fn_policy_filter, C05_fn_policy_filter, filterEval_append]
  split <;> rfl

/-! ### `OnchainValidator::is_ready` -/

/-- `is_ready` (translated): funding at the generated minimum depth and no close seen -/
theorem C05_fn_onchain_is_ready (c : ChainState) :
    toOV.is_ready (toOCh c)
      = (decide (Gen.Policy.minFundingDepth ≤ c.fundingDepth) && c.closingDepth == 0) := by
  simp [Gen.FnOnchain.OnchainValidator.is_ready, toOV, toOCh]

/-- `is_ready` is exactly the condition under which the gate lets a non-initial commitment pass when its tag is an
    error: both functions read the same two fields against the same bound -/
theorem C05_fn_onchain_is_ready_iff_gate (p : Policy) (c : ChainState) (n : Nat) (hn : n > 0)
    (hf : errs p .spendsActiveUtxo = true) :
    toOV.is_ready (toOCh c) = true ↔ ensureFundingBuried p c n = .ok () := by
  rw [C05_fn_onchain_is_ready]
  unfold ensureFundingBuried check policyErr
  by_cases h1 : c.fundingDepth < Gen.Policy.minFundingDepth <;>
    by_cases h2 : c.closingDepth > 0 <;>
    simp [hn, h1, h2, hf, bind, Except.bind, pure, Except.pure] <;> omega

/-! ### `policy/mod.rs`: what `policy_err!` / `temporary_policy_err!` expand to -/

section Cfg
open VlsModel.Gen.FnPolicyMod

def ofActionM : Gen.Policy.Action → FilterResult
  | .error => .Error
  | .warn => .Warn

def toPFM (rs : List Gen.Policy.Rule) : PolicyFilter :=
  { rules := rs.map (fun r => { tag := r.tag, is_prefix := r.isPrefix, action := ofActionM r.action }) }

/-- every value of the generated filter type is the image of a model rule list -/
def ofPFM (f : PolicyFilter) : List Gen.Policy.Rule :=
  f.rules.map (fun r => ⟨r.tag, r.is_prefix, match r.action with | .Error => .error | .Warn => .warn⟩)

theorem toPFM_ofPFM (f : PolicyFilter) : toPFM (ofPFM f) = f := by
  cases f with
  | mk rules =>
    simp only [toPFM, ofPFM, List.map_map]
    congr 1
    conv => rhs; rw [← List.map_id rules]
    apply List.map_congr_left
    intro r _
    cases r with
    | mk t ip a => cases a <;> rfl

theorem filterM_eq (rs : List Gen.Policy.Rule) (tag : String) :
    (toPFM rs).filter tag = .ok (ofActionM (filterEval rs tag)) := by
  unfold PolicyFilter.filter
  induction rs with
  | nil => simp [toPFM, filterEval, ofActionM, Rs.loopM]
  | cons r rs ih =>
    simp only [toPFM, List.map_cons, Rs.loopM] at ih ⊢
    simp only [filterEval, ruleMatches]
    by_cases hm : (if r.isPrefix = true then String.isPrefixOf r.tag tag else tag == r.tag) = true
    · simp [hm]
    · simpa [hm] using ih

/-- the filter decision as the Boolean external the other ties take (`filt p` for `rs = p.filter`) -/
def filtOf (rs : List Gen.Policy.Rule) : String → Bool := fun tag => filterEval rs tag == .error

theorem filtOf_policy (p : Policy) : filtOf p.filter = filt p := rfl

end Cfg

/-- **`make_policy_error_with_filter` is `Rs.policyErr`**: the runtime library's reading of `policy_err!` ("an error iff
    the filter keeps the tag an error, otherwise execution continues") is the translated source of the function the
    macro ends in, for every rule list, tag and message -/
theorem C05_fn_make_policy_error_with_filter (rs : List Gen.Policy.Rule) (tag msg : String) :
    Gen.FnPolicyMod.make_policy_error_with_filter tag msg (toPFM rs) = Rs.policyErr (filtOf rs) tag := by
  unfold Gen.FnPolicyMod.make_policy_error_with_filter Rs.policyErr filtOf
  rw [filterM_eq]
  cases h : filterEval rs tag <;> simp [ofActionM, bind, Except.bind]

theorem C05_fn_policy_error_with_filter (rs : List Gen.Policy.Rule) (tag msg : String) :
    Gen.FnPolicyMod.policy_error_with_filter tag msg (toPFM rs) = Rs.policyErr (filtOf rs) tag := by
  unfold Gen.FnPolicyMod.policy_error_with_filter
  exact C05_fn_make_policy_error_with_filter rs tag msg

/-- the temporary variant takes the same decision (its error differs only in kind, which the outcome monad does not
    carry: `dropped` in the generated comment) -/
theorem C05_fn_temporary_policy_error_with_filter (rs : List Gen.Policy.Rule) (tag msg : String) :
    Gen.FnPolicyMod.temporary_policy_error_with_filter tag msg (toPFM rs) = Rs.policyErr (filtOf rs) tag := by
  unfold Gen.FnPolicyMod.temporary_policy_error_with_filter Rs.policyErr filtOf
  rw [filterM_eq]
  cases h : filterEval rs tag <;> simp [ofActionM, bind, Except.bind]

/-- `impl Policy for SimplePolicy`: `policy_error` consults the policy's own filter (not a default, not another one) -/
theorem C05_fn_simple_policy_error (eb : Bool) (rs : List Gen.Policy.Rule) (tag msg : String) :
    Gen.FnPolicyMod.SimplePolicy.policy_error { enforce_balance := eb, filter := toPFM rs } tag msg
      = Rs.policyErr (filtOf rs) tag :=
  C05_fn_policy_error_with_filter rs tag msg

theorem C05_fn_simple_temporary_policy_error (eb : Bool) (rs : List Gen.Policy.Rule) (tag msg : String) :
    Gen.FnPolicyMod.SimplePolicy.temporary_policy_error { enforce_balance := eb, filter := toPFM rs } tag msg
      = Rs.policyErr (filtOf rs) tag :=
  C05_fn_temporary_policy_error_with_filter rs tag msg

/-- `impl Policy for OnchainPolicy`: the gate's `policy_err!` sites consult the on-chain policy's filter -/
theorem C05_fn_onchain_policy_error (d : Nat) (rs : List Gen.Policy.Rule) (tag msg : String) :
    Gen.FnPolicyMod.OnchainPolicy.policy_error { filter := toPFM rs, min_funding_depth := d } tag msg
      = Rs.policyErr (filtOf rs) tag :=
  C05_fn_policy_error_with_filter rs tag msg

theorem C05_fn_onchain_temporary_policy_error (d : Nat) (rs : List Gen.Policy.Rule) (tag msg : String) :
    Gen.FnPolicyMod.OnchainPolicy.temporary_policy_error { filter := toPFM rs, min_funding_depth := d } tag msg
      = Rs.policyErr (filtOf rs) tag :=
  C05_fn_temporary_policy_error_with_filter rs tag msg

/-- `make_onchain_policy`: the filter handed in is the filter used, the depth is the generated constant of
    `x_policy.py` (the model's `Gen.Policy.minFundingDepth`), whatever the network -/
theorem C05_fn_make_onchain_policy {N : Type} (net : N) (f : Gen.FnPolicyMod.PolicyFilter) :
    Gen.FnPolicyMod.make_onchain_policy net f = { filter := f, min_funding_depth := Gen.Policy.minFundingDepth } := rfl

/-! ### the factory constructors -/

theorem C05_fn_simple_factory_new : Gen.FnPolicyMod.SimpleValidatorFactory.new = { policy := none } := rfl

theorem C05_fn_simple_factory_new_with_policy (sp : Gen.FnPolicyMod.SimplePolicy) :
    Gen.FnPolicyMod.SimpleValidatorFactory.new_with_policy sp = { policy := some sp } := rfl

theorem C05_fn_onchain_factory_new :
    Gen.FnPolicyMod.OnchainValidatorFactory.new = { inner_factory := { policy := none } } := rfl

theorem C05_fn_onchain_factory_new_with_simple_factory (f : Gen.FnPolicyMod.SimpleValidatorFactory) :
    Gen.FnPolicyMod.OnchainValidatorFactory.new_with_simple_factory f = { inner_factory := f } := rfl

theorem C05_fn_enforce_balance {PK CI : Type} (v : Gen.FnPolicyMod.SimpleValidator PK CI) :
    v.enforce_balance = v.policy.enforce_balance := rfl

/-- `minimum_initial_balance`: the holder's msat value rounded down to whole satoshi; never fails -/
theorem C05_fn_minimum_initial_balance {PK CI : Type} (v : Gen.FnPolicyMod.SimpleValidator PK CI) (x : Nat) :
    v.minimum_initial_balance x = .ok (x / 1000) := by
  simp [Gen.FnPolicyMod.SimpleValidator.minimum_initial_balance, Rs.udiv, bind, Except.bind, pure, Except.pure]

/-! ### `make_validator` / `policy` of both factories: which policy and which filter a validator gets -/

/-- `SimpleValidatorFactory::make_validator`: the configured policy if there is one, the network default (external:
    `make_default_simple_policy`, whose literals `x_policy.py` extracts) only otherwise -/
theorem C05_fn_simple_make_validator {N PK CI : Type} (dflt : N → Gen.FnPolicyMod.SimplePolicy)
    (f : Gen.FnPolicyMod.SimpleValidatorFactory) (net : N) (id : PK) (ch : Option CI) :
    Gen.FnPolicyMod.SimpleValidatorFactory.make_validator dflt f net id ch
      = { policy := f.policy.getD (dflt net), node_id := id, channel_id := ch } := rfl

theorem C05_fn_simple_factory_policy {N : Type} (dflt : N → Gen.FnPolicyMod.SimplePolicy)
    (f : Gen.FnPolicyMod.SimpleValidatorFactory) (net : N) :
    Gen.FnPolicyMod.SimpleValidatorFactory.policy_fn dflt f net = f.policy.getD (dflt net) := rfl

/-- a policy handed to `new_with_policy` is the policy of every validator the factory makes, on every network -/
theorem C05_fn_factory_configured_policy_wins {N PK CI : Type} (dflt : N → Gen.FnPolicyMod.SimplePolicy)
    (sp : Gen.FnPolicyMod.SimplePolicy) (net : N) (id : PK) (ch : Option CI) :
    (Gen.FnPolicyMod.SimpleValidatorFactory.make_validator dflt (.new_with_policy sp) net id ch).policy = sp := rfl

/-- `SimpleValidatorFactory::new()` yields the network default -/
theorem C05_fn_factory_default_policy {N PK CI : Type} (dflt : N → Gen.FnPolicyMod.SimplePolicy) (net : N) (id : PK)
    (ch : Option CI) :
    (Gen.FnPolicyMod.SimpleValidatorFactory.make_validator dflt .new net id ch).policy = dflt net := rfl

/-- `Validator::policy()` of the two validators: their own policy object -/
theorem C05_fn_simple_validator_policy {PK CI : Type} (v : Gen.FnPolicyMod.SimpleValidator PK CI) :
    Gen.FnPolicyMod.SimpleValidator.policy_fn v = v.policy := rfl

theorem C05_fn_onchain_validator_policy (v : Gen.FnPolicyMod.OnchainValidator) :
    Gen.FnPolicyMod.OnchainValidator.policy_fn v = v.policy := rfl

/-- **the whole expansion of `policy_err!(self, tag, ..)`** = `self.policy().policy_error(tag, msg)?`, for a validator
    made by a factory configured with a policy whose filter has the rules `rs`: it is `Rs.policyErr` with the model's
    `filterEval rs` — the reading every other generated tie of C05/C07 uses (`filt p`, `rs = p.filter`) -/
theorem C05_fn_policy_err_expansion {N PK CI : Type} (dflt : N → Gen.FnPolicyMod.SimplePolicy) (eb : Bool)
    (rs : List Gen.Policy.Rule) (net : N) (id : PK) (ch : Option CI) (tag msg : String) :
    (Gen.FnPolicyMod.SimpleValidator.policy_fn
        (Gen.FnPolicyMod.SimpleValidatorFactory.make_validator dflt
          (.new_with_policy { enforce_balance := eb, filter := toPFM rs }) net id ch)).policy_error tag msg
      = Rs.policyErr (filtOf rs) tag :=
  C05_fn_policy_error_with_filter rs tag msg

/-- `OnchainValidatorFactory::make_validator`: the inner validator is what the inner factory makes for the same
    arguments; the gate's policy carries **the inner policy's filter** (no rule at all if the inner factory has no
    configured policy) and the generated minimum depth -/
theorem C05_fn_onchain_make_validator {N PK CI V : Type}
    (mk : Gen.FnOnchainFactory.SimpleValidatorFactory → N → PK → Option CI → V)
    (f : Gen.FnOnchainFactory.OnchainValidatorFactory) (net : N) (id : PK) (ch : Option CI) :
    Gen.FnOnchainFactory.OnchainValidatorFactory.make_validator mk f net id ch
      = { inner := mk f.inner_factory net id ch,
          policy := { filter := (f.inner_factory.policy.map (·.filter)).getD { rules := [] },
                      min_funding_depth := Gen.Policy.minFundingDepth } } := rfl

theorem C05_fn_onchain_factory_policy {N P : Type} (ext : Gen.FnOnchainFactory.SimpleValidatorFactory → N → P)
    (f : Gen.FnOnchainFactory.OnchainValidatorFactory) (net : N) :
    Gen.FnOnchainFactory.OnchainValidatorFactory.policy ext f net = ext f.inner_factory net := rfl

/-- with a configured inner policy the gate's tag is filtered by exactly that policy's filter -/
theorem C05_fn_onchain_gate_filter_is_inner {N PK CI V : Type}
    (mk : Gen.FnOnchainFactory.SimpleValidatorFactory → N → PK → Option CI → V)
    (sp : Gen.FnOnchainFactory.SimplePolicy) (net : N) (id : PK) (ch : Option CI) :
    (Gen.FnOnchainFactory.OnchainValidatorFactory.make_validator mk ⟨⟨some sp⟩⟩ net id ch).policy.filter = sp.filter := rfl

/-- **`make_default_simple_policy` (translated, both branches) carries the numbers `x_policy.py` extracts** as
    `Gen.Policy.defaultMainnet` / `defaultTestnet` — the policies for which `C05_default_filter_strict`,
    `C05_default_nonpermissive` discharge the filter hypothesis of `C05_main`: mainnet gets the first literal, **every**
    other network (testnet, signet, regtest) the second; no rule in the filter, no dev flags.  Two independent
    extractors (text pins and the function-body translator) have to agree here. -/
theorem C05_fn_make_default_simple_policy {V : Type} (unl fee : V) (net : Gen.FnDefaultPolicy.Network) :
    let sp := Gen.FnDefaultPolicy.make_default_simple_policy unl fee net
    let raw := if net = .Bitcoin then Gen.Policy.defaultMainnet else Gen.Policy.defaultTestnet
    sp.min_delay = raw.minDelay ∧ sp.max_delay = raw.maxDelay ∧ sp.max_channel_size_sat = raw.maxChannelSize
      ∧ sp.epsilon_sat = raw.epsilon ∧ sp.max_htlcs = raw.maxHtlcs ∧ sp.max_htlc_value_sat = raw.maxHtlcValue
      ∧ sp.use_chain_state = raw.useChainState ∧ sp.min_feerate_per_kw = raw.minFeerate
      ∧ sp.max_feerate_per_kw = raw.maxFeerate ∧ sp.max_routing_fee_msat = raw.maxRoutingFeeMsat
      ∧ sp.enforce_balance = raw.enforceBalance ∧ sp.filter.rules = [] ∧ raw.filter = [] ∧ sp.dev_flags = none
      ∧ sp.max_channels = Gen.Chain.maxChannelsDefault := by
  cases net <;> exact ⟨rfl, rfl, rfl, rfl, rfl, rfl, rfl, rfl, rfl, rfl, rfl, rfl, rfl, rfl, rfl⟩

/-! ### the remaining small functions of `simple_validator.rs` (`Gen.FnSimpleMisc`) -/

/-- the four `Policy` getters of `SimplePolicy` return their own field (not another one, not a constant) -/
theorem C05_fn_simple_policy_getters {V : Type} (sp : Gen.FnSimpleMisc.SimplePolicy V) :
    sp.global_velocity_control_fn = sp.global_velocity_control ∧ sp.max_channels_fn = sp.max_channels
      ∧ sp.max_invoices_fn = sp.max_invoices ∧ sp.fee_velocity_control_fn = sp.fee_velocity_control :=
  ⟨rfl, rfl, rfl, rfl⟩

/-- no developer flag is on by default -/
theorem C05_fn_dev_flags_default :
    Gen.FnSimpleMisc.PolicyDevFlags.default.disable_beneficial_balance_checks = false := rfl

/-- `SimpleValidator::is_ready`: funded and not closed … -/
theorem C05_fn_simple_is_ready (v : Gen.FnSimpleMisc.SimpleValidator) (fd cd : Nat) :
    v.is_ready { funding_depth := fd, closing_depth := cd } = (decide (0 < fd) && cd == 0) := by
  simp [Gen.FnSimpleMisc.SimpleValidator.is_ready]

/-- … which, at the generated minimum depth, is the on-chain validator's `is_ready`: both validators agree on when a
    channel is ready -/
theorem C05_fn_is_ready_agree (v : Gen.FnSimpleMisc.SimpleValidator) (c : ChainState) :
    v.is_ready { funding_depth := c.fundingDepth, closing_depth := c.closingDepth } = toOV.is_ready (toOCh c) := by
  rw [C05_fn_simple_is_ready, C05_fn_onchain_is_ready]
  have h : Gen.Policy.minFundingDepth = 1 := rfl
  rw [h]
  by_cases h0 : 0 < c.fundingDepth <;> simp [h0] <;> omega

/-- `make_simple_policy`: the configured options resolved against the default of the **same** network -/
theorem C05_fn_make_simple_policy {O V : Type} (dflt : Gen.FnSimpleMisc.Network → Gen.FnSimpleMisc.SimplePolicy V)
    (resolve : O → Gen.FnSimpleMisc.SimplePolicy V → Gen.FnSimpleMisc.SimplePolicy V)
    (net : Gen.FnSimpleMisc.Network) (cfg : O) :
    Gen.FnSimpleMisc.make_simple_policy dflt resolve net cfg = resolve cfg (dflt net) := rfl

/-- trait default `Policy::max_channels` = the constant `x_chain.py` extracts -/
theorem C05_fn_policy_max_channels {S : Type} (s : S) :
    Gen.FnPolicyMod.Policy.max_channels s = Gen.Chain.maxChannelsDefault := rfl

/-! ### `OnchainValidator`: the methods that only delegate

For **every** implementation `ext` of the inner validator's method, the wrapper returns what `ext` returns on the inner
validator with the same arguments in the same order: the on-chain validator neither drops nor adds a check on these
paths (a wrapper that answered `Ok(())` itself, or swapped two arguments of one type, fails here). -/

section Pass
open VlsModel.Gen.FnOnchainPass
variable {V W S D T K E X Y Z A B : Type}

theorem C05_fn_onchain_pass_validate_setup_channel (ext : V → W → S → D → Rs.M Unit) (v : OnchainValidator V) (w : W) (s : S)
    (d : D) : OnchainValidator.validate_setup_channel ext v w s d = ext v.inner w s d := rfl

theorem C05_fn_onchain_pass_validate_channel_value (ext : V → S → Rs.M Unit) (v : OnchainValidator V) (s : S) :
    OnchainValidator.validate_channel_value ext v s = ext v.inner s := rfl

theorem C05_fn_onchain_pass_validate_onchain_tx
    (ext : V → W → List (Option K) → T → List Bool → List Nat → List D → Nat → Rs.M Nat) (v : OnchainValidator V) (w : W)
    (ch : List (Option K)) (tx : T) (fl : List Bool) (vals : List Nat) (ps : List D) (wt : Nat) :
    OnchainValidator.validate_onchain_tx ext v w ch tx fl vals ps wt = ext v.inner w ch tx fl vals ps wt := rfl

theorem C05_fn_onchain_pass_decode_commitment_tx (ext : V → K → S → Bool → T → List (List Nat) → Rs.M X)
    (v : OnchainValidator V) (k : K) (s : S) (cp : Bool) (tx : T) (ws : List (List Nat)) :
    OnchainValidator.decode_commitment_tx ext v k s cp tx ws = ext v.inner k s cp tx ws := rfl

theorem C05_fn_onchain_pass_validate_counterparty_revocation (ext : V → E → Nat → K → Rs.M Unit) (v : OnchainValidator V)
    (e : E) (n : Nat) (k : K) :
    OnchainValidator.validate_counterparty_revocation ext v e n k = ext v.inner e n k := rfl

theorem C05_fn_onchain_pass_decode_and_validate_htlc_tx
    (ext : V → Bool → S → K → T → Z → Nat → Z → Rs.M (Nat × X × Y × A)) (v : OnchainValidator V) (cp : Bool) (s : S) (k : K)
    (tx : T) (r : Z) (amt : Nat) (o : Z) :
    OnchainValidator.decode_and_validate_htlc_tx ext v cp s k tx r amt o = ext v.inner cp s k tx r amt o := rfl

theorem C05_fn_onchain_pass_validate_htlc_tx (ext : V → S → E → Bool → X → Nat → Rs.M Unit) (v : OnchainValidator V) (s : S)
    (c : E) (cp : Bool) (h : X) (fr : Nat) :
    OnchainValidator.validate_htlc_tx ext v s c cp h fr = ext v.inner s c cp h fr := rfl

theorem C05_fn_onchain_pass_decode_and_validate_mutual_close_tx (ext : V → W → S → E → T → List D → Rs.M X)
    (v : OnchainValidator V) (w : W) (s : S) (e : E) (tx : T) (ps : List D) :
    OnchainValidator.decode_and_validate_mutual_close_tx ext v w s e tx ps = ext v.inner w s e tx ps := rfl

theorem C05_fn_onchain_pass_validate_delayed_sweep (ext : V → W → S → E → T → Nat → Nat → D → Rs.M Unit)
    (v : OnchainValidator V) (w : W) (s : S) (c : E) (tx : T) (i amt : Nat) (d : D) :
    OnchainValidator.validate_delayed_sweep ext v w s c tx i amt d = ext v.inner w s c tx i amt d := rfl

theorem C05_fn_onchain_pass_validate_counterparty_htlc_sweep (ext : V → W → S → E → T → Z → Nat → Nat → D → Rs.M Unit)
    (v : OnchainValidator V) (w : W) (s : S) (c : E) (tx : T) (r : Z) (i amt : Nat) (d : D) :
    OnchainValidator.validate_counterparty_htlc_sweep ext v w s c tx r i amt d = ext v.inner w s c tx r i amt d := rfl

theorem C05_fn_onchain_pass_validate_justice_sweep (ext : V → W → S → E → T → Nat → Nat → D → Rs.M Unit)
    (v : OnchainValidator V) (w : W) (s : S) (c : E) (tx : T) (i amt : Nat) (d : D) :
    OnchainValidator.validate_justice_sweep ext v w s c tx i amt d = ext v.inner w s c tx i amt d := rfl

theorem C05_fn_onchain_pass_validate_payment_balance (ext : V → Nat → Nat → Option Nat → Rs.M Unit) (v : OnchainValidator V)
    (i o : Nat) (inv : Option Nat) :
    OnchainValidator.validate_payment_balance ext v i o inv = ext v.inner i o inv := rfl

theorem C05_fn_onchain_pass_validate_payment_cltv (ext : V → Nat → Nat → Rs.M Unit) (v : OnchainValidator V) (i o : Nat) :
    OnchainValidator.validate_payment_cltv ext v i o = ext v.inner i o := rfl

theorem C05_fn_onchain_pass_minimum_initial_balance (ext : V → Nat → Nat) (v : OnchainValidator V) (x : Nat) :
    OnchainValidator.minimum_initial_balance ext v x = ext v.inner x := rfl

end Pass

/-- C05's setup clause under the **on-chain** validator, derived from the source: the wrapper hands the request to the
    inner `SimpleValidator::validate_setup_channel` (translated), which is the model's `validateSetup`
    (`C05_fn_validate_setup_channel`); so `C05_setup` speaks about both validator kinds -/
theorem C05_fn_onchain_setup_is_simple {W D : Type} (p : Policy)
    (canSpend : W → D → Nat → Option Bool) (allow : W → Nat → D → Bool) (s : Setup) (w : W) (path : D) :
    Gen.FnOnchainPass.OnchainValidator.validate_setup_channel
        (fun (v : Gen.FnSimpleSetup.SimpleValidator) w s d =>
          Gen.FnSimpleSetup.SimpleValidator.validate_setup_channel (filt p) canSpend allow v w s d)
        ⟨toV4 p⟩ w (toCS4 s) path
      = Gen.FnSimpleSetup.SimpleValidator.validate_setup_channel (filt p) canSpend allow (toV4 p) w (toCS4 s) path := rfl

/-- … and the size clause: the wrapper's `validate_channel_value` is the inner one (`C05_fn_validate_channel_value`) -/
theorem C05_fn_onchain_value_is_simple (p : Policy) (s : Setup) :
    Gen.FnOnchainPass.OnchainValidator.validate_channel_value
        (fun (v : Gen.FnSimpleCommit.SimpleValidator) s =>
          Gen.FnSimpleCommit.SimpleValidator.validate_channel_value (filt p) v s)
        ⟨toV2 p⟩ (toCS s)
      = Gen.FnSimpleCommit.SimpleValidator.validate_channel_value (filt p) (toV2 p) (toCS s) := rfl

/-! non-vacuity -/
example : Gen.FnPolicyMod.make_policy_error_with_filter "policy-commitment-fee-range" "m"
    (toPFM [⟨"policy-commitment-fee-range", false, .error⟩, ⟨"policy-", true, .warn⟩])
    = .error (.err "policy-commitment-fee-range") := by rw [C05_fn_make_policy_error_with_filter]; rfl
example : Gen.FnPolicyMod.make_policy_error_with_filter "policy-commitment-htlc-count-limit" "m"
    (toPFM [⟨"policy-commitment-fee-range", false, .error⟩, ⟨"policy-commitment-htlc-count-limit", false, .warn⟩]) = .ok () := by rw [C05_fn_make_policy_error_with_filter]; rfl
example : toOV.is_ready (toOCh ⟨100, 1, 0⟩) = true ∧ toOV.is_ready (toOCh ⟨100, 0, 0⟩) = false
    ∧ toOV.is_ready (toOCh ⟨100, 3, 1⟩) = false := by decide

/-! ## Round 10 (builder b3): the remaining small functions of the policy files

`Gen.FnB3Filter` (`policy/filter.rs`), `Gen.FnB3OnchainPolicy` (`policy/onchain_validator.rs`), `Gen.FnB3TestBuilder`
(`policy/simple_validator.rs`, the `#[cfg(test)]` builder every unit test of the validator goes through). -/

section B3
open VlsModel.Gen

/-- trait default `Policy::max_invoices` is the number the default policies carry in their own `max_invoices` field (so
    a policy type that does not override the method and `SimplePolicy` built by `make_default_simple_policy` agree) -/
theorem C05_fn_policy_max_invoices {S V : Type} (s : S) (unl fee : V) (net : FnDefaultPolicy.Network) :
    FnPolicyMod.Policy.max_invoices s = 1000
      ∧ (FnDefaultPolicy.make_default_simple_policy unl fee net).max_invoices = FnPolicyMod.Policy.max_invoices s := by
  cases net <;> exact ⟨rfl, rfl⟩

/-- the filter of `Gen.FnSimpleMisc` never fails (the loop has no partial operation) -/
theorem simpleMisc_filter_ok (f : FnSimpleMisc.PolicyFilter) (tag : String) : ∃ r, f.filter tag = .ok r := by
  unfold FnSimpleMisc.PolicyFilter.filter
  cases f with
  | mk rules =>
    induction rules with
    | nil => exact ⟨.Error, by simp [Rs.loopM]⟩
    | cons r rs ih =>
      simp only [Rs.loopM] at ih ⊢
      by_cases hm : (if r.is_prefix = true then String.isPrefixOf r.tag tag else tag == r.tag) = true
      · exact ⟨r.action, by simp [hm]⟩
      · obtain ⟨x, hx⟩ := ih
        exact ⟨x, by simpa [hm] using hx⟩

/-- `SimplePolicy::policy_log` only logs: whatever the filter says about the tag, it returns normally and has no other
    effect (`policy_log!` sites cannot refuse or panic) -/
theorem C05_fn_simple_policy_log {V : Type} (sp : FnSimpleMisc.SimplePolicy V) (tag msg : String) :
    sp.policy_log tag msg = .ok () := by
  unfold FnSimpleMisc.SimplePolicy.policy_log
  obtain ⟨r, hr⟩ := simpleMisc_filter_ok sp.filter tag
  rw [hr]
  cases r <;> rfl

/-- `OnchainPolicy::policy_log` only logs -/
theorem C05_fn_onchain_policy_log (p : FnB3OnchainPolicy.OnchainPolicy) (tag msg : String) :
    p.policy_log tag msg = () := rfl

/-- the on-chain policy's velocity specs are the two constants, each in its own method (not swapped): the global one is
    `VelocityControlSpec::UNLIMITED`, the fee one `DEFAULT_FEE_VELOCITY_CONTROL` — the same two constants
    `make_default_simple_policy` puts into the `SimplePolicy` fields of the same names -/
theorem C05_fn_onchain_policy_velocity {V : Type} (unl fee : V) (p : FnB3OnchainPolicy.OnchainPolicy)
    (net : FnDefaultPolicy.Network) :
    p.global_velocity_control unl = unl ∧ p.fee_velocity_control fee = fee
      ∧ (FnDefaultPolicy.make_default_simple_policy unl fee net).global_velocity_control = p.global_velocity_control unl
      ∧ (FnDefaultPolicy.make_default_simple_policy unl fee net).fee_velocity_control = p.fee_velocity_control fee := by
  cases net <;> exact ⟨rfl, rfl, rfl, rfl⟩

/-- `FilterRule::new_warn(t)`: an **exact** rule (not a prefix rule) with action `Warn` … -/
theorem C05_fn_filter_rule_new_warn (t : String) :
    FnB3Filter.FilterRule.new_warn t = { tag := t, is_prefix := false, action := .Warn } := rfl

/-- … `new_error(t)`: an exact rule with action `Error` -/
theorem C05_fn_filter_rule_new_error (t : String) :
    FnB3Filter.FilterRule.new_error t = { tag := t, is_prefix := false, action := .Error } := rfl

/-- "only explicit rules downgrade", on the translated constructor and the translated filter together: a filter that
    consists of `new_warn(t)` downgrades exactly the tag `t` — no other tag, in particular no tag that merely starts with
    `t`; a filter that consists of `new_error(t)` downgrades nothing -/
theorem C05_fn_filter_rule_exact (t tag : String) :
    FnB3Filter.PolicyFilter.filter { rules := [FnB3Filter.FilterRule.new_warn t] } tag
        = .ok (if tag == t then .Warn else .Error)
      ∧ FnB3Filter.PolicyFilter.filter { rules := [FnB3Filter.FilterRule.new_error t] } tag = .ok .Error := by
  unfold FnB3Filter.PolicyFilter.filter FnB3Filter.FilterRule.new_warn FnB3Filter.FilterRule.new_error
  by_cases h : (tag == t) = true <;> simp [Rs.loopM, h]

/-- `TestSimpleValidatorBuilder::new`: nothing overridden, testnet -/
theorem C05_fn_test_builder_new {K : Type} :
    (FnB3TestBuilder.TestSimpleValidatorBuilder.new : FnB3TestBuilder.TestSimpleValidatorBuilder K)
      = ⟨none, none, none, none, none, none, none, none, .Testnet⟩ := rfl

/-- every setter of the builder writes its own field and no other -/
theorem C05_fn_test_builder_setters {K : Type} (b : FnB3TestBuilder.TestSimpleValidatorBuilder K) (n : Nat) (f : Bool) (k : K) :
    b.cltv_delta_fn n = { b with cltv_delta := some n } ∧ b.enforce_balance_fn f = { b with enforce_balance := some f }
      ∧ b.node_id_fn k = { b with node_id := some k } ∧ b.max_channel_size_sat_fn n = { b with max_channel_size_sat := some n }
      ∧ b.min_delay_fn n = { b with min_delay := some n } ∧ b.max_delay_fn n = { b with max_delay := some n }
      ∧ b.max_htlc_value_sat_fn n = { b with max_htlc_value_sat := some n }
      ∧ b.use_chain_state_fn f = { b with use_chain_state := some f } :=
  ⟨rfl, rfl, rfl, rfl, rfl, rfl, rfl, rfl⟩

/-- `TestSimpleValidatorBuilder::build`: the validator under test runs the **default policy of the builder's network**
    with exactly the overridden fields replaced (each override lands in the policy field of its own name), the given
    node id or the fixed test key, and no channel id; it panics only if the fixed key does not parse -/
theorem C05_fn_test_builder_build {K C : Type} (dflt : FnB3TestBuilder.Network → FnB3TestBuilder.SimplePolicy)
    (fromSlice : List Nat → Option K) (b : FnB3TestBuilder.TestSimpleValidatorBuilder K) :
    (FnB3TestBuilder.TestSimpleValidatorBuilder.build dflt fromSlice b : Rs.M (FnB3TestBuilder.SimpleValidator K C))
      = match fromSlice (List.replicate 33 2) with
        | none => .error .panic
        | some k0 =>
          let d := dflt b.network
          .ok { policy := { min_delay := b.min_delay.getD d.min_delay, max_delay := b.max_delay.getD d.max_delay,
                            max_channel_size_sat := b.max_channel_size_sat.getD d.max_channel_size_sat,
                            max_htlc_value_sat := b.max_htlc_value_sat.getD d.max_htlc_value_sat,
                            use_chain_state := b.use_chain_state.getD d.use_chain_state,
                            enforce_balance := b.enforce_balance.getD d.enforce_balance,
                            cltv_delta := b.cltv_delta.getD d.cltv_delta },
                node_id := b.node_id.getD k0, channel_id := none } := by
  unfold FnB3TestBuilder.TestSimpleValidatorBuilder.build
  cases hk : fromSlice (List.replicate 33 2) <;>
    cases h1 : b.max_channel_size_sat <;> cases h2 : b.min_delay <;> cases h3 : b.max_delay <;>
    cases h4 : b.max_htlc_value_sat <;> cases h5 : b.use_chain_state <;>
    simp [Rs.unwrap, Rs.panic, bind, Except.bind, pure, Except.pure]

example : FnB3Filter.PolicyFilter.filter { rules := [FnB3Filter.FilterRule.new_warn "policy-x"] } "policy-x-long" = .ok .Error
    ∧ FnB3Filter.PolicyFilter.filter { rules := [FnB3Filter.FilterRule.new_warn "policy-x"] } "policy-x" = .ok .Warn := by
  constructor <;> (rw [(C05_fn_filter_rule_exact _ _).1]; simp)

end B3

/-! ### Round 10 (b3): **which** validator and **which** chain state a request is checked against

`Gen.FnB3NodeVal` (node.rs: `Node::{validator, policy, network, validator_factory, get_id, get_channels}`) and
`Gen.FnB3ChannelVal` (channel.rs: `Channel::{validator, network, get_chain_state, get_node}`, `ChannelStub::{validator,
get_node}`).  Every `validate_*` call of C05 goes through one of these: the policy that `C05_main` speaks about is the
one of the validator they return.  `make` is `ValidatorFactory::make_validator` (every implementation). -/

section B3Val
open VlsModel.Gen
variable {F N P C S V M Pol CS : Type}

/-- the node's accessors return the node's own fields -/
theorem C05_fn_node_accessors (n : FnB3NodeVal.Node F N P C S) :
    n.network = n.node_config.network ∧ n.validator_factory_fn = n.validator_factory ∧ n.get_id = n.node_id
      ∧ n.get_channels = n.channels := ⟨rfl, rfl, rfl, rfl⟩

/-- `Node::validator`: made by the node's **own** factory for the node's own network and id, without a channel id;
    `Node::policy`: the same factory's policy for the same network -/
theorem C05_fn_node_validator (make : F → N → P → Option C → V) (pol : F → N → Pol) (n : FnB3NodeVal.Node F N P C S) :
    FnB3NodeVal.Node.validator make n = make n.validator_factory n.node_config.network n.node_id none
      ∧ FnB3NodeVal.Node.policy pol n = pol n.validator_factory n.node_config.network := ⟨rfl, rfl⟩

/-- `get_node`: the node the channel belongs to; `upgrade().unwrap()` panics exactly when it is gone -/
theorem C05_fn_channel_get_node (c : FnB3ChannelVal.Channel N C M) (st : FnB3ChannelVal.ChannelStub N C) :
    c.get_node = (match c.node with | some n => .ok n | none => .error .panic)
      ∧ st.get_node = (match st.node with | some n => .ok n | none => .error .panic) := by
  unfold FnB3ChannelVal.Channel.get_node FnB3ChannelVal.ChannelStub.get_node
  constructor
  · cases c.node <;> rfl
  · cases st.node <;> rfl

/-- `Channel::validator` / `ChannelStub::validator`: the factory, network and id are those **of the channel's node** (all three
    read from the same node), the channel id is the channel's own `id0`; nothing else enters -/
theorem C05_fn_channel_validator {Nd : Type} (vf : Nd → F) (net : Nd → N) (gid : Nd → P) (make : F → N → P → Option C → V)
    (c : FnB3ChannelVal.Channel Nd C M) (st : FnB3ChannelVal.ChannelStub Nd C) :
    FnB3ChannelVal.Channel.validator vf net gid make c
        = (match c.node with | some n => .ok (make (vf n) (net n) (gid n) (some c.id0)) | none => .error .panic)
      ∧ FnB3ChannelVal.ChannelStub.validator vf net gid make st
        = (match st.node with | some n => .ok (make (vf n) (net n) (gid n) (some st.id0)) | none => .error .panic) := by
  unfold FnB3ChannelVal.Channel.validator FnB3ChannelVal.ChannelStub.validator FnB3ChannelVal.Channel.network
    FnB3ChannelVal.Channel.get_node FnB3ChannelVal.ChannelStub.get_node
  constructor
  · cases c.node <;> rfl
  · cases st.node <;> rfl

/-- both units together: with the node's translated accessors as the externals, a channel's validator differs from its
    node's validator (`C05_fn_node_validator`) **only** in the channel id — same factory (hence same policy and filter),
    same network, same node id.  A channel cannot be validated under another node's or a default policy. -/
theorem C05_fn_channel_validator_is_node_factory (make : F → N → P → Option C → V) (n : FnB3NodeVal.Node F N P C S)
    (c : FnB3ChannelVal.Channel (FnB3NodeVal.Node F N P C S) C M) (hn : c.node = some n) :
    FnB3ChannelVal.Channel.validator FnB3NodeVal.Node.validator_factory_fn FnB3NodeVal.Node.network FnB3NodeVal.Node.get_id make c
        = .ok (make n.validator_factory n.node_config.network n.node_id (some c.id0))
      ∧ FnB3NodeVal.Node.validator make n = make n.validator_factory n.node_config.network n.node_id none := by
  refine ⟨?_, rfl⟩
  rw [(C05_fn_channel_validator _ _ _ _ c (⟨none, c.id0⟩ : FnB3ChannelVal.ChannelStub _ C)).1, hn]; rfl

/-- `Channel::network`: the node's -/
theorem C05_fn_channel_network {Nd : Type} (net : Nd → N) (c : FnB3ChannelVal.Channel Nd C M) :
    FnB3ChannelVal.Channel.network net c = (match c.node with | some n => .ok (net n) | none => .error .panic) := by
  unfold FnB3ChannelVal.Channel.network FnB3ChannelVal.Channel.get_node
  cases c.node <;> rfl

/-- `Channel::get_chain_state`: the chain state handed to the validator (the on-chain gate `C05_fn_ensure_funding_buried`
    reads its depths) is `as_chain_state` of the channel's **own** monitor, for every implementation of `as_chain_state`
    (the translated one: `C14_fn_as_chain_state`) -/
theorem C05_fn_channel_get_chain_state {Nd : Type} (acs : M → CS) (c : FnB3ChannelVal.Channel Nd C M) :
    FnB3ChannelVal.Channel.get_chain_state acs c = acs c.monitor := rfl

example : FnB3ChannelVal.Channel.validator (fun (n : Nat) => n + 1) (fun n => n + 2) (fun n => n + 3)
    (fun f nt p (c : Option Nat) => (f, nt, p, c)) (⟨some 10, 7, ()⟩ : FnB3ChannelVal.Channel Nat Nat Unit) = .ok (11, 12, 13, some 7) := by
  rw [(C05_fn_channel_validator _ _ _ _ _ (⟨none, 0⟩ : FnB3ChannelVal.ChannelStub Nat Nat)).1]

end B3Val

/-- (round 10, b3) `SimpleValidator::log_prefix` (the last function of simple_validator.rs outside the subset; its two
    abbreviations — `node_id.to_string()[0..4]`, the first four bytes of the channel id in hex or `""` — are `let`-externals that
    may panic on the slice): the two parts joined by `/`, a panic only from an abbreviation, the node part evaluated first.
    It is only ever an argument of `debug!`: no validation outcome depends on it. -/
theorem C05_fn_log_prefix (nodePart chanPart : Gen.FnB3LogPrefix.SimpleValidator → Rs.M String)
    (v : Gen.FnB3LogPrefix.SimpleValidator) :
    Gen.FnB3LogPrefix.SimpleValidator.log_prefix nodePart chanPart v
      = match nodePart v with
        | .error e => .error e
        | .ok a => match chanPart v with
          | .error e => .error e
          | .ok b => .ok (a ++ "/" ++ b) := by
  unfold Gen.FnB3LogPrefix.SimpleValidator.log_prefix
  cases nodePart v <;> cases chanPart v <;> rfl

example : Gen.FnB3LogPrefix.SimpleValidator.log_prefix (fun _ => .ok "02ab") (fun _ => .ok "") ⟨⟩ = .ok "02ab/" := by
  rw [C05_fn_log_prefix]; rfl

end VlsModel.Props.C05Fn
