import VlsModel.Model.Policy
import VlsModel.Gen.FnSimple
import VlsModel.Gen.FnTxUtil
import VlsModel.Gen.FnTx
import VlsModel.Lemmas.FnGen
/-
C05 — pieces of the hand-written policy model (`Model/Policy.lean`) proved equal to the function bodies that
`translate/rs2lean.py` regenerates on every run from
  vls-core/src/policy/simple_validator.rs  (`validate_delay`, `validate_expiry`, `validate_fee`),
  vls-core/src/util/transaction_utils.rs   (`expected_commitment_tx_weight`),
  vls-core/src/tx/tx.rs                    (`CommitmentInfo2::{value_to_parties, total_value}`).

The generated bodies return `Rs.M α` (`.err tag` / `.panic` / `.overflow`); the model returns `Except Kind α`.
`rel t` maps one to the other for the policy tag `t` the model passes: an error carrying exactly `t.name` becomes
`t.kind`, a panic or overflow becomes `Kind.panic`.

Where the model is total and the code is not, the precondition is explicit in the theorem and the behaviour of the
code outside it is stated by a companion theorem (`…_weight_zero`, `…_overflow`).
-/
namespace VlsModel.Props.C05Fn
open VlsModel VlsModel.Policy
open VlsModel.Gen.FnSimple (SimpleValidator SimplePolicy)

/-- the `SimplePolicy` fields read by the translated functions -/
def toV (p : Policy) : SimpleValidator :=
  { policy := { min_delay := p.minDelay, max_delay := p.maxDelay, use_chain_state := p.useChainState,
                min_feerate_per_kw := p.minFeerate, max_feerate_per_kw := p.maxFeerate,
                epsilon_sat := p.epsilon, dev_flags := none } }

/-- the external of `policy_err!`: does the policy filter keep this tag an error? -/
def filt (p : Policy) : String → Bool := fun tag => filterEval p.filter tag == .error

def rel (t : Tag) : Rs.M Unit → Except Kind Unit
  | .ok () => .ok ()
  | .error (.err s) => if s = t.name then .error t.kind else .error .other
  | .error _ => .error .panic

theorem C05_fn_validate_delay (p : Policy) (t : Tag) (name : String)
    (ht : t.name = "policy-channel-contest-delay-range-" ++ name) (delay : Nat) :
    rel t ((toV p).validate_delay (filt p) name delay) = validateDelay p t delay := by
  unfold SimpleValidator.validate_delay validateDelay check policyErr errs Rs.policyErr
  rw [← ht]
  simp only [toV, filt]
  by_cases h1 : delay < p.minDelay <;> by_cases h2 : delay > p.maxDelay <;>
    by_cases h3 : filterEval p.filter t.name = Gen.Policy.Action.error <;>
    simp [h1, h2, h3, rel, Rs.fail, bind, Except.bind, pure, Except.pure]

theorem C05_fn_validate_expiry (p : Policy) (c : ChainState) (name : String) (expiry : Nat) :
    rel .htlcCltvRange ((toV p).validate_expiry (filt p) name expiry c.height) = validateExpiry p c expiry := by
  unfold SimpleValidator.validate_expiry validateExpiry check policyErr errs Rs.policyErr addU32 Rs.uadd
  have hn : Tag.htlcCltvRange.name = "policy-commitment-htlc-cltv-range" := rfl
  rw [← hn]
  simp only [toV, filt, Gen.Policy.maxCltvExpiry, Rs.U32_MAX, U32.MAX]
  by_cases h0 : p.useChainState = true <;>
    by_cases h1 : expiry ≥ 500000000 <;>
    by_cases h3 : filterEval p.filter Tag.htlcCltvRange.name = Gen.Policy.Action.error <;>
    by_cases h4 : c.height + p.minDelay ≤ 4294967295 <;>
    by_cases h5 : c.height + p.maxDelay ≤ 4294967295 <;>
    by_cases h6 : expiry < c.height + p.minDelay <;>
    by_cases h7 : expiry > c.height + p.maxDelay <;>
    simp [h0, h1, h3, h4, h5, h6, h7, rel, Rs.fail, Rs.overflow, bind, Except.bind, pure, Except.pure]

/-- `validate_fee`: equal to the model for a positive weight and a 64-bit input sum (both call sites guarantee
    them: the weight of a transaction with at least one input, a sum of `u64` amounts checked by `checked_add`). -/
theorem C05_fn_validate_fee (p : Policy) (t : Tag) (hk : t.kind = .fee) (sumIn sumOut weight : Nat)
    (hw : weight ≠ 0) (hin : sumIn ≤ Rs.U64_MAX) :
    rel t ((toV p).validate_fee (filt p) t.name sumIn sumOut weight) = validateFee p t sumIn sumOut weight := by
  unfold SimpleValidator.validate_fee validateFee hard check policyErr errs Rs.policyErr exactFeerate
  simp only [toV, filt, Rs.okOr, Rs.ucheckedSub]
  by_cases h1 : sumOut ≤ sumIn
  · have h1' : ¬ sumIn < sumOut := Nat.not_lt.mpr h1
    have hm := (Rs.fee_rate_fits (sumIn - sumOut) (Nat.le_trans (Nat.sub_le _ _) hin)).1
    have ha := (Rs.fee_rate_fits (sumIn - sumOut) (Nat.le_trans (Nat.sub_le _ _) hin)).2
    simp only [h1, h1', if_true, Rs.umul, hm, Rs.uadd, ha, Rs.udiv, hw, if_false, Rs.bind_ok, Rs.pure_eq,
      decide_false, decide_true]
    by_cases h2 : ((sumIn - sumOut) * 1000 + 999) / weight < p.minFeerate <;>
      by_cases h3 : ((sumIn - sumOut) * 1000 + 999) / weight > p.maxFeerate <;>
      by_cases h4 : filterEval p.filter t.name = Gen.Policy.Action.error <;>
      simp [h2, h3, h4, rel, Rs.fail, bind, Except.bind, pure, Except.pure]
  · have h1' : sumIn < sumOut := Nat.lt_of_not_le h1
    simp [h1, h1', rel, Rs.fail, hk, bind, Except.bind]

/-- outside the precondition: a zero weight is a division panic in the code (the model's `exactFeerate` would
    compute a rate of 0 and go on) -/
theorem C05_fn_validate_fee_weight_zero (p : Policy) (tag : String) (sumIn sumOut : Nat)
    (h : sumOut ≤ sumIn) (hin : sumIn ≤ Rs.U64_MAX) :
    (toV p).validate_fee (filt p) tag sumIn sumOut 0 = .error .panic := by
  unfold SimpleValidator.validate_fee
  have hm := (Rs.fee_rate_fits (sumIn - sumOut) (Nat.le_trans (Nat.sub_le _ _) hin)).1
  have ha := (Rs.fee_rate_fits (sumIn - sumOut) (Nat.le_trans (Nat.sub_le _ _) hin)).2
  simp [Rs.okOr, Rs.ucheckedSub, h, Rs.umul, hm, Rs.uadd, ha, Rs.udiv, Rs.panic, bind, Except.bind]

/-- `expected_commitment_tx_weight` = `commitmentWeight` as long as the `usize` arithmetic does not overflow
    (`num_untrimmed_htlc` is the length of a vector held in memory) -/
theorem C05_fn_commitment_weight (anchors : Bool) (n : Nat) (hn : n * 172 + 1124 ≤ Rs.USIZE_MAX) :
    Gen.FnTxUtil.expected_commitment_tx_weight anchors n = .ok (commitmentWeight anchors n) := by
  unfold Gen.FnTxUtil.expected_commitment_tx_weight commitmentWeight
  unfold Rs.USIZE_MAX at hn
  have h1 : n * 172 ≤ 18446744073709551615 := by omega
  have h2 : 1124 + n * 172 ≤ 18446744073709551615 := by omega
  have h3 : 724 + n * 172 ≤ 18446744073709551615 := by omega
  cases anchors <;>
    simp [Rs.umul, Rs.uadd, Rs.USIZE_MAX, h1, h2, h3, Gen.Policy.commitmentBaseAnchorWeight,
      Gen.Policy.commitmentBaseWeight, Gen.Policy.commitmentWeightPerHtlc]

def toCI (i : Info) : Gen.FnTx.CommitmentInfo2 :=
  { is_counterparty_broadcaster := i.isCp, to_countersigner_value_sat := i.toCountersigner,
    to_broadcaster_value_sat := i.toBroadcaster,
    offered_htlcs := i.offered.map (fun h => { value_sat := h.value }),
    received_htlcs := i.received.map (fun h => { value_sat := h.value }) }

theorem C05_fn_value_to_parties (i : Info) :
    (toCI i).value_to_parties = (i.toHolder, i.toCounterparty) := by
  unfold Gen.FnTx.CommitmentInfo2.value_to_parties Info.toHolder Info.toCounterparty
  by_cases h : i.isCp = true <;> simp [toCI, h]

/-- `total_value` (plain `+` and `.sum::<u64>()`) = `Info.total` whenever the total fits into `u64`;
    otherwise the code overflows (`C05_fn_total_value_overflow`) -/
theorem C05_fn_total_value (i : Info) (h : i.total ≤ Rs.U64_MAX) :
    (toCI i).total_value = .ok i.total := by
  unfold Gen.FnTx.CommitmentInfo2.total_value
  unfold Info.total sumValues at h
  simp only [toCI, List.map_map, Rs.usum_eq, Rs.uadd]
  have e1 : (List.map ((fun h : Gen.FnTx.HTLCInfo2 => h.value_sat) ∘ fun h : Htlc => ({ value_sat := h.value } : Gen.FnTx.HTLCInfo2)) i.offered)
      = i.offered.map (·.value) := by simp [Function.comp_def]
  have e2 : (List.map ((fun h : Gen.FnTx.HTLCInfo2 => h.value_sat) ∘ fun h : Htlc => ({ value_sat := h.value } : Gen.FnTx.HTLCInfo2)) i.received)
      = i.received.map (·.value) := by simp [Function.comp_def]
  rw [e1, e2]
  have a1 : i.toBroadcaster + i.toCountersigner ≤ Rs.U64_MAX := by omega
  have a2 : (i.offered.map (·.value)).sum ≤ Rs.U64_MAX := by omega
  have a3 : i.toBroadcaster + i.toCountersigner + (i.offered.map (·.value)).sum ≤ Rs.U64_MAX := by omega
  have a4 : (i.received.map (·.value)).sum ≤ Rs.U64_MAX := by omega
  simp [a1, a2, a3, a4, h, Info.total, sumValues]

theorem C05_fn_total_value_overflow (i : Info) (h : ¬ i.total ≤ Rs.U64_MAX) :
    (toCI i).total_value = .error .overflow := by
  unfold Gen.FnTx.CommitmentInfo2.total_value
  unfold Info.total sumValues at h
  simp only [toCI, List.map_map, Rs.usum_eq, Rs.uadd]
  have e1 : (List.map ((fun h : Gen.FnTx.HTLCInfo2 => h.value_sat) ∘ fun h : Htlc => ({ value_sat := h.value } : Gen.FnTx.HTLCInfo2)) i.offered)
      = i.offered.map (·.value) := by simp [Function.comp_def]
  have e2 : (List.map ((fun h : Gen.FnTx.HTLCInfo2 => h.value_sat) ∘ fun h : Htlc => ({ value_sat := h.value } : Gen.FnTx.HTLCInfo2)) i.received)
      = i.received.map (·.value) := by simp [Function.comp_def]
  rw [e1, e2]
  by_cases a1 : i.toBroadcaster + i.toCountersigner ≤ Rs.U64_MAX
  · by_cases a2 : (i.offered.map (·.value)).sum ≤ Rs.U64_MAX
    · by_cases a3 : i.toBroadcaster + i.toCountersigner + (i.offered.map (·.value)).sum ≤ Rs.U64_MAX
      · by_cases a4 : (i.received.map (·.value)).sum ≤ Rs.U64_MAX
        · simp [a1, a2, a3, a4, h, Rs.overflow]
        · simp [a1, a2, a3, a4, Rs.overflow, bind, Except.bind]
      · simp [a1, a2, a3, Rs.overflow, bind, Except.bind]
    · simp [a1, a2, Rs.overflow, bind, Except.bind]
  · simp [a1, Rs.overflow, bind, Except.bind]

end VlsModel.Props.C05Fn
