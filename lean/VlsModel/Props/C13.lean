import VlsModel.Lemmas.Tracker
/-
C13 — The chain tracker moves its tip only by validated blocks; rejected requests change nothing.

Statement (properties.jsonl): the tracker's tip advances or retreats only by a block whose header
links to the current tip, meets its proof-of-work target and the retarget rules, and whose
unspent-output proof verifies for all watched outpoints with attestations from at least half of the
trusted oracles (proof checking is skipped only on top of a tip recorded without a filter header).
A block addition or removal that is rejected leaves tip, height, remembered headers, watches and
monitors exactly as before, so a later correct request still succeeds.

Model: `VlsModel/Model/Tracker.lean` (`addBlock`, `removeBlock`, `blockChunk`; outcomes `ok`,
`err kind`, `panic`).  A `.panic` outcome (an `assert!`/`unwrap` failure, the signer aborts) is not
a rejection; nothing is claimed about it.  Only property theorems live here; helper lemmas are in
`VlsModel/Lemmas/Tracker.lean`.

Result in one line: atomicity holds for the whole tracker state for compact (filter/block proof)
delivery and for the view (headers, tip, height, listeners) for every delivery; for a *streamed*
block the rejection leaves the monitors' per-block decode state behind (`ldec`), which makes the
next streamed block abort the signer (finding F4b, `C13_atomic_streamed_false`).
-/
namespace VlsModel.Props.C13
open VlsModel VlsModel.Monitor VlsModel.Tracker VlsModel.Gen.Chain

/-! ## 1. Atomicity of rejected requests -/

/-- A rejected compact `add_block` leaves the whole tracker state unchanged. -/
theorem C13_atomic_add (t : Tracker) (h : Header) (p : Proof) (k : ErrKind)
    (hr : (addBlock t h p).2 = .err k) (hp : p.ptype ≠ .external) : (addBlock t h p).1 = t := by
  rcases addBlock_cases t h p with c | ⟨k', hk, hd⟩ | ⟨ls, hk, _⟩
  · rw [c] at hr; cases hr
  · rw [hk]; exact undecode_of_none (hd hp)
  · rw [hk] at hr; cases hr

/-- A rejected `add_block` of any delivery type leaves headers, tip, height, listeners unchanged. -/
theorem C13_atomic_add_view (t : Tracker) (h : Header) (p : Proof) (k : ErrKind)
    (hr : (addBlock t h p).2 = .err k) : (addBlock t h p).1.view = t.view := by
  rcases addBlock_cases t h p with c | ⟨k', hk, _⟩ | ⟨ls, hk, _⟩
  · rw [c] at hr; cases hr
  · rw [hk]; rfl
  · rw [hk] at hr; cases hr

/-- A rejected compact `remove_block` leaves the whole tracker state unchanged. -/
theorem C13_atomic_remove (t : Tracker) (p : Proof) (v : Headers) (k : ErrKind)
    (hr : (removeBlock t p v).2 = .err k) (hp : p.ptype ≠ .external) : (removeBlock t p v).1 = t := by
  rcases removeBlock_cases t p v with c | ⟨k', _, _, hd⟩ | ⟨ls, hk, _⟩
  · rw [c] at hr; cases hr
  · exact hd hp
  · rw [hk] at hr; cases hr

/-- A rejected `remove_block` of any delivery type leaves headers, tip, height, listeners unchanged. -/
theorem C13_atomic_remove_view (t : Tracker) (p : Proof) (v : Headers) (k : ErrKind)
    (hr : (removeBlock t p v).2 = .err k) : (removeBlock t p v).1.view = t.view := by
  rcases removeBlock_cases t p v with c | ⟨k', _, h1 | h1, _⟩ | ⟨ls, hk, _⟩
  · rw [c] at hr; cases hr
  · rw [h1]
  · rw [h1]; rfl
  · rw [hk] at hr; cases hr

/-- Positive counterpart of F4b: a rejected streamed `add_block` changes at most the tracker's own
decode state (it is taken); everything else, including the monitors' flag `ldec`, stays as it was
*after the block chunks* (not as it was before them, see `C13_atomic_streamed_false`). -/
theorem C13_atomic_streamed_partial (t : Tracker) (h : Header) (p : Proof) (k : ErrKind)
    (hr : (addBlock t h p).2 = .err k) : (addBlock t h p).1 = { t with decoding := none } := by
  rcases addBlock_cases t h p with c | ⟨k', hk, _⟩ | ⟨ls, hk, _⟩
  · rw [c] at hr; cases hr
  · rw [hk]; rfl
  · rw [hk] at hr; cases hr

/-- The same for `remove_block` (a rejection by the window checks does not even take it). -/
theorem C13_atomic_streamed_remove_partial (t : Tracker) (p : Proof) (v : Headers) (k : ErrKind)
    (hr : (removeBlock t p v).2 = .err k) :
    (removeBlock t p v).1 = t ∨ (removeBlock t p v).1 = { t with decoding := none } := by
  rcases removeBlock_cases t p v with c | ⟨k', _, h1, _⟩ | ⟨ls, hk, _⟩
  · rw [c] at hr; cases hr
  · exact h1
  · rw [hk] at hr; cases hr

/-! ### Finding F4b: a rejected streamed block is not atomic

Wanted (false for the model and the code):
  `(blockChunk t d d).2 = .ok → (addBlock (blockChunk t d d).1 h p).2 = .err k →
     (addBlock (blockChunk t d d).1 h p).1 = t`
The tracker's decode state is taken by `maybe_finish_decoding_block`, but the monitors keep their
`BlockDecodeState`; the next streamed block hits "saw more than one on_block_start". -/

def f4bListener : Listener :=
  { st := State.init 5 77 0 [], slot := { txidWatches := [77], watches := [], seen := [] } }

def f4bTracker : Tracker :=
  { headers := [], tip := ⟨⟨10, 9, 1, 0, true⟩, 3⟩, height := 5, network := .regtest,
    listeners := [(1, f4bListener)], decoding := none, ldec := false, trusted := [1, 2, 3],
    allowDeep := false }

/-- a streamed block that does not link to the tip (`prev = 8 ≠ 10`) -/
def f4bHeader : Header := ⟨11, 8, 1, 0, true⟩
def f4bProof : Proof :=
  { ptype := .external, verifyOk := true, attested := [1, 2], fh := 4, fhConsistent := true, txs := [] }

theorem C13_atomic_streamed_false :
    let t0 := f4bTracker
    let t1 := (blockChunk t0 11 11).1
    let t2 := (addBlock t1 f4bHeader f4bProof).1
    (blockChunk t0 11 11).2 = .ok ∧
    (addBlock t1 f4bHeader f4bProof).2 = .err .orphan ∧
    t2.view = t1.view ∧ t2.decoding = t0.decoding ∧  -- (the chunk itself only set the monitors' `saw_block`)
    t0.ldec = false ∧ t2.ldec = true ∧            -- the state before the chunk is not restored
    (blockChunk t0 12 12).2 = .ok ∧               -- a correct next streamed block: fine before,
    (blockChunk t2 12 12).2 = .panic := by        -- aborts the signer after the rejection
  decide

/-! ## 3. The tip moves only by validated blocks -/

/-- A successful `add_block`: the header links to the tip, meets its PoW target, passes the
bits/retarget rules, the proof is accepted unless the tip has a zero filter header, and the tip,
height and header window move by exactly this block. -/
theorem C13_advance_add (t : Tracker) (h : Header) (p : Proof) (hr : (addBlock t h p).2 = .ok) :
    h.prev = t.tip.hdr.hash ∧ h.powOk = true ∧
    headerCheck t.network t.height t.tip.hdr h = none ∧
    (t.tip.fh = 0 ∨ proofOk t.trusted p = true) ∧
    (addBlock t h p).1.tip = ⟨h, p.fh⟩ ∧
    (addBlock t h p).1.height = t.height + 1 ∧
    (addBlock t h p).1.headers = t.tip :: t.headers.take (maxReorgSize - 1) := by
  rcases addBlock_cases t h p with c | ⟨k', hk, _⟩ | ⟨ls, hk, _, _, hv⟩
  · rw [c] at hr; cases hr
  · rw [hk] at hr; cases hr
  · obtain ⟨hc, hpf⟩ := validateBlock_none hv
    obtain ⟨h1, h2⟩ := headerCheck_none hc
    rw [hk]
    exact ⟨h1, h2, hc, hpf, rfl, rfl, rfl⟩

/-- A successful `add_block` also ran every monitor over the block's transactions. -/
theorem C13_advance_add_listeners (t : Tracker) (h : Header) (p : Proof)
    (hr : (addBlock t h p).2 = .ok) :
    mapListeners (·.add p.txs) t.listeners = some (addBlock t h p).1.listeners := by
  rcases addBlock_cases t h p with c | ⟨k', hk, _⟩ | ⟨ls, hk, _, hl, _⟩
  · rw [c] at hr; cases hr
  · rw [hk] at hr; cases hr
  · rw [hk]; exact hl

/-- A successful `remove_block`: the tip links to the supplied previous header, which is the one
remembered in the window (or the window is empty and deep reorgs are allowed); the tip re-validates
on top of it; tip, height and window retreat by exactly one block. -/
theorem C13_advance_remove (t : Tracker) (p : Proof) (v : Headers)
    (hr : (removeBlock t p v).2 = .ok) :
    t.tip.hdr.prev = v.hdr.hash ∧ t.tip.hdr.powOk = true ∧
    headerCheck t.network (t.height - 1) v.hdr t.tip.hdr = none ∧
    (v.fh = 0 ∨ proofOk t.trusted p = true) ∧
    (∀ h0 rest, t.headers = h0 :: rest → v = h0) ∧
    (t.headers = [] → t.allowDeep = true) ∧
    t.height ≠ 0 ∧
    (removeBlock t p v).1.tip = v ∧
    (removeBlock t p v).1.height = t.height - 1 ∧
    (removeBlock t p v).1.headers = t.headers.drop 1 := by
  rcases removeBlock_cases t p v with c | ⟨k', hk, _⟩ | ⟨ls, hk, _, _, hne, hv, hw, hdp⟩
  · rw [c] at hr; cases hr
  · rw [hk] at hr; cases hr
  · obtain ⟨hc, hpf⟩ := validateBlock_none hv
    obtain ⟨h1, h2⟩ := headerCheck_none hc
    rw [hk]
    exact ⟨h1, h2, hc, hpf, hw, hdp, hne, rfl, rfl, rfl⟩

/-- Tip, height and the remembered headers change only on `.ok` (panics excluded: the signer is
gone). -/
theorem C13_tip_changes_only_on_ok (t : Tracker) (h : Header) (p : Proof) (v : Headers) :
    ((addBlock t h p).2 ≠ .ok → (addBlock t h p).2 ≠ .panic →
      (addBlock t h p).1.tip = t.tip ∧ (addBlock t h p).1.height = t.height ∧
      (addBlock t h p).1.headers = t.headers ∧ (addBlock t h p).1.listeners = t.listeners) ∧
    ((removeBlock t p v).2 ≠ .ok → (removeBlock t p v).2 ≠ .panic →
      (removeBlock t p v).1.tip = t.tip ∧ (removeBlock t p v).1.height = t.height ∧
      (removeBlock t p v).1.headers = t.headers ∧ (removeBlock t p v).1.listeners = t.listeners) := by
  constructor
  · intro h1 h2
    cases hr : (addBlock t h p).2 with
    | ok => exact absurd hr h1
    | panic => exact absurd hr h2
    | err k =>
      have hv := C13_atomic_add_view t h p k hr
      simp only [Tracker.view, View.mk.injEq] at hv
      exact ⟨hv.2.1, hv.2.2.1, hv.1, hv.2.2.2⟩
  · intro h1 h2
    cases hr : (removeBlock t p v).2 with
    | ok => exact absurd hr h1
    | panic => exact absurd hr h2
    | err k =>
      have hv := C13_atomic_remove_view t p v k hr
      simp only [Tracker.view, View.mk.injEq] at hv
      exact ⟨hv.2.1, hv.2.2.1, hv.1, hv.2.2.2⟩

/-! ## 4. Oracle majority -/

/-- never more matches than trusted oracles -/
theorem C13_keyMatches_le (trusted attested : List Nat) :
    keyMatches trusted attested ≤ trusted.length := keyMatches_le trusted attested

/-- On top of a tip with a filter header, an accepted block's proof verified and at least half of
the trusted oracles attested it. -/
theorem C13_majority (t : Tracker) (h : Header) (p : Proof) (hr : (addBlock t h p).2 = .ok)
    (hfh : t.tip.fh ≠ 0) :
    p.verifyOk = true ∧ t.trusted.length ≤ 2 * keyMatches t.trusted p.attested := by
  rcases (C13_advance_add t h p hr).2.2.2.1 with h0 | hp
  · exact absurd h0 hfh
  · exact proofOk_true hp

theorem C13_majority_remove (t : Tracker) (p : Proof) (v : Headers)
    (hr : (removeBlock t p v).2 = .ok) (hfh : v.fh ≠ 0) :
    p.verifyOk = true ∧ t.trusted.length ≤ 2 * keyMatches t.trusted p.attested := by
  rcases (C13_advance_remove t p v hr).2.2.2.1 with h0 | hp
  · exact absurd h0 hfh
  · exact proofOk_true hp

/-- Documented behaviour: with no trusted oracle configured the majority condition is vacuous
(only `TxoProof::verify` counts). -/
theorem C13_majority_vacuous (p : Proof) : proofOk [] p = p.verifyOk := by
  simp [proofOk, requiredMajority, keyMatches]

/-- Conversely, the model's acceptance test is exactly "verified and at least half". -/
theorem C13_proofOk_iff (trusted : List Nat) (p : Proof) :
    proofOk trusted p = true ↔
      (p.verifyOk = true ∧ trusted.length ≤ 2 * keyMatches trusted p.attested) := by
  unfold proofOk requiredMajority
  simp only [Bool.and_eq_true, decide_eq_true_eq]
  constructor
  · intro ⟨a, b⟩; exact ⟨a, by omega⟩
  · intro ⟨a, b⟩; exact ⟨a, by omega⟩

/-! ## 5. A later request behaves as if the rejected one had never been made -/

theorem C13_retry_add_add (t : Tracker) (h h' : Header) (p p' : Proof) (k : ErrKind)
    (hr : (addBlock t h p).2 = .err k) (hp : p.ptype ≠ .external) :
    addBlock (addBlock t h p).1 h' p' = addBlock t h' p' := by
  rw [C13_atomic_add t h p k hr hp]

theorem C13_retry_add_remove (t : Tracker) (h : Header) (p p' : Proof) (v' : Headers) (k : ErrKind)
    (hr : (addBlock t h p).2 = .err k) (hp : p.ptype ≠ .external) :
    removeBlock (addBlock t h p).1 p' v' = removeBlock t p' v' := by
  rw [C13_atomic_add t h p k hr hp]

theorem C13_retry_remove_add (t : Tracker) (h' : Header) (p p' : Proof) (v : Headers) (k : ErrKind)
    (hr : (removeBlock t p v).2 = .err k) (hp : p.ptype ≠ .external) :
    addBlock (removeBlock t p v).1 h' p' = addBlock t h' p' := by
  rw [C13_atomic_remove t p v k hr hp]

theorem C13_retry_remove_remove (t : Tracker) (p p' : Proof) (v v' : Headers) (k : ErrKind)
    (hr : (removeBlock t p v).2 = .err k) (hp : p.ptype ≠ .external) :
    removeBlock (removeBlock t p v).1 p' v' = removeBlock t p' v' := by
  rw [C13_atomic_remove t p v k hr hp]

/-- General form: any observation `f` of the tracker (in particular the result of any later
sequence of requests) is the same after a rejected compact request as before it. -/
theorem C13_retry {α : Type} (f : Tracker → α) (t : Tracker) (h : Header) (p : Proof) (v : Headers)
    (k : ErrKind) (hp : p.ptype ≠ .external) :
    ((addBlock t h p).2 = .err k → f (addBlock t h p).1 = f t) ∧
    ((removeBlock t p v).2 = .err k → f (removeBlock t p v).1 = f t) :=
  ⟨fun hr => by rw [C13_atomic_add t h p k hr hp], fun hr => by rw [C13_atomic_remove t p v k hr hp]⟩

/-- Positive instance: a correct request that would have succeeded before the rejection still
succeeds after it, with the same resulting tracker. -/
theorem C13_retry_succeeds (t : Tracker) (h h' : Header) (p p' : Proof) (k : ErrKind)
    (hr : (addBlock t h p).2 = .err k) (hp : p.ptype ≠ .external)
    (hok : (addBlock t h' p').2 = .ok) :
    (addBlock (addBlock t h p).1 h' p').2 = .ok ∧
    (addBlock (addBlock t h p).1 h' p').1 = (addBlock t h' p').1 := by
  rw [C13_retry_add_add t h h' p p' k hr hp]; exact ⟨hok, rfl⟩

theorem C13_retry_succeeds_remove (t : Tracker) (p p' : Proof) (v v' : Headers) (k : ErrKind)
    (hr : (removeBlock t p v).2 = .err k) (hp : p.ptype ≠ .external)
    (hok : (removeBlock t p' v').2 = .ok) :
    (removeBlock (removeBlock t p v).1 p' v').2 = .ok ∧
    (removeBlock (removeBlock t p v).1 p' v').1 = (removeBlock t p' v').1 := by
  rw [C13_retry_remove_remove t p p' v v' k hr hp]; exact ⟨hok, rfl⟩

/-- For a streamed (external) delivery the full retry statement is false
(`C13_atomic_streamed_false`: the follow-up `blockChunk` panics).  What does hold: every field of
the tracker except the tracker's own decode state is as before the rejected `add_block` (i.e. as
after the block chunks), and the decode state is cleared. -/
theorem C13_retry_streamed_partial (t : Tracker) (h : Header) (p : Proof) (k : ErrKind)
    (hr : (addBlock t h p).2 = .err k) :
    (addBlock t h p).1.view = t.view ∧ (addBlock t h p).1.trusted = t.trusted ∧
    (addBlock t h p).1.network = t.network ∧ (addBlock t h p).1.allowDeep = t.allowDeep ∧
    (addBlock t h p).1.ldec = t.ldec ∧ (addBlock t h p).1.decoding = none := by
  rw [C13_atomic_streamed_partial t h p k hr]
  exact ⟨rfl, rfl, rfl, rfl, rfl, rfl⟩

/-! ## 6. Generated constants and the header window -/

theorem C13_gen_ok : 1 ≤ maxReorgSize ∧ 0 < diffchangeInterval := by
  unfold maxReorgSize diffchangeInterval; decide

/-- After a successful `add_block` the window of remembered headers holds at most
`MAX_REORG_SIZE` entries (uses only `1 ≤ maxReorgSize`). -/
theorem C13_window_bounded (t : Tracker) (h : Header) (p : Proof) (hr : (addBlock t h p).2 = .ok) :
    (addBlock t h p).1.headers.length ≤ maxReorgSize := by
  rw [(C13_advance_add t h p hr).2.2.2.2.2.2]
  have := C13_gen_ok.1
  simp only [List.length_cons, List.length_take]
  omega

/-- and a successful `remove_block` never grows it -/
theorem C13_window_bounded_remove (t : Tracker) (p : Proof) (v : Headers)
    (hr : (removeBlock t p v).2 = .ok) :
    (removeBlock t p v).1.headers.length ≤ t.headers.length := by
  rw [(C13_advance_remove t p v hr).2.2.2.2.2.2.2.2.2]
  simp only [List.length_drop]
  omega

/-! ## 7. Non-vacuity -/

def exListener : Listener :=
  { st := State.init 5 77 0 [], slot := { txidWatches := [77], watches := [], seen := [] } }

/-- height 5, tip hash 10 with filter header 3 (non-zero), one remembered header, 3 trusted oracles -/
def exTracker : Tracker :=
  { headers := [⟨⟨9, 8, 1, 0, true⟩, 2⟩], tip := ⟨⟨10, 9, 1, 0, true⟩, 3⟩, height := 5,
    network := .regtest, listeners := [(1, exListener)], decoding := none, ldec := false,
    trusted := [1, 2, 3], allowDeep := false }

def exHeader : Header := ⟨11, 10, 1, 0, true⟩
def exProof (attested : List Nat) : Proof :=
  { ptype := .filter, verifyOk := true, attested, fh := 4, fhConsistent := true, txs := [] }

/-- accepted: links, PoW ok, same bits, 2 of 3 trusted oracles attested -/
example : (addBlock exTracker exHeader (exProof [1, 2])).2 = .ok ∧
    (addBlock exTracker exHeader (exProof [1, 2])).1.height = 6 ∧
    (addBlock exTracker exHeader (exProof [1, 2])).1.tip = ⟨exHeader, 4⟩ := by decide

/-- rejected: only 1 of 3 trusted oracles attested (the foreign key 9 does not count) -/
example : (addBlock exTracker exHeader (exProof [1, 9])).2 = .err .invalidProof := by decide

/-- rejected: the proof did not verify -/
example : (addBlock exTracker exHeader { exProof [1, 2, 3] with verifyOk := false }).2
    = .err .invalidProof := by decide

/-- rejected: does not link to the tip -/
example : (addBlock exTracker ⟨11, 7, 1, 0, true⟩ (exProof [1, 2])).2 = .err .orphan := by decide

/-- rejected: PoW target not met / bits changed off the retarget boundary -/
example : (addBlock exTracker ⟨11, 10, 1, 0, false⟩ (exProof [1, 2])).2 = .err .invalidBlock ∧
    (addBlock exTracker ⟨11, 10, 2, 0, true⟩ (exProof [1, 2])).2 = .err .invalidChain := by decide

/-- accepted removal back to the remembered header -/
example : (removeBlock exTracker (exProof [2, 3]) ⟨⟨9, 8, 1, 0, true⟩, 2⟩).2 = .ok ∧
    (removeBlock exTracker (exProof [2, 3]) ⟨⟨9, 8, 1, 0, true⟩, 2⟩).1.height = 4 ∧
    (removeBlock exTracker (exProof [2, 3]) ⟨⟨9, 8, 1, 0, true⟩, 2⟩).1.headers = [] := by decide

/-- rejected removal: the supplied previous header is not the remembered one -/
example : (removeBlock exTracker (exProof [2, 3]) ⟨⟨9, 8, 1, 0, true⟩, 7⟩).2 = .err .invalidChain := by
  decide

/-- rejected removal past the window -/
example : (removeBlock { exTracker with headers := [] } (exProof [2, 3]) ⟨⟨9, 8, 1, 0, true⟩, 2⟩).2
    = .err .reorgTooDeep := by decide

/-- the retry theorem is not vacuous: rejected (1 of 3), then the correct request succeeds -/
example :
    (addBlock (addBlock exTracker exHeader (exProof [1])).1 exHeader (exProof [1, 2])).2 = .ok := by
  decide

/-- zero filter header on the tip: the proof is not looked at (documented bypass) -/
example : (addBlock { exTracker with tip := ⟨⟨10, 9, 1, 0, true⟩, 0⟩ } exHeader
    { exProof [9] with verifyOk := false }).2 = .ok := by decide

end VlsModel.Props.C13
