import VlsModel.Lemmas.Tracker
import VlsModel.Model.TrackerHandler
/-
C13 — The chain tracker moves its tip only by validated blocks; rejected requests change nothing.

Statement (properties.jsonl): the tracker's tip advances or retreats only by a block whose header
links to the current tip, meets its proof-of-work target and the retarget rules, and whose
unspent-output proof verifies for all watched outpoints with attestations from at least half of the
trusted oracles (proof checking is skipped only on top of a tip recorded without a filter header).
A block addition or removal that is rejected leaves tip, height, remembered headers, watches and
monitors exactly as before, so a later correct request still succeeds.

Model: `VlsModel/Model/Tracker.lean` (`addBlock`, `removeBlock`, `blockChunk`; outcomes `ok`,
`err kind`, `panic`).  A `.panic` outcome (an `assert!`/`unwrap` failure, the signer aborts) is not
a rejection; nothing is claimed about it.  Only property theorems live here; helper lemmas are in
`VlsModel/Lemmas/Tracker.lean`.

Result in one line: a refused request returns the tracker it was given when no stream is in
progress, and for a *streamed* request (block chunks, then a refused `add_block`/`remove_block`)
the tracker and its monitors are back in the state they had before the first chunk, so the next
streamed block is accepted (`C13_atomic_streamed`, full strength since fix b36e377; before that
fix the monitors kept their per-block decode state and the next streamed block aborted the signer
— finding F4b, then refuted here by a witness).  The only trace a refused stream leaves is the
monitors' `saw_block` flag, set by `on_block_start` and true for good after the first block
anyway.
-/
namespace VlsModel.Props.C13
open VlsModel VlsModel.Monitor VlsModel.Tracker VlsModel.Gen.Chain

/-! ## 1. Atomicity of rejected requests -/

/-- Shape of every refusal: the tracker is returned as it was, except that a stream in progress is
aborted (tracker decode state and the monitors' per-block decode states dropped). -/
theorem C13_reject_add (t : Tracker) (h : Header) (p : Proof) (k : ErrKind)
    (hr : (addBlock t h p).2 = .err k) : (addBlock t h p).1 = t.aborted := by
  rcases addBlock_cases t h p with c | ⟨k', hk, _⟩ | ⟨ls, hk, _⟩
  · rw [c] at hr; cases hr
  · rw [hk]
  · rw [hk] at hr; cases hr

theorem C13_reject_remove (t : Tracker) (p : Proof) (v : Headers) (k : ErrKind)
    (hr : (removeBlock t p v).2 = .err k) : (removeBlock t p v).1 = t.aborted := by
  rcases removeBlock_cases t p v with c | ⟨k', hk⟩ | ⟨ls, hk, _⟩
  · rw [c] at hr; cases hr
  · rw [hk]
  · rw [hk] at hr; cases hr

/-- A rejected compact `add_block` leaves the whole tracker state unchanged. -/
theorem C13_atomic_add (t : Tracker) (h : Header) (p : Proof) (k : ErrKind)
    (hr : (addBlock t h p).2 = .err k) (hp : p.ptype ≠ .external) : (addBlock t h p).1 = t := by
  rcases addBlock_cases t h p with c | ⟨k', hk, hd⟩ | ⟨ls, hk, _⟩
  · rw [c] at hr; cases hr
  · rw [hk]; exact aborted_of_none (hd hp)
  · rw [hk] at hr; cases hr

/-- A rejected `add_block` of any delivery type leaves headers, tip, height, listeners unchanged. -/
theorem C13_atomic_add_view (t : Tracker) (h : Header) (p : Proof) (k : ErrKind)
    (hr : (addBlock t h p).2 = .err k) : (addBlock t h p).1.view = t.view := by
  rw [C13_reject_add t h p k hr]; rfl

/-- A rejected `remove_block` while no stream is in progress leaves the whole tracker state
unchanged.  (With a stream in progress even a compact removal refused by the window checks aborts
the stream: `C13_reject_remove`.) -/
theorem C13_atomic_remove (t : Tracker) (p : Proof) (v : Headers) (k : ErrKind)
    (hr : (removeBlock t p v).2 = .err k) (hd : t.decoding = none) : (removeBlock t p v).1 = t := by
  rw [C13_reject_remove t p v k hr]; exact aborted_of_none hd

/-- A rejected `remove_block` of any delivery type leaves headers, tip, height, listeners unchanged. -/
theorem C13_atomic_remove_view (t : Tracker) (p : Proof) (v : Headers) (k : ErrKind)
    (hr : (removeBlock t p v).2 = .err k) : (removeBlock t p v).1.view = t.view := by
  rw [C13_reject_remove t p v k hr]; rfl

/-! ## 2. Streamed requests: a refused stream restores the pre-stream state

`Clean t` (no stream in progress ⇒ the monitors hold no per-block decode state) is an invariant of
every non-panicking operation; it holds for a new or restored tracker (`decode_state: None`,
monitors created with `decode_state: None`). -/

theorem C13_clean_chunk (t : Tracker) (d a : Nat) (_ : Clean t)
    (hr : (blockChunk t d a).2 = .ok) : Clean (blockChunk t d a).1 := by
  rw [(blockChunk_ok hr).2.2]
  intro hdec; simp at hdec

theorem C13_clean_add (t : Tracker) (h : Header) (p : Proof) (hc : Clean t)
    (hr : (addBlock t h p).2 ≠ .panic) : Clean (addBlock t h p).1 := by
  rcases addBlock_cases t h p with c | ⟨k, hk, _⟩ | ⟨ls, hk, hd, _⟩
  · exact absurd c hr
  · rw [hk]; intro _
    simp only [Tracker.aborted]
    cases hdec : t.decoding with
    | none => simpa using hc hdec
    | some _ => simp
  · rw [hk]; intro _
    simp only [Tracker.added]
    by_cases he : p.ptype = .external
    · simp [he]
    · have : (p.ptype == PType.external) = false := by simpa using he
      simp only [this]
      exact hc (hd he)

theorem C13_clean_remove (t : Tracker) (p : Proof) (v : Headers) (hc : Clean t)
    (hr : (removeBlock t p v).2 ≠ .panic) : Clean (removeBlock t p v).1 := by
  rcases removeBlock_cases t p v with c | ⟨k, hk⟩ | ⟨ls, hk, hd, _⟩
  · exact absurd c hr
  · rw [hk]; intro _
    simp only [Tracker.aborted]
    cases hdec : t.decoding with
    | none => simpa using hc hdec
    | some _ => simp
  · rw [hk]; intro _
    simp only [Tracker.removed]
    by_cases he : p.ptype = .external
    · simp [he]
    · have : (p.ptype == PType.external) = false := by simpa using he
      simp only [this]
      exact hc (hd he)

/-- **C13, streamed atomicity (full strength, fix b36e377).**  Block chunks followed by a refused
`add_block`: the tracker — tip, height, remembered headers, watches, monitors, the tracker's and the
monitors' decode states — is exactly the tracker before the first chunk, up to the monitors'
`saw_block` flag which the chunk (not the refused request) sets. -/
theorem C13_atomic_streamed (t0 : Tracker) (d a : Nat) (h : Header) (p : Proof) (k : ErrKind)
    (hc : Clean t0) (hch : (blockChunk t0 d a).2 = .ok)
    (hr : (addBlock (blockChunk t0 d a).1 h p).2 = .err k) :
    (addBlock (blockChunk t0 d a).1 h p).1 = { t0 with listeners := sawAll t0.listeners } := by
  rw [C13_reject_add _ h p k hr]
  obtain ⟨hnone, _, heq⟩ := blockChunk_ok hch
  have hl := hc hnone
  rw [heq]
  cases t0
  simp_all [Tracker.aborted]

/-- the same for a refused streamed `remove_block` -/
theorem C13_atomic_streamed_remove (t0 : Tracker) (d a : Nat) (p : Proof) (v : Headers) (k : ErrKind)
    (hc : Clean t0) (hch : (blockChunk t0 d a).2 = .ok)
    (hr : (removeBlock (blockChunk t0 d a).1 p v).2 = .err k) :
    (removeBlock (blockChunk t0 d a).1 p v).1 = { t0 with listeners := sawAll t0.listeners } := by
  rw [C13_reject_remove _ p v k hr]
  obtain ⟨hnone, _, heq⟩ := blockChunk_ok hch
  have hl := hc hnone
  rw [heq]
  cases t0
  simp_all [Tracker.aborted]

/-- … hence literally the pre-stream tracker once every monitor has seen a block (always the case
after the first connected block). -/
theorem C13_atomic_streamed_eq (t0 : Tracker) (d a : Nat) (h : Header) (p : Proof) (k : ErrKind)
    (hc : Clean t0) (hsaw : ∀ e ∈ t0.listeners, e.2.st.sawBlock = true)
    (hch : (blockChunk t0 d a).2 = .ok)
    (hr : (addBlock (blockChunk t0 d a).1 h p).2 = .err k) :
    (addBlock (blockChunk t0 d a).1 h p).1 = t0 := by
  rw [C13_atomic_streamed t0 d a h p k hc hch hr, sawAll_id _ hsaw]

/-- **The next streamed block is accepted** (F4b is gone): after a refused streamed request the
chunk of the next block does not panic — it behaves exactly as on the pre-stream tracker. -/
theorem C13_streamed_retry (t0 : Tracker) (d a d' a' : Nat) (h : Header) (p : Proof) (k : ErrKind)
    (hc : Clean t0) (hch : (blockChunk t0 d a).2 = .ok)
    (hr : (addBlock (blockChunk t0 d a).1 h p).2 = .err k) :
    blockChunk (addBlock (blockChunk t0 d a).1 h p).1 d' a'
      = blockChunk { t0 with listeners := sawAll t0.listeners } d' a' ∧
    (blockChunk (addBlock (blockChunk t0 d a).1 h p).1 d' d').2 = .ok := by
  rw [C13_atomic_streamed t0 d a h p k hc hch hr]
  refine ⟨rfl, ?_⟩
  obtain ⟨hnone, _, _⟩ := blockChunk_ok hch
  have hl := hc hnone
  unfold blockChunk
  simp [hnone, hl]

/-- the former F4b witness: one listener, a streamed orphan block -/
def f4bListener : Listener :=
  { st := State.init 5 77 0 [], slot := { txidWatches := [77], watches := [], seen := [] } }

def f4bTracker : Tracker :=
  { headers := [], tip := ⟨⟨10, 9, 1, 0, true⟩, 3⟩, height := 5, network := .regtest,
    listeners := [(1, f4bListener)], decoding := none, ldec := false, trusted := [1, 2, 3],
    allowDeep := false }

/-- a streamed block that does not link to the tip (`prev = 8 ≠ 10`) -/
def f4bHeader : Header := ⟨11, 8, 1, 0, true⟩
def f4bProof : Proof :=
  { ptype := .external, verifyOk := true, attested := [1, 2], fh := 4, fhConsistent := true, txs := [] }

/-- On the former counter-example the refused streamed block now leaves `ldec = false` and the next
streamed block starts normally. -/
example :
    let t1 := (blockChunk f4bTracker 11 11).1
    let t2 := (addBlock t1 f4bHeader f4bProof).1
    (addBlock t1 f4bHeader f4bProof).2 = .err .orphan ∧ t1.ldec = true ∧ t2.ldec = false ∧
    t2.decoding = none ∧ (blockChunk t2 12 12).2 = .ok := by decide

/-! ## 3. The tip moves only by validated blocks -/

/-- A successful `add_block`: the header links to the tip, meets its PoW target, passes the
bits/retarget rules, the proof is accepted unless the tip has a zero filter header, and the tip,
height and header window move by exactly this block. -/
theorem C13_advance_add (t : Tracker) (h : Header) (p : Proof) (hr : (addBlock t h p).2 = .ok) :
    h.prev = t.tip.hdr.hash ∧ h.powOk = true ∧
    headerCheck t.network t.height t.tip.hdr h = none ∧
    (t.tip.fh = 0 ∨ proofOk t.trusted p = true) ∧
    (addBlock t h p).1.tip = ⟨h, p.fh⟩ ∧
    (addBlock t h p).1.height = t.height + 1 ∧
    (addBlock t h p).1.headers = t.tip :: t.headers.take (maxReorgSize - 1) := by
  rcases addBlock_cases t h p with c | ⟨k', hk, _⟩ | ⟨ls, hk, _, _, hv⟩
  · rw [c] at hr; cases hr
  · rw [hk] at hr; cases hr
  · obtain ⟨hc, hpf⟩ := validateBlock_none hv
    obtain ⟨h1, h2⟩ := headerCheck_none hc
    rw [hk]
    exact ⟨h1, h2, hc, hpf, rfl, rfl, rfl⟩

/-- A successful `add_block` also ran every monitor over the block's transactions. -/
theorem C13_advance_add_listeners (t : Tracker) (h : Header) (p : Proof)
    (hr : (addBlock t h p).2 = .ok) :
    mapListeners (·.add p.txs) t.listeners = some (addBlock t h p).1.listeners := by
  rcases addBlock_cases t h p with c | ⟨k', hk, _⟩ | ⟨ls, hk, _, hl, _⟩
  · rw [c] at hr; cases hr
  · rw [hk] at hr; cases hr
  · rw [hk]; exact hl

/-- A successful `remove_block`: the tip links to the supplied previous header, which is the one
remembered in the window (or the window is empty and deep reorgs are allowed); the tip re-validates
on top of it; tip, height and window retreat by exactly one block. -/
theorem C13_advance_remove (t : Tracker) (p : Proof) (v : Headers)
    (hr : (removeBlock t p v).2 = .ok) :
    t.tip.hdr.prev = v.hdr.hash ∧ t.tip.hdr.powOk = true ∧
    headerCheck t.network (t.height - 1) v.hdr t.tip.hdr = none ∧
    (v.fh = 0 ∨ proofOk t.trusted p = true) ∧
    (∀ h0 rest, t.headers = h0 :: rest → v = h0) ∧
    (t.headers = [] → t.allowDeep = true) ∧
    t.height ≠ 0 ∧
    (removeBlock t p v).1.tip = v ∧
    (removeBlock t p v).1.height = t.height - 1 ∧
    (removeBlock t p v).1.headers = t.headers.drop 1 := by
  rcases removeBlock_cases t p v with c | ⟨k', hk⟩ | ⟨ls, hk, _, _, hne, hv, hw, hdp⟩
  · rw [c] at hr; cases hr
  · rw [hk] at hr; cases hr
  · obtain ⟨hc, hpf⟩ := validateBlock_none hv
    obtain ⟨h1, h2⟩ := headerCheck_none hc
    rw [hk]
    exact ⟨h1, h2, hc, hpf, hw, hdp, hne, rfl, rfl, rfl⟩

/-- Tip, height and the remembered headers change only on `.ok` (panics excluded: the signer is
gone). -/
theorem C13_tip_changes_only_on_ok (t : Tracker) (h : Header) (p : Proof) (v : Headers) :
    ((addBlock t h p).2 ≠ .ok → (addBlock t h p).2 ≠ .panic →
      (addBlock t h p).1.tip = t.tip ∧ (addBlock t h p).1.height = t.height ∧
      (addBlock t h p).1.headers = t.headers ∧ (addBlock t h p).1.listeners = t.listeners) ∧
    ((removeBlock t p v).2 ≠ .ok → (removeBlock t p v).2 ≠ .panic →
      (removeBlock t p v).1.tip = t.tip ∧ (removeBlock t p v).1.height = t.height ∧
      (removeBlock t p v).1.headers = t.headers ∧ (removeBlock t p v).1.listeners = t.listeners) := by
  constructor
  · intro h1 h2
    cases hr : (addBlock t h p).2 with
    | ok => exact absurd hr h1
    | panic => exact absurd hr h2
    | err k =>
      have hv := C13_atomic_add_view t h p k hr
      simp only [Tracker.view, View.mk.injEq] at hv
      exact ⟨hv.2.1, hv.2.2.1, hv.1, hv.2.2.2⟩
  · intro h1 h2
    cases hr : (removeBlock t p v).2 with
    | ok => exact absurd hr h1
    | panic => exact absurd hr h2
    | err k =>
      have hv := C13_atomic_remove_view t p v k hr
      simp only [Tracker.view, View.mk.injEq] at hv
      exact ⟨hv.2.1, hv.2.2.1, hv.1, hv.2.2.2⟩

/-! ## 4. Oracle majority -/

/-- never more matches than trusted oracles -/
theorem C13_keyMatches_le (trusted attested : List Nat) :
    keyMatches trusted attested ≤ trusted.length := keyMatches_le trusted attested

/-- On top of a tip with a filter header, an accepted block's proof verified and at least half of
the trusted oracles attested it. -/
theorem C13_majority (t : Tracker) (h : Header) (p : Proof) (hr : (addBlock t h p).2 = .ok)
    (hfh : t.tip.fh ≠ 0) :
    p.verifyOk = true ∧ t.trusted.length ≤ 2 * keyMatches t.trusted p.attested := by
  rcases (C13_advance_add t h p hr).2.2.2.1 with h0 | hp
  · exact absurd h0 hfh
  · exact proofOk_true hp

theorem C13_majority_remove (t : Tracker) (p : Proof) (v : Headers)
    (hr : (removeBlock t p v).2 = .ok) (hfh : v.fh ≠ 0) :
    p.verifyOk = true ∧ t.trusted.length ≤ 2 * keyMatches t.trusted p.attested := by
  rcases (C13_advance_remove t p v hr).2.2.2.1 with h0 | hp
  · exact absurd h0 hfh
  · exact proofOk_true hp

/-- Documented behaviour: with no trusted oracle configured the majority condition is vacuous
(only `TxoProof::verify` counts). -/
theorem C13_majority_vacuous (p : Proof) : proofOk [] p = p.verifyOk := by
  simp [proofOk, requiredMajority, keyMatches]

/-- Conversely, the model's acceptance test is exactly "verified and at least half". -/
theorem C13_proofOk_iff (trusted : List Nat) (p : Proof) :
    proofOk trusted p = true ↔
      (p.verifyOk = true ∧ trusted.length ≤ 2 * keyMatches trusted p.attested) := by
  unfold proofOk requiredMajority
  simp only [Bool.and_eq_true, decide_eq_true_eq]
  constructor
  · intro ⟨a, b⟩; exact ⟨a, by omega⟩
  · intro ⟨a, b⟩; exact ⟨a, by omega⟩

/-! ## 5. A later request behaves as if the rejected one had never been made -/

theorem C13_retry_add_add (t : Tracker) (h h' : Header) (p p' : Proof) (k : ErrKind)
    (hr : (addBlock t h p).2 = .err k) (hp : p.ptype ≠ .external) :
    addBlock (addBlock t h p).1 h' p' = addBlock t h' p' := by
  rw [C13_atomic_add t h p k hr hp]

theorem C13_retry_add_remove (t : Tracker) (h : Header) (p p' : Proof) (v' : Headers) (k : ErrKind)
    (hr : (addBlock t h p).2 = .err k) (hp : p.ptype ≠ .external) :
    removeBlock (addBlock t h p).1 p' v' = removeBlock t p' v' := by
  rw [C13_atomic_add t h p k hr hp]

theorem C13_retry_remove_add (t : Tracker) (h' : Header) (p p' : Proof) (v : Headers) (k : ErrKind)
    (hr : (removeBlock t p v).2 = .err k) (hd : t.decoding = none) :
    addBlock (removeBlock t p v).1 h' p' = addBlock t h' p' := by
  rw [C13_atomic_remove t p v k hr hd]

theorem C13_retry_remove_remove (t : Tracker) (p p' : Proof) (v v' : Headers) (k : ErrKind)
    (hr : (removeBlock t p v).2 = .err k) (hd : t.decoding = none) :
    removeBlock (removeBlock t p v).1 p' v' = removeBlock t p' v' := by
  rw [C13_atomic_remove t p v k hr hd]

/-- General form: any observation `f` of the tracker (in particular the result of any later
sequence of requests) is the same after a rejected request as before it, when no stream is in
progress (for a refused stream see `C13_atomic_streamed`, `C13_streamed_retry`). -/
theorem C13_retry {α : Type} (f : Tracker → α) (t : Tracker) (h : Header) (p : Proof) (v : Headers)
    (k : ErrKind) (hd : t.decoding = none) :
    ((addBlock t h p).2 = .err k → f (addBlock t h p).1 = f t) ∧
    ((removeBlock t p v).2 = .err k → f (removeBlock t p v).1 = f t) :=
  ⟨fun hr => by rw [C13_reject_add t h p k hr, aborted_of_none hd],
   fun hr => by rw [C13_atomic_remove t p v k hr hd]⟩

/-- Positive instance: a correct request that would have succeeded before the rejection still
succeeds after it, with the same resulting tracker. -/
theorem C13_retry_succeeds (t : Tracker) (h h' : Header) (p p' : Proof) (k : ErrKind)
    (hr : (addBlock t h p).2 = .err k) (hp : p.ptype ≠ .external)
    (hok : (addBlock t h' p').2 = .ok) :
    (addBlock (addBlock t h p).1 h' p').2 = .ok ∧
    (addBlock (addBlock t h p).1 h' p').1 = (addBlock t h' p').1 := by
  rw [C13_retry_add_add t h h' p p' k hr hp]; exact ⟨hok, rfl⟩

theorem C13_retry_succeeds_remove (t : Tracker) (p p' : Proof) (v v' : Headers) (k : ErrKind)
    (hr : (removeBlock t p v).2 = .err k) (hp : t.decoding = none)
    (hok : (removeBlock t p' v').2 = .ok) :
    (removeBlock (removeBlock t p v).1 p' v').2 = .ok ∧
    (removeBlock (removeBlock t p v).1 p' v').1 = (removeBlock t p' v').1 := by
  rw [C13_retry_remove_remove t p p' v v' k hr hp]; exact ⟨hok, rfl⟩

/-- After a refused streamed block, any later request sequence behaves as on the pre-stream tracker
(with the monitors' `saw_block` set). -/
theorem C13_retry_streamed {α : Type} (f : Tracker → α) (t0 : Tracker) (d a : Nat) (h : Header)
    (p : Proof) (k : ErrKind) (hc : Clean t0) (hch : (blockChunk t0 d a).2 = .ok)
    (hr : (addBlock (blockChunk t0 d a).1 h p).2 = .err k) :
    f (addBlock (blockChunk t0 d a).1 h p).1 = f { t0 with listeners := sawAll t0.listeners } := by
  rw [C13_atomic_streamed t0 d a h p k hc hch hr]

/-! ## 5b. Restart

Under an unchanged configuration a restart keeps the trusted oracle set (and the whole view), so the
majority rule after a restart is the rule before it.  (Tied to the code by the node-level harness
group: real `Node`, persister, `restore_node`, configured oracle keys.) -/

theorem C13_restart_trusted (t : Tracker) :
    (restart t).trusted = t.trusted ∧ (restart t).view = t.view ∧ Clean (restart t) :=
  ⟨rfl, rfl, fun _ => rfl⟩

/-- an accepted block after a restart satisfies the same majority over the same trusted set -/
theorem C13_majority_after_restart (t : Tracker) (h : Header) (p : Proof)
    (hr : (addBlock (restart t) h p).2 = .ok) (hfh : t.tip.fh ≠ 0) :
    p.verifyOk = true ∧ t.trusted.length ≤ 2 * keyMatches t.trusted p.attested :=
  C13_majority (restart t) h p hr hfh

/-! ## 6. Generated constants and the header window -/

theorem C13_gen_ok : 1 ≤ maxReorgSize ∧ 0 < diffchangeInterval := by
  unfold maxReorgSize diffchangeInterval; decide

/-- After a successful `add_block` the window of remembered headers holds at most
`MAX_REORG_SIZE` entries (uses only `1 ≤ maxReorgSize`). -/
theorem C13_window_bounded (t : Tracker) (h : Header) (p : Proof) (hr : (addBlock t h p).2 = .ok) :
    (addBlock t h p).1.headers.length ≤ maxReorgSize := by
  rw [(C13_advance_add t h p hr).2.2.2.2.2.2]
  have := C13_gen_ok.1
  simp only [List.length_cons, List.length_take]
  omega

/-- and a successful `remove_block` never grows it -/
theorem C13_window_bounded_remove (t : Tracker) (p : Proof) (v : Headers)
    (hr : (removeBlock t p v).2 = .ok) :
    (removeBlock t p v).1.headers.length ≤ t.headers.length := by
  rw [(C13_advance_remove t p v hr).2.2.2.2.2.2.2.2.2]
  simp only [List.length_drop]
  omega

/-! ## 7. Non-vacuity -/

def exListener : Listener :=
  { st := State.init 5 77 0 [], slot := { txidWatches := [77], watches := [], seen := [] } }

/-- height 5, tip hash 10 with filter header 3 (non-zero), one remembered header, 3 trusted oracles -/
def exTracker : Tracker :=
  { headers := [⟨⟨9, 8, 1, 0, true⟩, 2⟩], tip := ⟨⟨10, 9, 1, 0, true⟩, 3⟩, height := 5,
    network := .regtest, listeners := [(1, exListener)], decoding := none, ldec := false,
    trusted := [1, 2, 3], allowDeep := false }

def exHeader : Header := ⟨11, 10, 1, 0, true⟩
def exProof (attested : List Nat) : Proof :=
  { ptype := .filter, verifyOk := true, attested, fh := 4, fhConsistent := true, txs := [] }

/-- accepted: links, PoW ok, same bits, 2 of 3 trusted oracles attested -/
example : (addBlock exTracker exHeader (exProof [1, 2])).2 = .ok ∧
    (addBlock exTracker exHeader (exProof [1, 2])).1.height = 6 ∧
    (addBlock exTracker exHeader (exProof [1, 2])).1.tip = ⟨exHeader, 4⟩ := by decide

/-- rejected: only 1 of 3 trusted oracles attested (the foreign key 9 does not count) -/
example : (addBlock exTracker exHeader (exProof [1, 9])).2 = .err .invalidProof := by decide

/-- rejected: the proof did not verify -/
example : (addBlock exTracker exHeader { exProof [1, 2, 3] with verifyOk := false }).2
    = .err .invalidProof := by decide

/-- rejected: does not link to the tip -/
example : (addBlock exTracker ⟨11, 7, 1, 0, true⟩ (exProof [1, 2])).2 = .err .orphan := by decide

/-- rejected: PoW target not met / bits changed off the retarget boundary -/
example : (addBlock exTracker ⟨11, 10, 1, 0, false⟩ (exProof [1, 2])).2 = .err .invalidBlock ∧
    (addBlock exTracker ⟨11, 10, 2, 0, true⟩ (exProof [1, 2])).2 = .err .invalidChain := by decide

/-- accepted removal back to the remembered header -/
example : (removeBlock exTracker (exProof [2, 3]) ⟨⟨9, 8, 1, 0, true⟩, 2⟩).2 = .ok ∧
    (removeBlock exTracker (exProof [2, 3]) ⟨⟨9, 8, 1, 0, true⟩, 2⟩).1.height = 4 ∧
    (removeBlock exTracker (exProof [2, 3]) ⟨⟨9, 8, 1, 0, true⟩, 2⟩).1.headers = [] := by decide

/-- rejected removal: the supplied previous header is not the remembered one -/
example : (removeBlock exTracker (exProof [2, 3]) ⟨⟨9, 8, 1, 0, true⟩, 7⟩).2 = .err .invalidChain := by
  decide

/-- rejected removal past the window -/
example : (removeBlock { exTracker with headers := [] } (exProof [2, 3]) ⟨⟨9, 8, 1, 0, true⟩, 2⟩).2
    = .err .reorgTooDeep := by decide

/-- the retry theorem is not vacuous: rejected (1 of 3), then the correct request succeeds -/
example :
    (addBlock (addBlock exTracker exHeader (exProof [1])).1 exHeader (exProof [1, 2])).2 = .ok := by
  decide

/-- zero filter header on the tip: the proof is not looked at (documented bypass) -/
example : (addBlock { exTracker with tip := ⟨⟨10, 9, 1, 0, true⟩, 0⟩ } exHeader
    { exProof [9] with verifyOk := false }).2 = .ok := by decide

/-! ## 8. Histories: the remembered window is a linked chain, its length and the height are exact

`add_block` does `headers.truncate(MAX_REORG_SIZE - 1); headers.push_front(tip)`, `remove_block` does
`headers.pop_front()`.  Sections 1–6 speak about one request; here the bookkeeping is followed through arbitrary
histories of add / remove / block-chunk requests (accepted and refused, compact and streamed), "at all heights
relative to the retarget interval and reorg depth limit".  A history ends at the first `.panic` (the signer is gone). -/

inductive TOp where
  | add (h : Header) (p : Proof)
  | remove (p : Proof) (v : Headers)
  | chunk (d a : Nat)

def tstep (t : Tracker) : TOp → Tracker × Out
  | .add h p => addBlock t h p
  | .remove p v => removeBlock t p v
  | .chunk d a => blockChunk t d a

/-- run a history; `none` = a request aborted the signer -/
def trun : Tracker → List TOp → Option Tracker
  | t, [] => some t
  | t, op :: ops => match (tstep t op).2 with
    | .panic => none
    | _ => trun (tstep t op).1 ops

/-- every entry's header names the next entry's header as its predecessor -/
def LinkedList : List Headers → Prop
  | a :: b :: rest => a.hdr.prev = b.hdr.hash ∧ LinkedList (b :: rest)
  | _ => True

/-- the tip followed by the remembered headers is a linked chain -/
def Linked (t : Tracker) : Prop := LinkedList (t.tip :: t.headers)

theorem LinkedList.tail {a : Headers} {l : List Headers} (h : LinkedList (a :: l)) : LinkedList l := by
  cases l with
  | nil => trivial
  | cons b rest => exact h.2

theorem LinkedList.take {a : Headers} {l : List Headers} (h : LinkedList (a :: l)) (k : Nat) :
    LinkedList (a :: l.take k) := by
  induction l generalizing a k with
  | nil => simpa using h
  | cons b rest ih =>
    cases k with
    | zero => trivial
    | succ k => exact ⟨h.1, ih h.2 k⟩

/-- an accepted `add_block` keeps the window a linked chain: the new tip links to the old one (checked), the old
    tip is pushed in front of the truncated window -/
theorem C13_linked_add (t : Tracker) (h : Header) (p : Proof) (hl : Linked t)
    (hr : (addBlock t h p).2 = .ok) : Linked (addBlock t h p).1 := by
  obtain ⟨h1, _, _, _, ht, _, hh⟩ := C13_advance_add t h p hr
  unfold Linked
  rw [ht, hh]
  exact ⟨h1, hl.take _⟩

/-- an accepted `remove_block` keeps it one: the supplied previous header is the remembered one (checked), or the
    window is empty (deep reorg allowed) and the supplied header becomes a one-element chain -/
theorem C13_linked_remove (t : Tracker) (p : Proof) (v : Headers) (hl : Linked t)
    (hr : (removeBlock t p v).2 = .ok) : Linked (removeBlock t p v).1 := by
  obtain ⟨_, _, _, _, hw, _, _, ht, _, hh⟩ := C13_advance_remove t p v hr
  unfold Linked at hl ⊢
  rw [ht, hh]
  cases hs : t.headers with
  | nil => trivial
  | cons h0 rest =>
    rw [hs] at hl
    rw [hw h0 rest hs]
    exact hl.tail

/-- a block chunk touches neither tip nor window nor height -/
theorem chunk_view (t : Tracker) (d a : Nat) :
    (blockChunk t d a).1.tip = t.tip ∧ (blockChunk t d a).1.headers = t.headers ∧
    (blockChunk t d a).1.height = t.height := by
  unfold blockChunk
  split
  · exact ⟨rfl, rfl, rfl⟩
  · split
    · exact ⟨rfl, rfl, rfl⟩
    · split <;> exact ⟨rfl, rfl, rfl⟩

/-- every request that does not abort the signer preserves `Linked` -/
theorem C13_linked_step (t : Tracker) (op : TOp) (hl : Linked t) (hp : (tstep t op).2 ≠ .panic) :
    Linked (tstep t op).1 := by
  cases op with
  | add h p =>
    cases hr : (addBlock t h p).2 with
    | ok => exact C13_linked_add t h p hl hr
    | panic => exact absurd hr hp
    | err k =>
      have hv := C13_atomic_add_view t h p k hr
      simp only [Tracker.view, View.mk.injEq] at hv
      unfold Linked; simp only [tstep]; rw [hv.1, hv.2.1]; exact hl
  | remove p v =>
    cases hr : (removeBlock t p v).2 with
    | ok => exact C13_linked_remove t p v hl hr
    | panic => exact absurd hr hp
    | err k =>
      have hv := C13_atomic_remove_view t p v k hr
      simp only [Tracker.view, View.mk.injEq] at hv
      unfold Linked; simp only [tstep]; rw [hv.1, hv.2.1]; exact hl
  | chunk d a =>
    obtain ⟨h1, h2, _⟩ := chunk_view t d a
    unfold Linked; simp only [tstep]; rw [h1, h2]; exact hl

/-- **C13, histories.** Along any history that does not abort the signer the tip and the remembered headers form a
    linked chain (each header was accepted on top of the next one). -/
theorem C13_linked_run (t t' : Tracker) (ops : List TOp) (hl : Linked t) (hr : trun t ops = some t') :
    Linked t' := by
  induction ops generalizing t with
  | nil => simp only [trun, Option.some.injEq] at hr; subst hr; exact hl
  | cons op ops ih =>
    simp only [trun] at hr
    cases ho : (tstep t op).2 with
    | panic => rw [ho] at hr; cases hr
    | ok => rw [ho] at hr; exact ih _ (C13_linked_step t op hl (by rw [ho]; simp)) hr
    | err k => rw [ho] at hr; exact ih _ (C13_linked_step t op hl (by rw [ho]; simp)) hr

/-- exact window length after an accepted `add_block`: one more, capped at `MAX_REORG_SIZE` -/
theorem C13_window_add_exact (t : Tracker) (h : Header) (p : Proof) (hr : (addBlock t h p).2 = .ok) :
    (addBlock t h p).1.headers.length = min (t.headers.length + 1) maxReorgSize ∧
    (addBlock t h p).1.headers.head? = some t.tip := by
  rw [(C13_advance_add t h p hr).2.2.2.2.2.2]
  have := C13_gen_ok.1
  refine ⟨?_, rfl⟩
  simp only [List.length_cons, List.length_take, Nat.min_def]
  split <;> split <;> omega

/-- the window never exceeds `MAX_REORG_SIZE`, along any history -/
theorem C13_window_step (t : Tracker) (op : TOp) (hw : t.headers.length ≤ maxReorgSize)
    (hp : (tstep t op).2 ≠ .panic) : (tstep t op).1.headers.length ≤ maxReorgSize := by
  cases op with
  | add h p =>
    cases hr : (addBlock t h p).2 with
    | ok => exact C13_window_bounded t h p hr
    | panic => exact absurd hr hp
    | err k =>
      have hv := C13_atomic_add_view t h p k hr
      simp only [Tracker.view, View.mk.injEq] at hv
      simp only [tstep]; rw [hv.1]; exact hw
  | remove p v =>
    cases hr : (removeBlock t p v).2 with
    | ok => exact Nat.le_trans (C13_window_bounded_remove t p v hr) hw
    | panic => exact absurd hr hp
    | err k =>
      have hv := C13_atomic_remove_view t p v k hr
      simp only [Tracker.view, View.mk.injEq] at hv
      simp only [tstep]; rw [hv.1]; exact hw
  | chunk d a => simp only [tstep]; rw [(chunk_view t d a).2.1]; exact hw

theorem C13_window_run (t t' : Tracker) (ops : List TOp) (hw : t.headers.length ≤ maxReorgSize)
    (hr : trun t ops = some t') : t'.headers.length ≤ maxReorgSize := by
  induction ops generalizing t with
  | nil => simp only [trun, Option.some.injEq] at hr; subst hr; exact hw
  | cons op ops ih =>
    simp only [trun] at hr
    cases ho : (tstep t op).2 with
    | panic => rw [ho] at hr; cases hr
    | ok => rw [ho] at hr; exact ih _ (C13_window_step t op hw (by rw [ho]; simp)) hr
    | err k => rw [ho] at hr; exact ih _ (C13_window_step t op hw (by rw [ho]; simp)) hr

/-- **Reorg depth limit.** With deep reorgs not allowed, a removal is answered `ReorgTooDeep` exactly when the
    window is empty — whatever proof and previous header are supplied — and then nothing changes. -/
theorem C13_reorg_too_deep (t : Tracker) (p : Proof) (v : Headers) (hd : t.allowDeep = false)
    (hs : t.decoding = none) (he : t.headers = []) :
    removeBlock t p v = (t, .err .reorgTooDeep) := by
  unfold Tracker.removeBlock doRemoveBlock
  simp only [he, hd, List.isEmpty_nil, Bool.not_false, Bool.and_self, if_true]
  unfold abortIfStreamed
  simp [hs]

theorem abortIfStreamed_snd (t : Tracker) (r : Tracker × Out) : (abortIfStreamed t r).2 = r.2 := by
  unfold abortIfStreamed
  split
  · split <;> rfl
  · rfl

theorem maybeFinish_err_kind {t t1 : Tracker} {p : Proof} {e : Nat} {k : ErrKind}
    (hm : maybeFinish t p e = some (t1, some k)) : k = .decodeError := by
  unfold maybeFinish at hm
  split at hm
  · cases hm
  · cases hd : t.decoding with
    | none => simp [hd] at hm
    | some x =>
      simp only [hd, Option.some.injEq, Prod.mk.injEq] at hm
      obtain ⟨_, he⟩ := hm
      by_cases hx : x ≠ e
      · simp [hx] at he; exact he.symm
      · simp [hx] at he

/-- the checks after the window test answer with a decode, link, PoW, retarget or proof error, never `ReorgTooDeep` -/
theorem removeCore_not_tooDeep (t : Tracker) (p : Proof) (v : Headers) :
    (doRemoveBlock.removeCore t p v).2 ≠ .err .reorgTooDeep := by
  intro h
  unfold doRemoveBlock.removeCore at h
  split at h
  · cases h
  · rename_i t1 e hm
    rw [maybeFinish_err_kind hm] at h; cases h
  · split at h
    · cases h
    · split at h
      · rename_i e hv
        unfold validateBlock at hv
        split at hv
        · rename_i e' hc
          simp only [Option.some.injEq] at hv; subst hv
          unfold headerCheck at hc
          split at hc
          · cases hc; cases h
          · split at hc
            · cases hc; cases h
            · split at hc
              · cases hc
              · split at hc
                · unfold validateRetarget at hc
                  simp only at hc
                  split at hc
                  · cases hc; cases h
                  · split at hc
                    · cases hc; cases h
                    · split at hc
                      · cases hc; cases h
                      · cases hc
                · split at hc
                  · cases hc; cases h
                  · cases hc
        · split at hv
          · cases hv
          · split at hv
            · cases hv
            · cases hv; cases h
      · split at h
        · cases h
        · split at h <;> cases h

/-- conversely a removal is never refused as too deep while a header is remembered -/
theorem C13_not_too_deep (t : Tracker) (p : Proof) (v : Headers) (h0 : Headers) (rest : List Headers)
    (he : t.headers = h0 :: rest) : (removeBlock t p v).2 ≠ .err .reorgTooDeep := by
  unfold Tracker.removeBlock
  rw [abortIfStreamed_snd]
  unfold doRemoveBlock
  simp only [he, List.isEmpty_cons, Bool.false_and, Bool.false_eq_true, if_false]
  split
  · simp
  · split
    · simp
    · exact removeCore_not_tooDeep t p v

/-- add then remove: the tip and the height are restored; the window is the old one less (at most) its oldest
    entry, which `truncate(MAX_REORG_SIZE - 1)` dropped — the only trace of the excursion -/
theorem C13_add_remove_roundtrip (t : Tracker) (h : Header) (p p' : Proof) (v : Headers)
    (ha : (addBlock t h p).2 = .ok) (hr : (removeBlock (addBlock t h p).1 p' v).2 = .ok) :
    (removeBlock (addBlock t h p).1 p' v).1.tip = t.tip ∧
    (removeBlock (addBlock t h p).1 p' v).1.height = t.height ∧
    (removeBlock (addBlock t h p).1 p' v).1.headers = t.headers.take (maxReorgSize - 1) := by
  obtain ⟨_, _, _, _, _, hh, hw⟩ := C13_advance_add t h p ha
  obtain ⟨_, _, _, _, hv, _, _, ht', hh', hw'⟩ := C13_advance_remove _ p' v hr
  have hvt : v = t.tip := hv _ _ hw
  refine ⟨by rw [ht', hvt], by rw [hh', hh]; omega, by rw [hw', hw]; rfl⟩

/-- below the limit the window is restored exactly -/
theorem C13_add_remove_roundtrip_exact (t : Tracker) (h : Header) (p p' : Proof) (v : Headers)
    (hlen : t.headers.length < maxReorgSize)
    (ha : (addBlock t h p).2 = .ok) (hr : (removeBlock (addBlock t h p).1 p' v).2 = .ok) :
    (removeBlock (addBlock t h p).1 p' v).1.headers = t.headers := by
  rw [(C13_add_remove_roundtrip t h p p' v ha hr).2.2]
  exact List.take_of_length_le (by omega)

/-- the history theorems are not vacuous: add, refused add (1 of 3 oracles), remove, on the example tracker -/
example : Linked exTracker ∧
    (trun exTracker [.add exHeader (exProof [1, 2]), .add ⟨12, 11, 1, 0, true⟩ (exProof [1]),
                     .remove (exProof [2, 3]) exTracker.tip]).map (fun t => (t.tip, t.height, t.headers.length))
      = some (exTracker.tip, 5, 1) := by
  constructor
  · exact ⟨by decide, trivial⟩
  · decide

/-! ## 9. Handler level: replies, process aborts, persistence (`handler.rs`, arms AddBlock / RemoveBlock / BlockChunk)

At handler level only an orphan block and a missing proof are *refused by reply*; every other tracker error aborts the
process (`panic!("add_block")`, `.expect("remove_block")`).  "A rejected request leaves everything as before, so a
later correct request still succeeds" therefore reads: a reply-refusal leaves memory and the persisted entry untouched,
and after an abort the restarted process is the node before the request — because the tracker entry is persisted only
after an accepted request (`update_tracker` follows `Ok`).  Model: `Model/TrackerHandler.lean`. -/

/-- general facts, streamed requests included: the persisted entry changes only with an `ok` reply … -/
theorem C13_handler_store_only_on_ok (n : HNode) (op : HOp) (h : (hstep n op).2 ≠ .ok) :
    (hstep n op).1.store = n.store := by
  cases op with
  | add hdr proof =>
    cases proof with
    | none => rfl
    | some p =>
      simp only [hstep, hAddBlock] at h ⊢
      cases hres : Tracker.addBlock n.mem hdr p with
      | mk t o =>
        rw [hres] at h
        cases o with
        | ok => exact absurd rfl h
        | panic => rfl
        | err k => cases k <;> rfl
  | remove proof prev =>
    cases proof with
    | none => rfl
    | some p =>
      simp only [hstep, hRemoveBlock] at h ⊢
      cases hres : Tracker.removeBlock n.mem p prev with
      | mk t o =>
        rw [hres] at h
        cases o with
        | ok => exact absurd rfl h
        | panic => rfl
        | err k => rfl
  | chunk d a =>
    simp only [hstep, hBlockChunk]
    cases hres : blockChunk n.mem d a with
    | mk t o => cases o <;> rfl
  | restart => exact absurd rfl h

/-- … an `ok` reply to AddBlock / RemoveBlock means the new tip is in the persister … -/
theorem C13_handler_ok_persisted (n : HNode) (op : HOp) (hop : ∀ d a, op ≠ .chunk d a) (hr : op ≠ .restart)
    (h : (hstep n op).2 = .ok) : (hstep n op).1.store = (hstep n op).1.mem.view := by
  cases op with
  | add hdr proof =>
    cases proof with
    | none => cases h
    | some p =>
      simp only [hstep, hAddBlock] at h ⊢
      cases hres : Tracker.addBlock n.mem hdr p with
      | mk t o =>
        rw [hres] at h
        cases o with
        | ok => rfl
        | panic => cases h
        | err k => cases k <;> cases h
  | remove proof prev =>
    cases proof with
    | none => cases h
    | some p =>
      simp only [hstep, hRemoveBlock] at h ⊢
      cases hres : Tracker.removeBlock n.mem p prev with
      | mk t o =>
        rw [hres] at h
        cases o with
        | ok => rfl
        | panic => cases h
        | err k => cases h
  | chunk d a => exact absurd rfl (hop d a)
  | restart => exact absurd rfl hr

/-- … and a restart puts exactly the persisted entry (and the configured network / oracle set / deep-reorg flag) back
    into memory, with no stream in progress -/
theorem C13_handler_restart_view (n : HNode) :
    (hRestart n).mem.view = n.store ∧ (hRestart n).mem.decoding = none ∧ (hRestart n).mem.ldec = false ∧
    (hRestart n).mem.trusted = n.cfg.trusted ∧ (hRestart n).store = n.store := by
  refine ⟨?_, rfl, rfl, rfl, rfl⟩
  cases hs : n.store
  simp [hRestart, Tracker.ofStore, Tracker.view, hs]

/-- invariant between requests when no stream is in progress: the persisted entry is the tracker's view, memory
    carries the node's configuration, no decode state is held anywhere -/
structure HInv (n : HNode) : Prop where
  synced : n.store = n.mem.view
  net : n.mem.network = n.cfg.network
  trusted : n.mem.trusted = n.cfg.trusted
  deep : n.mem.allowDeep = n.cfg.allowDeep
  nodec : n.mem.decoding = none
  noldec : n.mem.ldec = false

theorem HInv.ofStore_eq {n : HNode} (i : HInv n) : Tracker.ofStore n.cfg n.store = n.mem := by
  obtain ⟨h1, h2, h3, h4, h5, h6⟩ := i
  cases hm : n.mem with
  | mk headers tip height network listeners decoding ldec trusted allowDeep =>
    rw [hm] at h1 h2 h3 h4 h5 h6
    simp only [Tracker.view] at h1
    simp only at h2 h3 h4 h5 h6
    simp [Tracker.ofStore, h1, ← h2, ← h3, ← h4, h5, h6]

theorem HInv.restart_eq {n : HNode} (i : HInv n) : hRestart n = n := by
  cases n with
  | mk mem store cfg =>
    simp only [hRestart]
    rw [i.ofStore_eq]

theorem HInv.abortStream_eq {n : HNode} (i : HInv n) : n.mem.abortStream = n.mem := by
  obtain ⟨_, _, _, _, h5, h6⟩ := i
  cases hm : n.mem
  rw [hm] at h5 h6
  simp only at h5 h6
  simp [Tracker.abortStream, h5, h6]

/-- **C13 at handler level, compact requests.**  For AddBlock / RemoveBlock without a stream in progress:
    a reply-refusal returns the identical node; an accepted request re-establishes the invariant with the new tip
    persisted; and if the handler aborts, the restarted process *is* the node before the request. -/
theorem C13_handler_request (n : HNode) (op : HOp) (i : HInv n) (hop : ∀ d a, op ≠ .chunk d a) :
    ((hstep n op).2 = .ok → HInv (hstep n op).1) ∧
    (((hstep n op).2 = .signerError ∨ (hstep n op).2 = .invalidArgument) → (hstep n op).1 = n) ∧
    ((hstep n op).2 = .abort → hRestart (hstep n op).1 = n) := by
  have hn : (⟨n.mem, n.store, n.cfg⟩ : HNode) = n := by cases n; rfl
  have hre : hRestart n = n := i.restart_eq
  -- the three shapes a request can take
  have refused : ∀ (r : HReply), r ≠ .ok → r ≠ .abort →
      (((⟨n.mem, n.store, n.cfg⟩ : HNode), r).2 = .ok → HInv ((⟨n.mem, n.store, n.cfg⟩ : HNode), r).1) ∧
      (((((⟨n.mem, n.store, n.cfg⟩ : HNode), r).2 = .signerError ∨ ((⟨n.mem, n.store, n.cfg⟩ : HNode), r).2 = .invalidArgument)) →
          ((⟨n.mem, n.store, n.cfg⟩ : HNode), r).1 = n) ∧
      (((⟨n.mem, n.store, n.cfg⟩ : HNode), r).2 = .abort → hRestart ((⟨n.mem, n.store, n.cfg⟩ : HNode), r).1 = n) := by
    intro r h1 h2
    refine ⟨?_, ?_, ?_⟩
    · intro h; exact absurd h h1
    · intro _; exact hn
    · intro h; exact absurd h h2
  have aborted : ∀ (t : Tracker),
      (((⟨t, n.store, n.cfg⟩ : HNode), HReply.abort).2 = .ok → HInv ((⟨t, n.store, n.cfg⟩ : HNode), HReply.abort).1) ∧
      (((((⟨t, n.store, n.cfg⟩ : HNode), HReply.abort).2 = .signerError ∨ ((⟨t, n.store, n.cfg⟩ : HNode), HReply.abort).2 = .invalidArgument)) →
          ((⟨t, n.store, n.cfg⟩ : HNode), HReply.abort).1 = n) ∧
      (((⟨t, n.store, n.cfg⟩ : HNode), HReply.abort).2 = .abort → hRestart ((⟨t, n.store, n.cfg⟩ : HNode), HReply.abort).1 = n) := by
    intro t
    refine ⟨?_, ?_, ?_⟩
    · intro h; cases h
    · intro h; rcases h with h | h <;> cases h
    · intro _
      show (⟨Tracker.ofStore n.cfg n.store, n.store, n.cfg⟩ : HNode) = n
      rw [i.ofStore_eq]
  cases op with
  | chunk d a => exact absurd rfl (hop d a)
  | restart =>
    simp only [hstep]
    rw [hre]
    exact ⟨fun _ => i, fun _ => rfl, fun h => nomatch h⟩
  | add hdr proof =>
    simp only [hstep, hAddBlock]
    cases proof with
    | none =>
      rw [i.abortStream_eq]
      exact refused .invalidArgument (by decide) (by decide)
    | some p =>
      simp only
      rcases addBlock_cases n.mem hdr p with c | ⟨k, hk, _⟩ | ⟨ls, hk, _, _, _⟩
      · have e : addBlock n.mem hdr p = ((addBlock n.mem hdr p).1, .panic) := by rw [← c]
        rw [e]
        exact aborted _
      · rw [hk, aborted_of_none i.nodec]
        cases k
        case orphan => exact refused .signerError (by decide) (by decide)
        all_goals exact aborted _
      · rw [hk]
        refine ⟨fun _ => ?_, ?_, ?_⟩
        · refine ⟨rfl, ?_, ?_, ?_, rfl, ?_⟩
          · simpa [Tracker.added, Tracker.undecode] using i.net
          · simpa [Tracker.added, Tracker.undecode] using i.trusted
          · simpa [Tracker.added, Tracker.undecode] using i.deep
          · simp [Tracker.added, Tracker.undecode, i.noldec]
        · intro h; rcases h with h | h <;> cases h
        · intro h; cases h
  | remove proof prev =>
    simp only [hstep, hRemoveBlock]
    cases proof with
    | none =>
      rw [i.abortStream_eq]
      exact refused .invalidArgument (by decide) (by decide)
    | some p =>
      simp only
      rcases removeBlock_cases n.mem p prev with c | ⟨k, hk⟩ | ⟨ls, hk, _⟩
      · have e : removeBlock n.mem p prev = ((removeBlock n.mem p prev).1, .panic) := by rw [← c]
        rw [e]
        exact aborted _
      · rw [hk, aborted_of_none i.nodec]
        exact aborted _
      · rw [hk]
        refine ⟨fun _ => ?_, ?_, ?_⟩
        · refine ⟨rfl, ?_, ?_, ?_, rfl, ?_⟩
          · simpa [Tracker.removed, Tracker.undecode] using i.net
          · simpa [Tracker.removed, Tracker.undecode] using i.trusted
          · simpa [Tracker.removed, Tracker.undecode] using i.deep
          · simp [Tracker.removed, Tracker.undecode, i.noldec]
        · intro h; rcases h with h | h <;> cases h
        · intro h; cases h

/-- histories of compact requests and restarts: the invariant holds throughout, and a request that is refused or
    aborts (followed by the restart) can be deleted from the history without changing anything that follows:
    **the later correct request still succeeds** -/
theorem hrun_cons (n : HNode) (op : HOp) (ops : List HOp) :
    hrun n (op :: ops) = hrun (if (hstep n op).2 = .abort then hRestart (hstep n op).1 else (hstep n op).1) ops := rfl

theorem C13_handler_run (n : HNode) (ops : List HOp) (i : HInv n) (hc : ∀ op ∈ ops, ∀ d a, op ≠ .chunk d a) :
    HInv (hrun n ops) := by
  induction ops generalizing n with
  | nil => exact i
  | cons op ops ih =>
    rw [hrun_cons]
    have hop := hc op (by simp)
    obtain ⟨h1, h2, h3⟩ := C13_handler_request n op i hop
    have hrest : ∀ o ∈ ops, ∀ d a, o ≠ .chunk d a := fun o ho => hc o (by simp [ho])
    cases hr : (hstep n op).2 with
    | ok => rw [if_neg (by decide)]; exact ih _ (h1 hr) hrest
    | signerError => rw [if_neg (by decide), h2 (Or.inl hr)]; exact ih n i hrest
    | invalidArgument => rw [if_neg (by decide), h2 (Or.inr hr)]; exact ih n i hrest
    | abort => rw [if_pos rfl, h3 hr]; exact ih n i hrest

theorem C13_handler_skip_refused (n : HNode) (op : HOp) (ops : List HOp) (i : HInv n)
    (hop : ∀ d a, op ≠ .chunk d a) (hr : (hstep n op).2 ≠ .ok) :
    hrun n (op :: ops) = hrun n ops := by
  obtain ⟨_, h2, h3⟩ := C13_handler_request n op i hop
  rw [hrun_cons]
  cases hq : (hstep n op).2 with
  | ok => exact absurd hq hr
  | signerError => rw [if_neg (by decide), h2 (Or.inl hq)]
  | invalidArgument => rw [if_neg (by decide), h2 (Or.inr hq)]
  | abort => rw [if_pos rfl, h3 hq]

/-- a node freshly built from a persisted entry satisfies the invariant -/
theorem C13_handler_inv_of_store (c : HConfig) (v : View) : HInv ⟨Tracker.ofStore c v, v, c⟩ := by
  refine ⟨?_, rfl, rfl, rfl, rfl, rfl⟩
  cases v; rfl

/-- non-vacuity on the example tracker: an orphan is refused by reply, a block without the oracle majority aborts the
    process, the correct block is accepted afterwards and persisted -/
example :
    let n0 : HNode := ⟨Tracker.ofStore ⟨.regtest, [1, 2, 3], false⟩ exTracker.view, exTracker.view,
                       ⟨.regtest, [1, 2, 3], false⟩⟩
    (hstep n0 (.add ⟨11, 7, 1, 0, true⟩ (some (exProof [1, 2])))).2 = .signerError ∧
    (hstep n0 (.add exHeader (some (exProof [1])))).2 = .abort ∧
    (hstep n0 (.add exHeader none)).2 = .invalidArgument ∧
    (hrun n0 [.add ⟨11, 7, 1, 0, true⟩ (some (exProof [1, 2])), .add exHeader (some (exProof [1])),
              .add exHeader (some (exProof [1, 2]))]).store.height = 6 := by decide

end VlsModel.Props.C13
