import VlsModel.Gen.FnMonitorPush
import VlsModel.Lemmas.FnGen
namespace VlsModel.Props.C14PushFn
open VlsModel VlsModel.Gen.FnMonitorPush

section
variable {BlockHash Txid Version LockTime TxOut Set ChannelId CPP CTP PK : Type}
  [DecidableEq Txid] [DecidableEq BlockHash]

abbrev PL (BlockHash Txid Version LockTime TxOut Set ChannelId CPP : Type) :=
  PushListener BlockHash Txid Version LockTime TxOut Set ChannelId CPP

/-- what a handler of the push listener may change: only the decode state -/
def Frame (l l' : PL BlockHash Txid Version LockTime TxOut Set ChannelId CPP) : Prop :=
  l'.saw_block = l.saw_block ∧ l'.commitment_point_provider = l.commitment_point_provider

theorem Frame.refl (l : PL BlockHash Txid Version LockTime TxOut Set ChannelId CPP) : Frame l l := ⟨rfl, rfl⟩
theorem Frame.trans {a b c : PL BlockHash Txid Version LockTime TxOut Set ChannelId CPP}
    (h1 : Frame a b) (h2 : Frame b c) : Frame a c := ⟨h2.1.trans h1.1, h2.2.trans h1.2⟩

theorem frame_foldlM {α : Type} (f : PL BlockHash Txid Version LockTime TxOut Set ChannelId CPP → α → Rs.M (PL BlockHash Txid Version LockTime TxOut Set ChannelId CPP))
    (hf : ∀ l a l', f l a = .ok l' → Frame l l') :
    ∀ (xs : List α) l l', List.foldlM f l xs = .ok l' → Frame l l' := by
  intro xs
  induction xs with
  | nil => intro l l' h; simp [List.foldlM] at h; cases h; exact Frame.refl _
  | cons x xs ih =>
    intro l l' h
    simp only [List.foldlM] at h
    cases hx : f l x with
    | error e => rw [hx] at h; cases h
    | ok l1 => rw [hx] at h; exact (hf _ _ _ hx).trans (ih _ _ h)

theorem frame_start (l l' : PL BlockHash Txid Version LockTime TxOut Set ChannelId CPP) (v : Int)
    (h : PushListener.on_transaction_start l v = .ok l') : Frame l l' := by
  unfold PushListener.on_transaction_start at h
  cases hr : PushListener.is_not_ready_for_push l with
  | error e => rw [hr] at h; cases h
  | ok b =>
    rw [hr] at h
    cases b <;> simp at h <;> subst h <;> exact ⟨rfl, rfl⟩

/-- every successful outcome of `m` is a listener that differs from `l` in the decode state only -/
def Pres (l : PL BlockHash Txid Version LockTime TxOut Set ChannelId CPP)
    (m : Rs.M (PL BlockHash Txid Version LockTime TxOut Set ChannelId CPP)) : Prop := ∀ l', m = .ok l' → Frame l l'

omit [DecidableEq Txid] [DecidableEq BlockHash] in
theorem pres_ok {l x : PL BlockHash Txid Version LockTime TxOut Set ChannelId CPP} (h : Frame l x) :
    Pres l (Except.ok x) := by intro l' e; cases e; exact h
omit [DecidableEq Txid] [DecidableEq BlockHash] in
theorem pres_pure {l x : PL BlockHash Txid Version LockTime TxOut Set ChannelId CPP} (h : Frame l x) :
    Pres l (pure x) := pres_ok h
omit [DecidableEq Txid] [DecidableEq BlockHash] in
theorem pres_bindL {l : PL BlockHash Txid Version LockTime TxOut Set ChannelId CPP}
    {m : Rs.M (PL BlockHash Txid Version LockTime TxOut Set ChannelId CPP)}
    {f : PL BlockHash Txid Version LockTime TxOut Set ChannelId CPP → Rs.M (PL BlockHash Txid Version LockTime TxOut Set ChannelId CPP)}
    (hm : Pres l m) (hf : ∀ a, Frame l a → Pres l (f a)) : Pres l (m >>= f) := by
  intro l' e
  cases m with
  | error x => cases e
  | ok a => exact hf a (hm a rfl) l' e
omit [DecidableEq Txid] [DecidableEq BlockHash] in
theorem pres_bind {α : Type} {l : PL BlockHash Txid Version LockTime TxOut Set ChannelId CPP}
    {m : Rs.M α} {f : α → Rs.M (PL BlockHash Txid Version LockTime TxOut Set ChannelId CPP)}
    (hf : ∀ a, Pres l (f a)) : Pres l (m >>= f) := by
  intro l' e
  cases m with
  | error x => cases e
  | ok a => exact hf a l' e
omit [DecidableEq Txid] [DecidableEq BlockHash] in
theorem pres_foldlM {α : Type} {l : PL BlockHash Txid Version LockTime TxOut Set ChannelId CPP}
    {f : PL BlockHash Txid Version LockTime TxOut Set ChannelId CPP → α → Rs.M (PL BlockHash Txid Version LockTime TxOut Set ChannelId CPP)}
    {xs : List α} {s : PL BlockHash Txid Version LockTime TxOut Set ChannelId CPP}
    (hs : Frame l s) (hf : ∀ s a, Frame l s → Pres l (f s a)) : Pres l (List.foldlM f s xs) := by
  induction xs generalizing s with
  | nil => intro l' e; simp [List.foldlM] at e; cases e; exact hs
  | cons x xs ih =>
    intro l' e
    simp only [List.foldlM] at e
    cases hx : f s x with
    | error err => rw [hx] at e; cases e
    | ok s1 => rw [hx] at e; exact ih (hf s x hs s1 hx) l' e

omit [DecidableEq Txid] [DecidableEq BlockHash] in
theorem Pres.elim {l l' : PL BlockHash Txid Version LockTime TxOut Set ChannelId CPP}
    {m : Rs.M (PL BlockHash Txid Version LockTime TxOut Set ChannelId CPP)} (hp : Pres l m) (h : m = .ok l') :
    Frame l l' := hp l' h

attribute [irreducible] Pres

macro "pres_step" : tactic => `(tactic| first
  | assumption
  | apply pres_ok
  | apply pres_pure
  | apply pres_foldlM
  | apply pres_bindL
  | apply pres_bind
  | intro _
  | split
  | dsimp only)

theorem frame_output (l l' : PL BlockHash Txid Version LockTime TxOut Set ChannelId CPP) (o : TxOut)
    (h : PushListener.on_transaction_output l o = .ok l') : Frame l l' := by
  have hl : Frame l l := Frame.refl l
  refine Pres.elim ?_ h
  unfold PushListener.on_transaction_output
  repeat pres_step

theorem frame_input (xc : Set → OutPoint Txid → Bool) (xv : Int → Version) (xz : LockTime)
    (l l' : PL BlockHash Txid Version LockTime TxOut Set ChannelId CPP) (i : TxIn Txid)
    (h : PushListener.on_transaction_input xc xv xz l i = .ok l') : Frame l l' := by
  have hl : Frame l l := Frame.refl l
  refine Pres.elim ?_ h
  unfold PushListener.on_transaction_input
  repeat pres_step

theorem frame_end (x1 : CPP → CTP) (x2 : Transaction Version LockTime Txid TxOut → CTP → Option Nat)
    (x3 : CPP → Nat → PK) (x4 : CPP → Nat → Option PK)
    (x5 : Transaction Version LockTime Txid TxOut → PK → Option PK → CTP → (Option Nat × List Nat))
    (x6 : CPP → Transaction Version LockTime Txid TxOut → Nat → Option (List Nat))
    (l l' : PL BlockHash Txid Version LockTime TxOut Set ChannelId CPP) (lt : LockTime) (txid : Txid)
    (h : PushListener.on_transaction_end x1 x2 x3 x4 x5 x6 l lt txid = .ok l') : Frame l l' := by
  have hl : Frame l l := Frame.refl l
  refine Pres.elim ?_ h
  unfold PushListener.on_transaction_end
  repeat pres_step

/-! ### `push_transactions`, `on_add_block`, `on_remove_block`: the compact path is the event stream of the push decoder -/

abbrev Mon (Txid Set ChannelId BlockHash Version LockTime TxOut CPP : Type) :=
  ChainMonitor Txid Set ChannelId BlockHash Version LockTime TxOut CPP

variable {BlockHeader : Type}
variable (xv0 : Version → Int) (xc : Set → OutPoint Txid → Bool) (xv : Int → Version) (xz : LockTime)
  (xtxid : Transaction Version LockTime Txid TxOut → Txid)
  (x1 : CPP → CTP) (x2 : Transaction Version LockTime Txid TxOut → CTP → Option Nat)
  (x3 : CPP → Nat → PK) (x4 : CPP → Nat → Option PK)
  (x5 : Transaction Version LockTime Txid TxOut → PK → Option PK → CTP → (Option Nat × List Nat))
  (x6 : CPP → Transaction Version LockTime Txid TxOut → Nat → Option (List Nat))
  (hashOf : BlockHeader → BlockHash)

/-- the listener events of one transaction, in the order in which the push decoder (`BlockDecoder`) delivers them and in
    which `push_transactions` replays them: start, every input, every output, end -/
def pushTx (l : PL BlockHash Txid Version LockTime TxOut Set ChannelId CPP)
    (tx : Transaction Version LockTime Txid TxOut) : Rs.M (PL BlockHash Txid Version LockTime TxOut Set ChannelId CPP) := do
  let l ← PushListener.on_transaction_start l (xv0 tx.version)
  let l ← List.foldlM (fun l i => PushListener.on_transaction_input xc xv xz l i) l tx.input
  let l ← List.foldlM (fun l o => PushListener.on_transaction_output l o) l tx.output
  PushListener.on_transaction_end x1 x2 x3 x4 x5 x6 l tx.lock_time (xtxid tx)

theorem frame_pushTx (l l' : PL BlockHash Txid Version LockTime TxOut Set ChannelId CPP)
    (tx : Transaction Version LockTime Txid TxOut)
    (h : pushTx xv0 xc xv xz xtxid x1 x2 x3 x4 x5 x6 l tx = .ok l') : Frame l l' := by
  have hl : Frame l l := Frame.refl l
  refine Pres.elim ?_ h
  unfold pushTx
  apply pres_bindL
  · unfold Pres; intro a ha; exact frame_start _ _ _ ha
  intro a ha
  apply pres_bindL
  · apply pres_foldlM ha
    intro s i hs
    unfold Pres; intro b hb; exact hs.trans (frame_input _ _ _ _ _ _ hb)
  intro b hb
  apply pres_bindL
  · apply pres_foldlM hb
    intro s o hs
    unfold Pres; intro c hc; exact hs.trans (frame_output _ _ _ hc)
  intro c hc
  unfold Pres; intro d hd; exact hc.trans (frame_end _ _ _ _ _ _ _ _ _ _ hd)

/-- the listener `push_transactions` starts from: a fresh decode state that knows the block hash, `saw_block` set -/
def compactStart (m : Mon Txid Set ChannelId BlockHash Version LockTime TxOut CPP) (h : BlockHash) :
    PL BlockHash Txid Version LockTime TxOut Set ChannelId CPP :=
  { commitment_point_provider := m.commitment_point_provider,
    decode_state := BlockDecodeState.new_with_block_hash { m.state with saw_block := true } h, saw_block := true }

/-- **`ChainMonitor::push_transactions`** sets `saw_block`, folds the per-transaction events over a fresh decode state
    and returns that decode state; nothing else of the monitor changes. -/
theorem C14_fn_push_transactions (m : Mon Txid Set ChannelId BlockHash Version LockTime TxOut CPP) (h : BlockHash)
    (txs : List (Transaction Version LockTime Txid TxOut)) :
    ChainMonitor.push_transactions xv0 xc xv xz xtxid x1 x2 x3 x4 x5 x6 m h txs =
      (do let l ← List.foldlM (pushTx xv0 xc xv xz xtxid x1 x2 x3 x4 x5 x6) (compactStart m h) txs
          pure ({ m with state := { m.state with saw_block := true } }, l.decode_state)) := by
  unfold ChainMonitor.push_transactions pushTx compactStart
  simp only [bind_pure]

/-- **`ChainMonitor::on_add_block`** (compact delivery) = `push_transactions`, then `State::on_add_block_end` on the decode
    state it returned; the monitor's own `decode_state` slot is not touched. -/
theorem C14_fn_on_add_block (m : Mon Txid Set ChannelId BlockHash Version LockTime TxOut CPP) (h : BlockHash)
    (txs : List (Transaction Version LockTime Txid TxOut)) :
    ChainMonitor.on_add_block xv0 xc xv xz xtxid x1 x2 x3 x4 x5 x6 m txs h =
      (do let l ← List.foldlM (pushTx xv0 xc xv xz xtxid x1 x2 x3 x4 x5 x6) (compactStart m h) txs
          let (s, _, r) ← State.on_add_block_end { m.state with saw_block := true } h l.decode_state
          pure ({ m with state := s }, r)) := by
  unfold ChainMonitor.on_add_block
  rw [C14_fn_push_transactions]
  cases List.foldlM (pushTx xv0 xc xv xz xtxid x1 x2 x3 x4 x5 x6) (compactStart m h) txs with
  | error e => rfl
  | ok l =>
    simp only [Rs.bind_ok, Rs.pure_eq]

/-- **`ChainMonitor::on_remove_block`**: the same replay, then `State::on_remove_block_end`. -/
theorem C14_fn_on_remove_block (m : Mon Txid Set ChannelId BlockHash Version LockTime TxOut CPP) (h : BlockHash)
    (txs : List (Transaction Version LockTime Txid TxOut)) :
    ChainMonitor.on_remove_block xv0 xc xv xz xtxid x1 x2 x3 x4 x5 x6 m txs h =
      (do let l ← List.foldlM (pushTx xv0 xc xv xz xtxid x1 x2 x3 x4 x5 x6) (compactStart m h) txs
          let (s, _, r) ← State.on_remove_block_end { m.state with saw_block := true } h l.decode_state
          pure ({ m with state := s }, r)) := by
  unfold ChainMonitor.on_remove_block
  rw [C14_fn_push_transactions]
  cases List.foldlM (pushTx xv0 xc xv xz xtxid x1 x2 x3 x4 x5 x6) (compactStart m h) txs with
  | error e => rfl
  | ok l =>
    simp only [Rs.bind_ok, Rs.pure_eq]

/-- **`PushListener::on_block_start`** on the fresh decode state `on_push` creates: exactly the decode state
    `push_transactions` starts from (`new_with_block_hash`), and `saw_block` is set. -/
theorem C14_fn_on_block_start (cpp : CPP) (st : State Txid Set ChannelId) (sb : Bool) (hdr : BlockHeader) :
    PushListener.on_block_start hashOf
        ({ commitment_point_provider := cpp, decode_state := BlockDecodeState.new st, saw_block := sb } :
          PL BlockHash Txid Version LockTime TxOut Set ChannelId CPP) hdr
      = .ok { commitment_point_provider := cpp, decode_state := BlockDecodeState.new_with_block_hash st (hashOf hdr),
              saw_block := true } := by
  unfold PushListener.on_block_start BlockDecodeState.new BlockDecodeState.new_with_block_hash
  simp [Rs.assert]

/-- a second `on_block_start` within one stream panics (the `assert!`) -/
theorem C14_fn_on_block_start_twice (l : PL BlockHash Txid Version LockTime TxOut Set ChannelId CPP) (hdr : BlockHeader)
    (h : l.decode_state.block_hash.isSome) : PushListener.on_block_start hashOf l hdr = .error .panic := by
  unfold PushListener.on_block_start
  cases hb : l.decode_state.block_hash with
  | none => rw [hb] at h; cases h
  | some b => simp [Rs.assert]; rfl

/-! ### Streamed delivery.  `ChainMonitor::on_push<F: FnOnce(&mut dyn Listener)>(&self, f)` takes a closure; `onPush` is its readable
transcription, proved equal to the generated body in `C14_fn_on_push` (monitor.rs `on_push`: the decode state is created with
`BlockDecodeState::new` if there is none — `get_or_insert_with` —, the listener gets the provider, that decode state and
the monitor's `saw_block`, `f` runs on it, and `state.saw_block = listener.saw_block`; the decode state stays in the
monitor's slot).  Everything `f` does is the generated code. -/

/-- the listener `on_push` hands to the closure -/
def pushStart (m : Mon Txid Set ChannelId BlockHash Version LockTime TxOut CPP) :
    PL BlockHash Txid Version LockTime TxOut Set ChannelId CPP :=
  { commitment_point_provider := m.commitment_point_provider,
    decode_state := m.decode_state.getD (BlockDecodeState.new m.state), saw_block := m.state.saw_block }

/-- what `on_push` stores back: the decode state stays in the slot, `state.saw_block = listener.saw_block` -/
def afterPush (m : Mon Txid Set ChannelId BlockHash Version LockTime TxOut CPP)
    (l' : PL BlockHash Txid Version LockTime TxOut Set ChannelId CPP) : Mon Txid Set ChannelId BlockHash Version LockTime TxOut CPP :=
  { m with decode_state := some l'.decode_state, state := { m.state with saw_block := l'.saw_block } }

def onPush (m : Mon Txid Set ChannelId BlockHash Version LockTime TxOut CPP)
    (f : PL BlockHash Txid Version LockTime TxOut Set ChannelId CPP → Rs.M (PL BlockHash Txid Version LockTime TxOut Set ChannelId CPP)) :
    Rs.M (Mon Txid Set ChannelId BlockHash Version LockTime TxOut CPP) := do
  let l' ← f (pushStart m)
  pure (afterPush m l')

omit [DecidableEq Txid] [DecidableEq BlockHash] in
/-- **`ChainMonitor::on_push` is `onPush`**: the generated body (normalisations `b6_onpush_*` of
    `translate/fn_targets/MonitorPush.b6.json`: the closure type as an opaque value with the method `apply`,
    `get_or_insert_with` as `is_none` + assignment, the `&mut` borrow stored back), with `apply` instantiated by function
    application, is the transcription above for every closure. -/
theorem C14_fn_on_push (m : Mon Txid Set ChannelId BlockHash Version LockTime TxOut CPP)
    (f : PL BlockHash Txid Version LockTime TxOut Set ChannelId CPP → Rs.M (PL BlockHash Txid Version LockTime TxOut Set ChannelId CPP)) :
    ChainMonitor.on_push (fun g l => g l) m f = onPush m f := by
  unfold ChainMonitor.on_push onPush pushStart afterPush
  cases hd : m.decode_state with
  | none =>
    simp only [Option.isNone_none, if_true, Rs.unwrap, Rs.bind_ok, Rs.pure_eq, Option.getD_none]
  | some ds =>
    simp only [Option.isNone_some, Bool.false_eq_true, if_false, hd, Rs.unwrap, Rs.bind_ok, Rs.pure_eq, Option.getD_some]

/-- the events of a whole streamed block -/
def streamBlock (hdr : BlockHeader) (txs : List (Transaction Version LockTime Txid TxOut))
    (l : PL BlockHash Txid Version LockTime TxOut Set ChannelId CPP) :
    Rs.M (PL BlockHash Txid Version LockTime TxOut Set ChannelId CPP) := do
  let l ← PushListener.on_block_start hashOf l hdr
  List.foldlM (pushTx xv0 xc xv xz xtxid x1 x2 x3 x4 x5 x6) l txs

omit [DecidableEq Txid] [DecidableEq BlockHash] in
/-- **chunk boundaries do not matter**: delivering `f` and then `g` in two `on_push` calls (two `BlockChunk` messages) is
    delivering both in one, for every `f` that only changes the decode state (all handlers: `frame_*`). -/
theorem C14_on_push_split (m : Mon Txid Set ChannelId BlockHash Version LockTime TxOut CPP)
    (f g : PL BlockHash Txid Version LockTime TxOut Set ChannelId CPP → Rs.M (PL BlockHash Txid Version LockTime TxOut Set ChannelId CPP))
    (hf : ∀ l l', f l = .ok l' → Frame l l') :
    (onPush m f >>= fun m1 => onPush m1 g) = onPush m (fun l => f l >>= g) := by
  unfold onPush
  cases hfl : f (pushStart m) with
  | error e => simp only [hfl, Rs.bind_err]
  | ok l1 =>
    have hfr := hf _ _ hfl
    have hl1 : pushStart (afterPush m l1) = l1 := by
      cases l1; simp only [Frame, pushStart] at hfr; simp [pushStart, afterPush, hfr.2]
    simp only [hfl, Rs.bind_ok, Rs.pure_eq, hl1]
    cases g l1 with
    | error e => rfl
    | ok l2 => rfl

/-- **Compact and streamed delivery agree** (C14, clause "compact and streamed delivery").  For a synced monitor
    (`saw_block`) with no stream in progress: receiving the block as push events (`on_push` with block start and the
    transactions' events, in any chunking by `C14_on_push_split`) and then `on_add_streamed_block_end`, is exactly
    `on_add_block` with the same transactions: same new monitor (state *and* emptied decode slot), same watch deltas,
    same panics. -/
theorem C14_compact_eq_streamed_add (m : Mon Txid Set ChannelId BlockHash Version LockTime TxOut CPP)
    (hdr : BlockHeader) (txs : List (Transaction Version LockTime Txid TxOut))
    (hnone : m.decode_state = none) (hsb : m.state.saw_block = true) :
    (onPush m (streamBlock xv0 xc xv xz xtxid x1 x2 x3 x4 x5 x6 hashOf hdr txs) >>= fun m1 =>
        ChainMonitor.on_add_streamed_block_end m1 (hashOf hdr))
      = ChainMonitor.on_add_block xv0 xc xv xz xtxid x1 x2 x3 x4 x5 x6 m txs (hashOf hdr) := by
  rw [C14_fn_on_add_block]
  unfold onPush streamBlock afterPush
  have hst : ({ m.state with saw_block := true } : State Txid Set ChannelId) = m.state := by
    cases hs : m.state; rw [hs] at hsb; simp only at hsb; simp [hsb]
  simp only [pushStart, hnone, Option.getD_none, C14_fn_on_block_start, Rs.bind_ok, hsb, compactStart, hst]
  cases hfl : List.foldlM (pushTx xv0 xc xv xz xtxid x1 x2 x3 x4 x5 x6)
      ({ commitment_point_provider := m.commitment_point_provider,
         decode_state := BlockDecodeState.new_with_block_hash m.state (hashOf hdr), saw_block := true } :
        PL BlockHash Txid Version LockTime TxOut Set ChannelId CPP) txs with
  | error e => rfl
  | ok l' =>
    have hfr : Frame _ l' := frame_foldlM _ (fun l a l' h => frame_pushTx xv0 xc xv xz xtxid x1 x2 x3 x4 x5 x6 l l' a h) txs _ _ hfl
    have hsb' : l'.saw_block = true := hfr.1
    simp only [Rs.bind_ok, Rs.pure_eq, hsb', hst]
    unfold ChainMonitor.on_add_streamed_block_end
    simp only [hsb, Bool.not_true, Bool.false_eq_true, if_false, Rs.unwrap, Rs.bind_ok, Rs.pure_eq]
/-- the same for a disconnected block: `on_remove_block` = push events + `on_remove_streamed_block_end` -/
theorem C14_compact_eq_streamed_remove (m : Mon Txid Set ChannelId BlockHash Version LockTime TxOut CPP)
    (hdr : BlockHeader) (txs : List (Transaction Version LockTime Txid TxOut))
    (hnone : m.decode_state = none) (hsb : m.state.saw_block = true) :
    (onPush m (streamBlock xv0 xc xv xz xtxid x1 x2 x3 x4 x5 x6 hashOf hdr txs) >>= fun m1 =>
        ChainMonitor.on_remove_streamed_block_end m1 (hashOf hdr))
      = ChainMonitor.on_remove_block xv0 xc xv xz xtxid x1 x2 x3 x4 x5 x6 m txs (hashOf hdr) := by
  rw [C14_fn_on_remove_block]
  unfold onPush streamBlock afterPush
  have hst : ({ m.state with saw_block := true } : State Txid Set ChannelId) = m.state := by
    cases hs : m.state; rw [hs] at hsb; simp only at hsb; simp [hsb]
  simp only [pushStart, hnone, Option.getD_none, C14_fn_on_block_start, Rs.bind_ok, hsb, compactStart, hst]
  cases hfl : List.foldlM (pushTx xv0 xc xv xz xtxid x1 x2 x3 x4 x5 x6)
      ({ commitment_point_provider := m.commitment_point_provider,
         decode_state := BlockDecodeState.new_with_block_hash m.state (hashOf hdr), saw_block := true } :
        PL BlockHash Txid Version LockTime TxOut Set ChannelId CPP) txs with
  | error e => rfl
  | ok l' =>
    have hfr : Frame _ l' := frame_foldlM _ (fun l a l' h => frame_pushTx xv0 xc xv xz xtxid x1 x2 x3 x4 x5 x6 l l' a h) txs _ _ hfl
    have hsb' : l'.saw_block = true := hfr.1
    simp only [Rs.bind_ok, Rs.pure_eq, hsb', hst]
    unfold ChainMonitor.on_remove_streamed_block_end
    simp only [hsb, Bool.not_true, Bool.false_eq_true, if_false, Rs.unwrap, Rs.bind_ok, Rs.pure_eq]

/-! ### constructors, accessors and the funding registration of `ChainMonitorBase` / `ChainMonitor` -/

omit [DecidableEq Txid] [DecidableEq BlockHash] in
/-- `as_base`, `get_state` (both), `key`, `funding_outpoint()`, `State::channel_id`, `PushListener::on_block_end`: the
    accessors read the field they are named after, `on_block_end` changes nothing (the block is applied by the following
    `AddBlock` / `RemoveBlock`), `channel_id` panics exactly when the id was never installed. -/
theorem C14_fn_monitor_accessors (m : Mon Txid Set ChannelId BlockHash Version LockTime TxOut CPP)
    (b : ChainMonitorBase Txid Set ChannelId) (l : PL BlockHash Txid Version LockTime TxOut Set ChannelId CPP) :
    m.as_base = { funding_outpoint := m.funding_outpoint, state := m.state } ∧ m.get_state = m.state ∧
    m.key = m.funding_outpoint ∧ b.get_state = b.state ∧ b.funding_outpoint_fn = b.state.funding_outpoint ∧
    l.on_block_end = l ∧
    (∀ c, b.state.channel_id = some c → b.state.channel_id_fn = .ok c) ∧
    (b.state.channel_id = none → b.state.channel_id_fn = .error .panic) := by
  refine ⟨rfl, rfl, rfl, rfl, rfl, rfl, ?_, ?_⟩
  · intro c hc; unfold State.channel_id_fn; rw [hc]; rfl
  · intro hc; unfold State.channel_id_fn; rw [hc]; rfl

omit [DecidableEq Txid] [DecidableEq BlockHash] in
/-- `new_from_persistence` installs the channel id and nothing else; `as_monitor` shares the state and starts with an
    empty decode slot; `as_monitor` then `as_base` is the identity. -/
theorem C14_fn_monitor_constructors (o : OutPoint Txid) (st : State Txid Set ChannelId) (c : ChannelId) (cpp : CPP)
    (b : ChainMonitorBase Txid Set ChannelId) :
    ChainMonitorBase.new_from_persistence o st c = { funding_outpoint := o, state := { st with channel_id := some c } } ∧
    (b.as_monitor cpp : Mon Txid Set ChannelId BlockHash Version LockTime TxOut CPP) =
      { funding_outpoint := b.funding_outpoint, state := b.state, decode_state := none, commitment_point_provider := cpp } ∧
    (b.as_monitor cpp : Mon Txid Set ChannelId BlockHash Version LockTime TxOut CPP).as_base = b := by
  refine ⟨rfl, rfl, ?_⟩
  cases b; rfl

omit [DecidableEq Txid] [DecidableEq BlockHash] in
/-- **`ChainMonitorBase::add_funding_outpoint`**: registers the single funding outpoint on a monitor that has none
    (txid and vout vectors stay aligned), panics on a second registration (the two `assert!`s), touches nothing else. -/
theorem C14_fn_add_funding_outpoint (b : ChainMonitorBase Txid Set ChannelId) (o : OutPoint Txid) :
    b.add_funding_outpoint o =
      if b.state.funding_txids.isEmpty && (b.state.funding_txids.length == b.state.funding_vouts.length) then
        .ok { b with state := { b.state with funding_txids := b.state.funding_txids ++ [o.txid],
                                             funding_vouts := b.state.funding_vouts ++ [o.vout] } }
      else .error .panic := by
  unfold ChainMonitorBase.add_funding_outpoint
  cases h1 : b.state.funding_txids.isEmpty <;>
    cases h2 : (b.state.funding_txids.length == b.state.funding_vouts.length) <;> simp [Rs.assert, h1, h2] <;> rfl

omit [DecidableEq Txid] [DecidableEq BlockHash] in
/-- **`ChainMonitorBase::new`**: a new monitor knows its height and channel id and nothing else — no funding, no close,
    not synced (`saw_block = false`), not forgotten. -/
theorem C14_fn_base_new (e : Set) (o : OutPoint Txid) (h : Nat) (c : ChannelId) :
    (ChainMonitorBase.new e o h c : ChainMonitorBase Txid Set ChannelId) =
      { funding_outpoint := o,
        state := { height := h, funding_txids := [], funding_vouts := [], funding_inputs := e, funding_height := none,
                   funding_outpoint := none, funding_double_spent_height := none, mutual_closing_height := none,
                   unilateral_closing_height := none, closing_outpoints := none, closing_swept_height := none,
                   our_output_swept_height := none, saw_block := false, saw_forget_channel := false,
                   channel_id := some c } } := rfl

omit [DecidableEq Txid] [DecidableEq BlockHash] in
/-- **`ChainMonitor::add_funding`** (dual funding) is the two single-funding registrations of the base,
    `add_funding_outpoint` of `(txid(tx), vout)` then `add_funding_inputs(tx)`: same panics, same state. -/
theorem C14_fn_add_funding (xext : Set → List (TxIn Txid) → Set)
    (m : Mon Txid Set ChannelId BlockHash Version LockTime TxOut CPP) (tx : Transaction Version LockTime Txid TxOut) (vout : Nat) :
    (m.add_funding xtxid xext tx vout).map (·.as_base) =
      (m.as_base.add_funding_outpoint { txid := xtxid tx, vout := vout }).map (·.add_funding_inputs xext tx) := by
  unfold ChainMonitor.add_funding ChainMonitorBase.add_funding_outpoint ChainMonitor.as_base
  cases h1 : m.state.funding_txids.isEmpty <;>
    cases h2 : (m.state.funding_txids.length == m.state.funding_vouts.length) <;>
    simp [Rs.assert, h1, h2, ChainMonitorBase.add_funding_inputs, Except.map] <;> rfl

omit [DecidableEq Txid] [DecidableEq BlockHash] in
/-- `ChainMonitorBase::diagnostic` is `State::diagnostic` of the shared state; an unconfirmed channel reports the
    hold time `MIN_DEPTH` = 100 -/
theorem C14_fn_diagnostic (b : ChainMonitorBase Txid Set ChannelId) (c : Bool) :
    b.diagnostic c = b.state.diagnostic c ∧
    (b.state.funding_height = none → b.state.diagnostic c = .ok "UNCOMFIRMED hold till funding doublespent + 100") := by
  constructor
  · unfold ChainMonitorBase.diagnostic
    cases b.state.diagnostic c <;> rfl
  · intro h
    unfold State.diagnostic
    rw [h]
    rfl
end

/-! ### non-vacuity: a synced monitor with a registered funding outpoint sees the funding transaction in a block, by both
delivery forms (all library types = `Nat`, the txid of a transaction = its lock time) -/
section Example
abbrev ESet := List (OutPoint Nat)
def eSt : State Nat ESet Nat :=
  { height := 10, funding_txids := [7], funding_vouts := [0], funding_inputs := [], funding_height := none,
    funding_outpoint := none, funding_double_spent_height := none, mutual_closing_height := none,
    unilateral_closing_height := none, closing_outpoints := none, closing_swept_height := none,
    our_output_swept_height := none, saw_block := true, saw_forget_channel := false, channel_id := some 1 }
def eMon : Mon Nat ESet Nat Nat Nat Nat Nat Unit :=
  { funding_outpoint := { txid := 7, vout := 0 }, state := eSt, decode_state := none, commitment_point_provider := () }
def eTx : Transaction Nat Nat Nat Nat := { version := 2, lock_time := 7, input := [{ previous_output := { txid := 3, vout := 1 } }], output := [50] }
def eAdd : Rs.M (Mon Nat ESet Nat Nat Nat Nat Nat Unit × (List (OutPoint Nat) × List (OutPoint Nat))) :=
  ChainMonitor.on_add_block (ChannelTransactionParameters := Unit) (PublicKey := Unit)
    (fun (v : Nat) => (v : Int)) (fun (s : ESet) o => s.contains o) (fun v => v.toNat) (0 : Nat)
    (fun tx => tx.lock_time) (fun _ => ()) (fun _ _ => none) (fun _ _ => ()) (fun _ _ => none) (fun _ _ _ _ => (none, []))
    (fun _ _ _ => none) eMon [eTx] 99

example : (match eAdd with | Except.ok (m, (adds, _)) => (m.state.funding_height, m.state.height, adds.length) | _ => (none, 0, 0))
    = (some 11, 11, 1) := by decide
example : eMon.decode_state = none ∧ eMon.state.saw_block = true := ⟨rfl, rfl⟩
end Example
end VlsModel.Props.C14PushFn
