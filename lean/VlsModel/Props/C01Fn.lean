import VlsModel.Model.Enforcement
import VlsModel.Gen.FnEnforce
import VlsModel.Gen.FnChannel
import VlsModel.Gen.FnEnforceNew
import VlsModel.Lemmas.FnGen
import VlsModel.Lemmas.EnforcementFn
import VlsModel.Lemmas.HandlerFn
import VlsModel.Gen.FnEnforceTest
import VlsModel.Gen.FnChannelSlotId
import VlsModel.Gen.FnChannelValidate
import VlsModel.Gen.FnChannelTestSetters
/-
C01 — the progression check in front of the holder counter, `Validator::set_next_holder_commit_num`
(`vls-core/src/policy/validator.rs:256`, a default method of `trait Validator`, mechanism "set_next_holder_commit_num
progression check" of the property), as `translate/rs2lean.py` regenerates it on every run (`Gen/FnEnforce.lean`:
`Validator.set_next_holder_commit_num`, which calls the generated `EnforcementState.set_next_holder_commit_num`).

The hand-written model (`Model/Enforcement.lean`) performs the update `next := next + 1, cur := some info` in two
places: `revoke` (through `advance_holder_commitment_state`) and `activate` (`activate_initial_commitment`, which calls
the `EnforcementState` setter directly with `1`).  Proved here, against the generated bodies:

* `C01_fn_validator_set_next_holder_commit_num` — for EVERY policy filter the call the model makes (`num = next + 1`)
  returns exactly the model's state;
* `C01_fn_validator_set_next_holder_commit_num_refused` — with the tag kept an error, any other number except `next`
  is refused with `policy-revoke-new-commitment-signed` (no state is returned);
* `C01_fn_validator_set_next_holder_commit_num_same` — `num = next` passes the guard and trips the setter's
  `assert_eq!(num, current + 1)`: a panic, no state;
* `C01_fn_holder_counter_only_steps` — for EVERY policy filter (also one that demotes the tag to a warning) and every
  `num`: whenever a state is returned, `num = next + 1` and the state is the model's.  So the holder counter cannot
  jump or stand still through this path whatever the deployment's filter says; the worst a demoted tag does is a panic.
* `C01_fn_activate_setter` — the direct setter call of `activate_initial_commitment` (`num = 1` on `next = 0`).
-/
namespace VlsModel.Props.C01Fn
open VlsModel VlsModel.Enforcement
open VlsModel.Gen.FnEnforce
open VlsModel.Lemmas.EnforcementFn

/-- `advance_holder_commitment_state` in `revoke` (`num = next + 1`): accepted under every filter, result = the
    model's update -/
theorem C01_fn_validator_set_next_holder_commit_num (f : String → Bool) (c : Chan) (info : Nat)
    (h : c.next + 1 ≤ Rs.U64_MAX) :
    Validator.set_next_holder_commit_num f () (toES c) (c.next + 1) info info
      = .ok (toES { c with next := c.next + 1, cur := some info }) := by
  have h1 : ¬ c.next + 1 = c.next := by omega
  simp [Validator.set_next_holder_commit_num, EnforcementState.set_next_holder_commit_num, toES, Rs.uadd, h,
        Rs.assert, h1]

/-- any number other than `next`, `next + 1` is refused when the filter keeps the tag an error -/
theorem C01_fn_validator_set_next_holder_commit_num_refused (f : String → Bool) (c : Chan) (num info sig : Nat)
    (hf : f "policy-revoke-new-commitment-signed" = true)
    (h : c.next + 1 ≤ Rs.U64_MAX) (h1 : num ≠ c.next) (h2 : num ≠ c.next + 1) :
    Validator.set_next_holder_commit_num f () (toES c) num info sig
      = .error (.err "policy-revoke-new-commitment-signed") := by
  simp [Validator.set_next_holder_commit_num, toES, Rs.uadd, h, h1, h2, policyErr_keep f _ hf]

/-- `num = next` passes the guard (`num != current && …` is false) and trips `assert_eq!(num, current + 1)` -/
theorem C01_fn_validator_set_next_holder_commit_num_same (f : String → Bool) (c : Chan) (info sig : Nat)
    (h : c.next + 1 ≤ Rs.U64_MAX) :
    Validator.set_next_holder_commit_num f () (toES c) c.next info sig = .error .panic := by
  have h1 : ¬ c.next = c.next + 1 := by omega
  simp [Validator.set_next_holder_commit_num, EnforcementState.set_next_holder_commit_num, toES, Rs.uadd, h,
        Rs.assert, h1, Rs.panic]

/-- Whatever the policy filter: a returned state means `num = next + 1`, and it is the model's state. -/
theorem C01_fn_holder_counter_only_steps (f : String → Bool) (c : Chan) (num info : Nat) (e : ES)
    (h : c.next + 1 ≤ Rs.U64_MAX)
    (hok : Validator.set_next_holder_commit_num f () (toES c) num info info = .ok e) :
    num = c.next + 1 ∧ e = toES { c with next := c.next + 1, cur := some info } := by
  by_cases h2 : num = c.next + 1
  · subst h2
    rw [C01_fn_validator_set_next_holder_commit_num f c info h] at hok
    exact ⟨rfl, (Except.ok.inj hok).symm⟩
  · exfalso
    by_cases h1 : num = c.next
    · subst h1
      rw [C01_fn_validator_set_next_holder_commit_num_same f c info info h] at hok
      cases hok
    · cases hf : f "policy-revoke-new-commitment-signed"
      · -- demoted: the macro only logs, the setter's assert_eq! panics
        simp [Validator.set_next_holder_commit_num, EnforcementState.set_next_holder_commit_num, toES, Rs.uadd, h,
              h1, h2, policyErr_demoted f _ hf, Rs.assert, Rs.panic] at hok
      · rw [C01_fn_validator_set_next_holder_commit_num_refused f c num info info hf h h1 h2] at hok
        cases hok

/-- `activate_initial_commitment`: `enforcement_state.set_next_holder_commit_num(1, info, sigs)` on `next = 0` -/
theorem C01_fn_activate_setter (c : Chan) (info : Nat) (h0 : c.next = 0) :
    (toES c).set_next_holder_commit_num 1 info info
      = .ok (toES { c with next := 1, cur := some info }) := by
  simp [EnforcementState.set_next_holder_commit_num, toES, Rs.uadd, h0, Rs.assert, Rs.U64_MAX]

/-- …and the model's `activate` makes exactly this update (the staged slot is emptied by the `take()`) -/
theorem C01_fn_activate_model (c : Chan) (info : Nat) (h0 : c.next = 0) (hs : c.nextInfo = some info) :
    (toES c).set_next_holder_commit_num 1 info info = .ok (toES (activate c).c)
      ∧ (activate c).c.nextInfo = none ∧ (activate c).out.res = .ok := by
  simp [EnforcementState.set_next_holder_commit_num, toES, Rs.uadd, h0, Rs.assert, Rs.U64_MAX, activate, hs]

/-- the model's `revoke` advance is this call: on the advancing path (`n = next`, not closed, staged `info`) the
    model's new state read as an `EnforcementState` is the generated result of `set_next_holder_commit_num(n + 1)` -/
theorem C01_fn_revoke_model (f : String → Bool) (c : Chan) (info : Nat) (h : c.next + 1 ≤ Rs.U64_MAX)
    (hc : c.closed = false) (hs : c.nextInfo = some info) (hok : (revoke c c.next).out.res = .ok) :
    Validator.set_next_holder_commit_num f () (toES c) (c.next + 1) info info = .ok (toES (revoke c c.next).c)
      ∧ (revoke c c.next).c.nextInfo = none := by
  rw [C01_fn_validator_set_next_holder_commit_num f c info h]
  have hu : ¬ c.next + 1 > U64.MAX := by
    have : U64.MAX = Rs.U64_MAX := by rfl
    omega
  unfold revoke at hok ⊢
  simp only [hc, hs, hu, ne_eq, not_true_eq_false, if_false, Bool.false_eq_true] at hok ⊢
  split at hok
  · simp_all [toES]
  · simp_all

/-! ### `impl ChannelBase for ChannelStub` (channel.rs:421 / :430, mechanism "ChannelStub refuses secrets") -/

/-- the generated `ChannelStub::get_per_commitment_secret` never returns a secret (a policy error for every number),
    and that is the model's reply class on a stub slot -/
theorem C01_fn_stub_get_per_commitment_secret (s : Gen.FnChannel.ChannelStub) (c : Chan) (n : Nat)
    (hs : c.slot = .stub) :
    Gen.FnChannel.ChannelStub.get_per_commitment_secret (SecretKey := Nat) s n
        = .error (.err "policy-revoke-new-commitment-valid")
    ∧ (getSecret c n).res = cls (Gen.FnChannel.ChannelStub.get_per_commitment_secret (SecretKey := Nat) s n)
    ∧ (getSecret c n).secret = none := by
  simp [Gen.FnChannel.ChannelStub.get_per_commitment_secret, Rs.fail, getSecret, hs]

/-- the generated `ChannelStub::get_per_commitment_secret_or_none` is `None` for every number, as in the model -/
theorem C01_fn_stub_get_per_commitment_secret_or_none (s : Gen.FnChannel.ChannelStub) (c : Chan) (n : Nat)
    (hs : c.slot = .stub) :
    Gen.FnChannel.ChannelStub.get_per_commitment_secret_or_none (SecretKey := Nat) s n = none
    ∧ (getSecretOrNone c n).res = .ok ∧ (getSecretOrNone c n).secret = none := by
  simp [Gen.FnChannel.ChannelStub.get_per_commitment_secret_or_none, getSecretOrNone, hs]

/-! ### `impl ChannelBase for Channel`: the point guard and the secret-release guard (channel.rs:529 / :547 / :575 / :1109)

Generated with declared externals (explicit parameters; `translate/x_fn.py`, area `Channel`): `rel` =
`InMemorySigner::release_commitment_secret(idx)` (LDK key derivation, `Result` read as `Option`), `fs` =
`SecretKey::from_slice`, `pt` = `get_per_commitment_point_unchecked`, and the policy filter of `self.validator()`.
The theorems hold for EVERY instance of the externals; where the model says "the reply contains the secret of holder
commitment `n`" the generated code is shown to ask the key store for index `INITIAL_COMMITMENT_NUMBER - n`. -/

/-- a model channel and a key store read as the two translated fields of `Channel` -/
def toCh {K : Type} (c : Chan) (k : K) : Gen.FnChannel.Channel K :=
  { keys := k, enforcement_state := { next_holder_commit_num := c.next } }

theorem INITIAL_eq : INITIAL = 281474976710655 := by decide

/-- `Channel::get_per_commitment_point`: refused exactly for `n > next + 1`, otherwise the unchecked point -/
theorem C01_fn_get_per_commitment_point {K : Type} (pt : Nat → Nat) (c : Chan) (k : K) (n : Nat)
    (hs : c.slot = .ready) (h : c.next + 1 ≤ Rs.U64_MAX) :
    Gen.FnChannel.Channel.get_per_commitment_point pt (toCh c k) n
        = (if n > c.next + 1 then .error (.err "policy-optional-fail-fast") else .ok (pt n))
    ∧ getPoint c n = cls (Gen.FnChannel.Channel.get_per_commitment_point pt (toCh c k) n) := by
  unfold Gen.FnChannel.Channel.get_per_commitment_point getPoint
  by_cases a : n > c.next + 1 <;> simp [toCh, Rs.uadd, h, hs, a, Rs.fail]

/-- `Channel::get_per_commitment_secret` on every input, with the tag kept an error: refused unless
    `n + 2 ≤ next_holder_commit_num` (no wrap-around: checked add); otherwise the key store is asked for index
    `INITIAL_COMMITMENT_NUMBER - n` -/
theorem C01_fn_get_per_commitment_secret {K S : Type} (f : String → Bool)
    (hf : f "policy-revoke-new-commitment-signed" = true)
    (rel : K → Nat → Option S) (fs : S → Option Nat) (c : Chan) (k : K) (n : Nat) :
    Gen.FnChannel.Channel.get_per_commitment_secret f rel fs (toCh c k) n
      = if n + 2 > Rs.U64_MAX ∨ n + 2 > c.next then .error (.err "policy-revoke-new-commitment-signed")
        else if n > INITIAL then .error .overflow
        else match rel k (INITIAL - n) with
             | none => .error .panic
             | some s => match fs s with
                         | none => .error .panic
                         | some sk => .ok sk := by
  unfold Gen.FnChannel.Channel.get_per_commitment_secret
  rw [INITIAL_eq]
  simp only [toCh]
  by_cases a : n + 2 ≤ Rs.U64_MAX
  · have h1 : Rs.ucheckedAdd Rs.U64_MAX n 2 = some (n + 2) := by simp [Rs.ucheckedAdd, a]
    have a' : ¬ n + 2 > Rs.U64_MAX := by omega
    by_cases b : n + 2 > c.next
    · simp [h1, a', b, policyErr_keep f _ hf]
    · by_cases hi : n > 281474976710655
      · have hi' : ¬ n ≤ 281474976710655 := by omega
        simp [h1, a', b, Rs.usub, hi, hi', Rs.overflow]
      · have hi' : n ≤ 281474976710655 := by omega
        cases hr : rel k (281474976710655 - n) with
        | none => simp [h1, a', b, Rs.usub, hi, hi', hr, Rs.unwrap, Rs.panic]
        | some s =>
          cases hs : fs s with
          | none => simp [h1, a', b, Rs.usub, hi, hi', hr, hs, Rs.unwrap, Rs.panic]
          | some sk => simp [h1, a', b, Rs.usub, hi, hi', hr, hs, Rs.unwrap]
  · have h1 : Rs.ucheckedAdd Rs.U64_MAX n 2 = none := by simp [Rs.ucheckedAdd, a]
    have a' : n + 2 > Rs.U64_MAX := by omega
    simp [h1, a', policyErr_keep f _ hf]

/-- the model's `getSecret` is this function: with a total key store, the reply contains a secret exactly when the
    generated body returns one, it is the secret of index `INITIAL - n`, and the reply classes agree
    (`next ≤ INITIAL + 2`: fewer than 2^48 revocations so far) -/
theorem C01_fn_getSecret_model {K S : Type} (rel : K → Nat → Option S) (fs : S → Option Nat) (r : K → Nat → S)
    (g : S → Nat) (hrel : ∀ k i, rel k i = some (r k i)) (hfs : ∀ s, fs s = some (g s))
    (c : Chan) (k : K) (n : Nat) (hs : c.slot = .ready) (hb : c.next ≤ INITIAL + 2) :
    (getSecret c n).res = cls (Gen.FnChannel.Channel.get_per_commitment_secret strict rel fs (toCh c k) n)
    ∧ ((getSecret c n).secret = some n ↔
        Gen.FnChannel.Channel.get_per_commitment_secret strict rel fs (toCh c k) n = .ok (g (r k (INITIAL - n))))
    ∧ ((getSecret c n).secret = none ∨ (getSecret c n).secret = some n) := by
  rw [C01_fn_get_per_commitment_secret strict rfl rel fs c k n]
  have hm : U64.MAX = Rs.U64_MAX := by decide
  unfold getSecret
  simp only [hs, hm]
  by_cases a : n + 2 > Rs.U64_MAX
  · simp [a]
  · by_cases b : n + 2 > c.next
    · simp [a, b]
    · have hi : ¬ n > INITIAL := by omega
      simp [a, b, hi, hrel, hfs]

/-- `Channel::get_per_commitment_secret_or_none` on every input: `None` unless `n + 2 ≤ next`, otherwise the secret of
    index `INITIAL - n` -/
theorem C01_fn_get_per_commitment_secret_or_none {K S : Type}
    (rel : K → Nat → Option S) (fs : S → Option Nat) (c : Chan) (k : K) (n : Nat) :
    Gen.FnChannel.Channel.get_per_commitment_secret_or_none rel fs (toCh c k) n
      = if n + 2 > Rs.U64_MAX ∨ n + 2 > c.next then .ok none
        else if n > INITIAL then .error .overflow
        else match rel k (INITIAL - n) with
             | none => .error .panic
             | some s => match fs s with
                         | none => .error .panic
                         | some sk => .ok (some sk) := by
  unfold Gen.FnChannel.Channel.get_per_commitment_secret_or_none
  rw [INITIAL_eq]
  simp only [toCh]
  by_cases a : n + 2 ≤ Rs.U64_MAX
  · have h1 : Rs.ucheckedAdd Rs.U64_MAX n 2 = some (n + 2) := by simp [Rs.ucheckedAdd, a]
    have a' : ¬ n + 2 > Rs.U64_MAX := by omega
    by_cases b : n + 2 > c.next
    · simp [h1, a', b]
    · by_cases hi : n > 281474976710655
      · have hi' : ¬ n ≤ 281474976710655 := by omega
        simp [h1, a', b, Rs.usub, hi, hi', Rs.overflow]
      · have hi' : n ≤ 281474976710655 := by omega
        cases hr : rel k (281474976710655 - n) with
        | none => simp [h1, a', b, Rs.usub, hi, hi', hr, Rs.unwrap, Rs.panic]
        | some s =>
          cases hs : fs s with
          | none => simp [h1, a', b, Rs.usub, hi, hi', hr, hs, Rs.unwrap, Rs.panic]
          | some sk => simp [h1, a', b, Rs.usub, hi, hi', hr, hs, Rs.unwrap]
  · have h1 : Rs.ucheckedAdd Rs.U64_MAX n 2 = none := by simp [Rs.ucheckedAdd, a]
    have a' : n + 2 > Rs.U64_MAX := by omega
    simp [h1, a']

theorem C01_fn_getSecretOrNone_model {K S : Type} (rel : K → Nat → Option S) (fs : S → Option Nat) (r : K → Nat → S)
    (g : S → Nat) (hrel : ∀ k i, rel k i = some (r k i)) (hfs : ∀ s, fs s = some (g s))
    (c : Chan) (k : K) (n : Nat) (hs : c.slot = .ready) (hb : c.next ≤ INITIAL + 2) :
    ((getSecretOrNone c n).secret = some n ↔
        Gen.FnChannel.Channel.get_per_commitment_secret_or_none rel fs (toCh c k) n = .ok (some (g (r k (INITIAL - n)))))
    ∧ ((getSecretOrNone c n).secret = none ↔
        Gen.FnChannel.Channel.get_per_commitment_secret_or_none rel fs (toCh c k) n = .ok none) := by
  rw [C01_fn_get_per_commitment_secret_or_none rel fs c k n]
  have hm : U64.MAX = Rs.U64_MAX := by decide
  unfold getSecretOrNone
  simp only [hs, hm]
  by_cases a : n + 2 > Rs.U64_MAX
  · simp [a]
  · by_cases b : n + 2 > c.next
    · simp [a, b]
    · have hi : ¬ n > INITIAL := by omega
      simp [a, b, hi, hrel, hfs]

/-- read off the generated bodies alone (every key store, every `from_slice`): a returned secret means
    `n + 2 ≤ next_holder_commit_num` without wrap-around — `C01_guard` at the level of the generated code -/
theorem C01_fn_secret_needs_counter {K S : Type} (f : String → Bool)
    (hf : f "policy-revoke-new-commitment-signed" = true)
    (rel : K → Nat → Option S) (fs : S → Option Nat) (c : Chan) (k : K) (n sk : Nat) :
    (Gen.FnChannel.Channel.get_per_commitment_secret f rel fs (toCh c k) n = .ok sk →
        n + 2 ≤ c.next ∧ n + 2 ≤ Rs.U64_MAX)
    ∧ (Gen.FnChannel.Channel.get_per_commitment_secret_or_none rel fs (toCh c k) n = .ok (some sk) →
        n + 2 ≤ c.next ∧ n + 2 ≤ Rs.U64_MAX) := by
  constructor
  · intro h
    rw [C01_fn_get_per_commitment_secret f hf rel fs c k n] at h
    by_cases g : n + 2 > Rs.U64_MAX ∨ n + 2 > c.next
    · rw [if_pos g] at h; cases h
    · constructor <;> omega
  · intro h
    rw [C01_fn_get_per_commitment_secret_or_none rel fs c k n] at h
    by_cases g : n + 2 > Rs.U64_MAX ∨ n + 2 > c.next
    · rw [if_pos g] at h; cases h
    · constructor <;> omega

/-- what the guard rests on: with `policy-revoke-new-commitment-signed` demoted to a warning the macro only logs and the
    secret of ANY number up to 2^48-1 is released (the documented opt-out `new_permissive()`; the model, the harness'
    filters and `C01_main` assume the tag stays an error) -/
theorem C01_fn_secret_guard_rests_on_filter {K S : Type} (f : String → Bool)
    (hf : f "policy-revoke-new-commitment-signed" = false)
    (rel : K → Nat → Option S) (fs : S → Option Nat) (r : S) (sk : Nat) (c : Chan) (k : K) (n : Nat)
    (hn : n ≤ INITIAL) (hrel : rel k (INITIAL - n) = some r) (hfs : fs r = some sk) :
    Gen.FnChannel.Channel.get_per_commitment_secret f rel fs (toCh c k) n = .ok sk := by
  unfold Gen.FnChannel.Channel.get_per_commitment_secret
  rw [INITIAL_eq] at hn hrel
  have hn' : ¬ n > 281474976710655 := by omega
  simp only [toCh]
  by_cases a : n + 2 ≤ Rs.U64_MAX
  · have h1 : Rs.ucheckedAdd Rs.U64_MAX n 2 = some (n + 2) := by simp [Rs.ucheckedAdd, a]
    by_cases b : n + 2 > c.next
    · simp [h1, b, policyErr_demoted f _ hf, Rs.usub, hn, hn', hrel, hfs, Rs.unwrap]
    · simp [h1, b, Rs.usub, hn, hn', hrel, hfs, Rs.unwrap]
  · have h1 : Rs.ucheckedAdd Rs.U64_MAX n 2 = none := by simp [Rs.ucheckedAdd, a]
    simp [h1, policyErr_demoted f _ hf, Rs.usub, hn, hn', hrel, hfs, Rs.unwrap]

/-- `Channel::release_commitment_secret(n)` (what `revoke_previous_holder_commitment` returns): the point of
    `n + 1` (saturating) and, for `n ≥ 1`, the secret of `n - 1`; same reply class as the model's `release`, a secret
    exactly when the model reports one, the channel unchanged -/
theorem C01_fn_release_commitment_secret {K S : Type} (pt : Nat → Nat)
    (rel : K → Nat → Option S) (fs : S → Option Nat) (r : K → Nat → S) (g : S → Nat)
    (hrel : ∀ k i, rel k i = some (r k i)) (hfs : ∀ s, fs s = some (g s))
    (c : Chan) (k : K) (n : Nat) (hs : c.slot = .ready) (hb : c.next ≤ INITIAL + 2) :
    (release c n).res = cls (Gen.FnChannel.Channel.release_commitment_secret pt strict rel fs (toCh c k) n)
    ∧ (∀ k', (release c n).secret = some k' →
        n = k' + 1 ∧ Gen.FnChannel.Channel.release_commitment_secret pt strict rel fs (toCh c k) n
          = .ok (toCh c k, (pt (Rs.usatAdd Rs.U64_MAX n 1), some (g (r k (INITIAL - k')))))) := by
  have hx : c.next + 1 ≤ Rs.U64_MAX := by rw [INITIAL_eq] at hb; unfold Rs.U64_MAX; omega
  have hsat : U64.satAdd n 1 = Rs.usatAdd Rs.U64_MAX n 1 := by
    unfold U64.satAdd Rs.usatAdd; rfl
  have hp := C01_fn_get_per_commitment_point pt c k (Rs.usatAdd Rs.U64_MAX n 1) hs hx
  unfold Gen.FnChannel.Channel.release_commitment_secret release
  rw [hsat, hp.2, hp.1]
  by_cases a : Rs.usatAdd Rs.U64_MAX n 1 > c.next + 1
  · simp [a]
  · simp only [a, if_false, cls_ok, ne_eq, not_true_eq_false, Rs.bind_ok]
    by_cases b : n ≥ 1
    · have hsub : Rs.usub n 1 = .ok (n - 1) := by simp [Rs.usub, b]
      have hg := C01_fn_getSecret_model rel fs r g hrel hfs c k (n - 1) hs hb
      simp only [b, decide_true, if_true, hsub, Rs.bind_ok]
      constructor
      · rw [hg.1]
        cases hgen : Gen.FnChannel.Channel.get_per_commitment_secret strict rel fs (toCh c k) (n - 1) with
        | ok v => simp
        | error e => cases e <;> simp
      · intro k' hk'
        rcases hg.2.2 with h0 | h1
        · rw [h0] at hk'; cases hk'
        · rw [h1] at hk'
          have : k' = n - 1 := (Option.some.inj hk').symm
          subst this
          refine ⟨by omega, ?_⟩
          rw [hg.2.1.mp h1]
          simp
    · have b' : ¬ (1 ≤ n) := b
      simp [b, b']

/-- **the whole revoke request** (`revoke_previous_holder_commitment(n)`) of the model in terms of the generated bodies:
    for `n ≠ next` it is the generated `release_commitment_secret` on the unchanged channel; for `n = next` the two
    refusals of channel.rs (closed, nothing staged — hand-modelled glue) and then the generated
    `Validator::set_next_holder_commit_num(n + 1)` followed by the generated `release_commitment_secret` on the advanced
    state -/
theorem C01_fn_revoke_request {K S : Type} (ptf : Nat → Nat)
    (rel : K → Nat → Option S) (fs : S → Option Nat) (r : K → Nat → S) (g : S → Nat)
    (hrel : ∀ k i, rel k i = some (r k i)) (hfs : ∀ s, fs s = some (g s))
    (c : Chan) (k : K) (n : Nat) (hs : c.slot = .ready) (hb : c.next + 1 ≤ INITIAL + 2) :
    (n ≠ c.next →
        (revoke c n).c = c
        ∧ (revoke c n).out.res = cls (Gen.FnChannel.Channel.release_commitment_secret ptf strict rel fs (toCh c k) n))
    ∧ (n = c.next → c.closed = true → revoke c n = fail c .errPolicy)
    ∧ (n = c.next → c.closed = false → c.nextInfo = none → revoke c n = fail c .errPolicy)
    ∧ (∀ info, n = c.next → c.closed = false → c.nextInfo = some info →
        Validator.set_next_holder_commit_num strict () (toES c) (n + 1) info info
            = .ok (toES { c with nextInfo := none, next := n + 1, cur := some info })
        ∧ (revoke c n).out.res
            = cls (Gen.FnChannel.Channel.release_commitment_secret ptf strict rel fs
                    (toCh { c with nextInfo := none, next := n + 1, cur := some info } k) n)
        ∧ ((revoke c n).out.res = .ok →
            (revoke c n).c = { c with nextInfo := none, next := n + 1, cur := some info })) := by
  have hI : INITIAL = 281474976710655 := INITIAL_eq
  have hx : c.next + 1 ≤ Rs.U64_MAX := by unfold Rs.U64_MAX; omega
  refine ⟨?_, ?_, ?_, ?_⟩
  · intro hne
    have hrel' := C01_fn_release_commitment_secret ptf rel fs r g hrel hfs c k n hs (by omega)
    unfold revoke
    simp only [hne, ne_eq, not_false_eq_true, if_true]
    exact ⟨trivial, hrel'.1⟩
  · intro he hc
    unfold revoke
    simp [he, hc]
  · intro he hc hni
    unfold revoke
    simp [he, hc, hni]
  · intro info he hc hni
    subst he
    have hset := C01_fn_validator_set_next_holder_commit_num strict c info hx
    refine ⟨hset, ?_⟩
    have hu : ¬ c.next + 1 > U64.MAX := by
      have : U64.MAX = Rs.U64_MAX := by decide
      omega
    have hs' : ({ c with nextInfo := none, next := c.next + 1, cur := some info } : Chan).slot = .ready := hs
    have hrel' := C01_fn_release_commitment_secret ptf rel fs r g hrel hfs
      { c with nextInfo := none, next := c.next + 1, cur := some info } k c.next hs' (by simpa using hb)
    have hrel'' := hrel'.1
    unfold revoke
    simp only [ne_eq, not_true_eq_false, if_false, hc, Bool.false_eq_true, hni, hu] at hrel'' ⊢
    rw [← hrel'']
    split
    · rename_i ho
      exact ⟨rfl, fun _ => rfl⟩
    · rename_i ho
      refine ⟨rfl, fun h => absurd h ?_⟩
      simpa using ho

-- non-vacuity of the hypotheses of `C01_fn_revoke_request`: next = 1 with a staged commitment, a total key store
example :=
  C01_fn_revoke_request (K := Unit) (S := Nat) (fun n => n) (fun _ i => some i) (fun s => some s) (fun _ i => i) (fun s => s)
    (fun _ _ => rfl) (fun _ => rfl) { slot := .ready, next := 1, cur := some 0, nextInfo := some 1 } () 1 rfl (by decide)

/-! ### `EnforcementState::new` (validator.rs:696): the state every channel starts from -/

/-- a model channel read as ALL thirteen fields of `EnforcementState` (`initial_holder_value` is not part of the model) -/
def toESfull (c : Chan) (v : Nat) : Gen.FnEnforceNew.EnforcementState Nat Nat Nat :=
  { next_holder_commit_num := c.next, next_counterparty_commit_num := c.cpCommit,
    next_counterparty_revoke_num := c.cpRevoke, current_counterparty_point := c.curPt,
    previous_counterparty_point := c.prevPt, current_holder_commit_info := c.cur,
    current_counterparty_signatures := c.cur, next_holder_commit_info := c.nextInfo.map (fun i => (i, i)),
    current_counterparty_commit_info := c.curInfo, previous_counterparty_commit_info := c.prevInfo,
    channel_closed := c.closed, initial_holder_value := v,
    counterparty_secrets := c.secrets.map (fun st => { old_secrets := st.map (fun e => (e.1.map UInt8.toNat, e.2)) }) }

/-- the generated `EnforcementState::new` is the model's fresh ready channel (counters 0, nothing staged, not closed,
    an empty secret store), which is what the model's `setup` installs -/
theorem C01_fn_enforcement_state_new (v : Nat) (F : Nat → Secrets.Bytes → Secrets.Bytes) :
    Gen.FnEnforceNew.EnforcementState.new v = toESfull { slot := .ready } v
    ∧ (chanStep F {} .setup).c = { slot := .ready } := by
  constructor
  · rfl
  · rfl

-- non-vacuity: a channel with `next = 3` and a staged commitment
example : Validator.set_next_holder_commit_num strict () (toES { slot := .ready, next := 3, cur := some 7 }) 4 9 9
    = .ok (toES { slot := .ready, next := 4, cur := some 9 }) := by rfl
example : Validator.set_next_holder_commit_num strict () (toES { slot := .ready, next := 3, cur := some 7 }) 5 9 9
    = .error (.err "policy-revoke-new-commitment-signed") := by rfl
example : Validator.set_next_holder_commit_num (fun _ => false) () (toES { slot := .ready, next := 3 }) 5 9 9
    = .error .panic := by rfl

/-! ### Arms of `ChannelHandler::do_handle` (vls-protocol-signer/src/handler.rs), round 9

`Gen/FnHandlerArms.lean` is regenerated on every run from the text of the arms `GetPerCommitmentPoint(2)`,
`RevokeCommitmentTx`, `ValidateCommitmentTx(2)` (arm extraction `translate/fn_arms.py`; normalisations and declared
externals in `translate/fn_targets/HandlerArms.b0103.json`, listed in the header of the generated file).  The channel
methods the closures call are explicit parameters; here they are instantiated with the channel-level functions of the
model (`Lemmas/HandlerFn.lean`), and the model's handler composites `hGetPoint2`, `hGetPoint`, `hRevoke`, `hValidate` of
`chanStep` are proved to give the reply class and the disclosed secret of the generated arm, for every protocol
version, commitment number, slot kind and channel state.  What comes from the source through these theorems: the
protocol-version branches (`< 5`: validate revokes at once / `RevokeCommitmentTx` is refused; `< 6`: `GetPerCommitmentPoint`
also returns the secret of `n - 2` for `n ≥ 2`), the arguments (`commit_num + 1` with its overflow, evaluated after the
slot lookup; `commitment_number - 2`), the order validate → revoke / point of `n + 1` / activate on the state the
validation leaves, `n > 0` versus the initial commitment, the refusal of a reply without secret in `RevokeCommitmentTx`,
and the crashes on malformed signature bytes in front of everything else.  Hand-written and tied by the correspondence
run only: the lookup `Node::with_channel(_base)` (`readyChannel`/`channelBase`), and the final channel state of a
composite (the generated arms return the reply; the state after the last call is the model's, stated per theorem). -/
section HandlerArms
open VlsModel.Secrets VlsModel.Lemmas.HandlerFn
open VlsModel.Gen.FnHandlerArms

/-- `GetPerCommitmentPoint2` -/
theorem C01_fn_handle_get_per_commitment_point2 (F : Nat → Bytes → Bytes) (c : Chan) (ver n : Nat) :
    ChannelHandler.handle_get_per_commitment_point2 channelBase pointM id (handler c ver) ⟨n⟩
        = resM (getPoint c n) ⟨n⟩
    ∧ (chanStep F c (.hGetPoint2 n)).out.res
        = hcls (ChannelHandler.handle_get_per_commitment_point2 channelBase pointM id (handler c ver) ⟨n⟩)
    ∧ (chanStep F c (.hGetPoint2 n)).c = c := by
  have h : ChannelHandler.handle_get_per_commitment_point2 channelBase pointM id (handler c ver) ⟨n⟩
        = resM (getPoint c n) ⟨n⟩ := by
    simp only [ChannelHandler.handle_get_per_commitment_point2, channelBase, pointM, handler, Rs.bind_ok]
    generalize getPoint c n = r
    cases r <;> rfl
  refine ⟨h, ?_, ?_⟩
  · rw [h]; simp [chanStep, fail]
  · simp [chanStep, fail]

/-- `GetPerCommitmentPoint` -/
theorem C01_fn_handle_get_per_commitment_point (F : Nat → Bytes → Bytes) (c : Chan) (ver n : Nat) :
    let g := ChannelHandler.handle_get_per_commitment_point channelBase pointM (fun ch k => secretM (getSecret ch k)) id id
               (handler c ver) ⟨n⟩
    let o := (chanStep F c (.hGetPoint ver n)).out
    o.res = hcls g
    ∧ (∀ r, g = .ok r → r.point = n ∧ r.secret = o.secret)
    ∧ (chanStep F c (.hGetPoint ver n)).c = c := by
  have hp : getPoint c n = .ok ∨ getPoint c n = .errPolicy := by
    unfold getPoint; split <;> split <;> simp
  by_cases a : ver < 6 <;> by_cases b : 2 ≤ n <;> rcases hp with hp | hp <;>
    rcases getSecret_cases c (n - 2) with hs | hs <;>
    simp [ChannelHandler.handle_get_per_commitment_point, channelBase, pointM, handler, chanStep, ver_no_secret, hp, hs,
      resM, fail, a, b, secretM, hcls, Rs.usub]
/-- `RevokeCommitmentTx` -/
theorem C01_fn_handle_revoke_commitment_tx (F : Nat → Bytes → Bytes) (c : Chan) (ver n : Nat) (po : Bool) :
    let g := ChannelHandler.handle_revoke_commitment_tx readyChannel (fun ch k => revokeM (revokeP ch k po).out k) id id
               (handler c ver) ⟨n⟩
    let o := (chanStep F c (.hRevoke ver n po)).out
    o.res = hcls g
    ∧ (∀ r, g = .ok r → o.secret = some r.old_commitment_secret ∧ r.next_per_commitment_point = n + 2)
    ∧ (chanStep F c (.hRevoke ver n po)).c
        = if ver < 5 ∨ c.slot = .stub ∨ n + 1 > Rs.U64_MAX then c else (revokeP c (n + 1) po).c := by
  by_cases a : ver < 5
  · simp [ChannelHandler.handle_revoke_commitment_tx, handler, chanStep, ver_revoke, a, fail, Rs.fail, hcls]
  · cases hs : c.slot
    · simp [ChannelHandler.handle_revoke_commitment_tx, handler, chanStep, ver_revoke, a, fail, Rs.fail, hcls,
        readyChannel, needReady, hs]
    · by_cases b : n + 1 ≤ Rs.U64_MAX
      · have b' : ¬ n + 1 > Rs.U64_MAX := by omega
        generalize hr : revokeP c (n + 1) po = r
        rcases r with ⟨c', ⟨res, secret, signed, validated⟩, p⟩
        cases res <;> cases secret <;>
          simp [ChannelHandler.handle_revoke_commitment_tx, handler, chanStep, ver_revoke, a, fail, Rs.fail, hcls,
            readyChannel, needReady, hs, u64max, b, b', Rs.uadd, hr, revokeM, resM, Rs.okOr]
      · have b' : n + 1 > Rs.U64_MAX := by omega
        simp [ChannelHandler.handle_revoke_commitment_tx, handler, chanStep, ver_revoke, a, fail, Rs.fail, hcls,
          readyChannel, needReady, hs, u64max, b, b', Rs.uadd, Rs.overflow]
/-- `ValidateCommitmentTx2` -/
theorem C01_fn_handle_validate_commitment_tx2 (F : Nat → Bytes → Bytes) (ex : Nat → List Nat × List Nat)
    (sfc : Nat → Option Nat) (items : Nat → List (BitcoinSignature Nat))
    (I : Nat → Nat → Nat → List Nat → List Nat → Nat)
    (S : Nat → Nat → Nat → List Nat → List Nat → Nat → List Nat → SigFact)
    (P : Nat → Nat → Nat → List Nat → List Nat → Bool) (c : Chan) (ver : Nat)
    (m : ValidateCommitmentTx2 Nat Nat) (cs : Nat) (hs : List Nat)
    (hc : sfc m.signature.signature = some cs) (hh : m.signature.sighash = 1)
    (hmap : List.mapM (fun (s : BitcoinSignature Nat) => do
        let t_6 ← do
            let _ ← Rs.assert ((s.sighash == 1) || (s.sighash == 131))
            let t_5 ← Rs.unwrap (sfc s.signature)
            pure t_5
        pure t_6) (items m.htlc_signatures) = .ok hs) :
    let off := (ex m.htlcs).2
    let rcv := (ex m.htlcs).1
    let g := ChannelHandler.handle_validate_commitment_tx2 ex sfc items readyChannel
      (fun ch num fee tl tr o r csig hsigs =>
        validateM (validate ch num (I fee tl tr o r) (S fee tl tr o r csig hsigs) (P fee tl tr o r)))
      (fun ch k => revokeM (revoke ch k).out k) pointM (fun ch => resM (activate ch).out.res 1) id id (handler c ver) m
    let o := (chanStep F c (.hValidate ver m.commitment_number
                (I m.feerate m.to_local_value_sat m.to_remote_value_sat off rcv)
                (S m.feerate m.to_local_value_sat m.to_remote_value_sat off rcv cs hs)
                (P m.feerate m.to_local_value_sat m.to_remote_value_sat off rcv))).out
    o.res = hcls g ∧ (∀ r, g = .ok r → o.secret = r.old_commitment_secret) := by
  simp only [ChannelHandler.handle_validate_commitment_tx2, hc, hh, hmap, Rs.bind_ok, Rs.pure_eq, handler, chanStep]
  simp only [Rs.unwrap, Rs.assert, beq_self_eq_true, if_true, Rs.bind_ok, Rs.pure_eq, ver_revoke, u64max]
  cases hsl : c.slot
  · simp [readyChannel, needReady, hsl, fail, hcls]
  · simp only [readyChannel, needReady, hsl, Rs.bind_ok]
    generalize validate c m.commitment_number _ _ _ = r0
    rcases r0 with ⟨c1, ⟨res, sec, sg, vd⟩, p⟩
    cases res
    case ok =>
      simp only [validateM, resM, andThen, Rs.bind_ok, if_true]
      by_cases a : ver < 5
      · generalize revoke c1 m.commitment_number = r1
        rcases r1 with ⟨c2, ⟨res1, sec1, sg1, vd1⟩, p1⟩
        cases res1 <;> simp [a, revokeM, resM, hcls]
      · by_cases b : m.commitment_number > 0
        · by_cases d : m.commitment_number + 1 ≤ Rs.U64_MAX
          · have d' : ¬ m.commitment_number + 1 > Rs.U64_MAX := by omega
            generalize hp : getPoint c1 (m.commitment_number + 1) = rp
            cases rp <;> simp [a, b, d, d', Rs.uadd, pointM, resM, hcls, fail, hp]
          · have d' : m.commitment_number + 1 > Rs.U64_MAX := by omega
            simp [a, b, d, d', Rs.uadd, Rs.overflow, fail, hcls]
        · have hsec : (activate c1).out.secret = none := by
            unfold activate; split
            · simp [fail]
            · split <;> simp [fail]
          generalize activate c1 = ra at hsec
          rcases ra with ⟨c2, ⟨res1, sec1, sg1, vd1⟩, p1⟩
          simp only at hsec
          cases res1 <;> simp [a, b, resM, hcls, hsec]
    all_goals simp [validateM, resM, andThen, hcls]

/-- `ValidateCommitmentTx` -/
theorem C01_fn_handle_validate_commitment_tx (F : Nat → Bytes → Bytes) (ex : Nat → List Nat × List Nat)
    (sfc : Nat → Option Nat) (items : Nat → List (BitcoinSignature Nat))
    (I : Nat → List Nat → Nat → List Nat → List Nat → Nat)
    (S : Nat → List Nat → Nat → List Nat → List Nat → Nat → List Nat → SigFact)
    (P : Nat → List Nat → Nat → List Nat → List Nat → Bool) (c : Chan) (ver : Nat)
    (pin : Nat → Nat) (wit : Nat → List Nat) (tin : Nat → Nat)
    (m : ValidateCommitmentTx Nat Nat Nat) (cs : Nat) (hs : List Nat)
    (hc : sfc m.signature.signature = some cs) (hh : m.signature.sighash = 1)
    (hmap : List.mapM (fun (s : BitcoinSignature Nat) => do
        let t_6 ← do
            let _ ← Rs.assert ((s.sighash == 1) || (s.sighash == 131))
            let t_5 ← Rs.unwrap (sfc s.signature)
            pure t_5
        pure t_6) (items m.htlc_signatures) = .ok hs) :
    let off := (ex m.htlcs).2
    let rcv := (ex m.htlcs).1
    let g := ChannelHandler.handle_validate_commitment_tx pin wit tin ex sfc items readyChannel
      (fun ch tx ws num fee o r csig hsigs =>
        validateM (validate ch num (I tx ws fee o r) (S tx ws fee o r csig hsigs) (P tx ws fee o r)))
      (fun ch k => revokeM (revoke ch k).out k) pointM (fun ch => resM (activate ch).out.res 1) id id (handler c ver) m
    let o := (chanStep F c (.hValidate ver m.commitment_number
                (I (tin m.tx) (wit (pin m.psbt)) m.feerate off rcv)
                (S (tin m.tx) (wit (pin m.psbt)) m.feerate off rcv cs hs)
                (P (tin m.tx) (wit (pin m.psbt)) m.feerate off rcv))).out
    o.res = hcls g ∧ (∀ r, g = .ok r → o.secret = r.old_commitment_secret) := by
  simp only [ChannelHandler.handle_validate_commitment_tx, hc, hh, hmap, Rs.bind_ok, Rs.pure_eq, handler, chanStep]
  simp only [Rs.unwrap, Rs.assert, beq_self_eq_true, if_true, Rs.bind_ok, Rs.pure_eq, ver_revoke, u64max]
  cases hsl : c.slot
  · simp [readyChannel, needReady, hsl, fail, hcls]
  · simp only [readyChannel, needReady, hsl, Rs.bind_ok]
    generalize validate c m.commitment_number _ _ _ = r0
    rcases r0 with ⟨c1, ⟨res, sec, sg, vd⟩, p⟩
    cases res
    case ok =>
      simp only [validateM, resM, andThen, Rs.bind_ok, if_true]
      by_cases a : ver < 5
      · generalize revoke c1 m.commitment_number = r1
        rcases r1 with ⟨c2, ⟨res1, sec1, sg1, vd1⟩, p1⟩
        cases res1 <;> simp [a, revokeM, resM, hcls]
      · by_cases b : m.commitment_number > 0
        · by_cases d : m.commitment_number + 1 ≤ Rs.U64_MAX
          · have d' : ¬ m.commitment_number + 1 > Rs.U64_MAX := by omega
            generalize hp : getPoint c1 (m.commitment_number + 1) = rp
            cases rp <;> simp [a, b, d, d', Rs.uadd, pointM, resM, hcls, fail, hp]
          · have d' : m.commitment_number + 1 > Rs.U64_MAX := by omega
            simp [a, b, d, d', Rs.uadd, Rs.overflow, fail, hcls]
        · have hsec : (activate c1).out.secret = none := by
            unfold activate; split
            · simp [fail]
            · split <;> simp [fail]
          generalize activate c1 = ra at hsec
          rcases ra with ⟨c2, ⟨res1, sec1, sg1, vd1⟩, p1⟩
          simp only at hsec
          cases res1 <;> simp [a, b, resM, hcls, hsec]
    all_goals simp [validateM, resM, andThen, hcls]

/-- outside the well-formed requests: an unparsable commitment signature or a sighash byte other than `ALL` crashes the
    handler (`.expect("signature")`, `assert_eq!`) before the channel is looked up — for EVERY instance of the externals -/
theorem C01_fn_handle_validate_wire_panics {Ch : Type} (ex : Nat → List Nat × List Nat)
    (sfc : Nat → Option Nat) (items : Nat → List (BitcoinSignature Nat)) (rc : Chan → Unit → Rs.M Ch)
    (v : Ch → Nat → Nat → Nat → Nat → List Nat → List Nat → Nat → List Nat → Rs.M Ch)
    (rv : Ch → Nat → Rs.M (Nat × Option Nat)) (gp : Ch → Nat → Rs.M Nat) (ac : Ch → Rs.M Nat) (c : Chan) (ver : Nat)
    (m : ValidateCommitmentTx2 Nat Nat) :
    (sfc m.signature.signature = none →
      ChannelHandler.handle_validate_commitment_tx2 ex sfc items rc v rv gp ac id id (handler c ver) m = .error .panic)
    ∧ (∀ cs, sfc m.signature.signature = some cs → m.signature.sighash ≠ 1 →
      ChannelHandler.handle_validate_commitment_tx2 ex sfc items rc v rv gp ac id id (handler c ver) m = .error .panic) := by
  constructor
  · intro h; simp [ChannelHandler.handle_validate_commitment_tx2, h, Rs.unwrap, Rs.panic]
  · intro cs h h1; simp [ChannelHandler.handle_validate_commitment_tx2, h, Rs.unwrap, Rs.assert, h1, Rs.panic]

/-- non-vacuity: version 4 on a fresh ready channel, `ValidateCommitmentTx2` of commitment 0 with a well-formed
    signature list is accepted and revokes at once (no secret yet); at version 6 `RevokeCommitmentTx` after it hands out
    nothing for `n = 0`… the hypotheses of the theorems above are satisfiable and the arms reach their `ok` replies -/
example :
    let m : ValidateCommitmentTx2 Nat Nat :=
      { commitment_number := 0, feerate := 253, to_local_value_sat := 1000, to_remote_value_sat := 2000, htlcs := 0,
        signature := ⟨7, 1⟩, htlc_signatures := 0 }
    hcls (ChannelHandler.handle_validate_commitment_tx2 (HTLCInfo2 := Nat) (fun _ => ([], [])) (fun s => some s) (fun _ => [⟨9, 131⟩]) readyChannel
      (fun ch num _ _ _ _ _ _ _ => validateM (validate ch num 11 .valid true))
      (fun ch k => revokeM (revoke ch k).out k) pointM (fun ch => resM (activate ch).out.res 1) id id
      (handler { slot := .ready } 4) m) = .ok
    ∧ hcls (ChannelHandler.handle_revoke_commitment_tx readyChannel (fun ch k => revokeM (revokeP ch k true).out k) id id
      (handler { slot := .ready, next := 1, cur := some 11, nextInfo := some 12 } 6) ⟨0⟩) = .ok
    ∧ hcls (ChannelHandler.handle_revoke_commitment_tx readyChannel (fun ch k => revokeM (revokeP ch k true).out k) id id
      (handler { slot := .ready, next := 1, cur := some 11, nextInfo := some 12 } 4) ⟨0⟩) = .errInvalid := by
  decide

end HandlerArms

/-! ### The unguarded holder setter and the slot helpers (round 9)

`EnforcementState::set_next_holder_commit_num_for_testing` (validator.rs:848) writes the holder counter without any of the
guards tied above: for EVERY number, nothing else changes.  It is compiled only under `cfg(test)` / feature `test_utils`
(the harness builds vls-core with `test_utils`; a production signer does not contain it) — the model has no request for it,
and `C01_main` is about histories of the modelled requests.  `ChannelSlot::id`, `ChannelSlot::unwrap_stub`
(channel.rs:343/361): the slot kind of the model (`SlotKind`) is the constructor of the generated `ChannelSlot`. -/
section Unguarded
open VlsModel.Gen.FnChannelSlotId

theorem C01_fn_set_next_holder_commit_num_for_testing {P : Type} (e : Gen.FnEnforceTest.EnforcementState P) (num : Nat) :
    (e.set_next_holder_commit_num_for_testing num).next_holder_commit_num = num
    ∧ (e.set_next_holder_commit_num_for_testing num).next_counterparty_commit_num = e.next_counterparty_commit_num
    ∧ (e.set_next_holder_commit_num_for_testing num).next_counterparty_revoke_num = e.next_counterparty_revoke_num
    ∧ (e.set_next_holder_commit_num_for_testing num).current_counterparty_point = e.current_counterparty_point
    ∧ (e.set_next_holder_commit_num_for_testing num).previous_counterparty_point = e.previous_counterparty_point := by
  simp [Gen.FnEnforceTest.EnforcementState.set_next_holder_commit_num_for_testing]

/-- the model's slot kind of a generated slot -/
def slotOf {I : Type} : ChannelSlot I → SlotKind
  | .Stub _ => .stub
  | .Ready _ => .ready

/-- `ChannelSlot::id`: the initial id of whichever variant is in the slot -/
theorem C01_fn_channel_slot_id {I : Type} (s : ChannelSlot I) :
    s.id = match s with | .Stub st => st.id0 | .Ready ch => ch.id0 := by
  cases s <;> rfl

/-- `ChannelSlot::unwrap_stub` returns exactly on a slot the model calls `stub`, and panics on a ready channel -/
theorem C01_fn_channel_slot_unwrap_stub {I : Type} (s : ChannelSlot I) :
    (slotOf s = .stub → ∃ st, s.unwrap_stub = .ok st ∧ s = .Stub st)
    ∧ (slotOf s = .ready → s.unwrap_stub = .error .panic) := by
  cases s with
  | Stub st => exact ⟨fun _ => ⟨st, rfl, rfl⟩, fun h => by simp [slotOf] at h⟩
  | Ready ch => exact ⟨fun h => by simp [slotOf] at h, fun _ => rfl⟩

end Unguarded

/-! ### Round 10: `Channel::validate_holder_commitment_tx_phase2` itself (`Gen/FnChannelValidate.lean`)

channel.rs:1127 (the semantic entry point behind `ValidateCommitmentTx2`), regenerated on every run (targets
`translate/fn_targets/ChannelValidate.b1.json`; content building, the policy check `Validator::validate_holder_commitment_tx`
— generated and tied on its own in `Props/C02Fn.lean` —, LDK's transaction building, the signature check
`check_holder_tx_signatures`, the payment ledger and `persist()` are declared externals).  The clause of C01 it carries, on the
generated body: **a successor commitment is staged only after the policy check on the state as it was, the check of the
counterparty's signatures on the transaction REBUILT from the request, and the payment check all passed**; what is staged is the
request's own content with the request's own signatures, only for `n = next`, and it is written before `Ok`. -/
section ValidatePhase2
open VlsModel.Gen.FnChannelValidate (EnforcementState CommitmentInfo2 HTLCInfo2 HTLCOutputInCommitment ChannelSetup Channel)

theorem vp_bind_ok {α β : Type} {x : Rs.M α} {f : α → Rs.M β} {b : β} (h : x >>= f = .ok b) :
    ∃ a, x = .ok a ∧ f a = .ok b := by
  cases x with
  | error e => cases h
  | ok a => exact ⟨a, rfl, h⟩

variable {PaymentHash CommitmentSignatures ChannelId Signature PublicKey Node NodeState BalanceDelta PaymentSummary Validator
  TxCreationKeys CommitmentTransaction ChainState : Type}

theorem C01_fn_validate_holder_commitment_tx_phase2
    (unchecked : Nat → PublicKey)
    (mkInfo : Nat → Nat → List (HTLCInfo2 PaymentHash) → List (HTLCInfo2 PaymentHash) → Nat → Rs.M (CommitmentInfo2 PaymentHash))
    (node : Node) (getState : Node → NodeState)
    (claimable : EnforcementState PaymentHash CommitmentSignatures → NodeState → Option (CommitmentInfo2 PaymentHash) →
        Option (CommitmentInfo2 PaymentHash) → ChannelSetup → Rs.M BalanceDelta)
    (incoming : EnforcementState PaymentHash CommitmentSignatures → Option (CommitmentInfo2 PaymentHash) →
        Option (CommitmentInfo2 PaymentHash) → PaymentSummary)
    (validator : Validator) (chainState : ChainState)
    (validateHolder : Validator → EnforcementState PaymentHash CommitmentSignatures → Nat → PublicKey → ChannelSetup → ChainState →
        CommitmentInfo2 PaymentHash → Rs.M Unit)
    (mkKeys : PublicKey → TxCreationKeys)
    (mkTx : Nat → TxCreationKeys → Nat → Nat → Nat → List (HTLCOutputInCommitment PaymentHash) → CommitmentTransaction)
    (checkSigs : PublicKey → TxCreationKeys → Nat → Signature → List Signature → CommitmentTransaction → Rs.M Unit)
    (outgoing : EnforcementState PaymentHash CommitmentSignatures → Option (CommitmentInfo2 PaymentHash) →
        Option (CommitmentInfo2 PaymentHash) → PaymentSummary)
    (validatePayments : NodeState → ChannelId → PaymentSummary → PaymentSummary → BalanceDelta → Validator → Rs.M Unit)
    (mkSigs : Signature → List Signature → CommitmentSignatures)
    (persist : EnforcementState PaymentHash CommitmentSignatures → Rs.M Unit)
    (self self' : Channel PaymentHash CommitmentSignatures ChannelId) (n feerate toHolder toCp : Nat)
    (off recv : List (HTLCInfo2 PaymentHash)) (csig : Signature) (hsigs : List Signature)
    (h : Channel.validate_holder_commitment_tx_phase2 unchecked mkInfo node getState claimable incoming validator chainState
           validateHolder mkKeys mkTx checkSigs outgoing validatePayments mkSigs persist self n feerate toHolder toCp off recv
           csig hsigs = .ok self') :
    ∃ info2 htlcs delta,
      n ≤ self.enforcement_state.next_holder_commit_num + 1 ∧
      mkInfo toHolder toCp off recv feerate = .ok info2 ∧
      validateHolder validator self.enforcement_state n (unchecked n) self.setup chainState info2 = .ok () ∧
      Channel.htlcs_info2_to_oic info2.offered_htlcs info2.received_htlcs = .ok htlcs ∧
      checkSigs (unchecked n) (mkKeys (unchecked n)) feerate csig hsigs
        (mkTx n (mkKeys (unchecked n)) feerate toHolder toCp htlcs) = .ok () ∧
      claimable self.enforcement_state (getState node) (some info2) none self.setup = .ok delta ∧
      validatePayments (getState node) self.id0 (incoming self.enforcement_state (some info2) none)
        (outgoing self.enforcement_state (some info2) none) delta validator = .ok () ∧
      ((n = self.enforcement_state.next_holder_commit_num ∧
          self' = { self with enforcement_state :=
                      { self.enforcement_state with next_holder_commit_info := some (info2, mkSigs csig hsigs) } } ∧
          persist self'.enforcement_state = .ok ())
       ∨ (n ≠ self.enforcement_state.next_holder_commit_num ∧ self' = self)) := by
  unfold Channel.validate_holder_commitment_tx_phase2 at h
  obtain ⟨pt, hpt, h⟩ := vp_bind_ok h
  have hptv : n ≤ self.enforcement_state.next_holder_commit_num + 1 ∧ pt = unchecked n := by
    unfold Channel.get_per_commitment_point at hpt
    obtain ⟨t, ht, hpt⟩ := vp_bind_ok hpt
    have htv : t = self.enforcement_state.next_holder_commit_num + 1 := by
      unfold Rs.uadd at ht; split at ht
      · exact (Except.ok.inj ht).symm
      · cases ht
    by_cases hg : n > t
    · simp [hg, Rs.fail] at hpt
    · simp only [hg, decide_false] at hpt
      have := Except.ok.inj hpt
      exact ⟨by omega, this.symm⟩
  obtain ⟨hle, hpte⟩ := hptv
  subst hpte
  obtain ⟨info2, hinfo, h⟩ := vp_bind_ok h
  obtain ⟨delta, hdelta, h⟩ := vp_bind_ok h
  obtain ⟨u1, hval, h⟩ := vp_bind_ok h
  obtain ⟨htlcs, hoic, h⟩ := vp_bind_ok h
  obtain ⟨u2, hsig, h⟩ := vp_bind_ok h
  obtain ⟨u3, hpay, h⟩ := vp_bind_ok h
  dsimp only at h
  refine ⟨info2, htlcs, delta, hle, hinfo, by cases u1; exact hval, hoic, by cases u2; exact hsig, hdelta,
    by cases u3; exact hpay, ?_⟩
  by_cases hn : n = self.enforcement_state.next_holder_commit_num
  · left
    have hb : (n == self.enforcement_state.next_holder_commit_num) = true := by simp [hn]
    rw [if_pos hb] at h
    obtain ⟨u, hper, h⟩ := vp_bind_ok h
    have e2 := Except.ok.inj h
    subst e2
    exact ⟨hn, rfl, by cases u; exact hper⟩
  · right
    have hb : ¬ ((n == self.enforcement_state.next_holder_commit_num) = true) := by simp [hn]
    rw [if_neg hb] at h
    have e2 := Except.ok.inj h
    subst e2
    exact ⟨hn, rfl⟩

/-- nothing is staged behind a failed signature check: whatever the other externals say, if `check_holder_tx_signatures`
    refuses the rebuilt transaction the request is refused (no `Ok`, hence no staged successor and no write) -/
theorem C01_fn_validate_phase2_needs_signatures
    (unchecked : Nat → PublicKey)
    (mkInfo : Nat → Nat → List (HTLCInfo2 PaymentHash) → List (HTLCInfo2 PaymentHash) → Nat → Rs.M (CommitmentInfo2 PaymentHash))
    (node : Node) (getState : Node → NodeState)
    (claimable : EnforcementState PaymentHash CommitmentSignatures → NodeState → Option (CommitmentInfo2 PaymentHash) →
        Option (CommitmentInfo2 PaymentHash) → ChannelSetup → Rs.M BalanceDelta)
    (incoming : EnforcementState PaymentHash CommitmentSignatures → Option (CommitmentInfo2 PaymentHash) →
        Option (CommitmentInfo2 PaymentHash) → PaymentSummary)
    (validator : Validator) (chainState : ChainState)
    (validateHolder : Validator → EnforcementState PaymentHash CommitmentSignatures → Nat → PublicKey → ChannelSetup → ChainState →
        CommitmentInfo2 PaymentHash → Rs.M Unit)
    (mkKeys : PublicKey → TxCreationKeys)
    (mkTx : Nat → TxCreationKeys → Nat → Nat → Nat → List (HTLCOutputInCommitment PaymentHash) → CommitmentTransaction)
    (checkSigs : PublicKey → TxCreationKeys → Nat → Signature → List Signature → CommitmentTransaction → Rs.M Unit)
    (outgoing : EnforcementState PaymentHash CommitmentSignatures → Option (CommitmentInfo2 PaymentHash) →
        Option (CommitmentInfo2 PaymentHash) → PaymentSummary)
    (validatePayments : NodeState → ChannelId → PaymentSummary → PaymentSummary → BalanceDelta → Validator → Rs.M Unit)
    (mkSigs : Signature → List Signature → CommitmentSignatures)
    (persist : EnforcementState PaymentHash CommitmentSignatures → Rs.M Unit)
    (self : Channel PaymentHash CommitmentSignatures ChannelId) (n feerate toHolder toCp : Nat)
    (off recv : List (HTLCInfo2 PaymentHash)) (csig : Signature) (hsigs : List Signature)
    (hbad : ∀ pt keys tx u, checkSigs pt keys feerate csig hsigs tx ≠ .ok u) :
    ∀ r, Channel.validate_holder_commitment_tx_phase2 unchecked mkInfo node getState claimable incoming validator chainState
           validateHolder mkKeys mkTx checkSigs outgoing validatePayments mkSigs persist self n feerate toHolder toCp off recv
           csig hsigs ≠ .ok r := by
  intro r h
  obtain ⟨_, _, _, _, _, _, _, hs, _⟩ := C01_fn_validate_holder_commitment_tx_phase2 unchecked mkInfo node getState claimable
    incoming validator chainState validateHolder mkKeys mkTx checkSigs outgoing validatePayments mkSigs persist self r n feerate
    toHolder toCp off recv csig hsigs h
  exact hbad _ _ _ () hs

/-- non-vacuity: with accepting externals the successor 1 of a channel at `next = 1` is staged with the request's content and
    signatures and written; with a signature check that refuses, the same request is refused -/
example :
    let self : Channel Nat Nat Nat :=
      { enforcement_state := { next_holder_commit_num := 1, next_holder_commit_info := none }, setup := ⟨⟩, id0 := 0 }
    let info : CommitmentInfo2 Nat := { offered_htlcs := [], received_htlcs := [] }
    let run (checkSigs : Nat → Nat → Nat → Nat → List Nat → Nat → Rs.M Unit) :=
      Channel.validate_holder_commitment_tx_phase2 (PublicKey := Nat) (Node := Unit) (NodeState := Unit) (BalanceDelta := Unit)
        (PaymentSummary := Unit) (Validator := Unit) (TxCreationKeys := Nat) (CommitmentTransaction := Nat) (Signature := Nat)
        (ChainState := Unit)
        (fun n => n) (fun _ _ _ _ _ => .ok info) () (fun _ => ()) (fun _ _ _ _ _ => .ok ()) (fun _ _ _ => ()) () ()
        (fun _ _ _ _ _ _ _ => .ok ()) id (fun n _ _ _ _ _ => n) checkSigs (fun _ _ _ => ()) (fun _ _ _ _ _ _ => .ok ())
        (fun c hs => c + hs.length) (fun _ => .ok ()) self 1 253 10 20 [] [] 40 [1, 2]
    run (fun _ _ _ _ _ _ => .ok ())
        = .ok { self with enforcement_state := { next_holder_commit_num := 1, next_holder_commit_info := some (info, 42) } }
    ∧ (∀ r, run (fun _ _ _ _ _ _ => Rs.fail "policy-commitment") ≠ .ok r) := by
  refine ⟨rfl, ?_⟩
  intro r
  exact C01_fn_validate_phase2_needs_signatures _ _ _ _ _ _ _ _ _ _ _ _ _ _ _ _ _ _ _ _ _ _ _ _ _
    (by intro _ _ _ u; simp [Rs.fail]) r

/-- **phase 1, `Channel::validate_holder_commitment_tx` (channel.rs:2461, behind `ValidateCommitmentTx`)** on its generated body:
    `Ok` ⇒ point guard, `make_validated_recomposed_holder_commitment_tx` (decode + policy + recomposition, external) accepted the
    presented transaction, `check_holder_tx_signatures` accepted the request's signatures on the RECOMPOSED transaction, the
    payment check passed; staged = the decoded content with the request's signatures, only for `n = next`, written before `Ok`. -/
theorem C01_fn_validate_holder_commitment_tx {Transaction : Type}
    (validator : Validator) (unchecked : Nat → PublicKey) (mkKeys : PublicKey → TxCreationKeys)
    (recompose : Transaction → List (List Nat) → Nat → PublicKey → TxCreationKeys → Nat → List (HTLCInfo2 PaymentHash) →
        List (HTLCInfo2 PaymentHash) → Rs.M (CommitmentTransaction × CommitmentInfo2 PaymentHash × PaymentSummary))
    (node : Node) (getState : Node → NodeState)
    (claimable : EnforcementState PaymentHash CommitmentSignatures → NodeState → Option (CommitmentInfo2 PaymentHash) →
        Option (CommitmentInfo2 PaymentHash) → ChannelSetup → Rs.M BalanceDelta)
    (checkSigs : PublicKey → TxCreationKeys → Nat → Signature → List Signature → CommitmentTransaction → Rs.M Unit)
    (outgoing : EnforcementState PaymentHash CommitmentSignatures → Option (CommitmentInfo2 PaymentHash) →
        Option (CommitmentInfo2 PaymentHash) → PaymentSummary)
    (validatePayments : NodeState → ChannelId → PaymentSummary → PaymentSummary → BalanceDelta → Validator → Rs.M Unit)
    (mkSigs : Signature → List Signature → CommitmentSignatures)
    (persist : EnforcementState PaymentHash CommitmentSignatures → Rs.M Unit)
    (self self' : Channel PaymentHash CommitmentSignatures ChannelId) (tx : Transaction) (ws : List (List Nat)) (n feerate : Nat)
    (off recv : List (HTLCInfo2 PaymentHash)) (csig : Signature) (hsigs : List Signature)
    (h : Channel.validate_holder_commitment_tx validator unchecked mkKeys recompose node getState claimable checkSigs outgoing
           validatePayments mkSigs persist self tx ws n feerate off recv csig hsigs = .ok self') :
    ∃ rtx info2 incoming delta,
      n ≤ self.enforcement_state.next_holder_commit_num + 1 ∧
      recompose tx ws n (unchecked n) (mkKeys (unchecked n)) feerate off recv = .ok (rtx, info2, incoming) ∧
      checkSigs (unchecked n) (mkKeys (unchecked n)) feerate csig hsigs rtx = .ok () ∧
      claimable self.enforcement_state (getState node) (some info2) none self.setup = .ok delta ∧
      validatePayments (getState node) self.id0 incoming (outgoing self.enforcement_state (some info2) none) delta validator
        = .ok () ∧
      ((n = self.enforcement_state.next_holder_commit_num ∧
          self' = { self with enforcement_state :=
                      { self.enforcement_state with next_holder_commit_info := some (info2, mkSigs csig hsigs) } } ∧
          persist self'.enforcement_state = .ok ())
       ∨ (n ≠ self.enforcement_state.next_holder_commit_num ∧ self' = self)) := by
  unfold Channel.validate_holder_commitment_tx at h
  obtain ⟨pt, hpt, h⟩ := vp_bind_ok h
  have hptv : n ≤ self.enforcement_state.next_holder_commit_num + 1 ∧ pt = unchecked n := by
    unfold Channel.get_per_commitment_point at hpt
    obtain ⟨t, ht, hpt⟩ := vp_bind_ok hpt
    have htv : t = self.enforcement_state.next_holder_commit_num + 1 := by
      unfold Rs.uadd at ht; split at ht
      · exact (Except.ok.inj ht).symm
      · cases ht
    by_cases hg : n > t
    · simp [hg, Rs.fail] at hpt
    · simp only [hg, decide_false] at hpt
      have := Except.ok.inj hpt
      exact ⟨by omega, this.symm⟩
  obtain ⟨hle, hpte⟩ := hptv
  subst hpte
  obtain ⟨⟨rtx, info2, incoming⟩, hrec, h⟩ := vp_bind_ok h
  obtain ⟨delta, hdelta, h⟩ := vp_bind_ok h
  obtain ⟨u2, hsig, h⟩ := vp_bind_ok h
  obtain ⟨u3, hpay, h⟩ := vp_bind_ok h
  dsimp only at h
  refine ⟨rtx, info2, incoming, delta, hle, hrec, by cases u2; exact hsig, hdelta, by cases u3; exact hpay, ?_⟩
  by_cases hn : n = self.enforcement_state.next_holder_commit_num
  · left
    have hb : (n == self.enforcement_state.next_holder_commit_num) = true := by simp [hn]
    rw [if_pos hb] at h
    obtain ⟨u, hper, h⟩ := vp_bind_ok h
    have e2 := Except.ok.inj h
    subst e2
    exact ⟨hn, rfl, by cases u; exact hper⟩
  · right
    have hb : ¬ ((n == self.enforcement_state.next_holder_commit_num) = true) := by simp [hn]
    rw [if_neg hb] at h
    have e2 := Except.ok.inj h
    subst e2
    exact ⟨hn, rfl⟩

/-- non-vacuity (phase 1): with accepting externals the successor 1 of a channel at `next = 1` is staged and written -/
example :
    let self : Channel Nat Nat Nat :=
      { enforcement_state := { next_holder_commit_num := 1, next_holder_commit_info := none }, setup := ⟨⟩, id0 := 0 }
    let info : CommitmentInfo2 Nat := { offered_htlcs := [], received_htlcs := [] }
    Channel.validate_holder_commitment_tx (Transaction := Nat) (PublicKey := Nat) (Node := Unit) (NodeState := Unit)
        (BalanceDelta := Unit) (PaymentSummary := Unit) (Validator := Unit) (TxCreationKeys := Nat) (CommitmentTransaction := Nat)
        (Signature := Nat)
        () (fun n => n) id (fun tx _ _ _ _ _ _ _ => .ok (tx, info, ())) () (fun _ => ()) (fun _ _ _ _ _ => .ok ())
        (fun _ _ _ _ _ _ => .ok ()) (fun _ _ _ => ()) (fun _ _ _ _ _ _ => .ok ()) (fun c hs => c + hs.length) (fun _ => .ok ())
        self 9 [] 1 253 [] [] 40 [1, 2]
      = .ok { self with enforcement_state := { next_holder_commit_num := 1, next_holder_commit_info := some (info, 42) } } := by
  rfl

end ValidatePhase2

/-! ### Round 10: the `Channel` wrappers of the test-only setters (`Gen/FnChannelTestSetters.lean`, channel.rs:521, 641, 651)

compiled only under `cfg(test)` / feature `test_utils`.  On their generated bodies: each wrapper replaces the enforcement state by
the result of the `EnforcementState` setter of the same name and does nothing else; instantiated with the generated setters of
`Gen/FnEnforceTest.lean` (tied to the model's unguarded steps above) the wrapper IS that setter on the channel's state. -/
section ChannelTestSetters

theorem C01_fn_channel_set_next_holder_commit_num_for_testing {PK : Type}
    (ch : Gen.FnChannelTestSetters.Channel (Gen.FnEnforceTest.EnforcementState PK)) (num : Nat) :
    Gen.FnChannelTestSetters.Channel.set_next_holder_commit_num_for_testing
        Gen.FnEnforceTest.EnforcementState.set_next_holder_commit_num_for_testing ch num
      = { enforcement_state := Gen.FnEnforceTest.EnforcementState.set_next_holder_commit_num_for_testing ch.enforcement_state num } :=
  rfl

theorem C01_fn_channel_set_next_counterparty_commit_num_for_testing {PK : Type}
    (ch : Gen.FnChannelTestSetters.Channel (Gen.FnEnforceTest.EnforcementState PK)) (num : Nat) (pt : PK) :
    Gen.FnChannelTestSetters.Channel.set_next_counterparty_commit_num_for_testing
        Gen.FnEnforceTest.EnforcementState.set_next_counterparty_commit_num_for_testing ch num pt
      = { enforcement_state :=
            Gen.FnEnforceTest.EnforcementState.set_next_counterparty_commit_num_for_testing ch.enforcement_state num pt } :=
  rfl

theorem C01_fn_channel_set_next_counterparty_revoke_num_for_testing {PK : Type}
    (ch : Gen.FnChannelTestSetters.Channel (Gen.FnEnforceTest.EnforcementState PK)) (num : Nat) :
    Gen.FnChannelTestSetters.Channel.set_next_counterparty_revoke_num_for_testing
        Gen.FnEnforceTest.EnforcementState.set_next_counterparty_revoke_num_for_testing ch num
      = { enforcement_state :=
            Gen.FnEnforceTest.EnforcementState.set_next_counterparty_revoke_num_for_testing ch.enforcement_state num } :=
  rfl

end ChannelTestSetters

end VlsModel.Props.C01Fn
