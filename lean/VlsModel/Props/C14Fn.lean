import VlsModel.Lemmas.MonitorFn
import VlsModel.Lemmas.MonitorView
import VlsModel.Gen.FnMonitorView
import VlsModel.Lemmas.FnGen
/-
C14 — the state-changing core of the monitor model proved equal to the function bodies that `translate/rs2lean.py`
regenerates from `vls-core/src/monitor.rs` on every run (`Gen/Gen.FnMonitorC14.lean`, targets
`translate/fn_targets/MonitorC14.b1315.json`):

  `SecondLevelHTLCOutput::{new, set_spent, is_spent, matches_outpoint}`,
  `ClosingOutpoints::{new, includes_our_output, includes_htlc_output, set_our_output_spent, set_htlc_output_spent,
     is_all_spent, add_second_level_htlc_output, includes_second_level_htlc_output, set_second_level_htlc_spent,
     remove_second_level_htlc_output}`,
  `State::{is_closing_swept, is_our_output_swept, apply_forward_change, apply_backward_change,
     on_add_block_end, on_remove_block_end}`.

Shape of the ties.  The model returns `Option` (`none` = an `unwrap` / `assert` / index failure: the signer aborts), the
generated bodies the translator's outcome monad; `MonitorFn.ofOpt` reads `none` as `.error .panic`.  The Rust functions
push onto caller-supplied `adds` / `removes` vectors, the model returns the deltas: the theorems say "accumulator ++
delta".  `on_add_block_end` / `on_remove_block_end` additionally do `u32` arithmetic on the height (`height += 1`, the
`height + 1` inside the logging-only `is_done` call, `height -= 1`); the model works on `Nat` ("u32 height overflow is
not modelled"), so those two ties carry the caller's guarantee as a hypothesis (`height + 2 ≤ u32::MAX`, resp. the
model's own `height = 0 ⇒ panic` case is stated separately: the code underflows there).
-/
namespace VlsModel.Props.C14Fn
open VlsModel VlsModel.Monitor VlsModel.MonitorFn

/-! ### SecondLevelHTLCOutput -/

/-- `SecondLevelHTLCOutput::new(outpoint)` = the entry `Closing.addSecond` appends -/
theorem C14_fn_second_new (op : OutPoint) :
    Gen.FnMonitorC14.SecondLevelHTLCOutput.new (toGenOp op) = toGenSecond (op, false) := rfl

/-- `set_spent` = the update `Monitor.setFirst` performs on the matching entry -/
theorem C14_fn_second_set_spent (h : OutPoint × Bool) (b : Bool) :
    (toGenSecond h).set_spent b = toGenSecond (h.1, b) := rfl

theorem C14_fn_second_is_spent (h : OutPoint × Bool) : (toGenSecond h).is_spent = h.2 := rfl

/-- `matches_outpoint` = the test `h.1 == op` of `Closing.includesSecond` / `setFirst` / `removeSecond` -/
theorem C14_fn_second_matches (h : OutPoint × Bool) (op : OutPoint) :
    (toGenSecond h).matches_outpoint (toGenOp op) = (h.1 == op) := by
  unfold Gen.FnMonitorC14.SecondLevelHTLCOutput.matches_outpoint toGenSecond
  exact toGenOp_beq h.1 op

/-! ### ClosingOutpoints -/

/-- `ClosingOutpoints::new` = `Closing.new` (all flags false, no second-level outputs) -/
theorem C14_fn_closing_new (txid : Nat) (our : Option Nat) (htlcs : List Nat) :
    Gen.FnMonitorC14.ClosingOutpoints.new txid our htlcs = toGenClosing (Closing.new txid our htlcs) := by
  unfold Gen.FnMonitorC14.ClosingOutpoints.new Closing.new toGenClosing
  simp only [map_const_false, List.map_nil]

/-- `includes_our_output` = `Closing.includesOur` -/
theorem C14_fn_includes_our (c : Closing) (op : OutPoint) :
    (toGenClosing c).includes_our_output (toGenOp op) = c.includesOur op := rfl

/-- `includes_htlc_output` = `Closing.includesHtlc` -/
theorem C14_fn_includes_htlc (c : Closing) (op : OutPoint) :
    (toGenClosing c).includes_htlc_output (toGenOp op) = c.includesHtlc op := rfl

/-- `set_our_output_spent` = `Closing.setOurSpent`, including its two panics (`unwrap` on a closing without our
    output, `assert_eq!(p.0, vout)`) -/
theorem C14_fn_set_our_spent (c : Closing) (vout : Nat) (b : Bool) :
    (toGenClosing c).set_our_output_spent vout b = ofOpt toGenClosing (c.setOurSpent vout b) := by
  unfold Gen.FnMonitorC14.ClosingOutpoints.set_our_output_spent Closing.setOurSpent
  cases ho : c.our with
  | none => simp [toGenClosing, ho, Rs.unwrap, Rs.panic]
  | some p =>
    obtain ⟨i, f⟩ := p
    by_cases hi : i = vout
    · simp [toGenClosing, ho, Rs.unwrap, Rs.assert, hi]
    · simp [toGenClosing, ho, Rs.unwrap, Rs.assert, hi, Rs.panic]

/-- `set_htlc_output_spent` = `Closing.setHtlcSpent`, including `position(..).unwrap()` and the index panic of
    `htlc_spents[i] = spent` -/
theorem C14_fn_set_htlc_spent (c : Closing) (vout : Nat) (b : Bool) :
    (toGenClosing c).set_htlc_output_spent vout b = ofOpt toGenClosing (c.setHtlcSpent vout b) := by
  unfold Gen.FnMonitorC14.ClosingOutpoints.set_htlc_output_spent Closing.setHtlcSpent
  simp only [toGenClosing]
  rw [← position_eq_findIdx]
  cases hp : position vout c.htlcOutputs with
  | none => simp [Rs.unwrap, Rs.panic]
  | some i =>
    by_cases hl : i < c.htlcSpents.length
    · simp [Rs.unwrap, Rs.setIndex, hl, toGenClosing]
    · simp [Rs.unwrap, Rs.setIndex, hl, Rs.panic]

/-- `ClosingOutpoints::is_all_spent` = `Closing.isAllSpent` (our output absent or spent, every HTLC flag set, every
    second-level output spent) -/
theorem C14_fn_is_all_spent (c : Closing) : (toGenClosing c).is_all_spent = c.isAllSpent := by
  unfold Gen.FnMonitorC14.ClosingOutpoints.is_all_spent Closing.isAllSpent
  have h2 : (c.second.map toGenSecond).all (fun h => Gen.FnMonitorC14.SecondLevelHTLCOutput.is_spent h)
      = c.second.all (·.2) := by
    rw [List.all_map]; rfl
  have h1 : c.htlcSpents.all (fun b => b) = c.htlcSpents.all id := rfl
  simp only [toGenClosing, h1, h2]
  cases hc : c.our with
  | none => rfl
  | some p => cases p; rfl

/-- `add_second_level_htlc_output` = `Closing.addSecond` -/
theorem C14_fn_add_second (c : Closing) (op : OutPoint) :
    (toGenClosing c).add_second_level_htlc_output (toGenOp op) = toGenClosing (c.addSecond op) := by
  unfold Gen.FnMonitorC14.ClosingOutpoints.add_second_level_htlc_output Closing.addSecond toGenClosing
  simp only [List.map_append, List.map_cons, List.map_nil]
  rfl

/-- `ClosingOutpoints::includes_second_level_htlc_output` = `Closing.includesSecond` -/
theorem C14_fn_includes_second (c : Closing) (op : OutPoint) :
    (toGenClosing c).includes_second_level_htlc_output (toGenOp op) = c.includesSecond op := by
  unfold Gen.FnMonitorC14.ClosingOutpoints.includes_second_level_htlc_output Closing.includesSecond
  simp only [toGenClosing, List.any_map]
  congr 1; funext h; exact C14_fn_second_matches h op

/-- what `iter_mut().find(..)` locates, in the model's terms -/
theorem setFirst_spec (op : OutPoint) (b : Bool) : ∀ l : List (OutPoint × Bool),
    match (l.map toGenSecond).findIdx? (fun h => h.matches_outpoint (toGenOp op)) with
    | none => setFirst op b l = none
    | some i => ∃ h, l[i]? = some h ∧ setFirst op b l = some (l.set i (h.1, b)) := by
  intro l
  induction l with
  | nil => simp [setFirst]
  | cons h t ih =>
    simp only [List.map_cons, List.findIdx?_cons, C14_fn_second_matches]
    by_cases hm : h.1 = op
    · simp [hm, setFirst]
    · have hb : (h.1 == op) = false := by simpa using hm
      simp only [hb, Bool.false_eq_true, if_false]
      cases hf : (t.map toGenSecond).findIdx? (fun h => h.matches_outpoint (toGenOp op)) with
      | none =>
        rw [hf] at ih
        simp [setFirst, hm, ih]
      | some i =>
        rw [hf] at ih
        obtain ⟨x, hx, hs⟩ := ih
        simp only [Option.map_some]
        exact ⟨x, by simpa using hx, by simp [setFirst, hm, hs]⟩

/-- `set_second_level_htlc_spent` = `Closing.setSecondSpent`, including `.expect("second-level HTLC outpoint")` -/
theorem C14_fn_set_second_spent (c : Closing) (op : OutPoint) (b : Bool) :
    (toGenClosing c).set_second_level_htlc_spent (toGenOp op) b = ofOpt toGenClosing (c.setSecondSpent op b) := by
  unfold Gen.FnMonitorC14.ClosingOutpoints.set_second_level_htlc_spent Closing.setSecondSpent
  simp only [toGenClosing]
  have sp := setFirst_spec op b c.second
  cases hf : (c.second.map toGenSecond).findIdx? (fun h => h.matches_outpoint (toGenOp op)) with
  | none =>
    rw [hf] at sp
    simp [Rs.unwrap, Rs.panic, sp]
  | some i =>
    rw [hf] at sp
    obtain ⟨x, hx, hs⟩ := sp
    have hlt : i < c.second.length := by
      rcases Nat.lt_or_ge i c.second.length with h | h
      · exact h
      · rw [List.getElem?_eq_none_iff.mpr h] at hx; cases hx
    have hget : (c.second.map toGenSecond)[i]? = some (toGenSecond x) := by
      rw [List.getElem?_map, hx]; rfl
    simp only [Rs.unwrap, Rs.pure_eq, Rs.bind_ok, Rs.index, hget, Rs.setIndex, List.length_map, hlt, if_true, hs,
      Option.map_some, ofOpt_some, C14_fn_second_set_spent]
    congr 2
    rw [List.map_set]

/-- `remove_second_level_htlc_output` = `Closing.removeSecond` -/
theorem C14_fn_remove_second (c : Closing) (op : OutPoint) :
    (toGenClosing c).remove_second_level_htlc_output (toGenOp op) = toGenClosing (c.removeSecond op) := by
  unfold Gen.FnMonitorC14.ClosingOutpoints.remove_second_level_htlc_output Closing.removeSecond toGenClosing
  simp only [List.filter_map]
  congr 2
  apply List.filter_congr
  intro h _
  simp only [Function.comp, C14_fn_second_matches]
  by_cases hm : h.1 = op <;> simp [hm]

/-! ### State: the swept predicates -/

/-- `State::is_closing_swept` = `State.isClosingSwept` -/
theorem C14_fn_is_closing_swept (s : Monitor.State) : (toGen s).is_closing_swept = s.isClosingSwept := by
  unfold Gen.FnMonitorC14.State.is_closing_swept State.isClosingSwept
  cases hc : s.closing with
  | none => simp [toGen, hc]
  | some c => simp [toGen, hc, C14_fn_is_all_spent]

/-- `State::is_our_output_swept` = `State.isOurSwept` -/
theorem C14_fn_is_our_output_swept (s : Monitor.State) : (toGen s).is_our_output_swept = s.isOurSwept := by
  unfold Gen.FnMonitorC14.State.is_our_output_swept State.isOurSwept
  cases hc : s.closing with
  | none => simp [toGen, hc]
  | some c =>
    cases ho : c.our with
    | none => simp [toGen, hc, toGenClosing, ho]
    | some p => cases p; simp [toGen, hc, toGenClosing, ho]

/-! ### State: apply_forward_change / apply_backward_change -/

/-- the result of a change function: new state, `adds` and `removes` extended by the model's deltas -/
def outD (A R : List GOp) (d : Delta) : GState × List GOp × List GOp :=
  (toGen d.1, A ++ d.2.1.map toGenOp, R ++ d.2.2.map toGenOp)

/-- the three setters keep the closing transaction's id -/
theorem setOurSpent_txid {c c' : Closing} {v : Nat} {b : Bool} (h : c.setOurSpent v b = some c') :
    c'.txid = c.txid := by
  unfold Closing.setOurSpent at h
  split at h
  · cases h
  · split at h
    · cases h; rfl
    · cases h

theorem setHtlcSpent_txid {c c' : Closing} {v : Nat} {b : Bool} (h : c.setHtlcSpent v b = some c') :
    c'.txid = c.txid := by
  unfold Closing.setHtlcSpent at h
  split at h
  · cases h
  · split at h
    · cases h; rfl
    · cases h

/-- **`State::apply_forward_change` = `Monitor.applyForward`**, arm by arm, including every `unwrap`/`assert`/index
    panic of the closing-outpoint setters -/
theorem C14_fn_apply_forward (s : Monitor.State) (c : Change) (A R : List GOp) :
    (toGen s).apply_forward_change A R (toGenChange c) = ofOpt (outD A R) (applyForward s c) := by
  cases c with
  | fundingConfirmed op =>
    simp [Gen.FnMonitorC14.State.apply_forward_change, toGenChange, applyForward, outD, toGen]
  | fundingInputSpent op =>
    simp [Gen.FnMonitorC14.State.apply_forward_change, toGenChange, applyForward, outD, toGen]
  | unilateral txid fo our htlcs =>
    cases our <;>
      simp [Gen.FnMonitorC14.State.apply_forward_change, toGenChange, applyForward, outD, toGen, foldl_adds,
        ourHtlcOutpoints, C14_fn_closing_new, toGenOp, flatten_adds]
  | «mutual» txid fo =>
    simp [Gen.FnMonitorC14.State.apply_forward_change, toGenChange, applyForward, outD, toGen]
  | ourSpent vout =>
    simp only [Gen.FnMonitorC14.State.apply_forward_change, toGenChange, applyForward, toGen]
    cases hc : s.closing with
    | none => simp [Rs.unwrap, Rs.panic]
    | some cl =>
      simp only [Option.map_some, Rs.unwrap, Rs.pure_eq, Rs.bind_ok, C14_fn_set_our_spent]
      cases hm : cl.setOurSpent vout true with
      | none => simp
      | some cl' => simp [outD, toGen, toGenClosing, toGenOp, setOurSpent_txid hm]
  | htlcSpent vout sl =>
    simp only [Gen.FnMonitorC14.State.apply_forward_change, toGenChange, applyForward, toGen]
    cases hc : s.closing with
    | none => simp [Rs.unwrap, Rs.panic]
    | some cl =>
      simp only [Option.map_some, Rs.unwrap, Rs.pure_eq, Rs.bind_ok, C14_fn_set_htlc_spent]
      cases hm : cl.setHtlcSpent vout true with
      | none => simp
      | some cl' =>
        simp only [ofOpt_some, Rs.bind_ok, Rs.pure_eq, C14_fn_add_second]
        simp [outD, toGen, toGenClosing, toGenOp, setHtlcSpent_txid hm, Closing.addSecond]
  | secondSpent op =>
    simp only [Gen.FnMonitorC14.State.apply_forward_change, toGenChange, applyForward, toGen]
    cases hc : s.closing with
    | none => simp [Rs.unwrap, Rs.panic]
    | some cl =>
      simp only [Option.map_some, Rs.unwrap, Rs.pure_eq, Rs.bind_ok, C14_fn_set_second_spent]
      cases hm : cl.setSecondSpent op true with
      | none => simp
      | some cl' => simp [outD, toGen]

/-- **`State::apply_backward_change` = `Monitor.applyBackward`** (with the tolerant undo of a funding confirmation the
    monitor never recorded: `Gen.Chain.fundingUndoTolerant`, read from the same source) -/
theorem C14_fn_apply_backward (s : Monitor.State) (c : Change) (A R : List GOp) :
    (toGen s).apply_backward_change A R (toGenChange c) = ofOpt (outD A R) (applyBackward s c) := by
  cases c with
  | fundingConfirmed op =>
    simp only [Gen.FnMonitorC14.State.apply_backward_change, toGenChange, applyBackward, toGen]
    have ht : VlsModel.Gen.Chain.fundingUndoTolerant = true := rfl
    by_cases h1 : s.fundingHeight = some s.height
    · simp [h1, outD, Rs.assert, toGen]
    · by_cases h2 : s.fundingHeight = none
      · simp [h2, ht, outD, toGen]
      · have h3 : s.fundingHeight.isSome = true := by
          cases hh : s.fundingHeight with
          | none => exact absurd hh h2
          | some _ => rfl
        have h4 : s.fundingHeight.isNone = false := by
          cases hh : s.fundingHeight with
          | none => exact absurd hh h2
          | some _ => rfl
        have h5 : (s.fundingHeight == some s.height) = false := by simpa using h1
        simp [h1, h3, h4, h5, ht, Rs.assert, Rs.panic]
  | fundingInputSpent op =>
    simp only [Gen.FnMonitorC14.State.apply_backward_change, toGenChange, applyBackward, ofOpt_some, outD, Rs.pure_eq,
      toGen]
    by_cases h1 : s.dsHeight = some s.height
    · simp [h1]
    · have h5 : (s.dsHeight == some s.height) = false := by simpa using h1
      simp [h1, h5]
  | unilateral txid fo our htlcs =>
    simp only [Gen.FnMonitorC14.State.apply_backward_change, toGenChange, applyBackward, toGen]
    by_cases h1 : s.uniHeight = some s.height
    · cases our <;> simp [h1, Rs.assert, outD, toGen, foldl_adds, ourHtlcOutpoints, toGenOp, flatten_adds]
    · have h5 : (s.uniHeight == some s.height) = false := by simpa using h1
      simp [h1, h5, Rs.assert, Rs.panic]
  | «mutual» txid fo =>
    simp [Gen.FnMonitorC14.State.apply_backward_change, toGenChange, applyBackward, outD, toGen]
  | ourSpent vout =>
    simp only [Gen.FnMonitorC14.State.apply_backward_change, toGenChange, applyBackward, toGen]
    cases hc : s.closing with
    | none => simp [Rs.unwrap, Rs.panic]
    | some cl =>
      simp only [Option.map_some, Rs.unwrap, Rs.pure_eq, Rs.bind_ok, C14_fn_set_our_spent]
      cases hm : cl.setOurSpent vout false with
      | none => simp
      | some cl' => simp [outD, toGen, toGenClosing, toGenOp, setOurSpent_txid hm]
  | htlcSpent vout sl =>
    simp only [Gen.FnMonitorC14.State.apply_backward_change, toGenChange, applyBackward, toGen]
    cases hc : s.closing with
    | none => simp [Rs.unwrap, Rs.panic]
    | some cl =>
      simp only [Option.map_some, Rs.unwrap, Rs.pure_eq, Rs.bind_ok, C14_fn_set_htlc_spent]
      cases hm : cl.setHtlcSpent vout false with
      | none => simp
      | some cl' =>
        simp only [ofOpt_some, Rs.bind_ok, Rs.pure_eq, C14_fn_remove_second]
        simp [outD, toGen, toGenClosing, toGenOp, setHtlcSpent_txid hm, Closing.removeSecond]
  | secondSpent op =>
    simp only [Gen.FnMonitorC14.State.apply_backward_change, toGenChange, applyBackward, toGen]
    cases hc : s.closing with
    | none => simp [Rs.unwrap, Rs.panic]
    | some cl =>
      simp only [Option.map_some, Rs.unwrap, Rs.pure_eq, Rs.bind_ok, C14_fn_set_second_spent]
      cases hm : cl.setSecondSpent op false with
      | none => simp
      | some cl' => simp [outD, toGen]

/-! ### State: on_add_block_end / on_remove_block_end -/

/-- generated `BlockDecodeState` with `BlockHash = Txid = Nat`, `Version = Int`, `LockTime = TxOut = Unit` -/
abbrev GDS := Gen.FnMonitorC14.BlockDecodeState Nat Nat GSet Int Unit Unit
abbrev GTx := Gen.FnMonitorC14.Transaction Int Unit Nat Unit

/-- the per-block part of the decode state (changes, block hash, temporary copy); the per-transaction scratch is at
    its start-of-transaction values (`on_transaction_start`) -/
def toGenDS (bh : Nat) (cs : List Change) (t : Monitor.State := default) : GDS :=
  { changes := cs.map toGenChange, version := 0, input_num := 0, output_num := 0, closing_tx := none,
    spent_htlc_outputs := [], block_hash := some bh, state := toGen t }

/-- the `for change in decode_state.changes.drain(..)` loop = `Monitor.applyAll` -/
theorem foldlM_changes (g : Monitor.State → Change → Option Delta)
    (f : GState × List GOp × List GOp → GChange → Rs.M (GState × List GOp × List GOp))
    (hf : ∀ s A R c, f (toGen s, A, R) (toGenChange c) = ofOpt (outD A R) (g s c)) :
    ∀ (cs : List Change) (s : Monitor.State) (A R : List GOp),
      List.foldlM f (toGen s, A, R) (cs.map toGenChange) = ofOpt (outD A R) (applyAll g s cs) := by
  intro cs
  induction cs with
  | nil => intro s A R; simp [applyAll, outD, List.foldlM]
  | cons c cs ih =>
    intro s A R
    simp only [List.map_cons, List.foldlM_cons, hf, applyAll]
    cases h1 : g s c with
    | none => rfl
    | some d =>
      obtain ⟨s1, a1, r1⟩ := d
      simp only [ofOpt_some, outD, Rs.bind_ok]
      rw [ih]
      cases h2 : applyAll g s1 cs with
      | none => rfl
      | some d2 =>
        obtain ⟨s2, a2, r2⟩ := d2
        simp [outD, List.map_append, List.append_assoc]

/-- `is_done` (called by `on_add_block_end` for a log line only) does not fail below the `u32` limit -/
theorem is_done_ok (g : GState) (h : g.height + 1 ≤ Rs.U32_MAX) : ∃ b, g.is_done = .ok b := by
  have hd : ∀ o, g.depth_of o = .ok (Rs.usatSub (g.height + 1) (o.getD (g.height + 1))) := by
    intro o; simp [Gen.FnMonitorC14.State.depth_of, Rs.uadd, h]
  have he : ∀ o l, ∃ b, g.deep_enough_and_saw_node_forget o l = .ok b := by
    intro o l
    unfold Gen.FnMonitorC14.State.deep_enough_and_saw_node_forget
    rw [hd]
    simp only [Rs.bind_ok]
    split
    · exact ⟨_, rfl⟩
    · split <;> exact ⟨_, rfl⟩
  unfold Gen.FnMonitorC14.State.is_done
  obtain ⟨b1, h1⟩ := he g.funding_double_spent_height 100
  obtain ⟨b2, h2⟩ := he g.mutual_closing_height 100
  obtain ⟨b3, h3⟩ := he g.closing_swept_height 100
  rw [h1]; simp only [Rs.bind_ok]
  cases b1
  · rw [h2]; simp only [Rs.bind_ok]
    cases b2
    · rw [h3]; simp only [Rs.bind_ok]
      cases b3 <;> exact ⟨_, rfl⟩
    · exact ⟨_, rfl⟩
  · exact ⟨_, rfl⟩

/-- result of a block-end function: new state, the drained decode state, the pair `(adds, removes)` -/
def outE (bh : Nat) (t : Monitor.State) (d : Delta) :
    GState × GDS × (List GOp × List GOp) :=
  (toGen d.1, toGenDS bh [] t, (d.2.1.map toGenOp, d.2.2.map toGenOp))

/-- **`State::on_add_block_end` = `Monitor.addEnd`** for heights below `u32::MAX - 1` (the code does `height += 1`
    and evaluates `height + 1` again inside `is_done`; the model has no `u32` overflow) -/
theorem C14_fn_on_add_block_end (s t : Monitor.State) (cs : List Change) (bh : Nat)
    (hh : s.height + 2 ≤ Rs.U32_MAX) :
    (toGen s).on_add_block_end bh (toGenDS bh cs t) = ofOpt (outE bh t) (addEnd s cs) := by
  unfold Gen.FnMonitorC14.State.on_add_block_end addEnd
  have h1 : s.height + 1 ≤ Rs.U32_MAX := by omega
  simp only [toGenDS, beq_self_eq_true, Rs.assert, if_true, Rs.pure_eq, Rs.bind_ok]
  have hu : Rs.uadd Rs.U32_MAX (toGen s).height 1 = .ok (s.height + 1) := by
    simp [Rs.uadd, toGen, h1]
  rw [hu]
  simp only [Rs.bind_ok]
  have hs1 : ({ ({ toGen s with saw_block := true } : GState) with height := s.height + 1 } : GState)
      = toGen { s with sawBlock := true, height := s.height + 1 } := rfl
  rw [hs1]
  simp only [C14_fn_is_closing_swept, C14_fn_is_our_output_swept]
  rw [foldlM_changes applyForward]
  rotate_left
  · intro s A R c
    simp only [C14_fn_apply_forward]
    cases applyForward s c <;> rfl
  cases ha : applyAll applyForward { s with sawBlock := true, height := s.height + 1 } cs with
  | none => rfl
  | some d =>
    obtain ⟨s2, a, r⟩ := d
    have hht : s2.height = s.height + 1 := applyAll_height applyForward (fun e => applyForward_height e) cs ha
    simp only [ofOpt_some, outD, List.nil_append, Rs.bind_ok, C14_fn_is_closing_swept, C14_fn_is_our_output_swept]
    -- the two swept-height updates commute with `toGen`
    have e3 : (if (!State.isClosingSwept { s with sawBlock := true, height := s.height + 1 } && s2.isClosingSwept) = true
               then ({ toGen s2 with closing_swept_height := some (toGen s2).height } : GState) else toGen s2)
        = toGen (if (!State.isClosingSwept { s with sawBlock := true, height := s.height + 1 } && s2.isClosingSwept) = true
                 then { s2 with closingSweptHeight := some s2.height } else s2) := by
      split <;> rfl
    rw [e3]
    generalize hs3 : (if (!State.isClosingSwept { s with sawBlock := true, height := s.height + 1 } && s2.isClosingSwept) = true
                 then { s2 with closingSweptHeight := some s2.height } else s2) = s3
    have hh3 : s3.height = s.height + 1 := by rw [← hs3]; split <;> exact hht
    -- the code evaluates `is_our_output_swept` before it writes `closing_swept_height`, the model after: same value
    have ho3 : s3.isOurSwept = s2.isOurSwept := by rw [← hs3]; split <;> rfl
    simp only [ho3]
    have e4 : (if (!State.isOurSwept { s with sawBlock := true, height := s.height + 1 } && s2.isOurSwept) = true
               then ({ toGen s3 with our_output_swept_height := some (toGen s3).height } : GState) else toGen s3)
        = toGen (if (!State.isOurSwept { s with sawBlock := true, height := s.height + 1 } && s2.isOurSwept) = true
                 then { s3 with ourSweptHeight := some s3.height } else s3) := by
      split <;> rfl
    rw [e4]
    generalize hs4 : (if (!State.isOurSwept { s with sawBlock := true, height := s.height + 1 } && s2.isOurSwept) = true
                 then { s3 with ourSweptHeight := some s3.height } else s3) = s4
    have hh4 : s4.height = s.height + 1 := by rw [← hs4]; split <;> exact hh3
    obtain ⟨b, hb⟩ := is_done_ok (toGen s4) (by show s4.height + 1 ≤ Rs.U32_MAX; omega)
    rw [hb]
    simp only [Rs.bind_ok]
    cases b <;> simp [outE, toGenDS, ← hs4, ← hs3]

/-- **`State::on_remove_block_end` = `Monitor.removeEnd`** (backward changes in reverse order, swept heights cleared,
    `height -= 1`) for a monitor above height 0 -/
theorem C14_fn_on_remove_block_end (s t : Monitor.State) (cs : List Change) (bh : Nat) (hp : 0 < s.height) :
    (toGen s).on_remove_block_end bh (toGenDS bh cs t) = ofOpt (outE bh t) (removeEnd s cs) := by
  unfold Gen.FnMonitorC14.State.on_remove_block_end removeEnd
  simp only [toGenDS, beq_self_eq_true, Rs.assert, if_true, Rs.pure_eq, Rs.bind_ok]
  simp only [C14_fn_is_closing_swept, C14_fn_is_our_output_swept, ← List.map_reverse]
  rw [foldlM_changes applyBackward]
  rotate_left
  · intro s A R c
    simp only [C14_fn_apply_backward]
    cases applyBackward s c <;> rfl
  cases ha : applyAll applyBackward s cs.reverse with
  | none => rfl
  | some d =>
    obtain ⟨s2, a, r⟩ := d
    have hht : s2.height = s.height := applyAll_height applyBackward (fun e => applyBackward_height e) cs.reverse ha
    simp only [ofOpt_some, outD, List.nil_append, Rs.bind_ok, C14_fn_is_closing_swept, C14_fn_is_our_output_swept]
    have e3 : (if (s.isClosingSwept && !s2.isClosingSwept) = true
               then ({ toGen s2 with closing_swept_height := none } : GState) else toGen s2)
        = toGen (if (s.isClosingSwept && !s2.isClosingSwept) = true
                 then { s2 with closingSweptHeight := none } else s2) := by
      split <;> rfl
    rw [e3]
    generalize hs3 : (if (s.isClosingSwept && !s2.isClosingSwept) = true
                 then { s2 with closingSweptHeight := none } else s2) = s3
    have hh3 : s3.height = s.height := by rw [← hs3]; split <;> exact hht
    have ho3 : s3.isOurSwept = s2.isOurSwept := by rw [← hs3]; split <;> rfl
    simp only [ho3]
    have e4 : (if (s.isOurSwept && !s2.isOurSwept) = true
               then ({ toGen s3 with our_output_swept_height := none } : GState) else toGen s3)
        = toGen (if (s.isOurSwept && !s2.isOurSwept) = true
                 then { s3 with ourSweptHeight := none } else s3) := by
      split <;> rfl
    rw [e4]
    generalize hs4 : (if (s.isOurSwept && !s2.isOurSwept) = true
                 then { s3 with ourSweptHeight := none } else s3) = s4
    have hh4 : s4.height = s.height := by rw [← hs4]; split <;> exact hh3
    have hne : ¬ s4.height = 0 := by omega
    have hu : Rs.usub (toGen s4).height 1 = .ok (s4.height - 1) := by
      have h1le : 1 ≤ s4.height := by omega
      show Rs.usub s4.height 1 = _
      unfold Rs.usub; rw [if_pos h1le]; rfl
    rw [hu]
    simp [hne, outE, toGenDS, toGen]

/-- at height 0 the model reports a panic; the code's `self.height -= 1` underflows (panic in an overflow-checked
    build, wrap to `u32::MAX` in a release build) -/
theorem C14_fn_on_remove_block_end_height0 (s : Monitor.State) (cs : List Change) (hz : s.height = 0) :
    removeEnd s cs = none := by
  unfold removeEnd
  simp only
  cases ha : applyAll applyBackward s cs.reverse with
  | none => rfl
  | some d =>
    obtain ⟨s2, a, r⟩ := d
    have hht : s2.height = s.height := applyAll_height applyBackward (fun e => applyBackward_height e) cs.reverse ha
    simp only
    have : ∀ (b1 b2 : Bool), (if b2 = true then
        { (if b1 = true then { s2 with closingSweptHeight := none } else s2) with ourSweptHeight := none }
        else (if b1 = true then { s2 with closingSweptHeight := none } else s2)).height = 0 := by
      intro b1 b2; split <;> split <;> simp [hht, hz]
    rw [if_pos (this _ _)]

/-- **`BlockDecodeState::add_change` = `Scratch.addChange`**: the change is appended to the block's change list and
    applied at once to the temporary copy of the state (so that a close and its sweep in one block are seen); an
    inapplicable change panics -/
theorem C14_fn_add_change (d : Scratch) (bh : Nat) (c : Change) :
    (toGenDS bh d.changes d.t).add_change (toGenChange c)
      = ofOpt (fun d' : Scratch => toGenDS bh d'.changes d'.t) (d.addChange c) := by
  unfold Gen.FnMonitorC14.BlockDecodeState.add_change Scratch.addChange
  simp only [toGenDS, C14_fn_apply_forward]
  cases h : applyForward d.t c with
  | none => rfl
  | some r =>
    obtain ⟨t', a, rr⟩ := r
    simp [outD, toGenDS]

/-! ### The views: `ChainMonitor::{funding_depth, funding_double_spent_depth, closing_depth}`, `ChainMonitorBase::as_chain_state`

Public accessors, translated in their own area (`Gen/FnMonitorView.lean`, targets
`translate/fn_targets/MonitorView.b1315.json`; `ChainState` is the struct of `policy/validator.rs`).  `get_state()`
(= `self.state.lock().expect("lock")`) is the identity on the protected value. -/

/-- the five fields of `monitor::State` the accessors read -/
def toGenV (s : Monitor.State) : Gen.FnMonitorView.State :=
  { height := s.height, funding_height := s.fundingHeight, funding_double_spent_height := s.dsHeight,
    mutual_closing_height := s.mutualHeight, unilateral_closing_height := s.uniHeight }

theorem view_depth_of (s : Monitor.State) (o : Option Nat) (hh : s.height < Rs.U32_MAX) :
    (toGenV s).depth_of o = .ok (s.depthOf o) := by
  have h1 : s.height + 1 ≤ Rs.U32_MAX := hh
  simp [Gen.FnMonitorView.State.depth_of, toGenV, Rs.uadd, h1, State.depthOf, Rs.usatSub]

/-- `ChainMonitor::funding_depth` = `State.fundingDepth` -/
theorem C14_fn_funding_depth (s : Monitor.State) (hh : s.height < Rs.U32_MAX) :
    (Gen.FnMonitorView.ChainMonitor.mk (toGenV s)).funding_depth = .ok s.fundingDepth := by
  unfold Gen.FnMonitorView.ChainMonitor.funding_depth Gen.FnMonitorView.ChainMonitor.get_state
  simp only [view_depth_of s _ hh, Rs.bind_ok, Rs.pure_eq]
  rfl

/-- `ChainMonitor::funding_double_spent_depth` = `State.dsDepth` -/
theorem C14_fn_ds_depth (s : Monitor.State) (hh : s.height < Rs.U32_MAX) :
    (Gen.FnMonitorView.ChainMonitor.mk (toGenV s)).funding_double_spent_depth = .ok s.dsDepth := by
  unfold Gen.FnMonitorView.ChainMonitor.funding_double_spent_depth Gen.FnMonitorView.ChainMonitor.get_state
  simp only [view_depth_of s _ hh, Rs.bind_ok, Rs.pure_eq]
  rfl

/-- `ChainMonitor::closing_depth` = `State.closingDepth` (`unilateral.or(mutual)`) -/
theorem C14_fn_closing_depth (s : Monitor.State) (hh : s.height < Rs.U32_MAX) :
    (Gen.FnMonitorView.ChainMonitor.mk (toGenV s)).closing_depth = .ok s.closingDepth := by
  unfold Gen.FnMonitorView.ChainMonitor.closing_depth Gen.FnMonitorView.ChainMonitor.get_state
  simp only [view_depth_of s _ hh, Rs.bind_ok, Rs.pure_eq]
  unfold State.closingDepth orOpt
  simp only [toGenV]
  cases s.uniHeight <;> rfl

/-- **`ChainMonitorBase::as_chain_state` = `State.chainState`**: the same four numbers, and the code's plain `u32`
    subtraction underflows (panic in an overflow-checked build, a wrapped depth of about 2^32 in a release build)
    exactly where the model says `none` -/
theorem C14_fn_as_chain_state (s : Monitor.State) (hh : s.height < Rs.U32_MAX) :
    (Gen.FnMonitorView.ChainMonitorBase.mk (toGenV s)).as_chain_state =
      (match s.chainState with
       | some c => .ok { current_height := c.currentHeight, funding_depth := c.fundingDepth,
                         funding_double_spent_depth := c.dsDepth, closing_depth := c.closingDepth }
       | none => .error .overflow) := by
  have h1 : s.height + 1 ≤ Rs.U32_MAX := hh
  unfold Gen.FnMonitorView.ChainMonitorBase.as_chain_state Gen.FnMonitorView.ChainMonitorBase.get_state
    State.chainState
  simp only [toGenV]
  have hu1 : Rs.uadd Rs.U32_MAX s.height 1 = .ok (s.height + 1) := by simp [Rs.uadd, h1]
  cases hf : s.fundingHeight <;> cases hd : s.dsHeight <;> cases hm : s.mutualHeight <;> cases hu : s.uniHeight <;>
    simp only [State.plainDepth, orOpt, hu1, Rs.bind_ok, Rs.pure_eq, Option.or, Option.getD_some, Option.getD_none,
      Rs.usub] <;>
    (repeat' split) <;> simp_all [Rs.overflow] <;> (try subst_vars) <;> (try exact ⟨rfl, rfl, rfl, rfl⟩)

/-! Non-vacuity: both outcomes occur on concrete inputs. -/

/-- a closing with nothing of ours in it counts as swept at once (the code's `unwrap_or(true)` + `all` on empty lists) -/
example : (toGenClosing (Closing.new 7 none [])).is_all_spent = true := by decide

/-- one unspent second-level output keeps the closing un-swept although our output and the HTLC are spent -/
example : (toGenClosing { txid := 7, our := some (0, true), htlcOutputs := [1], htlcSpents := [true],
                          second := [((9, 0), false)] }).is_all_spent = false := by decide

/-- `OurOutputSpent` on a state without closing outpoints: the code's `unwrap` panics, and so does the model -/
example : (toGen (State.init 5 7 0 [])).apply_forward_change [] [] (toGenChange (.ourSpent 0)) = .error .panic := by
  rw [C14_fn_apply_forward]; rfl


/-! ### The streamed-block entry points of the listener: `ChainMonitor::{on_add_streamed_block_end,
on_remove_streamed_block_end, on_streamed_block_abort}`

`self.get_state()` is inlined (declared normalisation), `self.decode_state.lock().expect("lock")` is the identity on the
protected `Option<BlockDecodeState>`. -/

abbrev GMon := Gen.FnMonitorC14.ChainMonitor Nat GSet Nat Int Unit Unit

/-- `on_streamed_block_abort` drops the per-block decode state and touches nothing else -/
theorem C14_fn_streamed_abort (m : GMon) :
    m.on_streamed_block_abort = { m with decode_state := none } := rfl

/-- **the decode state never survives the end of a streamed block**: whatever `on_add_streamed_block_end` returns
    (also when the monitor "is not ready yet"), the monitor holds no `BlockDecodeState` afterwards — the next streamed
    block starts from a fresh copy of the state (`on_push`: `get_or_insert_with(BlockDecodeState::new)`). -/
theorem C14_fn_add_streamed_end_clears (m : GMon) (bh : Nat) (r : GMon × (List GOp × List GOp))
    (h : m.on_add_streamed_block_end bh = .ok r) : r.1.decode_state = none := by
  unfold Gen.FnMonitorC14.ChainMonitor.on_add_streamed_block_end at h
  simp only [] at h
  split at h
  · cases h; rfl
  · cases hd : m.decode_state with
    | none => simp [hd, Rs.unwrap, Rs.panic, Rs.bind_err] at h
    | some ds =>
      simp only [hd, Rs.unwrap, Rs.bind_ok, Rs.pure_eq] at h
      cases he : Gen.FnMonitorC14.State.on_add_block_end m.state bh ds with
      | error e => simp [he] at h
      | ok v =>
        obtain ⟨s3, m4, r5⟩ := v
        simp only [he, Rs.bind_ok] at h
        cases h; rfl

theorem C14_fn_remove_streamed_end_clears (m : GMon) (bh : Nat) (r : GMon × (List GOp × List GOp))
    (h : m.on_remove_streamed_block_end bh = .ok r) : r.1.decode_state = none := by
  unfold Gen.FnMonitorC14.ChainMonitor.on_remove_streamed_block_end at h
  simp only [] at h
  split at h
  · cases h; rfl
  · cases hd : m.decode_state with
    | none => simp [hd, Rs.unwrap, Rs.panic, Rs.bind_err] at h
    | some ds =>
      simp only [hd, Rs.unwrap, Rs.bind_ok, Rs.pure_eq] at h
      cases he : Gen.FnMonitorC14.State.on_remove_block_end m.state bh ds with
      | error e => simp [he] at h
      | ok v =>
        obtain ⟨s3, m4, r5⟩ := v
        simp only [he, Rs.bind_ok] at h
        cases h; rfl

/-- a monitor that has not seen a block start yet ignores the streamed block: no deltas, state unchanged -/
theorem C14_fn_streamed_end_not_ready (m : GMon) (bh : Nat) (hs : m.state.saw_block = false) :
    m.on_add_streamed_block_end bh = .ok ({ m with decode_state := none }, ([], [])) ∧
    m.on_remove_streamed_block_end bh = .ok ({ m with decode_state := none }, ([], [])) := by
  unfold Gen.FnMonitorC14.ChainMonitor.on_add_streamed_block_end
    Gen.FnMonitorC14.ChainMonitor.on_remove_streamed_block_end
  simp [hs]

/-- **`on_add_streamed_block_end` = `Monitor.addEnd`** on the changes the push listener gathered (`cs`, detected on the
    temporary copy `t`), for a monitor that has seen the block start; the result holds no decode state -/
theorem C14_fn_add_streamed_end (s t : Monitor.State) (cs : List Change) (bh : Nat)
    (hsb : s.sawBlock = true) (hh : s.height + 2 ≤ Rs.U32_MAX) :
    ({ state := toGen s, decode_state := some (toGenDS bh cs t) } : GMon).on_add_streamed_block_end bh
      = ofOpt (fun d : Delta => (({ state := toGen d.1, decode_state := none } : GMon),
                                 (d.2.1.map toGenOp, d.2.2.map toGenOp))) (addEnd s cs) := by
  unfold Gen.FnMonitorC14.ChainMonitor.on_add_streamed_block_end
  have hsb' : (toGen s).saw_block = true := hsb
  simp only [hsb', Bool.not_true, Bool.false_eq_true, if_false, Rs.unwrap, Rs.bind_ok, Rs.pure_eq,
    C14_fn_on_add_block_end s t cs bh hh]
  cases addEnd s cs with
  | none => rfl
  | some d => rfl

/-- **`on_remove_streamed_block_end` = `Monitor.removeEnd`** (monitor above height 0, block start seen) -/
theorem C14_fn_remove_streamed_end (s t : Monitor.State) (cs : List Change) (bh : Nat)
    (hsb : s.sawBlock = true) (hp : 0 < s.height) :
    ({ state := toGen s, decode_state := some (toGenDS bh cs t) } : GMon).on_remove_streamed_block_end bh
      = ofOpt (fun d : Delta => (({ state := toGen d.1, decode_state := none } : GMon),
                                 (d.2.1.map toGenOp, d.2.2.map toGenOp))) (removeEnd s cs) := by
  unfold Gen.FnMonitorC14.ChainMonitor.on_remove_streamed_block_end
  have hsb' : (toGen s).saw_block = true := hsb
  simp only [hsb', Bool.not_true, Bool.false_eq_true, if_false, Rs.unwrap, Rs.bind_ok, Rs.pure_eq,
    C14_fn_on_remove_block_end s t cs bh hp]
  cases removeEnd s cs with
  | none => rfl
  | some d => rfl

/-- a ready monitor without a decode state (no `on_push` before the end of the block) aborts: the `unwrap` -/
theorem C14_fn_streamed_end_no_decode_state (s : Monitor.State) (bh : Nat) (hsb : s.sawBlock = true) :
    ({ state := toGen s, decode_state := none } : GMon).on_add_streamed_block_end bh = .error .panic := by
  unfold Gen.FnMonitorC14.ChainMonitor.on_add_streamed_block_end
  have hsb' : (toGen s).saw_block = true := hsb
  simp [hsb', Rs.unwrap, Rs.panic]


/-! ### The push listener: `BlockDecodeState::{new, new_with_block_hash}`, `PushListener::{is_not_ready_for_push,
on_block_start, on_transaction_start, on_transaction_input, on_transaction_output}`

`Model.Scratch` is the part of `BlockDecodeState` the detection depends on: the temporary copy of the state, the changes
so far, the input counter, the single input of a closing transaction being gathered (`closing_tx`), the spent HTLC
outputs.  The transaction version and the gathered outputs only reach the commitment decoder (an input of the model:
`Tx.kind`), `output_num` only the two asserts of `on_transaction_output` / `on_transaction_end`.
`Set<OutPoint>::contains` is `List.contains`, `Version(i32)` the identity, `LockTime = TxOut = Unit`. -/

abbrev GPL := Gen.FnMonitorC14.PushListener Nat Nat GSet Int Unit Unit Unit

def toGenTxIn (i : OutPoint) : Gen.FnMonitorC14.TxIn Nat := { previous_output := toGenOp i }

/-- `closing_tx` while the inputs are pushed: version of the transaction, `LockTime::ZERO`, the one input, no output -/
def closingTx (ver : Int) (outs : List Unit) (i : OutPoint) : GTx :=
  { version := ver, lock_time := (), input := [toGenTxIn i], output := outs }

def toGenScratch (bh : Nat) (ver : Int) (d : Scratch) : GDS :=
  { changes := d.changes.map toGenChange, version := ver, input_num := d.inputNum, output_num := 0,
    closing_tx := d.closingIn.map (closingTx ver []), spent_htlc_outputs := d.spentHtlc, block_hash := some bh,
    state := toGen d.t }

def xContains (s : GSet) (o : GOp) : Bool := s.contains (o.txid, o.vout)

/-- `BlockDecodeState::new_with_block_hash(state, hash)` (compact proof) = the scratch `Monitor.onTx` starts a block
    with: no change yet, a copy of the state -/
theorem C14_fn_decode_state_new_with_hash (s : Monitor.State) (bh : Nat) :
    (Gen.FnMonitorC14.BlockDecodeState.new_with_block_hash (toGen s) bh : GDS)
      = toGenScratch bh 0 { t := s, changes := [], inputNum := 0, closingIn := none, spentHtlc := [] } := rfl

/-- `BlockDecodeState::new(state)` (streamed block, before `on_block_start`): the same without a block hash -/
theorem C14_fn_decode_state_new (s : Monitor.State) (bh : Nat) :
    ({ (Gen.FnMonitorC14.BlockDecodeState.new (toGen s) : GDS) with block_hash := some bh })
      = toGenScratch bh 0 { t := s, changes := [], inputNum := 0, closingIn := none, spentHtlc := [] } := rfl

/-- a listener that has seen the block start is ready; one that never saw a block is not (and must hold no hash) -/
theorem C14_fn_is_not_ready (ds : GDS) (sb : Bool) :
    Gen.FnMonitorC14.PushListener.is_not_ready_for_push ({ commitment_point_provider := (), decode_state := ds, saw_block := sb } : GPL)
      = if sb then (if ds.block_hash.isSome then .ok false else .error .panic)
        else (if ds.block_hash.isNone then .ok true else .error .panic) := by
  unfold Gen.FnMonitorC14.PushListener.is_not_ready_for_push
  cases sb <;> cases h : ds.block_hash <;> simp [Rs.assert, Rs.panic]

/-- `on_block_start`: at most once per decode state ("saw more than one on_block_start"), sets the hash and `saw_block` -/
theorem C14_fn_on_block_start (ds : GDS) (sb : Bool) (bh : Nat) :
    Gen.FnMonitorC14.PushListener.on_block_start (ext_BlockHeader_block_hash := fun (h : Nat) => h)
        ({ commitment_point_provider := (), decode_state := ds, saw_block := sb } : GPL) bh
      = if ds.block_hash.isNone then .ok { commitment_point_provider := (), decode_state := { ds with block_hash := some bh }, saw_block := true }
        else .error .panic := by
  unfold Gen.FnMonitorC14.PushListener.on_block_start
  cases h : ds.block_hash <;> simp [Rs.assert, Rs.panic]

/-- `on_transaction_start` resets the per-transaction scratch (`Monitor.onTx`'s `d0`) and keeps the per-block part -/
theorem C14_fn_on_transaction_start (bh : Nat) (ver ver' : Int) (d : Scratch) :
    Gen.FnMonitorC14.PushListener.on_transaction_start
        ({ commitment_point_provider := (), decode_state := { toGenScratch bh ver d with output_num := 7 }, saw_block := true } : GPL) ver'
      = .ok { commitment_point_provider := (), decode_state := toGenScratch bh ver'
                { t := d.t, changes := d.changes, inputNum := 0, closingIn := none, spentHtlc := [] },
              saw_block := true } := by
  unfold Gen.FnMonitorC14.PushListener.on_transaction_start
  simp [C14_fn_is_not_ready, toGenScratch]

/-- `add_change` on any scratch: the change is appended and applied to the temporary copy -/
theorem add_change_scratch (bh : Nat) (ver : Int) (d : Scratch) (c : Change) :
    (toGenScratch bh ver d).add_change (toGenChange c) = ofOpt (toGenScratch bh ver) (d.addChange c) := by
  unfold Gen.FnMonitorC14.BlockDecodeState.add_change Scratch.addChange
  simp only [toGenScratch, C14_fn_apply_forward]
  cases h : applyForward d.t c with
  | none => rfl
  | some r =>
    obtain ⟨t', a, rr⟩ := r
    simp [outD, toGenScratch]


def gOnInput (l : GPL) (i : OutPoint) : Rs.M GPL :=
  Gen.FnMonitorC14.PushListener.on_transaction_input (ext_Set_contains := xContains) (ext_version_of := fun v => v)
    (ext_locktime_zero := ()) l (toGenTxIn i)

def plOf (bh : Nat) (ver : Int) (d : Scratch) : GPL :=
  { commitment_point_provider := (), decode_state := toGenScratch bh ver d, saw_block := true }

@[simp] theorem sc_state (bh : Nat) (ver : Int) (d : Scratch) : (toGenScratch bh ver d).state = toGen d.t := rfl
@[simp] theorem sc_hash (bh : Nat) (ver : Int) (d : Scratch) : (toGenScratch bh ver d).block_hash = some bh := rfl

/-- `add_change` on a decode state in explicit form: only `changes` and the temporary copy move -/
theorem add_change_nf (cs : List Change) (ver : Int) (n o : Nat) (ctx : Option GTx) (sp : List (Nat × Nat))
    (bh : Option Nat) (t : Monitor.State) (c : Change) :
    Gen.FnMonitorC14.BlockDecodeState.add_change
        ({ changes := cs.map toGenChange, version := ver, input_num := n, output_num := o, closing_tx := ctx,
           spent_htlc_outputs := sp, block_hash := bh, state := toGen t } : GDS) (toGenChange c)
      = match applyForward t c with
        | none => .error .panic
        | some r => .ok { changes := (cs ++ [c]).map toGenChange, version := ver, input_num := n, output_num := o,
                          closing_tx := ctx, spent_htlc_outputs := sp, block_hash := bh, state := toGen r.1 } := by
  unfold Gen.FnMonitorC14.BlockDecodeState.add_change
  simp only [C14_fn_apply_forward]
  cases h : applyForward t c with
  | none => rfl
  | some r =>
    obtain ⟨t', a, rr⟩ := r
    simp [outD]

@[simp] theorem toGenOp_vout (o : OutPoint) : (toGenOp o).vout = o.2 := rfl

theorem add_change_our (cs : List Change) (ver : Int) (n o : Nat) (ctx : Option GTx) (sp : List (Nat × Nat))
    (bh : Option Nat) (t : Monitor.State) (v : Nat) :
    Gen.FnMonitorC14.BlockDecodeState.add_change
        ({ changes := cs.map toGenChange, version := ver, input_num := n, output_num := o, closing_tx := ctx,
           spent_htlc_outputs := sp, block_hash := bh, state := toGen t } : GDS)
        (Gen.FnMonitorC14.StateChange.OurOutputSpent v)
      = match applyForward t (.ourSpent v) with
        | none => .error .panic
        | some r => .ok { changes := (cs ++ [Change.ourSpent v]).map toGenChange, version := ver, input_num := n,
                          output_num := o, closing_tx := ctx, spent_htlc_outputs := sp, block_hash := bh,
                          state := toGen r.1 } :=
  add_change_nf cs ver n o ctx sp bh t (.ourSpent v)

theorem add_change_second (cs : List Change) (ver : Int) (n o : Nat) (ctx : Option GTx) (sp : List (Nat × Nat))
    (bh : Option Nat) (t : Monitor.State) (op : OutPoint) :
    Gen.FnMonitorC14.BlockDecodeState.add_change
        ({ changes := cs.map toGenChange, version := ver, input_num := n, output_num := o, closing_tx := ctx,
           spent_htlc_outputs := sp, block_hash := bh, state := toGen t } : GDS)
        (Gen.FnMonitorC14.StateChange.SecondLevelHTLCOutputSpent (toGenOp op))
      = match applyForward t (.secondSpent op) with
        | none => .error .panic
        | some r => .ok { changes := (cs ++ [Change.secondSpent op]).map toGenChange, version := ver, input_num := n,
                          output_num := o, closing_tx := ctx, spent_htlc_outputs := sp, block_hash := bh,
                          state := toGen r.1 } :=
  add_change_nf cs ver n o ctx sp bh t (.secondSpent op)

/-- **`PushListener::on_transaction_input` = `Monitor.onInput`**: a spent funding input (`FundingInputSpent`), the spend
    of the funding outpoint (a closing transaction starts being gathered), a spend of our output / an HTLC output /
    a second-level output of the recorded unilateral close, the "closing tx must have only one input" assert, the input
    counter — every detected change applied at once to the temporary copy. -/
theorem C14_fn_on_transaction_input (bh : Nat) (ver : Int) (d : Scratch) (i : OutPoint)
    (hn : d.inputNum + 1 ≤ Rs.U32_MAX) :
    gOnInput (plOf bh ver d) i = ofOpt (plOf bh ver) (onInput d i) := by
  have hBnf : ∀ t : Monitor.State, ((some (toGenOp i) : Option GOp) == (toGen t).funding_outpoint)
      = decide (some i = t.fundingOutpoint) := by
    intro t
    show ((some (toGenOp i) : Option GOp) == t.fundingOutpoint.map toGenOp) = _
    cases hfo : t.fundingOutpoint with
    | none => simp
    | some o =>
      by_cases e : i = o
      · subst e; simp
      · have e2 : toGenOp i ≠ toGenOp o := fun h => e (toGenOp_inj h)
        simp [e, e2]
  have hcl : ∀ t : Monitor.State, (toGen t).closing_outpoints = t.closing.map toGenClosing := fun _ => rfl
  have hA : xContains (toGen d.t).funding_inputs (toGenOp i) = d.t.fundingInputs.contains i := rfl
  have h1 : 1 ≤ Rs.U32_MAX := by decide
  unfold gOnInput Gen.FnMonitorC14.PushListener.on_transaction_input onInput Scratch.addChange
  simp only [plOf, toGenScratch, C14_fn_is_not_ready, toGenTxIn, Option.isSome_some, if_true, Rs.bind_ok,
    Bool.false_eq_true, if_false, hA]
  cases hf : d.t.fundingInputs.contains i
  · simp only [Bool.false_eq_true, if_false, Rs.pure_eq, Rs.bind_ok, Option.bind_eq_bind, Option.bind_some]
    simp only [hBnf]
    by_cases e : some i = d.t.fundingOutpoint
    · have hdec : decide (some i = d.t.fundingOutpoint) = true := decide_eq_true e
      simp only [hdec, if_true, if_pos e]
      cases hc : d.t.closing with
      | none =>
        simp only [hcl, hc, Option.map_some, Option.map_none, C14_fn_includes_our, C14_fn_includes_htlc, C14_fn_includes_second, Bool.not_true, Bool.not_false, Bool.false_and, Bool.true_and, Bool.false_eq_true, if_false, if_true, Rs.bind_ok, Rs.pure_eq, Option.bind_eq_bind, Option.bind_some, add_change_our, add_change_second, toGenOp_vout]
        (cases hci : d.closingIn <;> by_cases hz : d.inputNum = 0 <;> simp [hci, hz, hn, h1, Rs.assert, Rs.uadd, Rs.panic, ofOpt, closingTx, toGenTxIn, plOf, toGenScratch])
      | some c =>
        rcases Bool.eq_false_or_eq_true (c.includesOur i) with ho | ho
        · simp only [hcl, hc, Option.map_some, Option.map_none, C14_fn_includes_our, C14_fn_includes_htlc, C14_fn_includes_second, Bool.not_true, Bool.not_false, Bool.false_and, Bool.true_and, Bool.false_eq_true, if_false, if_true, Rs.bind_ok, Rs.pure_eq, Option.bind_eq_bind, Option.bind_some, add_change_our, add_change_second, toGenOp_vout, ho]
          cases hap2 : applyForward d.t (.ourSpent i.2) with
          | none => simp [ofOpt]
          | some r2 =>
            obtain ⟨t2, a2, r2'⟩ := r2
            simp only [Rs.bind_ok, Option.map_some, Option.bind_some]
            (cases hci : d.closingIn <;> by_cases hz : d.inputNum = 0 <;> simp [hci, hz, hn, h1, Rs.assert, Rs.uadd, Rs.panic, ofOpt, closingTx, toGenTxIn, plOf, toGenScratch])
        · rcases Bool.eq_false_or_eq_true (c.includesHtlc i) with hh | hh
          · simp only [hcl, hc, Option.map_some, Option.map_none, C14_fn_includes_our, C14_fn_includes_htlc, C14_fn_includes_second, Bool.not_true, Bool.not_false, Bool.false_and, Bool.true_and, Bool.false_eq_true, if_false, if_true, Rs.bind_ok, Rs.pure_eq, Option.bind_eq_bind, Option.bind_some, add_change_our, add_change_second, toGenOp_vout, ho, hh]
            (cases hci : d.closingIn <;> by_cases hz : d.inputNum = 0 <;> simp [hci, hz, hn, h1, Rs.assert, Rs.uadd, Rs.panic, ofOpt, closingTx, toGenTxIn, plOf, toGenScratch])
          · rcases Bool.eq_false_or_eq_true (c.includesSecond i) with hs | hs
            · simp only [hcl, hc, Option.map_some, Option.map_none, C14_fn_includes_our, C14_fn_includes_htlc, C14_fn_includes_second, Bool.not_true, Bool.not_false, Bool.false_and, Bool.true_and, Bool.false_eq_true, if_false, if_true, Rs.bind_ok, Rs.pure_eq, Option.bind_eq_bind, Option.bind_some, add_change_our, add_change_second, toGenOp_vout, ho, hh, hs]
              cases hap2 : applyForward d.t (.secondSpent i) with
              | none => simp [ofOpt]
              | some r2 =>
                obtain ⟨t2, a2, r2'⟩ := r2
                simp only [Rs.bind_ok, Option.map_some, Option.bind_some]
                (cases hci : d.closingIn <;> by_cases hz : d.inputNum = 0 <;> simp [hci, hz, hn, h1, Rs.assert, Rs.uadd, Rs.panic, ofOpt, closingTx, toGenTxIn, plOf, toGenScratch])
            · simp only [hcl, hc, Option.map_some, Option.map_none, C14_fn_includes_our, C14_fn_includes_htlc, C14_fn_includes_second, Bool.not_true, Bool.not_false, Bool.false_and, Bool.true_and, Bool.false_eq_true, if_false, if_true, Rs.bind_ok, Rs.pure_eq, Option.bind_eq_bind, Option.bind_some, add_change_our, add_change_second, toGenOp_vout, ho, hh, hs]
              (cases hci : d.closingIn <;> by_cases hz : d.inputNum = 0 <;> simp [hci, hz, hn, h1, Rs.assert, Rs.uadd, Rs.panic, ofOpt, closingTx, toGenTxIn, plOf, toGenScratch])
    · have hdec : decide (some i = d.t.fundingOutpoint) = false := decide_eq_false e
      simp only [hdec, Bool.false_eq_true, if_false, if_neg e]
      cases hc : d.t.closing with
      | none =>
        simp only [hcl, hc, Option.map_some, Option.map_none, C14_fn_includes_our, C14_fn_includes_htlc, C14_fn_includes_second, Bool.not_true, Bool.not_false, Bool.false_and, Bool.true_and, Bool.false_eq_true, if_false, if_true, Rs.bind_ok, Rs.pure_eq, Option.bind_eq_bind, Option.bind_some, add_change_our, add_change_second, toGenOp_vout]
        (cases hci : d.closingIn <;> by_cases hz : d.inputNum = 0 <;> simp [hci, hz, hn, h1, Rs.assert, Rs.uadd, Rs.panic, ofOpt, closingTx, toGenTxIn, plOf, toGenScratch])
      | some c =>
        rcases Bool.eq_false_or_eq_true (c.includesOur i) with ho | ho
        · simp only [hcl, hc, Option.map_some, Option.map_none, C14_fn_includes_our, C14_fn_includes_htlc, C14_fn_includes_second, Bool.not_true, Bool.not_false, Bool.false_and, Bool.true_and, Bool.false_eq_true, if_false, if_true, Rs.bind_ok, Rs.pure_eq, Option.bind_eq_bind, Option.bind_some, add_change_our, add_change_second, toGenOp_vout, ho]
          cases hap2 : applyForward d.t (.ourSpent i.2) with
          | none => simp [ofOpt]
          | some r2 =>
            obtain ⟨t2, a2, r2'⟩ := r2
            simp only [Rs.bind_ok, Option.map_some, Option.bind_some]
            (cases hci : d.closingIn <;> by_cases hz : d.inputNum = 0 <;> simp [hci, hz, hn, h1, Rs.assert, Rs.uadd, Rs.panic, ofOpt, closingTx, toGenTxIn, plOf, toGenScratch])
        · rcases Bool.eq_false_or_eq_true (c.includesHtlc i) with hh | hh
          · simp only [hcl, hc, Option.map_some, Option.map_none, C14_fn_includes_our, C14_fn_includes_htlc, C14_fn_includes_second, Bool.not_true, Bool.not_false, Bool.false_and, Bool.true_and, Bool.false_eq_true, if_false, if_true, Rs.bind_ok, Rs.pure_eq, Option.bind_eq_bind, Option.bind_some, add_change_our, add_change_second, toGenOp_vout, ho, hh]
            (cases hci : d.closingIn <;> by_cases hz : d.inputNum = 0 <;> simp [hci, hz, hn, h1, Rs.assert, Rs.uadd, Rs.panic, ofOpt, closingTx, toGenTxIn, plOf, toGenScratch])
          · rcases Bool.eq_false_or_eq_true (c.includesSecond i) with hs | hs
            · simp only [hcl, hc, Option.map_some, Option.map_none, C14_fn_includes_our, C14_fn_includes_htlc, C14_fn_includes_second, Bool.not_true, Bool.not_false, Bool.false_and, Bool.true_and, Bool.false_eq_true, if_false, if_true, Rs.bind_ok, Rs.pure_eq, Option.bind_eq_bind, Option.bind_some, add_change_our, add_change_second, toGenOp_vout, ho, hh, hs]
              cases hap2 : applyForward d.t (.secondSpent i) with
              | none => simp [ofOpt]
              | some r2 =>
                obtain ⟨t2, a2, r2'⟩ := r2
                simp only [Rs.bind_ok, Option.map_some, Option.bind_some]
                (cases hci : d.closingIn <;> by_cases hz : d.inputNum = 0 <;> simp [hci, hz, hn, h1, Rs.assert, Rs.uadd, Rs.panic, ofOpt, closingTx, toGenTxIn, plOf, toGenScratch])
            · simp only [hcl, hc, Option.map_some, Option.map_none, C14_fn_includes_our, C14_fn_includes_htlc, C14_fn_includes_second, Bool.not_true, Bool.not_false, Bool.false_and, Bool.true_and, Bool.false_eq_true, if_false, if_true, Rs.bind_ok, Rs.pure_eq, Option.bind_eq_bind, Option.bind_some, add_change_our, add_change_second, toGenOp_vout, ho, hh, hs]
              (cases hci : d.closingIn <;> by_cases hz : d.inputNum = 0 <;> simp [hci, hz, hn, h1, Rs.assert, Rs.uadd, Rs.panic, ofOpt, closingTx, toGenTxIn, plOf, toGenScratch])
  · simp only [if_true]
    rw [show Gen.FnMonitorC14.StateChange.FundingInputSpent (toGenOp i) = toGenChange (.fundingInputSpent i) from rfl]
    simp only [add_change_nf]
    cases hap1 : applyForward d.t (.fundingInputSpent i) with
    | none => simp [ofOpt]
    | some r1 =>
      obtain ⟨t1, a1, r1'⟩ := r1
      simp only [Rs.bind_ok, Rs.pure_eq, Option.map_some, Option.bind_eq_bind, Option.bind_some]
      simp only [hBnf]
      by_cases e : some i = t1.fundingOutpoint
      · have hdec : decide (some i = t1.fundingOutpoint) = true := decide_eq_true e
        simp only [hdec, if_true, if_pos e]
        cases hc : t1.closing with
        | none =>
          simp only [hcl, hc, Option.map_some, Option.map_none, C14_fn_includes_our, C14_fn_includes_htlc, C14_fn_includes_second, Bool.not_true, Bool.not_false, Bool.false_and, Bool.true_and, Bool.false_eq_true, if_false, if_true, Rs.bind_ok, Rs.pure_eq, Option.bind_eq_bind, Option.bind_some, add_change_our, add_change_second, toGenOp_vout]
          (cases hci : d.closingIn <;> by_cases hz : d.inputNum = 0 <;> simp [hci, hz, hn, h1, Rs.assert, Rs.uadd, Rs.panic, ofOpt, closingTx, toGenTxIn, plOf, toGenScratch])
        | some c =>
          rcases Bool.eq_false_or_eq_true (c.includesOur i) with ho | ho
          · simp only [hcl, hc, Option.map_some, Option.map_none, C14_fn_includes_our, C14_fn_includes_htlc, C14_fn_includes_second, Bool.not_true, Bool.not_false, Bool.false_and, Bool.true_and, Bool.false_eq_true, if_false, if_true, Rs.bind_ok, Rs.pure_eq, Option.bind_eq_bind, Option.bind_some, add_change_our, add_change_second, toGenOp_vout, ho]
            cases hap2 : applyForward t1 (.ourSpent i.2) with
            | none => simp [ofOpt]
            | some r2 =>
              obtain ⟨t2, a2, r2'⟩ := r2
              simp only [Rs.bind_ok, Option.map_some, Option.bind_some]
              (cases hci : d.closingIn <;> by_cases hz : d.inputNum = 0 <;> simp [hci, hz, hn, h1, Rs.assert, Rs.uadd, Rs.panic, ofOpt, closingTx, toGenTxIn, plOf, toGenScratch])
          · rcases Bool.eq_false_or_eq_true (c.includesHtlc i) with hh | hh
            · simp only [hcl, hc, Option.map_some, Option.map_none, C14_fn_includes_our, C14_fn_includes_htlc, C14_fn_includes_second, Bool.not_true, Bool.not_false, Bool.false_and, Bool.true_and, Bool.false_eq_true, if_false, if_true, Rs.bind_ok, Rs.pure_eq, Option.bind_eq_bind, Option.bind_some, add_change_our, add_change_second, toGenOp_vout, ho, hh]
              (cases hci : d.closingIn <;> by_cases hz : d.inputNum = 0 <;> simp [hci, hz, hn, h1, Rs.assert, Rs.uadd, Rs.panic, ofOpt, closingTx, toGenTxIn, plOf, toGenScratch])
            · rcases Bool.eq_false_or_eq_true (c.includesSecond i) with hs | hs
              · simp only [hcl, hc, Option.map_some, Option.map_none, C14_fn_includes_our, C14_fn_includes_htlc, C14_fn_includes_second, Bool.not_true, Bool.not_false, Bool.false_and, Bool.true_and, Bool.false_eq_true, if_false, if_true, Rs.bind_ok, Rs.pure_eq, Option.bind_eq_bind, Option.bind_some, add_change_our, add_change_second, toGenOp_vout, ho, hh, hs]
                cases hap2 : applyForward t1 (.secondSpent i) with
                | none => simp [ofOpt]
                | some r2 =>
                  obtain ⟨t2, a2, r2'⟩ := r2
                  simp only [Rs.bind_ok, Option.map_some, Option.bind_some]
                  (cases hci : d.closingIn <;> by_cases hz : d.inputNum = 0 <;> simp [hci, hz, hn, h1, Rs.assert, Rs.uadd, Rs.panic, ofOpt, closingTx, toGenTxIn, plOf, toGenScratch])
              · simp only [hcl, hc, Option.map_some, Option.map_none, C14_fn_includes_our, C14_fn_includes_htlc, C14_fn_includes_second, Bool.not_true, Bool.not_false, Bool.false_and, Bool.true_and, Bool.false_eq_true, if_false, if_true, Rs.bind_ok, Rs.pure_eq, Option.bind_eq_bind, Option.bind_some, add_change_our, add_change_second, toGenOp_vout, ho, hh, hs]
                (cases hci : d.closingIn <;> by_cases hz : d.inputNum = 0 <;> simp [hci, hz, hn, h1, Rs.assert, Rs.uadd, Rs.panic, ofOpt, closingTx, toGenTxIn, plOf, toGenScratch])
      · have hdec : decide (some i = t1.fundingOutpoint) = false := decide_eq_false e
        simp only [hdec, Bool.false_eq_true, if_false, if_neg e]
        cases hc : t1.closing with
        | none =>
          simp only [hcl, hc, Option.map_some, Option.map_none, C14_fn_includes_our, C14_fn_includes_htlc, C14_fn_includes_second, Bool.not_true, Bool.not_false, Bool.false_and, Bool.true_and, Bool.false_eq_true, if_false, if_true, Rs.bind_ok, Rs.pure_eq, Option.bind_eq_bind, Option.bind_some, add_change_our, add_change_second, toGenOp_vout]
          (cases hci : d.closingIn <;> by_cases hz : d.inputNum = 0 <;> simp [hci, hz, hn, h1, Rs.assert, Rs.uadd, Rs.panic, ofOpt, closingTx, toGenTxIn, plOf, toGenScratch])
        | some c =>
          rcases Bool.eq_false_or_eq_true (c.includesOur i) with ho | ho
          · simp only [hcl, hc, Option.map_some, Option.map_none, C14_fn_includes_our, C14_fn_includes_htlc, C14_fn_includes_second, Bool.not_true, Bool.not_false, Bool.false_and, Bool.true_and, Bool.false_eq_true, if_false, if_true, Rs.bind_ok, Rs.pure_eq, Option.bind_eq_bind, Option.bind_some, add_change_our, add_change_second, toGenOp_vout, ho]
            cases hap2 : applyForward t1 (.ourSpent i.2) with
            | none => simp [ofOpt]
            | some r2 =>
              obtain ⟨t2, a2, r2'⟩ := r2
              simp only [Rs.bind_ok, Option.map_some, Option.bind_some]
              (cases hci : d.closingIn <;> by_cases hz : d.inputNum = 0 <;> simp [hci, hz, hn, h1, Rs.assert, Rs.uadd, Rs.panic, ofOpt, closingTx, toGenTxIn, plOf, toGenScratch])
          · rcases Bool.eq_false_or_eq_true (c.includesHtlc i) with hh | hh
            · simp only [hcl, hc, Option.map_some, Option.map_none, C14_fn_includes_our, C14_fn_includes_htlc, C14_fn_includes_second, Bool.not_true, Bool.not_false, Bool.false_and, Bool.true_and, Bool.false_eq_true, if_false, if_true, Rs.bind_ok, Rs.pure_eq, Option.bind_eq_bind, Option.bind_some, add_change_our, add_change_second, toGenOp_vout, ho, hh]
              (cases hci : d.closingIn <;> by_cases hz : d.inputNum = 0 <;> simp [hci, hz, hn, h1, Rs.assert, Rs.uadd, Rs.panic, ofOpt, closingTx, toGenTxIn, plOf, toGenScratch])
            · rcases Bool.eq_false_or_eq_true (c.includesSecond i) with hs | hs
              · simp only [hcl, hc, Option.map_some, Option.map_none, C14_fn_includes_our, C14_fn_includes_htlc, C14_fn_includes_second, Bool.not_true, Bool.not_false, Bool.false_and, Bool.true_and, Bool.false_eq_true, if_false, if_true, Rs.bind_ok, Rs.pure_eq, Option.bind_eq_bind, Option.bind_some, add_change_our, add_change_second, toGenOp_vout, ho, hh, hs]
                cases hap2 : applyForward t1 (.secondSpent i) with
                | none => simp [ofOpt]
                | some r2 =>
                  obtain ⟨t2, a2, r2'⟩ := r2
                  simp only [Rs.bind_ok, Option.map_some, Option.bind_some]
                  (cases hci : d.closingIn <;> by_cases hz : d.inputNum = 0 <;> simp [hci, hz, hn, h1, Rs.assert, Rs.uadd, Rs.panic, ofOpt, closingTx, toGenTxIn, plOf, toGenScratch])
              · simp only [hcl, hc, Option.map_some, Option.map_none, C14_fn_includes_our, C14_fn_includes_htlc, C14_fn_includes_second, Bool.not_true, Bool.not_false, Bool.false_and, Bool.true_and, Bool.false_eq_true, if_false, if_true, Rs.bind_ok, Rs.pure_eq, Option.bind_eq_bind, Option.bind_some, add_change_our, add_change_second, toGenOp_vout, ho, hh, hs]
                (cases hci : d.closingIn <;> by_cases hz : d.inputNum = 0 <;> simp [hci, hz, hn, h1, Rs.assert, Rs.uadd, Rs.panic, ofOpt, closingTx, toGenTxIn, plOf, toGenScratch])


/-- **`PushListener::on_transaction_output`**: while a closing transaction is gathered the output is appended and the
    output counter must still be below `MAX_COMMITMENT_OUTPUTS` (the `k`-th output, counted from 0, asserts `k < 600`:
    a closing transaction with more than 600 outputs aborts — `Monitor.onTx`'s `nOut > MAX_COMMITMENT_OUTPUTS`);
    otherwise only the counter moves. -/
theorem C14_fn_on_transaction_output (ds : GDS) (bh : Nat) (hb : ds.block_hash = some bh)
    (hk : ds.output_num + 1 ≤ Rs.U32_MAX) :
    Gen.FnMonitorC14.PushListener.on_transaction_output ({ commitment_point_provider := (), decode_state := ds, saw_block := true } : GPL) ()
      = match ds.closing_tx with
        | none => .ok { commitment_point_provider := (), decode_state := { ds with output_num := ds.output_num + 1 }, saw_block := true }
        | some tx =>
          if ds.output_num < Monitor.MAX_COMMITMENT_OUTPUTS then
            .ok { commitment_point_provider := (), saw_block := true,
                  decode_state :=
                    { ds with closing_tx := some { tx with output := tx.output ++ [()] }, output_num := ds.output_num + 1 } }
          else .error .panic := by
  unfold Gen.FnMonitorC14.PushListener.on_transaction_output
  have hu : Rs.uadd Rs.U32_MAX ds.output_num 1 = .ok (ds.output_num + 1) := by unfold Rs.uadd; rw [if_pos hk]; rfl
  have hm : Monitor.MAX_COMMITMENT_OUTPUTS = 600 := rfl
  simp only [C14_fn_is_not_ready, hb, Option.isSome_some, if_true, Rs.bind_ok, Bool.false_eq_true, if_false, hm]
  cases hc : ds.closing_tx with
  | none => simp [hu, hc, hb]
  | some tx =>
    by_cases hlt : ds.output_num < 600
    · simp [hu, hlt, hc, hb, Rs.unwrap, Rs.assert]
    · simp [hlt, hc, hb, Rs.unwrap, Rs.assert, Rs.panic]


/-! ### `PushListener::on_transaction_end`

The body is generated (`Gen.FnMonitorC14.PushListener.on_transaction_end`, commitment decoder and point provider as
externals).  First its final loop and the special case of a transaction that is neither a funding transaction nor a
close (`_partial`), then the full tie `C14_fn_on_transaction_end` against the tail of `Monitor.onTx` (`txEnd`, `onTx_eq`). -/

/-- the decode state when `on_transaction_end` runs / when it is done (per-transaction scratch consumed) -/
def endDs (bh : Nat) (ver : Int) (n o : Nat) (ctx : Option GTx) (sp : List (Nat × Nat)) (cs : List Change)
    (t : Monitor.State) : GDS :=
  { changes := cs.map toGenChange, version := ver, input_num := n, output_num := o, closing_tx := ctx,
    spent_htlc_outputs := sp, block_hash := some bh, state := toGen t }

def endPl (bh : Nat) (ver : Int) (n o : Nat) (d : Scratch) : GPL :=
  { commitment_point_provider := (), decode_state := endDs bh ver n o none [] d.changes d.t, saw_block := true }

/-- the `for change in htlc_changes { decode_state.add_change(change) }` loop = `Monitor.addChanges` -/
theorem fold_add_changes (bh : Nat) (ver : Int) (n o : Nat) : ∀ (cl : List Change) (d : Scratch),
    List.foldlM (fun (self : GPL) change => do
        let s ← Gen.FnMonitorC14.BlockDecodeState.add_change self.decode_state change
        let self := { self with decode_state := s }
        pure self) (endPl bh ver n o d) (cl.map toGenChange)
      = ofOpt (endPl bh ver n o) (addChanges d cl) := by
  intro cl
  induction cl with
  | nil => intro d; rfl
  | cons c cl ih =>
    intro d
    simp only [List.map_cons, List.foldlM_cons, addChanges, endPl, endDs, add_change_nf, Scratch.addChange]
    cases hap : applyForward d.t c with
    | none => rfl
    | some r =>
      obtain ⟨t', a, rr⟩ := r
      simp only [Rs.bind_ok, Rs.pure_eq, Option.map_some]
      exact ih { d with t := t', changes := d.changes ++ [c] }


def gOnEnd (l : GPL) (txid : Nat) : Rs.M GPL :=
  Gen.FnMonitorC14.PushListener.on_transaction_end (ChannelTransactionParameters := Unit) (PublicKey := Unit)
    (ext_CommitmentPointProvider_get_transaction_parameters := fun _ => ())
    (ext_decode_commitment_number := fun _ _ => none)
    (ext_CommitmentPointProvider_get_holder_commitment_point := fun _ _ => ())
    (ext_CommitmentPointProvider_get_counterparty_commitment_point := fun _ _ => none)
    (ext_decode_commitment_tx := fun _ _ _ _ => (none, []))
    (ext_CommitmentPointProvider_get_spendable_htlc_indices := fun _ _ _ => none) l () txid

/-- **`on_transaction_end`, partial**: for a transaction that is neither a funding transaction of the channel nor spends
    the funding outpoint, the function is the HTLC loop — `Monitor.addChanges` over the spent HTLC outputs collected by
    `on_transaction_input`, each becoming `HTLCOutputSpent(vout, (txid, input index))` — and the per-transaction scratch
    is consumed.  (The full statement is `C14_fn_on_transaction_end` below.) -/
theorem C14_fn_on_transaction_end_partial (bh : Nat) (ver : Int) (o : Nat) (d : Scratch) (txid : Nat)
    (hf : position txid d.t.fundingTxids = none) (hc : d.closingIn = none) :
    gOnEnd { commitment_point_provider := (), saw_block := true,
             decode_state := endDs bh ver d.inputNum o none d.spentHtlc d.changes d.t } txid
      = ofOpt (endPl bh ver d.inputNum o)
          (addChanges d (d.spentHtlc.map fun (v, idx) => Change.htlcSpent v (txid, idx))) := by
  unfold gOnEnd Gen.FnMonitorC14.PushListener.on_transaction_end
  have hpos : (toGen d.t).funding_txids.findIdx? (fun i => i == txid) = none := by
    rw [← position_eq_findIdx]; exact hf
  have hmap : (d.spentHtlc.map fun (p : Nat × Nat) =>
        Gen.FnMonitorC14.StateChange.HTLCOutputSpent p.1 ({ txid := txid, vout := p.2 } : GOp))
      = (d.spentHtlc.map fun (v, idx) => Change.htlcSpent v (txid, idx)).map toGenChange := by
    rw [List.map_map]; rfl
  simp only [C14_fn_is_not_ready, endDs, Option.isSome_some, if_true, Rs.bind_ok, Bool.false_eq_true, if_false, hpos,
    Rs.pure_eq, hmap]
  exact fold_add_changes bh ver d.inputNum o _ d


/-- the tail of `Monitor.onTx` after the inputs and the output-count assert (same text as in `Model/Monitor.lean`) -/
def txEnd (d : Scratch) (tx : Tx) : Option (Monitor.State × List Change) := do
  let d ← match position tx.txid d.t.fundingTxids with
    | some ind =>
      match d.t.fundingVouts[ind]? with
      | none => none                                    -- index out of bounds
      | some vout => if vout < tx.nOut then d.addChange (.fundingConfirmed (tx.txid, vout)) else none
    | none => some d
  let d ← match d.closingIn with
    | some fo =>
      match tx.kind with
      | .commit our htlcs => d.addChange (.unilateral tx.txid fo our htlcs)
      | .plain => d.addChange (.mutual tx.txid fo)
    | none => some d
  let d ← addChanges d (d.spentHtlc.map fun (v, idx) => Change.htlcSpent v (tx.txid, idx))
  some (d.t, d.changes)

/-- `Monitor.onTx` = the inputs, the output-count assert, then `txEnd` -/
theorem onTx_eq (t : Monitor.State) (cs : List Change) (tx : Tx) :
    onTx t cs tx = (do
      let d ← onInputs { t, changes := cs, inputNum := 0, closingIn := none, spentHtlc := [] } tx.inputs
      if d.closingIn.isSome && tx.nOut > MAX_COMMITMENT_OUTPUTS then none else txEnd d tx) := rfl


def xNum (k : Kind) (_tx : GTx) (_p : Unit) : Option Nat := match k with | .commit _ _ => some 0 | .plain => none
def xDecode (k : Kind) (_tx : GTx) (_h : Unit) (_c : Option Unit) (_p : Unit) : Option Nat × List Nat :=
  match k with | .commit our htlcs => (our, htlcs) | .plain => (none, [])
def xSpend (k : Kind) (_pr : Unit) (_tx : GTx) (_n : Nat) : Option (List Nat) :=
  match k with | .commit _ htlcs => some htlcs | .plain => none

/-- the generated `on_transaction_end` with the commitment decoder answering `kind` (`Tx.kind`: what the harness observes
    from the real decoder): `decode_commitment_number` is `Some` exactly for a commitment, `decode_commitment_tx` and
    `get_spendable_htlc_indices` return its output indices -/
def gOnEndK (k : Kind) (l : GPL) (txid : Nat) : Rs.M GPL :=
  Gen.FnMonitorC14.PushListener.on_transaction_end (ChannelTransactionParameters := Unit) (PublicKey := Unit)
    (ext_CommitmentPointProvider_get_transaction_parameters := fun _ => ())
    (ext_decode_commitment_number := xNum k)
    (ext_CommitmentPointProvider_get_holder_commitment_point := fun _ _ => ())
    (ext_CommitmentPointProvider_get_counterparty_commitment_point := fun _ _ => none)
    (ext_decode_commitment_tx := xDecode k)
    (ext_CommitmentPointProvider_get_spendable_htlc_indices := xSpend k) l () txid

/-- **`PushListener::on_transaction_end` = the tail of `Monitor.onTx`** (`txEnd`, `onTx_eq`): `FundingConfirmed` for a
    funding txid (index and output-count asserts), the gathered closing transaction classified by the commitment decoder
    into `UnilateralCloseConfirmed` / `MutualCloseConfirmed`, then `HTLCOutputSpent` for every spent HTLC output; the
    per-transaction scratch is consumed. -/
theorem C14_fn_on_transaction_end (bh : Nat) (ver : Int) (outs : List Unit) (d : Scratch) (tx : Tx) :
    gOnEndK tx.kind { commitment_point_provider := (), saw_block := true,
                      decode_state := endDs bh ver d.inputNum tx.nOut (d.closingIn.map (closingTx ver outs)) d.spentHtlc
                                        d.changes d.t } tx.txid
      = ofOpt (fun r : Monitor.State × List Change =>
                 ({ commitment_point_provider := (), saw_block := true,
                    decode_state := endDs bh ver d.inputNum tx.nOut none [] r.2 r.1 } : GPL)) (txEnd d tx) := by
  unfold gOnEndK Gen.FnMonitorC14.PushListener.on_transaction_end txEnd Scratch.addChange
  have hpos : (toGen d.t).funding_txids.findIdx? (fun i => i == tx.txid) = position tx.txid d.t.fundingTxids := by
    rw [position_eq_findIdx]; rfl
  have hvouts : (toGen d.t).funding_vouts = d.t.fundingVouts := rfl
  simp only [C14_fn_is_not_ready, endDs, Option.isSome_some, if_true, Rs.bind_ok, Bool.false_eq_true, if_false, hpos,
    hvouts, Rs.pure_eq]
  cases hp : position tx.txid d.t.fundingTxids with
  | none =>
    simp only [Rs.bind_ok, Option.bind_eq_bind, Option.bind_some]
    cases hci : d.closingIn with
    | none =>
      simp only [Option.map_none, Rs.bind_ok, Rs.pure_eq, Option.bind_eq_bind, Option.bind_some]
      have hmapF : (d.spentHtlc.map fun (p : Nat × Nat) =>
            Gen.FnMonitorC14.StateChange.HTLCOutputSpent p.1 ({ txid := tx.txid, vout := p.2 } : GOp))
          = (d.spentHtlc.map fun (v, idx) => Change.htlcSpent v (tx.txid, idx)).map toGenChange := by
        rw [List.map_map]; rfl
      simp only [hmapF]
      have hfold := fold_add_changes bh ver d.inputNum tx.nOut
        (d.spentHtlc.map fun (v, idx) => Change.htlcSpent v (tx.txid, idx)) { d with t := d.t, changes := d.changes }
      simp only [endPl, endDs, Rs.pure_eq] at hfold
      rw [hfold]
      first
        | (cases addChanges { d with t := d.t, changes := d.changes } (d.spentHtlc.map fun (v, idx) => Change.htlcSpent v (tx.txid, idx)) <;> rfl)
        | (simp only [hci]; cases addChanges { t := d.t, changes := d.changes, inputNum := d.inputNum, closingIn := none, spentHtlc := d.spentHtlc } (d.spentHtlc.map fun (v, idx) => Change.htlcSpent v (tx.txid, idx)) <;> rfl)
    | some fo =>
      simp only [Option.map_some, closingTx, List.length_singleton, beq_self_eq_true, Rs.assert, if_true, Rs.bind_ok,
        Rs.pure_eq, Option.bind_eq_bind, Option.bind_some, Rs.index, List.getElem?_cons_zero, toGenTxIn]
      cases hk : tx.kind with
      | plain =>
        simp only [xNum, xDecode, xSpend]
        rw [show Gen.FnMonitorC14.StateChange.MutualCloseConfirmed tx.txid (toGenOp fo) = toGenChange (.mutual tx.txid fo) from rfl]
        simp only [add_change_nf]
        cases hap2 : applyForward d.t (.mutual tx.txid fo) with
        | none => simp [ofOpt]
        | some r2 =>
          obtain ⟨t2, a2, r2'⟩ := r2
          simp only [Rs.bind_ok, Option.map_some, Option.bind_some]
          have hmapF : (d.spentHtlc.map fun (p : Nat × Nat) =>
                Gen.FnMonitorC14.StateChange.HTLCOutputSpent p.1 ({ txid := tx.txid, vout := p.2 } : GOp))
              = (d.spentHtlc.map fun (v, idx) => Change.htlcSpent v (tx.txid, idx)).map toGenChange := by
            rw [List.map_map]; rfl
          simp only [hmapF]
          have hfold := fold_add_changes bh ver d.inputNum tx.nOut
            (d.spentHtlc.map fun (v, idx) => Change.htlcSpent v (tx.txid, idx)) { t := t2, changes := d.changes ++ [Change.mutual tx.txid fo], inputNum := d.inputNum, closingIn := some fo, spentHtlc := d.spentHtlc }
          simp only [endPl, endDs, Rs.pure_eq] at hfold
          rw [hfold]
          cases addChanges { t := t2, changes := d.changes ++ [Change.mutual tx.txid fo], inputNum := d.inputNum, closingIn := some fo, spentHtlc := d.spentHtlc } (d.spentHtlc.map fun (v, idx) => Change.htlcSpent v (tx.txid, idx)) <;> rfl
      | commit our htlcs =>
        cases htlcs with
        | nil =>
          simp only [xNum, xDecode, xSpend, List.isEmpty_nil, if_true]
          rw [show Gen.FnMonitorC14.StateChange.UnilateralCloseConfirmed tx.txid (toGenOp fo) our []
                = toGenChange (.unilateral tx.txid fo our []) from rfl]
          simp only [add_change_nf]
          cases hap2 : applyForward d.t (.unilateral tx.txid fo our []) with
          | none => simp [ofOpt]
          | some r2 =>
            obtain ⟨t2, a2, r2'⟩ := r2
            simp only [Rs.bind_ok, Option.map_some, Option.bind_some]
            have hmapF : (d.spentHtlc.map fun (p : Nat × Nat) =>
                  Gen.FnMonitorC14.StateChange.HTLCOutputSpent p.1 ({ txid := tx.txid, vout := p.2 } : GOp))
                = (d.spentHtlc.map fun (v, idx) => Change.htlcSpent v (tx.txid, idx)).map toGenChange := by
              rw [List.map_map]; rfl
            simp only [hmapF]
            have hfold := fold_add_changes bh ver d.inputNum tx.nOut
              (d.spentHtlc.map fun (v, idx) => Change.htlcSpent v (tx.txid, idx)) { t := t2, changes := d.changes ++ [Change.unilateral tx.txid fo our []], inputNum := d.inputNum, closingIn := some fo, spentHtlc := d.spentHtlc }
            simp only [endPl, endDs, Rs.pure_eq] at hfold
            rw [hfold]
            cases addChanges { t := t2, changes := d.changes ++ [Change.unilateral tx.txid fo our []], inputNum := d.inputNum, closingIn := some fo, spentHtlc := d.spentHtlc } (d.spentHtlc.map fun (v, idx) => Change.htlcSpent v (tx.txid, idx)) <;> rfl
        | cons hh tl =>
          simp only [xNum, xDecode, xSpend, List.isEmpty_cons, Bool.false_eq_true, if_false, Option.getD_some]
          rw [show Gen.FnMonitorC14.StateChange.UnilateralCloseConfirmed tx.txid (toGenOp fo) our (hh :: tl)
                = toGenChange (.unilateral tx.txid fo our (hh :: tl)) from rfl]
          simp only [add_change_nf]
          cases hap2 : applyForward d.t (.unilateral tx.txid fo our (hh :: tl)) with
          | none => simp [ofOpt]
          | some r2 =>
            obtain ⟨t2, a2, r2'⟩ := r2
            simp only [Rs.bind_ok, Option.map_some, Option.bind_some]
            have hmapF : (d.spentHtlc.map fun (p : Nat × Nat) =>
                  Gen.FnMonitorC14.StateChange.HTLCOutputSpent p.1 ({ txid := tx.txid, vout := p.2 } : GOp))
                = (d.spentHtlc.map fun (v, idx) => Change.htlcSpent v (tx.txid, idx)).map toGenChange := by
              rw [List.map_map]; rfl
            simp only [hmapF]
            have hfold := fold_add_changes bh ver d.inputNum tx.nOut
              (d.spentHtlc.map fun (v, idx) => Change.htlcSpent v (tx.txid, idx)) { t := t2, changes := d.changes ++ [Change.unilateral tx.txid fo our (hh :: tl)], inputNum := d.inputNum, closingIn := some fo, spentHtlc := d.spentHtlc }
            simp only [endPl, endDs, Rs.pure_eq] at hfold
            rw [hfold]
            cases addChanges { t := t2, changes := d.changes ++ [Change.unilateral tx.txid fo our (hh :: tl)], inputNum := d.inputNum, closingIn := some fo, spentHtlc := d.spentHtlc } (d.spentHtlc.map fun (v, idx) => Change.htlcSpent v (tx.txid, idx)) <;> rfl
  | some ind =>
    simp only [Rs.index]
    cases hv : d.t.fundingVouts[ind]? with
    | none => simp [ofOpt, Rs.panic]
    | some vout =>
      by_cases hlt : vout < tx.nOut
      · simp only [hlt, decide_true, Rs.assert, if_true, Rs.bind_ok, Rs.pure_eq]
        rw [show Gen.FnMonitorC14.StateChange.FundingConfirmed ({ txid := tx.txid, vout := vout } : GOp)
              = toGenChange (.fundingConfirmed (tx.txid, vout)) from rfl]
        simp only [add_change_nf]
        cases hap1 : applyForward d.t (.fundingConfirmed (tx.txid, vout)) with
        | none => simp [ofOpt]
        | some r1 =>
          obtain ⟨t1, a1, r1'⟩ := r1
          simp only [Rs.bind_ok, Option.map_some, Option.bind_eq_bind, Option.bind_some]
          cases hci : d.closingIn with
          | none =>
            simp only [Option.map_none, Rs.bind_ok, Rs.pure_eq, Option.bind_eq_bind, Option.bind_some]
            have hmapF : (d.spentHtlc.map fun (p : Nat × Nat) =>
                  Gen.FnMonitorC14.StateChange.HTLCOutputSpent p.1 ({ txid := tx.txid, vout := p.2 } : GOp))
                = (d.spentHtlc.map fun (v, idx) => Change.htlcSpent v (tx.txid, idx)).map toGenChange := by
              rw [List.map_map]; rfl
            simp only [hmapF]
            have hfold := fold_add_changes bh ver d.inputNum tx.nOut
              (d.spentHtlc.map fun (v, idx) => Change.htlcSpent v (tx.txid, idx)) { d with t := t1, changes := (d.changes ++ [Change.fundingConfirmed (tx.txid, vout)]) }
            simp only [endPl, endDs, Rs.pure_eq] at hfold
            rw [hfold]
            first
              | (cases addChanges { d with t := t1, changes := (d.changes ++ [Change.fundingConfirmed (tx.txid, vout)]) } (d.spentHtlc.map fun (v, idx) => Change.htlcSpent v (tx.txid, idx)) <;> rfl)
              | (simp only [hci]; cases addChanges { t := t1, changes := (d.changes ++ [Change.fundingConfirmed (tx.txid, vout)]), inputNum := d.inputNum, closingIn := none, spentHtlc := d.spentHtlc } (d.spentHtlc.map fun (v, idx) => Change.htlcSpent v (tx.txid, idx)) <;> rfl)
          | some fo =>
            simp only [Option.map_some, closingTx, List.length_singleton, beq_self_eq_true, Rs.assert, if_true, Rs.bind_ok,
              Rs.pure_eq, Option.bind_eq_bind, Option.bind_some, Rs.index, List.getElem?_cons_zero, toGenTxIn]
            cases hk : tx.kind with
            | plain =>
              simp only [xNum, xDecode, xSpend]
              rw [show Gen.FnMonitorC14.StateChange.MutualCloseConfirmed tx.txid (toGenOp fo) = toGenChange (.mutual tx.txid fo) from rfl]
              simp only [add_change_nf]
              cases hap2 : applyForward t1 (.mutual tx.txid fo) with
              | none => simp [ofOpt]
              | some r2 =>
                obtain ⟨t2, a2, r2'⟩ := r2
                simp only [Rs.bind_ok, Option.map_some, Option.bind_some]
                have hmapF : (d.spentHtlc.map fun (p : Nat × Nat) =>
                      Gen.FnMonitorC14.StateChange.HTLCOutputSpent p.1 ({ txid := tx.txid, vout := p.2 } : GOp))
                    = (d.spentHtlc.map fun (v, idx) => Change.htlcSpent v (tx.txid, idx)).map toGenChange := by
                  rw [List.map_map]; rfl
                simp only [hmapF]
                have hfold := fold_add_changes bh ver d.inputNum tx.nOut
                  (d.spentHtlc.map fun (v, idx) => Change.htlcSpent v (tx.txid, idx)) { t := t2, changes := (d.changes ++ [Change.fundingConfirmed (tx.txid, vout)]) ++ [Change.mutual tx.txid fo], inputNum := d.inputNum, closingIn := some fo, spentHtlc := d.spentHtlc }
                simp only [endPl, endDs, Rs.pure_eq] at hfold
                rw [hfold]
                cases addChanges { t := t2, changes := (d.changes ++ [Change.fundingConfirmed (tx.txid, vout)]) ++ [Change.mutual tx.txid fo], inputNum := d.inputNum, closingIn := some fo, spentHtlc := d.spentHtlc } (d.spentHtlc.map fun (v, idx) => Change.htlcSpent v (tx.txid, idx)) <;> rfl
            | commit our htlcs =>
              cases htlcs with
              | nil =>
                simp only [xNum, xDecode, xSpend, List.isEmpty_nil, if_true]
                rw [show Gen.FnMonitorC14.StateChange.UnilateralCloseConfirmed tx.txid (toGenOp fo) our []
                      = toGenChange (.unilateral tx.txid fo our []) from rfl]
                simp only [add_change_nf]
                cases hap2 : applyForward t1 (.unilateral tx.txid fo our []) with
                | none => simp [ofOpt]
                | some r2 =>
                  obtain ⟨t2, a2, r2'⟩ := r2
                  simp only [Rs.bind_ok, Option.map_some, Option.bind_some]
                  have hmapF : (d.spentHtlc.map fun (p : Nat × Nat) =>
                        Gen.FnMonitorC14.StateChange.HTLCOutputSpent p.1 ({ txid := tx.txid, vout := p.2 } : GOp))
                      = (d.spentHtlc.map fun (v, idx) => Change.htlcSpent v (tx.txid, idx)).map toGenChange := by
                    rw [List.map_map]; rfl
                  simp only [hmapF]
                  have hfold := fold_add_changes bh ver d.inputNum tx.nOut
                    (d.spentHtlc.map fun (v, idx) => Change.htlcSpent v (tx.txid, idx)) { t := t2, changes := (d.changes ++ [Change.fundingConfirmed (tx.txid, vout)]) ++ [Change.unilateral tx.txid fo our []], inputNum := d.inputNum, closingIn := some fo, spentHtlc := d.spentHtlc }
                  simp only [endPl, endDs, Rs.pure_eq] at hfold
                  rw [hfold]
                  cases addChanges { t := t2, changes := (d.changes ++ [Change.fundingConfirmed (tx.txid, vout)]) ++ [Change.unilateral tx.txid fo our []], inputNum := d.inputNum, closingIn := some fo, spentHtlc := d.spentHtlc } (d.spentHtlc.map fun (v, idx) => Change.htlcSpent v (tx.txid, idx)) <;> rfl
              | cons hh tl =>
                simp only [xNum, xDecode, xSpend, List.isEmpty_cons, Bool.false_eq_true, if_false, Option.getD_some]
                rw [show Gen.FnMonitorC14.StateChange.UnilateralCloseConfirmed tx.txid (toGenOp fo) our (hh :: tl)
                      = toGenChange (.unilateral tx.txid fo our (hh :: tl)) from rfl]
                simp only [add_change_nf]
                cases hap2 : applyForward t1 (.unilateral tx.txid fo our (hh :: tl)) with
                | none => simp [ofOpt]
                | some r2 =>
                  obtain ⟨t2, a2, r2'⟩ := r2
                  simp only [Rs.bind_ok, Option.map_some, Option.bind_some]
                  have hmapF : (d.spentHtlc.map fun (p : Nat × Nat) =>
                        Gen.FnMonitorC14.StateChange.HTLCOutputSpent p.1 ({ txid := tx.txid, vout := p.2 } : GOp))
                      = (d.spentHtlc.map fun (v, idx) => Change.htlcSpent v (tx.txid, idx)).map toGenChange := by
                    rw [List.map_map]; rfl
                  simp only [hmapF]
                  have hfold := fold_add_changes bh ver d.inputNum tx.nOut
                    (d.spentHtlc.map fun (v, idx) => Change.htlcSpent v (tx.txid, idx)) { t := t2, changes := (d.changes ++ [Change.fundingConfirmed (tx.txid, vout)]) ++ [Change.unilateral tx.txid fo our (hh :: tl)], inputNum := d.inputNum, closingIn := some fo, spentHtlc := d.spentHtlc }
                  simp only [endPl, endDs, Rs.pure_eq] at hfold
                  rw [hfold]
                  cases addChanges { t := t2, changes := (d.changes ++ [Change.fundingConfirmed (tx.txid, vout)]) ++ [Change.unilateral tx.txid fo our (hh :: tl)], inputNum := d.inputNum, closingIn := some fo, spentHtlc := d.spentHtlc } (d.spentHtlc.map fun (v, idx) => Change.htlcSpent v (tx.txid, idx)) <;> rfl
      · simp [hlt, Rs.assert, Rs.panic, ofOpt]

end VlsModel.Props.C14Fn
