import VlsModel.Lemmas.Monitor
import VlsModel.Lemmas.MonitorValid
import VlsModel.Lemmas.MonitorSim
import VlsModel.Lemmas.MonitorPre
import VlsModel.Lemmas.MonitorWF
import VlsModel.Lemmas.MonitorChain
import VlsModel.Lemmas.MonitorView
/-
C14 — The monitor's view of a channel is a function of the best chain.

Statement (properties.jsonl): "After any sequence of block connections and disconnections, each
channel's view of its funding depth, double-spend, mutual or unilateral close, swept outputs and
watched outpoints equals the view obtained by connecting only the blocks of the resulting best
chain in order; in particular connecting a block and then disconnecting it restores the previous
view. Processing a reorganisation never aborts the signer."

Model: `VlsModel/Model/Monitor.lean` (`addBlock`/`removeBlock` mirror `on_add_block` /
`on_remove_block` of `monitor.rs`, `none` = the Rust code panics; `Slot.onAdd/onRemove` mirror the
tracker's `notify_listeners_add/remove`).  Only property theorems live here; helper lemmas are in
`VlsModel/Lemmas/Monitor.lean`.

What is proved, and under which hypotheses:

* `C14_roundtrip_state` / `C14_no_abort`: disconnecting the block just connected restores every
  state field and does not panic, for a well-formed pre-state (`WF`), a change list satisfying the
  natural preconditions along the forward run (`PreAll`: nothing is confirmed / closed / spent
  twice), and provided the listener re-detects the same change list on the post-block state
  (stability of detection).
* `C14_forward_order_aborts`: the reverse order of the backward application (fix 1d7aee1) is
  necessary: in forward order a close+sweep block panics on disconnection.
* `C14_best_chain`: for every history of connections/disconnections in which each connection
  satisfies the hypotheses above, the final state is the replay of the surviving chain, and
  (`C14_reorg_no_abort`) no disconnection panics.
* `C14_stable_of_valid`, `C14_pre_of_valid`, `C14_ds_of_valid`, `C14_roundtrip_valid`: the semantic
  hypotheses above (stability of detection, `PreAll`, the `ds` condition) are *derived* from two
  purely structural predicates on the block relative to the state, `ValidBlock` (topological order,
  no double spend inside the block, funding tx / funding spend at most once) and `SpendFresh`
  (inputs and txids pairwise distinct, nothing already recorded as spent is spent again, state
  invariants linking the recorded heights); `GoodWith.of_valid` packages this.  Special cases kept:
  `C14_stable_of_simple` (change list without `fundingConfirmed`/`unilateral`/`htlcSpent`) and
  `C14_stable_of_quiet` (`QuietBlock`).  Helper lemmas: `VlsModel/Lemmas/MonitorValid.lean`
  (detection reads only `State.core`), `MonitorSim.lean` (simulation argument), `MonitorPre.lean`.
* `C14_wf_add_valid`, `C14_best_chain_valid_wf0`, `C14_reorg_no_abort_valid_wf0`: `WF` is preserved by
  connecting a `ValidBlock`/`SpendFresh` block (`Lemmas/MonitorWF.lean`), so the history theorems need
  `WF` of the initial state only (`ValidRun'`, invariant `VChain`).
* `ConsensusValid`, `FundingShape`, `C14_valid_of_consensus`, `C14_best_chain_consensus`,
  `C14_reorg_no_abort_consensus`: `ValidBlock`/`SpendFresh` are derived for every block of a chain
  that is consensus-valid as a whole (distinct txids, every outpoint spent at most once, spends after
  creation) and whose funding transaction spends the announced funding inputs, through the
  representation invariant `Rep` (`Lemmas/MonitorChain.lean`); the history theorems then start from
  `State.init` and have hypotheses on the chain only (plus: the run did not panic).
* `C14_add_no_panic_of_detect`, `C14_no_abort_consensus_of_detect`: `on_add_block_end` never panics
  on such a block; that the *scan* of the block (`detect`) does not panic is still a premise.
* `C14_roundtrip_watches`: the watched outpoints (`ListenSlot`) are restored as sets for every
  block, HTLC and second-level spends included (full strength since fix fc0e6dd; the former
  counter-example is now the positive instance `C14_roundtrip_watches_htlc`).
-/
namespace VlsModel.Props.C14
open VlsModel VlsModel.Monitor

/-- All hypotheses under which connecting `txs` on top of `s` is undone by disconnecting it.
`cs` is the change list the push listener detects. -/
structure GoodWith (s : State) (txs : List Tx) (cs : List Change) : Prop where
  wf : WF s
  det : detect { s with sawBlock := true } txs = some cs
  pre : PreAll { s with sawBlock := true, height := s.height + 1 } cs
  ds : ∀ op, Change.fundingConfirmed op ∈ cs → s.dsHeight = none
  /-- stability: re-detection on the post-block state yields the same change list -/
  stable : ∀ s1 a r, addBlock s txs = some (s1, a, r) →
    detect { s1 with sawBlock := true } txs = some cs

def Good (s : State) (txs : List Tx) : Prop := ∃ cs, GoodWith s txs cs

/-- Round trip with the watch deltas: remove ∘ add restores every state field (`sawBlock` aside,
which `add` sets for good), and the deltas handed to the tracker on removal are permutations of
those handed over on addition (for every change kind, HTLC spends included, since fix fc0e6dd). -/
theorem C14_roundtrip {s s1 : State} {txs : List Tx} {cs : List Change} {a r : List OutPoint}
    (hwf : WF s)
    (hdet : detect { s with sawBlock := true } txs = some cs)
    (hpre : PreAll { s with sawBlock := true, height := s.height + 1 } cs)
    (hds : ∀ op, Change.fundingConfirmed op ∈ cs → s.dsHeight = none)
    (hadd : addBlock s txs = some (s1, a, r))
    (hstable : detect { s1 with sawBlock := true } txs = some cs) :
    ∃ a' r', removeBlock s1 txs = some ({ s with sawBlock := true }, a', r') ∧
      (a'.Perm a ∧ r'.Perm r) := by
  simp only [addBlock, hdet] at hadd
  have hwf' : WF { s with sawBlock := true } := hwf
  obtain ⟨a', r', h1, h2⟩ := addEnd_removeEnd hwf' hpre hds hadd
  refine ⟨a', r', ?_, h2⟩
  simp only [removeBlock, hstable]
  exact h1

/-- **C14, state part**: connecting a block and then disconnecting it restores the previous view
(funding depth, double-spend height, mutual/unilateral close, swept outputs and their heights). -/
theorem C14_roundtrip_state {s s1 : State} {txs : List Tx} {cs : List Change} {a r : List OutPoint}
    (hwf : WF s)
    (hdet : detect { s with sawBlock := true } txs = some cs)
    (hpre : PreAll { s with sawBlock := true, height := s.height + 1 } cs)
    (hds : ∀ op, Change.fundingConfirmed op ∈ cs → s.dsHeight = none)
    (hadd : addBlock s txs = some (s1, a, r))
    (hstable : detect { s1 with sawBlock := true } txs = some cs) :
    ∃ a' r', removeBlock s1 txs = some ({ s with sawBlock := true }, a', r') := by
  obtain ⟨a', r', h, _⟩ := C14_roundtrip hwf hdet hpre hds hadd hstable
  exact ⟨a', r', h⟩

/-- **C14, no abort**: disconnecting the block just connected does not panic. -/
theorem C14_no_abort {s s1 : State} {txs : List Tx} {cs : List Change} {a r : List OutPoint}
    (hwf : WF s)
    (hdet : detect { s with sawBlock := true } txs = some cs)
    (hpre : PreAll { s with sawBlock := true, height := s.height + 1 } cs)
    (hds : ∀ op, Change.fundingConfirmed op ∈ cs → s.dsHeight = none)
    (hadd : addBlock s txs = some (s1, a, r))
    (hstable : detect { s1 with sawBlock := true } txs = some cs) :
    removeBlock s1 txs ≠ none := by
  obtain ⟨a', r', h⟩ := C14_roundtrip_state hwf hdet hpre hds hadd hstable
  rw [h]; simp

/-- the same, from the bundled hypotheses -/
theorem Good.roundtrip {s s1 : State} {txs : List Tx} {a r : List OutPoint}
    (g : Good s txs) (hadd : addBlock s txs = some (s1, a, r)) :
    ∃ a' r', removeBlock s1 txs = some ({ s with sawBlock := true }, a', r') := by
  obtain ⟨cs, g⟩ := g
  exact C14_roundtrip_state g.wf g.det g.pre g.ds hadd (g.stable s1 a r hadd)

/-! ### Stability of detection from structural hypotheses -/

/-- **Stability, simple blocks**: if the detected change list contains no `fundingConfirmed`,
`unilateral`, `htlcSpent` (the only changes that alter what the listener reads), re-detection on
the post-block state yields the same change list. -/
theorem C14_stable_of_simple {s s1 : State} {txs : List Tx} {cs : List Change} {a r : List OutPoint}
    (hdet : detect { s with sawBlock := true } txs = some cs)
    (hs : ∀ c ∈ cs, Change.simple c)
    (hadd : addBlock s txs = some (s1, a, r)) :
    detect { s1 with sawBlock := true } txs = some cs :=
  stable_of_simple hdet hs hadd

/-- A block that is *quiet* for the channel (purely structural): no transaction of the block is a
funding transaction of the channel, spends the funding outpoint, or spends an HTLC output of the
recorded commitment transaction. -/
structure QuietBlock (s : State) (txs : List Tx) : Prop where
  noFunding : ∀ tx ∈ txs, tx.txid ∉ s.fundingTxids
  noFundingSpend : ∀ tx ∈ txs, ∀ inp ∈ tx.inputs, some inp ≠ s.fundingOutpoint
  noHtlcSpend : ∀ c, s.closing = some c → ∀ tx ∈ txs, ∀ inp ∈ tx.inputs, c.includesHtlc inp = false

theorem QuietBlock.quietTxs {s : State} {txs : List Tx} (q : QuietBlock s txs) :
    QuietTxs { s with sawBlock := true } txs :=
  fun tx h => ⟨q.noFunding tx h, fun inp hi =>
    ⟨q.noFundingSpend tx h inp hi, fun c hc => q.noHtlcSpend c hc tx h inp hi⟩⟩

/-- **Stability, quiet blocks**: detection on a quiet block is stable (no hypothesis on the
detected change list). -/
theorem C14_stable_of_quiet {s s1 : State} {txs : List Tx} {cs : List Change} {a r : List OutPoint}
    (q : QuietBlock s txs)
    (hdet : detect { s with sawBlock := true } txs = some cs)
    (hadd : addBlock s txs = some (s1, a, r)) :
    detect { s1 with sawBlock := true } txs = some cs :=
  stable_of_simple hdet (q.quietTxs.simple hdet) hadd

/-- quiet blocks never confirm the funding transaction, so the `ds` hypothesis is void -/
theorem C14_ds_of_quiet {s : State} {txs : List Tx} {cs : List Change}
    (q : QuietBlock s txs)
    (hdet : detect { s with sawBlock := true } txs = some cs) :
    ∀ op, Change.fundingConfirmed op ∈ cs → s.dsHeight = none :=
  fun _ h => (q.quietTxs.simple hdet _ h).elim

/-! ### Non-vacuity: concrete blocks satisfying every hypothesis -/

/-- a channel stub before its funding confirms -/
def exS0 : State := State.init 100 7 0 [(1, 0)]

/-- block containing the funding transaction (spends the funding input, creates outpoint (7,0)) -/
def exFundingBlock : List Tx := [{ txid := 7, inputs := [(1, 0)], nOut := 1, kind := .plain }]

/-- the channel with its funding confirmed at height 101, now at height 105 -/
def exS1 : State :=
  { exS0 with height := 105, fundingHeight := some 101, fundingOutpoint := some (7, 0),
              sawBlock := true }

/-- block containing a unilateral close (our output 0, no HTLCs) and the sweep of our output -/
def exCloseSweepBlock : List Tx :=
  [{ txid := 20, inputs := [(7, 0)], nOut := 1, kind := .commit (some 0) [] },
   { txid := 21, inputs := [(20, 0)], nOut := 1, kind := .plain }]

theorem exFunding_changes :
    detect { exS0 with sawBlock := true } exFundingBlock =
      some [.fundingInputSpent (1, 0), .fundingConfirmed (7, 0)] := by decide

theorem exClose_changes :
    detect { exS1 with sawBlock := true } exCloseSweepBlock =
      some [.unilateral 20 (7, 0) (some 0) [], .ourSpent 0] := by decide

/-- the funding block satisfies every hypothesis of `C14_roundtrip_state` -/
theorem exFunding_good :
    GoodWith exS0 exFundingBlock [.fundingInputSpent (1, 0), .fundingConfirmed (7, 0)] where
  wf := ⟨by decide, by decide, by intro h0 h; simp [exS0, State.init] at h⟩
  det := exFunding_changes
  pre := by
    refine ⟨trivial, fun s1 a r h => ⟨?_, fun _ _ _ _ => trivial⟩⟩
    simp only [applyForward, Option.some.injEq, Prod.mk.injEq] at h
    obtain ⟨rfl, _, _⟩ := h
    exact ⟨rfl, rfl⟩
  ds := fun _ _ => rfl
  stable := by
    intro s1 a r h
    have key : (addBlock exS0 exFundingBlock).map
        (fun d => detect { d.1 with sawBlock := true } exFundingBlock) =
        some (some [.fundingInputSpent (1, 0), .fundingConfirmed (7, 0)]) := by decide
    rw [h] at key
    simpa using key

/-- the close+sweep block satisfies every hypothesis of `C14_roundtrip_state` -/
theorem exClose_good :
    GoodWith exS1 exCloseSweepBlock [.unilateral 20 (7, 0) (some 0) [], .ourSpent 0] where
  wf := ⟨by decide, by decide, by intro h0 h; simp [exS1, exS0, State.init] at h⟩
  det := exClose_changes
  pre := by
    refine ⟨⟨rfl, rfl⟩, fun s1 a r h => ⟨?_, fun _ _ _ _ => trivial⟩⟩
    simp only [applyForward, Option.some.injEq, Prod.mk.injEq] at h
    obtain ⟨rfl, _, _⟩ := h
    exact ⟨_, rfl, rfl⟩
  ds := by intro op h; simp at h
  stable := by
    intro s1 a r h
    have key : (addBlock exS1 exCloseSweepBlock).map
        (fun d => detect { d.1 with sawBlock := true } exCloseSweepBlock) =
        some (some [.unilateral 20 (7, 0) (some 0) [], .ourSpent 0]) := by decide
    rw [h] at key
    simpa using key

/-- **Structural (consensus-)validity of a block relative to the channel state.**  Only txids,
inputs and state fields are mentioned; nothing about `detect`/`applyForward`.

* `topo`: no input refers to the transaction itself or to a later transaction of the block;
* `noDoubleSpend`: no outpoint is spent by two different transactions of the block;
* `fundOnce`: at most one transaction of the block has a funding txid of the channel;
* `fundFresh`: if the funding outpoint is already recorded, no funding transaction is in the block;
* `closeOnce`: if a closing transaction is already recorded, no input of the block spends the
  funding outpoint (together with `noDoubleSpend`: the funding outpoint is spent at most once);
* `closingFunded`: state invariant, a recorded closing implies a recorded funding outpoint. -/
structure ValidBlock (s : State) (txs : List Tx) : Prop where
  topo : Topo txs
  noDoubleSpend : NoDoubleSpend txs
  fundOnce : FundOnce s.fundingTxids txs
  fundFresh : s.fundingOutpoint.isSome → ∀ tx ∈ txs, tx.txid ∉ s.fundingTxids
  closeOnce : s.closing.isSome → ∀ tx ∈ txs, ∀ inp ∈ tx.inputs, some inp ≠ s.fundingOutpoint
  closingFunded : s.closing.isSome → s.fundingOutpoint.isSome

theorem ValidBlock.ok {s : State} {txs : List Tx} (v : ValidBlock s txs) :
    Ok { s with sawBlock := true } txs :=
  ⟨v.fundFresh, v.closeOnce, v.closingFunded, v.fundOnce, v.noDoubleSpend⟩

/-- **Stability of detection from structural validity**: for a structurally valid block, the
listener re-detects on the post-block state exactly the change list it detected when the block was
connected (this was the hypothesis `stable` of `GoodWith`). -/
theorem C14_stable_of_valid {s s1 : State} {txs : List Tx} {cs : List Change} {a r : List OutPoint}
    (v : ValidBlock s txs)
    (hdet : detect { s with sawBlock := true } txs = some cs)
    (hadd : addBlock s txs = some (s1, a, r)) :
    detect { s1 with sawBlock := true } txs = some cs :=
  stable_of_ok v.ok v.topo hdet hadd

/-- the `ds` hypothesis from a structural one: the funding transaction is only in the block if no
double spend of a funding input is recorded -/
theorem C14_ds_of_valid {s : State} {txs : List Tx} {cs : List Change}
    (hds : (∃ tx ∈ txs, tx.txid ∈ s.fundingTxids) → s.dsHeight = none)
    (hdet : detect { s with sawBlock := true } txs = some cs) :
    ∀ op, Change.fundingConfirmed op ∈ cs → s.dsHeight = none := by
  intro op hop
  obtain ⟨x, hx, hx2⟩ := Option.map_eq_some_iff.mp hdet
  obtain ⟨n, csn⟩ := x
  simp only at hx2
  subst hx2
  rcases fundingConfirmed_of_detectFrom hx op hop with h | h
  · simp at h
  · exact hds h

/-- Round trip for structurally valid blocks, applicability (`pre`) still a hypothesis
(`stable` and `ds` of `GoodWith` replaced by `ValidBlock` and a structural `ds` condition). -/
theorem C14_roundtrip_valid_of_pre {s s1 : State} {txs : List Tx} {cs : List Change}
    {a r : List OutPoint}
    (hwf : WF s) (v : ValidBlock s txs)
    (hdsv : (∃ tx ∈ txs, tx.txid ∈ s.fundingTxids) → s.dsHeight = none)
    (hdet : detect { s with sawBlock := true } txs = some cs)
    (hpre : PreAll { s with sawBlock := true, height := s.height + 1 } cs)
    (hadd : addBlock s txs = some (s1, a, r)) :
    ∃ a' r', removeBlock s1 txs = some ({ s with sawBlock := true }, a', r') ∧
      (a'.Perm a ∧ r'.Perm r) :=
  C14_roundtrip hwf hdet hpre (C14_ds_of_valid hdsv hdet) hadd (C14_stable_of_valid v hdet hadd)

/-- **Nothing in the block is already recorded as spent / confirmed** (structural, relative to the
state; `ins` = all inputs of the block, `ids` = all txids of the block):

* `inputsNodup`: all inputs of the block are pairwise distinct; `txidsNodup`: so are the txids;
* `ourUnspent` / `htlcUnspent` / `secondUnspent`: an output of the recorded commitment transaction
  (our output, an HTLC output, a second-level HTLC outpoint) whose spent flag is already set is not
  spent again by the block;
* `secondFresh`: no recorded second-level outpoint belongs to a transaction of the block;
* `fundingLinked`, `uniLinked`: state invariants linking the recorded heights to the recorded
  funding outpoint / closing transaction;
* `mutualFinal`: after a recorded mutual close the funding outpoint is recorded and not spent again;
* `dsFresh`: the funding transaction is in the block only if no double spend is recorded. -/
structure SpendFresh (s : State) (txs : List Tx) : Prop where
  inputsNodup : (txs.flatMap (·.inputs)).Nodup
  txidsNodup : (txs.map (·.txid)).Nodup
  ourUnspent : ∀ c i, s.closing = some c → c.our = some (i, true) →
    (c.txid, i) ∉ txs.flatMap (·.inputs)
  htlcUnspent : ∀ c v i, s.closing = some c → position v c.htlcOutputs = some i →
    c.htlcSpents[i]? = some true → (c.txid, v) ∉ txs.flatMap (·.inputs)
  secondUnspent : ∀ c e, s.closing = some c → e ∈ c.second → e.2 = true →
    e.1 ∉ txs.flatMap (·.inputs)
  secondFresh : ∀ c e, s.closing = some c → e ∈ c.second → e.1.1 ∉ txs.map (·.txid)
  fundingLinked : s.fundingHeight.isSome → s.fundingOutpoint.isSome
  uniLinked : s.uniHeight.isSome → s.closing.isSome
  mutualFinal : s.mutualHeight.isSome → s.fundingOutpoint.isSome ∧
    ∀ inp ∈ txs.flatMap (·.inputs), some inp ≠ s.fundingOutpoint
  dsFresh : (∃ tx ∈ txs, tx.txid ∈ s.fundingTxids) → s.dsHeight = none

theorem SpendFresh.jinv {s : State} {txs : List Tx} (f : SpendFresh s txs) :
    JInv (txs.flatMap (·.inputs)) (txs.map (·.txid)) { s with sawBlock := true } :=
  ⟨f.ourUnspent, f.htlcUnspent, f.secondUnspent, f.secondFresh, f.fundingLinked, f.uniLinked,
    f.mutualFinal⟩

/-- **Applicability of the detected changes from structural validity**: every change the listener
detects on a structurally valid block with fresh spends is applicable where it is applied (this was
the hypothesis `pre` of `GoodWith`). -/
theorem C14_pre_of_valid {s : State} {txs : List Tx} {cs : List Change}
    (v : ValidBlock s txs) (f : SpendFresh s txs)
    (hdet : detect { s with sawBlock := true } txs = some cs) :
    PreAll { s with sawBlock := true, height := s.height + 1 } cs :=
  preAll_of_ok v.ok f.jinv f.inputsNodup f.txidsNodup hdet

/-- all hypotheses of `GoodWith` from `WF` and the two structural predicates (plus the fact that
detection itself did not panic) -/
theorem GoodWith.of_valid {s : State} {txs : List Tx} {cs : List Change}
    (hwf : WF s) (v : ValidBlock s txs) (f : SpendFresh s txs)
    (hdet : detect { s with sawBlock := true } txs = some cs) :
    GoodWith s txs cs :=
  ⟨hwf, hdet, C14_pre_of_valid v f hdet, C14_ds_of_valid f.dsFresh hdet,
    fun _ _ _ hadd => C14_stable_of_valid v hdet hadd⟩

theorem Good.of_valid {s : State} {txs : List Tx} {cs : List Change}
    (hwf : WF s) (v : ValidBlock s txs) (f : SpendFresh s txs)
    (hdet : detect { s with sawBlock := true } txs = some cs) : Good s txs :=
  ⟨cs, GoodWith.of_valid hwf v f hdet⟩

/-- **C14 round trip from structural hypotheses only**: for a well-formed state and a structurally
valid block whose spends are fresh, disconnecting the block just connected restores every state
field, does not panic, and returns watch deltas that are permutations of those of the connection.
(`stable`, `pre`, `ds` of `GoodWith` are all derived.) -/
theorem C14_roundtrip_valid {s s1 : State} {txs : List Tx} {a r : List OutPoint}
    (hwf : WF s) (v : ValidBlock s txs) (f : SpendFresh s txs)
    (hadd : addBlock s txs = some (s1, a, r)) :
    ∃ a' r', removeBlock s1 txs = some ({ s with sawBlock := true }, a', r') ∧
      (a'.Perm a ∧ r'.Perm r) := by
  cases hdet : detect { s with sawBlock := true } txs with
  | none => simp [addBlock, hdet] at hadd
  | some cs =>
    exact C14_roundtrip hwf hdet (C14_pre_of_valid v f hdet) (C14_ds_of_valid f.dsFresh hdet) hadd
      (C14_stable_of_valid v hdet hadd)

/-- non-vacuity: the close+sweep block (a unilateral close and the sweep of our output *in the same
block*) is structurally valid -/
theorem exClose_valid : ValidBlock exS1 exCloseSweepBlock where
  topo := by simp [Topo, exCloseSweepBlock]
  noDoubleSpend := by simp [NoDoubleSpend, exCloseSweepBlock]
  fundOnce := by simp [FundOnce, exCloseSweepBlock, exS1, exS0, State.init]
  fundFresh := by simp [exCloseSweepBlock, exS1, exS0, State.init]
  closeOnce := by simp [exS1, exS0, State.init]
  closingFunded := by simp [exS1, exS0, State.init]

theorem exFunding_valid : ValidBlock exS0 exFundingBlock where
  topo := by simp [Topo, exFundingBlock]
  noDoubleSpend := by simp [NoDoubleSpend, exFundingBlock]
  fundOnce := by simp [FundOnce, exFundingBlock]
  fundFresh := by simp [exS0, State.init]
  closeOnce := by simp [exS0, State.init]
  closingFunded := by simp [exS0, State.init]

theorem exClose_fresh : SpendFresh exS1 exCloseSweepBlock where
  inputsNodup := by decide
  txidsNodup := by decide
  ourUnspent := by simp [exS1, exS0, State.init]
  htlcUnspent := by simp [exS1, exS0, State.init]
  secondUnspent := by simp [exS1, exS0, State.init]
  secondFresh := by simp [exS1, exS0, State.init]
  fundingLinked := by simp [exS1, exS0, State.init]
  uniLinked := by simp [exS1, exS0, State.init]
  mutualFinal := by simp [exS1, exS0, State.init]
  dsFresh := by simp [exS1, exS0, State.init]

theorem exFunding_fresh : SpendFresh exS0 exFundingBlock where
  inputsNodup := by decide
  txidsNodup := by decide
  ourUnspent := by simp [exS0, State.init]
  htlcUnspent := by simp [exS0, State.init]
  secondUnspent := by simp [exS0, State.init]
  secondFresh := by simp [exS0, State.init]
  fundingLinked := by simp [exS0, State.init]
  uniLinked := by simp [exS0, State.init]
  mutualFinal := by simp [exS0, State.init]
  dsFresh := by simp [exS0, State.init]

/-- the structural round trip applies to the close+sweep block -/
example : ∃ s1 a r, addBlock exS1 exCloseSweepBlock = some (s1, a, r) ∧
    ∃ a' r', removeBlock s1 exCloseSweepBlock = some ({ exS1 with sawBlock := true }, a', r') := by
  cases h : addBlock exS1 exCloseSweepBlock with
  | none => exact absurd h (by decide)
  | some d =>
    obtain ⟨s1, a, r⟩ := d
    obtain ⟨a', r', h1, _⟩ := C14_roundtrip_valid
      ⟨by decide, by decide, by intro h0 h; simp [exS1, exS0, State.init] at h⟩
      exClose_valid exClose_fresh h
    exact ⟨s1, a, r, rfl, a', r', h1⟩

/-- both blocks connect without panic; the close+sweep block sets both swept heights, so the
swept-height bookkeeping of the round trip is exercised -/
example : (addBlock exS0 exFundingBlock).map (fun d => (d.1.fundingHeight, d.1.dsHeight)) =
    some (some 101, none) := by decide
example : (addBlock exS1 exCloseSweepBlock).map
    (fun d => (d.1.uniHeight, d.1.closingSweptHeight, d.1.ourSweptHeight)) =
    some (some 106, some 106, some 106) := by decide

/-- the conclusion of the round trip on the concrete close+sweep block -/
example : ((addBlock exS1 exCloseSweepBlock).bind
    (fun d => removeBlock d.1 exCloseSweepBlock)).map (·.1) = some exS1 := by decide

/-- **The reverse order matters** (fix 1d7aee1): on the close+sweep block, applying the backward
changes in *forward* list order panics (the unilateral close is undone first, then
`set_our_output_spent` unwraps a `None` closing), whereas `removeBlock` (reverse order) succeeds
and restores the state. -/
theorem C14_forward_order_aborts :
    (addBlock exS1 exCloseSweepBlock).map
        (fun d => applyAll applyBackward d.1 [.unilateral 20 (7, 0) (some 0) [], .ourSpent 0]) =
      some none ∧
    ((addBlock exS1 exCloseSweepBlock).bind
        (fun d => removeBlock d.1 exCloseSweepBlock)).map (·.1) = some exS1 := by decide

/-! ### Watched outpoints (`ListenSlot`) -/

/-- **C14, watches**: for every block (HTLC and second-level spends included) the deltas `(A', R')`
returned on disconnection are permutations of the deltas `(A, R)` returned on connection, and a
slot for which the additions are new (`A ∩ watches = ∅`), every removal is of something watched or
just added, and no removal was seen before, has after add-then-remove the same watched and the
same seen outpoints (as sets).  (Before fix fc0e6dd this failed for blocks with HTLC spends:
finding F16, formerly refuted here by `C14_roundtrip_watches_false`.) -/
theorem C14_roundtrip_watches {s s1 : State} {txs : List Tx} {cs : List Change}
    {A R : List OutPoint} (sl : Slot)
    (hwf : WF s)
    (hdet : detect { s with sawBlock := true } txs = some cs)
    (hpre : PreAll { s with sawBlock := true, height := s.height + 1 } cs)
    (hds : ∀ op, Change.fundingConfirmed op ∈ cs → s.dsHeight = none)
    (hadd : addBlock s txs = some (s1, A, R))
    (hstable : detect { s1 with sawBlock := true } txs = some cs)
    (h1 : ∀ x ∈ A, x ∉ sl.watches) (h2 : ∀ x ∈ R, x ∈ A ∨ x ∈ sl.watches)
    (h3 : ∀ x ∈ R, x ∉ sl.seen) :
    ∃ A' R', removeBlock s1 txs = some ({ s with sawBlock := true }, A', R') ∧
      A'.Perm A ∧ R'.Perm R ∧
      (∀ x, x ∈ ((sl.onAdd A R).onRemove A' R').watches ↔ x ∈ sl.watches) ∧
      (∀ x, x ∈ ((sl.onAdd A R).onRemove A' R').seen ↔ x ∈ sl.seen) := by
  obtain ⟨A', R', hrem, hperm⟩ := C14_roundtrip hwf hdet hpre hds hadd hstable
  obtain ⟨pA, pR⟩ := hperm
  obtain ⟨w, sn⟩ := slot_roundtrip sl A R A' R' pA pR h1 h2 h3
  exact ⟨A', R', hrem, pA, pR, w, sn⟩

/-- a channel unilaterally closed at height 103 by commitment tx 20 with one HTLC output (vout 1),
watching that HTLC outpoint -/
def exL : Listener :=
  { st := { exS1 with uniHeight := some 103, closing := some (Closing.new 20 none [1]) },
    slot := { txidWatches := [], watches := [(20, 1)], seen := [(7, 0)] } }

/-- block with a transaction (txid 30) spending the HTLC outpoint (20,1) -/
def exHtlcBlock : List Tx := [{ txid := 30, inputs := [(20, 1)], nOut := 1, kind := .plain }]

/-- The former counter-example (finding F16, fixed by fc0e6dd): connect then disconnect a block
that spends an HTLC output.  State **and** slot are restored exactly: the HTLC outpoint (20,1) is
watched again, the second-level outpoint (30,0) is not, `seen` is as before. -/
theorem C14_roundtrip_watches_htlc :
    (exL.add exHtlcBlock).bind (·.remove exHtlcBlock) = some exL ∧
    ((exL.add exHtlcBlock).map (·.slot.watches)) = some [(30, 0)] := by decide

/-- the HTLC block satisfies every hypothesis of the round trip -/
theorem exHtlc_good : GoodWith exL.st exHtlcBlock [.htlcSpent 1 (30, 0)] where
  wf := ⟨by decide, by decide, by intro h0 h; simp [exL, exS1, exS0, State.init] at h⟩
  det := by decide
  pre := ⟨⟨_, 0, rfl, rfl, rfl, by simp [Closing.new]⟩, fun _ _ _ _ => trivial⟩
  ds := by intro op h; simp at h
  stable := by
    intro s1 a r h
    have key : (addBlock exL.st exHtlcBlock).map
        (fun d => detect { d.1 with sawBlock := true } exHtlcBlock) =
        some (some [.htlcSpent 1 (30, 0)]) := by decide
    rw [h] at key
    simpa using key

/-- the HTLC-spend block is structurally valid and its spends are fresh, so the structural round
trip covers HTLC spends as well -/
theorem exHtlc_valid : ValidBlock exL.st exHtlcBlock where
  topo := by simp [Topo, exHtlcBlock]
  noDoubleSpend := by simp [NoDoubleSpend, exHtlcBlock]
  fundOnce := by simp [FundOnce, exHtlcBlock, exL, exS1, exS0, State.init]
  fundFresh := by simp [exHtlcBlock, exL, exS1, exS0, State.init]
  closeOnce := by simp [exHtlcBlock, exL, exS1, exS0, State.init]
  closingFunded := by simp [exL, exS1, exS0, State.init]

theorem exHtlc_fresh : SpendFresh exL.st exHtlcBlock where
  inputsNodup := by decide
  txidsNodup := by decide
  ourUnspent := by
    intro c i hc ho
    simp only [exL, Option.some.injEq] at hc
    subst hc
    simp [Closing.new] at ho
  htlcUnspent := by
    intro c v i hc _ hs
    simp only [exL, Option.some.injEq] at hc
    subst hc
    exact absurd hs (getElem?_map_false _ _)
  secondUnspent := by
    intro c e hc he
    simp only [exL, Option.some.injEq] at hc
    subst hc
    simp [Closing.new] at he
  secondFresh := by
    intro c e hc he
    simp only [exL, Option.some.injEq] at hc
    subst hc
    simp [Closing.new] at he
  fundingLinked := by simp [exL, exS1, exS0, State.init]
  uniLinked := by simp [exL, exS1, exS0, State.init]
  mutualFinal := by simp [exL, exS1, exS0, State.init]
  dsFresh := by simp [exHtlcBlock, exL, exS1, exS0, State.init]

example : GoodWith exL.st exHtlcBlock [.htlcSpent 1 (30, 0)] :=
  GoodWith.of_valid ⟨by decide, by decide, by intro h0 h; simp [exL, exS1, exS0, State.init] at h⟩
    exHtlc_valid exHtlc_fresh (by decide)

/-! ### Arbitrary histories: the view is a function of the best chain -/

/-- a block connection or the disconnection of the current tip -/
inductive Op where
  | add (txs : List Tx)
  | remove

/-- monitor state together with the stack of connected blocks (tip first) -/
abbrev Cfg := State × List (List Tx)

/-- one step; `none` = the signer panicked (or a disconnection without a connected block) -/
def step : Cfg → Op → Option Cfg
  | (s, st), .add txs => (addBlock s txs).map (fun d => (d.1, txs :: st))
  | (_, []), .remove => none
  | (s, txs :: st), .remove => (removeBlock s txs).map (fun d => (d.1, st))

def run : Cfg → List Op → Option Cfg
  | p, [] => some p
  | p, op :: ops => match step p op with | none => none | some p' => run p' ops

/-- connect the blocks of a chain (given tip first) in order, starting from `s0` -/
def replay (s0 : State) : List (List Tx) → Option State
  | [] => some s0
  | txs :: st => (replay s0 st).bind (fun s => (addBlock s txs).map (·.1))

/-- every connection in the history happens at a state where the round-trip hypotheses hold -/
def GoodRun : Cfg → List Op → Prop
  | _, [] => True
  | p, op :: ops =>
    (match op with | .add txs => Good p.1 txs | .remove => True) ∧
    ∀ p', step p op = some p' → GoodRun p' ops

/-- invariant: `s` is the replay of the stack, each block having been connected at a good state -/
def Chain (s0 : State) : List (List Tx) → State → Prop
  | [], s => s = s0
  | txs :: st, s => ∃ s' a r, Chain s0 st s' ∧ Good s' txs ∧ addBlock s' txs = some (s, a, r)

/-! Auxiliary invariant lemmas for `C14_best_chain` (they speak about the definitions above, so
they cannot live in `VlsModel/Lemmas/Monitor.lean`). -/

theorem Chain.sawBlock {s0 s : State} {st : List (List Tx)} (h0 : s0.sawBlock = true)
    (h : Chain s0 st s) : s.sawBlock = true := by
  cases st with
  | nil => rw [show s = s0 from h]; exact h0
  | cons txs st =>
    obtain ⟨s', a, r, _, _, hadd⟩ := h
    exact addBlock_sawBlock hadd

theorem Chain.replay {s0 s : State} {st : List (List Tx)} (h : Chain s0 st s) :
    replay s0 st = some s := by
  induction st generalizing s with
  | nil => rw [show s = s0 from h]; rfl
  | cons txs st ih =>
    obtain ⟨s', a, r, hc, _, hadd⟩ := h
    simp [C14.replay, ih hc, hadd]

/-- one step preserves the invariant, and a disconnection of a connected block never panics -/
theorem Chain.step {s0 s : State} {st : List (List Tx)} (h0 : s0.sawBlock = true)
    (h : Chain s0 st s) (op : Op)
    (hg : match op with | .add txs => Good s txs | .remove => True) :
    (∀ p', C14.step (s, st) op = some p' → Chain s0 p'.2 p'.1) ∧
    (op = .remove → st ≠ [] → C14.step (s, st) op ≠ none) := by
  cases op with
  | add txs =>
    refine ⟨?_, fun h => by cases h⟩
    intro p' hp
    obtain ⟨d, hd, rfl⟩ := Option.map_eq_some_iff.mp hp
    obtain ⟨s1, a, r⟩ := d
    exact ⟨s, a, r, h, hg, hd⟩
  | remove =>
    cases st with
    | nil => exact ⟨fun p' hp => by simp [C14.step] at hp, fun _ hne => absurd rfl hne⟩
    | cons txs st =>
      obtain ⟨s', a, r, hc, hgood, hadd⟩ := h
      obtain ⟨a', r', hrem⟩ := hgood.roundtrip hadd
      rw [eq_of_sawBlock (hc.sawBlock h0)] at hrem
      refine ⟨?_, fun _ _ => by simp [C14.step, hrem]⟩
      intro p' hp
      simp only [C14.step, hrem, Option.map_some, Option.some.injEq] at hp
      subst hp
      exact hc

theorem Chain.run {s0 : State} (h0 : s0.sawBlock = true) {p p' : Cfg} {ops : List Op}
    (h : Chain s0 p.2 p.1) (hg : GoodRun p ops) (hr : C14.run p ops = some p') :
    Chain s0 p'.2 p'.1 := by
  induction ops generalizing p with
  | nil => simp only [C14.run, Option.some.injEq] at hr; subst hr; exact h
  | cons op ops ih =>
    simp only [C14.run] at hr
    cases hs : C14.step p op with
    | none => simp [hs] at hr
    | some q =>
      simp only [hs] at hr
      obtain ⟨s, st⟩ := p
      exact ih ((Chain.step h0 h op hg.1).1 q hs) (hg.2 q hs) hr

/-- **C14, best chain**: after any history of block connections and disconnections starting from
`s0` (which has already seen a block), in which every connection happens at a state satisfying the
round-trip hypotheses (`Good`), the final monitor state equals the state obtained by connecting
only the blocks of the surviving chain, in order. -/
theorem C14_best_chain {s0 s : State} {st : List (List Tx)} {ops : List Op}
    (h0 : s0.sawBlock = true) (hg : GoodRun (s0, []) ops)
    (hr : run (s0, []) ops = some (s, st)) :
    replay s0 st = some s :=
  (Chain.run h0 (p := (s0, [])) rfl hg hr).replay

/-- **C14, a reorganisation never aborts**: in such a history, disconnecting the current tip never
panics, at any point (here: the step after any executed prefix `ops`). -/
theorem C14_reorg_no_abort {s0 s : State} {st : List (List Tx)} {ops : List Op}
    (h0 : s0.sawBlock = true) (hg : GoodRun (s0, []) ops)
    (hr : run (s0, []) ops = some (s, st)) (hne : st ≠ []) :
    step (s, st) .remove ≠ none :=
  (Chain.step h0 (Chain.run h0 (p := (s0, [])) rfl hg hr) .remove trivial).2 rfl hne

/-- every connection in the history happens at a well-formed state, with a structurally valid
block whose spends are fresh, and the listener does not panic while scanning the block -/
def ValidRun : Cfg → List Op → Prop
  | _, [] => True
  | p, op :: ops =>
    (match op with
      | .add txs => WF p.1 ∧ ValidBlock p.1 txs ∧ SpendFresh p.1 txs ∧
          detect { p.1 with sawBlock := true } txs ≠ none
      | .remove => True) ∧
    ∀ p', step p op = some p' → ValidRun p' ops

theorem ValidRun.goodRun {p : Cfg} {ops : List Op} (h : ValidRun p ops) : GoodRun p ops := by
  induction ops generalizing p with
  | nil => trivial
  | cons op ops ih =>
    refine ⟨?_, fun p' hp' => ih (h.2 p' hp')⟩
    cases op with
    | remove => trivial
    | add txs =>
      obtain ⟨hwf, v, f, hd⟩ := h.1
      cases hdet : detect { p.1 with sawBlock := true } txs with
      | none => exact absurd hdet hd
      | some cs => exact Good.of_valid hwf v f hdet

/-- **C14, best chain, structural form**: `C14_best_chain` with the semantic hypotheses of `Good`
replaced by `WF` + `ValidBlock` + `SpendFresh` at every connection. -/
theorem C14_best_chain_valid {s0 s : State} {st : List (List Tx)} {ops : List Op}
    (h0 : s0.sawBlock = true) (hg : ValidRun (s0, []) ops)
    (hr : run (s0, []) ops = some (s, st)) :
    replay s0 st = some s :=
  C14_best_chain h0 hg.goodRun hr

/-- **C14, a reorganisation never aborts, structural form** -/
theorem C14_reorg_no_abort_valid {s0 s : State} {st : List (List Tx)} {ops : List Op}
    (h0 : s0.sawBlock = true) (hg : ValidRun (s0, []) ops)
    (hr : run (s0, []) ops = some (s, st)) (hne : st ≠ []) :
    step (s, st) .remove ≠ none :=
  C14_reorg_no_abort h0 hg.goodRun hr hne

/-- non-vacuity of the history theorems: connect the close+sweep block, then disconnect it -/
example : GoodRun (exS1, []) [.add exCloseSweepBlock, .remove] :=
  ⟨⟨_, exClose_good⟩, fun _ _ => ⟨trivial, fun _ _ => trivial⟩⟩
example : (run (exS1, []) [.add exCloseSweepBlock, .remove]) = some (exS1, []) := by decide

/-! ### Two regression instances (seeded changes C14/2 and C15/1 of the follow-up round)

The view of `funding_double_spent_height`: the code keeps ONE height, the height of the earliest
block on the best chain that spends a funding input (`get_or_insert` forward; backward it is cleared
only when it equals the height of the block being disconnected).  `C14_roundtrip`/`C14_best_chain`
cover it through the whole-list lemma `ds_roundtrip`, whose hypothesis is exactly "the recorded
height is below the block being connected". -/

/-- funding tx 7 with two inputs; tx 8 double-spends input (1,0) at height 101, tx 9 double-spends
input (2,0) at height 103; disconnecting only the later block keeps the double spend at 101. -/
def exDs0 : State := State.init 100 7 0 [(1, 0), (2, 0)]
def exDsA : List Tx := [{ txid := 8, inputs := [(1, 0)], nOut := 1, kind := .plain }]
def exDsB : List Tx := [{ txid := 9, inputs := [(2, 0)], nOut := 1, kind := .plain }]

example :
    ((((addBlock exDs0 exDsA).bind (fun d => addBlock d.1 [])).bind (fun d => addBlock d.1 exDsB)).bind
        (fun d => removeBlock d.1 exDsB)).map (fun d => (d.1.height, d.1.dsHeight)) =
      some (102, some 101) ∧
    (((addBlock exDs0 exDsA).bind (fun d => addBlock d.1 [])).bind (fun d => addBlock d.1 exDsB)).map
        (fun d => d.1.dsHeight) = some (some 101) := by decide

/-- `closing_swept_height` is cleared when a disconnection un-sweeps *only* an HTLC-related output
(our own output staying swept): close 20 with our output 0 and HTLC output 1; sweep of our output
(tx 21), HTLC spend (tx 30), second-level spend (tx 31) in three blocks; disconnecting the last one
clears the swept height but not `our_output_swept_height`. -/
def exSw0 : State := exS1
def exSwClose : List Tx := [{ txid := 20, inputs := [(7, 0)], nOut := 2, kind := .commit (some 0) [1] }]
def exSwOur : List Tx := [{ txid := 21, inputs := [(20, 0)], nOut := 1, kind := .plain }]
def exSwHtlc : List Tx := [{ txid := 30, inputs := [(20, 1)], nOut := 1, kind := .plain }]
def exSwSecond : List Tx := [{ txid := 31, inputs := [(30, 0)], nOut := 1, kind := .plain }]

example :
    let full := (((addBlock exSw0 exSwClose).bind (fun d => addBlock d.1 exSwOur)).bind
        (fun d => addBlock d.1 exSwHtlc)).bind (fun d => addBlock d.1 exSwSecond)
    full.map (fun d => (d.1.closingSweptHeight, d.1.ourSweptHeight)) = some (some 109, some 107) ∧
    (full.bind (fun d => removeBlock d.1 exSwSecond)).map
        (fun d => (d.1.closingSweptHeight, d.1.ourSweptHeight, d.1.isClosingSwept)) =
      some (none, some 107, false) := by decide

/-! ### `WF` as an invariant: the history theorems without the per-step `WF` hypothesis -/

/-- **`WF` is preserved by connecting a structurally valid block with fresh spends.** -/
theorem C14_wf_add_valid {s s1 : State} {txs : List Tx} {a r : List OutPoint}
    (hwf : WF s) (v : ValidBlock s txs) (f : SpendFresh s txs)
    (hadd : addBlock s txs = some (s1, a, r)) : WF s1 := by
  cases hdet : detect { s with sawBlock := true } txs with
  | none => simp [addBlock, hdet] at hadd
  | some cs => exact addBlock_WF hwf hdet (C14_pre_of_valid v f hdet) hadd

/-- `WF` is preserved by disconnecting the block just connected (the round trip returns the
well-formed pre-state). -/
theorem C14_wf_remove_valid {s s1 : State} {txs : List Tx} {a r : List OutPoint}
    (hwf : WF s) (v : ValidBlock s txs) (f : SpendFresh s txs)
    (hadd : addBlock s txs = some (s1, a, r)) :
    ∃ s2 a' r', removeBlock s1 txs = some (s2, a', r') ∧ WF s2 := by
  obtain ⟨a', r', h, _⟩ := C14_roundtrip_valid hwf v f hadd
  exact ⟨_, a', r', h, hwf⟩

/-- every connection in the history is of a structurally valid block whose spends are fresh, and
the listener does not panic while scanning the block (no `WF` hypothesis: it is an invariant) -/
def ValidRun' : Cfg → List Op → Prop
  | _, [] => True
  | p, op :: ops =>
    (match op with
      | .add txs => ValidBlock p.1 txs ∧ SpendFresh p.1 txs ∧
          detect { p.1 with sawBlock := true } txs ≠ none
      | .remove => True) ∧
    ∀ p', step p op = some p' → ValidRun' p' ops

/-- invariant: `s` is the replay of the stack, every block having been connected at a well-formed
state, structurally valid and with fresh spends -/
def VChain (s0 : State) : List (List Tx) → State → Prop
  | [], s => s = s0
  | txs :: st, s => ∃ s' a r, VChain s0 st s' ∧ WF s' ∧ ValidBlock s' txs ∧ SpendFresh s' txs ∧
      addBlock s' txs = some (s, a, r)

theorem VChain.wf {s0 s : State} {st : List (List Tx)} (hwf : WF s0) (h : VChain s0 st s) :
    WF s := by
  cases st with
  | nil => rw [show s = s0 from h]; exact hwf
  | cons txs st =>
    obtain ⟨s', a, r, _, w, v, f, hadd⟩ := h
    exact C14_wf_add_valid w v f hadd

theorem VChain.chain {s0 s : State} {st : List (List Tx)} (h : VChain s0 st s) :
    Chain s0 st s := by
  induction st generalizing s with
  | nil => exact h
  | cons txs st ih =>
    obtain ⟨s', a, r, hc, w, v, f, hadd⟩ := h
    refine ⟨s', a, r, ih hc, ?_, hadd⟩
    cases hdet : detect { s' with sawBlock := true } txs with
    | none => simp [addBlock, hdet] at hadd
    | some cs => exact Good.of_valid w v f hdet

theorem VChain.step {s0 s : State} {st : List (List Tx)} (h0 : s0.sawBlock = true)
    (hwf : WF s0) (h : VChain s0 st s) (op : Op)
    (hg : match op with
      | .add txs => ValidBlock s txs ∧ SpendFresh s txs
      | .remove => True) :
    ∀ p', C14.step (s, st) op = some p' → VChain s0 p'.2 p'.1 := by
  cases op with
  | add txs =>
    intro p' hp
    obtain ⟨d, hd, rfl⟩ := Option.map_eq_some_iff.mp hp
    obtain ⟨s1, a, r⟩ := d
    exact ⟨s, a, r, h, h.wf hwf, hg.1, hg.2, hd⟩
  | remove =>
    cases st with
    | nil => intro p' hp; simp [C14.step] at hp
    | cons txs st =>
      obtain ⟨s', a, r, hc, w, v, f, hadd⟩ := h
      obtain ⟨a', r', hrem, _⟩ := C14_roundtrip_valid w v f hadd
      rw [eq_of_sawBlock (hc.chain.sawBlock h0)] at hrem
      intro p' hp
      simp only [C14.step, hrem, Option.map_some, Option.some.injEq] at hp
      subst hp
      exact hc

theorem VChain.run {s0 : State} (h0 : s0.sawBlock = true) (hwf : WF s0) {p p' : Cfg}
    {ops : List Op} (h : VChain s0 p.2 p.1) (hg : ValidRun' p ops)
    (hr : C14.run p ops = some p') : VChain s0 p'.2 p'.1 := by
  induction ops generalizing p with
  | nil => simp only [C14.run, Option.some.injEq] at hr; subst hr; exact h
  | cons op ops ih =>
    simp only [C14.run] at hr
    cases hs : C14.step p op with
    | none => simp [hs] at hr
    | some q =>
      simp only [hs] at hr
      obtain ⟨s, st⟩ := p
      refine ih (VChain.step h0 hwf h op ?_ q hs) (hg.2 q hs) hr
      cases op with
      | remove => trivial
      | add txs => exact ⟨hg.1.1, hg.1.2.1⟩

/-- **C14, best chain, structural form with `WF` as an invariant**: `WF` is required of the initial
state only; at every connection only `ValidBlock`, `SpendFresh` and "detection did not panic". -/
theorem C14_best_chain_valid_wf0 {s0 s : State} {st : List (List Tx)} {ops : List Op}
    (h0 : s0.sawBlock = true) (hwf : WF s0) (hg : ValidRun' (s0, []) ops)
    (hr : run (s0, []) ops = some (s, st)) :
    replay s0 st = some s :=
  (VChain.run h0 hwf (p := (s0, [])) rfl hg hr).chain.replay

/-- the final state of such a history is well-formed -/
theorem C14_wf_run_valid_wf0 {s0 s : State} {st : List (List Tx)} {ops : List Op}
    (h0 : s0.sawBlock = true) (hwf : WF s0) (hg : ValidRun' (s0, []) ops)
    (hr : run (s0, []) ops = some (s, st)) : WF s :=
  (VChain.run h0 hwf (p := (s0, [])) rfl hg hr).wf hwf

/-- **C14, a reorganisation never aborts, structural form with `WF` as an invariant** -/
theorem C14_reorg_no_abort_valid_wf0 {s0 s : State} {st : List (List Tx)} {ops : List Op}
    (h0 : s0.sawBlock = true) (hwf : WF s0) (hg : ValidRun' (s0, []) ops)
    (hr : run (s0, []) ops = some (s, st)) (hne : st ≠ []) :
    step (s, st) .remove ≠ none :=
  (Chain.step h0 (VChain.run h0 hwf (p := (s0, [])) rfl hg hr).chain .remove trivial).2 rfl hne

/-! ### Whole-chain consensus validity

`ValidBlock` / `SpendFresh` are *relative to the monitor state*.  Here they are derived from a
predicate on the chain alone (`ConsensusValid`: distinct txids, every outpoint spent at most once,
spends after creation) plus the shape of the funding transaction (`FundingShape`), through the
representation invariant `Rep` (`VlsModel/Lemmas/MonitorChain.lean`): every fact the monitor has
recorded is about a txid / an input of the chain prefix it has seen. -/

/-- consensus validity of a chain (bottom block first; `chain.flatten` = its transactions in chain
order): txids pairwise distinct, every outpoint spent at most once, no input refers to the txid of
the same or a later transaction. -/
structure ConsensusValid (chain : List (List Tx)) : Prop where
  txidsNodup : (chain.flatten.map (·.txid)).Nodup
  inputsNodup : (chain.flatten.flatMap (·.inputs)).Nodup
  topo : Topo chain.flatten

/-- the transaction with the funding txid `ftx` spends (at least) the funding inputs `fins` the
monitor was told about (`add_funding_inputs` is called with the inputs of the funding tx) -/
def FundingShape (ftx : Nat) (fins : List OutPoint) (chain : List (List Tx)) : Prop :=
  ∀ tx ∈ chain.flatten, tx.txid = ftx → ∀ inp ∈ fins, inp ∈ tx.inputs

/-- `Rep` relative to a chain prefix -/
def RepC (ftx : Nat) (fins : List OutPoint) (pre : List (List Tx)) (s : State) : Prop :=
  Rep ftx fins (pre.flatten.map (·.txid)) (pre.flatten.flatMap (·.inputs)) s

/-- **Per-prefix statement**: if the monitor state `s` represents the prefix `pre` of a
consensus-valid, well-shaped chain, the next block `blk` is structurally valid and its spends are
fresh relative to `s` (all fields of `ValidBlock` and `SpendFresh` are derived). -/
theorem C14_valid_of_consensus {ftx : Nat} {fins : List OutPoint} {pre : List (List Tx)}
    {blk : List Tx} {s : State}
    (cv : ConsensusValid (pre ++ [blk])) (fs : FundingShape ftx fins (pre ++ [blk]))
    (rp : RepC ftx fins pre s) : ValidBlock s blk ∧ SpendFresh s blk := by
  obtain ⟨hx, hi, ht⟩ := cv
  simp only [List.flatten_append, List.flatten_cons, List.flatten_nil, List.append_nil,
    List.map_append, List.flatMap_append] at hx hi ht
  obtain ⟨_, nx, dx⟩ := List.nodup_append.mp hx
  obtain ⟨_, nd, di⟩ := List.nodup_append.mp hi
  have notinI : ∀ op, op ∈ pre.flatten.flatMap (·.inputs) → op ∉ blk.flatMap (·.inputs) :=
    fun op h h' => di op h op h' rfl
  have notinX : ∀ x, x ∈ pre.flatten.map (·.txid) → x ∉ blk.map (·.txid) :=
    fun x h h' => dx x h x h' rfl
  have hft := rp.ft
  constructor
  · refine ⟨ht.suffix, noDoubleSpend_of_nodup nd, by rw [hft]; exact fundOnce_of_nodup nx,
      ?_, ?_, ?_⟩
    · intro h tx hm hc
      rw [hft] at hc
      simp only [List.mem_singleton] at hc
      exact notinX ftx (rp.fo h) (List.mem_map.mpr ⟨tx, hm, hc⟩)
    · intro h tx hm inp hin heq
      obtain ⟨op, h1, h2⟩ := rp.cf h
      rw [h1] at heq
      have e : inp = op := Option.some.inj heq
      rw [e] at hin
      exact notinI op h2 (List.mem_flatMap.mpr ⟨tx, hm, hin⟩)
    · intro h
      obtain ⟨op, h1, _⟩ := rp.cf h
      rw [h1]; rfl
  · refine ⟨nd, nx, fun c i hc ho => notinI _ (rp.our c i hc ho),
      fun c v i hc hp hs => notinI _ (rp.htlc c v i hc hp hs),
      fun c e hc he hf => notinI _ (rp.sec c e hc he hf),
      fun c e hc he => notinX _ (rp.secx c e hc he), rp.fh, rp.uh, ?_, ?_⟩
    · intro h
      obtain ⟨op, h1, h2⟩ := rp.mh h
      refine ⟨by rw [h1]; rfl, ?_⟩
      intro inp hin heq
      rw [h1] at heq
      have e : inp = op := Option.some.inj heq
      rw [e] at hin
      exact notinI op h2 hin
    · rintro ⟨tx, hm, hc⟩
      cases hd : s.dsHeight with
      | none => rfl
      | some x =>
        exfalso
        obtain ⟨inp, hf, hI⟩ := rp.ds (by simp [hd])
        rw [hft] at hc
        simp only [List.mem_singleton] at hc
        have hin := fs tx (by simp [hm]) hc inp hf
        exact notinI inp hI (List.mem_flatMap.mpr ⟨tx, hm, hin⟩)

/-- **`Rep` is preserved by connecting the next block** -/
theorem C14_rep_add_valid {ftx : Nat} {fins : List OutPoint} {pre : List (List Tx)}
    {blk : List Tx} {s s1 : State} {a r : List OutPoint}
    (rp : RepC ftx fins pre s) (v : ValidBlock s blk) (f : SpendFresh s blk)
    (hadd : addBlock s blk = some (s1, a, r)) : RepC ftx fins (pre ++ [blk]) s1 := by
  have := Rep.addBlock rp v.ok f.jinv f.inputsNodup f.txidsNodup hadd
  simp only [RepC, List.flatten_append, List.flatten_cons, List.flatten_nil, List.append_nil,
    List.map_append, List.flatMap_append]
  exact this

/-- the initial state of a channel stub represents the empty chain, and is well-formed -/
theorem C14_rep_init (h ftx fvout : Nat) (inputs : List OutPoint) :
    RepC ftx inputs [] (State.init h ftx fvout inputs) := Rep.init h ftx fvout inputs

theorem C14_wf_init (h ftx fvout : Nat) (inputs : List OutPoint) :
    WF (State.init h ftx fvout inputs) :=
  ⟨fun _ => rfl, fun _ => rfl, fun _ hh => by cases hh⟩

/-- along a `VChain` the state represents the stack (read bottom first) -/
theorem VChain.rep {ftx : Nat} {fins : List OutPoint} {s0 s : State} {st : List (List Tx)}
    (rp0 : RepC ftx fins [] s0) (h : VChain s0 st s) : RepC ftx fins st.reverse s := by
  induction st generalizing s with
  | nil => rw [show s = s0 from h]; exact rp0
  | cons txs st ih =>
    obtain ⟨s', a, r, hc, _, v, f, hadd⟩ := h
    rw [List.reverse_cons]
    exact C14_rep_add_valid (ih hc) v f hadd

/-- the stack, read as a chain, is consensus-valid and the funding transaction is well-shaped -/
def ChainOK (ftx : Nat) (fins : List OutPoint) (st : List (List Tx)) : Prop :=
  ConsensusValid st.reverse ∧ FundingShape ftx fins st.reverse

/-- every connection in the history extends the current chain to a consensus-valid, well-shaped
chain (nothing is assumed about the monitor states) -/
def ConsRun (ftx : Nat) (fins : List OutPoint) : Cfg → List Op → Prop
  | _, [] => True
  | p, op :: ops =>
    (match op with
      | .add txs => ChainOK ftx fins (txs :: p.2)
      | .remove => True) ∧
    ∀ p', step p op = some p' → ConsRun ftx fins p' ops

theorem VChain.run_cons {ftx : Nat} {fins : List OutPoint} {s0 : State}
    (h0 : s0.sawBlock = true) (hwf : WF s0) (rp0 : RepC ftx fins [] s0) {p p' : Cfg}
    {ops : List Op} (h : VChain s0 p.2 p.1) (hg : ConsRun ftx fins p ops)
    (hr : C14.run p ops = some p') : VChain s0 p'.2 p'.1 := by
  induction ops generalizing p with
  | nil => simp only [C14.run, Option.some.injEq] at hr; subst hr; exact h
  | cons op ops ih =>
    simp only [C14.run] at hr
    cases hs : C14.step p op with
    | none => simp [hs] at hr
    | some q =>
      simp only [hs] at hr
      obtain ⟨s, st⟩ := p
      refine ih (VChain.step h0 hwf h op ?_ q hs) (hg.2 q hs) hr
      cases op with
      | remove => trivial
      | add txs =>
        have hok : ChainOK ftx fins (txs :: st) := hg.1
        obtain ⟨cv, fs⟩ := hok
        rw [List.reverse_cons] at cv fs
        exact C14_valid_of_consensus cv fs (h.rep rp0)

/-- **C14, best chain, consensus form** (general initial state that has already seen a block):
for every history of connections/disconnections starting from a well-formed `s0` representing the
empty chain, in which every connection yields a consensus-valid, well-shaped chain and which did not
panic, the final state is the replay of the surviving chain. -/
theorem C14_best_chain_consensus_of {ftx : Nat} {fins : List OutPoint} {s0 s : State}
    {st : List (List Tx)} {ops : List Op}
    (h0 : s0.sawBlock = true) (hwf : WF s0) (rp0 : RepC ftx fins [] s0)
    (hg : ConsRun ftx fins (s0, []) ops) (hr : run (s0, []) ops = some (s, st)) :
    replay s0 st = some s :=
  (VChain.run_cons h0 hwf rp0 (p := (s0, [])) rfl hg hr).chain.replay

theorem C14_reorg_no_abort_consensus_of {ftx : Nat} {fins : List OutPoint} {s0 s : State}
    {st : List (List Tx)} {ops : List Op}
    (h0 : s0.sawBlock = true) (hwf : WF s0) (rp0 : RepC ftx fins [] s0)
    (hg : ConsRun ftx fins (s0, []) ops) (hr : run (s0, []) ops = some (s, st)) (hne : st ≠ []) :
    step (s, st) .remove ≠ none :=
  (Chain.step h0 (VChain.run_cons h0 hwf rp0 (p := (s0, [])) rfl hg hr).chain .remove
    trivial).2 rfl hne

/-- in such a history the final state is well-formed, represents the surviving chain, and the next
block of any consensus-valid extension is `ValidBlock`/`SpendFresh` -/
theorem C14_run_consensus_inv {ftx : Nat} {fins : List OutPoint} {s0 s : State}
    {st : List (List Tx)} {ops : List Op}
    (h0 : s0.sawBlock = true) (hwf : WF s0) (rp0 : RepC ftx fins [] s0)
    (hg : ConsRun ftx fins (s0, []) ops) (hr : run (s0, []) ops = some (s, st)) :
    WF s ∧ RepC ftx fins st.reverse s :=
  have h := VChain.run_cons h0 hwf rp0 (p := (s0, [])) rfl hg hr
  ⟨h.wf hwf, h.rep rp0⟩

/-! the same from the real initial state `State.init` (which has `sawBlock = false`; connection
sets the flag for good, so the empty surviving chain is reached with the flag set) -/

theorem step_sawBlock_nil (s0 : State) (op : Op) :
    step ({ s0 with sawBlock := true }, []) op = step (s0, []) op := by
  cases op <;> rfl

theorem run_sawBlock_nil (s0 : State) (op : Op) (ops : List Op) :
    run ({ s0 with sawBlock := true }, []) (op :: ops) = run (s0, []) (op :: ops) := by
  simp only [run, step_sawBlock_nil]

theorem replay_sawBlock (s0 : State) (b : List Tx) (st : List (List Tx)) :
    replay { s0 with sawBlock := true } (b :: st) = replay s0 (b :: st) := by
  induction st generalizing b with
  | nil => rfl
  | cons b' st ih =>
    show (replay { s0 with sawBlock := true } (b' :: st)).bind _ = (replay s0 (b' :: st)).bind _
    rw [ih]

theorem ConsRun.sawBlock_nil {ftx : Nat} {fins : List OutPoint} {s0 : State} {ops : List Op}
    (hg : ConsRun ftx fins (s0, []) ops) :
    ConsRun ftx fins ({ s0 with sawBlock := true }, []) ops := by
  cases ops with
  | nil => trivial
  | cons op ops =>
    exact ⟨hg.1, fun p' hp => hg.2 p' (by rw [← hp, step_sawBlock_nil])⟩

/-- **C14, best chain, consensus form**: start from the initial state of a channel stub
(`State.init`: funding not confirmed, nothing closed).  For every history of block connections and
disconnections in which every connection extends the current chain to a `ConsensusValid` chain
whose funding transaction has the announced inputs (`FundingShape`), and which did not panic, the
final monitor state equals the replay of the surviving chain (with the `saw_block` flag set if the
surviving chain is empty but a block was connected before).  No hypothesis mentions the monitor
state. -/
theorem C14_best_chain_consensus {h ftx fvout : Nat} {inputs : List OutPoint} {s : State}
    {st : List (List Tx)} {ops : List Op}
    (hg : ConsRun ftx inputs (State.init h ftx fvout inputs, []) ops)
    (hr : run (State.init h ftx fvout inputs, []) ops = some (s, st)) :
    replay (State.init h ftx fvout inputs) st = some s ∨
      (st = [] ∧ s = { State.init h ftx fvout inputs with sawBlock := true }) := by
  cases ops with
  | nil =>
    simp only [run, Option.some.injEq, Prod.mk.injEq] at hr
    obtain ⟨rfl, rfl⟩ := hr
    exact Or.inl rfl
  | cons op ops =>
    rw [← run_sawBlock_nil] at hr
    have k := C14_best_chain_consensus_of (ftx := ftx) (fins := inputs)
      (s0 := { State.init h ftx fvout inputs with sawBlock := true }) rfl
      (show WF _ from C14_wf_init h ftx fvout inputs) ((Rep.init h ftx fvout inputs).congr rfl)
      hg.sawBlock_nil hr
    cases st with
    | nil =>
      simp only [replay, Option.some.injEq] at k
      exact Or.inr ⟨rfl, k.symm⟩
    | cons b st => rw [replay_sawBlock] at k; exact Or.inl k

/-- **C14, a reorganisation never aborts, consensus form**: in such a history, disconnecting the
current tip does not panic. -/
theorem C14_reorg_no_abort_consensus {h ftx fvout : Nat} {inputs : List OutPoint} {s : State}
    {st : List (List Tx)} {ops : List Op}
    (hg : ConsRun ftx inputs (State.init h ftx fvout inputs, []) ops)
    (hr : run (State.init h ftx fvout inputs, []) ops = some (s, st)) (hne : st ≠ []) :
    step (s, st) .remove ≠ none := by
  cases ops with
  | nil =>
    simp only [run, Option.some.injEq, Prod.mk.injEq] at hr
    exact absurd hr.2.symm hne
  | cons op ops =>
    rw [← run_sawBlock_nil] at hr
    exact C14_reorg_no_abort_consensus_of (ftx := ftx) (fins := inputs)
      (s0 := { State.init h ftx fvout inputs with sawBlock := true }) rfl
      (show WF _ from C14_wf_init h ftx fvout inputs) ((Rep.init h ftx fvout inputs).congr rfl)
      hg.sawBlock_nil hr hne

/-! ### No panic on connection (partial: the scan of the block itself is still a premise) -/

/-- **`on_add_block_end` does not panic** for a structurally valid block with fresh spends: if the
listener scanned the block without panic (`detect ≠ none`), the whole connection does not panic
(every detected change is applicable, `applyForward_of_pre`). -/
theorem C14_add_no_panic_of_detect {s : State} {txs : List Tx}
    (v : ValidBlock s txs) (f : SpendFresh s txs)
    (hd : detect { s with sawBlock := true } txs ≠ none) : addBlock s txs ≠ none := by
  cases hdet : detect { s with sawBlock := true } txs with
  | none => exact absurd hdet hd
  | some cs =>
    have hp := C14_pre_of_valid v f hdet
    obtain ⟨s1, a, r, h⟩ := addEnd_of_preAll (s := { s with sawBlock := true }) hp
    simp only [addBlock, hdet, h]
    simp

/-- **Neither connecting nor disconnecting the next block of a consensus-valid, well-shaped chain
panics**, provided the scan of the block does not (`detect ≠ none`); the post-state is again
well-formed and represents the extended chain, and the disconnection restores the pre-state. -/
theorem C14_no_abort_consensus_of_detect {ftx : Nat} {fins : List OutPoint}
    {pre : List (List Tx)} {blk : List Tx} {s : State}
    (hwf : WF s) (rp : RepC ftx fins pre s)
    (cv : ConsensusValid (pre ++ [blk])) (fs : FundingShape ftx fins (pre ++ [blk]))
    (hd : detect { s with sawBlock := true } blk ≠ none) :
    ∃ s1 a r, addBlock s blk = some (s1, a, r) ∧ WF s1 ∧ RepC ftx fins (pre ++ [blk]) s1 ∧
      ∃ a' r', removeBlock s1 blk = some ({ s with sawBlock := true }, a', r') ∧
        a'.Perm a ∧ r'.Perm r := by
  obtain ⟨v, f⟩ := C14_valid_of_consensus cv fs rp
  cases hadd : addBlock s blk with
  | none => exact absurd hadd (C14_add_no_panic_of_detect v f hd)
  | some d =>
    obtain ⟨s1, a, r⟩ := d
    exact ⟨s1, a, r, rfl, C14_wf_add_valid hwf v f hadd, C14_rep_add_valid rp v f hadd,
      C14_roundtrip_valid hwf v f hadd⟩

/-! non-vacuity of the consensus form: funding block, then close + sweep in one block, then a
disconnection; the hypotheses are about the chain only -/

example : ConsRun 7 [(1, 0)] (exS0, []) [.add exFundingBlock, .add exCloseSweepBlock, .remove] := by
  have cv1 : ChainOK 7 [(1, 0)] [exFundingBlock] :=
    ⟨⟨by decide, by decide, by simp [Topo, exFundingBlock]⟩, by simp [FundingShape, exFundingBlock]⟩
  have cv2 : ChainOK 7 [(1, 0)] [exCloseSweepBlock, exFundingBlock] :=
    ⟨⟨by decide, by decide, by simp [Topo, exFundingBlock, exCloseSweepBlock]⟩,
      by simp [FundingShape, exFundingBlock, exCloseSweepBlock]⟩
  refine ⟨cv1, fun p' hp => ?_⟩
  simp only [step] at hp
  obtain ⟨d, _, rfl⟩ := Option.map_eq_some_iff.mp hp
  refine ⟨cv2, fun p'' hp' => ?_⟩
  simp only [step] at hp'
  obtain ⟨d', _, rfl⟩ := Option.map_eq_some_iff.mp hp'
  exact ⟨trivial, fun _ _ => trivial⟩

example : (run (exS0, []) [.add exFundingBlock, .add exCloseSweepBlock, .remove]).map
    (fun p => (p.1.height, p.1.fundingHeight, p.1.closing, p.2)) =
    some (101, some 101, none, [exFundingBlock]) := by decide

/-! ## The views other components read: funding depth, double-spend depth, closing depth, `as_chain_state`

The statement speaks of "each channel's view of its funding depth, double-spend, mutual or unilateral close".  The code
hands these out through `ChainMonitor::{funding_depth, funding_double_spent_depth, closing_depth}` (saturating
`depth_of`) and `ChainMonitorBase::as_chain_state` (plain `height + 1 - h`), modelled as `State.fundingDepth`,
`dsDepth`, `closingDepth`, `chainState`.  They are functions of the state, so the best-chain theorems carry over;
what is specific to them: `as_chain_state` cannot underflow on any state reached by connecting blocks, and then the two
families agree. -/

/-- a replay of a chain from a state without recorded heights above its height keeps that invariant -/
theorem replay_heightsOk {s0 s : State} (h0 : HeightsOk s0) :
    ∀ {st : List (List Tx)}, replay s0 st = some s → HeightsOk s ∧ s.height = s0.height + st.length := by
  intro st
  induction st generalizing s with
  | nil => intro e; simp only [replay, Option.some.injEq] at e; subst e; exact ⟨h0, rfl⟩
  | cons txs st ih =>
    intro e
    simp only [replay] at e
    cases hr : replay s0 st with
    | none => simp [hr] at e
    | some s1 =>
      simp only [hr, Option.bind_some] at e
      obtain ⟨d, hd, rfl⟩ := Option.map_eq_some_iff.mp e
      obtain ⟨s2, a, r⟩ := d
      obtain ⟨h1, e1⟩ := ih hr
      obtain ⟨h2, e2⟩ := addBlock_heightsOk h1 hd
      exact ⟨h2, by simp only [List.length_cons]; rw [e2, e1]; omega⟩

/-- **C14, views.** After any valid history of connections and disconnections (hypotheses of `C14_best_chain_valid`)
    starting from a state with no recorded height above its own: the monitor's height is the start height plus the
    length of the surviving chain, `as_chain_state` does not panic, and it reports exactly the depths
    `funding_depth` / `funding_double_spent_depth` report — all of them being those of the replay of the surviving
    chain (`hrep`). -/
theorem C14_views_best_chain {s0 s : State} {st : List (List Tx)} {ops : List Op}
    (h0 : s0.sawBlock = true) (hh : HeightsOk s0) (hg : ValidRun (s0, []) ops)
    (hr : run (s0, []) ops = some (s, st)) :
    replay s0 st = some s ∧ s.height = s0.height + st.length ∧ HeightsOk s ∧
    ∃ c, s.chainState = some c ∧ c.currentHeight = s.height ∧ c.fundingDepth = s.fundingDepth ∧
      c.dsDepth = s.dsDepth ∧
      ((s.uniHeight = none ∨ s.mutualHeight = none) → c.closingDepth = s.closingDepth) := by
  have hrep := C14_best_chain_valid h0 hg hr
  obtain ⟨hs, hlen⟩ := replay_heightsOk hh hrep
  refine ⟨hrep, hlen, hs, _, chainState_of_heightsOk hs, rfl, rfl, rfl, fun hb => closingDepth_pref hb⟩

/-- connect-then-disconnect restores every view (corollary of `C14_roundtrip_valid`: the state is restored up to
    `saw_block`, which no view reads) -/
theorem C14_roundtrip_views {s s1 : State} {txs : List Tx} {a r : List OutPoint}
    (hwf : WF s) (v : ValidBlock s txs) (f : SpendFresh s txs) (hadd : addBlock s txs = some (s1, a, r)) :
    ∃ s2 a' r', removeBlock s1 txs = some (s2, a', r') ∧
      s2.fundingDepth = s.fundingDepth ∧ s2.dsDepth = s.dsDepth ∧ s2.closingDepth = s.closingDepth ∧
      s2.chainState = s.chainState := by
  obtain ⟨a', r', hrem, _⟩ := C14_roundtrip_valid hwf v f hadd
  exact ⟨_, a', r', hrem, rfl, rfl, rfl, rfl⟩

/-- a freshly confirmed funding has depth 1; each further block adds exactly 1; un-confirmed is 0 -/
theorem C14_funding_depth_counts {s s' : State} {txs : List Tx} {a r : List OutPoint} (hh : HeightsOk s)
    (hadd : addBlock s txs = some (s', a, r)) :
    (s'.fundingHeight = none → s'.fundingDepth = 0) ∧
    (s'.fundingHeight = some s'.height → s'.fundingDepth = 1) ∧
    (∀ x, s.fundingHeight = some x → s'.fundingHeight = some x → s'.fundingDepth = s.fundingDepth + 1) := by
  obtain ⟨_, e⟩ := addBlock_heightsOk hh hadd
  refine ⟨fun h => ?_, fun h => ?_, fun x h1 h2 => ?_⟩
  · unfold State.fundingDepth; rw [h]; exact depthOf_none _
  · unfold State.fundingDepth; rw [h]; exact depthOf_self _
  · unfold State.fundingDepth; rw [h1, h2]; exact depthOf_succ (hh.hFunding x h1) e

/-- non-vacuity: funding confirmed at 101, two more blocks: depth 3, chain state (103, 3, 0, 0) -/
example :
    (run (exS0, []) [.add exFundingBlock, .add [], .add []]).map
      (fun p => (p.1.fundingDepth, p.1.dsDepth, p.1.closingDepth, p.1.chainState)) =
    some (3, 0, 0, some ⟨103, 3, 0, 0⟩) := by decide

/-- the hypothesis is needed: with a recorded height above `height + 1` the real `as_chain_state` underflows -/
example : ({ exS0 with fundingHeight := some 105 } : State).chainState = none := by decide

end VlsModel.Props.C14
