import VlsModel.Props.C18
import VlsModel.Gen.FnByteUtils
import VlsModel.Gen.FnChanId
import VlsModel.Gen.FnDerive
import VlsModel.Gen.FnDeriveKeys
import VlsModel.Gen.FnKeysMgr
import VlsModel.Gen.FnDeriveLdk
import VlsModel.Gen.FnChannelKeys
import VlsModel.Gen.FnKeysMgrAux
import VlsModel.Gen.FnChannel
import VlsModel.Gen.FnKeysMgrNode
import VlsModel.Gen.FnDeriveLnd
import VlsModel.Lemmas.FnGen
/-
C18 — `Keys.be64` (the BIP32 child index `LdkKeyDerive::channel_keys` reads off `keys_id[0..8]`,
`Model/Keys.lean`) proved equal to the body of `byte_utils::slice_to_be64` that `translate/rs2lean.py` regenerates
from `vls-core/src/util/byte_utils.rs` (`Gen/FnByteUtils.lean`): eight indexed bytes, each widened to `u64`, shifted
by `8 * k` and or-ed together.  The code indexes `v[0] … v[7]`, so it panics on a slice shorter than 8 bytes
(`C18_fn_slice_to_be64_short`); the only caller hands it `&keys_id[0..8]` of a `[u8; 32]`.  The model's `be64`
looks at the first 8 bytes only, like the code (`C18_fn_slice_to_be64` holds for any longer slice too).
-/
namespace VlsModel.Props.C18Fn
open VlsModel VlsModel.Keys
open VlsModel.Sha256 (Bytes)

/-- a byte placed at bit `8·k` plus lower bits = or-ing it in -/
theorem shl_or (h v k : Nat) (hv : v < 2 ^ k) : h <<< k ||| v = h * 2 ^ k + v := by
  rw [← Nat.shiftLeft_add_eq_or_of_lt hv, Nat.shiftLeft_eq]

theorem be64_cons8 (a b c d e f g h : UInt8) (rest : List UInt8) :
    be64 (a :: b :: c :: d :: e :: f :: g :: h :: rest)
      = ((((((a.toNat * 256 + b.toNat) * 256 + c.toNat) * 256 + d.toNat) * 256 + e.toNat) * 256 + f.toNat) * 256
          + g.toNat) * 256 + h.toNat := by
  simp [be64, List.take, List.foldl]

/-- the flat or-of-shifts of the source equals the Horner form, for bytes -/
theorem or_shifts (a b c d e f g h : Nat) (ha : a < 256) (hb : b < 256) (hc : c < 256) (hd : d < 256)
    (he : e < 256) (hf : f < 256) (hg : g < 256) (hh : h < 256) :
    Nat.lor (Nat.lor (Nat.lor (Nat.lor (Nat.lor (Nat.lor (Nat.lor ((a <<< 56) % 2 ^ 64) ((b <<< 48) % 2 ^ 64))
      ((c <<< 40) % 2 ^ 64)) ((d <<< 32) % 2 ^ 64)) ((e <<< 24) % 2 ^ 64)) ((f <<< 16) % 2 ^ 64)) ((g <<< 8) % 2 ^ 64))
      ((h <<< 0) % 2 ^ 64)
    = ((((((a * 256 + b) * 256 + c) * 256 + d) * 256 + e) * 256 + f) * 256 + g) * 256 + h := by
  have m : ∀ x k, x < 256 → k ≤ 56 → (x <<< k) % 2 ^ 64 = x <<< k := by
    intro x k hx hk
    apply Nat.mod_eq_of_lt
    rw [Nat.shiftLeft_eq]
    calc x * 2 ^ k < 256 * 2 ^ k := Nat.mul_lt_mul_of_pos_right hx (Nat.two_pow_pos k)
      _ ≤ 256 * 2 ^ 56 := Nat.mul_le_mul_left 256 (Nat.pow_le_pow_right (by decide) hk)
      _ = 2 ^ 64 := by decide
  rw [m a 56 ha (by decide), m b 48 hb (by decide), m c 40 hc (by decide), m d 32 hd (by decide),
    m e 24 he (by decide), m f 16 hf (by decide), m g 8 hg (by decide), m h 0 hh (by decide)]
  -- Horner side as shifts and ors, then distribute
  have s1 : a * 256 + b = a <<< 8 ||| b := (shl_or a b 8 (by simpa using hb)).symm
  have s2 : (a <<< 8 ||| b) * 256 + c = (a <<< 8 ||| b) <<< 8 ||| c := (shl_or _ c 8 (by simpa using hc)).symm
  have s3 : ((a <<< 8 ||| b) <<< 8 ||| c) * 256 + d = ((a <<< 8 ||| b) <<< 8 ||| c) <<< 8 ||| d :=
    (shl_or _ d 8 (by simpa using hd)).symm
  have s4 : (((a <<< 8 ||| b) <<< 8 ||| c) <<< 8 ||| d) * 256 + e = (((a <<< 8 ||| b) <<< 8 ||| c) <<< 8 ||| d) <<< 8 ||| e :=
    (shl_or _ e 8 (by simpa using he)).symm
  have s5 : ((((a <<< 8 ||| b) <<< 8 ||| c) <<< 8 ||| d) <<< 8 ||| e) * 256 + f
      = ((((a <<< 8 ||| b) <<< 8 ||| c) <<< 8 ||| d) <<< 8 ||| e) <<< 8 ||| f := (shl_or _ f 8 (by simpa using hf)).symm
  have s6 : (((((a <<< 8 ||| b) <<< 8 ||| c) <<< 8 ||| d) <<< 8 ||| e) <<< 8 ||| f) * 256 + g
      = (((((a <<< 8 ||| b) <<< 8 ||| c) <<< 8 ||| d) <<< 8 ||| e) <<< 8 ||| f) <<< 8 ||| g :=
    (shl_or _ g 8 (by simpa using hg)).symm
  have s7 : ((((((a <<< 8 ||| b) <<< 8 ||| c) <<< 8 ||| d) <<< 8 ||| e) <<< 8 ||| f) <<< 8 ||| g) * 256 + h
      = ((((((a <<< 8 ||| b) <<< 8 ||| c) <<< 8 ||| d) <<< 8 ||| e) <<< 8 ||| f) <<< 8 ||| g) <<< 8 ||| h :=
    (shl_or _ h 8 (by simpa using hh)).symm
  rw [s1, s2, s3, s4, s5, s6, s7]
  show a <<< 56 ||| b <<< 48 ||| c <<< 40 ||| d <<< 32 ||| e <<< 24 ||| f <<< 16 ||| g <<< 8 ||| h <<< 0 = _
  simp only [Nat.shiftLeft_or_distrib, ← Nat.shiftLeft_add, Nat.shiftLeft_zero]

/-- **C18_fn_slice_to_be64.** on a slice of at least 8 bytes the generated body returns the model's `be64` -/
theorem C18_fn_slice_to_be64 (a b c d e f g h : UInt8) (rest : List UInt8) :
    Gen.FnByteUtils.slice_to_be64 ((a :: b :: c :: d :: e :: f :: g :: h :: rest).map UInt8.toNat)
      = .ok (be64 (a :: b :: c :: d :: e :: f :: g :: h :: rest)) := by
  rw [be64_cons8]
  simp only [Gen.FnByteUtils.slice_to_be64, List.map, Rs.index, Rs.ushl, List.getElem?_cons_zero,
    List.getElem?_cons_succ, Rs.bind_ok, Rs.pure_eq, Nat.reduceLT, if_true]
  exact congrArg Except.ok (or_shifts _ _ _ _ _ _ _ _ a.toNat_lt b.toNat_lt c.toNat_lt d.toNat_lt e.toNat_lt
    f.toNat_lt g.toNat_lt h.toNat_lt)

/-- shorter than 8 bytes: an index is out of range, the code panics (the model's driver reports `panic` too) -/
theorem C18_fn_slice_to_be64_short (v : List Nat) (h : v.length < 8) :
    Gen.FnByteUtils.slice_to_be64 v = .error .panic := by
  match v, h with
  | [], _ => rfl
  | [_], _ => rfl
  | [_, _], _ => rfl
  | [_, _, _], _ => rfl
  | [_, _, _, _], _ => rfl
  | [_, _, _, _, _], _ => rfl
  | [_, _, _, _, _, _], _ => rfl
  | [_, _, _, _, _, _, _], _ => rfl
  | _ :: _ :: _ :: _ :: _ :: _ :: _ :: _ :: _, h => simp at h; omega


/-! ## `ChannelId` of channel.rs: the generated bodies = the model's constructors and accessors

`"tuple_structs": ["ChannelId"]`: the newtype is its `Vec<u8>` (a list of byte values).  `toN` reads the model's
`Bytes` as such a list. -/

def toN (b : Bytes) : List Nat := b.map UInt8.toNat

theorem toN_length (b : Bytes) : (toN b).length = b.length := by simp [toN]

theorem toN_append (a b : Bytes) : toN (a ++ b) = toN a ++ toN b := by simp [toN]

theorem toN_inj (a b : Bytes) (h : toN a = toN b) : a = b := by
  induction a generalizing b with
  | nil => cases b <;> simp_all [toN]
  | cons x xs ih =>
    cases b with
    | nil => simp [toN] at h
    | cons y ys =>
      simp only [toN, List.map_cons, List.cons.injEq] at h
      rw [UInt8.toNat_inj.mp h.1, ih ys h.2]

theorem toLeBytes_length (n x : Nat) : (Rs.toLeBytes n x).length = n := by simp [Rs.toLeBytes]

theorem toN_le64 (o : Nat) : toN (le64 o) = Rs.toLeBytes 8 o := by
  simp only [toN, le64, Rs.toLeBytes, List.map_map]
  apply List.map_congr_left
  intro i _
  simp [UInt8.toNat_ofNat']

theorem toN_replicate_zero (n : Nat) : toN (List.replicate n 0) = List.replicate n 0 := by
  simp [toN]

theorem fromLeBytes_toN (b : Bytes) : Rs.fromLeBytes (toN b) = le64Val b := by
  simp only [Rs.fromLeBytes, Rs.fromBeBytes, List.foldl_reverse, le64Val, toN]
  induction b with
  | nil => rfl
  | cons x xs ih => simp only [List.map_cons, List.foldr_cons, ih]; omega

/-- `ChannelId::new(inner)` and `as_slice()` are the identity on the bytes: a `ChannelId` *is* the id the model uses -/
theorem C18_fn_chanid_new (id : Bytes) :
    Gen.FnChanId.ChannelId.new (toN id) = toN id ∧ Gen.FnChanId.ChannelId.as_slice (toN id) = toN id := ⟨rfl, rfl⟩

/-- **C18_fn_chanid_of_peer_oid.** generated `new_from_peer_id_and_oid` = `Keys.chanIdOfPeerOid` (for a `[u8; 33]`) -/
theorem C18_fn_chanid_of_peer_oid (p : Bytes) (o : Nat) (hp : p.length = 33) :
    Gen.FnChanId.ChannelId.new_from_peer_id_and_oid (toN p) o = .ok (toN (chanIdOfPeerOid p o)) := by
  have hl : (toN p).length = 33 := by simp [toN_length, hp]
  have h1 : Rs.copyFromSlice (List.replicate 41 (0 : Nat)) 0 33 (toN p) = .ok (toN p ++ List.replicate 8 0) := by
    simp [Rs.copyFromSlice, hl]
  have hlen : (toN p ++ List.replicate 8 (0 : Nat)).length = 41 := by simp [hl]
  have h2 : Rs.copyFromSlice (toN p ++ List.replicate 8 (0 : Nat)) 33 41 (Rs.toLeBytes 8 o)
      = .ok (toN p ++ Rs.toLeBytes 8 o) := by
    have ht : (toN p ++ List.replicate 8 (0 : Nat)).take 33 = toN p := by rw [← hl]; exact List.take_left
    have hd : (toN p ++ List.replicate 8 (0 : Nat)).drop 41 = [] := by
      apply List.drop_eq_nil_of_le; omega
    have hc : 33 ≤ 41 ∧ 41 ≤ (toN p ++ List.replicate 8 (0 : Nat)).length ∧ (Rs.toLeBytes 8 o).length = 41 - 33 :=
      ⟨by decide, by omega, by simp [toLeBytes_length]⟩
    unfold Rs.copyFromSlice
    rw [if_pos hc, ht, hd]
    simp
  simp only [Gen.FnChanId.ChannelId.new_from_peer_id_and_oid, Gen.FnChanId.ChannelId.new, Rs.slice,
    List.length_replicate, h1, hlen, Rs.bind_ok, Rs.pure_eq, h2, chanIdOfPeerOid, toN_append, toN_le64]
  simp

/-- **C18_fn_chanid_of_oid.** generated `new_from_oid` = `Keys.chanIdOfOid` -/
theorem C18_fn_chanid_of_oid (o : Nat) :
    Gen.FnChanId.ChannelId.new_from_oid o = .ok (toN (chanIdOfOid o)) := by
  have h2 : Rs.copyFromSlice (List.replicate 32 (0 : Nat)) 24 32 (Rs.toLeBytes 8 o)
      = .ok (List.replicate 24 0 ++ Rs.toLeBytes 8 o) := by
    simp [Rs.copyFromSlice, toLeBytes_length]
  simp only [Gen.FnChanId.ChannelId.new_from_oid, Gen.FnChanId.ChannelId.new, Rs.slice,
    List.length_replicate, Rs.bind_ok, Rs.pure_eq, h2, chanIdOfOid, toN_append, toN_le64, toN_replicate_zero]
  simp

/-- **C18_fn_chanid_oid.** generated `oid()` = `Keys.chanIdOid`; on an id shorter than 8 bytes `len - 8` underflows
    (overflow-checked build: panic; release build: the wrapped start index makes the slice panic) = the model's `none` -/
theorem C18_fn_chanid_oid (id : Bytes) :
    Gen.FnChanId.ChannelId.oid (toN id)
      = (match chanIdOid id with
         | some n => .ok n
         | none => .error .overflow) := by
  by_cases h : id.length < 8
  · have : ¬ 8 ≤ (toN id).length := by simp [toN_length]; omega
    simp [Gen.FnChanId.ChannelId.oid, Rs.usub, this, chanIdOid, h, Rs.overflow]
  · have h8 : 8 ≤ (toN id).length := by simp [toN_length]; omega
    have hs : ((toN id).drop ((toN id).length - 8)).take ((toN id).length - ((toN id).length - 8))
        = toN (id.drop (id.length - 8)) := by
      have : (toN id).length - ((toN id).length - 8) = 8 := by omega
      rw [this, toN_length]
      simp only [toN, ← List.map_drop]
      apply List.take_of_length_le
      simp; omega
    have hl8 : (toN (id.drop (id.length - 8))).length = 8 := by simp [toN_length]; omega
    simp only [Gen.FnChanId.ChannelId.oid, Rs.usub, h8, if_true, Rs.bind_ok, Rs.pure_eq, Rs.slice,
      Nat.sub_le, Nat.le_refl, and_true, hs, chanIdOid, h, if_false]
    simp [Rs.copyFromSlice, hl8, fromLeBytes_toN]

/-- **C18_fn_chanid_ldk_keys_id.** generated `ldk_channel_keys_id()` = `Keys.chanIdLdkKeysId` (panic unless 32 bytes) -/
theorem C18_fn_chanid_ldk_keys_id (id : Bytes) :
    Gen.FnChanId.ChannelId.ldk_channel_keys_id (toN id)
      = (match chanIdLdkKeysId id with
         | some x => .ok (toN x)
         | none => .error .panic) := by
  by_cases h : id.length = 32
  · simp [Gen.FnChanId.ChannelId.ldk_channel_keys_id, Rs.copyFromSlice, toN_length, h, chanIdLdkKeysId]
  · simp [Gen.FnChanId.ChannelId.ldk_channel_keys_id, Rs.copyFromSlice, toN_length, h, chanIdLdkKeysId, Rs.panic]

/-- the distinctness theorems of `Props/C18.lean` are therefore about the ids the *generated* constructor builds:
    two different (peer id, dbid) requests give different generated ids -/
theorem C18_fn_chanid_injective (p p' : Bytes) (o o' : Nat) (hp : p.length = 33) (hp' : p'.length = 33)
    (ho : o < 2 ^ 64) (ho' : o' < 2 ^ 64)
    (h : Gen.FnChanId.ChannelId.new_from_peer_id_and_oid (toN p) o
       = Gen.FnChanId.ChannelId.new_from_peer_id_and_oid (toN p') o') : p = p' ∧ o = o' := by
  rw [C18_fn_chanid_of_peer_oid p o hp, C18_fn_chanid_of_peer_oid p' o' hp'] at h
  exact Props.C18.C18_chanid_injective p p' o o' (by omega) ho ho' (toN_inj _ _ (Except.ok.inj h))


/-! ## derive.rs: `channels_seed`, `keys_id` (trait default = Native and Lnd, and the LDK override)

`hkdf_sha256` (crypto_utils.rs) is an explicit parameter `ext` of the generated definitions; the model's `Prims.hkdf32`
is the same function on `Bytes` (`hext`).  What is proved from the source text: which argument is the secret, which the
info string (its bytes, spelled out by the translator from the literal) and which the salt, and the LDK masking
statements `res[0] = 0; … res[4] &= 0x7f` one by one. -/

/-- **C18_fn_channels_seed.** generated `KeyDerive::channels_seed` (trait default, any implementor) = `channelSeedBase` -/
theorem C18_fn_channels_seed {SelfT : Type} (P : Prims) (ext : List Nat → List Nat → List Nat → List Nat)
    (hext : ∀ a b c, ext (toN a) (toN b) (toN c) = toN (P.hkdf32 a b c)) (self : SelfT) (seed : Bytes) :
    Gen.FnDerive.KeyDerive.channels_seed ext self (toN seed) = toN (channelSeedBase P seed) := by
  have := hext seed Gen.KeyDeriveUse.infoPeerSeed []
  simpa [Gen.FnDerive.KeyDerive.channels_seed, channelSeedBase, toN, Gen.KeyDeriveUse.infoPeerSeed] using this

/-- **C18_fn_keys_id_default.** generated default `KeyDerive::keys_id` = `keysIdOf` for the styles that do not
    override it (Native, Lnd): secret = the channel seed base, info = "per-peer seed", salt = the channel id -/
theorem C18_fn_keys_id_default {SelfT : Type} (P : Prims) (ext : List Nat → List Nat → List Nat → List Nat)
    (hext : ∀ a b c, ext (toN a) (toN b) (toN c) = toN (P.hkdf32 a b c)) (self : SelfT) (base id : Bytes) :
    Gen.FnDerive.KeyDerive.keys_id ext self (toN id) (toN base) = toN (keysIdOf P .native base id) ∧
    Gen.FnDerive.KeyDerive.keys_id ext self (toN id) (toN base) = toN (keysIdOf P .lnd base id) := by
  have := hext base Gen.KeyDeriveUse.infoPerPeerSeed id
  constructor <;>
    simpa [Gen.FnDerive.KeyDerive.keys_id, keysIdOf, maskOf, applyMask, Gen.KeyDeriveUse.nativeKeysIdMask,
      Gen.KeyDeriveUse.lndKeysIdMask, toN, Gen.KeyDeriveUse.infoPerPeerSeed] using this

/-- **C18_fn_keys_id_ldk.** generated `LdkKeyDerive::keys_id` = `keysIdOf .ldk` (HKDF, then the five masking
    statements); the HKDF output is a `[u8; 32]`, at least the five bytes the statements index -/
theorem C18_fn_keys_id_ldk (P : Prims) (ext : List Nat → List Nat → List Nat → List Nat)
    (hext : ∀ a b c, ext (toN a) (toN b) (toN c) = toN (P.hkdf32 a b c)) (self : Gen.FnDerive.LdkKeyDerive)
    (base id : Bytes) (hlen : 5 ≤ (P.hkdf32 base Gen.KeyDeriveUse.infoPerPeerSeed id).length) :
    Gen.FnDerive.LdkKeyDerive.keys_id ext self (toN id) (toN base) = .ok (toN (keysIdOf P .ldk base id)) := by
  have he := hext base Gen.KeyDeriveUse.infoPerPeerSeed id
  have hi : toN Gen.KeyDeriveUse.infoPerPeerSeed = [112, 101, 114, 45, 112, 101, 101, 114, 32, 115, 101, 101, 100] := by decide
  rw [hi] at he
  match hr : P.hkdf32 base Gen.KeyDeriveUse.infoPerPeerSeed id, hlen with
  | b0 :: b1 :: b2 :: b3 :: b4 :: rest, _ =>
    simp only [Gen.FnDerive.LdkKeyDerive.keys_id, keysIdOf, maskOf, he, hr]
    simp [toN, Rs.setIndex, Rs.index, applyMask, Gen.KeyDeriveUse.ldkKeysIdMask, List.modify]


/-! ## channel.rs: the guards of `get_per_commitment_point` / `get_per_commitment_secret_or_none` /
`release_commitment_secret` and the commitment index handed to the signer

The bodies are regenerated in `Gen/FnChannel.lean` (targets of the C01 builder).  Here the C18 model's guards
`pointAllowed`, `secretReleasable`, the index `INITIAL_COMMITMENT_NUMBER - n` of `holderSecret` and the reply of a
repeated revocation (`revokeReply`) are proved to be those bodies.  `genChan c` is the generated view of a ready model
channel (its signer = the key material, `next_holder_commit_num`); the signer's `release_commitment_secret(idx)` is
`commitSecret H seed idx` (LDK `build_commitment_secret`), `SecretKey::from_slice` never fails on 32 bytes. -/

def genChan (c : Chan) : Gen.FnChannel.Channel KeyMaterial := ⟨c.keys, ⟨c.nextHolder⟩⟩

def relSecret (H : Bytes → Bytes) : KeyMaterial → Nat → Option Bytes :=
  fun k idx => some (commitSecret H k.commitmentSeed idx)

/-- **C18_fn_point_guard.** generated `Channel::get_per_commitment_point` = the model's guard `pointAllowed` (ready
    channel): point `n` is handed out iff `n ≤ next_holder_commit_num + 1`, else `policy-optional-fail-fast` -/
theorem C18_fn_point_guard {PK : Type} (ext : Nat → PK) (c : Chan) (n : Nat) (hr : c.ready = true)
    (hn : c.nextHolder < Rs.U64_MAX) :
    Gen.FnChannel.Channel.get_per_commitment_point ext (genChan c) n
      = if pointAllowed c n then .ok (ext n) else .error (.err "policy-optional-fail-fast") := by
  have h1 : c.nextHolder + 1 ≤ Rs.U64_MAX := by omega
  by_cases h : n ≤ c.nextHolder + 1
  · have : ¬ n > c.nextHolder + 1 := by omega
    simp [Gen.FnChannel.Channel.get_per_commitment_point, genChan, Rs.uadd, h1, pointAllowed, hr, h, this]
  · have : n > c.nextHolder + 1 := by omega
    simp [Gen.FnChannel.Channel.get_per_commitment_point, genChan, Rs.uadd, h1, pointAllowed, hr, h, this, Rs.fail]

/-- **C18_fn_secret_or_none.** generated `Channel::get_per_commitment_secret_or_none` = the model: a secret is
    handed out iff `secretReleasable` (`n + 2 ≤ next_holder_commit_num`), and it is the signer's secret at index
    `INITIAL_COMMITMENT_NUMBER - n` = `holderSecret` -/
theorem C18_fn_secret_or_none (H : Bytes → Bytes) (c : Chan) (n : Nat) (hr : c.ready = true)
    (hb : c.nextHolder ≤ INITIAL_COMMITMENT_NUMBER + 2) :
    Gen.FnChannel.Channel.get_per_commitment_secret_or_none (relSecret H) some (genChan c) n
      = .ok (if secretReleasable c n then holderSecret H c.keys n else none) := by
  have hI : INITIAL_COMMITMENT_NUMBER = 281474976710655 := by decide
  by_cases h : n + 2 ≤ c.nextHolder
  · have h1 : n + 2 ≤ Rs.U64_MAX := by simp [Rs.U64_MAX]; omega
    have h2 : ¬ n + 2 > c.nextHolder := by omega
    have h3 : n ≤ 281474976710655 := by omega
    have h4 : n ≤ INITIAL_COMMITMENT_NUMBER := by omega
    simp [Gen.FnChannel.Channel.get_per_commitment_secret_or_none, genChan, Rs.ucheckedAdd, h1, h2, Rs.usub, h3,
      relSecret, Rs.unwrap, secretReleasable, hr, h, holderSecret, hI]
  · by_cases h1 : n + 2 ≤ Rs.U64_MAX
    · have h2 : n + 2 > c.nextHolder := by omega
      simp [Gen.FnChannel.Channel.get_per_commitment_secret_or_none, genChan, Rs.ucheckedAdd, h1, h2,
        secretReleasable, h]
    · simp [Gen.FnChannel.Channel.get_per_commitment_secret_or_none, genChan, Rs.ucheckedAdd, h1,
        secretReleasable, h]

/-- **C18_fn_release_commitment_secret.** generated `Channel::release_commitment_secret(N)` on the branch a repeated
    revocation takes (`N < next_holder_commit_num`, no policy filter) = the model's `revokeReply`: the next point is
    point `N + 1`, the released secret is `holderSecret (N - 1)` (none for `N = 0`), the channel is unchanged -/
theorem C18_fn_release_commitment_secret {PK : Type} (H : Bytes → Bytes) (ext : Nat → PK) (c : Chan) (N : Nat)
    (hr : c.ready = true) (hN : N < c.nextHolder) (hb : c.nextHolder ≤ INITIAL_COMMITMENT_NUMBER + 2) :
    Gen.FnChannel.Channel.release_commitment_secret ext (fun _ => true) (relSecret H) some (genChan c) N
      = .ok (genChan c, (ext (N + 1), if N = 0 then none else holderSecret H c.keys (N - 1))) ∧
    revokeReply H c N = some (if N = 0 then none else holderSecret H c.keys (N - 1), holderSecret H c.keys (N + 1)) := by
  have hI : INITIAL_COMMITMENT_NUMBER = 281474976710655 := by decide
  have hmax : c.nextHolder + 1 ≤ Rs.U64_MAX := by simp [Rs.U64_MAX]; omega
  have hsat : Rs.usatAdd Rs.U64_MAX N 1 = N + 1 := by
    simp [Rs.usatAdd, Rs.U64_MAX, Nat.min_def]; omega
  have hp : ¬ N + 1 > c.nextHolder + 1 := by omega
  constructor
  · by_cases h0 : N = 0
    · subst h0
      simp [Gen.FnChannel.Channel.release_commitment_secret, Gen.FnChannel.Channel.get_per_commitment_point, genChan,
        hsat, Rs.uadd, hmax, hp]
    · have hge : N ≥ 1 := by omega
      have h1 : N - 1 + 2 ≤ Rs.U64_MAX := by simp [Rs.U64_MAX]; omega
      have h2 : ¬ N - 1 + 2 > c.nextHolder := by omega
      have h3 : N - 1 ≤ 281474976710655 := by omega
      have h4 : N - 1 ≤ INITIAL_COMMITMENT_NUMBER := by omega
      have h5 : 1 ≤ N := hge
      simp [Gen.FnChannel.Channel.release_commitment_secret, Gen.FnChannel.Channel.get_per_commitment_point,
        Gen.FnChannel.Channel.get_per_commitment_secret, genChan, hsat, Rs.uadd, hmax, hp, hge, h0, Rs.usub,
        Rs.ucheckedAdd, h1, h2, h3, relSecret, Rs.unwrap, holderSecret, hI]
  · simp [revokeReply, hr, hN]

/-- a stub never hands out a secret: generated `ChannelStub::get_per_commitment_secret_or_none` / `…_secret` and the
    model's `secretReleasable` on a channel that is not ready -/
theorem C18_fn_stub_secret (c : Chan) (n : Nat) (hr : c.ready = false) :
    Gen.FnChannel.ChannelStub.get_per_commitment_secret_or_none (SecretKey := Bytes) ⟨⟩ n = none ∧
    Gen.FnChannel.ChannelStub.get_per_commitment_secret (SecretKey := Bytes) ⟨⟩ n
      = .error (.err "policy-revoke-new-commitment-valid") ∧
    secretReleasable c n = false := by
  refine ⟨rfl, rfl, ?_⟩
  simp [secretReleasable, hr]

/-- **C18_fn_ldk_index_in_range.** the LDK derivation's `assert!(chan_id <= u32::MAX)` and
    `from_hardened_idx(chan_id as u32)` see exactly the value of the generated function: on a keys id masked with the
    *generated* LDK masks (`Gen/KeyDeriveUse.lean`) the generated `slice_to_be64` succeeds and returns a BIP32 index
    below 2^31, so neither can fire (source-level counterpart of `C18_ldk_keys_id_in_range` / `C18_ldk_no_panic`) -/
theorem C18_fn_ldk_index_in_range (b0 b1 b2 b3 b4 b5 b6 b7 : UInt8) (rest : List UInt8) :
    ∃ n, Gen.FnByteUtils.slice_to_be64
        ((applyMask Gen.KeyDeriveUse.ldkKeysIdMask (b0 :: b1 :: b2 :: b3 :: b4 :: b5 :: b6 :: b7 :: rest)).map UInt8.toNat)
      = .ok n ∧ n < 2 ^ 31 := by
  have hm : applyMask Gen.KeyDeriveUse.ldkKeysIdMask (b0 :: b1 :: b2 :: b3 :: b4 :: b5 :: b6 :: b7 :: rest)
      = (b0 &&& 0) :: (b1 &&& 0) :: (b2 &&& 0) :: (b3 &&& 0) :: (b4 &&& 127) :: b5 :: b6 :: b7 :: rest := by
    simp [applyMask, Gen.KeyDeriveUse.ldkKeysIdMask, List.modify]
  refine ⟨be64 (applyMask Gen.KeyDeriveUse.ldkKeysIdMask (b0 :: b1 :: b2 :: b3 :: b4 :: b5 :: b6 :: b7 :: rest)), ?_,
    Props.C18.C18_ldk_keys_id_in_range b0 b1 b2 b3 b4 b5 b6 b7 rest⟩
  rw [hm]
  exact C18_fn_slice_to_be64 _ _ _ _ _ _ _ _ rest

example : Gen.FnByteUtils.slice_to_be64 [0, 0, 0, 0, 127, 255, 255, 255, 9, 9] = .ok 2147483647
    ∧ Gen.FnByteUtils.slice_to_be64 [0, 0, 0, 1, 0, 0, 0, 0] = .ok 4294967296
    ∧ Gen.FnByteUtils.slice_to_be64 [1, 2, 3] = .error .panic := by
  refine ⟨?_, ?_, ?_⟩ <;> rfl


/-! ## derive.rs (round 9): the bodies of `channel_keys` (Native, Lnd), `master_key`, `node_keys` (all three styles),
`get_account_extended_key*`, `KeyDerivationStyle::from_str` as regenerated in `Gen/FnDeriveKeys.lean`
(`translate/fn_targets/DeriveKeys.b1819.json`).  HKDF, secp256k1 and BIP32 are declared externals = explicit function
parameters, over which every theorem quantifies; `Xpriv` is seen through the one field the code reads (`private_key`),
`bitcoin::Network` as its unit variants.  What is proved from the source text: which bytes feed which primitive (seed /
keys id / info string / salt), the slice arithmetic `ndx .. ndx + 32` of the 192-byte buffer, the order of the result
tuple, the BIP32 paths and LND key families, and which parameters do not reach the result at all. -/
section DeriveKeys
open VlsModel.Gen.FnDeriveKeys


/-- **C18_fn_native_new.** the constructor stores the network and nothing else -/
theorem C18_fn_native_new (net : Network) : NativeKeyDerive.new net = ⟨net⟩ := rfl

/-- bytes `32k .. 32k+32` of a buffer, on the generated side (`List Nat`) -/
def chunkN (buf : List Nat) (k : Nat) : List Nat := (buf.drop (32 * k)).take 32

theorem toN_slice32 (b : Bytes) (k : Nat) : toN (slice32 b k) = chunkN (toN b) k := by
  simp [toN, slice32, chunkN, List.map_take, List.map_drop]

/-- **C18_fn_native_channel_keys.** the generated body of `NativeKeyDerive::channel_keys`, for any `hkdf_sha256_keys`
    whose output has the 192 bytes of its return type `[u8; 192]` and any `SecretKey::from_slice`: the buffer is
    `hkdf_sha256_keys(keys_id, "c-lightning", [])`, key number `k` is `from_slice(buf[32k .. 32k+32]).unwrap()` in the order
    funding, revocation, htlc, payment, delayed, and the commitment seed is bytes 160..192.  No overflow, no slice
    panic, no `try_into` panic; the only possible panic is a refused `from_slice`. -/
theorem C18_fn_native_channel_keys {SK Ctx : Type} (kdf : List Nat → List Nat → List Nat → List Nat)
    (fs : List Nat → Option SK) (self : NativeKeyDerive) (seed kid : List Nat) (bi : Nat) (mk : Xpriv SK) (ctx : Ctx)
    (hlen : (kdf kid (toN Gen.KeyDeriveUse.infoNativeKeys) []).length = 192) :
    NativeKeyDerive.channel_keys kdf fs self seed kid bi mk ctx =
      (do let buf := kdf kid (toN Gen.KeyDeriveUse.infoNativeKeys) []
          let f ← Rs.unwrap (fs (chunkN buf 0))
          let r ← Rs.unwrap (fs (chunkN buf 1))
          let h ← Rs.unwrap (fs (chunkN buf 2))
          let p ← Rs.unwrap (fs (chunkN buf 3))
          let d ← Rs.unwrap (fs (chunkN buf 4))
          pure (f, r, h, p, d, chunkN buf 5)) := by
  have hi : toN Gen.KeyDeriveUse.infoNativeKeys = [99, 45, 108, 105, 103, 104, 116, 110, 105, 110, 103] := by decide
  rw [hi] at hlen ⊢
  simp [NativeKeyDerive.channel_keys, Rs.uadd, Rs.USIZE_MAX, Rs.slice, Rs.arrayOfSlice, hlen, chunkN]

/-- **C18_fn_native_channel_keys_model.** with `hkdf_sha256_keys` the executable model (`hkdfSha256Keys`, validated byte
    for byte against crypto_utils.rs) and a `from_slice` that accepts the six chunks, the generated body returns exactly
    the six secrets of the model's `nativeChanKeysFn`, in the order of its `Secrets6`. -/
theorem C18_fn_native_channel_keys_model {Ctx : Type} (kdf : List Nat → List Nat → List Nat → List Nat)
    (hk : ∀ a b c, kdf (toN a) (toN b) (toN c) = toN (hkdfSha256Keys a b c))
    (fs : List Nat → Option (List Nat)) (hfs : ∀ l, l.length = 32 → fs l = some l)
    (self : NativeKeyDerive) (seed : List Nat) (i : ChanKeysIn) (bi : Nat) (mk : Xpriv (List Nat)) (ctx : Ctx)
    (hlen : (hkdfSha256Keys i.keysId Gen.KeyDeriveUse.infoNativeKeys []).length = 192) :
    NativeKeyDerive.channel_keys kdf fs self seed (toN i.keysId) bi mk ctx =
      .ok (toN (nativeChanKeysFn i).funding, toN (nativeChanKeysFn i).revocation, toN (nativeChanKeysFn i).htlc,
           toN (nativeChanKeysFn i).payment, toN (nativeChanKeysFn i).delayed, toN (nativeChanKeysFn i).commitmentSeed) := by
  have he := hk i.keysId Gen.KeyDeriveUse.infoNativeKeys []
  have hl : (kdf (toN i.keysId) (toN Gen.KeyDeriveUse.infoNativeKeys) []).length = 192 := by
    have : (toN ([] : Bytes)) = [] := rfl
    rw [this] at he; rw [he, toN_length, hlen]
  have hc : ∀ k, k < 6 → (chunkN (toN (hkdfSha256Keys i.keysId Gen.KeyDeriveUse.infoNativeKeys [])) k).length = 32 := by
    intro k hk6
    simp only [chunkN, List.length_take, List.length_drop, toN_length, hlen]; omega
  have he' : kdf (toN i.keysId) (toN Gen.KeyDeriveUse.infoNativeKeys) [] =
      toN (hkdfSha256Keys i.keysId Gen.KeyDeriveUse.infoNativeKeys []) := he
  rw [C18_fn_native_channel_keys kdf fs self seed (toN i.keysId) bi mk ctx hl, he']
  simp only [hfs _ (hc 0 (by decide)), hfs _ (hc 1 (by decide)), hfs _ (hc 2 (by decide)), hfs _ (hc 3 (by decide)),
    hfs _ (hc 4 (by decide)), Rs.unwrap, Rs.bind_ok, Rs.pure_eq, nativeChanKeysFn, toN_slice32]

/-- **C18_fn_native_channel_keys_inputs.** what the parameter-use table of `x_keys.py` (`Gen.KeyDeriveUse.nativeChanKeys`)
    asserts, now read off the regenerated body: the native `channel_keys` is the same function whatever `self`
    (network), `seed`, `basepoint_index`, `master_key` and secp context it is handed — only `keys_id` reaches the keys. -/
theorem C18_fn_native_channel_keys_inputs {SK Ctx : Type} (kdf : List Nat → List Nat → List Nat → List Nat)
    (fs : List Nat → Option SK) (self self' : NativeKeyDerive) (seed seed' kid : List Nat) (bi bi' : Nat)
    (mk mk' : Xpriv SK) (ctx ctx' : Ctx) :
    NativeKeyDerive.channel_keys kdf fs self seed kid bi mk ctx
      = NativeKeyDerive.channel_keys kdf fs self' seed' kid bi' mk' ctx' ∧
    Gen.KeyDeriveUse.nativeChanKeys = ⟨false, true, false, false, false⟩ := ⟨rfl, by decide⟩

/-- **C18_fn_master_key.** the three `master_key` bodies: Native = `Xpriv::new_master(network, hkdf_sha256(seed,
    "bip32 seed", []))`, Ldk and Lnd = `Xpriv::new_master(network, seed)`; a refused `new_master` is the `expect` panic.
    So `master_key` is a function of `(self.network, seed)` and nothing else (what `Keys.maskIn` assumes when it counts a
    read of `master_key` as a read of seed and network). -/
theorem C18_fn_master_key {SK : Type} (hkdf : List Nat → List Nat → List Nat → List Nat)
    (nm : Network → List Nat → Option (Xpriv SK)) (net : Network) (seed : List Nat) :
    NativeKeyDerive.master_key hkdf nm ⟨net⟩ seed = Rs.unwrap (nm net (hkdf seed [98, 105, 112, 51, 50, 32, 115, 101, 101, 100] [])) ∧
    LdkKeyDerive.master_key nm ⟨net⟩ seed = Rs.unwrap (nm net seed) ∧
    LndKeyDerive.master_key nm ⟨net⟩ seed = Rs.unwrap (nm net seed) := by
  refine ⟨?_, ?_, ?_⟩
  · simp only [NativeKeyDerive.master_key, bind_pure]
  · simp only [LdkKeyDerive.master_key, bind_pure]
  · simp only [LndKeyDerive.master_key, bind_pure]

/-- **C18_fn_node_keys.** the node key of the three styles: Native = `from_slice(hkdf_sha256(seed, "nodeid", []))`,
    Ldk = the private key of the master key's child `0'`, Lnd = `derive_key_lnd(master, family 6, index 0)`; the public
    key is `from_secret_key` of it (Native, Ldk).  A function of `(network, seed)` only. -/
theorem C18_fn_node_keys {Ctx PK SK CN : Type} (hkdf : List Nat → List Nat → List Nat → List Nat)
    (fs : List Nat → Option SK) (pub : Ctx → SK → PK) (nm : Network → List Nat → Option (Xpriv SK))
    (hard : Nat → Option CN) (dp : Xpriv SK → Ctx → List CN → Option (Xpriv SK))
    (dkl : Ctx → Network → Xpriv SK → Nat → Nat → PK × SK) (net : Network) (seed : List Nat) (ctx : Ctx) :
    NativeKeyDerive.node_keys hkdf fs pub ⟨net⟩ seed ctx
      = (do let k ← Rs.unwrap (fs (hkdf seed [110, 111, 100, 101, 105, 100] [])); pure (pub ctx k, k)) ∧
    LdkKeyDerive.node_keys nm hard dp pub ⟨net⟩ seed ctx
      = (do let m ← Rs.unwrap (nm net seed); let c ← Rs.unwrap (hard 0); let x ← Rs.unwrap (dp m ctx [c])
            pure (pub ctx x.private_key, x.private_key)) ∧
    LndKeyDerive.node_keys nm dkl ⟨net⟩ seed ctx
      = (do let m ← Rs.unwrap (nm net seed); pure (dkl ctx net m 6 0)) := by
  refine ⟨?_, ?_, ?_⟩
  · simp only [NativeKeyDerive.node_keys]
  · simp only [LdkKeyDerive.node_keys, LdkKeyDerive.master_key, bind_assoc, bind_pure]
  · simp only [LndKeyDerive.node_keys, LndKeyDerive.master_key, bind_assoc, bind_pure]

/-- **C18_fn_lnd_channel_keys.** the LND body: the commitment seed is bytes 160..192 of the same HKDF buffer as for the
    native style, the five keys are `derive_key_lnd(network, master_key, family k, basepoint_index)` for the families
    0 (funding), 1 (revocation), 2 (htlc), 3 (payment), 4 (delayed).  `basepoint_index` — the manager's counter — is an
    argument of every one of them. -/
theorem C18_fn_lnd_channel_keys {SK Ctx PK : Type} (kdf : List Nat → List Nat → List Nat → List Nat) (newCtx : Ctx)
    (dkl : Ctx → Network → Xpriv SK → Nat → Nat → PK × SK) (net : Network) (seed kid : List Nat) (bi : Nat)
    (mk : Xpriv SK) (ctx : Ctx) (hlen : (kdf kid (toN Gen.KeyDeriveUse.infoNativeKeys) []).length = 192) :
    LndKeyDerive.channel_keys kdf newCtx dkl ⟨net⟩ seed kid bi mk ctx =
      .ok ((dkl newCtx net mk 0 bi).2, (dkl newCtx net mk 1 bi).2, (dkl newCtx net mk 2 bi).2, (dkl newCtx net mk 3 bi).2,
           (dkl newCtx net mk 4 bi).2, chunkN (kdf kid (toN Gen.KeyDeriveUse.infoNativeKeys) []) 5) := by
  have hi : toN Gen.KeyDeriveUse.infoNativeKeys = [99, 45, 108, 105, 103, 104, 116, 110, 105, 110, 103] := by decide
  rw [hi] at hlen ⊢
  simp [LndKeyDerive.channel_keys, Rs.uadd, Rs.USIZE_MAX, Rs.slice, Rs.arrayOfSlice, hlen, chunkN]

/-- **C18_fn_lnd_reads_counter.** hence the exclusion of LND in the statement of C18 is read off the source: there is a
    `derive_key_lnd` (any injective one) for which two values of the manager's counter give different funding keys. -/
theorem C18_fn_lnd_reads_counter :
    ∃ (dkl : Unit → Network → Xpriv Nat → Nat → Nat → Unit × Nat),
      LndKeyDerive.channel_keys (fun _ _ _ => List.replicate 192 0) () dkl ⟨.Bitcoin⟩ [] [] 0 ⟨0⟩ ()
        ≠ LndKeyDerive.channel_keys (fun _ _ _ => List.replicate 192 0) () dkl ⟨.Bitcoin⟩ [] [] 1 ⟨0⟩ () := by
  refine ⟨fun _ _ _ fam idx => ((), 10 * idx + fam), ?_⟩
  rw [C18_fn_lnd_channel_keys _ _ _ _ _ _ _ _ _ (List.length_replicate ..), C18_fn_lnd_channel_keys _ _ _ _ _ _ _ _ _ (List.length_replicate ..)]
  simp

/-- **C18_fn_account_key.** `get_account_extended_key`: Native and Ldk share one body (`m/0/0` of
    `new_master(network, hkdf_sha256(seed, "bip32 seed", []))`), Lnd is `m/84'/0'/0'` of `new_master(network, seed)` -/
theorem C18_fn_account_key {Ctx SK CN : Type} (hkdf : List Nat → List Nat → List Nat → List Nat)
    (nm : Network → List Nat → Option (Xpriv SK)) (norm hard : Nat → Option CN)
    (dp : Xpriv SK → Ctx → List CN → Option (Xpriv SK)) (ctx : Ctx) (net : Network) (seed : List Nat) :
    KeyDerivationStyle.get_account_extended_key hkdf nm norm dp hard .Native ctx net seed
      = KeyDerivationStyle.get_account_extended_key hkdf nm norm dp hard .Ldk ctx net seed ∧
    KeyDerivationStyle.get_account_extended_key hkdf nm norm dp hard .Native ctx net seed
      = (do let m ← Rs.unwrap (nm net (hkdf seed [98, 105, 112, 51, 50, 32, 115, 101, 101, 100] []))
            let c ← Rs.unwrap (norm 0); let a ← Rs.unwrap (dp m ctx [c])
            let c' ← Rs.unwrap (norm 0); let b ← Rs.unwrap (dp a ctx [c']); pure b) ∧
    KeyDerivationStyle.get_account_extended_key hkdf nm norm dp hard .Lnd ctx net seed
      = (do let m ← Rs.unwrap (nm net seed)
            let p ← Rs.unwrap (hard 84); let a ← Rs.unwrap (dp m ctx [p])
            let c ← Rs.unwrap (hard 0); let b ← Rs.unwrap (dp a ctx [c])
            let d ← Rs.unwrap (hard 0); let e ← Rs.unwrap (dp b ctx [d]); pure e) := by
  refine ⟨rfl, ?_, ?_⟩
  · simp only [KeyDerivationStyle.get_account_extended_key, get_account_extended_key_native, bind_assoc, bind_pure]
  · simp only [KeyDerivationStyle.get_account_extended_key, get_account_extended_key_lnd, bind_assoc, bind_pure]

/-- **C18_fn_style_from_str.** the three style names and nothing else -/
theorem C18_fn_style_from_str (s : String) :
    KeyDerivationStyle.from_str s =
      (if s = "native" then .ok .Native else if s = "ldk" then .ok .Ldk else if s = "lnd" then .ok .Lnd
       else .error (.err "()")) := by
  unfold KeyDerivationStyle.from_str
  split <;> simp_all [Rs.fail]


end DeriveKeys


/-! ## my_keys_manager.rs (round 9): `get_channel_keys_with_id`, `get_channel_keys_with_keys_id`, `derive_channel_keys`,
`get_secure_random_bytes`, `get_channel_id`, `increment_channel_id_child_index`, `get_onion_reply_secret`, `derive_secret`
as regenerated in `Gen/FnKeysMgr.lean` (`translate/fn_targets/KeysMgr.b1819.json`).  The three `Atomic*` counters are
integers of the generated `MyKeysManager` structure (`fetch_add` = return the old value, store the wrapped sum: additive
extension of rs2lean); `&self` methods that advance one return the new manager.  `key_derive(style, network)` and the
`dyn KeyDerive` methods, the hash engine (`input` = a pure function old engine × bytes → new engine), BIP32 and
`InMemorySigner::new` are declared externals.  What is proved: which counter reaches key material (only
`lnd_basepoint_index`, as the `basepoint_index` argument of `channel_keys`), which counters a derivation advances (= the
model's `KMState.afterDerive`), and that with the model's primitives plugged in the generated function *is* `channelKeys`. -/
section KeysMgr
open VlsModel.Gen.FnKeysMgr

variable {S SK Ctx St Net Signer KD CN H : Type}

/-- the three counters of a generated `MyKeysManager` as the model's `KMState` -/
def kmOf (m : MyKeysManager S SK Ctx St Net) : KMState :=
  ⟨m.channel_id_child_index, m.rand_bytes_child_index, m.lnd_basepoint_index⟩

/-- **C18_fn_increment_channel_id_child_index.** `fetch_add(1)` on `channel_id_child_index`: returns the old value, the
    other two counters and every key field are unchanged -/
theorem C18_fn_increment_channel_id_child_index (m : MyKeysManager S SK Ctx St Net) :
    (MyKeysManager.increment_channel_id_child_index m).2 = m.channel_id_child_index ∧
    (MyKeysManager.increment_channel_id_child_index m).1
      = { m with channel_id_child_index := (m.channel_id_child_index + 1) % 2 ^ 64 } := by
  simp [MyKeysManager.increment_channel_id_child_index, Rs.uwrapAdd, Rs.USIZE_MAX]

/-- **C18_fn_get_secure_random_bytes.** the entropy source: on success exactly `rand_bytes_child_index` is advanced
    (wrapping `usize`), nothing else of the manager changes -/
theorem C18_fn_get_secure_random_bytes (hard : Nat → Option CN) (dp : Xpriv SK → Ctx → List CN → Option (Xpriv SK))
    (asref : SK → List Nat) (inp : S → List Nat → S) (fe : S → H) (tba : H → List Nat)
    (m m' : MyKeysManager S SK Ctx St Net) (r : List Nat)
    (h : MyKeysManager.get_secure_random_bytes hard dp asref inp fe tba m = .ok (m', r)) :
    m' = { m with rand_bytes_child_index := (m.rand_bytes_child_index + 1) % 2 ^ 64 } := by
  simp only [MyKeysManager.get_secure_random_bytes] at h
  cases h1 : hard (Rs.utrunc Rs.U32_MAX m.rand_bytes_child_index) with
  | none => simp [h1, Rs.unwrap, Rs.panic] at h
  | some c =>
    simp only [h1, Rs.unwrap, Rs.bind_ok, Rs.pure_eq] at h
    cases h2 : dp m.rand_bytes_master_key m.secp_ctx [c] with
    | none => simp [h2, Rs.panic] at h
    | some x =>
      simp only [h2, Rs.bind_ok, Except.ok.injEq, Prod.mk.injEq] at h
      rw [← h.1]; simp [Rs.uwrapAdd, Rs.USIZE_MAX]

/-- **C18_fn_get_channel_keys_with_keys_id.** the generated body of `get_channel_keys_with_keys_id(keys_id, value)`:
    whenever it returns, (1) the signer is `InMemorySigner::new(ctx, funding, revocation, payment, delayed, htlc,
    commitment_seed, value, keys_id, entropy)` where the six secrets are
    `key_derive(style, network).channel_keys(self.seed, keys_id, self.lnd_basepoint_index, self.master_key, ctx)` in the
    order of *its* result tuple (funding, revocation, htlc, payment, delayed) — the permutation between the two orders is
    part of the statement; (2) the manager afterwards differs from the manager before exactly by
    `lnd_basepoint_index + 1 (mod 2^32)` and `rand_bytes_child_index + 1 (mod 2^64)` = the model's `KMState.afterDerive`.
    The only way manager state reaches key material is the `basepoint_index` argument. -/
theorem C18_fn_get_channel_keys_with_keys_id (kd : St → Net → KD) (newCtx : Ctx)
    (ck : KD → List Nat → List Nat → Nat → Xpriv SK → Ctx → Rs.M (SK × SK × SK × SK × SK × List Nat))
    (hard : Nat → Option CN) (dp : Xpriv SK → Ctx → List CN → Option (Xpriv SK))
    (asref : SK → List Nat) (inp : S → List Nat → S) (fe : S → H) (tba : H → List Nat)
    (new : Ctx → SK → SK → SK → SK → SK → List Nat → Nat → List Nat → List Nat → Signer)
    (m m' : MyKeysManager S SK Ctx St Net) (kid : List Nat) (v : Nat) (s : Signer)
    (h : MyKeysManager.get_channel_keys_with_keys_id kd newCtx ck hard dp asref inp fe tba new m kid v = .ok (m', s)) :
    (∃ f r ht p d cs rnd,
      ck (kd m.key_derivation_style m.network) m.seed kid m.lnd_basepoint_index m.master_key newCtx
        = .ok (f, r, ht, p, d, cs) ∧
      s = new newCtx f r p d ht cs v kid rnd) ∧
    m' = { m with lnd_basepoint_index := (m.lnd_basepoint_index + 1) % 2 ^ 32,
                  rand_bytes_child_index := (m.rand_bytes_child_index + 1) % 2 ^ 64 } := by
  simp only [MyKeysManager.get_channel_keys_with_keys_id] at h
  cases hck : ck (kd m.key_derivation_style m.network) m.seed kid m.lnd_basepoint_index m.master_key newCtx with
  | error e => simp [hck] at h
  | ok t =>
    obtain ⟨f, r, ht, p, d, cs⟩ := t
    simp only [hck, Rs.bind_ok] at h
    cases hr : MyKeysManager.get_secure_random_bytes hard dp asref inp fe tba
        { m with lnd_basepoint_index := Rs.uwrapAdd Rs.U32_MAX m.lnd_basepoint_index 1 } with
    | error e => simp [hr] at h
    | ok t2 =>
      obtain ⟨m2, rnd⟩ := t2
      have hm2 := C18_fn_get_secure_random_bytes hard dp asref inp fe tba _ _ _ hr
      simp only [hr, Rs.bind_ok, Rs.pure_eq, Except.ok.injEq, Prod.mk.injEq] at h
      refine ⟨⟨f, r, ht, p, d, cs, rnd, rfl, h.2.symm⟩, ?_⟩
      rw [← h.1, hm2]; simp [Rs.uwrapAdd, Rs.U32_MAX]

/-- the counters after a successful derivation are the model's `afterDerive` (the entropy counter is a `usize`; the model
    counts it without the wrap, so below `usize::MAX`) -/
theorem C18_fn_counters_after_derive (m : MyKeysManager S SK Ctx St Net) (hlt : m.rand_bytes_child_index + 1 < 2 ^ 64) :
    kmOf { m with lnd_basepoint_index := (m.lnd_basepoint_index + 1) % 2 ^ 32,
                  rand_bytes_child_index := (m.rand_bytes_child_index + 1) % 2 ^ 64 } = (kmOf m).afterDerive := by
  simp [kmOf, KMState.afterDerive, Nat.mod_eq_of_lt hlt]

/-- **C18_fn_get_channel_keys_with_id.** `get_channel_keys_with_id(channel_id, value)` is
    `get_channel_keys_with_keys_id(key_derive(style, network).keys_id(channel_id, self.channel_seed_base), value)`;
    `derive_channel_keys(value, keys_id)` (what `spend_spendable_outputs` calls) is `get_channel_keys_with_keys_id(keys_id, value)` -/
theorem C18_fn_get_channel_keys_with_id (kd : St → Net → KD) (kidf : KD → List Nat → List Nat → List Nat) (newCtx : Ctx)
    (ck : KD → List Nat → List Nat → Nat → Xpriv SK → Ctx → Rs.M (SK × SK × SK × SK × SK × List Nat))
    (hard : Nat → Option CN) (dp : Xpriv SK → Ctx → List CN → Option (Xpriv SK))
    (asref : SK → List Nat) (inp : S → List Nat → S) (fe : S → H) (tba : H → List Nat)
    (new : Ctx → SK → SK → SK → SK → SK → List Nat → Nat → List Nat → List Nat → Signer)
    (m : MyKeysManager S SK Ctx St Net) (cid kid : List Nat) (v : Nat) :
    MyKeysManager.get_channel_keys_with_id kd kidf newCtx ck hard dp asref inp fe tba new m cid v
      = MyKeysManager.get_channel_keys_with_keys_id kd newCtx ck hard dp asref inp fe tba new m
          (kidf (kd m.key_derivation_style m.network) cid m.channel_seed_base) v ∧
    MyKeysManager.derive_channel_keys kd newCtx ck hard dp asref inp fe tba new m v kid
      = MyKeysManager.get_channel_keys_with_keys_id kd newCtx ck hard dp asref inp fe tba new m kid v := by
  constructor
  · simp only [MyKeysManager.get_channel_keys_with_id]
    cases MyKeysManager.get_channel_keys_with_keys_id kd newCtx ck hard dp asref inp fe tba new m
        (kidf (kd m.key_derivation_style m.network) cid m.channel_seed_base) v <;> rfl
  · simp only [MyKeysManager.derive_channel_keys]
    cases MyKeysManager.get_channel_keys_with_keys_id kd newCtx ck hard dp asref inp fe tba new m kid v <;> rfl

/-- bytes back from the generated side -/
def ofN (l : List Nat) : Bytes := l.map UInt8.ofNat

theorem ofN_toN (b : Bytes) : ofN (toN b) = b := by
  induction b with
  | nil => rfl
  | cons x xs ih => simp only [ofN, toN, List.map_cons] at ih ⊢; rw [ih]; simp

/-- **C18_fn_keys_with_id_model.** the plumbing of `get_channel_keys_with_id` is the model's `channelKeys`: plug the model's
    primitives in for the declared externals (`key_derive(style, network)` = the pair; its `keys_id` = `keysIdOf`; its
    `channel_keys` = `P.chanKeys` on the inputs it is handed; `InMemorySigner::new` = the record of what it receives,
    `KeyMaterial`), and the generated function returns `channelKeys P style seed net id` *of the manager's counters* —
    which seed, which seed base, which counter, and the order in which the six secrets are handed to the signer are all
    read from the source. -/
theorem C18_fn_keys_with_id_model (P : Prims) (m : MyKeysManager Unit Bytes Unit Keys.Style Keys.Net) (seed id : Bytes) (v : Nat)
    (hseed : m.seed = toN seed) (hbase : m.channel_seed_base = toN (channelSeedBase P seed)) :
    (MyKeysManager.get_channel_keys_with_id (fun (s : Keys.Style) (n : Keys.Net) => (s, n))
        (fun (k : Keys.Style × Keys.Net) cid base => toN (keysIdOf P k.1 (ofN base) (ofN cid))) ()
        (fun (k : Keys.Style × Keys.Net) sd kid bi (_ : Xpriv Bytes) (_ : Unit) =>
          (.ok ((P.chanKeys k.1 (maskIn (useOf k.1) ⟨ofN sd, k.2, ofN kid, bi⟩)).funding,
                (P.chanKeys k.1 (maskIn (useOf k.1) ⟨ofN sd, k.2, ofN kid, bi⟩)).revocation,
                (P.chanKeys k.1 (maskIn (useOf k.1) ⟨ofN sd, k.2, ofN kid, bi⟩)).htlc,
                (P.chanKeys k.1 (maskIn (useOf k.1) ⟨ofN sd, k.2, ofN kid, bi⟩)).payment,
                (P.chanKeys k.1 (maskIn (useOf k.1) ⟨ofN sd, k.2, ofN kid, bi⟩)).delayed,
                toN (P.chanKeys k.1 (maskIn (useOf k.1) ⟨ofN sd, k.2, ofN kid, bi⟩)).commitmentSeed) : Rs.M _))
        (fun n => some n) (fun x (_ : Unit) (_ : List Nat) => some x) toN (fun (s : Unit) _ => s) (fun _ => ()) (fun (_ : Unit) => [])
        (fun (_ : Unit) f r p d h cs (_ : Nat) kid (_ : List Nat) => (⟨ofN kid, f, r, h, p, d, ofN cs⟩ : KeyMaterial))
        m (toN id) v).map Prod.snd
      = .ok (channelKeys P m.key_derivation_style seed m.network id (kmOf m)) := by
  simp [MyKeysManager.get_channel_keys_with_id, MyKeysManager.get_channel_keys_with_keys_id,
    MyKeysManager.get_secure_random_bytes, Rs.unwrap, hseed, hbase, ofN_toN, channelKeys, channelKeysFromKeysId, kmOf,
    Except.map]

/-- **C18_fn_get_channel_id.** `get_channel_id()` (the id of `new_channel_with_random_id`; the model's `Prims.randomId counter`):
    `ChannelId::new(sha256(unique_start ‖ child(channel_id_master_key, counter as u32)))`; on success only
    `channel_id_child_index` advances (the model's `.newRandom`) — neither counter that `get_channel_keys_with_keys_id`
    reads or writes is touched. -/
theorem C18_fn_get_channel_id (hard : Nat → Option CN) (dp : Xpriv SK → Ctx → List CN → Option (Xpriv SK))
    (asref : SK → List Nat) (inp : S → List Nat → S) (fe : S → H) (tba : H → List Nat) (cnew : List Nat → List Nat)
    (m m' : MyKeysManager S SK Ctx St Net) (id : List Nat)
    (h : MyKeysManager.get_channel_id hard dp asref inp fe tba cnew m = .ok (m', id)) :
    m' = { m with channel_id_child_index := (m.channel_id_child_index + 1) % 2 ^ 64 } ∧
    ∃ c x, hard (m.channel_id_child_index % 2 ^ 32) = some c ∧ dp m.channel_id_master_key m.secp_ctx [c] = some x ∧
      id = cnew (tba (fe (inp m.unique_start (asref x.private_key)))) := by
  simp only [MyKeysManager.get_channel_id, MyKeysManager.increment_channel_id_child_index] at h
  have hu : Rs.utrunc Rs.U32_MAX m.channel_id_child_index = m.channel_id_child_index % 2 ^ 32 := by
    simp [Rs.utrunc, Rs.U32_MAX]
  rw [hu] at h
  cases h1 : hard (m.channel_id_child_index % 2 ^ 32) with
  | none => simp [h1, Rs.unwrap, Rs.panic] at h
  | some c =>
    simp only [h1, Rs.unwrap, Rs.bind_ok, Rs.pure_eq] at h
    cases h2 : dp m.channel_id_master_key m.secp_ctx [c] with
    | none => simp [h2, Rs.panic] at h
    | some x =>
      simp only [h2, Rs.bind_ok, Except.ok.injEq, Prod.mk.injEq] at h
      refine ⟨?_, c, x, rfl, h2, h.2.symm⟩
      rw [← h.1]; simp [Rs.uwrapAdd, Rs.USIZE_MAX]

/-- **C18_fn_seed_secrets.** the two other secrets the manager derives from the node seed: `get_onion_reply_secret` =
    `hkdf_sha256(seed, "onion reply secret", [])`, `derive_secret(info)` =
    `from_slice(hkdf_sha256(hkdf_sha256(seed, "derived secrets", []), info, []))` — different info strings than every
    channel-key derivation (`"peer seed"`, `"per-peer seed"`, `"c-lightning"`, `"bip32 seed"`, `"nodeid"`), no counter. -/
theorem C18_fn_seed_secrets (hkdf : List Nat → List Nat → List Nat → List Nat) (fs : List Nat → Option SK)
    (m : MyKeysManager S SK Ctx St Net) (info : List Nat) :
    MyKeysManager.get_onion_reply_secret hkdf m
      = hkdf m.seed [111, 110, 105, 111, 110, 32, 114, 101, 112, 108, 121, 32, 115, 101, 99, 114, 101, 116] [] ∧
    MyKeysManager.derive_secret hkdf fs m info
      = Rs.unwrap (fs (hkdf (hkdf m.seed [100, 101, 114, 105, 118, 101, 100, 32, 115, 101, 99, 114, 101, 116, 115] []) info [])) := by
  constructor
  · rfl
  · simp only [MyKeysManager.derive_secret, bind_pure]

end KeysMgr


/-! ## derive.rs (round 9): `LdkKeyDerive::channel_keys` (`Gen/FnDeriveLdk.lean`, `translate/fn_targets/DeriveLdk.b1819.json`)

The body defines a local macro (`key_step!`); the target file declares the normalisation rules that delete the definition
and expand its five invocations textually (each rule must apply exactly the declared number of times, otherwise the
function is not translated and the theorem below does not build).  The SHA-256 engine is an opaque value with the
declared externals `Sha256::engine`, `input` (receiver-updating), `from_engine`. -/
section DeriveLdk
open VlsModel.Gen.FnDeriveLdk

theorem ofN_append (a b : List Nat) : ofN (a ++ b) = ofN a ++ ofN b := by simp [ofN]

theorem slice_full {α : Type} (l : List α) : Rs.slice l 0 l.length = .ok l := by
  simp [Rs.slice]

/-- the hash engine as the byte string it has been fed, hashed by `from_engine` -/
def shaN (s : List Nat) : List Nat := toN (Sha256.sha256 (ofN s))

/-- `ChildNumber::from_hardened_idx`: refuses indices ≥ 2^31 (rust-bitcoin) -/
def hardIdx (n : Nat) : Option Nat := if n < 2 ^ 31 then some n else none

/-- **C18_fn_ldk_channel_keys.** the regenerated body of `LdkKeyDerive::channel_keys` (the local macro `key_step!`
    expanded by declared normalisation rules) is the model's `ldkChanKeysFn`: instantiate the hash engine by the bytes it
    is fed (`input` = append, `from_engine` = SHA-256 of them), `from_hardened_idx` by its range check, and let
    `derive_priv` deliver what the BIP32 oracle `child` says for `m/3'/idx'`; then the generated function returns exactly
    the six secrets of the model (and panics exactly where the model says `none`: a keys id whose first eight bytes read
    ≥ 2^31).  Read from the source: the order `keys_id ‖ seed ‖ child key` of the channel seed, the six labels, the chain
    commitment seed → funding → revocation → payment → delayed → htlc, and the order of the result tuple. -/
theorem C18_fn_ldk_channel_keys {Ctx : Type} (child : Bytes → Net → Nat → Bytes) (net : Net)
    (dp : Xpriv (List Nat) → Ctx → List Nat → Option (Xpriv (List Nat)))
    (self : LdkKeyDerive) (seed kid : Bytes) (bi : Nat) (mk cm : Xpriv (List Nat)) (ctx : Ctx)
    (hk : 8 ≤ kid.length)
    (h3 : dp mk ctx [3] = some cm)
    (hc : dp cm ctx [be64 kid] = some ⟨toN (child seed net (be64 kid))⟩) :
    LdkKeyDerive.channel_keys (fun l => .ok (be64 (ofN l))) ([] : List Nat) (fun s x => s ++ x) hardIdx dp id shaN id id some
        self (toN seed) (toN kid) bi mk ctx
      = (match ldkChanKeysFn child ⟨seed, net, kid, bi⟩ with
         | some s => .ok (toN s.funding, toN s.revocation, toN s.htlc, toN s.payment, toN s.delayed, toN s.commitmentSeed)
         | none => .error .panic) := by
  have l1 : ofN [99, 111, 109, 109, 105, 116, 109, 101, 110, 116, 32, 115, 101, 101, 100] = strBytes "commitment seed" := by decide +kernel
  have l2 : ofN [102, 117, 110, 100, 105, 110, 103, 32, 107, 101, 121] = strBytes "funding key" := by decide +kernel
  have l3 : ofN [114, 101, 118, 111, 99, 97, 116, 105, 111, 110, 32, 98, 97, 115, 101, 32, 107, 101, 121] = strBytes "revocation base key" := by decide +kernel
  have l4 : ofN [112, 97, 121, 109, 101, 110, 116, 32, 107, 101, 121] = strBytes "payment key" := by decide +kernel
  have l5 : ofN [100, 101, 108, 97, 121, 101, 100, 32, 112, 97, 121, 109, 101, 110, 116, 32, 98, 97, 115, 101, 32, 107, 101, 121] = strBytes "delayed payment base key" := by decide +kernel
  have l6 : ofN [72, 84, 76, 67, 32, 98, 97, 115, 101, 32, 107, 101, 121] = strBytes "HTLC base key" := by decide +kernel
  have hsl : Rs.slice (toN kid) 0 8 = .ok (toN (kid.take 8)) := by
    have : ¬ kid.length < 8 := by omega
    simp [Rs.slice, this, toN, List.map_take]
  have hbe : be64 (ofN (toN (kid.take 8))) = be64 kid := by
    rw [ofN_toN]; simp [be64, List.take_take]
  simp only [LdkKeyDerive.channel_keys, hsl, Rs.bind_ok, hbe]
  by_cases hlt : be64 kid < 2 ^ 31
  · have hle : be64 kid ≤ Rs.U32_MAX := by simp [Rs.U32_MAX]; omega
    have htr : Rs.utrunc Rs.U32_MAX (be64 kid) = be64 kid := by
      simp [Rs.utrunc, Rs.U32_MAX]; omega
    have hge : ¬ be64 kid ≥ 2 ^ 31 := by omega
    simp [Rs.assert, hle, hardIdx, Rs.unwrap, h3, htr, hlt, hc, ldkChanKeysFn, hge, shaN, ofN_append, ofN_toN,
      l1, l2, l3, l4, l5, l6, slice_full]
  · have hge : be64 kid ≥ 2 ^ 31 := by omega
    by_cases hle : be64 kid ≤ Rs.U32_MAX
    · have htr : Rs.utrunc Rs.U32_MAX (be64 kid) = be64 kid := by
        simp [Rs.utrunc, Rs.U32_MAX] at hle ⊢; omega
      simp [Rs.assert, hle, hardIdx, Rs.unwrap, h3, htr, hlt, ldkChanKeysFn, hge, Rs.panic]
    · simp [Rs.assert, hle, ldkChanKeysFn, hge, Rs.panic]

end DeriveLdk


/-! ## channel.rs (round 9): the key-related bodies of the stub and the ids (`Gen/FnChannelKeys.lean`,
`translate/fn_targets/ChannelKeys.b1819.json`): `ChannelStub::channel_keys_with_channel_value` (the "re-derivation at
setup" of the anchor list), the stub's `get_per_commitment_point`, `Channel::id`, `ChannelSlot::id`.  `InMemorySigner` is
declared with the six secret fields the code reads; its methods are externals. -/
section ChannelKeys
open VlsModel.Gen.FnChannelKeys

/-- **C18_fn_setup_copies_stub_keys.** `ChannelStub::channel_keys_with_channel_value(value)` — the "re-derivation at setup"
    of the property's anchor list (channel.rs:468) — derives nothing: the new signer is `InMemorySigner::new` of the stub
    signer's own six secrets (in `new`'s argument order), its commitment seed and its `channel_keys_id()`, with the new
    value.  Read through any recorder of what `new` receives, the key material is that of the stub and does not depend on
    the value (`x_keys.py`: `setupCopiesStubKeys`, `channelValueReachesKeys = false`, here from the generated body). -/
theorem C18_fn_setup_copies_stub_keys {SK Ctx : Type} (ctx : Ctx) (kid rnd : InMemorySigner SK → List Nat)
    (new : Ctx → SK → SK → SK → SK → SK → List Nat → Nat → List Nat → List Nat → InMemorySigner SK)
    (stub : ChannelStub SK Ctx) (v v' : Nat) :
    ChannelStub.channel_keys_with_channel_value ctx kid rnd new stub v
      = new ctx stub.keys.funding_key stub.keys.revocation_base_key stub.keys.payment_key
          stub.keys.delayed_payment_base_key stub.keys.htlc_base_key stub.keys.commitment_seed v (kid stub.keys)
          (rnd stub.keys) ∧
    (∀ (rec : Ctx → SK → SK → SK → SK → SK → List Nat → Nat → List Nat → List Nat → InMemorySigner SK),
      (∀ c f r p d h cs x k e x' e', rec c f r p d h cs x k e = rec c f r p d h cs x' k e') →
      ChannelStub.channel_keys_with_channel_value ctx kid rnd rec stub v
        = ChannelStub.channel_keys_with_channel_value ctx kid rnd rec stub v') ∧
    Gen.KeyDeriveUse.setupCopiesStubKeys = true ∧ Gen.KeyDeriveUse.channelValueReachesKeys = false := by
  refine ⟨rfl, ?_, by decide, by decide⟩
  intro rec hrec
  simp only [ChannelStub.channel_keys_with_channel_value]
  exact hrec _ _ _ _ _ _ _ _ _ _ _ _

/-- **C18_fn_stub_point_guard.** the stub's `get_per_commitment_point(n)`: allowed exactly for `n ≤ 1` (the model's
    `pointAllowed` of a channel that is not ready), and then it is the signer's point at
    `INITIAL_COMMITMENT_NUMBER - n`; otherwise the policy error.  (`![0, 1].contains(&n)` is expanded to the two
    comparisons by the declared rule `stub_point_guard`.) -/
theorem C18_fn_stub_point_guard {SK Ctx PK : Type} (ext : InMemorySigner SK → Nat → Ctx → Option PK)
    (stub : ChannelStub SK Ctx) (c : Chan) (hr : c.ready = false) (n : Nat) :
    ChannelStub.get_per_commitment_point ext stub n
      = if pointAllowed c n then Rs.unwrap (ext stub.keys (INITIAL_COMMITMENT_NUMBER - n) stub.secp_ctx)
        else .error (.err "policy-optional-fail-fast") := by
  simp only [ChannelStub.get_per_commitment_point, pointAllowed, hr]
  by_cases h0 : n = 0
  · subst h0; simp [Rs.usub, INITIAL_COMMITMENT_NUMBER]
  · by_cases h1 : n = 1
    · subst h1; simp [Rs.usub, INITIAL_COMMITMENT_NUMBER]
    · have : ¬ n ≤ 1 := by omega
      simp [h0, h1, this, Rs.fail]

/-- **C18_fn_channel_id.** the id a slot reports (`ChannelSlot::id`, what the persister stores the channel under and what
    `new_from_persistence` hands to `get_channel_keys_with_id`) is always `id0`; `Channel::id()` is the permanent id when
    one was assigned.  They differ as soon as `setup_channel` assigned another id: re-deriving from `Channel::id()` would
    change the keys (seeded change C18-r6-1). -/
theorem C18_fn_channel_id {SK Ctx : Type} (s : ChannelStub SK Ctx) (c : Channel) :
    ChannelSlot.id (.Stub s : ChannelSlot SK Ctx) = s.id0 ∧ ChannelSlot.id (.Ready c : ChannelSlot SK Ctx) = c.id0 ∧
    Channel.id_fn c = c.id.getD c.id0 ∧
    (∃ c' : Channel, Channel.id_fn c' ≠ ChannelSlot.id (.Ready c' : ChannelSlot SK Ctx)) :=
  ⟨rfl, rfl, rfl, ⟨⟨[1], some [2]⟩, by simp [Channel.id_fn, ChannelSlot.id]⟩⟩

end ChannelKeys


/-! ## my_keys_manager.rs (round 9), the rest that is inside the subset (`Gen/FnKeysMgrAux.lean`): the getters, the other
keys the manager hands out, `per_commitment_point`, and the two LDK `SignerProvider` entry points that are `unimplemented!` -/
section KeysMgrAux
open VlsModel.Gen.FnKeysMgrAux

/-- **C18_fn_no_signer_provider_path.** LDK's own way to a channel signer — `SignerProvider::generate_channel_keys_id` and
    `derive_channel_signer` — is `unimplemented!()` in `MyKeysManager`: both panic on every input, so the only derivation
    entry points are `get_channel_keys_with_id` / `get_channel_keys_with_keys_id` / `derive_channel_keys` (whose call
    sites `x_keys.py` counts). -/
theorem C18_fn_no_signer_provider_path {SK Ctx EK Sg : Type} (m : MyKeysManager SK EK Ctx) (b : Bool) (v u : Nat) (kid : List Nat) :
    MyKeysManager.generate_channel_keys_id m b v u = .error .panic ∧
    (MyKeysManager.derive_channel_signer m v kid : Rs.M Sg) = .error .panic := ⟨rfl, rfl⟩

/-- **C18_fn_per_commitment_point.** a per-commitment point is the secp256k1 image of the per-commitment secret and of
    nothing else: `from_secret_key(ctx, from_slice(secret).unwrap())` (the clause "points are the images of the secrets";
    secp256k1 itself is the external) -/
theorem C18_fn_per_commitment_point {Ctx PK SK : Type} (fs : List Nat → Option SK) (pub : Ctx → SK → PK) (ctx : Ctx)
    (secret : List Nat) :
    MyKeysManager.per_commitment_point fs pub ctx secret = (do let k ← Rs.unwrap (fs secret); pure (pub ctx k)) := rfl

/-- **C18_fn_manager_getters.** the other secrets the manager hands out are stored fields or images of stored fields; none
    of them reads a counter or a channel key -/
theorem C18_fn_manager_getters {SK Ctx EK PK SS H : Type} (pub : Ctx → SK → PK) (ssNew : PK → SK → SS) (ssBytes : SS → List Nat)
    (hash : List Nat → H) (tba : H → List Nat) (m : MyKeysManager SK EK Ctx) (server : PK) :
    MyKeysManager.get_node_secret m = m.node_secret ∧
    MyKeysManager.get_account_extended_key m = m.account_extended_key ∧
    MyKeysManager.get_inbound_payment_key m = m.inbound_payment_key ∧
    MyKeysManager.get_bolt12_pubkey pub m = pub m.secp_ctx m.bolt12_secret ∧
    MyKeysManager.get_persistence_pubkey pub m = pub m.secp_ctx m.persistence_secret ∧
    MyKeysManager.get_persistence_shared_secret ssNew ssBytes m server = ssBytes (ssNew server m.persistence_secret) ∧
    MyKeysManager.get_persistence_auth_token ssNew ssBytes hash tba m server
      = tba (hash (ssBytes (ssNew server m.persistence_secret))) := ⟨rfl, rfl, rfl, rfl, rfl, rfl, rfl⟩

end KeysMgrAux

/-! ## my_keys_manager.rs (round 10, b8): the `NodeSigner` / `SignerProvider` entry points (`Gen/FnKeysMgrNode.lean`,
targets `translate/fn_targets/KeysMgrNode.b8.json`).  `Recipient` is a declared view (`Node | PhantomNode`); secp256k1, the
hashes and the script constructors are externals over which every theorem quantifies.  The clause of C18 carried here: the
node-level keys and signatures are functions of the stored `node_secret` (resp. `account_extended_key`,
`ldk_shutdown_pubkey`) and of the request only — no counter, no channel state, no other field of the manager is read. -/
section KeysMgrNode
open VlsModel.Gen.FnKeysMgrNode

/-- **C18_fn_node_signer.** `get_node_id`, `ecdh`, `sign_invoice`, `sign_gossip_message`: for `Recipient::Node` the key used is
    exactly `node_secret` (multiplied by the tweak for `ecdh`, `Err(())` when the multiplication fails);
    `Recipient::PhantomNode` is `Err(())` before any key is touched. -/
theorem C18_fn_node_signer {SK Ctx PK Sc SS Inv RSig H Msg UG Sig DH : Type} (pub : Ctx → SK → PK) (mul : SK → Sc → Option SK)
    (ssNew : PK → SK → SS) (sh : Inv → List Nat) (hash : List Nat → H) (tba : H → List Nat) (fd : List Nat → Msg)
    (signRec : Ctx → Msg → SK → RSig) (mh : UG → DH) (dtba : DH → List Nat) (sign : Ctx → Msg → SK → Sig)
    (m : MyKeysManager SK Ctx PK) (other : PK) (tw : Option Sc) (inv : Inv) (g : UG) :
    MyKeysManager.get_node_id pub m .Node = .ok (pub m.secp_ctx m.node_secret) ∧
    MyKeysManager.get_node_id pub m .PhantomNode = .error (.err "()") ∧
    MyKeysManager.ecdh mul ssNew m .Node other tw
      = (match tw with
         | none => .ok (ssNew other m.node_secret)
         | some t => match mul m.node_secret t with
                     | some k => .ok (ssNew other k)
                     | none => .error (.err "()")) ∧
    MyKeysManager.ecdh mul ssNew m .PhantomNode other tw = .error (.err "()") ∧
    MyKeysManager.sign_invoice sh hash tba fd signRec m inv .Node
      = .ok (signRec m.secp_ctx (fd (tba (hash (sh inv)))) m.node_secret) ∧
    MyKeysManager.sign_invoice sh hash tba fd signRec m inv .PhantomNode = .error (.err "()") ∧
    MyKeysManager.sign_gossip_message mh dtba fd sign m g = .ok (sign m.secp_ctx (fd (dtba (mh g))) m.node_secret) := by
  refine ⟨rfl, rfl, ?_, rfl, rfl, rfl, rfl⟩
  cases tw with
  | none => rfl
  | some t =>
    simp only [MyKeysManager.ecdh, MyKeysManager.get_node_secret]
    cases mul m.node_secret t <;> rfl

/-- **C18_fn_node_signer_stable.** hence two managers with the same `node_secret` and context (e.g. the manager before and
    after any number of channel derivations, which only move the counters — `C18_fn_counters_after_derive`) give the same
    node id and the same ECDH secret. -/
theorem C18_fn_node_signer_stable {SK Ctx PK Sc SS : Type} (pub : Ctx → SK → PK) (mul : SK → Sc → Option SK)
    (ssNew : PK → SK → SS) (m m' : MyKeysManager SK Ctx PK) (hs : m.node_secret = m'.node_secret)
    (hc : m.secp_ctx = m'.secp_ctx) (r : Recipient) (other : PK) (tw : Option Sc) :
    MyKeysManager.get_node_id pub m r = MyKeysManager.get_node_id pub m' r ∧
    MyKeysManager.ecdh mul ssNew m r other tw = MyKeysManager.ecdh mul ssNew m' r other tw := by
  cases r
  · simp only [MyKeysManager.get_node_id, MyKeysManager.ecdh, MyKeysManager.get_node_secret, hs, hc, and_self]
  · exact ⟨rfl, rfl⟩

/-- **C18_fn_heartbeat_shutdown.** the heartbeat is signed with the key pair of `account_extended_key.private_key`; the LDK
    shutdown script is the P2WPKH of the stored `ldk_shutdown_pubkey` -/
theorem C18_fn_heartbeat_shutdown {SK Ctx PK Sig KP Msg SScr WH : Type} (kp : Ctx → SK → KP) (sfh : List Nat → Msg)
    (schnorr : Ctx → Msg → KP → Sig) (ser : PK → List Nat) (wh : List Nat → WH) (p2 : WH → SScr)
    (m : MyKeysManager SK Ctx PK) (hb : List Nat) :
    MyKeysManager.sign_heartbeat kp sfh schnorr m hb
      = schnorr m.secp_ctx (sfh hb) (kp m.secp_ctx m.account_extended_key.private_key) ∧
    MyKeysManager.get_shutdown_scriptpubkey ser wh p2 m = .ok (p2 (wh (ser m.ldk_shutdown_pubkey))) := ⟨rfl, rfl⟩

/-- **C18_fn_no_signer_provider_path2.** the two remaining `SignerProvider` entry points, `get_destination_script` and
    `read_chan_signer`, are `unimplemented!()` as well (see `C18_fn_no_signer_provider_path`): no channel signer is ever
    rebuilt from serialized bytes, the only way to one is the derivation from seed and channel id. -/
theorem C18_fn_no_signer_provider_path2 {SK Ctx PK Scr Sg : Type} (m : MyKeysManager SK Ctx PK) (kid rd : List Nat) :
    (MyKeysManager.get_destination_script m kid : Rs.M Scr) = .error .panic ∧
    (MyKeysManager.read_chan_signer m rd : Rs.M Sg) = .error .panic := ⟨rfl, rfl⟩

example : MyKeysManager.get_node_id (fun (c k : Nat) => c + k) ⟨1, 5, ⟨7⟩, 9⟩ .Node = .ok 6 := rfl
example : MyKeysManager.ecdh (fun (k t : Nat) => if t = 0 then none else some (k * t)) (fun (p k : Nat) => (p, k))
    (⟨1, 5, ⟨7⟩, 9⟩ : MyKeysManager Nat Nat Nat) .Node 3 (some 0) = .error (.err "()") := rfl

end KeysMgrNode

/-! ## derive.rs (round 10, b8): `derive_key_lnd` itself (`Gen/FnDeriveLnd.lean`; until now an external of the LND bodies).
One normalisation: the `match network` that yields `coin_type` gets the annotation `u32` rustc infers. -/
section DeriveLnd
open VlsModel.Gen.FnDeriveLnd

/-- BIP44 coin type of the LND path -/
def lndCoin : Network → Option Nat
  | .Bitcoin => some 0
  | .Testnet => some 1
  | .Regtest => some 1
  | .Signet => some 1
  | .Testnet4 => none

/-- **C18_fn_derive_key_lnd.** the LND key of (family, index) is the BIP32 path `m/1017'/coin'/family'/0/index` from the
    master key — a function of (network, master key, family, index) and of nothing else; every step is `unwrap`ped. -/
theorem C18_fn_derive_key_lnd {Ctx SK PK CN : Type} (hard norm : Nat → Option CN)
    (dp : Xpriv SK → Ctx → List CN → Option (Xpriv SK)) (fp : Ctx → Xpriv SK → Xpub PK) (ctx : Ctx) (net : Network)
    (master : Xpriv SK) (fam idx coin : Nat) (hn : lndCoin net = some coin) :
    derive_key_lnd hard dp norm fp ctx net master fam idx
      = (do let c1 ← Rs.unwrap (hard 1017); let x1 ← Rs.unwrap (dp master ctx [c1])
            let c2 ← Rs.unwrap (hard coin); let x2 ← Rs.unwrap (dp x1 ctx [c2])
            let c3 ← Rs.unwrap (hard fam); let x3 ← Rs.unwrap (dp x2 ctx [c3])
            let c4 ← Rs.unwrap (norm 0); let x4 ← Rs.unwrap (dp x3 ctx [c4])
            let c5 ← Rs.unwrap (norm idx); let x5 ← Rs.unwrap (dp x4 ctx [c5])
            pure ((fp ctx x5).public_key, x5.private_key)) := by
  cases net <;> simp only [lndCoin, Option.some.injEq, reduceCtorEq] at hn <;> subst hn <;>
    simp only [derive_key_lnd, pure_bind]

/-- **C18_fn_derive_key_lnd_testnet4.** on `Network::Testnet4` the `match` falls into `_ => unreachable!()`: LND-style
    derivation panics there before any key is derived (recorded in notes/C18.md; LND is outside the statement of C18). -/
theorem C18_fn_derive_key_lnd_testnet4 {Ctx SK PK CN : Type} (hard norm : Nat → Option CN)
    (dp : Xpriv SK → Ctx → List CN → Option (Xpriv SK)) (fp : Ctx → Xpriv SK → Xpub PK) (ctx : Ctx)
    (master : Xpriv SK) (fam idx : Nat) :
    derive_key_lnd hard dp norm fp ctx .Testnet4 master fam idx = .error .panic := rfl

example : derive_key_lnd (fun i => some (i + 2 ^ 31)) (fun (x : Xpriv (List Nat)) (_ : Unit) c => some ⟨x.private_key ++ c⟩)
    (fun i => some i) (fun _ x => (⟨x.private_key⟩ : Xpub (List Nat))) () .Bitcoin ⟨[]⟩ 3 7
    = .ok ([1017 + 2 ^ 31, 2 ^ 31, 3 + 2 ^ 31, 0, 7], [1017 + 2 ^ 31, 2 ^ 31, 3 + 2 ^ 31, 0, 7]) := rfl

end DeriveLnd

end VlsModel.Props.C18Fn
