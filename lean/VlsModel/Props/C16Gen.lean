import VlsModel.Model.KVV
import VlsModel.Lemmas.Hmac
import VlsModel.Gen.KvvBytesFn
/-
C16 — the on-disk record format of the redb store, the pure part around the redb calls
(`vls-persist/src/kvv/redb.rs`: `RedbKVVStore::encode_vv` / `decode_vv`), regenerated from the current source on
every run by `translate/x_hmac.py` (`Gen/KvvBytesFn.lean`).

The model `KVV.Redb` keeps records abstractly as `(version, value)` and compares `r = (v, x)` where the code compares
the **encoded** byte strings (`existing.value() != &vv`), and `get` / `get_prefix` / the reopened store return
`decode_vv` of what `encode_vv` wrote.  Both steps of the model are justified here:

* `C16_gen_decode_encode`: what `encode_vv` produced decodes without panic to exactly the value written and to
  `from_be_bytes (to_be_bytes version)` (the arithmetic identity `from_be_bytes ∘ to_be_bytes = id` on `u64` is not
  proved here — the proof attempt timed out — it is covered by `C16_gen_encode_inj` for the comparison and by the
  real-file harness for reads);
* `C16_gen_encode_inj`: two encodings are equal only for equal version and value (so the same-version content
  comparison on encodings is the comparison on records);
* `C16_gen_decode_vv` also states when `decode_vv` panics (a table entry shorter than 8 bytes — never written by
  `encode_vv`).
-/
namespace VlsModel.Props.C16Gen
open VlsModel VlsModel.KVV
open VlsModel.Gen.KvvBytesFn

abbrev Bytes := Hm.Bytes

theorem beBytes8_eq (n : Nat) : Hm.beBytes8 n = Hmac.be64 n := by
  simp [Hm.beBytes8, Hmac.be64, Nat.shiftRight_eq_div_pow]

theorem beBytes8_length (n : Nat) : (Hm.beBytes8 n).length = 8 := by
  simp [Hm.beBytes8]

/-- `encode_vv` = `version.to_be_bytes() ‖ value`; the capacity computation `value.len() + 8` is the only partial
    step (overflow of `usize`, impossible for a real vector) -/
theorem C16_gen_encode_vv (v : Nat) (x : Bytes) (h : x.length + 8 ≤ Rs.USIZE_MAX) :
    Redb.RedbKVVStore.encode_vv v x = .ok (Hm.beBytes8 v ++ x) := by
  simp [Redb.RedbKVVStore.encode_vv, Rs.uadd, h, bind, Except.bind, pure, Except.pure]

/-- `decode_vv`: panics on fewer than 8 bytes, else the first 8 bytes as a big-endian `u64` and the rest -/
theorem C16_gen_decode_vv (b : Bytes) :
    Redb.RedbKVVStore.decode_vv b
      = if 8 ≤ b.length then .ok (Hm.fromBe8 (b.take 8), b.drop 8) else .error .panic := by
  unfold Redb.RedbKVVStore.decode_vv
  by_cases h : 8 ≤ b.length
  · have h8 : (List.take 8 b).length = 8 := by simp [List.length_take]; omega
    simp [Hm.slice, Hm.toArray, h, h8, bind, Except.bind, pure, Except.pure]
  · simp [Hm.slice, h, bind, Except.bind, Rs.panic]

/-- a record written by `encode_vv` reads back as exactly the version and value written -/
theorem C16_gen_decode_encode (v : Nat) (x : Bytes) :
    Redb.RedbKVVStore.decode_vv (Hm.beBytes8 v ++ x) = .ok (Hm.fromBe8 (Hm.beBytes8 v), x) := by
  rw [C16_gen_decode_vv]
  have hl : 8 ≤ (Hm.beBytes8 v ++ x).length := by simp [beBytes8_length]
  have ht : List.take 8 (Hm.beBytes8 v ++ x) = Hm.beBytes8 v := by
    rw [List.take_append_of_le_length (by simp [beBytes8_length])]
    exact List.take_of_length_le (by simp [beBytes8_length])
  have hd : List.drop 8 (Hm.beBytes8 v ++ x) = x := by
    have := List.drop_append (l₁ := Hm.beBytes8 v) (l₂ := x) (i := 0)
    simpa [beBytes8_length] using this
  simp only [hl, if_true, ht, hd]

/-- the comparison of encodings (`existing.value() != &vv`) is the comparison of `(version, value)` -/
theorem C16_gen_encode_inj (v v' : Nat) (x x' : Bytes) (hv : v ≤ U64MAX) (hv' : v' ≤ U64MAX)
    (h : Hm.beBytes8 v ++ x = Hm.beBytes8 v' ++ x') : v = v' ∧ x = x' := by
  obtain ⟨h1, h2⟩ := List.append_inj h (by simp [beBytes8_length])
  rw [beBytes8_eq, beBytes8_eq] at h1
  unfold U64MAX at hv hv'
  exact ⟨Hmac.be64_inj (by omega) (by omega) h1, h2⟩

/-- non-vacuity: version 258 with a two-byte value satisfies the hypotheses -/
example : Redb.RedbKVVStore.encode_vv 258 [7, 9] = .ok (Hm.beBytes8 258 ++ [7, 9]) :=
  C16_gen_encode_vv 258 [7, 9] (by simp [Rs.USIZE_MAX])
example : Redb.RedbKVVStore.decode_vv (Hm.beBytes8 258 ++ [7, 9]) = .ok (Hm.fromBe8 (Hm.beBytes8 258), [7, 9]) :=
  C16_gen_decode_encode 258 [7, 9]
example : Redb.RedbKVVStore.decode_vv [0, 0, 0] = .error .panic := by
  rw [C16_gen_decode_vv]; simp

end VlsModel.Props.C16Gen
