import VlsModel.Model.KVV
import VlsModel.Lemmas.Hmac
import VlsModel.Gen.KvvBytesFn
import VlsModel.Gen.FnRedb
import VlsModel.Lemmas.KVV
import VlsModel.Lemmas.SmapSorted
import VlsModel.Lemmas.KVVRedb
/-
C16 — the on-disk record format of the redb store, the pure part around the redb calls
(`vls-persist/src/kvv/redb.rs`: `RedbKVVStore::encode_vv` / `decode_vv`), regenerated from the current source on
every run by `translate/x_hmac.py` (`Gen/KvvBytesFn.lean`).

The model `KVV.Redb` keeps records abstractly as `(version, value)` and compares `r = (v, x)` where the code compares
the **encoded** byte strings (`existing.value() != &vv`), and `get` / `get_prefix` / the reopened store return
`decode_vv` of what `encode_vv` wrote.  Both steps of the model are justified here:

* `C16_gen_decode_encode`: what `encode_vv` produced for a `u64` version decodes to exactly that version and value
  (`fromBe8_beBytes8`: `from_be_bytes ∘ to_be_bytes = id` on `u64`), so reads, and the version cache rebuilt by
  `new_store` on reopen, see what was written;
* `C16_gen_encode_inj`: two encodings are equal only for equal version and value (so the same-version content
  comparison on encodings is the comparison on records);
* `C16_gen_decode_vv` also states when `decode_vv` panics (a table entry shorter than 8 bytes — never written by
  `encode_vv`).
-/
namespace VlsModel.Props.C16Gen
open VlsModel VlsModel.KVV
open VlsModel.Gen.KvvBytesFn

abbrev Bytes := Hm.Bytes

theorem beBytes8_eq (n : Nat) : Hm.beBytes8 n = Hmac.be64 n := by
  simp [Hm.beBytes8, Hmac.be64, Nat.shiftRight_eq_div_pow]

theorem beBytes8_length (n : Nat) : (Hm.beBytes8 n).length = 8 := by
  simp [Hm.beBytes8]

theorem byte_toNat (a : Nat) : (UInt8.ofNat (a % 256)).toNat = a % 256 := by
  simp [UInt8.toNat_ofNat']

/-- `u64::from_be_bytes(v.to_be_bytes()) = v` -/
theorem fromBe8_beBytes8 (n : Nat) (h : n ≤ U64MAX) : Hm.fromBe8 (Hm.beBytes8 n) = n := by
  have h' : n < 18446744073709551616 := by unfold U64MAX at h; omega
  rw [beBytes8_eq]
  simp only [Hm.fromBe8, Hmac.be64, List.foldl_cons, List.foldl_nil, byte_toNat]
  omega

/-- `encode_vv` = `version.to_be_bytes() ‖ value`; the capacity computation `value.len() + 8` is the only partial
    step (overflow of `usize`, impossible for a real vector) -/
theorem C16_gen_encode_vv (v : Nat) (x : Bytes) (h : x.length + 8 ≤ Rs.USIZE_MAX) :
    Redb.RedbKVVStore.encode_vv v x = .ok (Hm.beBytes8 v ++ x) := by
  simp [Redb.RedbKVVStore.encode_vv, Rs.uadd, h, bind, Except.bind, pure, Except.pure]

/-- `decode_vv`: panics on fewer than 8 bytes, else the first 8 bytes as a big-endian `u64` and the rest -/
theorem C16_gen_decode_vv (b : Bytes) :
    Redb.RedbKVVStore.decode_vv b
      = if 8 ≤ b.length then .ok (Hm.fromBe8 (b.take 8), b.drop 8) else .error .panic := by
  unfold Redb.RedbKVVStore.decode_vv
  by_cases h : 8 ≤ b.length
  · have h8 : (List.take 8 b).length = 8 := by simp [List.length_take]; omega
    simp [Hm.slice, Hm.toArray, h, h8, bind, Except.bind, pure, Except.pure]
  · simp [Hm.slice, h, bind, Except.bind, Rs.panic]

/-- a record written by `encode_vv` reads back as exactly the version and value written -/
theorem C16_gen_decode_encode (v : Nat) (x : Bytes) (hv : v ≤ U64MAX) :
    Redb.RedbKVVStore.decode_vv (Hm.beBytes8 v ++ x) = .ok (v, x) := by
  rw [C16_gen_decode_vv]
  have hl : 8 ≤ (Hm.beBytes8 v ++ x).length := by simp [beBytes8_length]
  have ht : List.take 8 (Hm.beBytes8 v ++ x) = Hm.beBytes8 v := by
    rw [List.take_append_of_le_length (by simp [beBytes8_length])]
    exact List.take_of_length_le (by simp [beBytes8_length])
  have hd : List.drop 8 (Hm.beBytes8 v ++ x) = x := by
    have := List.drop_append (l₁ := Hm.beBytes8 v) (l₂ := x) (i := 0)
    simpa [beBytes8_length] using this
  simp only [hl, if_true, ht, hd, fromBe8_beBytes8 v hv]

/-- the comparison of encodings (`existing.value() != &vv`) is the comparison of `(version, value)` -/
theorem C16_gen_encode_inj (v v' : Nat) (x x' : Bytes) (hv : v ≤ U64MAX) (hv' : v' ≤ U64MAX)
    (h : Hm.beBytes8 v ++ x = Hm.beBytes8 v' ++ x') : v = v' ∧ x = x' := by
  obtain ⟨h1, h2⟩ := List.append_inj h (by simp [beBytes8_length])
  rw [beBytes8_eq, beBytes8_eq] at h1
  unfold U64MAX at hv hv'
  exact ⟨Hmac.be64_inj (by omega) (by omega) h1, h2⟩

/-- non-vacuity: version 258 with a two-byte value satisfies the hypotheses -/
example : Redb.RedbKVVStore.encode_vv 258 [7, 9] = .ok (Hm.beBytes8 258 ++ [7, 9]) :=
  C16_gen_encode_vv 258 [7, 9] (by simp [Rs.USIZE_MAX])
example : Redb.RedbKVVStore.decode_vv (Hm.beBytes8 258 ++ [7, 9]) = .ok (258, [7, 9]) :=
  C16_gen_decode_encode 258 [7, 9] (by unfold U64MAX; omega)
example : Redb.RedbKVVStore.decode_vv [0, 0, 0] = .error .panic := by
  rw [C16_gen_decode_vv]; simp

/-! ## The version bookkeeping of `RedbKVVStore::put_with_version` / `put_batch` (round 8)

`translate/x_redb.py` rewrites the redb idioms of the two functions into operations on a plain map (the committed table;
a transaction is a private copy that `commit` publishes) and hands the result to rs2lean (`Gen/FnRedb.lean`).  The
hand-written model `KVV.Redb` (table of abstract records + separately cached versions) is proved to simulate the generated
functions for any injective key naming `f` and any record encoding `enc` that is injective on `u64` versions
(`C16_gen_encode_inj` for the generated `encode_vv`). -/

open VlsModel.Gen.FnRedb (RedbKVVStore)

/-- the record encoding is injective on `u64` versions -/
def EncInj (enc : Nat → List Nat → List Nat) : Prop :=
  ∀ v x v' x', v ≤ U64MAX → v' ≤ U64MAX → enc v x = enc v' x' → v = v' ∧ x = x'

/-- the code's committed table and version cache against the model's -/
structure SimR (f : Key → String) (enc : Nat → List Nat → List Nat) (c : RedbKVVStore) (s : Redb) : Prop where
  tab : ∀ k, Rs.smapGet c.db (f k) = (lookup s.tab k).map (fun r => enc r.1 r.2)
  cache : ∀ k, Rs.smapGet c.versions (f k) = lookup s.cache k
  bound : ∀ k r, lookup s.tab k = some r → r.1 ≤ U64MAX

def AgreeR (f : Key → String) (enc : Nat → List Nat → List Nat) (r : Rs.M RedbKVVStore) (m : Redb × Res) : Prop :=
  match r, m.2 with
  | .ok c', .ok => SimR f enc c' m.1
  | .error (.err tag), .mismatch => tag = "Error::VersionMismatch"
  | .error .panic, .panic => True
  | _, _ => False

theorem smap_insert_sim {α β : Type} (f : Key → String) (hf : ∀ a b, f a = f b → a = b) (g : α → β)
    (m : List (String × β)) (t : AL α) (h : ∀ k, Rs.smapGet m (f k) = (lookup t k).map g) (k : Key) (a : α) :
    ∀ k', Rs.smapGet (Rs.smapInsert m (f k) (g a)) (f k') = (lookup (insert t k a) k').map g := by
  intro k'
  simp only [Rs.smapGet_insert, lookup_insert, h k']
  by_cases e : k = k'
  · simp [e]
  · have : ¬ f k = f k' := fun he => e (hf _ _ he)
    simp [e, this]

theorem smap_insert_simId {α : Type} (f : Key → String) (hf : ∀ a b, f a = f b → a = b)
    (m : List (String × α)) (t : AL α) (h : ∀ k, Rs.smapGet m (f k) = lookup t k) (k : Key) (a : α) :
    ∀ k', Rs.smapGet (Rs.smapInsert m (f k) a) (f k') = lookup (insert t k a) k' := by
  have := smap_insert_sim f hf (fun x : α => x) m t (by intro k; simp [h k]) k a
  intro k'; simpa using this k'

theorem bound_insert (t : Tab) (hb : ∀ k r, lookup t k = some r → r.1 ≤ U64MAX) (k : Key) (v : Nat) (x : Val)
    (hv : v ≤ U64MAX) : ∀ k' r, lookup (insert t k (v, x)) k' = some r → r.1 ≤ U64MAX := by
  intro k' r hr
  rw [lookup_insert] at hr
  by_cases e : k = k'
  · simp [e] at hr; subst hr; exact hv
  · simp [e] at hr; exact hb k' r hr

/-- `put_with_version`: version read from the cache, content compared on the encodings read from the table (panic
    when a cached key is missing from the table), both the table and the cache written on acceptance -/
theorem C16_gen_redb_put_with_version (f : Key → String) (hf : ∀ a b, f a = f b → a = b)
    (enc : Nat → List Nat → List Nat) (henc : EncInj enc)
    (c : RedbKVVStore) (s : Redb) (h : SimR f enc c s) (k : Key) (v : Nat) (x : Val) (hv : v ≤ U64MAX) :
    AgreeR f enc (c.put_with_version enc (f k) v x) (Redb.putV s k v x) := by
  have hins : SimR f enc { c with db := Rs.smapInsert c.db (f k) (enc v x),
                                  versions := Rs.smapInsert c.versions (f k) v }
      { tab := insert s.tab k (v, x), cache := insert s.cache k v } :=
    ⟨smap_insert_sim f hf (fun r : Rec => enc r.1 r.2) c.db s.tab h.tab k (v, x),
     smap_insert_simId f hf c.versions s.cache h.cache k v, bound_insert s.tab h.bound k v x hv⟩
  unfold RedbKVVStore.put_with_version Redb.putV
  rw [h.cache k]
  cases hl : lookup s.cache k with
  | none => simpa [AgreeR] using hins
  | some v0 =>
    by_cases h1 : v < v0
    · simp [AgreeR, h1, Rs.fail]
    · by_cases h2 : v = v0
      · subst h2
        simp only [h1, decide_false, Bool.false_eq_true, if_false, beq_self_eq_true, if_true, h.tab k]
        cases ht : lookup s.tab k with
        | none => simp [AgreeR, Rs.unwrap, Rs.panic, bind, Except.bind]
        | some r =>
          obtain ⟨v1, x1⟩ := r
          have hb := h.bound k (v1, x1) ht
          by_cases he : (v1, x1) = (v, x)
          · simp only [Prod.mk.injEq] at he
            obtain ⟨e1, e2⟩ := he
            subst e1; subst e2
            simp [AgreeR, Rs.unwrap, bind, Except.bind, pure, Except.pure]
            exact h
          · have hne : enc v1 x1 ≠ enc v x := by
              intro hq
              have := henc v1 x1 v x hb hv hq
              exact he (by simp [this.1, this.2])
            simp [AgreeR, Rs.unwrap, bind, Except.bind, pure, Except.pure, hne, he, Rs.fail]
      · simp only [h1, h2, decide_false, if_false, Bool.false_eq_true, beq_iff_eq]
        simpa [AgreeR] using hins

/-- `get_version` answers from the **cache** -/
theorem C16_gen_redb_get_version (f : Key → String) (enc : Nat → List Nat → List Nat)
    (c : RedbKVVStore) (s : Redb) (h : SimR f enc c s) (k : Key) :
    c.get_version (f k) = .ok (lookup s.cache k) := by
  simp [RedbKVVStore.get_version, h.cache k]

/-- `put`: next version from the **cache** (`v + 1`, overflow at `u64::MAX`; `0` for a key not cached), then
    `put_with_version` -/
theorem C16_gen_redb_put (f : Key → String) (hf : ∀ a b, f a = f b → a = b)
    (enc : Nat → List Nat → List Nat) (henc : EncInj enc)
    (c : RedbKVVStore) (s : Redb) (h : SimR f enc c s) (k : Key) (x : Val) :
    match c.put enc (f k) x, (Redb.put s k x).2 with
    | .ok c', .ok => SimR f enc c' (Redb.put s k x).1
    | .error (.err tag), .mismatch => tag = "Error::VersionMismatch"
    | .error .panic, .panic => True
    | .error .overflow, .panic => True
    | _, _ => False := by
  unfold RedbKVVStore.put Redb.put
  rw [h.cache k]
  cases hl : lookup s.cache k with
  | none =>
    simp only [nextVer, Rs.pure_eq, Rs.bind_ok, Option.getD]
    have := C16_gen_redb_put_with_version f hf enc henc c s h k 0 x (by simp [U64MAX])
    unfold AgreeR at this
    revert this
    cases c.put_with_version enc (f k) 0 x <;> cases (Redb.putV s k 0 x).2 <;> simp
    all_goals (rename_i e; cases e <;> simp)
  | some v0 =>
    simp only [nextVer, Rs.uadd, U64MAX, Rs.U64_MAX]
    by_cases hv : v0 < 18446744073709551615
    · have hv' : v0 + 1 ≤ 18446744073709551615 := hv
      simp only [hv, hv', if_true, Rs.pure_eq, Rs.bind_ok, Option.getD]
      have := C16_gen_redb_put_with_version f hf enc henc c s h k (v0 + 1) x (by simp [U64MAX]; omega)
      unfold AgreeR at this
      revert this
      cases c.put_with_version enc (f k) (v0 + 1) x <;> cases (Redb.putV s k (v0 + 1) x).2 <;> simp
      all_goals (rename_i e; cases e <;> simp)
    · have hv' : ¬ v0 + 1 ≤ 18446744073709551615 := by omega
      simp [hv, hv', Rs.overflow, bind, Except.bind]

/-- `new_store` on an existing file ("load the current versions"): the cache it builds from the committed table is the
    model's `Redb.rebuild` (= the versions of the table), for any decoder that inverts the encoding on `u64` versions
    (`C16_gen_decode_encode` for the generated `decode_vv`/`encode_vv`) -/
theorem C16_gen_redb_load_versions (f : Key → String) (enc : Nat → List Nat → List Nat)
    (dec : List Nat → Nat × List Nat) (hdec : ∀ v x, v ≤ U64MAX → (dec (enc v x)).1 = v)
    (c : RedbKVVStore) (s : Redb) (h : SimR f enc c s) (hs : Rs.SSorted c.db) (k : Key) :
    Rs.smapGet (RedbKVVStore.load_versions dec c.db) (f k) = lookup (Redb.rebuild s.tab) k := by
  have hfold : RedbKVVStore.load_versions dec c.db
      = c.db.foldl (fun m e => Rs.smapInsert m e.1 ((fun vv => (dec vv).1) e.2)) [] := by
    unfold RedbKVVStore.load_versions
    congr 1
  rw [hfold, Rs.smapGet_insertAll_map_sorted (fun vv => (dec vv).1) c.db [] (f k) hs, h.tab k, lookup_rebuild]
  cases ht : lookup s.tab k with
  | none => simp [Rs.smapGet]
  | some r =>
    obtain ⟨v, x⟩ := r
    simp [hdec v x (h.bound k (v, x) ht)]

/-- reopening: a store handle built on the same committed table with the freshly loaded cache is related to the
    model's `Redb.reopen` -/
theorem C16_gen_redb_reopen (f : Key → String) (enc : Nat → List Nat → List Nat)
    (dec : List Nat → Nat × List Nat) (hdec : ∀ v x, v ≤ U64MAX → (dec (enc v x)).1 = v)
    (c : RedbKVVStore) (s : Redb) (h : SimR f enc c s) (hs : Rs.SSorted c.db) :
    SimR f enc { c with versions := RedbKVVStore.load_versions dec c.db } (Redb.reopen s) :=
  ⟨h.tab, fun k => C16_gen_redb_load_versions f enc dec hdec c s h hs k, h.bound⟩

/-- the committed table of the code stays sorted by key (what `load_versions` iterates over) -/
theorem C16_gen_redb_put_with_version_sorted (enc : Nat → List Nat → List Nat) (c c' : RedbKVVStore)
    (key : String) (v : Nat) (x : Val) (hs : Rs.SSorted c.db)
    (h : c.put_with_version enc key v x = .ok c') : Rs.SSorted c'.db := by
  unfold RedbKVVStore.put_with_version at h
  have hi := Rs.ssorted_insert key (enc v x) hs
  split at h
  · split at h
    · simp [Rs.fail] at h
    · split at h
      · cases hg : Rs.smapGet c.db key with
        | none => simp [hg, Rs.unwrap, Rs.panic, bind, Except.bind] at h
        | some e =>
          simp only [hg, Rs.unwrap, Rs.pure_eq, Rs.bind_ok] at h
          split at h
          · simp [Rs.fail] at h
          · simp at h; subst h; exact hs
      · simp at h; subst h; exact hi
  · simp at h; subst h; exact hi

/-! ### `put_batch` -/

def toCodeR (f : Key → String) (es : List (Key × Rec)) : List (String × (Nat × List Nat)) :=
  es.map (fun e => (f e.1, e.2))

abbrev AccC := Bool × List (String × List Nat) × List (String × Nat)

/-- the body of the loop of the generated `put_batch` -/
def batchBody (enc : Nat → List Nat → List Nat) (self : RedbKVVStore) :
    AccC → String × (Nat × List Nat) → Rs.M (Rs.Flow AccC Empty) :=
  fun (found_version_mismatch, tx, staged_versions) kvv => do
        let (key, (version, value)) := (kvv.1, (kvv.2.1, kvv.2.2))
        let vv := (enc version value)
        match (Option.or (Rs.smapGet staged_versions key) (Rs.smapGet self.versions key)) with
        | some v =>
            if (decide (version < v)) then
              let found_version_mismatch := true
              let tx := (Rs.smapInsert tx key vv)
              let staged_versions := (Rs.smapInsert staged_versions key version)
              pure (.next (found_version_mismatch, tx, staged_versions))
            else
              if (version == v) then
                let existing ← Rs.unwrap (Rs.smapGet tx key)
                let found_version_mismatch := (if (existing != vv) then (let found_version_mismatch := true; found_version_mismatch) else found_version_mismatch)
                pure (.next (found_version_mismatch, tx, staged_versions))
              else
                let tx := (Rs.smapInsert tx key vv)
                let staged_versions := (Rs.smapInsert staged_versions key version)
                pure (.next (found_version_mismatch, tx, staged_versions))
        | _ =>
            let tx := (Rs.smapInsert tx key vv)
            let staged_versions := (Rs.smapInsert staged_versions key version)
            pure (.next (found_version_mismatch, tx, staged_versions))

/-- loop state of the code against the loop state of the model (`Redb.Acc`), while the model has not panicked -/
structure RelB (f : Key → String) (enc : Nat → List Nat → List Nat) (acc : AccC) (a : Redb.Acc) : Prop where
  bad : acc.1 = a.bad
  tab : ∀ k, Rs.smapGet acc.2.1 (f k) = (lookup a.tab k).map (fun r => enc r.1 r.2)
  stg : ∀ k, Rs.smapGet acc.2.2 (f k) = lookup a.staged k
  bound : ∀ k r, lookup a.tab k = some r → r.1 ≤ U64MAX
  ss : Rs.SSorted acc.2.2
  ms : Sorted a.staged
  np : a.panicked = false

theorem batchStep_panicked (cache : AL Nat) (a : Redb.Acc) (e : Key × Rec) (h : a.panicked = true) :
    (Redb.batchStep cache a e).panicked = true := by
  unfold Redb.batchStep
  split
  · exact h
  · split
    · exact h
    · split
      · split
        · rfl
        · split <;> simp [h]
      · exact h

theorem foldl_panicked (cache : AL Nat) (es : List (Key × Rec)) (a : Redb.Acc) (h : a.panicked = true) :
    (es.foldl (Redb.batchStep cache) a).panicked = true := by
  induction es generalizing a with
  | nil => exact h
  | cons e es ih => exact ih _ (batchStep_panicked cache a e h)

/-- one iteration -/
theorem batchBody_step (f : Key → String) (hf : ∀ a b, f a = f b → a = b)
    (enc : Nat → List Nat → List Nat) (henc : EncInj enc)
    (c : RedbKVVStore) (s : Redb) (h : SimR f enc c s) (acc : AccC) (a : Redb.Acc) (hr : RelB f enc acc a)
    (e : Key × Rec) (hv : e.2.1 ≤ U64MAX) :
    match batchBody enc c acc (f e.1, e.2), Redb.batchStep s.cache a e with
    | .ok (.next acc'), a' => RelB f enc acc' a'
    | .error .panic, a' => a'.panicked = true
    | _, _ => False := by
  obtain ⟨k, v, x⟩ := e
  obtain ⟨fm, tx, sv⟩ := acc
  have hbad : fm = a.bad := hr.bad
  have hol : Option.or (Rs.smapGet sv (f k)) (Rs.smapGet c.versions (f k)) = olookup a.staged s.cache k := by
    have h1 := hr.stg k
    simp only at h1
    rw [h1, h.cache k]; unfold olookup; cases lookup a.staged k <;> simp [Option.or]
  have hins : ∀ b : Bool, b = a.bad ∨ b = true →
      RelB f enc (b, Rs.smapInsert tx (f k) (enc v x), Rs.smapInsert sv (f k) v)
        { a with bad := b, tab := insert a.tab k (v, x), staged := insert a.staged k v } := by
    intro b _
    exact ⟨rfl, smap_insert_sim f hf (fun r : Rec => enc r.1 r.2) tx a.tab hr.tab k (v, x),
      smap_insert_simId f hf sv a.staged hr.stg k v, bound_insert a.tab hr.bound k v x hv,
      Rs.ssorted_insert _ _ hr.ss, sorted_insert _ _ hr.ms, hr.np⟩
  simp only [batchBody, Redb.batchStep, hol]
  cases hl : olookup a.staged s.cache k with
  | none =>
    simp only [pure, Except.pure]
    have := hins fm (Or.inl hbad)
    rw [hbad] at this ⊢
    simpa using this
  | some v0 =>
    by_cases h1 : v < v0
    · simp only [h1, decide_true, if_true, pure, Except.pure]
      exact hins true (Or.inr rfl)
    · by_cases h2 : v = v0
      · subst h2
        have htab := hr.tab k
        simp only at htab
        simp only [h1, decide_false, Bool.false_eq_true, if_false, beq_self_eq_true, if_true, htab]
        cases ht : lookup a.tab k with
        | none => simp [Rs.unwrap, Rs.panic, bind, Except.bind]
        | some r =>
          obtain ⟨v1, x1⟩ := r
          have hb := hr.bound k (v1, x1) ht
          by_cases he : (v1, x1) = (v, x)
          · simp only [Prod.mk.injEq] at he
            obtain ⟨e1, e2⟩ := he
            subst e1; subst e2
            simp [Rs.unwrap, bind, Except.bind, pure, Except.pure]
            exact ⟨hbad, hr.tab, hr.stg, hr.bound, hr.ss, hr.ms, hr.np⟩
          · have hne : enc v1 x1 ≠ enc v x := by
              intro hq
              have := henc v1 x1 v x hb hv hq
              exact he (by simp [this.1, this.2])
            simp [Rs.unwrap, bind, Except.bind, pure, Except.pure, hne, he]
            exact ⟨rfl, hr.tab, hr.stg, hr.bound, hr.ss, hr.ms, hr.np⟩
      · simp only [h1, h2, decide_false, if_false, Bool.false_eq_true, beq_iff_eq, pure, Except.pure]
        have := hins fm (Or.inl hbad)
        rw [hbad] at this ⊢
        simpa using this

theorem loopB_cons {α σ : Type} (x : α) (xs : List α) (s : σ) (f : σ → α → Rs.M (Rs.Flow σ Empty)) :
    Rs.loopB (x :: xs) s f = (f s x >>= fun fl =>
      match fl with
      | .next s' => Rs.loopB xs s' f
      | .brk s' => pure s'
      | .ret r => nomatch r) := by
  unfold Rs.loopB
  rw [Rs.loopM]
  cases f s x with
  | error e => rfl
  | ok fl =>
    cases fl with
    | next s' => rfl
    | brk s' => rfl
    | ret r => exact nomatch r

theorem batch_loop (f : Key → String) (hf : ∀ a b, f a = f b → a = b)
    (enc : Nat → List Nat → List Nat) (henc : EncInj enc)
    (c : RedbKVVStore) (s : Redb) (h : SimR f enc c s) (es : List (Key × Rec)) (hv : ∀ e ∈ es, e.2.1 ≤ U64MAX) :
    ∀ (acc : AccC) (a : Redb.Acc), RelB f enc acc a →
      match Rs.loopB (toCodeR f es) acc (batchBody enc c), es.foldl (Redb.batchStep s.cache) a with
      | .ok acc', a' => RelB f enc acc' a'
      | .error .panic, a' => a'.panicked = true
      | _, _ => False := by
  induction es with
  | nil =>
    intro acc a hr
    simpa [toCodeR, Rs.loopB, Rs.loopM, bind, Except.bind, pure, Except.pure] using hr
  | cons e es ih =>
    intro acc a hr
    have hstep := batchBody_step f hf enc henc c s h acc a hr e (hv e (by simp))
    simp only [toCodeR, List.map_cons, List.foldl_cons, loopB_cons]
    cases hb : batchBody enc c acc (f e.1, e.2) with
    | error err =>
      rw [hb] at hstep
      cases err with
      | panic =>
        simp only [bind, Except.bind]
        exact foldl_panicked s.cache es _ hstep
      | overflow => simp at hstep
      | err t => simp at hstep
    | ok fl =>
      rw [hb] at hstep
      cases fl with
      | next acc' =>
        simp only [bind, Except.bind]
        exact ih (fun e' he' => hv e' (by simp [he'])) acc' _ hstep
      | brk _ => simp at hstep
      | ret r => exact nomatch r

theorem versions_fold (c : RedbKVVStore) (sv : List (String × Nat)) :
    List.foldl (fun (self : RedbKVVStore) (x : String × Nat) =>
        { self with versions := Rs.smapInsert self.versions x.1 x.2 }) c sv
      = { c with versions := sv.foldl (fun m e => Rs.smapInsert m e.1 e.2) c.versions } := by
  induction sv generalizing c with
  | nil => rfl
  | cons e sv ih => simp only [List.foldl_cons]; rw [ih]

/-- `put_batch`: the loop of the code is the model's `Redb.batchStep` (version against the version staged earlier in
    the batch, else the **cache**; content against the **staged** table; lower-version entries still staged; a cached key
    missing from the table panics), a refused batch publishes nothing (`abort`), an accepted one publishes the staged
    table and then applies `staged_versions` to the cache -/
theorem C16_gen_redb_put_batch (f : Key → String) (hf : ∀ a b, f a = f b → a = b)
    (enc : Nat → List Nat → List Nat) (henc : EncInj enc)
    (c : RedbKVVStore) (s : Redb) (h : SimR f enc c s) (es : List (Key × Rec)) (hv : ∀ e ∈ es, e.2.1 ≤ U64MAX) :
    AgreeR f enc (c.put_batch enc (toCodeR f es)) (Redb.batch s es) := by
  have hbody : c.put_batch enc (toCodeR f es) = (do
      let r ← Rs.loopB (toCodeR f es) (false, c.db, []) (batchBody enc c)
      if r.1 then Rs.fail "Error::VersionMismatch"
      else pure (List.foldl (fun (self : RedbKVVStore) (x : String × Nat) =>
        { self with versions := Rs.smapInsert self.versions x.1 x.2 }) { c with db := r.2.1 } r.2.2)) := rfl
  rw [hbody]
  have h0 : RelB f enc (false, c.db, []) ⟨s.tab, [], false, false⟩ :=
    ⟨rfl, h.tab, by intro k; simp [Rs.smapGet, lookup], h.bound, trivial, trivial, rfl⟩
  have hl := batch_loop f hf enc henc c s h es hv _ _ h0
  unfold Redb.batch Redb.batchLoop
  generalize es.foldl (Redb.batchStep s.cache) ⟨s.tab, [], false, false⟩ = a at hl ⊢
  cases hr : Rs.loopB (toCodeR f es) (false, c.db, []) (batchBody enc c) with
  | error err =>
    rw [hr] at hl
    cases err with
    | panic => simp only at hl; simp [hl, AgreeR, bind, Except.bind]
    | overflow => simp at hl
    | err t => simp at hl
  | ok acc =>
    rw [hr] at hl
    simp only at hl
    obtain ⟨fm, tx, sv⟩ := acc
    have hbad : fm = a.bad := hl.bad
    simp only [bind, Except.bind, hl.np, Bool.false_eq_true, if_false]
    by_cases hb : a.bad = true
    · simp [hbad, hb, AgreeR, Rs.fail]
    · have hb' : a.bad = false := by simpa using hb
      simp only [hbad, hb', Bool.false_eq_true, if_false, pure, Except.pure, AgreeR, versions_fold]
      refine ⟨hl.tab, ?_, hl.bound⟩
      intro k
      simp only
      rw [Rs.smapGet_insertAll_sorted sv c.versions (f k) hl.ss, lookup_insertAll_sorted a.staged s.cache k hl.ms]
      have := hl.stg k
      simp only at this
      rw [this, h.cache k]
      cases lookup a.staged k <;> rfl

theorem map_toNat_inj : ∀ (a b : List UInt8), a.map UInt8.toNat = b.map UInt8.toNat → a = b := by
  intro a
  induction a with
  | nil => intro b h; cases b <;> simp_all
  | cons x xs ih =>
    intro b h
    cases b with
    | nil => simp at h
    | cons y ys =>
      simp only [List.map_cons, List.cons.injEq] at h
      rw [UInt8.toNat_inj.mp h.1, ih ys h.2]

/-- the generated `encode_vv` (Gen/KvvBytesFn.lean) is such an encoding (bytes as `Nat` lists, as rs2lean represents
    `Vec<u8>`) -/
theorem encInj_of_bytes (enc : Nat → List Nat → List Nat)
    (hgen : ∀ v (x : List Nat), enc v x = (Hm.beBytes8 v).map UInt8.toNat ++ x) : EncInj enc := by
  intro v x v' x' hv hv' he
  rw [hgen, hgen] at he
  obtain ⟨h1, h2⟩ := List.append_inj he (by simp [beBytes8_length])
  have h3 : Hm.beBytes8 v = Hm.beBytes8 v' := map_toNat_inj _ _ h1
  have := C16_gen_encode_inj v v' [] [] hv hv' (by simp [h3])
  exact ⟨this.1, h2⟩

/-- non-vacuity: the empty stores are related, and a first write is accepted -/
example (f : Key → String) (enc : Nat → List Nat → List Nat) : SimR f enc ⟨[], []⟩ Redb.empty :=
  ⟨by intro k; simp [Rs.smapGet, lookup, Redb.empty], by intro k; simp [Rs.smapGet, lookup, Redb.empty],
   by intro k r h; simp [lookup, Redb.empty] at h⟩

end VlsModel.Props.C16Gen
