import VlsModel.Model.Backup
import VlsModel.Gen.Backup
/-
C11 — companion module: the composite persister `BackupPersister` (anchor vls-persist/src/backup_persister.rs).

The property's restart may come back from either store of the composite (the main store normally, the backup
when the main store was lost).  Proved on `Model/Backup.lean`, whose two method forms are the ones
`translate/x_backup.py` finds in the current source (`C11_gen_backup_table`).
-/
namespace VlsModel.Props.C11Gen
open VlsModel VlsModel.Backup

theorem store_write_ok (s s' : Store) (k : Nat) (v : Option Nat) (h : s.write k v = some s') :
    s'.data k = v ∧ (∀ x, x ≠ k → s'.data x = s.data x) ∧ s'.failing = s.failing ∧ s'.needsRecovery = s.needsRecovery := by
  unfold Store.write at h
  split at h
  · cases h
  · cases h
    refine ⟨by simp, ?_, rfl, rfl⟩
    intro x hx
    simp [hx]

/-- **C11 (composite, acknowledged ⇒ in the backup)**: whatever the state of the main store, an acknowledged
    write is in the backup store — the store a signer that lost its main store restarts from. -/
theorem C11_backup_ack_backup (c c' : Comp) (k : Nat) (v : Option Nat) (h : c.write k v = (c', .ok)) :
    c'.backup.data k = v := by
  unfold Comp.write at h
  split at h
  · split at h
    · cases h
    · rename_i m' hm
      split at h
      · cases h
      · rename_i b' hb
        cases h
        exact (store_write_ok _ _ _ _ hb).1
  · split at h
    · cases h
    · rename_i b' hb
      cases h
      exact (store_write_ok _ _ _ _ hb).1

/-- **C11 (composite, acknowledged ⇒ in both)**: with a ready main store an acknowledged write is in both
    stores, so a restart from the main store alone sees it too. -/
theorem C11_backup_ack_both (c c' : Comp) (k : Nat) (v : Option Nat) (hr : c.mainReady = true)
    (h : c.write k v = (c', .ok)) : c'.main.data k = v ∧ c'.backup.data k = v := by
  refine ⟨?_, C11_backup_ack_backup c c' k v h⟩
  unfold Comp.write at h
  simp only [hr, if_true] at h
  split at h
  · cases h
  · rename_i m' hm
    split at h
    · cases h
    · cases h
      exact (store_write_ok _ _ _ _ hm).1

/-- **C11 (composite, the stores stay equal)**: from stores that hold the same entries, with a ready main store,
    every acknowledged write leaves them holding the same entries (so "restore from the main store" and
    "restore from the backup" are the same signer after every acknowledged request). -/
theorem C11_backup_sync_step (c c' : Comp) (k : Nat) (v : Option Nat) (hr : c.mainReady = true)
    (hs : c.inSync) (h : c.write k v = (c', .ok)) : c'.inSync ∧ c'.mainReady = true := by
  unfold Comp.write at h
  simp only [hr, if_true] at h
  split at h
  · cases h
  · rename_i m' hm
    split at h
    · cases h
    · rename_i b' hb
      cases h
      obtain ⟨m1, m2, _, m4⟩ := store_write_ok _ _ _ _ hm
      obtain ⟨b1, b2, _, _⟩ := store_write_ok _ _ _ _ hb
      refine ⟨?_, ?_⟩
      · intro x
        by_cases hx : x = k
        · subst hx; simp only; rw [m1, b1]
        · simp only; rw [m2 x hx, b2 x hx]; exact hs x
      · unfold Comp.mainReady at hr ⊢
        simp only
        rw [m4]; exact hr

/-- a write that the MAIN store refuses changes nothing at all; a write that only the BACKUP refuses is reported
    as an error but has reached the main store: the stores differ until the start-up sync (that is the window the
    source's comment describes; storage failures are outside the property, the signer stops) -/
theorem C11_backup_refused (c c' : Comp) (k : Nat) (v : Option Nat) (hr : c.mainReady = true)
    (h : c.write k v = (c', .err)) :
    (c.main.failing = true → c' = c) ∧ (c.main.failing = false → c'.backup = c.backup ∧ c'.main.data k = v) := by
  unfold Comp.write at h
  simp only [hr, if_true] at h
  constructor
  · intro hf
    simp [Store.write, hf] at h
    exact h.symm
  · intro hf
    simp only [Store.write, hf, Bool.false_eq_true, if_false] at h
    split at h
    · simp only [Prod.mk.injEq, and_true] at h
      subst h
      exact ⟨rfl, by simp⟩
    · simp at h

/-- **C11 (composite, reads)**: what a restore reads is what the last acknowledged write stored — from the main
    store when it is ready, from the backup while the main store awaits recovery. -/
theorem C11_backup_read_after_write (c c' : Comp) (k : Nat) (v : Option Nat)
    (h : c.write k v = (c', .ok)) : c'.read k = v := by
  have hb := C11_backup_ack_backup c c' k v h
  by_cases hr : c.mainReady = true
  · have hboth := C11_backup_ack_both c c' k v hr h
    have hr' : c'.mainReady = true := by
      unfold Comp.write at h
      simp only [hr, if_true] at h
      split at h
      · cases h
      · rename_i m' hm
        split at h
        · cases h
        · cases h
          have := (store_write_ok _ _ _ _ hm).2.2.2
          unfold Comp.mainReady at hr ⊢
          simp only; rw [this]; exact hr
    simp [Comp.read, hr', hboth.1]
  · have hr0 : c.mainReady = false := by simpa using hr
    have hr' : c'.mainReady = false := by
      unfold Comp.write at h
      simp only [hr0, Bool.false_eq_true, if_false] at h
      split at h
      · cases h
      · cases h
        exact hr0
    simp [Comp.read, hr', hb]

/-- **C11 (composite, recovery)**: a main store that was lost is not read and not written until the initial
    restore is complete; after `on_initial_restore` the node writes every entry again (`persist_all`), and if that
    is acknowledged the recovered main store holds every one of those entries, as the backup does. -/
theorem C11_backup_recovery_sync (entries : List (Nat × Option Nat)) : ∀ (c c' : Comp),
    c.mainReady = true → c.writeAll entries = (c', .ok) →
    ∀ k, (∃ v, (k, v) ∈ entries) → c'.main.data k = c'.backup.data k := by
  induction entries with
  | nil => intro c c' _ _ k hk; obtain ⟨v, hv⟩ := hk; cases hv
  | cons e rest ih =>
    intro c c' hr h k hk
    obtain ⟨k0, v0⟩ := e
    simp only [Comp.writeAll] at h
    split at h
    · rename_i c1 hw
      -- the first write reached both stores; later writes keep equal keys equal
      have hboth := C11_backup_ack_both c c1 k0 v0 hr hw
      have hr1 : c1.mainReady = true := by
        unfold Comp.write at hw
        simp only [hr, if_true] at hw
        split at hw
        · cases hw
        · rename_i m' hm
          split at hw
          · cases hw
          · cases hw
            have := (store_write_ok _ _ _ _ hm).2.2.2
            unfold Comp.mainReady at hr ⊢
            simp only; rw [this]; exact hr
      by_cases hin : ∃ v, (k, v) ∈ rest
      · exact ih c1 c' hr1 h k hin
      · -- k is only written by the first pair; the remaining writes do not touch it
        obtain ⟨v, hv⟩ := hk
        have hk0 : k = k0 := by
          rcases List.mem_cons.mp hv with h1 | h1
          · exact (Prod.mk.inj h1).1
          · exact absurd ⟨v, h1⟩ hin
        subst hk0
        have hkeep : ∀ (l : List (Nat × Option Nat)) (d d' : Comp), d.mainReady = true → d.writeAll l = (d', .ok) →
            (¬ ∃ v, (k, v) ∈ l) → d'.main.data k = d.main.data k ∧ d'.backup.data k = d.backup.data k := by
          intro l
          induction l with
          | nil => intro d d' _ hd _; simp [Comp.writeAll] at hd; subst hd; exact ⟨rfl, rfl⟩
          | cons e2 r2 ih2 =>
            intro d d' hdr hd hnot
            obtain ⟨k2, v2⟩ := e2
            simp only [Comp.writeAll] at hd
            split at hd
            · rename_i d1 hw2
              have hne : k ≠ k2 := fun heq => hnot ⟨v2, by simp [heq]⟩
              have hnot' : ¬ ∃ v, (k, v) ∈ r2 := fun ⟨v, hv⟩ => hnot ⟨v, List.mem_cons_of_mem _ hv⟩
              have hstep : d1.main.data k = d.main.data k ∧ d1.backup.data k = d.backup.data k ∧ d1.mainReady = true := by
                unfold Comp.write at hw2
                simp only [hdr, if_true] at hw2
                split at hw2
                · cases hw2
                · rename_i m' hm
                  split at hw2
                  · cases hw2
                  · rename_i b' hb
                    cases hw2
                    obtain ⟨_, m2, _, m4⟩ := store_write_ok _ _ _ _ hm
                    obtain ⟨_, b2, _, _⟩ := store_write_ok _ _ _ _ hb
                    refine ⟨m2 k hne, b2 k hne, ?_⟩
                    unfold Comp.mainReady at hdr ⊢
                    simp only; rw [m4]; exact hdr
              have := ih2 d1 d' hstep.2.2 hd hnot'
              exact ⟨this.1.trans hstep.1, this.2.trans hstep.2.1⟩
            · cases hd
        have := hkeep rest c1 c' hr1 h hin
        rw [this.1, this.2, hboth.1, hboth.2]
    · cases h

/-! ### Tie to the source (translate/x_backup.py) -/

open VlsModel.Gen.Backup in
/-- **C11_gen_backup_table** (generated obligation): in the current source every method of
    `impl Persist for BackupPersister` has one of the matched forms, and they are distributed like this: the nine
    mutating methods are `write` (main first when ready, with `?`, then the backup = `Comp.write`), the five
    getters are `read` (= `Comp.read`), `clear_database` clears both unguarded, `on_initial_restore` sets the flag
    (= `Comp.onInitialRestore`), `signer_id` is the main store's. -/
theorem C11_gen_backup_table :
    Method.all.filter (fun m => kind m == .write) =
      [.new_node, .update_node, .delete_node, .new_channel, .delete_channel, .new_tracker, .update_tracker,
       .update_channel, .update_node_allowlist] ∧
    Method.all.filter (fun m => kind m == .read) =
      [.get_tracker, .get_channel, .get_node_channels, .get_node_allowlist, .get_nodes] ∧
    Method.all.filter (fun m => kind m == .both) = [.clear_database] ∧
    kind .on_initial_restore = .restoreDone ∧ kind .signer_id = .mainOnly := by decide

open VlsModel.Gen.Backup in
/-- every persister call that the request shapes of C10/C11 count as a persist event (`Channel::persist` →
    update_channel, new_channel, delete_channel, update_node, update_node_allowlist, update_tracker) is a `write`
    of the composite, and everything the restore path reads (`get_nodes`, `get_node_allowlist`,
    `get_node_channels`, `get_tracker`) is a `read` -/
theorem C11_gen_backup_persist_calls :
    (∀ m ∈ [Method.update_channel, .new_channel, .delete_channel, .update_node, .update_node_allowlist, .update_tracker],
      kind m = .write) ∧
    (∀ m ∈ [Method.get_nodes, .get_node_allowlist, .get_node_channels, .get_tracker], kind m = .read) := by decide

open VlsModel.Gen.Backup in
/-- **C11_gen_backup_defaulted** (generated obligation): the composite overrides neither the transaction brackets
    nor the replication hooks of the trait — `enter`, `prepare`, `commit`, `put_batch_unlogged`,
    `begin_replication` stay the trait's no-ops and `recovery_required` stays `false`.  A transactional backup store
    is therefore bracketed by whoever owns it (vlsd and the simulator call `enter`/`prepare`/`commit` on the inner
    store), not through the composite: the source's "only the backup persister is assumed to use context". -/
theorem C11_gen_backup_defaulted :
    Defaulted.all = [.enter, .prepare, .commit, .put_batch_unlogged, .recovery_required, .begin_replication] := by
  decide

/-! ### Non-vacuity -/

def emptyStore : Store := { data := fun _ => none }
def c0 : Comp := { main := emptyStore, backup := emptyStore, restoreDone := false }

/-- an acknowledged write reaches both stores; with a failing backup it is refused but the main store has it;
    with a main store awaiting recovery it goes to the backup only and is read from there -/
example :
    ((c0.write 3 (some 7)).2 = .ok ∧ (c0.write 3 (some 7)).1.main.data 3 = some 7 ∧ (c0.write 3 (some 7)).1.backup.data 3 = some 7) ∧
    (let c := { c0 with backup := { emptyStore with failing := true } }
     (c.write 3 (some 7)).2 = .err ∧ (c.write 3 (some 7)).1.main.data 3 = some 7 ∧ (c.write 3 (some 7)).1.backup.data 3 = none) ∧
    (let c := { c0 with main := { emptyStore with needsRecovery := true } }
     (c.write 3 (some 7)).2 = .ok ∧ (c.write 3 (some 7)).1.main.data 3 = none ∧ (c.write 3 (some 7)).1.read 3 = some 7) := by
  decide

end VlsModel.Props.C11Gen
