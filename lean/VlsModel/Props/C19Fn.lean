import VlsModel.Lemmas.Wire
import VlsModel.Gen.WireSchema
import VlsModel.Gen.FnMsgs
import VlsModel.Gen.FnPsbt
import VlsModel.Gen.BoltDerive
import VlsModel.Lemmas.FnGen
/-
C19 — the frame length check of `vls-protocol/src/msgs.rs` tied to the source by rs2lean.

`check_message_length(len: u32)` is the first thing `from_reader` (hence `from_vec` and `read`) and
`read_message::<T>` do.  `translate/rs2lean.py` regenerates its body on every run (`Gen/FnMsgs.lean`); here

* `C19_fn_check_message_length`: the generated body = the model's `Wire.checkMessageLength` with the *generated*
  `MAX_MESSAGE_SIZE` of `Gen/WireSchema.lean` (two independent extractions of the constant meet in one obligation:
  rs2lean inlines the value of the `const` item, x_wire.py evaluates its initialiser), the two error values being
  `Error::ShortRead` and `Error::MessageTooLarge` in this order of checks;
* `C19_fn_from_vec_length`, `C19_fn_read_frame_length`, `C19_fn_read_message_length`: the three model readers start
  with exactly this check (same error, nothing decoded) and go on only inside `2 ≤ len ≤ MAX_MESSAGE_SIZE`
  (`C19_fn_length_ok_iff`), so `C19_main`'s hypothesis `|as_vec m| ≤ maxMsg` is the code's guard;
* `C19_fn_min_frame`: the lower bound 2 is the width of the type prefix `as_vec` writes: every encoding passes it.

A change of either comparison, of their order, of an error value or of the constant changes the generated
definition and the first theorem no longer builds.
-/
namespace VlsModel.Props.C19Fn
open VlsModel VlsModel.Wire VlsModel.Gen.WireSchema

/-- the Rust error value of a model error (only the two that `check_message_length` can return matter) -/
def failOf : WireErr → Rs.Fail
  | .shortRead => .err "Error::ShortRead"
  | .tooLarge => .err "Error::MessageTooLarge"
  | .decode => .err "Error::Bitcoin"
  | .trailing => .err "Error::TrailingBytes"

theorem C19_fn_check_message_length (n : Nat) :
    Gen.FnMsgs.check_message_length n
      = (match checkMessageLength maxMessageSize n with
         | .ok u => .ok u
         | .error e => .error (failOf e)) := by
  unfold Gen.FnMsgs.check_message_length checkMessageLength
  -- by cases on the two conditions, not on the text: the order of the two `if`s in the source does not matter
  by_cases h1 : n < 2 <;> by_cases h2 : n > 131072 <;>
    simp [h1, h2, Rs.fail, failOf, maxMessageSize] <;> omega

theorem C19_fn_length_ok_iff (maxMsg n : Nat) :
    checkMessageLength maxMsg n = .ok () ↔ 2 ≤ n ∧ n ≤ maxMsg := by
  unfold checkMessageLength
  by_cases h1 : n < 2
  · simp [h1]
    try omega
  · by_cases h2 : n > maxMsg
    · simp [h1, h2]
      try omega
    · simp [h1, h2]
      try omega

/-- which error: `ShortRead` below 2 whatever the limit is, `MessageTooLarge` above the limit -/
theorem C19_fn_length_err (maxMsg n : Nat) :
    (n < 2 → checkMessageLength maxMsg n = .error .shortRead) ∧
    (2 ≤ n → maxMsg < n → checkMessageLength maxMsg n = .error .tooLarge) := by
  unfold checkMessageLength
  constructor
  · intro h; simp [h]
  · intro h1 h2
    have : ¬ n < 2 := by omega
    simp [this, h2]

variable {α : Type} (L : LeafCodec α)

/-- `from_vec` / `from_reader`: a refused length is the result, nothing is decoded -/
theorem C19_fn_from_vec_length (reg : List Entry) (maxMsg : Nat) (bs : Bytes) (e : WireErr)
    (h : checkMessageLength maxMsg bs.length = .error e) : fromVec L reg maxMsg bs = .error e := by
  unfold checkMessageLength at h
  unfold fromVec
  by_cases h1 : bs.length < 2
  · simp [h1] at h ⊢; exact h
  · by_cases h2 : bs.length > maxMsg
    · simp [h1, h2] at h ⊢; exact h
    · simp [h1, h2] at h

/-- `read`: the length field of the frame goes through the same check before anything of the body is read -/
theorem C19_fn_read_frame_length (reg : List Entry) (maxMsg : Nat) (bs a r : Bytes) (e : WireErr)
    (hs : splitAt? 4 bs = some (a, r)) (h : checkMessageLength maxMsg (beVal a) = .error e) :
    readFrame L reg maxMsg bs = .error e := by
  unfold checkMessageLength at h
  unfold readFrame
  simp only [hs]
  by_cases h1 : beVal a < 2
  · simp [h1] at h ⊢; exact h
  · by_cases h2 : beVal a > maxMsg
    · simp [h1, h2] at h ⊢; exact h
    · simp [h1, h2] at h

/-- `read_message::<T>`: same check, the typed reader yields nothing -/
theorem C19_fn_read_message_length (maxMsg : Nat) (en : Entry) (bs a r : Bytes) (e : WireErr)
    (hs : splitAt? 4 bs = some (a, r)) (h : checkMessageLength maxMsg (beVal a) = .error e) :
    readMessageTyped L maxMsg en bs = none := by
  unfold checkMessageLength at h
  unfold readMessageTyped
  simp only [hs]
  by_cases h1 : beVal a < 2
  · simp [h1]
  · by_cases h2 : beVal a > maxMsg
    · simp [h2]
    · simp [h1, h2] at h

/-- every `as_vec` output passes the lower bound: the two bytes are the type prefix it writes itself -/
theorem C19_fn_min_frame (en : Entry) (v : Val α) :
    ¬ (asVec L en v).length < 2 := by
  have : (beBytes 2 en.id).length = 2 := by simp [beBytes]
  simp only [asVec, List.length_append, this]
  omega


/-! ## psbt.rs: `StreamedPSBT::unsigned_tx_checks` (the guard in front of the input loop of the streamed decoder)

rust-bitcoin's `Psbt`, `Transaction`, `TxIn` are declared to the translator as far as the function reads them
(`"foreign_structs"` of `translate/fn_targets/Psbt.json`: `script_sig` as its bytes, `witness` as its list of elements —
`ScriptBuf::is_empty` / `Witness::is_empty` are "no bytes" / "no elements").  The model's `Streamed.TxIn` keeps only the
two emptiness flags. -/
section Psbt
open Gen.FnPsbt

/-- what the loop of `unsigned_tx_checks` computes, input by input -/
def checksSpec : List TxIn → Rs.M Unit
  | [] => .ok ()
  | i :: is =>
    if !i.script_sig.isEmpty then .error (.err "Error::UnsignedTxHasScriptSigs")
    else if !i.witness.isEmpty then .error (.err "Error::UnsignedTxHasScriptWitnesses")
    else checksSpec is

/-- **C19_fn_unsigned_tx_checks.** the generated loop (early `return Err(..)` per input) is this recursion -/
theorem C19_fn_unsigned_tx_checks (psbt : Psbt) :
    StreamedPSBT.unsigned_tx_checks psbt = checksSpec psbt.unsigned_tx.input := by
  unfold StreamedPSBT.unsigned_tx_checks
  generalize psbt.unsigned_tx.input = l
  induction l with
  | nil => rfl
  | cons x xs ih =>
    by_cases h1 : x.script_sig.isEmpty <;> by_cases h2 : x.witness.isEmpty <;>
      simp [Rs.loopM, checksSpec, h1, h2, Rs.fail, bind, Except.bind, pure, Except.pure] at ih ⊢
    exact ih

/-- it passes iff every input of the unsigned transaction has an empty scriptSig and an empty witness -/
theorem C19_fn_unsigned_tx_checks_ok (psbt : Psbt) :
    StreamedPSBT.unsigned_tx_checks psbt = .ok () ↔
      psbt.unsigned_tx.input.all (fun i => i.script_sig.isEmpty && i.witness.isEmpty) = true := by
  rw [C19_fn_unsigned_tx_checks]
  generalize psbt.unsigned_tx.input = l
  induction l with
  | nil => simp [checksSpec]
  | cons x xs ih =>
    by_cases h1 : x.script_sig.isEmpty <;> by_cases h2 : x.witness.isEmpty <;>
      simp [checksSpec, h1, h2, ih]

/-- **C19_fn_decode_guard.** the guard of the model's `Streamed.decode` is the generated `unsigned_tx_checks`: for a
    parsed PSBT `g` and its model `p` agreeing on which inputs have an empty scriptSig / witness, the model refuses
    exactly when the generated check returns an error, and otherwise goes on to the input loop -/
theorem C19_fn_decode_guard (p : Streamed.Psbt) (g : Psbt)
    (hcorr : g.unsigned_tx.input.map (fun i => (i.script_sig.isEmpty, i.witness.isEmpty))
           = p.txInputs.map (fun i => (i.scriptSigEmpty, i.witnessEmpty))) :
    (StreamedPSBT.unsigned_tx_checks g ≠ .ok () → Streamed.decode p = none) ∧
    (StreamedPSBT.unsigned_tx_checks g = .ok () →
      Streamed.decode p = (Streamed.stepAll p.txInputs p.inputs).map (fun r => ({ p with inputs := r.1 }, r.2))) := by
  have hall : p.txInputs.all (fun i => i.scriptSigEmpty && i.witnessEmpty)
      = g.unsigned_tx.input.all (fun i => i.script_sig.isEmpty && i.witness.isEmpty) := by
    have h1 : p.txInputs.all (fun i => i.scriptSigEmpty && i.witnessEmpty)
        = (p.txInputs.map (fun i => (i.scriptSigEmpty, i.witnessEmpty))).all (fun pr => pr.1 && pr.2) := by
      rw [List.all_map]; rfl
    have h2 : g.unsigned_tx.input.all (fun i => i.script_sig.isEmpty && i.witness.isEmpty)
        = (g.unsigned_tx.input.map (fun i => (i.script_sig.isEmpty, i.witness.isEmpty))).all (fun pr => pr.1 && pr.2) := by
      rw [List.all_map]; rfl
    rw [h1, h2, hcorr]
  constructor
  · intro h
    have h' : ¬ (p.txInputs.all (fun i => i.scriptSigEmpty && i.witnessEmpty) = true) := by
      rw [hall]; exact fun hh => h ((C19_fn_unsigned_tx_checks_ok g).mpr hh)
    rw [Streamed.decode, if_neg h']
  · intro h
    have h' := (C19_fn_unsigned_tx_checks_ok g).mp h
    rw [← hall] at h'
    rw [Streamed.decode, if_pos h']
    cases Streamed.stepAll p.txInputs p.inputs with
    | none => rfl
    | some r => rfl

/-- non-vacuity: an input with a scriptSig is refused with the first error, one with only a witness with the second -/
example : StreamedPSBT.unsigned_tx_checks ⟨⟨[⟨[], []⟩, ⟨[1], [[2]]⟩]⟩⟩ = .error (.err "Error::UnsignedTxHasScriptSigs")
    ∧ StreamedPSBT.unsigned_tx_checks ⟨⟨[⟨[], []⟩, ⟨[], [[2]]⟩]⟩⟩ = .error (.err "Error::UnsignedTxHasScriptWitnesses")
    ∧ StreamedPSBT.unsigned_tx_checks ⟨⟨[⟨[], []⟩, ⟨[], []⟩]⟩⟩ = .ok () := by
  refine ⟨?_, ?_, ?_⟩ <;> rfl

end Psbt

/-- non-vacuity: the three outcome classes on the generated function -/
example : Gen.FnMsgs.check_message_length 1 = .error (.err "Error::ShortRead")
    ∧ Gen.FnMsgs.check_message_length 2 = .ok ()
    ∧ Gen.FnMsgs.check_message_length 131072 = .ok ()
    ∧ Gen.FnMsgs.check_message_length 131073 = .error (.err "Error::MessageTooLarge") := by
  refine ⟨?_, ?_, ?_, ?_⟩ <;> rfl


/-! ## bolt-derive/src/lib.rs (round 9): the macro templates as generated step lists (`Gen/BoltDerive.lean`,
`translate/x_boltderive.py`)

The derive macros are token-stream programs, outside the rs2lean subset; but what they *emit* is short straight-line
Rust inside `quote!`.  The extractor parses every statement of the `as_vec` / typed `from_vec` templates and of the variant
walk of `#[derive(ReadMessage)]`; the theorems below prove the model functions equal to the interpretation of what was
extracted.  (The per-field `Encodable`/`Decodable` derive is not in this crate: it is serde_bolt's
`bitcoin-consensus-derive`, a registry dependency outside /repo — field order is the struct's declaration order, which
x_wire.py extracts and the correspondence harness checks for every message type.) -/

/-- **C19_gen_as_vec.** the model's `asVec` is the interpretation of the statements of the `as_vec` template of
    `#[derive(SerBolt)]` as extracted from bolt-derive/src/lib.rs: `TYPE` as `width` big-endian bytes, then the
    consensus encoding of the struct -/
theorem C19_gen_as_vec {α : Type} (L : LeafCodec α) (e : Entry) (v : Val α) :
    interpS L e v Gen.BoltDerive.asVecSteps {} = some (asVec L e v) := by
  simp [Gen.BoltDerive.asVecSteps, interpS, asVec]

/-- **C19_gen_from_vec_typed.** the model's typed decoder `fromVecTyped` (what `C19_typed` / `C19_read_message_typed`
    are about) is the interpretation of the statements of the generated `DeBolt::from_vec`: read the type, compare it with
    `TYPE`, decode the body from the same cursor, refuse trailing bytes (with the underflowing count: `panic`) -/
theorem C19_gen_from_vec_typed {α : Type} (L : LeafCodec α) (e : Entry) (bs : Bytes) :
    interpD L e bs Gen.BoltDerive.fromVecSteps {} = fromVecTyped L e bs := by
  simp only [Gen.BoltDerive.fromVecSteps, interpD, fromVecTyped]
  cases h : splitAt? 2 bs with
  | none => rfl
  | some p =>
    obtain ⟨a, body⟩ := p
    simp only []
    by_cases ht : beVal a ≠ e.id
    · simp [ht]
    · simp only [ht, if_false]
      cases hd : dec L e.ty body with
      | none => rfl
      | some q =>
        obtain ⟨v, rest⟩ := q
        simp only []
        by_cases hr : rest.isEmpty <;> simp [hr]

theorem dispatch_eq_findIdx (reg : List Entry) (id : Nat) :
    dispatch reg id = reg.findIdx? (fun e => e.id == id) := by
  induction reg with
  | nil => rfl
  | cons e es ih =>
    simp only [dispatch, List.findIdx?_cons, ih]
    by_cases h : e.id = id <;> simp [h]

/-- **C19_gen_read_message.** the model's `dispatch` (first entry with the message id, `none` = `Message::Unknown`) is the
    dispatch that the variant walk of `#[derive(ReadMessage)]` generates, for every list of variants none of which is
    called `Unknown` (x_wire.py builds the registry from the enum without that variant and fails closed if it is missing) -/
theorem C19_gen_read_message (reg : List Entry) (id : Nat) (h : ∀ e ∈ reg, (e.name != "Unknown") = true) :
    dispatchW Gen.BoltDerive.readMessageWalk reg id = dispatch reg id := by
  have hf : reg.filter (fun e => e.name != "Unknown") = reg := List.filter_eq_self.mpr h
  simp [dispatchW, Gen.BoltDerive.readMessageWalk, hf, dispatch_eq_findIdx]

/-- the dispatch depends on the order of the arms: with the arms reversed the shadowed id 20 (finding F-C19-1) would
    select the other struct — the order fact is not vacuous -/
example : dispatchW { Gen.BoltDerive.readMessageWalk with armsInDeclarationOrder := false }
      [⟨"A", 20, .unit, false⟩, ⟨"B", 20, .unit, false⟩, ⟨"C", 7, .unit, false⟩] 7 = some 0 ∧
    dispatchW Gen.BoltDerive.readMessageWalk
      [⟨"A", 20, .unit, false⟩, ⟨"B", 20, .unit, false⟩, ⟨"C", 7, .unit, false⟩] 7 = some 2 := by
  constructor <;> simp [dispatchW, Gen.BoltDerive.readMessageWalk, List.findIdx?_cons]


/-- **C19_fn_streamed_new.** the sender side of a streamed PSBT (psbt.rs `StreamedPSBT::new`,
    `PsbtWrapper::from`, regenerated in `Gen/FnPsbt.lean`): a fresh `StreamedPSBT` wraps the PSBT unchanged and carries
    *no* segwit flags — flags only ever come out of the decoder (`Streamed.decode`, `C19_psbt`), never from the sender -/
theorem C19_fn_streamed_new (p : Gen.FnPsbt.Psbt) :
    (Gen.FnPsbt.StreamedPSBT.new p).psbt.inner = p ∧
    (Gen.FnPsbt.StreamedPSBT.new p).segwit_flags = ([] : List Bool) ∧
    (Gen.FnPsbt.PsbtWrapper.from p).inner = p := ⟨rfl, rfl, rfl⟩

end VlsModel.Props.C19Fn
