import VlsModel.Lemmas.Wire
import VlsModel.Gen.WireSchema
import VlsModel.Gen.FnMsgs
import VlsModel.Gen.FnPsbt
import VlsModel.Gen.BoltDerive
import VlsModel.Gen.FnMsgsVec
import VlsModel.Gen.FnMsgsIo
import VlsModel.Gen.FnMsgsIo2
import VlsModel.Gen.FnWireModel
import VlsModel.Lemmas.FnGen
/-
C19 — the frame length check of `vls-protocol/src/msgs.rs` tied to the source by rs2lean.

`check_message_length(len: u32)` is the first thing `from_reader` (hence `from_vec` and `read`) and
`read_message::<T>` do.  `translate/rs2lean.py` regenerates its body on every run (`Gen/FnMsgs.lean`); here

* `C19_fn_check_message_length`: the generated body = the model's `Wire.checkMessageLength` with the *generated*
  `MAX_MESSAGE_SIZE` of `Gen/WireSchema.lean` (two independent extractions of the constant meet in one obligation:
  rs2lean inlines the value of the `const` item, x_wire.py evaluates its initialiser), the two error values being
  `Error::ShortRead` and `Error::MessageTooLarge` in this order of checks;
* `C19_fn_from_vec_length`, `C19_fn_read_frame_length`, `C19_fn_read_message_length`: the three model readers start
  with exactly this check (same error, nothing decoded) and go on only inside `2 ≤ len ≤ MAX_MESSAGE_SIZE`
  (`C19_fn_length_ok_iff`), so `C19_main`'s hypothesis `|as_vec m| ≤ maxMsg` is the code's guard;
* `C19_fn_min_frame`: the lower bound 2 is the width of the type prefix `as_vec` writes: every encoding passes it.

A change of either comparison, of their order, of an error value or of the constant changes the generated
definition and the first theorem no longer builds.
-/
namespace VlsModel.Props.C19Fn
open VlsModel VlsModel.Wire VlsModel.Gen.WireSchema

/-- the Rust error value of a model error (only the two that `check_message_length` can return matter) -/
def failOf : WireErr → Rs.Fail
  | .shortRead => .err "Error::ShortRead"
  | .tooLarge => .err "Error::MessageTooLarge"
  | .decode => .err "Error::Bitcoin"
  | .trailing => .err "Error::TrailingBytes"

theorem C19_fn_check_message_length (n : Nat) :
    Gen.FnMsgs.check_message_length n
      = (match checkMessageLength maxMessageSize n with
         | .ok u => .ok u
         | .error e => .error (failOf e)) := by
  unfold Gen.FnMsgs.check_message_length checkMessageLength
  -- by cases on the two conditions, not on the text: the order of the two `if`s in the source does not matter
  by_cases h1 : n < 2 <;> by_cases h2 : n > 131072 <;>
    simp [h1, h2, Rs.fail, failOf, maxMessageSize] <;> omega

theorem C19_fn_length_ok_iff (maxMsg n : Nat) :
    checkMessageLength maxMsg n = .ok () ↔ 2 ≤ n ∧ n ≤ maxMsg := by
  unfold checkMessageLength
  by_cases h1 : n < 2
  · simp [h1]
    try omega
  · by_cases h2 : n > maxMsg
    · simp [h1, h2]
      try omega
    · simp [h1, h2]
      try omega

/-- which error: `ShortRead` below 2 whatever the limit is, `MessageTooLarge` above the limit -/
theorem C19_fn_length_err (maxMsg n : Nat) :
    (n < 2 → checkMessageLength maxMsg n = .error .shortRead) ∧
    (2 ≤ n → maxMsg < n → checkMessageLength maxMsg n = .error .tooLarge) := by
  unfold checkMessageLength
  constructor
  · intro h; simp [h]
  · intro h1 h2
    have : ¬ n < 2 := by omega
    simp [this, h2]

variable {α : Type} (L : LeafCodec α)

/-- `from_vec` / `from_reader`: a refused length is the result, nothing is decoded -/
theorem C19_fn_from_vec_length (reg : List Entry) (maxMsg : Nat) (bs : Bytes) (e : WireErr)
    (h : checkMessageLength maxMsg bs.length = .error e) : fromVec L reg maxMsg bs = .error e := by
  unfold checkMessageLength at h
  unfold fromVec
  by_cases h1 : bs.length < 2
  · simp [h1] at h ⊢; exact h
  · by_cases h2 : bs.length > maxMsg
    · simp [h1, h2] at h ⊢; exact h
    · simp [h1, h2] at h

/-- `read`: the length field of the frame goes through the same check before anything of the body is read -/
theorem C19_fn_read_frame_length (reg : List Entry) (maxMsg : Nat) (bs a r : Bytes) (e : WireErr)
    (hs : splitAt? 4 bs = some (a, r)) (h : checkMessageLength maxMsg (beVal a) = .error e) :
    readFrame L reg maxMsg bs = .error e := by
  unfold checkMessageLength at h
  unfold readFrame
  simp only [hs]
  by_cases h1 : beVal a < 2
  · simp [h1] at h ⊢; exact h
  · by_cases h2 : beVal a > maxMsg
    · simp [h1, h2] at h ⊢; exact h
    · simp [h1, h2] at h

/-- `read_message::<T>`: same check, the typed reader yields nothing -/
theorem C19_fn_read_message_length (maxMsg : Nat) (en : Entry) (bs a r : Bytes) (e : WireErr)
    (hs : splitAt? 4 bs = some (a, r)) (h : checkMessageLength maxMsg (beVal a) = .error e) :
    readMessageTyped L maxMsg en bs = none := by
  unfold checkMessageLength at h
  unfold readMessageTyped
  simp only [hs]
  by_cases h1 : beVal a < 2
  · simp [h1]
  · by_cases h2 : beVal a > maxMsg
    · simp [h2]
    · simp [h1, h2] at h

/-- every `as_vec` output passes the lower bound: the two bytes are the type prefix it writes itself -/
theorem C19_fn_min_frame (en : Entry) (v : Val α) :
    ¬ (asVec L en v).length < 2 := by
  have : (beBytes 2 en.id).length = 2 := by simp [beBytes]
  simp only [asVec, List.length_append, this]
  omega


/-! ## psbt.rs: `StreamedPSBT::unsigned_tx_checks` (the guard in front of the input loop of the streamed decoder)

rust-bitcoin's `Psbt`, `Transaction`, `TxIn` are declared to the translator as far as the function reads them
(`"foreign_structs"` of `translate/fn_targets/Psbt.json`: `script_sig` as its bytes, `witness` as its list of elements —
`ScriptBuf::is_empty` / `Witness::is_empty` are "no bytes" / "no elements").  The model's `Streamed.TxIn` keeps only the
two emptiness flags. -/
section Psbt
open Gen.FnPsbt

/-- what the loop of `unsigned_tx_checks` computes, input by input -/
def checksSpec : List TxIn → Rs.M Unit
  | [] => .ok ()
  | i :: is =>
    if !i.script_sig.isEmpty then .error (.err "Error::UnsignedTxHasScriptSigs")
    else if !i.witness.isEmpty then .error (.err "Error::UnsignedTxHasScriptWitnesses")
    else checksSpec is

/-- **C19_fn_unsigned_tx_checks.** the generated loop (early `return Err(..)` per input) is this recursion -/
theorem C19_fn_unsigned_tx_checks (psbt : Psbt) :
    StreamedPSBT.unsigned_tx_checks psbt = checksSpec psbt.unsigned_tx.input := by
  unfold StreamedPSBT.unsigned_tx_checks
  generalize psbt.unsigned_tx.input = l
  induction l with
  | nil => rfl
  | cons x xs ih =>
    by_cases h1 : x.script_sig.isEmpty <;> by_cases h2 : x.witness.isEmpty <;>
      simp [Rs.loopM, checksSpec, h1, h2, Rs.fail, bind, Except.bind, pure, Except.pure] at ih ⊢
    exact ih

/-- it passes iff every input of the unsigned transaction has an empty scriptSig and an empty witness -/
theorem C19_fn_unsigned_tx_checks_ok (psbt : Psbt) :
    StreamedPSBT.unsigned_tx_checks psbt = .ok () ↔
      psbt.unsigned_tx.input.all (fun i => i.script_sig.isEmpty && i.witness.isEmpty) = true := by
  rw [C19_fn_unsigned_tx_checks]
  generalize psbt.unsigned_tx.input = l
  induction l with
  | nil => simp [checksSpec]
  | cons x xs ih =>
    by_cases h1 : x.script_sig.isEmpty <;> by_cases h2 : x.witness.isEmpty <;>
      simp [checksSpec, h1, h2, ih]

/-- **C19_fn_decode_guard.** the guard of the model's `Streamed.decode` is the generated `unsigned_tx_checks`: for a
    parsed PSBT `g` and its model `p` agreeing on which inputs have an empty scriptSig / witness, the model refuses
    exactly when the generated check returns an error, and otherwise goes on to the input loop -/
theorem C19_fn_decode_guard (p : Streamed.Psbt) (g : Psbt)
    (hcorr : g.unsigned_tx.input.map (fun i => (i.script_sig.isEmpty, i.witness.isEmpty))
           = p.txInputs.map (fun i => (i.scriptSigEmpty, i.witnessEmpty))) :
    (StreamedPSBT.unsigned_tx_checks g ≠ .ok () → Streamed.decode p = none) ∧
    (StreamedPSBT.unsigned_tx_checks g = .ok () →
      Streamed.decode p = (Streamed.stepAll p.txInputs p.inputs).map (fun r => ({ p with inputs := r.1 }, r.2))) := by
  have hall : p.txInputs.all (fun i => i.scriptSigEmpty && i.witnessEmpty)
      = g.unsigned_tx.input.all (fun i => i.script_sig.isEmpty && i.witness.isEmpty) := by
    have h1 : p.txInputs.all (fun i => i.scriptSigEmpty && i.witnessEmpty)
        = (p.txInputs.map (fun i => (i.scriptSigEmpty, i.witnessEmpty))).all (fun pr => pr.1 && pr.2) := by
      rw [List.all_map]; rfl
    have h2 : g.unsigned_tx.input.all (fun i => i.script_sig.isEmpty && i.witness.isEmpty)
        = (g.unsigned_tx.input.map (fun i => (i.script_sig.isEmpty, i.witness.isEmpty))).all (fun pr => pr.1 && pr.2) := by
      rw [List.all_map]; rfl
    rw [h1, h2, hcorr]
  constructor
  · intro h
    have h' : ¬ (p.txInputs.all (fun i => i.scriptSigEmpty && i.witnessEmpty) = true) := by
      rw [hall]; exact fun hh => h ((C19_fn_unsigned_tx_checks_ok g).mpr hh)
    rw [Streamed.decode, if_neg h']
  · intro h
    have h' := (C19_fn_unsigned_tx_checks_ok g).mp h
    rw [← hall] at h'
    rw [Streamed.decode, if_pos h']
    cases Streamed.stepAll p.txInputs p.inputs with
    | none => rfl
    | some r => rfl

/-- non-vacuity: an input with a scriptSig is refused with the first error, one with only a witness with the second -/
example : StreamedPSBT.unsigned_tx_checks ⟨⟨[⟨[], []⟩, ⟨[1], [[2]]⟩]⟩⟩ = .error (.err "Error::UnsignedTxHasScriptSigs")
    ∧ StreamedPSBT.unsigned_tx_checks ⟨⟨[⟨[], []⟩, ⟨[], [[2]]⟩]⟩⟩ = .error (.err "Error::UnsignedTxHasScriptWitnesses")
    ∧ StreamedPSBT.unsigned_tx_checks ⟨⟨[⟨[], []⟩, ⟨[], []⟩]⟩⟩ = .ok () := by
  refine ⟨?_, ?_, ?_⟩ <;> rfl

end Psbt

/-- non-vacuity: the three outcome classes on the generated function -/
example : Gen.FnMsgs.check_message_length 1 = .error (.err "Error::ShortRead")
    ∧ Gen.FnMsgs.check_message_length 2 = .ok ()
    ∧ Gen.FnMsgs.check_message_length 131072 = .ok ()
    ∧ Gen.FnMsgs.check_message_length 131073 = .error (.err "Error::MessageTooLarge") := by
  refine ⟨?_, ?_, ?_, ?_⟩ <;> rfl


/-! ## bolt-derive/src/lib.rs (round 9): the macro templates as generated step lists (`Gen/BoltDerive.lean`,
`translate/x_boltderive.py`)

The derive macros are token-stream programs, outside the rs2lean subset; but what they *emit* is short straight-line
Rust inside `quote!`.  The extractor parses every statement of the `as_vec` / typed `from_vec` templates and of the variant
walk of `#[derive(ReadMessage)]`; the theorems below prove the model functions equal to the interpretation of what was
extracted.  (The per-field `Encodable`/`Decodable` derive is not in this crate: it is serde_bolt's
`bitcoin-consensus-derive`, a registry dependency outside /repo — field order is the struct's declaration order, which
x_wire.py extracts and the correspondence harness checks for every message type.) -/

/-- **C19_gen_as_vec.** the model's `asVec` is the interpretation of the statements of the `as_vec` template of
    `#[derive(SerBolt)]` as extracted from bolt-derive/src/lib.rs: `TYPE` as `width` big-endian bytes, then the
    consensus encoding of the struct -/
theorem C19_gen_as_vec {α : Type} (L : LeafCodec α) (e : Entry) (v : Val α) :
    interpS L e v Gen.BoltDerive.asVecSteps {} = some (asVec L e v) := by
  simp [Gen.BoltDerive.asVecSteps, interpS, asVec]

/-- **C19_gen_from_vec_typed.** the model's typed decoder `fromVecTyped` (what `C19_typed` / `C19_read_message_typed`
    are about) is the interpretation of the statements of the generated `DeBolt::from_vec`: read the type, compare it with
    `TYPE`, decode the body from the same cursor, refuse trailing bytes (with the underflowing count: `panic`) -/
theorem C19_gen_from_vec_typed {α : Type} (L : LeafCodec α) (e : Entry) (bs : Bytes) :
    interpD L e bs Gen.BoltDerive.fromVecSteps {} = fromVecTyped L e bs := by
  simp only [Gen.BoltDerive.fromVecSteps, interpD, fromVecTyped]
  cases h : splitAt? 2 bs with
  | none => rfl
  | some p =>
    obtain ⟨a, body⟩ := p
    simp only []
    by_cases ht : beVal a ≠ e.id
    · simp [ht]
    · simp only [ht, if_false]
      cases hd : dec L e.ty body with
      | none => rfl
      | some q =>
        obtain ⟨v, rest⟩ := q
        simp only []
        by_cases hr : rest.isEmpty <;> simp [hr]

theorem dispatch_eq_findIdx (reg : List Entry) (id : Nat) :
    dispatch reg id = reg.findIdx? (fun e => e.id == id) := by
  induction reg with
  | nil => rfl
  | cons e es ih =>
    simp only [dispatch, List.findIdx?_cons, ih]
    by_cases h : e.id = id <;> simp [h]

/-- **C19_gen_read_message.** the model's `dispatch` (first entry with the message id, `none` = `Message::Unknown`) is the
    dispatch that the variant walk of `#[derive(ReadMessage)]` generates, for every list of variants none of which is
    called `Unknown` (x_wire.py builds the registry from the enum without that variant and fails closed if it is missing) -/
theorem C19_gen_read_message (reg : List Entry) (id : Nat) (h : ∀ e ∈ reg, (e.name != "Unknown") = true) :
    dispatchW Gen.BoltDerive.readMessageWalk reg id = dispatch reg id := by
  have hf : reg.filter (fun e => e.name != "Unknown") = reg := List.filter_eq_self.mpr h
  simp [dispatchW, Gen.BoltDerive.readMessageWalk, hf, dispatch_eq_findIdx]

/-- the dispatch depends on the order of the arms: with the arms reversed the shadowed id 20 (finding F-C19-1) would
    select the other struct — the order fact is not vacuous -/
example : dispatchW { Gen.BoltDerive.readMessageWalk with armsInDeclarationOrder := false }
      [⟨"A", 20, .unit, false⟩, ⟨"B", 20, .unit, false⟩, ⟨"C", 7, .unit, false⟩] 7 = some 0 ∧
    dispatchW Gen.BoltDerive.readMessageWalk
      [⟨"A", 20, .unit, false⟩, ⟨"B", 20, .unit, false⟩, ⟨"C", 7, .unit, false⟩] 7 = some 2 := by
  constructor <;> simp [dispatchW, Gen.BoltDerive.readMessageWalk, List.findIdx?_cons]


/-- **C19_fn_streamed_new.** the sender side of a streamed PSBT (psbt.rs `StreamedPSBT::new`, `psbt()`,
    `PsbtWrapper::from`, regenerated in `Gen/FnPsbt.lean`): a fresh `StreamedPSBT` wraps the PSBT unchanged and carries
    *no* segwit flags — flags only ever come out of the decoder (`Streamed.decode`, `C19_psbt`), never from the sender -/
theorem C19_fn_streamed_new (p : Gen.FnPsbt.Psbt) :
    Gen.FnPsbt.StreamedPSBT.psbt_fn (Gen.FnPsbt.StreamedPSBT.new p) = p ∧
    (Gen.FnPsbt.StreamedPSBT.new p).segwit_flags = ([] : List Bool) ∧
    (Gen.FnPsbt.PsbtWrapper.from p).inner = p := ⟨rfl, rfl, rfl⟩

/-! ## msgs.rs (round 9): `from_vec` and `message_name_from_vec` through rs2lean (`Gen/FnMsgsVec.lean`; `io::Cursor::new`,
`from_reader` (generic reader: outside the subset, statement order checked by x_wireframe.py) and the macro-generated
`Message::message_name` are declared externals) -/

/-- **C19_fn_from_vec.** `msgs::from_vec(v)` is `from_reader(Cursor::new(v), v.len() as u32)`: the *whole* vector is the
    reader and its length is the frame length — truncated to 32 bits by the `as` cast (the observation of round 8, now read
    from the source); for every vector shorter than 2^32 bytes, in particular every message `C19_main` speaks about
    (`≤ MAX_MESSAGE_SIZE`), the length is passed unchanged, so the model's `fromVec` (which takes `bs.length`) is exact. -/
theorem C19_fn_from_vec {C : Type} (cnew : List Nat → C) (fr : C → Nat → Rs.M Gen.FnMsgsVec.Message) (v : List Nat) :
    Gen.FnMsgsVec.from_vec cnew fr v = fr (cnew v) (v.length % 2 ^ 32) ∧
    (v.length ≤ Gen.WireSchema.maxMessageSize → Gen.FnMsgsVec.from_vec cnew fr v = fr (cnew v) v.length) := by
  have h : Gen.FnMsgsVec.from_vec cnew fr v = fr (cnew v) (v.length % 2 ^ 32) := by
    simp [Gen.FnMsgsVec.from_vec, Rs.utrunc, Rs.U32_MAX]
  refine ⟨h, fun hle => ?_⟩
  have : v.length < 2 ^ 32 := by
    have : Gen.WireSchema.maxMessageSize < 2 ^ 32 := by decide
    omega
  rw [h, Nat.mod_eq_of_lt this]

/-- **C19_fn_message_name_from_vec.** the message name used in logs: fewer than two bytes → `"ShortRead"`, otherwise the
    name of the big-endian `u16` made of the first two bytes — the same type prefix `as_vec` writes (`C19_gen_as_vec`) -/
theorem C19_fn_message_name_from_vec (name : Nat → String) (v : List Nat) :
    Gen.FnMsgsVec.message_name_from_vec name v
      = (match v with
         | a :: b :: _ => .ok (name (Rs.fromBeBytes [a, b]))
         | _ => .ok "ShortRead") := by
  match v with
  | [] => rfl
  | [_] => rfl
  | a :: b :: r =>
    have : ¬ (r.length + 1 + 1 < 2) := by omega
    simp [Gen.FnMsgsVec.message_name_from_vec, Rs.index, this]

/-! ## msgs.rs (round 9): the writers and readers over a generic `&mut W: Write` / `&mut R: Read` (`Gen/FnMsgsIo.lean`)

rs2lean now threads an opaque `&mut` parameter through declared *receiver-updating* externals (`write_all` returns the new
writer, `read_uN_be` the pair (new reader, value); `r.read_exact(&mut buf)?` is normalised to the assignment of the next
`buf.len()` bytes).  Translated: `write_vec`, `write_serial_request_header`, `write_serial_response_header`,
`read_serial_request_header`, `read_serial_response_header`, `read_raw`.  The theorems instantiate the writer by the bytes
written so far and the reader by the bytes still to come, and prove the round trips *between the generated functions*. -/
section MsgsIo
open VlsModel.Gen.FnMsgsIo

/-- a writer is the bytes written so far; `write_all` appends and never fails -/
def wAll (w : List Nat) (b : List Nat) : Rs.M (List Nat) := .ok (w ++ b)

/-- a reader is the bytes still to come; `read_exact` of `n` bytes takes them or fails (EOF) -/
def rExact (r : List Nat) (n : Nat) : Rs.M (List Nat × List Nat) :=
  if n ≤ r.length then .ok (r.drop n, r.take n) else .error (.err "Error::Io")

/-- `read_uN_be`: `n` bytes, big endian -/
def rBe (n : Nat) (r : List Nat) : Rs.M (List Nat × Nat) :=
  if n ≤ r.length then .ok (r.drop n, Rs.fromBeBytes (r.take n)) else .error (.err "Error::Io")

theorem be2 (x : Nat) : Rs.toBeBytes 2 x = [x / 256 % 256, x % 256] := by
  simp [Rs.toBeBytes, List.range, List.range.loop, Nat.shiftRight_eq_div_pow]

theorem be4 (x : Nat) : Rs.toBeBytes 4 x = [x / 16777216 % 256, x / 65536 % 256, x / 256 % 256, x % 256] := by
  simp [Rs.toBeBytes, List.range, List.range.loop, Nat.shiftRight_eq_div_pow]

/-- **C19_fn_write_vec.** the generated `write_vec`: the length as a big-endian `u32` (`buf.len() as u32`), then the
    bytes — exactly two `write_all` calls in this order -/
theorem C19_fn_write_vec (w buf : List Nat) :
    write_vec wAll w buf = .ok (w ++ Rs.toBeBytes 4 (buf.length % 2 ^ 32) ++ buf) := by
  simp [write_vec, wAll, Rs.utrunc, Rs.U32_MAX]

/-- **C19_fn_read_raw_write_vec.** `read_raw` reads back what `write_vec` wrote and leaves the stream at the next frame, for
    every buffer shorter than 2^32 bytes (both regenerated from msgs.rs; the reader is `read_u32_be` then `read_exact` of
    that many bytes) -/
theorem C19_fn_read_raw_write_vec (buf rest : List Nat) (hb : buf.length < 2 ^ 32) :
    (do let s ← write_vec wAll [] buf; read_raw (rBe 4) rExact (s ++ rest)) = .ok (rest, buf) := by
  have hm : buf.length % 2 ^ 32 = buf.length := Nat.mod_eq_of_lt hb
  have hv : Rs.fromBeBytes [buf.length / 16777216 % 256, buf.length / 65536 % 256, buf.length / 256 % 256, buf.length % 256]
      = buf.length := by
    simp [Rs.fromBeBytes]; omega
  have h4 : 4 ≤ buf.length + 1 + 1 + 1 + 1 + rest.length := by omega
  have hl : buf.length ≤ (buf ++ rest).length := by simp
  simp only [C19_fn_write_vec, hm, be4, read_raw, rBe, rExact, Rs.vecResize, Rs.bind_ok, List.nil_append, List.append_assoc,
    List.cons_append, List.length_cons, List.length_append, List.take, List.drop, hv, h4, if_true, List.length_nil,
    List.take_nil, List.length_replicate, Nat.sub_zero, Nat.zero_add]
  simp [hl]

/-- **C19_fn_serial_response_roundtrip.** the serial response header: the generated reader accepts exactly what the
    generated writer wrote for the expected sequence number and leaves the stream behind the header; another sequence
    number or another magic is `BadFraming` -/
theorem C19_fn_serial_response_roundtrip (seq seq' : Nat) (rest : List Nat) (hs : seq < 65536) (hs' : seq' < 65536) :
    (do let s ← write_serial_response_header wAll [] seq; read_serial_response_header (rBe 2) (s ++ rest) seq') =
      (if seq = seq' then .ok rest else .error (.err "Error::BadFraming")) := by
  have hv : Rs.fromBeBytes [seq / 256 % 256, seq % 256] = seq := by simp [Rs.fromBeBytes]; omega
  by_cases h : seq = seq'
  · subst h
    have h2 : 2 ≤ 4 + rest.length := by omega
    have hm : Rs.fromBeBytes [90, 165] = 23205 := by decide
    simp [write_serial_response_header, read_serial_response_header, wAll, rBe, be2, hv, h2, hm]
  · have h2 : 2 ≤ 4 + rest.length := by omega
    have hm : Rs.fromBeBytes [90, 165] = 23205 := by decide
    simp [write_serial_response_header, read_serial_response_header, wAll, rBe, be2, hv, h, Rs.fail, h2, hm]

theorem be8 (x : Nat) : Rs.toBeBytes 8 x = [x / 72057594037927936 % 256, x / 281474976710656 % 256, x / 1099511627776 % 256,
    x / 4294967296 % 256, x / 16777216 % 256, x / 65536 % 256, x / 256 % 256, x % 256] := by
  simp [Rs.toBeBytes, List.range, List.range.loop, Nat.shiftRight_eq_div_pow]

theorem rBe_append (n : Nat) (a rest : List Nat) (ha : a.length = n) :
    rBe n (a ++ rest) = .ok (rest, Rs.fromBeBytes a) := by
  subst ha
  simp [rBe]

theorem rExact_append (a rest : List Nat) : rExact (a ++ rest) a.length = .ok (rest, a) := by
  simp [rExact]

theorem toBeBytes_length (n x : Nat) : (Rs.toBeBytes n x).length = n := by simp [Rs.toBeBytes]

theorem from_to_be2 (x : Nat) (h : x < 65536) : Rs.fromBeBytes (Rs.toBeBytes 2 x) = x := by
  rw [be2]; simp [Rs.fromBeBytes]; omega

theorem from_to_be8 (x : Nat) (h : x < 2 ^ 64) : Rs.fromBeBytes (Rs.toBeBytes 8 x) = x := by
  rw [be8]; simp [Rs.fromBeBytes]; omega

/-- **C19_fn_serial_request_roundtrip.** the serial request header (magic `0xaa55`, sequence, 33-byte peer id, dbid): the
    generated reader returns exactly the header the generated writer was given and leaves the stream behind it -/
theorem C19_fn_serial_request_roundtrip (h : SerialRequestHeader) (rest : List Nat) (hs : h.sequence < 65536)
    (hp : h.peer_id.length = 33) (hd : h.dbid < 2 ^ 64) :
    (do let s ← write_serial_request_header wAll [] h
        read_serial_request_header (rBe 2) rExact (rBe 8) (s ++ rest)) = .ok (rest, h) := by
  obtain ⟨sq, pid, db⟩ := h
  simp only at hs hp hd
  have hw : write_serial_request_header wAll [] ⟨sq, pid, db⟩
      = .ok (Rs.toBeBytes 2 43605 ++ (Rs.toBeBytes 2 sq ++ (pid ++ Rs.toBeBytes 8 db))) := by
    simp [write_serial_request_header, wAll]
  have e1 := rBe_append 2 (Rs.toBeBytes 2 43605) (Rs.toBeBytes 2 sq ++ (pid ++ (Rs.toBeBytes 8 db ++ rest))) (toBeBytes_length _ _)
  have e2 := rBe_append 2 (Rs.toBeBytes 2 sq) (pid ++ (Rs.toBeBytes 8 db ++ rest)) (toBeBytes_length _ _)
  have e3 := rExact_append pid (Rs.toBeBytes 8 db ++ rest)
  have e4 := rBe_append 8 (Rs.toBeBytes 8 db) rest (toBeBytes_length _ _)
  rw [hp] at e3
  simp only [hw, Rs.bind_ok, List.append_assoc, read_serial_request_header, e1, from_to_be2 43605 (by decide)]
  simp [e2, from_to_be2 sq hs, e3, e4, from_to_be8 db hd]

def toNb (b : Bytes) : List Nat := b.map UInt8.toNat
theorem toNb_beBytes4 (n : Nat) : toNb (beBytes 4 n) = Rs.toBeBytes 4 n := by
  simp [toNb, beBytes, be4]
  omega
theorem be4_mod (n : Nat) : Rs.toBeBytes 4 (n % 2 ^ 32) = Rs.toBeBytes 4 n := by
  rw [be4, be4]; simp; omega
/-- **C19_fn_write_vec_model.** the model's `writeVec` (what `C19_framed` is about) is the generated `write_vec` run on an
    empty writer -/
theorem C19_fn_write_vec_model (bs : Bytes) : write_vec wAll [] (toNb bs) = .ok (toNb (writeVec bs)) := by
  rw [C19_fn_write_vec]
  have h1 := toNb_beBytes4 bs.length
  have h2 : Rs.toBeBytes 4 (bs.length % 2 ^ 32) = Rs.toBeBytes 4 bs.length := be4_mod _
  have hl : (toNb bs).length = bs.length := by simp [toNb]
  simp only [writeVec, hl, h2, List.nil_append]
  simp only [toNb, List.map_append] at h1 ⊢
  rw [h1]

theorem toNb_beBytes2 (n : Nat) : toNb (beBytes 2 n) = Rs.toBeBytes 2 n := by
  simp [toNb, beBytes, be2]
theorem toNb_beBytes8 (n : Nat) : toNb (beBytes 8 n) = Rs.toBeBytes 8 n := by
  simp [toNb, beBytes, be8]
  omega
/-- **C19_fn_write_serial_model.** the model's `writeSerialRequest` / `writeSerialResponse` (`C19_serial_request`,
    `C19_serial_response`) are the generated writers run on an empty writer -/
theorem C19_fn_write_serial_model (seq dbid : Nat) (peer : Bytes) :
    write_serial_request_header wAll [] ⟨seq, toNb peer, dbid⟩ = .ok (toNb (writeSerialRequest seq peer dbid)) ∧
    write_serial_response_header wAll [] seq = .ok (toNb (writeSerialResponse seq)) := by
  have a := toNb_beBytes2 0xaa55
  have b := toNb_beBytes2 seq
  have c := toNb_beBytes8 dbid
  have d := toNb_beBytes2 0x5aa5
  simp only [toNb, List.map_append] at a b c d
  constructor
  · simp [write_serial_request_header, wAll, writeSerialRequest, toNb, a, b, c]
  · simp [write_serial_response_header, wAll, writeSerialResponse, toNb, d, b]

end MsgsIo

/-! ## msgs.rs (round 10, b8): the typed frame writer `write` and the frame reader `read` (`Gen/FnMsgsIo2.lean`, targets
`translate/fn_targets/MsgsIo2.b8.json`).  `write` is `T::TYPE` (an uninterpreted `u16` constant of the instantiation) in big
endian, then `to_vec(&value)` (external: the derive-generated encoder, `C19_gen_as_vec`), handed to the *generated*
`write_vec`; `read` is `read_u32_be` followed by `from_reader(reader, len)` (external, written as a receiver-updating method
of the reader).  Two normalisations: `buf.append(&mut val_buf)` as `extend_from_slice`, `from_reader(reader, len)` as
`reader.from_reader(len)`. -/
section MsgsIo2
open VlsModel.Gen.FnMsgsIo2

/-- what `from_reader` is to the reader, for a decoder `dec` of the `len` framed bytes (type ‖ payload): it consumes exactly
    `len` bytes (EOF otherwise) and leaves the rest -/
def frOf {M : Type} (dec : List Nat → Rs.M M) (r : List Nat) (len : Nat) : Rs.M (List Nat × M) :=
  if len ≤ r.length then (do let m ← dec (r.take len); pure (r.drop len, m)) else .error (.err "Error::Io")

/-- **C19_fn_write.** the generated `write`: one frame `len ‖ type ‖ to_vec(value)`, `len` = 2 + payload length as `u32`;
    a failing encoder writes nothing -/
theorem C19_fn_write {T : Type} (ty : Nat) (tv : T → Rs.M (List Nat)) (w : List Nat) (v : T) :
    Gen.FnMsgsIo2.write ty tv wAll w v
      = (do let b ← tv v
            pure (w ++ Rs.toBeBytes 4 ((Rs.toBeBytes 2 ty ++ b).length % 2 ^ 32) ++ (Rs.toBeBytes 2 ty ++ b))) := by
  simp only [Gen.FnMsgsIo2.write, Gen.FnMsgsIo2.write_vec, wAll, Rs.utrunc, Rs.U32_MAX]
  cases tv v <;> simp [bind, Except.bind, pure, Except.pure]

/-- **C19_fn_read.** the generated `read`: the length prefix, then `from_reader` on the reader behind it with that length;
    the reader returned is the one `from_reader` left -/
theorem C19_fn_read {R : Type} (rd : R → Rs.M (R × Nat)) (fr : R → Nat → Rs.M (R × Message)) (r : R) :
    Gen.FnMsgsIo2.read rd fr r = (do let t ← rd r; fr t.1 t.2) := by
  simp only [Gen.FnMsgsIo2.read]
  cases rd r <;> simp [bind, Except.bind, pure, Except.pure]
  rename_i t
  cases fr t.1 t.2 <;> rfl

/-- **C19_fn_read_write.** round trip of the generated pair: what `write` put on the wire for `(T::TYPE, value)`, followed
    by any further bytes, is read by `read` as: exactly the bytes `type ‖ to_vec(value)` handed to the frame decoder, the
    stream left at the next frame — for every payload with `2 + len < 2^32` (beyond it the `as u32` of `write_vec`
    truncates the prefix: `C19_fn_write`). -/
theorem C19_fn_read_write {T : Type} (ty : Nat) (tv : T → Rs.M (List Nat)) (dec : List Nat → Rs.M Message) (v : T)
    (b rest : List Nat) (hb : tv v = .ok b) (hl : 2 + b.length < 2 ^ 32) :
    (do let s ← Gen.FnMsgsIo2.write ty tv wAll [] v; Gen.FnMsgsIo2.read (rBe 4) (frOf dec) (s ++ rest))
      = (do let m ← dec (Rs.toBeBytes 2 ty ++ b); pure (rest, m)) := by
  have hlen : (Rs.toBeBytes 2 ty ++ b).length = 2 + b.length := by simp [toBeBytes_length]
  have hm : (2 + b.length) % 2 ^ 32 = 2 + b.length := Nat.mod_eq_of_lt hl
  rw [C19_fn_write, hb]
  simp only [Rs.bind_ok, List.nil_append, hlen, hm, List.append_assoc, C19_fn_read, pure_bind]
  rw [rBe_append 4 (Rs.toBeBytes 4 (2 + b.length)) _ (toBeBytes_length _ _)]
  have hv : Rs.fromBeBytes (Rs.toBeBytes 4 (2 + b.length)) = 2 + b.length := by
    rw [be4]; simp [Rs.fromBeBytes]; omega
  simp only [Rs.bind_ok, hv, frOf]
  have hle : 2 + b.length ≤ (Rs.toBeBytes 2 ty ++ (b ++ rest)).length := by simp [toBeBytes_length]
  have ht : (Rs.toBeBytes 2 ty ++ (b ++ rest)).take (2 + b.length) = Rs.toBeBytes 2 ty ++ b := by
    rw [← List.append_assoc, ← hlen, List.take_left']; rfl
  have hd : (Rs.toBeBytes 2 ty ++ (b ++ rest)).drop (2 + b.length) = rest := by
    rw [← List.append_assoc, ← hlen, List.drop_left']; rfl
  simp only [hle, if_true, ht, hd]

example : Gen.FnMsgsIo2.write 7 (fun (v : List Nat) => .ok v) wAll [] [9, 8] = .ok [0, 0, 0, 4, 0, 7, 9, 8] := by
  rw [C19_fn_write]; simp [be2, be4]

end MsgsIo2

/-! ## model.rs (round 10, b8): the two wrappers that are inside the subset (`Gen/FnWireModel.lean`) -/
section WireModel
open VlsModel.Gen.FnWireModel

/-- **C19_fn_wrappers.** `SerBoltTlvWriteWrap::from` only wraps (the tuple struct is its component), and
    `LdkWriterWriteAdaptor::flush` is `Ok(())` without touching the writer: neither can change a byte on the wire -/
theorem C19_fn_wrappers {T W : Type} (t : T) (w : W) :
    SerBoltTlvWriteWrap.«from» t = t ∧ LdkWriterWriteAdaptor.flush w = .ok w := ⟨rfl, rfl⟩

/-- **C19_fn_adaptor.** `LdkWriterWriteAdaptor` (the `Write` through which `consensus_encode` reaches an LDK `Writer`) hands
    every buffer unchanged to the wrapped writer's `write_all`, exactly once; `write` reports the whole buffer as written.
    (The newtype over `&mut W` is its component: the adaptor adds, drops and reorders no byte.) -/
theorem C19_fn_adaptor {W : Type} (wa : W → List Nat → Rs.M W) (w : W) (buf : List Nat) :
    LdkWriterWriteAdaptor.write_all wa w buf = wa w buf ∧
    LdkWriterWriteAdaptor.write wa w buf = (do let w' ← wa w buf; pure (w', buf.length)) := by
  constructor <;> simp only [LdkWriterWriteAdaptor.write_all, LdkWriterWriteAdaptor.write] <;> cases wa w buf <;> rfl

example : LdkWriterWriteAdaptor.write wAll [1] [2, 3] = .ok ([1, 2, 3], 2) := rfl

end WireModel

end VlsModel.Props.C19Fn
