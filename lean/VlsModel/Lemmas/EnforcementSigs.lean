import VlsModel.Lemmas.Enforcement
/-
C01 — `check_holder_tx_signatures` inside the model: lemmas about `checkHtlcSigs` / `checkSigs` / `sigFactOf`
(`Model/Enforcement.lean`) and about which requests can set `Out.validated`.
-/
namespace VlsModel.Enforcement
open VlsModel VlsModel.Secrets

/-- the loop returns `ok` exactly when every HTLC of the transaction has a verifying signature at its position -/
theorem checkHtlcSigs_ok_iff : ∀ (k : Nat) (l : List Bool),
    checkHtlcSigs k l = .ok ↔ ∀ i, i < k → l[i]? = some true
  | 0, l => by simp [checkHtlcSigs]
  | k + 1, [] => by
    simp only [checkHtlcSigs]
    constructor
    · intro h; cases h
    · intro h; have := h 0 (Nat.succ_pos k); simp at this
  | k + 1, b :: rest => by
    simp only [checkHtlcSigs]
    cases b
    · simp only [Bool.false_eq_true, if_false]
      constructor
      · intro h; cases h
      · intro h; have := h 0 (Nat.succ_pos k); simp at this
    · simp only [if_true]
      rw [checkHtlcSigs_ok_iff k rest]
      constructor
      · intro h i hi
        cases i with
        | zero => simp
        | succ j => simpa using h j (by omega)
      · intro h i hi
        simpa using h (i + 1) (by omega)

/-- the index panic happens only after every earlier signature verified and the list ended before the HTLCs did -/
theorem checkHtlcSigs_panic_iff : ∀ (k : Nat) (l : List Bool),
    checkHtlcSigs k l = .panic ↔ l.length < k ∧ ∀ i, i < l.length → l[i]? = some true
  | 0, l => by simp [checkHtlcSigs]
  | k + 1, [] => by simp [checkHtlcSigs]
  | k + 1, b :: rest => by
    simp only [checkHtlcSigs]
    cases b
    · simp only [Bool.false_eq_true, if_false]
      constructor
      · intro h; cases h
      · intro h; have := h.2 0 (by simp); simp at this
    · simp only [if_true]
      rw [checkHtlcSigs_panic_iff k rest]
      constructor
      · rintro ⟨h1, h2⟩
        refine ⟨by simp; omega, ?_⟩
        intro i hi
        cases i with
        | zero => simp
        | succ j => simpa using h2 j (by simp at hi; omega)
      · rintro ⟨h1, h2⟩
        refine ⟨by simp at h1; omega, ?_⟩
        intro i hi
        simpa using h2 (i + 1) (by simp; omega)

theorem checkHtlcSigs_cases (k : Nat) (l : List Bool) :
    checkHtlcSigs k l = .ok ∨ checkHtlcSigs k l = .panic ∨ checkHtlcSigs k l = .errPolicy := by
  induction k generalizing l with
  | zero => simp [checkHtlcSigs]
  | succ k ih =>
    cases l with
    | nil => simp [checkHtlcSigs]
    | cons b rest =>
      cases b
      · simp [checkHtlcSigs]
      · simpa [checkHtlcSigs] using ih rest

theorem checkSigs_ok_iff (co : Bool) (k : Nat) (l : List Bool) :
    checkSigs co k l = .ok ↔ co = true ∧ ∀ i, i < k → l[i]? = some true := by
  unfold checkSigs
  cases co
  · simp
  · simp [checkHtlcSigs_ok_iff]

/-- `sigFactOf … = valid` ⇔ the commitment signature verifies, EVERY HTLC of the recomposed transaction has a verifying
    signature at its position, and the payment check passes -/
theorem sigFactOf_valid_iff (co : Bool) (k : Nat) (l : List Bool) (p : Bool) :
    sigFactOf co k l p = .valid ↔ co = true ∧ (∀ i, i < k → l[i]? = some true) ∧ p = true := by
  rw [← and_assoc, ← checkSigs_ok_iff]
  unfold sigFactOf
  rcases hcs : checkSigs co k l with _ | _ | _ | _ | _ <;> cases p <;> simp

theorem sigFactOf_oob_iff (co : Bool) (k : Nat) (l : List Bool) (p : Bool) :
    sigFactOf co k l p = .oob ↔ co = true ∧ l.length < k ∧ ∀ i, i < l.length → l[i]? = some true := by
  rw [← checkHtlcSigs_panic_iff]
  unfold sigFactOf checkSigs
  cases co
  · simp
  · simp only [Bool.not_true, Bool.false_eq_true, if_false, true_and]
    rcases hcs : checkHtlcSigs k l with _ | _ | _ | _ | _ <;> cases p <;> simp

/-- surplus signatures are never looked at -/
theorem checkHtlcSigs_surplus (k : Nat) (l extra : List Bool) (h : k ≤ l.length) :
    checkHtlcSigs k (l ++ extra) = checkHtlcSigs k l := by
  induction k generalizing l with
  | zero => simp [checkHtlcSigs]
  | succ k ih =>
    cases l with
    | nil => simp at h
    | cons b rest =>
      cases b
      · simp [checkHtlcSigs]
      · simp only [List.cons_append, checkHtlcSigs, if_true]
        exact ih rest (by simpa using h)

theorem holderPolicy_ok {c : Chan} {n info : Nat} {pk : Bool} (h : holderPolicy c n info pk = .ok) : pk = true := by
  cases pk
  · simp [holderPolicy] at h
  · rfl

/-- only a validation with verifying signatures and passing content rules sets `validated` -/
theorem validate_validated {c : Chan} {n info m : Nat} {sv : SigFact} {pk : Bool}
    (h : (validate c n info sv pk).out.validated = some m) : m = n ∧ sv = .valid ∧ pk = true := by
  unfold validate at h
  by_cases hp : getPoint c n ≠ .ok
  · simp [hp, fail] at h
  · simp only [hp, if_false] at h
    cases hh : holderPolicy c n info pk <;> simp only [hh] at h <;> try (simp [fail] at h)
    have hpk := holderPolicy_ok hh
    by_cases h1 : sv = .oob
    · simp [h1, fail] at h
    · by_cases h2 : sv = .valid
      · subst h2
        by_cases h3 : n = c.next
        · simp [h3] at h; exact ⟨by omega, rfl, hpk⟩
        · simp [h3] at h; exact ⟨by omega, rfl, hpk⟩
      · simp [h1, h2, fail] at h

theorem needReady_validated {c : Chan} {f : Chan → R} {m : Nat}
    (h : (needReady c f).out.validated = some m) : (f c).out.validated = some m := by
  unfold needReady at h
  split at h
  · simp [fail] at h
  · exact h

theorem signHolder_validated (c : Chan) (n : Nat) : (signHolder c n).out.validated = none := by
  unfold signHolder fail; repeat' split
  all_goals rfl

theorem signRecovery_validated (c : Chan) : (signRecovery c).out.validated = none := by
  unfold signRecovery fail; repeat' split
  all_goals rfl

theorem signRedundant_validated (c : Chan) (n info : Nat) (pk : Bool) :
    (signRedundant c n info pk).out.validated = none := by
  unfold signRedundant fail; repeat' split
  all_goals rfl

theorem signMutualClose_validated (c : Chan) (pk : Bool) : (signMutualClose c pk).out.validated = none := by
  unfold signMutualClose fail; repeat' split
  all_goals rfl

theorem signCp_validated (c : Chan) (n pt info : Nat) (pk : Bool) : (signCp c n pt info pk).out.validated = none := by
  unfold signCp fail
  dsimp only
  repeat' split
  all_goals rfl

theorem revokeCp_validated (F : Nat → Bytes → Bytes) (c : Chan) (n : Nat) (s : Bytes) (pt : Nat) :
    (revokeCp F c n s pt).out.validated = none := by
  unfold revokeCp fail
  dsimp only
  repeat' split
  all_goals first | rfl | simp

theorem andThen_validated {r : R} {g : Chan → R} {m : Nat}
    (h : (andThen r g).out.validated = some m) : r.out.validated = some m := by
  unfold andThen at h
  split at h
  · exact h
  · exact h

/-- only the two validate requests can set `validated`, and only with `sigs = valid` and `policyOk = true` -/
theorem chanStep_validated (F : Nat → Bytes → Bytes) (c : Chan) (op : Op) (m : Nat)
    (h : (chanStep F c op).out.validated = some m) :
    (∃ info, op = .validate m info .valid true) ∨ (∃ ver info, op = .hValidate ver m info .valid true) := by
  cases op with
  | setup =>
    simp only [chanStep] at h
    split at h <;> simp [fail] at h
  | getPoint n => simp [chanStep, fail] at h
  | getSecret n => simp [chanStep, getSecret_validated] at h
  | getSecretOrNone n =>
    simp only [chanStep] at h
    unfold getSecretOrNone at h
    (repeat' split at h) <;> simp at h
  | validate n info sv pk =>
    simp only [chanStep] at h
    obtain ⟨h1, h2, h3⟩ := validate_validated (needReady_validated h)
    subst h1 h2 h3
    exact Or.inl ⟨info, rfl⟩
  | revoke n po =>
    simp only [chanStep] at h
    have := needReady_validated h
    simp [revokeP_validated] at this
  | activate =>
    simp only [chanStep] at h
    have := needReady_validated h
    simp [activate_validated] at this
  | signHolder n =>
    simp only [chanStep] at h
    have := needReady_validated h
    simp [signHolder_validated] at this
  | signRecovery =>
    simp only [chanStep] at h
    have := needReady_validated h
    simp [signRecovery_validated] at this
  | signRedundant n info pk =>
    simp only [chanStep] at h
    have := needReady_validated h
    simp [signRedundant_validated] at this
  | signMutualClose pk =>
    simp only [chanStep] at h
    have := needReady_validated h
    simp [signMutualClose_validated] at this
  | signCp n pt info pk =>
    simp only [chanStep] at h
    have := needReady_validated h
    simp [signCp_validated] at this
  | revokeCp n s pt =>
    simp only [chanStep] at h
    have := needReady_validated h
    simp [revokeCp_validated] at this
  | restart => simp [chanStep, fail] at h
  | hValidate ver n info sv pk =>
    simp only [chanStep] at h
    obtain ⟨h1, h2, h3⟩ := validate_validated (andThen_validated (needReady_validated h))
    subst h1 h2 h3
    exact Or.inr ⟨ver, info, rfl⟩
  | hRevoke ver n po =>
    simp only [chanStep] at h
    split at h
    · simp [fail] at h
    · have h' := needReady_validated h
      (repeat' split at h') <;> simp_all [fail, revokeP_validated]
  | hGetPoint ver n =>
    simp only [chanStep] at h
    (repeat' split at h) <;> simp [fail, getSecret_validated] at h
  | hGetPoint2 n => simp [chanStep, fail] at h

theorem step_validated (F : Nat → Bytes → Bytes) (s : Sys) (op : Op) (m : Nat)
    (h : (step F s op).2.validated = some m) :
    (∃ info, op = .validate m info .valid true) ∨ (∃ ver info, op = .hValidate ver m info .valid true) := by
  by_cases hr : op = .restart
  · subst hr; simp [step] at h
  · rw [step_eq F s hr] at h
    exact chanStep_validated F s.mem op m h

/-- every event of a history produced by `runH` is a request together with the model's reply to it -/
theorem runH_events (F : Nat → Bytes → Bytes) : ∀ (ops : List Op) (s : Sys) (h : Hist),
    ∀ e ∈ (runH F s h ops).2, e ∈ h ∨ ∃ s', e.2 = (step F s' e.1).2
  | [], s, h => by intro e he; exact Or.inl he
  | op :: rest, s, h => by
    intro e he
    simp only [runH] at he
    rcases runH_events F rest _ _ e he with hm | hs
    · rcases List.mem_cons.mp hm with rfl | hm
      · exact Or.inr ⟨s, rfl⟩
      · exact Or.inl hm
    · exact Or.inr hs

/-- an accepted validation in a history from the initial state is a validate request with `sigs = valid` -/
theorem accepted_request (F : Nat → Bytes → Bytes) (ops : List Op) (h : Hist) (m : Nat)
    (hsub : ∀ e ∈ h, e ∈ (runH F init [] ops).2) (a : Accepted h m) :
    ∃ e ∈ h, (∃ info, e.1 = .validate m info .valid true) ∨ (∃ ver info, e.1 = .hValidate ver m info .valid true) := by
  obtain ⟨e, he, hv⟩ := a
  refine ⟨e, he, ?_⟩
  rcases runH_events F ops init [] e (hsub e he) with hm | ⟨s', hs⟩
  · simp at hm
  · rw [hs] at hv
    exact step_validated F s' e.1 m hv

end VlsModel.Enforcement
