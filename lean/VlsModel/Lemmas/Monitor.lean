import VlsModel.Model.Monitor
/-
Helper lemmas for C14 (monitor view under block connection / disconnection).

* `Pre`/`PreAll`: the precondition under which `applyBackward` undoes `applyForward`;
* `clr`/`eqModDs`: equality of states up to `dsHeight` (handled by a separate whole-list argument);
* `fwd_bwd_one`, `fwd_bwd_all`: change-level and list-level inverse (modulo `dsHeight`), with the
  bookkeeping of the returned watch deltas;
* `ds_roundtrip`: the whole-list `dsHeight` argument;
* `addEnd_removeEnd`: block-end level round trip.
-/
namespace VlsModel.Monitor

/-! ### equality modulo `dsHeight` -/

/-- forget `dsHeight` -/
def clr (s : State) : State := { s with dsHeight := none }

def eqModDs (a b : State) : Prop := clr a = clr b

theorem eqModDs.refl (a : State) : eqModDs a a := rfl

theorem eq_of_eqModDs {a b : State} (h : eqModDs a b) (hd : a.dsHeight = b.dsHeight) : a = b := by
  cases a; cases b
  simp only [eqModDs, clr, State.mk.injEq] at h
  simp only [State.mk.injEq]
  simp_all

/-- flag of the first entry whose outpoint is `op` (mirrors `setFirst`) -/
def firstFlag (op : OutPoint) : List (OutPoint × Bool) → Option Bool
  | [] => none
  | h :: t => if h.1 = op then some h.2 else firstFlag op t

/-- Precondition under which `applyBackward` undoes `applyForward` (on every field but
`dsHeight`). -/
def Pre (s : State) : Change → Prop
  | .fundingConfirmed _ => s.fundingHeight = none ∧ s.fundingOutpoint = none
  | .fundingInputSpent _ => True
  | .unilateral _ _ _ _ => s.uniHeight = none ∧ s.closing = none
  | .mutual _ _ => s.mutualHeight = none
  | .ourSpent v => ∃ c, s.closing = some c ∧ c.our = some (v, false)
  | .htlcSpent v sl => ∃ c i, s.closing = some c ∧ position v c.htlcOutputs = some i ∧
      c.htlcSpents[i]? = some false ∧ (∀ e ∈ c.second, e.1 ≠ sl)
  | .secondSpent op => ∃ c, s.closing = some c ∧ firstFlag op c.second = some false

/-- `Pre` holds along the forward run -/
def PreAll : State → List Change → Prop
  | _, [] => True
  | s, c :: cs => Pre s c ∧ ∀ s1 a r, applyForward s c = some (s1, a, r) → PreAll s1 cs

/-! ### small list facts -/

theorem setFirst_undo (op : OutPoint) (l l' : List (OutPoint × Bool))
    (hf : firstFlag op l = some false) (h : setFirst op true l = some l') :
    setFirst op false l' = some l := by
  induction l generalizing l' with
  | nil => simp [firstFlag] at hf
  | cons x xs ih =>
    simp only [setFirst] at h
    simp only [firstFlag] at hf
    split at h
    · rename_i hx
      simp only [hx, if_true, Option.some.injEq] at hf h
      subst h
      simp only [setFirst, if_true, Option.some.injEq, List.cons.injEq, and_true]
      rw [← hf, ← hx]
    · rename_i hx
      simp only [hx, if_false] at hf
      obtain ⟨t, ht, rfl⟩ := Option.map_eq_some_iff.mp h
      simp [setFirst, hx, ih t hf ht]

theorem filter_append_new (l : List (OutPoint × Bool)) (sl : OutPoint)
    (h : ∀ e ∈ l, e.1 ≠ sl) :
    (l ++ [(sl, false)]).filter (fun h => h.1 ≠ sl) = l := by
  rw [List.filter_append]
  have : l.filter (fun h => h.1 ≠ sl) = l := by
    apply List.filter_eq_self.mpr
    intro a ha; simpa using h a ha
  rw [this]; simp

/-! ### frame facts: fields `applyForward` / `applyBackward` never touch -/

theorem applyForward_frame {s s1 : State} {c : Change} {a r : List OutPoint}
    (h : applyForward s c = some (s1, a, r)) :
    s1.height = s.height ∧ s1.closingSweptHeight = s.closingSweptHeight ∧
      s1.ourSweptHeight = s.ourSweptHeight ∧ s1.sawBlock = s.sawBlock := by
  cases c <;> simp only [applyForward] at h
  case fundingConfirmed | fundingInputSpent | unilateral | «mutual» =>
    simp only [Option.some.injEq, Prod.mk.injEq] at h
    obtain ⟨rfl, _, _⟩ := h
    simp
  all_goals
    split at h
    · cases h
    · obtain ⟨c', _, hc'⟩ := Option.map_eq_some_iff.mp h
      simp only [Prod.mk.injEq] at hc'
      obtain ⟨rfl, _, _⟩ := hc'
      simp

theorem applyBackward_frame {s s1 : State} {c : Change} {a r : List OutPoint}
    (h : applyBackward s c = some (s1, a, r)) :
    s1.height = s.height ∧ s1.closingSweptHeight = s.closingSweptHeight ∧
      s1.ourSweptHeight = s.ourSweptHeight ∧ s1.sawBlock = s.sawBlock := by
  cases c <;> simp only [applyBackward] at h
  case fundingInputSpent | «mutual» =>
    simp only [Option.some.injEq, Prod.mk.injEq] at h
    obtain ⟨rfl, _, _⟩ := h
    simp
  case unilateral =>
    split at h
    · simp only [Option.some.injEq, Prod.mk.injEq] at h
      obtain ⟨rfl, _, _⟩ := h
      simp
    · cases h
  case fundingConfirmed =>
    split at h
    · simp only [Option.some.injEq, Prod.mk.injEq] at h
      obtain ⟨rfl, _, _⟩ := h
      simp
    · split at h
      · simp only [Option.some.injEq, Prod.mk.injEq] at h
        obtain ⟨rfl, _, _⟩ := h
        simp
      · cases h
  all_goals
    split at h
    · cases h
    · obtain ⟨c', _, hc'⟩ := Option.map_eq_some_iff.mp h
      simp only [Prod.mk.injEq] at hc'
      obtain ⟨rfl, _, _⟩ := hc'
      simp

/-! ### congruence / commutation with the fields the changes do not depend on -/

/-- overwrite the bookkeeping fields that `applyForward`/`applyBackward` neither read nor write -/
def setSw (x y : Option Nat) (s : State) : State :=
  { s with closingSweptHeight := x, ourSweptHeight := y, sawBlock := true }

def mapSt (g : State → State) : Delta → Delta := fun d => (g d.1, d.2.1, d.2.2)

theorem applyBackward_clr (s : State) (c : Change) :
    (applyBackward (clr s) c).map (mapSt clr) = (applyBackward s c).map (mapSt clr) := by
  cases c <;> simp only [applyBackward, clr]
  case fundingConfirmed | unilateral =>
    split <;> simp_all [mapSt, clr]
  case fundingInputSpent | «mutual» => simp [mapSt, clr]
  all_goals
    cases s.closing <;> simp [mapSt, Function.comp_def, clr]

theorem applyBackward_congr {s s' : State} (c : Change) (h : eqModDs s s') :
    (applyBackward s c).map (mapSt clr) = (applyBackward s' c).map (mapSt clr) := by
  rw [← applyBackward_clr s, ← applyBackward_clr s', h]

theorem applyBackward_setSw (x y : Option Nat) (s : State) (c : Change) :
    applyBackward (setSw x y s) c = (applyBackward s c).map (mapSt (setSw x y)) := by
  cases c <;> simp only [applyBackward, setSw]
  case fundingConfirmed | unilateral =>
    split <;> simp_all [mapSt, setSw]
  case fundingInputSpent => simp [mapSt, setSw]; rfl
  case «mutual» => simp [mapSt, setSw]
  all_goals
    cases s.closing <;> simp [mapSt, Function.comp_def, setSw]

theorem applyAll_setSw (x y : Option Nat) (s : State) (cs : List Change) :
    applyAll applyBackward (setSw x y s) cs =
      (applyAll applyBackward s cs).map (mapSt (setSw x y)) := by
  induction cs generalizing s with
  | nil => simp [applyAll, mapSt]
  | cons c cs ih =>
    simp only [applyAll, applyBackward_setSw]
    cases h1 : applyBackward s c with
    | none => simp
    | some d =>
      obtain ⟨s1, a1, r1⟩ := d
      simp only [Option.map_some, mapSt, ih]
      cases h2 : applyAll applyBackward s1 cs with
      | none => simp
      | some d2 => simp [mapSt]

theorem applyAll_append (f : State → Change → Option Delta) (s : State) (l1 l2 : List Change) :
    applyAll f s (l1 ++ l2) =
      match applyAll f s l1 with
      | none => none
      | some (s1, a1, r1) =>
        match applyAll f s1 l2 with
        | none => none
        | some (s2, a2, r2) => some (s2, a1 ++ a2, r1 ++ r2) := by
  induction l1 generalizing s with
  | nil =>
    simp only [List.nil_append, applyAll]
    cases applyAll f s l2 with
    | none => rfl
    | some d => simp
  | cons c cs ih =>
    simp only [List.cons_append, applyAll]
    cases f s c with
    | none => rfl
    | some d =>
      obtain ⟨s1, a1, r1⟩ := d
      simp only [ih]
      cases applyAll f s1 cs with
      | none => rfl
      | some d1 =>
        obtain ⟨s2, a2, r2⟩ := d1
        simp only
        cases applyAll f s2 l2 with
        | none => rfl
        | some d2 => simp [List.append_assoc]

/-! ### (A) change-level inverse -/

theorem position_lt_length {v : Nat} {l : List Nat} {i : Nat} (h : position v l = some i) :
    i < l.length := by
  induction l generalizing i with
  | nil => simp [position] at h
  | cons x xs ih =>
    simp only [position] at h
    split at h
    · cases h; simp
    · obtain ⟨j, hj, rfl⟩ := Option.map_eq_some_iff.mp h
      have := ih hj
      simp; omega

theorem fwd_bwd_one {s s1 : State} {c : Change} {a r : List OutPoint}
    (hp : Pre s c) (h : applyForward s c = some (s1, a, r)) :
    ∃ s2 a' r', applyBackward s1 c = some (s2, a', r') ∧ eqModDs s2 s ∧
      (a' = a ∧ r' = r) := by
  cases c with
  | fundingConfirmed op =>
    simp only [applyForward, Option.some.injEq, Prod.mk.injEq] at h
    obtain ⟨rfl, rfl, rfl⟩ := h
    obtain ⟨h1, h2⟩ := hp
    refine ⟨_, _, _, by simp only [applyBackward, if_true]; rfl, ?_, ⟨rfl, rfl⟩⟩
    cases s; simp_all [eqModDs, clr]
  | fundingInputSpent op =>
    simp only [applyForward, Option.some.injEq, Prod.mk.injEq] at h
    obtain ⟨rfl, rfl, rfl⟩ := h
    refine ⟨_, _, _, by simp only [applyBackward]; rfl, ?_, ⟨rfl, rfl⟩⟩
    cases s; simp [eqModDs, clr]
  | unilateral txid fo our htlcs =>
    simp only [applyForward, Option.some.injEq, Prod.mk.injEq] at h
    obtain ⟨rfl, rfl, rfl⟩ := h
    obtain ⟨h1, h2⟩ := hp
    refine ⟨_, _, _, by simp only [applyBackward, if_true]; rfl, ?_, ⟨rfl, rfl⟩⟩
    cases s; simp_all [eqModDs, clr]
  | «mutual» txid fo =>
    simp only [applyForward, Option.some.injEq, Prod.mk.injEq] at h
    obtain ⟨rfl, rfl, rfl⟩ := h
    have h1 : s.mutualHeight = none := hp
    refine ⟨_, _, _, by simp only [applyBackward]; rfl, ?_, ⟨rfl, rfl⟩⟩
    cases s; simp_all [eqModDs, clr]
  | ourSpent v =>
    obtain ⟨cl, hcl, hour⟩ := hp
    simp only [applyForward, hcl, Closing.setOurSpent, hour, if_true, Option.map_some,
      Option.some.injEq, Prod.mk.injEq] at h
    obtain ⟨rfl, rfl, rfl⟩ := h
    refine ⟨s, [], [(cl.txid, v)], ?_, rfl, ⟨rfl, rfl⟩⟩
    simp only [applyBackward, Closing.setOurSpent, if_true, Option.map_some, Option.some.injEq,
      Prod.mk.injEq, and_true]
    cases s; cases cl; simp_all
  | htlcSpent v sl =>
    obtain ⟨cl, i, hcl, hpos, hget, hsec⟩ := hp
    have hlt : i < cl.htlcSpents.length := by
      rcases List.getElem?_eq_some_iff.mp hget with ⟨hh, _⟩; exact hh
    simp only [applyForward, hcl, Closing.setHtlcSpent, hpos, hlt, if_true, Option.map_some,
      Option.some.injEq, Prod.mk.injEq] at h
    obtain ⟨rfl, rfl, rfl⟩ := h
    refine ⟨s, [sl], [(cl.txid, v)], ?_, rfl, ⟨rfl, rfl⟩⟩
    have hset : (cl.htlcSpents.set i true).set i false = cl.htlcSpents := by
      rw [List.set_set]
      apply List.ext_getElem?
      intro j
      by_cases hj : i = j
      · subst hj; simp [hlt]
        rcases List.getElem?_eq_some_iff.mp hget with ⟨_, hh⟩; exact hh
      · simp [hj]
    simp only [applyBackward, Closing.setHtlcSpent, Closing.addSecond, hpos, List.length_set, hlt,
      if_true, Option.map_some, Closing.removeSecond, hset, filter_append_new _ _ hsec]
    cases s; cases cl; simp_all
  | secondSpent op =>
    obtain ⟨cl, hcl, hff⟩ := hp
    simp only [applyForward, hcl, Closing.setSecondSpent, Option.map_map] at h
    obtain ⟨l', hl', hh⟩ := Option.map_eq_some_iff.mp h
    simp only [Function.comp, Prod.mk.injEq] at hh
    obtain ⟨rfl, rfl, rfl⟩ := hh
    refine ⟨s, [], [op], ?_, rfl, ⟨rfl, rfl⟩⟩
    simp only [applyBackward, Closing.setSecondSpent, setFirst_undo op _ _ hff hl', Option.map_some]
    cases s; cases cl; simp_all

/-- (E) for every change kind `applyBackward` hands the tracker the same `(adds, removes)` as
`applyForward` did (for `htlcSpent`/`secondSpent` since fix fc0e6dd). -/
theorem deltas_agree_one {s s1 s2 : State} {c : Change} {a r a' r' : List OutPoint}
    (hp : Pre s c) (h : applyForward s c = some (s1, a, r))
    (hb : applyBackward s1 c = some (s2, a', r')) : a' = a ∧ r' = r := by
  obtain ⟨s2', a'', r'', hb', _, hd⟩ := fwd_bwd_one hp h
  rw [hb] at hb'
  simp only [Option.some.injEq, Prod.mk.injEq] at hb'
  obtain ⟨_, rfl, rfl⟩ := hb'
  exact hd

theorem applyAll_single (f : State → Change → Option Delta) (s : State) (c : Change) :
    applyAll f s [c] = (f s c).map (fun d => (d.1, d.2.1 ++ [], d.2.2 ++ [])) := by
  simp only [applyAll]
  cases f s c with
  | none => rfl
  | some d => rfl

/-- backward step on a state that agrees modulo `dsHeight` -/
theorem bwd_transfer {sa sb s2 : State} {c : Change} {a r : List OutPoint}
    (heq : eqModDs sb sa) (h : applyBackward sa c = some (s2, a, r)) :
    ∃ s2', applyBackward sb c = some (s2', a, r) ∧ eqModDs s2' s2 := by
  have hc := applyBackward_congr c heq
  rw [h] at hc
  cases hb : applyBackward sb c with
  | none => rw [hb] at hc; simp at hc
  | some d =>
    obtain ⟨s2', a', r'⟩ := d
    rw [hb] at hc
    simp only [Option.map_some, mapSt, Option.some.injEq, Prod.mk.injEq] at hc
    obtain ⟨h1, rfl, rfl⟩ := hc
    exact ⟨s2', rfl, h1⟩

/-- (A) list-level inverse modulo `dsHeight`; the backward deltas are permutations of the forward ones. -/
theorem fwd_bwd_all {s s1 : State} {cs : List Change} {a r : List OutPoint}
    (hp : PreAll s cs) (h : applyAll applyForward s cs = some (s1, a, r)) :
    ∃ s2 a' r', applyAll applyBackward s1 cs.reverse = some (s2, a', r') ∧ eqModDs s2 s ∧
      (a'.Perm a ∧ r'.Perm r) := by
  induction cs generalizing s s1 a r with
  | nil =>
    simp only [applyAll, Option.some.injEq, Prod.mk.injEq] at h
    obtain ⟨rfl, rfl, rfl⟩ := h
    exact ⟨s, [], [], rfl, rfl, ⟨List.Perm.refl _, List.Perm.refl _⟩⟩
  | cons c cs ih =>
    simp only [applyAll] at h
    cases hf : applyForward s c with
    | none => simp [hf] at h
    | some d =>
      obtain ⟨sa, a1, r1⟩ := d
      simp only [hf] at h
      cases hrest : applyAll applyForward sa cs with
      | none => simp [hrest] at h
      | some d2 =>
        obtain ⟨sx, a2, r2⟩ := d2
        simp only [hrest, Option.some.injEq, Prod.mk.injEq] at h
        obtain ⟨rfl, rfl, rfl⟩ := h
        obtain ⟨sb, a2', r2', hb, heq, hperm⟩ := ih (hp.2 sa a1 r1 hf) hrest
        obtain ⟨s2, a1', r1', hb1, heq1, hd1⟩ := fwd_bwd_one hp.1 hf
        obtain ⟨s2', hb2, heq2⟩ := bwd_transfer heq hb1
        refine ⟨s2', a2' ++ (a1' ++ []), r2' ++ (r1' ++ []), ?_, heq2.trans heq1, ?_⟩
        · simp only [List.reverse_cons, applyAll_append, hb, applyAll_single, hb2, Option.map_some]
        · obtain ⟨rfl, rfl⟩ := hd1
          obtain ⟨p1, p2⟩ := hperm
          simp only [List.append_nil]
          exact ⟨List.perm_append_comm.trans (List.Perm.append_left _ p1),
                 List.perm_append_comm.trans (List.Perm.append_left _ p2)⟩

/-! ### (B) `dsHeight`, whole-list argument -/

def fwdDs1 (H : Nat) (d : Option Nat) : Change → Option Nat
  | .fundingConfirmed _ => none
  | .fundingInputSpent _ => some (d.getD H)
  | _ => d

def bwdDs1 (H : Nat) (d : Option Nat) : Change → Option Nat
  | .fundingInputSpent _ => if d = some H then none else d
  | _ => d

theorem applyForward_ds {s s1 : State} {c : Change} {a r : List OutPoint}
    (h : applyForward s c = some (s1, a, r)) : s1.dsHeight = fwdDs1 s.height s.dsHeight c := by
  cases c <;> simp only [applyForward] at h
  case fundingConfirmed | fundingInputSpent | unilateral | «mutual» =>
    simp only [Option.some.injEq, Prod.mk.injEq] at h
    obtain ⟨rfl, _, _⟩ := h
    simp [fwdDs1]
  all_goals
    split at h
    · cases h
    · obtain ⟨c', _, hc'⟩ := Option.map_eq_some_iff.mp h
      simp only [Prod.mk.injEq] at hc'
      obtain ⟨rfl, _, _⟩ := hc'
      simp [fwdDs1]

theorem applyBackward_ds {s s1 : State} {c : Change} {a r : List OutPoint}
    (h : applyBackward s c = some (s1, a, r)) : s1.dsHeight = bwdDs1 s.height s.dsHeight c := by
  cases c <;> simp only [applyBackward] at h
  case fundingInputSpent | «mutual» =>
    simp only [Option.some.injEq, Prod.mk.injEq] at h
    obtain ⟨rfl, _, _⟩ := h
    simp [bwdDs1]
  case unilateral =>
    split at h
    · simp only [Option.some.injEq, Prod.mk.injEq] at h
      obtain ⟨rfl, _, _⟩ := h
      simp [bwdDs1]
    · cases h
  case fundingConfirmed =>
    split at h
    · simp only [Option.some.injEq, Prod.mk.injEq] at h
      obtain ⟨rfl, _, _⟩ := h
      simp [bwdDs1]
    · split at h
      · simp only [Option.some.injEq, Prod.mk.injEq] at h
        obtain ⟨rfl, _, _⟩ := h
        simp [bwdDs1]
      · cases h
  all_goals
    split at h
    · cases h
    · obtain ⟨c', _, hc'⟩ := Option.map_eq_some_iff.mp h
      simp only [Prod.mk.injEq] at hc'
      obtain ⟨rfl, _, _⟩ := hc'
      simp [bwdDs1]

theorem applyAll_forward_frame {s s1 : State} {cs : List Change} {a r : List OutPoint}
    (h : applyAll applyForward s cs = some (s1, a, r)) :
    s1.height = s.height ∧ s1.closingSweptHeight = s.closingSweptHeight ∧
      s1.ourSweptHeight = s.ourSweptHeight ∧ s1.sawBlock = s.sawBlock ∧
      s1.dsHeight = cs.foldl (fwdDs1 s.height) s.dsHeight := by
  induction cs generalizing s s1 a r with
  | nil =>
    simp only [applyAll, Option.some.injEq, Prod.mk.injEq] at h
    obtain ⟨rfl, _, _⟩ := h
    simp
  | cons c cs ih =>
    simp only [applyAll] at h
    cases hf : applyForward s c with
    | none => simp [hf] at h
    | some d =>
      obtain ⟨sa, a1, r1⟩ := d
      simp only [hf] at h
      cases hrest : applyAll applyForward sa cs with
      | none => simp [hrest] at h
      | some d2 =>
        obtain ⟨sx, a2, r2⟩ := d2
        simp only [hrest, Option.some.injEq, Prod.mk.injEq] at h
        obtain ⟨rfl, _, _⟩ := h
        obtain ⟨h1, h2, h3, h4⟩ := applyForward_frame hf
        obtain ⟨g1, g2, g3, g4, g5⟩ := ih hrest
        have h5 := applyForward_ds hf
        simp only [List.foldl_cons]
        rw [h1, h5] at g5
        exact ⟨g1.trans h1, g2.trans h2, g3.trans h3, g4.trans h4, g5⟩

theorem applyAll_backward_ds {s s1 : State} {cs : List Change} {a r : List OutPoint}
    (h : applyAll applyBackward s cs = some (s1, a, r)) :
    s1.dsHeight = cs.foldl (bwdDs1 s.height) s.dsHeight := by
  induction cs generalizing s s1 a r with
  | nil =>
    simp only [applyAll, Option.some.injEq, Prod.mk.injEq] at h
    obtain ⟨rfl, _, _⟩ := h
    simp
  | cons c cs ih =>
    simp only [applyAll] at h
    cases hf : applyBackward s c with
    | none => simp [hf] at h
    | some d =>
      obtain ⟨sa, a1, r1⟩ := d
      simp only [hf] at h
      cases hrest : applyAll applyBackward sa cs with
      | none => simp [hrest] at h
      | some d2 =>
        obtain ⟨sx, a2, r2⟩ := d2
        simp only [hrest, Option.some.injEq, Prod.mk.injEq] at h
        obtain ⟨rfl, _, _⟩ := h
        obtain ⟨h1, _⟩ := applyBackward_frame hf
        have h5 := applyBackward_ds hf
        simp only [List.foldl_cons]
        have g5 := ih hrest
        rw [h1, h5] at g5
        exact g5

theorem fwdDs_some (H h : Nat) (cs : List Change)
    (hfc : ∀ op, Change.fundingConfirmed op ∉ cs) :
    cs.foldl (fwdDs1 H) (some h) = some h := by
  induction cs with
  | nil => rfl
  | cons c cs ih =>
    have hc : fwdDs1 H (some h) c = some h := by
      cases c <;> simp [fwdDs1]
      case fundingConfirmed op => exact hfc op (by simp)
    simp only [List.foldl_cons, hc]
    exact ih (fun op hop => hfc op (by simp [hop]))

theorem bwdDs_some (H h : Nat) (hne : h ≠ H) (l : List Change) :
    l.foldl (bwdDs1 H) (some h) = some h := by
  induction l with
  | nil => rfl
  | cons c cs ih =>
    have hc : bwdDs1 H (some h) c = some h := by
      cases c <;> simp [bwdDs1, hne]
    simp only [List.foldl_cons, hc, ih]

theorem ds_none_aux (H : Nat) (cs : List Change) (d : Option Nat) (hd : d = none ∨ d = some H) :
    (cs.reverse.foldl (bwdDs1 H) (cs.foldl (fwdDs1 H) d) = none ∨
      cs.reverse.foldl (bwdDs1 H) (cs.foldl (fwdDs1 H) d) = some H) ∧
    (d = none → cs.reverse.foldl (bwdDs1 H) (cs.foldl (fwdDs1 H) d) = none) := by
  induction cs generalizing d with
  | nil => exact ⟨hd, fun h => h⟩
  | cons c cs ih =>
    simp only [List.foldl_cons, List.reverse_cons, List.foldl_append, List.foldl_nil]
    have hd' : fwdDs1 H d c = none ∨ fwdDs1 H d c = some H := by
      rcases hd with rfl | rfl <;> cases c <;> simp [fwdDs1]
    obtain ⟨hP, hN⟩ := ih _ hd'
    generalize cs.reverse.foldl (bwdDs1 H) (cs.foldl (fwdDs1 H) (fwdDs1 H d c)) = inner at hP hN
    constructor
    · rcases hP with rfl | rfl <;> cases c <;> simp [bwdDs1]
    · rintro rfl
      cases c
      case fundingInputSpent op =>
        rcases hP with rfl | rfl <;> simp [bwdDs1]
      all_goals
        rw [hN (by simp [fwdDs1])]
        simp [bwdDs1]

/-- (B) the forward run followed by the backward run over the reversed list restores `dsHeight`. -/
theorem ds_roundtrip (H : Nat) (cs : List Change) (d0 : Option Nat)
    (hlt : ∀ h, d0 = some h → h < H)
    (hfc : ∀ op, Change.fundingConfirmed op ∈ cs → d0 = none) :
    cs.reverse.foldl (bwdDs1 H) (cs.foldl (fwdDs1 H) d0) = d0 := by
  cases d0 with
  | none => exact (ds_none_aux H cs none (Or.inl rfl)).2 rfl
  | some h =>
    have hh := hlt h rfl
    rw [fwdDs_some H h cs (fun op hop => by simpa using hfc op hop)]
    exact bwdDs_some H h (by omega) _

/-! ### (C) block-end level -/

/-- well-formedness of the bookkeeping fields of a monitor state -/
def WF (s : State) : Prop :=
  (s.isClosingSwept = false → s.closingSweptHeight = none) ∧
  (s.isOurSwept = false → s.ourSweptHeight = none) ∧
  (∀ h0, s.dsHeight = some h0 → h0 ≤ s.height)

theorem isOurSwept_ite (c : Bool) (s2 : State) (x : Option Nat) :
    (if c then { s2 with closingSweptHeight := x } else s2).isOurSwept = s2.isOurSwept := by
  cases c <;> rfl

theorem isClosingSwept_setSw (x y : Option Nat) (s : State) :
    (setSw x y s).isClosingSwept = s.isClosingSwept := rfl

theorem isOurSwept_setSw (x y : Option Nat) (s : State) :
    (setSw x y s).isOurSwept = s.isOurSwept := rfl

/-- the two swept-height updates of `on_add_block_end`, as one field update -/
def markSw (b0 b2 o0 o2 : Bool) (s2 : State) : State :=
  { s2 with
    closingSweptHeight := if !b0 && b2 then some s2.height else s2.closingSweptHeight,
    ourSweptHeight := if !o0 && o2 then some s2.height else s2.ourSweptHeight }

theorem addEnd_shape (s2 : State) (b0 o0 : Bool) :
    (if !o0 && (if !b0 && s2.isClosingSwept then { s2 with closingSweptHeight := some s2.height }
          else s2).isOurSwept
      then { (if !b0 && s2.isClosingSwept then { s2 with closingSweptHeight := some s2.height }
          else s2) with ourSweptHeight := some (if !b0 && s2.isClosingSwept then
            { s2 with closingSweptHeight := some s2.height } else s2).height }
      else (if !b0 && s2.isClosingSwept then { s2 with closingSweptHeight := some s2.height }
          else s2)) = markSw b0 s2.isClosingSwept o0 s2.isOurSwept s2 := by
  rw [isOurSwept_ite]
  cases b0 <;> cases o0 <;> cases s2.isClosingSwept <;> cases s2.isOurSwept <;> rfl

theorem addEnd_eq (s : State) (cs : List Change) :
    addEnd s cs =
      (applyAll applyForward { s with sawBlock := true, height := s.height + 1 } cs).map
        (fun d => (markSw s.isClosingSwept d.1.isClosingSwept s.isOurSwept d.1.isOurSwept d.1,
          d.2.1, d.2.2)) := by
  unfold addEnd
  simp only
  cases applyAll applyForward { s with sawBlock := true, height := s.height + 1 } cs with
  | none => rfl
  | some d =>
    obtain ⟨s2, a, r⟩ := d
    simp only [Option.map_some]
    rw [← addEnd_shape]
    rfl

theorem removeEnd_shape (s2 : State) (b2 o2 : Bool) :
    (if o2 && !(if b2 && !s2.isClosingSwept then { s2 with closingSweptHeight := none }
          else s2).isOurSwept
      then { (if b2 && !s2.isClosingSwept then { s2 with closingSweptHeight := none }
          else s2) with ourSweptHeight := none }
      else (if b2 && !s2.isClosingSwept then { s2 with closingSweptHeight := none } else s2)) =
    { s2 with
      closingSweptHeight := if b2 && !s2.isClosingSwept then none else s2.closingSweptHeight,
      ourSweptHeight := if o2 && !s2.isOurSwept then none else s2.ourSweptHeight } := by
  rw [isOurSwept_ite]
  cases b2 <;> cases o2 <;> cases s2.isClosingSwept <;> cases s2.isOurSwept <;> rfl

theorem addEnd_removeEnd {s s1 : State} {cs : List Change} {a r : List OutPoint}
    (hwf : WF s)
    (hp : PreAll { s with sawBlock := true, height := s.height + 1 } cs)
    (hfc : ∀ op, Change.fundingConfirmed op ∈ cs → s.dsHeight = none)
    (h : addEnd s cs = some (s1, a, r)) :
    ∃ a' r', removeEnd { s1 with sawBlock := true } cs = some ({ s with sawBlock := true }, a', r') ∧
      (a'.Perm a ∧ r'.Perm r) := by
  obtain ⟨wf1, wf2, wf3⟩ := hwf
  rw [addEnd_eq] at h
  cases hfw : applyAll applyForward { s with sawBlock := true, height := s.height + 1 } cs with
  | none => simp [hfw] at h
  | some d =>
    obtain ⟨s2, adds, removes⟩ := d
    simp only [hfw, Option.map_some, Option.some.injEq, Prod.mk.injEq] at h
    obtain ⟨hs1, rfl, rfl⟩ := h
    obtain ⟨f1, f2, f3, f4, f5⟩ := applyAll_forward_frame hfw
    obtain ⟨sb, a', r', hb, heq, hperm⟩ := fwd_bwd_all hp hfw
    have hds := applyAll_backward_ds hb
    rw [f5, f1] at hds
    simp only at hds
    rw [ds_roundtrip _ _ _ (fun h hh => Nat.lt_succ_of_le (wf3 h hh)) hfc] at hds
    have hsb : sb = { s with sawBlock := true, height := s.height + 1 } := eq_of_eqModDs heq hds
    subst hsb
    refine ⟨a', r', ?_, hperm⟩
    have e1 : { s1 with sawBlock := true } =
        setSw (if !s.isClosingSwept && s2.isClosingSwept then some s2.height else s2.closingSweptHeight)
          (if !s.isOurSwept && s2.isOurSwept then some s2.height else s2.ourSweptHeight) s2 := by
      rw [← hs1]; rfl
    rw [e1]
    unfold removeEnd
    simp only [applyAll_setSw, hb, Option.map_some, mapSt]
    rw [removeEnd_shape]
    have hS0c : State.isClosingSwept { s with sawBlock := true, height := s.height + 1 } =
        s.isClosingSwept := rfl
    have hS0o : State.isOurSwept { s with sawBlock := true, height := s.height + 1 } =
        s.isOurSwept := rfl
    simp only [isClosingSwept_setSw, isOurSwept_setSw, hS0c, hS0o]
    simp only [f1, f2, f3]
    clear e1 hs1 hb hfw heq hds hp f1 f2 f3 f4 f5 hS0c hS0o hperm hfc wf3
    cases hb0 : s.isClosingSwept <;> cases hb2 : s2.isClosingSwept <;>
      cases ho0 : s.isOurSwept <;> cases ho2 : s2.isOurSwept <;>
      simp only [hb0, ho0, forall_const] at wf1 wf2 <;>
      cases s <;> simp_all [setSw]

theorem addEnd_sawBlock {s s1 : State} {cs : List Change} {a r : List OutPoint}
    (h : addEnd s cs = some (s1, a, r)) : s1.sawBlock = true := by
  rw [addEnd_eq] at h
  obtain ⟨d, hd, hh⟩ := Option.map_eq_some_iff.mp h
  obtain ⟨s2, a2, r2⟩ := d
  simp only [Prod.mk.injEq] at hh
  obtain ⟨rfl, _, _⟩ := hh
  obtain ⟨_, _, _, f4, _⟩ := applyAll_forward_frame hd
  exact f4

theorem addBlock_sawBlock {s s1 : State} {txs : List Tx} {a r : List OutPoint}
    (h : addBlock s txs = some (s1, a, r)) : s1.sawBlock = true := by
  simp only [addBlock] at h
  split at h
  · cases h
  · exact addEnd_sawBlock h

theorem eq_of_sawBlock {s : State} (h : s.sawBlock = true) : { s with sawBlock := true } = s := by
  cases s; simp_all

/-! ### (E) ListenSlot bookkeeping -/

theorem mem_without (x : OutPoint) (l r : List OutPoint) : x ∈ without l r ↔ x ∈ l ∧ x ∉ r := by
  simp [without]

theorem slot_roundtrip (sl : Slot) (A R A' R' : List OutPoint)
    (hA : A'.Perm A) (hR : R'.Perm R)
    (h1 : ∀ x ∈ A, x ∉ sl.watches) (h2 : ∀ x ∈ R, x ∈ A ∨ x ∈ sl.watches)
    (h3 : ∀ x ∈ R, x ∉ sl.seen) :
    (∀ x, x ∈ ((sl.onAdd A R).onRemove A' R').watches ↔ x ∈ sl.watches) ∧
    (∀ x, x ∈ ((sl.onAdd A R).onRemove A' R').seen ↔ x ∈ sl.seen) := by
  constructor
  · intro x
    simp only [Slot.onAdd, Slot.onRemove, mem_without, List.mem_append, hA.mem_iff, hR.mem_iff]
    constructor
    · rintro ⟨(⟨hw | ha, _⟩ | hr), hna⟩
      · exact hw
      · exact absurd ha hna
      · rcases h2 x hr with ha | hw
        · exact absurd ha hna
        · exact hw
    · intro hw
      refine ⟨?_, fun ha => h1 x ha hw⟩
      by_cases hr : x ∈ R
      · exact Or.inr hr
      · exact Or.inl ⟨Or.inl hw, hr⟩
  · intro x
    simp only [Slot.onAdd, Slot.onRemove, mem_without, List.mem_append, hR.mem_iff]
    constructor
    · rintro ⟨hs | hr, hnr⟩
      · exact hs
      · exact absurd hr hnr
    · intro hs
      exact ⟨Or.inl hs, fun hr => h3 x hr hs⟩

end VlsModel.Monitor
