import VlsModel.Lemmas.MonitorValid
/-
Stability of detection for consensus-valid blocks (C14): the simulation argument.

The original detection run goes through temporary states `t_0 … t_n = n`; the re-detection run on
the post-block state starts from a state `u_0` with the projection of `n`.  `Mid t n u` says that
`u` lies between `t` and `n`; `Fut L t n` says that `n` differs from `t` only by items keyed by the
txids `L` of the remaining transactions.
-/
namespace VlsModel.Monitor

def Closing.base (c : Closing) : Nat × Option Nat × List Nat × Nat :=
  (c.txid, c.our.map (·.1), c.htlcOutputs, c.htlcSpents.length)

def Closing.keys (c : Closing) : List OutPoint := c.second.map (·.1)

theorem core_eq_iff (c c' : Closing) : c.core = c'.core ↔ c.base = c'.base ∧ c.keys = c'.keys := by
  simp only [Closing.core, Closing.base, Closing.keys, Prod.mk.injEq]
  constructor
  · rintro ⟨a, b, c, d, e⟩; exact ⟨⟨a, b, c, d⟩, e⟩
  · rintro ⟨⟨a, b, c, d⟩, e⟩; exact ⟨a, b, c, d, e⟩

theorem includesOur_base {c c' : Closing} (h : c.base = c'.base) (op : OutPoint) :
    c.includesOur op = c'.includesOur op := by
  simp only [Closing.base, Prod.mk.injEq] at h
  obtain ⟨h1, h2, _⟩ := h
  simp only [Closing.includesOur, h1, h2]

theorem includesHtlc_base {c c' : Closing} (h : c.base = c'.base) (op : OutPoint) :
    c.includesHtlc op = c'.includesHtlc op := by
  simp only [Closing.base, Prod.mk.injEq] at h
  obtain ⟨h1, _, h3, _⟩ := h
  simp only [Closing.includesHtlc, h1, h3]

theorem includesSecond_iff (c : Closing) (op : OutPoint) :
    c.includesSecond op = true ↔ op ∈ c.keys := by
  rw [includesSecond_eq]
  simp [Closing.keys]

/-! ### `Mid` -/

def ClMid (tc nc uc : Option Closing) : Prop :=
  match tc, uc with
  | none, none => True
  | none, some cu => ∃ cn, nc = some cn ∧ cu.base = cn.base ∧ ∀ op ∈ cu.keys, op ∈ cn.keys
  | some ct, some cu => cu.base = ct.base ∧ (∀ op ∈ ct.keys, op ∈ cu.keys) ∧
      ∀ op ∈ cu.keys, op ∈ ct.keys ∨ ∃ cn, nc = some cn ∧ op ∈ cn.keys
  | some _, none => False

structure Mid (t n u : State) : Prop where
  fi : u.fundingInputs = t.fundingInputs
  ft : u.fundingTxids = t.fundingTxids
  fv : u.fundingVouts = t.fundingVouts
  fo : u.fundingOutpoint = t.fundingOutpoint ∨
    (t.fundingOutpoint = none ∧ u.fundingOutpoint = n.fundingOutpoint)
  cl : ClMid t.closing n.closing u.closing

/-- a core-preserving operation (`setOurSpent`, `setSecondSpent`, …) on both sides -/
theorem ClMid_congr {ct ct' cu cu' : Closing} {nc : Option Closing}
    (ht : ct'.core = ct.core) (hu : cu'.core = cu.core)
    (h : ClMid (some ct) nc (some cu)) : ClMid (some ct') nc (some cu') := by
  obtain ⟨t1, t2⟩ := (core_eq_iff _ _).mp ht
  obtain ⟨u1, u2⟩ := (core_eq_iff _ _).mp hu
  simp only [ClMid] at h ⊢
  rw [t1, t2, u1, u2]
  exact h

theorem setOurSpent_some {c c' : Closing} {v : Nat} {b : Bool} (h : c.setOurSpent v b = some c') :
    c.our.map (·.1) = some v ∧ c'.core = c.core := by
  have k := congrArg (Option.map Closing.core) h
  rw [setOurSpent_core] at k
  split at k
  · rename_i hc
    simp only [Option.map_some, Option.some.injEq] at k
    exact ⟨hc, k.symm⟩
  · simp at k

theorem setOurSpent_of {c : Closing} {v : Nat} (b : Bool) (h : c.our.map (·.1) = some v) :
    ∃ c', c.setOurSpent v b = some c' := by
  cases e : c.setOurSpent v b with
  | some c' => exact ⟨c', rfl⟩
  | none =>
    have k := congrArg (Option.map Closing.core) e
    rw [setOurSpent_core, if_pos h] at k
    simp at k

theorem setSecondSpent_some {c c' : Closing} {op : OutPoint} {b : Bool}
    (h : c.setSecondSpent op b = some c') : op ∈ c.keys ∧ c'.core = c.core := by
  have k := congrArg (Option.map Closing.core) h
  rw [setSecondSpent_core] at k
  split at k
  · rename_i hc
    simp only [Option.map_some, Option.some.injEq] at k
    exact ⟨hc, k.symm⟩
  · simp at k

theorem setSecondSpent_of {c : Closing} {op : OutPoint} (b : Bool) (h : op ∈ c.keys) :
    ∃ c', c.setSecondSpent op b = some c' := by
  cases e : c.setSecondSpent op b with
  | some c' => exact ⟨c', rfl⟩
  | none =>
    have k := congrArg (Option.map Closing.core) e
    have h' : op ∈ c.second.map (·.1) := h
    rw [setSecondSpent_core, if_pos h'] at k
    simp at k

theorem setHtlcSpent_some {c c' : Closing} {v : Nat} {b : Bool}
    (h : c.setHtlcSpent v b = some c') :
    (∃ i, position v c.htlcOutputs = some i ∧ i < c.htlcSpents.length) ∧ c'.core = c.core := by
  have k := congrArg (Option.map Closing.core) h
  rw [setHtlcSpent_core] at k
  split at k
  · simp at k
  · rename_i i hi
    split at k
    · rename_i hlt
      simp only [Option.map_some, Option.some.injEq] at k
      exact ⟨⟨i, hi, hlt⟩, k.symm⟩
    · simp at k

theorem setHtlcSpent_of {c : Closing} {v i : Nat} (b : Bool)
    (h : position v c.htlcOutputs = some i) (hlt : i < c.htlcSpents.length) :
    ∃ c', c.setHtlcSpent v b = some c' := by
  simp [Closing.setHtlcSpent, h, hlt]

theorem ClMid_some_left {ct : Closing} {nc uc : Option Closing} (h : ClMid (some ct) nc uc) :
    ∃ cu, uc = some cu := by
  cases uc with
  | none => exact h.elim
  | some cu => exact ⟨cu, rfl⟩

/-- whatever change the original run could apply, the re-detection run can apply too, and the
states stay related -/
theorem Mid.apply {t n u t' : State} {ch : Change} {a r : List OutPoint}
    (m : Mid t n u) (h : applyForward t ch = some (t', a, r)) :
    ∃ u' a' r', applyForward u ch = some (u', a', r') ∧ Mid t' n u' := by
  obtain ⟨fi, ft, fv, fo, cl⟩ := m
  cases ch with
  | fundingConfirmed op =>
    simp only [applyForward, Option.some.injEq, Prod.mk.injEq] at h
    obtain ⟨rfl, _, _⟩ := h
    exact ⟨_, _, _, rfl, ⟨fi, ft, fv, Or.inl rfl, cl⟩⟩
  | fundingInputSpent op =>
    simp only [applyForward, Option.some.injEq, Prod.mk.injEq] at h
    obtain ⟨rfl, _, _⟩ := h
    exact ⟨_, _, _, rfl, ⟨fi, ft, fv, fo, cl⟩⟩
  | «mutual» txid f =>
    simp only [applyForward, Option.some.injEq, Prod.mk.injEq] at h
    obtain ⟨rfl, _, _⟩ := h
    exact ⟨_, _, _, rfl, ⟨fi, ft, fv, fo, cl⟩⟩
  | unilateral txid f our htlcs =>
    simp only [applyForward, Option.some.injEq, Prod.mk.injEq] at h
    obtain ⟨rfl, _, _⟩ := h
    refine ⟨_, _, _, rfl, ⟨fi, ft, fv, fo, ?_⟩⟩
    exact ⟨rfl, fun op h => h, fun op h => Or.inl h⟩
  | ourSpent v =>
    simp only [applyForward] at h
    cases hc : t.closing with
    | none => simp [hc] at h
    | some ct =>
      simp only [hc] at h
      obtain ⟨ct', hct', hh⟩ := Option.map_eq_some_iff.mp h
      simp only [Prod.mk.injEq] at hh
      obtain ⟨rfl, _, _⟩ := hh
      rw [hc] at cl
      obtain ⟨cu, hcu⟩ := ClMid_some_left cl
      rw [hcu] at cl
      obtain ⟨k1, k2⟩ := setOurSpent_some hct'
      have hb : cu.base = ct.base := cl.1
      have k1' : cu.our.map (·.1) = some v := by
        have := congrArg (fun k => k.2.1) hb
        simp only [Closing.base] at this
        rw [this]; exact k1
      obtain ⟨cu', hcu'⟩ := setOurSpent_of true k1'
      refine ⟨{ u with closing := some cu' }, [], [(cu.txid, v)], ?_, ⟨fi, ft, fv, fo, ?_⟩⟩
      · simp [applyForward, hcu, hcu']
      · exact ClMid_congr k2 (setOurSpent_some hcu').2 cl
  | secondSpent op =>
    simp only [applyForward] at h
    cases hc : t.closing with
    | none => simp [hc] at h
    | some ct =>
      simp only [hc] at h
      obtain ⟨ct', hct', hh⟩ := Option.map_eq_some_iff.mp h
      simp only [Prod.mk.injEq] at hh
      obtain ⟨rfl, _, _⟩ := hh
      rw [hc] at cl
      obtain ⟨cu, hcu⟩ := ClMid_some_left cl
      rw [hcu] at cl
      obtain ⟨k1, k2⟩ := setSecondSpent_some hct'
      obtain ⟨cu', hcu'⟩ := setSecondSpent_of true (cl.2.1 op k1)
      refine ⟨{ u with closing := some cu' }, [], [op], ?_, ⟨fi, ft, fv, fo, ?_⟩⟩
      · simp [applyForward, hcu, hcu']
      · exact ClMid_congr k2 (setSecondSpent_some hcu').2 cl
  | htlcSpent v sl =>
    simp only [applyForward] at h
    cases hc : t.closing with
    | none => simp [hc] at h
    | some ct =>
      simp only [hc] at h
      obtain ⟨ct', hct', hh⟩ := Option.map_eq_some_iff.mp h
      simp only [Prod.mk.injEq] at hh
      obtain ⟨rfl, _, _⟩ := hh
      rw [hc] at cl
      obtain ⟨cu, hcu⟩ := ClMid_some_left cl
      rw [hcu] at cl
      obtain ⟨⟨i, hi, hlt⟩, k2⟩ := setHtlcSpent_some hct'
      have hb : cu.base = ct.base := cl.1
      have e3 : cu.htlcOutputs = ct.htlcOutputs := by
        have := congrArg (fun k => k.2.2.1) hb
        simpa only [Closing.base] using this
      have e4 : cu.htlcSpents.length = ct.htlcSpents.length := by
        have := congrArg (fun k => k.2.2.2) hb
        simpa only [Closing.base] using this
      obtain ⟨cu', hcu'⟩ := setHtlcSpent_of (c := cu) true (e3 ▸ hi) (e4 ▸ hlt)
      refine ⟨{ u with closing := some (cu'.addSecond sl) }, [sl], [(cu.txid, v)], ?_,
        ⟨fi, ft, fv, fo, ?_⟩⟩
      · simp [applyForward, hcu, hcu']
      · have cl' := ClMid_congr k2 (setHtlcSpent_some hcu').2 cl
        obtain ⟨b1, b2, b3⟩ := cl'
        refine ⟨?_, ?_, ?_⟩
        · exact b1
        · intro op hop
          simp only [Closing.addSecond, Closing.keys, List.map_append, List.mem_append] at hop ⊢
          rcases hop with hop | hop
          · exact Or.inl (b2 op hop)
          · exact Or.inr hop
        · intro op hop
          simp only [Closing.addSecond, Closing.keys, List.map_append, List.mem_append] at hop ⊢
          rcases hop with hop | hop
          · rcases b3 op hop with h1 | h1
            · exact Or.inl (Or.inl h1)
            · exact Or.inr h1
          · exact Or.inl (Or.inr hop)

/-! ### `Fut` and agreement of the listener's decisions -/

structure Fut (L : List Nat) (t n : State) : Prop where
  fo : n.fundingOutpoint = t.fundingOutpoint ∨
    (t.fundingOutpoint = none ∧ ∃ op, n.fundingOutpoint = some op ∧ op.1 ∈ L)
  cl0 : t.closing = none → ∀ cn, n.closing = some cn → cn.txid ∈ L ∧ ∀ op ∈ cn.keys, op.1 ∈ L
  cl1 : ∀ ct, t.closing = some ct → ∃ cn, n.closing = some cn ∧ cn.base = ct.base ∧
    (∀ op ∈ ct.keys, op ∈ cn.keys) ∧ ∀ op ∈ cn.keys, op ∈ ct.keys ∨ op.1 ∈ L

theorem Fut.core {L : List Nat} {t t2 n : State} (h : t.core = t2.core) (f : Fut L t n) :
    Fut L t2 n := by
  have hcl := closing_core_cases h
  simp only [State.core, Prod.mk.injEq] at h
  obtain ⟨_, _, _, h4, _⟩ := h
  refine ⟨h4 ▸ f.fo, ?_, ?_⟩
  · intro h2
    rcases hcl with ⟨e, _⟩ | ⟨c, c', _, e', _⟩
    · exact f.cl0 e
    · rw [e'] at h2; cases h2
  · intro c2 h2
    rcases hcl with ⟨_, e'⟩ | ⟨c, c', e, e', hcc⟩
    · rw [e'] at h2; cases h2
    · rw [e'] at h2; cases h2
      obtain ⟨b, k⟩ := (core_eq_iff _ _).mp hcc
      rw [← b, ← k]
      exact f.cl1 c e

theorem dec_fo {L : List Nat} {t n u : State} {inp : OutPoint} (m : Mid t n u) (f : Fut L t n)
    (hi : inp.1 ∉ L) : (some inp = u.fundingOutpoint ↔ some inp = t.fundingOutpoint) := by
  rcases m.fo with e | ⟨e1, e2⟩
  · rw [e]
  · rw [e1, e2]
    rcases f.fo with g | ⟨_, op, g, hop⟩
    · rw [g, e1]
    · rw [g]
      constructor
      · intro h; cases h; exact absurd hop hi
      · intro h; cases h

/-- classification of an input against the recorded closing transaction -/
def cls (c : Option Closing) (inp : OutPoint) : Nat :=
  match c with
  | none => 0
  | some c => if c.includesOur inp then 1 else if c.includesHtlc inp then 2
      else if c.includesSecond inp then 3 else 0

def in3' (inp : OutPoint) (k : Nat) (d : Scratch) : Option Scratch :=
  match k with
  | 1 => d.addChange (.ourSpent inp.2)
  | 2 => some { d with spentHtlc := d.spentHtlc ++ [(inp.2, d.inputNum)] }
  | 3 => d.addChange (.secondSpent inp)
  | _ => some d

theorem in3_cls (inp : OutPoint) (d : Scratch) : in3 inp d = in3' inp (cls d.t.closing inp) d := by
  unfold in3 cls
  cases d.t.closing with
  | none => rfl
  | some c =>
    simp only
    split
    · rfl
    · split
      · rfl
      · split <;> rfl

theorem dec_cl {L : List Nat} {t n u : State} {inp : OutPoint} (m : Mid t n u) (f : Fut L t n)
    (hi : inp.1 ∉ L) : cls u.closing inp = cls t.closing inp := by
  have cl := m.cl
  cases ht : t.closing with
  | none =>
    rw [ht] at cl
    cases hu : u.closing with
    | none => rfl
    | some cu =>
      rw [hu] at cl
      obtain ⟨cn, hn, hb, hk⟩ := cl
      obtain ⟨g1, g2⟩ := f.cl0 ht cn hn
      have etx : cu.txid = cn.txid := by
        have := congrArg (fun k => k.1) hb
        simpa only [Closing.base] using this
      have hne : ¬ cu.txid = inp.1 := by
        intro e; rw [etx] at e; rw [e] at g1; exact hi g1
      have h3 : cu.includesSecond inp = false := by
        cases e : cu.includesSecond inp with
        | false => rfl
        | true =>
          have := (includesSecond_iff cu inp).mp e
          exact absurd (g2 inp (hk inp this)) hi
      simp [cls, Closing.includesOur, Closing.includesHtlc, hne, h3]
  | some ct =>
    rw [ht] at cl
    obtain ⟨cu, hu⟩ := ClMid_some_left cl
    rw [hu] at cl
    obtain ⟨hb, k1, k2⟩ := cl
    obtain ⟨cn, hn, _, _, g3⟩ := f.cl1 ct ht
    have h3 : cu.includesSecond inp = ct.includesSecond inp := by
      rw [Bool.eq_iff_iff, includesSecond_iff, includesSecond_iff]
      constructor
      · intro h
        rcases k2 inp h with h | ⟨cn', hn', h⟩
        · exact h
        · rw [hn] at hn'; cases hn'
          rcases g3 inp h with h | h
          · exact h
          · exact absurd h hi
      · exact k1 inp
    rw [hu]
    simp only [cls, includesOur_base hb, includesHtlc_base hb, h3]

/-! ### the two listener runs in lock step -/

structure MS (n : State) (d e : Scratch) : Prop where
  mid : Mid d.t n e.t
  ch : e.changes = d.changes
  inum : e.inputNum = d.inputNum
  cin : e.closingIn = d.closingIn
  sh : e.spentHtlc = d.spentHtlc

theorem MS.addChange {n : State} {d e d' : Scratch} {ch : Change} (m : MS n d e)
    (h : d.addChange ch = some d') : ∃ e', e.addChange ch = some e' ∧ MS n d' e' := by
  obtain ⟨x, hx, rfl⟩ := Option.map_eq_some_iff.mp h
  obtain ⟨t', a, r⟩ := x
  obtain ⟨u', a', r', hu, m'⟩ := m.mid.apply hx
  refine ⟨{ e with t := u', changes := e.changes ++ [ch] }, by simp [Scratch.addChange, hu], ?_⟩
  exact ⟨m', by simp [m.ch], m.inum, m.cin, m.sh⟩

theorem addChange_simple_core {d d' : Scratch} {ch : Change} (hs : ch.simple)
    (h : d.addChange ch = some d') : d'.t.core = d.t.core := by
  obtain ⟨x, hx, rfl⟩ := Option.map_eq_some_iff.mp h
  obtain ⟨t', a, r⟩ := x
  exact applyForward_simple_core hs hx

theorem MS.in1 {n : State} {d e d' : Scratch} {inp : OutPoint} (m : MS n d e)
    (h : in1 inp d = some d') :
    ∃ e', Monitor.in1 inp e = some e' ∧ MS n d' e' ∧ d'.t.core = d.t.core := by
  simp only [Monitor.in1] at h ⊢
  rw [m.mid.fi]
  split at h
  · rename_i hc
    rw [if_pos hc]
    obtain ⟨e', he, m'⟩ := m.addChange h
    exact ⟨e', he, m', addChange_simple_core (ch := .fundingInputSpent inp) trivial h⟩
  · rename_i hc
    rw [if_neg hc]
    cases h
    exact ⟨e, rfl, m, rfl⟩

theorem MS.in2 {n : State} {d e : Scratch} {inp : OutPoint} (m : MS n d e)
    (hfo : some inp = e.t.fundingOutpoint ↔ some inp = d.t.fundingOutpoint) :
    MS n (Monitor.in2 inp d) (Monitor.in2 inp e) := by
  simp only [Monitor.in2]
  by_cases hc : some inp = d.t.fundingOutpoint
  · rw [if_pos hc, if_pos (hfo.mpr hc)]
    exact ⟨m.mid, m.ch, m.inum, rfl, m.sh⟩
  · rw [if_neg hc, if_neg (fun h => hc (hfo.mp h))]
    exact m

theorem MS.in3 {n : State} {d e d' : Scratch} {inp : OutPoint} (m : MS n d e)
    (hcl : cls e.t.closing inp = cls d.t.closing inp)
    (h : in3 inp d = some d') :
    ∃ e', Monitor.in3 inp e = some e' ∧ MS n d' e' ∧ d'.t.core = d.t.core := by
  rw [in3_cls] at h ⊢
  rw [hcl]
  generalize cls d.t.closing inp = k at h
  unfold in3' at h ⊢
  split at h
  · obtain ⟨e', he, m'⟩ := m.addChange h
    exact ⟨e', he, m', addChange_simple_core (ch := .ourSpent inp.2) trivial h⟩
  · cases h
    exact ⟨_, rfl, ⟨m.mid, m.ch, m.inum, m.cin, by simp [m.sh, m.inum]⟩, rfl⟩
  · obtain ⟨e', he, m'⟩ := m.addChange h
    exact ⟨e', he, m', addChange_simple_core (ch := .secondSpent inp) trivial h⟩
  · cases h
    exact ⟨e, rfl, m, rfl⟩

theorem MS.in4 {n : State} {d e d' : Scratch} (m : MS n d e) (h : in4 d = some d') :
    ∃ e', Monitor.in4 e = some e' ∧ MS n d' e' ∧ d'.t = d.t := by
  simp only [Monitor.in4] at h ⊢
  rw [m.cin, m.inum]
  split at h
  · cases h
  · rename_i hc
    rw [if_neg hc]
    cases h
    exact ⟨_, rfl, ⟨m.mid, m.ch, rfl, rfl, m.sh⟩, rfl⟩

theorem MS.onInput {L : List Nat} {n : State} {d e d' : Scratch} {inp : OutPoint} (m : MS n d e)
    (f : Fut L d.t n) (hi : inp.1 ∉ L) (h : onInput d inp = some d') :
    ∃ e', Monitor.onInput e inp = some e' ∧ MS n d' e' ∧ d'.t.core = d.t.core := by
  rw [onInput_eq] at h ⊢
  obtain ⟨d1, e1, h⟩ := Option.bind_eq_some_iff.mp h
  obtain ⟨d3, e3, e4⟩ := Option.bind_eq_some_iff.mp h
  obtain ⟨x1, hx1, m1, c1⟩ := m.in1 e1
  have f1 : Fut L d1.t n := f.core c1.symm
  have m2 := m1.in2 (inp := inp) (dec_fo m1.mid f1 hi)
  have t2 : (Monitor.in2 inp d1).t = d1.t := by
    simp only [Monitor.in2]; split <;> rfl
  have t2' : (Monitor.in2 inp x1).t = x1.t := by
    simp only [Monitor.in2]; split <;> rfl
  have hcl : cls (Monitor.in2 inp x1).t.closing inp = cls (Monitor.in2 inp d1).t.closing inp := by
    rw [t2, t2']; exact dec_cl m1.mid f1 hi
  obtain ⟨x3, hx3, m3, c3⟩ := m2.in3 hcl e3
  obtain ⟨x4, hx4, m4, c4⟩ := m3.in4 e4
  refine ⟨x4, ?_, m4, ?_⟩
  · simp [hx1, hx3, hx4]
  · rw [c4, c3, t2, c1]

theorem MS.onInputs {L : List Nat} {n : State} {is : List OutPoint} {d e d' : Scratch}
    (m : MS n d e) (f : Fut L d.t n) (hi : ∀ inp ∈ is, inp.1 ∉ L)
    (h : onInputs d is = some d') :
    ∃ e', Monitor.onInputs e is = some e' ∧ MS n d' e' ∧ d'.t.core = d.t.core := by
  induction is generalizing d e with
  | nil =>
    simp only [Monitor.onInputs, Option.some.injEq] at h; subst h
    exact ⟨e, rfl, m, rfl⟩
  | cons i is ih =>
    simp only [Monitor.onInputs] at h
    cases e1 : Monitor.onInput d i with
    | none => simp [e1] at h
    | some d1 =>
      simp only [e1] at h
      obtain ⟨x1, hx1, m1, c1⟩ := m.onInput f (hi i (by simp)) e1
      obtain ⟨x2, hx2, m2, c2⟩ := ih m1 (f.core c1.symm) (fun inp h' => hi inp (by simp [h'])) h
      exact ⟨x2, by simp [Monitor.onInputs, hx1, hx2], m2, c2.trans c1⟩

theorem MS.addChanges {n : State} {cs : List Change} {d e d' : Scratch} (m : MS n d e)
    (h : addChanges d cs = some d') : ∃ e', Monitor.addChanges e cs = some e' ∧ MS n d' e' := by
  induction cs generalizing d e with
  | nil =>
    simp only [Monitor.addChanges, Option.some.injEq] at h; subst h
    exact ⟨e, rfl, m⟩
  | cons c cs ih =>
    simp only [Monitor.addChanges] at h
    cases e1 : d.addChange c with
    | none => simp [e1] at h
    | some d1 =>
      simp only [e1] at h
      obtain ⟨x1, hx1, m1⟩ := m.addChange e1
      obtain ⟨x2, hx2, m2⟩ := ih m1 h
      exact ⟨x2, by simp [Monitor.addChanges, hx1, hx2], m2⟩

theorem MS.txEnd {n : State} {tx : Tx} {d e d' : Scratch} (m : MS n d e)
    (h : txEnd tx d = some d') : ∃ e', Monitor.txEnd tx e = some e' ∧ MS n d' e' := by
  unfold Monitor.txEnd at h ⊢
  obtain ⟨d1, e1, h⟩ := Option.bind_eq_some_iff.mp h
  obtain ⟨d2, e2, h⟩ := Option.bind_eq_some_iff.mp h
  obtain ⟨d3, e3, e4⟩ := Option.bind_eq_some_iff.mp h
  -- tx1
  have s1 : ∃ x1, tx1 tx e = some x1 ∧ MS n d1 x1 := by
    simp only [tx1] at e1 ⊢
    rw [m.cin]
    split at e1
    · cases e1
    · rename_i hc; rw [if_neg hc]; cases e1; exact ⟨e, rfl, m⟩
  obtain ⟨x1, hx1, m1⟩ := s1
  -- tx2
  have s2 : ∃ x2, tx2 tx x1 = some x2 ∧ MS n d2 x2 := by
    simp only [tx2] at e2 ⊢
    rw [m1.mid.ft, m1.mid.fv]
    split at e2
    · split at e2
      · cases e2
      · split at e2
        · rename_i hc; rw [if_pos hc]; exact m1.addChange e2
        · cases e2
    · cases e2; exact ⟨x1, rfl, m1⟩
  obtain ⟨x2, hx2, m2⟩ := s2
  -- tx3
  have s3 : ∃ x3, tx3 tx x2 = some x3 ∧ MS n d3 x3 := by
    simp only [tx3] at e3 ⊢
    rw [m2.cin]
    split at e3
    · split at e3
      · exact m2.addChange e3
      · exact m2.addChange e3
    · cases e3; exact ⟨x2, rfl, m2⟩
  obtain ⟨x3, hx3, m3⟩ := s3
  -- tx4
  have s4 : ∃ x4, tx4 tx x3 = some x4 ∧ MS n d' x4 := by
    simp only [tx4] at e4 ⊢
    rw [m3.sh]
    exact m3.addChanges e4
  obtain ⟨x4, hx4, m4⟩ := s4
  exact ⟨x4, by simp [hx1, hx2, hx3, hx4], m4⟩

/-- **one transaction**: if `u` lies between `t` and the final state `n`, `n` differs from `t` only
by items keyed by `L`, and the inputs of `tx` do not refer to `L`, then both runs detect the same
changes for `tx` and stay related -/
theorem Mid.onTx {L : List Nat} {t n u t' : State} {cs cs' : List Change} {tx : Tx}
    (m : Mid t n u) (f : Fut L t n) (hi : ∀ inp ∈ tx.inputs, inp.1 ∉ L)
    (h : onTx t cs tx = some (t', cs')) :
    ∃ u', Monitor.onTx u cs tx = some (u', cs') ∧ Mid t' n u' := by
  rw [onTx_eq] at h ⊢
  obtain ⟨dE, hE, hh⟩ := Option.map_eq_some_iff.mp h
  simp only [Prod.mk.injEq] at hh
  obtain ⟨rfl, rfl⟩ := hh
  obtain ⟨d, hd, hE⟩ := Option.bind_eq_some_iff.mp hE
  have m0 : MS n { t := t, changes := cs, inputNum := 0, closingIn := none, spentHtlc := [] }
      { t := u, changes := cs, inputNum := 0, closingIn := none, spentHtlc := [] } :=
    ⟨m, rfl, rfl, rfl, rfl⟩
  obtain ⟨x, hx, mx, _⟩ := m0.onInputs f hi hd
  obtain ⟨xE, hxE, mE⟩ := mx.txEnd hE
  refine ⟨xE.t, ?_, mE.mid⟩
  simp [hx, hxE, mE.ch]

/-! ### what one transaction does to the temporary state -/

/-- shape of the changes the listener emits for the transaction with txid `x` (`P`: the
transaction spends the funding outpoint) -/
def ChOk (x : Nat) (fts : List Nat) (P : Prop) : Change → Prop
  | .fundingConfirmed op => op.1 = x ∧ x ∈ fts
  | .unilateral txid _ _ _ => txid = x ∧ P
  | .htlcSpent _ sl => sl.1 = x
  | _ => True

def SpendsFo (t : State) (tx : Tx) : Prop := ∃ inp ∈ tx.inputs, some inp = t.fundingOutpoint

structure TI (t : State) (cs : List Change) (tx : Tx) (d : Scratch) : Prop where
  tr : ∃ new a r, d.changes = cs ++ new ∧ applyAll applyForward t new = some (d.t, a, r) ∧
    ∀ ch ∈ new, ChOk tx.txid t.fundingTxids (SpendsFo t tx) ch
  cin : d.closingIn.isSome → SpendsFo t tx

theorem TI.addChange {t : State} {cs : List Change} {tx : Tx} {d d' : Scratch} {ch : Change}
    (q : TI t cs tx d) (hs : ChOk tx.txid t.fundingTxids (SpendsFo t tx) ch)
    (h : d.addChange ch = some d') : TI t cs tx d' := by
  obtain ⟨⟨new, a, r, q1, q2, q3⟩, q4⟩ := q
  obtain ⟨x, hx, rfl⟩ := Option.map_eq_some_iff.mp h
  obtain ⟨t', a', r'⟩ := x
  refine ⟨⟨new ++ [ch], a ++ (a' ++ []), r ++ (r' ++ []), by simp [q1], ?_, ?_⟩, q4⟩
  · simp only [applyAll_append, q2, applyAll_single, hx, Option.map_some]
  · intro c hc
    rcases List.mem_append.mp hc with hc | hc
    · exact q3 c hc
    · simp only [List.mem_singleton] at hc; subst hc; exact hs

theorem TI.addChanges {t : State} {cs : List Change} {tx : Tx} {l : List Change} {d d' : Scratch}
    (q : TI t cs tx d) (hs : ∀ ch ∈ l, ChOk tx.txid t.fundingTxids (SpendsFo t tx) ch)
    (h : addChanges d l = some d') : TI t cs tx d' := by
  induction l generalizing d with
  | nil => simp only [Monitor.addChanges, Option.some.injEq] at h; subst h; exact q
  | cons c l ih =>
    simp only [Monitor.addChanges] at h
    cases e1 : d.addChange c with
    | none => simp [e1] at h
    | some d1 =>
      simp only [e1] at h
      exact ih (q.addChange (hs c (by simp)) e1) (fun ch hc => hs ch (by simp [hc])) h

theorem TI.onInput {t : State} {cs : List Change} {tx : Tx} {d d' : Scratch} {inp : OutPoint}
    (q : TI t cs tx d) (hc : d.t.core = t.core) (hm : inp ∈ tx.inputs)
    (h : onInput d inp = some d') : TI t cs tx d' ∧ d'.t.core = t.core := by
  rw [onInput_eq] at h
  obtain ⟨d1, e1, h⟩ := Option.bind_eq_some_iff.mp h
  obtain ⟨d3, e3, e4⟩ := Option.bind_eq_some_iff.mp h
  have q1 : TI t cs tx d1 ∧ d1.t.core = t.core := by
    simp only [in1] at e1
    split at e1
    · exact ⟨q.addChange (ch := .fundingInputSpent inp) trivial e1,
        (addChange_simple_core (ch := .fundingInputSpent inp) trivial e1).trans hc⟩
    · cases e1; exact ⟨q, hc⟩
  have hfo : d1.t.fundingOutpoint = t.fundingOutpoint := by
    have := q1.2
    simp only [State.core, Prod.mk.injEq] at this
    exact this.2.2.2.1
  have q2 : TI t cs tx (in2 inp d1) ∧ (in2 inp d1).t.core = t.core := by
    simp only [in2]
    split
    · rename_i hh
      exact ⟨⟨q1.1.tr, fun _ => ⟨inp, hm, hfo ▸ hh⟩⟩, q1.2⟩
    · exact q1
  have q3 : TI t cs tx d3 ∧ d3.t.core = t.core := by
    rw [in3_cls] at e3
    generalize cls (in2 inp d1).t.closing inp = k at e3
    unfold in3' at e3
    split at e3
    · exact ⟨q2.1.addChange (ch := .ourSpent inp.2) trivial e3,
        (addChange_simple_core (ch := .ourSpent inp.2) trivial e3).trans q2.2⟩
    · cases e3; exact ⟨⟨q2.1.tr, q2.1.cin⟩, q2.2⟩
    · exact ⟨q2.1.addChange (ch := .secondSpent inp) trivial e3,
        (addChange_simple_core (ch := .secondSpent inp) trivial e3).trans q2.2⟩
    · cases e3; exact q2
  simp only [in4] at e4
  split at e4
  · cases e4
  · cases e4
    exact ⟨⟨q3.1.tr, q3.1.cin⟩, q3.2⟩

theorem TI.onInputs {t : State} {cs : List Change} {tx : Tx} {is : List OutPoint} {d d' : Scratch}
    (q : TI t cs tx d) (hc : d.t.core = t.core) (hm : ∀ inp ∈ is, inp ∈ tx.inputs)
    (h : onInputs d is = some d') : TI t cs tx d' ∧ d'.t.core = t.core := by
  induction is generalizing d with
  | nil => simp only [Monitor.onInputs, Option.some.injEq] at h; subst h; exact ⟨q, hc⟩
  | cons i is ih =>
    simp only [Monitor.onInputs] at h
    cases e1 : Monitor.onInput d i with
    | none => simp [e1] at h
    | some d1 =>
      simp only [e1] at h
      obtain ⟨q1, c1⟩ := q.onInput hc (hm i (by simp)) e1
      exact ih q1 c1 (fun inp h' => hm inp (by simp [h'])) h

theorem position_some_mem {v : Nat} {l : List Nat} {i : Nat} (h : position v l = some i) :
    v ∈ l := by
  induction l generalizing i with
  | nil => simp [position] at h
  | cons x xs ih =>
    simp only [position] at h
    split at h
    · rename_i hx; simp [hx]
    · obtain ⟨j, hj, _⟩ := Option.map_eq_some_iff.mp h
      simp [ih hj]

/-- the temporary state after a transaction is the forward run of the changes it emitted, and
these changes have the expected shape -/
theorem onTx_trace {t t' : State} {cs cs' : List Change} {tx : Tx}
    (h : onTx t cs tx = some (t', cs')) :
    ∃ new a r, cs' = cs ++ new ∧ applyAll applyForward t new = some (t', a, r) ∧
      ∀ ch ∈ new, ChOk tx.txid t.fundingTxids (SpendsFo t tx) ch := by
  rw [onTx_eq] at h
  obtain ⟨dE, hE, hh⟩ := Option.map_eq_some_iff.mp h
  simp only [Prod.mk.injEq] at hh
  obtain ⟨rfl, rfl⟩ := hh
  obtain ⟨d, hd, hE⟩ := Option.bind_eq_some_iff.mp hE
  have q0 : TI t cs tx { t := t, changes := cs, inputNum := 0, closingIn := none, spentHtlc := [] } :=
    ⟨⟨[], [], [], by simp, rfl, by simp⟩, by simp⟩
  obtain ⟨qd, cd⟩ := q0.onInputs rfl (fun _ h => h) hd
  unfold txEnd at hE
  obtain ⟨d1, e1, hE⟩ := Option.bind_eq_some_iff.mp hE
  obtain ⟨d2, e2, hE⟩ := Option.bind_eq_some_iff.mp hE
  obtain ⟨d3, e3, e4⟩ := Option.bind_eq_some_iff.mp hE
  have x1 : d1 = d := by
    simp only [tx1] at e1
    split at e1
    · cases e1
    · cases e1; rfl
  subst x1
  have hft : d1.t.fundingTxids = t.fundingTxids := by
    have := cd
    simp only [State.core, Prod.mk.injEq] at this
    exact this.2.1
  have q2 : TI t cs tx d2 := by
    simp only [tx2] at e2
    split at e2
    · rename_i ind hp
      split at e2
      · cases e2
      · split at e2
        · rename_i vout _ _
          exact qd.addChange (ch := .fundingConfirmed (tx.txid, vout))
            ⟨rfl, hft ▸ position_some_mem hp⟩ e2
        · cases e2
    · cases e2; exact qd
  have q3 : TI t cs tx d3 := by
    simp only [tx3] at e3
    split at e3
    · rename_i fo hfo
      have hP : SpendsFo t tx := q2.cin (by simp [hfo])
      split at e3
      · rename_i our htlcs _
        exact q2.addChange (ch := .unilateral tx.txid fo our htlcs) ⟨rfl, hP⟩ e3
      · exact q2.addChange (ch := .mutual tx.txid fo) trivial e3
    · cases e3; exact q2
  have q4 : TI t cs tx dE := by
    simp only [tx4] at e4
    refine q3.addChanges ?_ e4
    intro ch hch
    obtain ⟨p, _, rfl⟩ := List.mem_map.mp hch
    exact rfl
  exact q4.tr

/-! ### `Eff`: effect of one transaction on funding outpoint and closing -/

def ClKeep (x : Nat) (a b : Option Closing) : Prop :=
  (a = none ∧ b = none) ∨ ∃ ct ct', a = some ct ∧ b = some ct' ∧ ct'.base = ct.base ∧
    (∀ op ∈ ct.keys, op ∈ ct'.keys) ∧ ∀ op ∈ ct'.keys, op ∈ ct.keys ∨ op.1 = x

def ClReset (x : Nat) (P : Prop) (b : Option Closing) : Prop :=
  P ∧ ∃ c', b = some c' ∧ c'.txid = x ∧ ∀ op ∈ c'.keys, op.1 = x

theorem ClKeep.refl (x : Nat) (a : Option Closing) : ClKeep x a a := by
  cases a with
  | none => exact Or.inl ⟨rfl, rfl⟩
  | some c => exact Or.inr ⟨c, c, rfl, rfl, rfl, fun _ h => h, fun _ h => Or.inl h⟩

theorem ClKeep.of_core {x : Nat} {c c' : Closing} (h : c'.core = c.core) :
    ClKeep x (some c) (some c') := by
  obtain ⟨b, k⟩ := (core_eq_iff _ _).mp h
  exact Or.inr ⟨c, c', rfl, rfl, b, fun _ h => k ▸ h, fun _ h => Or.inl (k ▸ h)⟩

structure Eff (x : Nat) (P : Prop) (t t' : State) : Prop where
  fi : t'.fundingInputs = t.fundingInputs
  ft : t'.fundingTxids = t.fundingTxids
  fv : t'.fundingVouts = t.fundingVouts
  fo : t'.fundingOutpoint = t.fundingOutpoint ∨
    (x ∈ t.fundingTxids ∧ ∃ v, t'.fundingOutpoint = some (x, v))
  cl : ClKeep x t.closing t'.closing ∨ ClReset x P t'.closing

theorem Eff.refl (x : Nat) (P : Prop) (t : State) : Eff x P t t :=
  ⟨rfl, rfl, rfl, Or.inl rfl, Or.inl (ClKeep.refl _ _)⟩

theorem Eff.trans {x : Nat} {P : Prop} {t t1 t2 : State} (e1 : Eff x P t t1) (e2 : Eff x P t1 t2) :
    Eff x P t t2 := by
  refine ⟨e2.fi.trans e1.fi, e2.ft.trans e1.ft, e2.fv.trans e1.fv, ?_, ?_⟩
  · rcases e2.fo with h | ⟨hx, v, h⟩
    · rw [h]; exact e1.fo
    · exact Or.inr ⟨e1.ft ▸ hx, v, h⟩
  · rcases e2.cl with k2 | r2
    · rcases e1.cl with k1 | ⟨hP, c', hc', htx, hk⟩
      · left
        rcases k2 with ⟨a2, b2⟩ | ⟨c1, c2, a2, b2, hb2, hs2, hk2⟩
        · rcases k1 with ⟨a1, b1⟩ | ⟨c0, c1', a1, b1, _⟩
          · exact Or.inl ⟨a1, b2⟩
          · rw [a2] at b1; cases b1
        · rcases k1 with ⟨a1, b1⟩ | ⟨c0, c1', a1, b1, hb1, hs1, hk1⟩
          · rw [a2] at b1; cases b1
          · rw [a2] at b1; cases b1
            refine Or.inr ⟨c0, c2, a1, b2, hb2.trans hb1, fun op h => hs2 op (hs1 op h), ?_⟩
            intro op h
            rcases hk2 op h with h | h
            · exact hk1 op h
            · exact Or.inr h
      · right
        rcases k2 with ⟨a2, _⟩ | ⟨c1, c2, a2, b2, hb2, hs2, hk2⟩
        · rw [a2] at hc'; cases hc'
        · rw [a2] at hc'; cases hc'
          refine ⟨hP, c2, b2, ?_, ?_⟩
          · have := congrArg (fun k => k.1) hb2
            simp only [Closing.base] at this
            rw [this]; exact htx
          · intro op h
            rcases hk2 op h with h | h
            · exact hk op h
            · exact h
    · exact Or.inr r2

theorem Eff.step {x : Nat} {P : Prop} {t t' : State} {ch : Change} {a r : List OutPoint}
    (hs : ChOk x t.fundingTxids P ch) (h : applyForward t ch = some (t', a, r)) : Eff x P t t' := by
  cases ch with
  | fundingConfirmed op =>
    simp only [applyForward, Option.some.injEq, Prod.mk.injEq] at h
    obtain ⟨rfl, _, _⟩ := h
    obtain ⟨h1, h2⟩ := hs
    exact ⟨rfl, rfl, rfl, Or.inr ⟨h2, op.2, by simp [← h1]⟩, Or.inl (ClKeep.refl _ _)⟩
  | fundingInputSpent op =>
    simp only [applyForward, Option.some.injEq, Prod.mk.injEq] at h
    obtain ⟨rfl, _, _⟩ := h
    exact ⟨rfl, rfl, rfl, Or.inl rfl, Or.inl (ClKeep.refl _ _)⟩
  | «mutual» txid f =>
    simp only [applyForward, Option.some.injEq, Prod.mk.injEq] at h
    obtain ⟨rfl, _, _⟩ := h
    exact ⟨rfl, rfl, rfl, Or.inl rfl, Or.inl (ClKeep.refl _ _)⟩
  | unilateral txid f our htlcs =>
    simp only [applyForward, Option.some.injEq, Prod.mk.injEq] at h
    obtain ⟨rfl, _, _⟩ := h
    obtain ⟨h1, h2⟩ := hs
    refine ⟨rfl, rfl, rfl, Or.inl rfl, Or.inr ⟨h2, _, rfl, h1, ?_⟩⟩
    intro op hop
    simp [Closing.keys, Closing.new] at hop
  | ourSpent v =>
    simp only [applyForward] at h
    cases hc : t.closing with
    | none => simp [hc] at h
    | some ct =>
      simp only [hc] at h
      obtain ⟨ct', hct', hh⟩ := Option.map_eq_some_iff.mp h
      simp only [Prod.mk.injEq] at hh
      obtain ⟨rfl, _, _⟩ := hh
      refine ⟨rfl, rfl, rfl, Or.inl rfl, Or.inl ?_⟩
      rw [hc]
      exact ClKeep.of_core (setOurSpent_some hct').2
  | secondSpent op =>
    simp only [applyForward] at h
    cases hc : t.closing with
    | none => simp [hc] at h
    | some ct =>
      simp only [hc] at h
      obtain ⟨ct', hct', hh⟩ := Option.map_eq_some_iff.mp h
      simp only [Prod.mk.injEq] at hh
      obtain ⟨rfl, _, _⟩ := hh
      refine ⟨rfl, rfl, rfl, Or.inl rfl, Or.inl ?_⟩
      rw [hc]
      exact ClKeep.of_core (setSecondSpent_some hct').2
  | htlcSpent v sl =>
    simp only [applyForward] at h
    cases hc : t.closing with
    | none => simp [hc] at h
    | some ct =>
      simp only [hc] at h
      obtain ⟨ct', hct', hh⟩ := Option.map_eq_some_iff.mp h
      simp only [Prod.mk.injEq] at hh
      obtain ⟨rfl, _, _⟩ := hh
      refine ⟨rfl, rfl, rfl, Or.inl rfl, Or.inl ?_⟩
      rw [hc]
      obtain ⟨b, k⟩ := (core_eq_iff _ _).mp (setHtlcSpent_some hct').2
      have hsl : sl.1 = x := hs
      refine Or.inr ⟨ct, ct'.addSecond sl, rfl, rfl, b, ?_, ?_⟩
      · intro op hop
        have hop' : op ∈ ct'.keys := k ▸ hop
        simp only [Closing.addSecond, Closing.keys, List.map_append, List.mem_append]
        exact Or.inl hop'
      · intro op hop
        simp only [Closing.addSecond, Closing.keys, List.map_append, List.mem_append,
          List.map_cons, List.map_nil, List.mem_singleton] at hop
        rcases hop with hop | hop
        · have hop' : op ∈ ct'.keys := hop
          rw [k] at hop'
          exact Or.inl hop'
        · exact Or.inr (hop ▸ hsl)

theorem Eff.of_applyAll {x : Nat} {P : Prop} {fts : List Nat} {new : List Change} {t t' : State}
    {a r : List OutPoint} (hs : ∀ ch ∈ new, ChOk x fts P ch) (hf : t.fundingTxids = fts)
    (h : applyAll applyForward t new = some (t', a, r)) : Eff x P t t' := by
  induction new generalizing t a r with
  | nil =>
    simp only [applyAll, Option.some.injEq, Prod.mk.injEq] at h
    obtain ⟨rfl, _, _⟩ := h
    exact Eff.refl _ _ _
  | cons c cs ih =>
    simp only [applyAll] at h
    cases hf1 : applyForward t c with
    | none => simp [hf1] at h
    | some d =>
      obtain ⟨sa, a1, r1⟩ := d
      simp only [hf1] at h
      cases hrest : applyAll applyForward sa cs with
      | none => simp [hrest] at h
      | some d2 =>
        obtain ⟨sx, a2, r2⟩ := d2
        simp only [hrest, Option.some.injEq, Prod.mk.injEq] at h
        obtain ⟨rfl, _, _⟩ := h
        have e1 : Eff x P t sa := Eff.step (hf ▸ hs c (by simp)) hf1
        have e2 := ih (fun ch hc => hs ch (by simp [hc])) (e1.ft.trans hf) hrest
        exact e1.trans e2

theorem onTx_eff {t t' : State} {cs cs' : List Change} {tx : Tx}
    (h : onTx t cs tx = some (t', cs')) : Eff tx.txid (SpendsFo t tx) t t' := by
  obtain ⟨new, a, r, _, h2, h3⟩ := onTx_trace h
  exact Eff.of_applyAll h3 rfl h2

/-! ### structural validity of a block and its preservation along the run -/

/-- topological order: no input refers to the transaction itself or to a later one -/
def Topo : List Tx → Prop
  | [] => True
  | tx :: rest => (∀ inp ∈ tx.inputs, inp.1 ≠ tx.txid ∧ ∀ t ∈ rest, inp.1 ≠ t.txid) ∧ Topo rest

/-- no outpoint is spent by two different transactions of the block -/
def NoDoubleSpend : List Tx → Prop
  | [] => True
  | tx :: rest => (∀ inp ∈ tx.inputs, ∀ t ∈ rest, inp ∉ t.inputs) ∧ NoDoubleSpend rest

/-- at most one transaction of the block has a funding txid of the channel -/
def FundOnce (fts : List Nat) : List Tx → Prop
  | [] => True
  | tx :: rest => (tx.txid ∈ fts → ∀ t ∈ rest, t.txid ∉ fts) ∧ FundOnce fts rest

structure Ok (t : State) (txs : List Tx) : Prop where
  c1 : t.fundingOutpoint.isSome → ∀ tx ∈ txs, tx.txid ∉ t.fundingTxids
  c2 : t.closing.isSome → ∀ tx ∈ txs, ∀ inp ∈ tx.inputs, some inp ≠ t.fundingOutpoint
  c4 : t.closing.isSome → t.fundingOutpoint.isSome
  once : FundOnce t.fundingTxids txs
  nds : NoDoubleSpend txs

theorem Ok.fo_eq {t t' : State} {tx : Tx} {rest : List Tx} (ok : Ok t (tx :: rest))
    (e : Eff tx.txid (SpendsFo t tx) t t') (h : t.fundingOutpoint.isSome) :
    t'.fundingOutpoint = t.fundingOutpoint := by
  rcases e.fo with h1 | ⟨hx, _⟩
  · exact h1
  · exact absurd hx (ok.c1 h tx (by simp))

theorem SpendsFo.isSome {t : State} {tx : Tx} (h : SpendsFo t tx) : t.fundingOutpoint.isSome := by
  obtain ⟨inp, _, h⟩ := h
  rw [← h]; rfl

theorem ClKeep.isSome {x : Nat} {a b : Option Closing} (k : ClKeep x a b) (h : b.isSome) :
    a.isSome := by
  rcases k with ⟨_, b1⟩ | ⟨c, _, a1, _⟩
  · rw [b1] at h; cases h
  · rw [a1]; rfl

theorem Ok.step {t t' : State} {tx : Tx} {rest : List Tx} (ok : Ok t (tx :: rest))
    (e : Eff tx.txid (SpendsFo t tx) t t') : Ok t' rest := by
  refine ⟨?_, ?_, ?_, ?_, ok.nds.2⟩
  · intro h tx' hm
    rw [e.ft]
    rcases e.fo with h1 | ⟨hx, _⟩
    · exact ok.c1 (h1 ▸ h) tx' (by simp [hm])
    · exact ok.once.1 hx tx' hm
  · intro h tx' hm inp hi
    rcases e.cl with k | ⟨hP, _⟩
    · have h0 := k.isSome h
      rw [ok.fo_eq e (ok.c4 h0)]
      exact ok.c2 h0 tx' (by simp [hm]) inp hi
    · rw [ok.fo_eq e hP.isSome]
      obtain ⟨inp0, hm0, h0⟩ := hP
      rw [← h0]
      intro heq
      cases heq
      exact ok.nds.1 inp hm0 tx' hm hi
  · intro h
    rcases e.cl with k | ⟨hP, _⟩
    · have h0 := ok.c4 (k.isSome h)
      rw [ok.fo_eq e h0]; exact h0
    · rw [ok.fo_eq e hP.isSome]; exact hP.isSome
  · rw [e.ft]; exact ok.once.2

theorem Fut.nil (t : State) : Fut [] t t :=
  ⟨Or.inl rfl, fun h cn hn => (by rw [h] at hn; cases hn),
    fun ct h => ⟨ct, h, rfl, fun _ h => h, fun _ h => Or.inl h⟩⟩

theorem Fut.cons {t t' n : State} {tx : Tx} {rest : List Tx} {L : List Nat}
    (ok : Ok t (tx :: rest)) (e : Eff tx.txid (SpendsFo t tx) t t') (f : Fut L t' n) :
    Fut (tx.txid :: L) t n := by
  refine ⟨?_, ?_, ?_⟩
  · rcases e.fo with h1 | ⟨hx, v, hv⟩
    · rw [← h1]
      rcases f.fo with g | ⟨g1, op, g2, g3⟩
      · exact Or.inl g
      · exact Or.inr ⟨g1, op, g2, by simp [g3]⟩
    · have hnone : t.fundingOutpoint = none := by
        cases h : t.fundingOutpoint with
        | none => rfl
        | some o => exact absurd hx (ok.c1 (by simp [h]) tx (by simp))
      rcases f.fo with g | ⟨g1, _⟩
      · exact Or.inr ⟨hnone, (tx.txid, v), g.trans hv, by simp⟩
      · rw [hv] at g1; cases g1
  · intro ht cn hn
    rcases e.cl with k | ⟨_, c', hc', htx, hk⟩
    · rcases k with ⟨_, b1⟩ | ⟨c, _, a1, _⟩
      · obtain ⟨g1, g2⟩ := f.cl0 b1 cn hn
        exact ⟨by simp [g1], fun op hop => by simp [g2 op hop]⟩
      · rw [ht] at a1; cases a1
    · obtain ⟨cn', hn', hb, _, hk'⟩ := f.cl1 c' hc'
      rw [hn] at hn'; cases hn'
      constructor
      · have := congrArg (fun k => k.1) hb
        simp only [Closing.base] at this
        rw [this, htx]; simp
      · intro op hop
        rcases hk' op hop with h | h
        · simp [hk op h]
        · simp [h]
  · intro ct ht
    rcases e.cl with k | ⟨hP, _⟩
    · rcases k with ⟨a1, _⟩ | ⟨c, c', a1, b1, hb, hs, hk⟩
      · rw [ht] at a1; cases a1
      · rw [ht] at a1; cases a1
        obtain ⟨cn, hn, hbn, hsn, hkn⟩ := f.cl1 c' b1
        refine ⟨cn, hn, hbn.trans hb, fun op h => hsn op (hs op h), ?_⟩
        intro op hop
        rcases hkn op hop with h | h
        · rcases hk op h with h | h
          · exact Or.inl h
          · exact Or.inr (by simp [h])
        · exact Or.inr (by simp [h])
    · obtain ⟨inp, hm, h0⟩ := hP
      exact absurd h0 (ok.c2 (by simp [ht]) tx (by simp) inp hm)

structure SameConsts (t n : State) : Prop where
  fi : n.fundingInputs = t.fundingInputs
  ft : n.fundingTxids = t.fundingTxids
  fv : n.fundingVouts = t.fundingVouts

/-- the final temporary state differs from `t` only by items keyed by txids of the block -/
theorem Fut.of_run {t n : State} {cs csn : List Change} {txs : List Tx} (ok : Ok t txs)
    (h : detectFrom t cs txs = some (n, csn)) :
    Fut (txs.map (·.txid)) t n ∧ SameConsts t n := by
  induction txs generalizing t cs with
  | nil =>
    simp only [Monitor.detectFrom, Option.some.injEq, Prod.mk.injEq] at h
    obtain ⟨rfl, rfl⟩ := h
    exact ⟨Fut.nil _, ⟨rfl, rfl, rfl⟩⟩
  | cons tx rest ih =>
    simp only [Monitor.detectFrom] at h
    cases e : Monitor.onTx t cs tx with
    | none => simp [e] at h
    | some x =>
      obtain ⟨t', cs'⟩ := x
      simp only [e] at h
      have eff := onTx_eff e
      obtain ⟨f, sc⟩ := ih (ok.step eff) h
      exact ⟨Fut.cons ok eff f, ⟨sc.fi.trans eff.fi, sc.ft.trans eff.ft, sc.fv.trans eff.fv⟩⟩

theorem Mid.init {L : List Nat} {t n u : State} (f : Fut L t n) (sc : SameConsts t n)
    (hu : u.core = n.core) : Mid t n u := by
  have hcl := closing_core_cases hu
  simp only [State.core, Prod.mk.injEq] at hu
  obtain ⟨h1, h2, h3, h4, _⟩ := hu
  refine ⟨h1.trans sc.fi, h2.trans sc.ft, h3.trans sc.fv, ?_, ?_⟩
  · rcases f.fo with g | ⟨g, _⟩
    · exact Or.inl (h4.trans g)
    · exact Or.inr ⟨g, h4⟩
  · cases ht : t.closing with
    | none =>
      rcases hcl with ⟨e, _⟩ | ⟨cu, cn, e, e', hcc⟩
      · rw [e]; trivial
      · rw [e]
        obtain ⟨b, k⟩ := (core_eq_iff _ _).mp hcc
        exact ⟨cn, e', b, fun op h => k ▸ h⟩
    | some ct =>
      obtain ⟨cn, hn, hb, hs, _⟩ := f.cl1 ct ht
      rcases hcl with ⟨_, e'⟩ | ⟨cu, cn', e, e', hcc⟩
      · rw [hn] at e'; cases e'
      · rw [hn] at e'; cases e'
        rw [e]
        obtain ⟨b, k⟩ := (core_eq_iff _ _).mp hcc
        refine ⟨b.trans hb, fun op h => ?_, fun op h => Or.inr ⟨cn, hn, k ▸ h⟩⟩
        rw [k]; exact hs op h

theorem Topo.avoid {tx : Tx} {rest : List Tx} (h : Topo (tx :: rest)) :
    ∀ inp ∈ tx.inputs, inp.1 ∉ (tx :: rest).map (·.txid) := by
  intro inp hi hm
  obtain ⟨h1, h2⟩ := h.1 inp hi
  simp only [List.map_cons, List.mem_cons, List.mem_map] at hm
  rcases hm with hm | ⟨t, ht, hm⟩
  · exact h1 hm
  · exact h2 t ht hm.symm

/-- **re-detection**: a run from any state lying between `t` and the final state `n` of the
original run detects the same change list -/
theorem stable_run {t n u : State} {cs csn : List Change} {txs : List Tx} (ok : Ok t txs)
    (topo : Topo txs) (h : detectFrom t cs txs = some (n, csn)) (m : Mid t n u) :
    ∃ un, detectFrom u cs txs = some (un, csn) := by
  induction txs generalizing t u cs with
  | nil =>
    simp only [Monitor.detectFrom, Option.some.injEq, Prod.mk.injEq] at h
    obtain ⟨_, rfl⟩ := h
    exact ⟨u, rfl⟩
  | cons tx rest ih =>
    have f := (Fut.of_run ok h).1
    simp only [Monitor.detectFrom] at h
    cases e : Monitor.onTx t cs tx with
    | none => simp [e] at h
    | some x =>
      obtain ⟨t', cs'⟩ := x
      simp only [e] at h
      obtain ⟨u', hu', m'⟩ := m.onTx f topo.avoid e
      obtain ⟨un, hun⟩ := ih (ok.step (onTx_eff e)) topo.2 h m'
      exact ⟨un, by simp [Monitor.detectFrom, hu', hun]⟩

/-! ### from the final temporary state to the post-block state -/

theorem detectFrom_trace {t n : State} {cs csn : List Change} {txs : List Tx}
    (h : detectFrom t cs txs = some (n, csn)) :
    ∃ new a r, csn = cs ++ new ∧ applyAll applyForward t new = some (n, a, r) := by
  induction txs generalizing t cs with
  | nil =>
    simp only [Monitor.detectFrom, Option.some.injEq, Prod.mk.injEq] at h
    obtain ⟨rfl, rfl⟩ := h
    exact ⟨[], [], [], by simp, rfl⟩
  | cons tx rest ih =>
    simp only [Monitor.detectFrom] at h
    cases e : Monitor.onTx t cs tx with
    | none => simp [e] at h
    | some x =>
      obtain ⟨t', cs'⟩ := x
      simp only [e] at h
      obtain ⟨new1, a1, r1, rfl, h1, _⟩ := onTx_trace e
      obtain ⟨new2, a2, r2, rfl, h2⟩ := ih h
      exact ⟨new1 ++ new2, a1 ++ a2, r1 ++ r2, by simp, by simp only [applyAll_append, h1, h2]⟩

theorem applyAll_core {s s' s1 s1' : State} {cs : List Change} {a r a' r' : List OutPoint}
    (hc : s.core = s'.core) (h : applyAll applyForward s cs = some (s1, a, r))
    (h' : applyAll applyForward s' cs = some (s1', a', r')) : s1.core = s1'.core := by
  induction cs generalizing s s' a r a' r' with
  | nil =>
    simp only [applyAll, Option.some.injEq, Prod.mk.injEq] at h h'
    obtain ⟨rfl, _, _⟩ := h
    obtain ⟨rfl, _, _⟩ := h'
    exact hc
  | cons c cs ih =>
    simp only [applyAll] at h h'
    have k := applyForward_core hc c
    cases hf : applyForward s c with
    | none => simp [hf] at h
    | some d =>
      cases hf' : applyForward s' c with
      | none => simp [hf'] at h'
      | some d' =>
        obtain ⟨sa, a1, r1⟩ := d
        obtain ⟨sa', a1', r1'⟩ := d'
        rw [hf, hf'] at k
        simp only [Option.map_some, Option.some.injEq] at k
        simp only [hf] at h
        simp only [hf'] at h'
        cases hrest : applyAll applyForward sa cs with
        | none => simp [hrest] at h
        | some d2 =>
          cases hrest' : applyAll applyForward sa' cs with
          | none => simp [hrest'] at h'
          | some d2' =>
            obtain ⟨sx, a2, r2⟩ := d2
            obtain ⟨sx', a2', r2'⟩ := d2'
            simp only [hrest, Option.some.injEq, Prod.mk.injEq] at h
            simp only [hrest', Option.some.injEq, Prod.mk.injEq] at h'
            obtain ⟨rfl, _, _⟩ := h
            obtain ⟨rfl, _, _⟩ := h'
            exact ih k hrest hrest'

/-- **stability of detection for structurally valid blocks** -/
theorem stable_of_ok {s s1 : State} {txs : List Tx} {cs : List Change} {a r : List OutPoint}
    (ok : Ok { s with sawBlock := true } txs) (topo : Topo txs)
    (hdet : detect { s with sawBlock := true } txs = some cs)
    (hadd : addBlock s txs = some (s1, a, r)) :
    detect { s1 with sawBlock := true } txs = some cs := by
  obtain ⟨s2, h2, hc⟩ := addBlock_applyAll hdet hadd
  obtain ⟨x, hx, hx2⟩ := Option.map_eq_some_iff.mp hdet
  obtain ⟨n, csn⟩ := x
  simp only at hx2
  subst hx2
  obtain ⟨new, a0, r0, hnew, htr⟩ := detectFrom_trace hx
  simp only [List.nil_append] at hnew
  subst hnew
  have hcore : n.core = s2.core :=
    applyAll_core (s := { s with sawBlock := true })
      (s' := { s with sawBlock := true, height := s.height + 1 }) rfl htr h2
  obtain ⟨f, sc⟩ := Fut.of_run ok hx
  have m : Mid { s with sawBlock := true } n { s1 with sawBlock := true } :=
    Mid.init f sc (hc.trans hcore.symm)
  obtain ⟨un, hun⟩ := stable_run ok topo hx m
  simp [detect, hun]

/-- a `fundingConfirmed` change is only detected for a funding transaction of the block -/
theorem fundingConfirmed_of_detectFrom {t n : State} {cs csn : List Change} {txs : List Tx}
    (h : detectFrom t cs txs = some (n, csn)) (op : OutPoint)
    (hop : Change.fundingConfirmed op ∈ csn) :
    Change.fundingConfirmed op ∈ cs ∨ ∃ tx ∈ txs, tx.txid ∈ t.fundingTxids := by
  induction txs generalizing t cs with
  | nil =>
    simp only [Monitor.detectFrom, Option.some.injEq, Prod.mk.injEq] at h
    obtain ⟨rfl, rfl⟩ := h
    exact Or.inl hop
  | cons tx rest ih =>
    simp only [Monitor.detectFrom] at h
    cases e : Monitor.onTx t cs tx with
    | none => simp [e] at h
    | some x =>
      obtain ⟨t', cs'⟩ := x
      simp only [e] at h
      obtain ⟨new1, a1, r1, rfl, _, h3⟩ := onTx_trace e
      rcases ih h with h1 | ⟨tx', hm, h1⟩
      · rcases List.mem_append.mp h1 with h1 | h1
        · exact Or.inl h1
        · exact Or.inr ⟨tx, by simp, (h3 _ h1).2⟩
      · exact Or.inr ⟨tx', by simp [hm], (onTx_eff e).ft ▸ h1⟩

end VlsModel.Monitor
