import VlsModel.Lemmas.Monitor
/-
Stability of detection (C14): which part of the monitor state the push listener reads.

* `Closing.core` / `State.core`: the detection-relevant projection of the state (funding inputs,
  funding txids/vouts, funding outpoint, and of the closing everything but the spent flags);
* `applyForward_core`, `onTx_core`, `detectFrom_core`: detection (change list and success) is a
  function of that projection;
* `Change.simple`: the changes that leave the projection unchanged;
* `stable_of_simple`: a block whose detected change list is simple is re-detected identically on
  the post-block state.
-/
namespace VlsModel.Monitor

/-- detection-relevant part of a closing: everything but the spent flags -/
def Closing.core (c : Closing) : Nat × Option Nat × List Nat × Nat × List OutPoint :=
  (c.txid, c.our.map (·.1), c.htlcOutputs, c.htlcSpents.length, c.second.map (·.1))

/-- detection-relevant part of the state -/
def State.core (s : State) :
    List OutPoint × List Nat × List Nat × Option OutPoint ×
      Option (Nat × Option Nat × List Nat × Nat × List OutPoint) :=
  (s.fundingInputs, s.fundingTxids, s.fundingVouts, s.fundingOutpoint, s.closing.map Closing.core)

theorem includesOur_core {c c' : Closing} (h : c.core = c'.core) (op : OutPoint) :
    c.includesOur op = c'.includesOur op := by
  simp only [Closing.core, Prod.mk.injEq] at h
  obtain ⟨h1, h2, _⟩ := h
  simp only [Closing.includesOur, h1, h2]

theorem includesHtlc_core {c c' : Closing} (h : c.core = c'.core) (op : OutPoint) :
    c.includesHtlc op = c'.includesHtlc op := by
  simp only [Closing.core, Prod.mk.injEq] at h
  obtain ⟨h1, _, h3, _⟩ := h
  simp only [Closing.includesHtlc, h1, h3]

theorem includesSecond_eq (c : Closing) (op : OutPoint) :
    c.includesSecond op = (c.second.map (·.1)).any (· == op) := by
  simp [Closing.includesSecond, List.any_map, Function.comp_def]

theorem includesSecond_core {c c' : Closing} (h : c.core = c'.core) (op : OutPoint) :
    c.includesSecond op = c'.includesSecond op := by
  simp only [Closing.core, Prod.mk.injEq] at h
  obtain ⟨_, _, _, _, h5⟩ := h
  simp only [includesSecond_eq, h5]

theorem setOurSpent_core (c : Closing) (v : Nat) (b : Bool) :
    (c.setOurSpent v b).map Closing.core =
      if c.our.map (·.1) = some v then some c.core else none := by
  unfold Closing.setOurSpent
  cases h : c.our with
  | none => simp
  | some p =>
    obtain ⟨i, f⟩ := p
    by_cases hi : i = v <;> simp [hi, Closing.core, h]

theorem setHtlcSpent_core (c : Closing) (v : Nat) (b : Bool) :
    (c.setHtlcSpent v b).map Closing.core =
      match position v c.htlcOutputs with
      | none => none
      | some i => if i < c.htlcSpents.length then some c.core else none := by
  unfold Closing.setHtlcSpent
  cases h : position v c.htlcOutputs with
  | none => simp
  | some i =>
    by_cases hi : i < c.htlcSpents.length <;> simp [hi, Closing.core]

theorem setFirst_keys (op : OutPoint) (b : Bool) (l : List (OutPoint × Bool)) :
    (setFirst op b l).map (fun l' => l'.map (·.1)) =
      if op ∈ l.map (·.1) then some (l.map (·.1)) else none := by
  induction l with
  | nil => simp [setFirst]
  | cons h t ih =>
    simp only [setFirst]
    by_cases hh : h.1 = op
    · simp [hh]
    · simp only [hh, if_false, Option.map_map]
      have : (fun l' : List (OutPoint × Bool) => l'.map (·.1)) ∘ (fun x => h :: x) =
          (fun k => h.1 :: k) ∘ (fun l' : List (OutPoint × Bool) => l'.map (·.1)) := by
        funext x; simp
      rw [this, ← Option.map_map, ih]
      by_cases hm : op ∈ t.map (·.1)
      · simp [hm]
      · have hne : ¬ op = h.1 := fun e => hh e.symm
        simp [hm, hne]

theorem setSecondSpent_core (c : Closing) (op : OutPoint) (b : Bool) :
    (c.setSecondSpent op b).map Closing.core =
      if op ∈ c.second.map (·.1) then some c.core else none := by
  unfold Closing.setSecondSpent
  rw [Option.map_map]
  have : (Closing.core ∘ fun l => { c with second := l }) =
      (fun k => (c.txid, c.our.map (·.1), c.htlcOutputs, c.htlcSpents.length, k)) ∘
        (fun l' : List (OutPoint × Bool) => l'.map (·.1)) := by
    funext x; simp [Closing.core]
  rw [this, ← Option.map_map, setFirst_keys]
  by_cases hm : op ∈ c.second.map (·.1) <;> simp [hm, Closing.core]

/-! ### `applyForward` respects the projection -/

theorem closing_core_cases {s s' : State} (h : s.core = s'.core) :
    (s.closing = none ∧ s'.closing = none) ∨
      ∃ c c', s.closing = some c ∧ s'.closing = some c' ∧ c.core = c'.core := by
  simp only [State.core, Prod.mk.injEq] at h
  obtain ⟨_, _, _, _, h5⟩ := h
  cases hc : s.closing with
  | none => rw [hc] at h5; cases hc' : s'.closing with
    | none => exact Or.inl ⟨rfl, rfl⟩
    | some c' => rw [hc'] at h5; simp at h5
  | some c => rw [hc] at h5; cases hc' : s'.closing with
    | none => rw [hc'] at h5; simp at h5
    | some c' => rw [hc'] at h5; exact Or.inr ⟨c, c', rfl, rfl, by simpa using h5⟩

/-- success and the projection of the result of `applyForward` depend only on the projection -/
theorem applyForward_core {s s' : State} (h : s.core = s'.core) (ch : Change) :
    (applyForward s ch).map (fun d => d.1.core) = (applyForward s' ch).map (fun d => d.1.core) := by
  have hcl := closing_core_cases h
  simp only [State.core, Prod.mk.injEq] at h
  obtain ⟨h1, h2, h3, h4, _⟩ := h
  cases ch with
  | fundingConfirmed op => simp [applyForward, State.core, *]
  | fundingInputSpent op => simp [applyForward, State.core, *]
  | unilateral txid fo our htlcs => simp [applyForward, State.core, *]
  | «mutual» txid fo => simp [applyForward, State.core, *]
  | ourSpent v =>
    rcases hcl with ⟨e, e'⟩ | ⟨c, c', e, e', hc⟩
    · simp [applyForward, e, e']
    · simp only [applyForward, e, e', Option.map_map]
      have : ∀ (s : State) (c : Closing), ((fun d : Delta => d.1.core) ∘ fun c' : Closing =>
            (({ s with closing := some c' } : State), ([] : List OutPoint), [(c.txid, v)])) =
          (fun k => (s.fundingInputs, s.fundingTxids, s.fundingVouts, s.fundingOutpoint, some k)) ∘
            Closing.core := by
        intro s c; funext x; simp [State.core]
      rw [this, this, ← Option.map_map, ← Option.map_map, setOurSpent_core, setOurSpent_core,
        h1, h2, h3, h4, hc]
      have := congrArg (fun k => k.2.1) hc
      simp only [Closing.core] at this
      rw [this]
  | htlcSpent v sl =>
    rcases hcl with ⟨e, e'⟩ | ⟨c, c', e, e', hc⟩
    · simp [applyForward, e, e']
    · simp only [applyForward, e, e', Option.map_map]
      have : ∀ (s : State) (c : Closing), ((fun d : Delta => d.1.core) ∘ fun c' : Closing =>
            (({ s with closing := some (c'.addSecond sl) } : State), [sl], [(c.txid, v)])) =
          (fun k => (s.fundingInputs, s.fundingTxids, s.fundingVouts, s.fundingOutpoint,
              some (k.1, k.2.1, k.2.2.1, k.2.2.2.1, k.2.2.2.2 ++ [sl]))) ∘
            Closing.core := by
        intro s c; funext x; simp [State.core, Closing.core, Closing.addSecond]
      rw [this, this, ← Option.map_map, ← Option.map_map, setHtlcSpent_core, setHtlcSpent_core,
        h1, h2, h3, h4, hc]
      have e3 := congrArg (fun k => k.2.2.1) hc
      have e4 := congrArg (fun k => k.2.2.2.1) hc
      simp only [Closing.core] at e3 e4
      rw [e3, e4]
  | secondSpent op =>
    rcases hcl with ⟨e, e'⟩ | ⟨c, c', e, e', hc⟩
    · simp [applyForward, e, e']
    · simp only [applyForward, e, e', Option.map_map]
      have : ∀ (s : State), ((fun d : Delta => d.1.core) ∘ fun c' : Closing =>
            (({ s with closing := some c' } : State), ([] : List OutPoint), [op])) =
          (fun k => (s.fundingInputs, s.fundingTxids, s.fundingVouts, s.fundingOutpoint, some k)) ∘
            Closing.core := by
        intro s; funext x; simp [State.core]
      rw [this, this, ← Option.map_map, ← Option.map_map, setSecondSpent_core, setSecondSpent_core,
        h1, h2, h3, h4, hc]
      have e5 := congrArg (fun k => k.2.2.2.2) hc
      simp only [Closing.core] at e5
      rw [e5]

/-- the changes that do not alter the detection-relevant projection -/
def Change.simple : Change → Prop
  | .fundingConfirmed _ => False
  | .unilateral _ _ _ _ => False
  | .htlcSpent _ _ => False
  | _ => True

theorem applyForward_simple_core {s s1 : State} {ch : Change} {a r : List OutPoint}
    (hs : ch.simple) (h : applyForward s ch = some (s1, a, r)) : s1.core = s.core := by
  have := congrArg (Option.map (fun d : Delta => d.1.core)) h
  simp only [Option.map_some] at this
  cases ch with
  | fundingConfirmed op => exact hs.elim
  | unilateral txid fo our htlcs => exact hs.elim
  | htlcSpent v sl => exact hs.elim
  | fundingInputSpent op =>
    simp only [applyForward, Option.some.injEq, Prod.mk.injEq] at h
    obtain ⟨rfl, _, _⟩ := h; rfl
  | «mutual» txid fo =>
    simp only [applyForward, Option.some.injEq, Prod.mk.injEq] at h
    obtain ⟨rfl, _, _⟩ := h; rfl
  | ourSpent v =>
    simp only [applyForward] at h
    cases hc : s.closing with
    | none => simp [hc] at h
    | some c =>
      simp only [hc] at h
      obtain ⟨c1, hc1, hh⟩ := Option.map_eq_some_iff.mp h
      simp only [Prod.mk.injEq] at hh
      obtain ⟨rfl, _, _⟩ := hh
      have k := congrArg (Option.map Closing.core) hc1
      rw [setOurSpent_core] at k
      split at k
      · simp only [Option.map_some, Option.some.injEq] at k
        simp [State.core, hc, k]
      · simp at k
  | secondSpent op =>
    simp only [applyForward] at h
    cases hc : s.closing with
    | none => simp [hc] at h
    | some c =>
      simp only [hc] at h
      obtain ⟨c1, hc1, hh⟩ := Option.map_eq_some_iff.mp h
      simp only [Prod.mk.injEq] at hh
      obtain ⟨rfl, _, _⟩ := hh
      have k := congrArg (Option.map Closing.core) hc1
      rw [setSecondSpent_core] at k
      split at k
      · simp only [Option.map_some, Option.some.injEq] at k
        simp [State.core, hc, k]
      · simp at k

/-! ### the push listener respects the projection -/

def Scratch.core (d : Scratch) :=
  (d.t.core, d.changes, d.inputNum, d.closingIn, d.spentHtlc)

/-- `f` (a listener step) depends on the temporary state only through its projection -/
def Resp (f : Scratch → Option Scratch) : Prop :=
  ∀ d d', d.core = d'.core → (f d).map Scratch.core = (f d').map Scratch.core

theorem Resp.bind {f g : Scratch → Option Scratch} (hf : Resp f) (hg : Resp g) :
    Resp (fun d => (f d).bind g) := by
  intro d d' h
  show ((f d).bind g).map Scratch.core = ((f d').bind g).map Scratch.core
  have h1 := hf d d' h
  cases e : f d with
  | none =>
    rw [e] at h1
    cases e' : f d' with
    | none => rfl
    | some x' => rw [e'] at h1; simp at h1
  | some x =>
    rw [e] at h1
    cases e' : f d' with
    | none => rw [e'] at h1; simp at h1
    | some x' =>
      rw [e'] at h1
      simp only [Option.map_some, Option.some.injEq] at h1
      exact hg x x' h1

theorem addChange_resp (ch : Change) : Resp (fun d => d.addChange ch) := by
  intro d d' h
  simp only [Scratch.core, Prod.mk.injEq] at h
  obtain ⟨h1, h2, h3, h4, h5⟩ := h
  have k := applyForward_core h1 ch
  simp only [Scratch.addChange, Option.map_map]
  have : ∀ d : Scratch, (Scratch.core ∘ fun x : Delta =>
        ({ d with t := x.1, changes := d.changes ++ [ch] } : Scratch)) =
      (fun k => (k, d.changes ++ [ch], d.inputNum, d.closingIn, d.spentHtlc)) ∘
        (fun x : Delta => x.1.core) := by
    intro d; funext x; simp [Scratch.core]
  have e : ∀ d : Scratch, (fun x : Delta =>
      match x with | (t', _, _) => ({ d with t := t', changes := d.changes ++ [ch] } : Scratch)) =
      fun x : Delta => ({ d with t := x.1, changes := d.changes ++ [ch] } : Scratch) := by
    intro d; funext x; obtain ⟨_, _, _⟩ := x; rfl
  rw [e, e, this, this, ← Option.map_map, ← Option.map_map, k, h2, h3, h4, h5]

def in1 (inp : OutPoint) (d : Scratch) : Option Scratch :=
  if d.t.fundingInputs.contains inp then d.addChange (.fundingInputSpent inp) else some d

def in2 (inp : OutPoint) (d : Scratch) : Scratch :=
  if some inp = d.t.fundingOutpoint then { d with closingIn := some inp } else d

def in3 (inp : OutPoint) (d : Scratch) : Option Scratch :=
  match d.t.closing with
  | some c =>
    if c.includesOur inp then d.addChange (.ourSpent inp.2)
    else if c.includesHtlc inp then some { d with spentHtlc := d.spentHtlc ++ [(inp.2, d.inputNum)] }
    else if c.includesSecond inp then d.addChange (.secondSpent inp)
    else some d
  | none => some d

def in4 (d : Scratch) : Option Scratch :=
  if d.closingIn.isSome && d.inputNum != 0 then none
  else some { d with inputNum := d.inputNum + 1 }

theorem in3_bind_in4 (inp : OutPoint) (d : Scratch) : (in3 inp d).bind in4 =
    (match d.t.closing with
      | some c =>
        if c.includesOur inp = true then (d.addChange (Change.ourSpent inp.snd)).bind in4
        else
          if c.includesHtlc inp = true then
            in4 { d with spentHtlc := d.spentHtlc ++ [(inp.2, d.inputNum)] }
          else
            if c.includesSecond inp = true then (d.addChange (Change.secondSpent inp)).bind in4
            else in4 d
      | none => in4 d) := by
  unfold in3
  cases d.t.closing with
  | none => rfl
  | some c =>
    simp only
    split
    · rfl
    · split
      · rfl
      · split <;> rfl

theorem onInput_eq (d : Scratch) (inp : OutPoint) :
    onInput d inp = (in1 inp d).bind (fun d => (in3 inp (in2 inp d)).bind in4) := by
  simp only [in3_bind_in4]
  unfold onInput in1
  split
  · rfl
  · rfl

theorem in1_resp (inp : OutPoint) : Resp (in1 inp) := by
  intro d d' h
  have h0 := h
  simp only [Scratch.core, State.core, Prod.mk.injEq] at h
  obtain ⟨⟨h1, _⟩, _⟩ := h
  simp only [in1, h1]
  split
  · exact addChange_resp _ d d' h0
  · simp [h0]

theorem in2_core (inp : OutPoint) {d d' : Scratch} (h : d.core = d'.core) :
    (in2 inp d).core = (in2 inp d').core := by
  have h0 := h
  simp only [Scratch.core, State.core, Prod.mk.injEq] at h
  obtain ⟨⟨_, _, _, h4, _⟩, h2, h3, _, h5⟩ := h
  simp only [in2, h4]
  split
  · simp_all [Scratch.core]
  · exact h0

theorem in3_resp (inp : OutPoint) : Resp (in3 inp) := by
  intro d d' h
  have h0 := h
  simp only [Scratch.core, Prod.mk.injEq] at h
  obtain ⟨hc, h2, h3, h4, h5⟩ := h
  rcases closing_core_cases hc with ⟨e, e'⟩ | ⟨c, c', e, e', hcc⟩
  · simp [in3, e, e', h0]
  · simp only [in3, e, e', includesOur_core hcc, includesHtlc_core hcc, includesSecond_core hcc]
    split
    · exact addChange_resp _ d d' h0
    · split
      · simp only [Option.map_some, Scratch.core, hc, h2, h3, h4, h5]
      · split
        · exact addChange_resp _ d d' h0
        · simp [h0]

theorem in4_resp : Resp in4 := by
  intro d d' h
  have h0 := h
  simp only [Scratch.core, Prod.mk.injEq] at h
  obtain ⟨hc, h2, h3, h4, h5⟩ := h
  simp only [in4, h3, h4]
  split
  · rfl
  · simp only [Option.map_some, Scratch.core, hc, h2, h5]

theorem onInput_resp (inp : OutPoint) : Resp (fun d => onInput d inp) := by
  have : (fun d => onInput d inp) =
      fun d => (in1 inp d).bind (fun d => (in3 inp (in2 inp d)).bind in4) := by
    funext d; exact onInput_eq d inp
  rw [this]
  refine Resp.bind (in1_resp inp) ?_
  refine Resp.bind (f := fun d => in3 inp (in2 inp d)) ?_ in4_resp
  intro d d' h
  exact in3_resp inp _ _ (in2_core inp h)

theorem onInputs_resp (is : List OutPoint) : Resp (fun d => onInputs d is) := by
  induction is with
  | nil => intro d d' h; simp [onInputs, h]
  | cons i is ih =>
    have : (fun d => onInputs d (i :: is)) = fun d => (onInput d i).bind (fun d => onInputs d is) := by
      funext d
      simp only [onInputs]
      cases onInput d i <;> rfl
    rw [this]
    exact Resp.bind (onInput_resp i) ih

theorem addChanges_resp (cs : List Change) : Resp (fun d => addChanges d cs) := by
  induction cs with
  | nil => intro d d' h; simp [addChanges, h]
  | cons c cs ih =>
    have : (fun d => addChanges d (c :: cs)) =
        fun d => (d.addChange c).bind (fun d => addChanges d cs) := by
      funext d
      simp only [addChanges]
      cases d.addChange c <;> rfl
    rw [this]
    exact Resp.bind (addChange_resp c) ih

def tx1 (tx : Tx) (d : Scratch) : Option Scratch :=
  if d.closingIn.isSome && tx.nOut > MAX_COMMITMENT_OUTPUTS then none else some d

def tx2 (tx : Tx) (d : Scratch) : Option Scratch :=
  match position tx.txid d.t.fundingTxids with
  | some ind =>
    match d.t.fundingVouts[ind]? with
    | none => none
    | some vout => if vout < tx.nOut then d.addChange (.fundingConfirmed (tx.txid, vout)) else none
  | none => some d

def tx3 (tx : Tx) (d : Scratch) : Option Scratch :=
  match d.closingIn with
  | some fo =>
    match tx.kind with
    | .commit our htlcs => d.addChange (.unilateral tx.txid fo our htlcs)
    | .plain => d.addChange (.mutual tx.txid fo)
  | none => some d

def tx4 (tx : Tx) (d : Scratch) : Option Scratch :=
  addChanges d (d.spentHtlc.map fun (v, idx) => Change.htlcSpent v (tx.txid, idx))

def txEnd (tx : Tx) (d : Scratch) : Option Scratch :=
  (tx1 tx d).bind fun d => (tx2 tx d).bind fun d => (tx3 tx d).bind (tx4 tx)

theorem onTx_eq (t : State) (cs : List Change) (tx : Tx) :
    onTx t cs tx =
      ((onInputs { t, changes := cs, inputNum := 0, closingIn := none, spentHtlc := [] }
        tx.inputs).bind (txEnd tx)).map (fun d => (d.t, d.changes)) := by
  unfold onTx
  simp only
  cases onInputs { t, changes := cs, inputNum := 0, closingIn := none, spentHtlc := [] } tx.inputs with
  | none => rfl
  | some d =>
    show _ = ((txEnd tx d)).map _
    have e3 : ∀ d : Scratch, ((tx3 tx d).bind (tx4 tx)).map (fun d => (d.t, d.changes)) =
          (match d.closingIn with
          | some fo =>
            match tx.kind with
            | Kind.commit our htlcs => do
              let d ← d.addChange (Change.unilateral tx.txid fo our htlcs)
              let d ← tx4 tx d
              some (d.t, d.changes)
            | Kind.plain => do
              let d ← d.addChange (Change.mutual tx.txid fo)
              let d ← tx4 tx d
              some (d.t, d.changes)
          | none => do
            let d ← tx4 tx d
            some (d.t, d.changes)) := by
        intro d
        unfold tx3
        cases d.closingIn with
        | none => show (tx4 tx d).map _ = (tx4 tx d).bind _; cases tx4 tx d <;> rfl
        | some fo =>
          cases tx.kind with
          | plain =>
            show ((d.addChange _).bind _).map _ = (d.addChange _).bind _
            cases d.addChange (Change.mutual tx.txid fo) with
            | none => rfl
            | some d1 => show (tx4 tx d1).map _ = (tx4 tx d1).bind _; cases tx4 tx d1 <;> rfl
          | commit our htlcs =>
            show ((d.addChange _).bind _).map _ = (d.addChange _).bind _
            cases d.addChange (Change.unilateral tx.txid fo our htlcs) with
            | none => rfl
            | some d1 => show (tx4 tx d1).map _ = (tx4 tx d1).bind _; cases tx4 tx d1 <;> rfl
    unfold txEnd tx1
    simp only [Option.bind_eq_bind, Option.bind_some]
    by_cases h1 : (d.closingIn.isSome && decide (tx.nOut > MAX_COMMITMENT_OUTPUTS)) = true
    · simp only [h1, if_true]; rfl
    · simp only [h1]
      show _ = ((tx2 tx d).bind fun d => (tx3 tx d).bind (tx4 tx)).map _
      unfold tx2
      cases position tx.txid d.t.fundingTxids with
      | none => exact (e3 d).symm
      | some ind =>
        simp only
        cases d.t.fundingVouts[ind]? with
        | none => rfl
        | some vout =>
          simp only
          by_cases h2 : vout < tx.nOut
          · simp only [h2, if_true]
            cases d.addChange (Change.fundingConfirmed (tx.txid, vout)) with
            | none => rfl
            | some d1 => exact (e3 d1).symm
          · simp only [h2]; rfl

theorem tx1_resp (tx : Tx) : Resp (tx1 tx) := by
  intro d d' h
  have h0 := h
  simp only [Scratch.core, Prod.mk.injEq] at h
  obtain ⟨_, _, _, h4, _⟩ := h
  simp only [tx1, h4]
  split
  · rfl
  · simp [h0]

theorem tx2_resp (tx : Tx) : Resp (tx2 tx) := by
  intro d d' h
  have h0 := h
  simp only [Scratch.core, State.core, Prod.mk.injEq] at h
  obtain ⟨⟨_, h2, h3, _⟩, _⟩ := h
  simp only [tx2, h2, h3]
  split
  · split
    · rfl
    · split
      · exact addChange_resp _ d d' h0
      · rfl
  · simp [h0]

theorem tx3_resp (tx : Tx) : Resp (tx3 tx) := by
  intro d d' h
  have h0 := h
  simp only [Scratch.core, Prod.mk.injEq] at h
  obtain ⟨_, _, _, h4, _⟩ := h
  simp only [tx3, h4]
  split
  · split
    · exact addChange_resp _ d d' h0
    · exact addChange_resp _ d d' h0
  · simp [h0]

theorem tx4_resp (tx : Tx) : Resp (tx4 tx) := by
  intro d d' h
  have h0 := h
  simp only [Scratch.core, Prod.mk.injEq] at h
  obtain ⟨_, _, _, _, h5⟩ := h
  simp only [tx4, h5]
  exact addChanges_resp _ d d' h0

theorem txEnd_resp (tx : Tx) : Resp (txEnd tx) :=
  Resp.bind (tx1_resp tx) (Resp.bind (tx2_resp tx) (Resp.bind (tx3_resp tx) (tx4_resp tx)))

/-- detection of one transaction depends on the temporary state only through its projection -/
theorem onTx_core {t u : State} (h : t.core = u.core) (cs : List Change) (tx : Tx) :
    (onTx t cs tx).map (fun p => (p.1.core, p.2)) =
      (onTx u cs tx).map (fun p => (p.1.core, p.2)) := by
  rw [onTx_eq, onTx_eq]
  have R : Resp (fun d => (onInputs d tx.inputs).bind (txEnd tx)) :=
    Resp.bind (onInputs_resp _) (txEnd_resp tx)
  have k := R { t := t, changes := cs, inputNum := 0, closingIn := none, spentHtlc := [] }
    { t := u, changes := cs, inputNum := 0, closingIn := none, spentHtlc := [] }
    (by simp [Scratch.core, h])
  simp only [Option.map_map]
  have e : ((fun p : State × List Change => (p.1.core, p.2)) ∘ fun d : Scratch => (d.t, d.changes)) =
      (fun k => (k.1, k.2.1)) ∘ Scratch.core := by
    funext d; rfl
  rw [e, ← Option.map_map, ← Option.map_map, k]

theorem detectFrom_core {t u : State} (h : t.core = u.core) (cs : List Change) (txs : List Tx) :
    (detectFrom t cs txs).map (fun p => (p.1.core, p.2)) =
      (detectFrom u cs txs).map (fun p => (p.1.core, p.2)) := by
  induction txs generalizing t u cs with
  | nil => simp [detectFrom, h]
  | cons tx txs ih =>
    have k := onTx_core h cs tx
    simp only [detectFrom]
    cases e : onTx t cs tx with
    | none =>
      rw [e] at k
      cases e' : onTx u cs tx with
      | none => rfl
      | some x' => rw [e'] at k; simp at k
    | some x =>
      rw [e] at k
      cases e' : onTx u cs tx with
      | none => rw [e'] at k; simp at k
      | some x' =>
        rw [e'] at k
        simp only [Option.map_some, Option.some.injEq, Prod.mk.injEq] at k
        obtain ⟨t', cs'⟩ := x
        obtain ⟨u', cs''⟩ := x'
        obtain ⟨k1, k2⟩ := k
        simp only at k1 k2
        subst k2
        exact ih k1 cs'

/-- the detected change list depends on the state only through its projection -/
theorem detect_core {t u : State} (h : t.core = u.core) (txs : List Tx) :
    detect t txs = detect u txs := by
  have k := congrArg (Option.map (fun p : _ × List Change => p.2)) (detectFrom_core h [] txs)
  simpa [detect, Option.map_map, Function.comp_def] using k

/-! ### simple blocks are stable -/

theorem applyAll_simple_core {s s1 : State} {cs : List Change} {a r : List OutPoint}
    (hs : ∀ c ∈ cs, c.simple) (h : applyAll applyForward s cs = some (s1, a, r)) :
    s1.core = s.core := by
  induction cs generalizing s s1 a r with
  | nil =>
    simp only [applyAll, Option.some.injEq, Prod.mk.injEq] at h
    obtain ⟨rfl, _, _⟩ := h; rfl
  | cons c cs ih =>
    simp only [applyAll] at h
    cases hf : applyForward s c with
    | none => simp [hf] at h
    | some d =>
      obtain ⟨sa, a1, r1⟩ := d
      simp only [hf] at h
      cases hrest : applyAll applyForward sa cs with
      | none => simp [hrest] at h
      | some d2 =>
        obtain ⟨sx, a2, r2⟩ := d2
        simp only [hrest, Option.some.injEq, Prod.mk.injEq] at h
        obtain ⟨rfl, _, _⟩ := h
        have h1 := applyForward_simple_core (hs c (by simp)) hf
        have h2 := ih (fun c' hc' => hs c' (by simp [hc'])) hrest
        exact h2.trans h1

/-- the post-block state of `addBlock` is the forward run of the detected changes, up to the
bookkeeping fields (`height`, swept heights), which detection does not read -/
theorem addBlock_applyAll {s s1 : State} {txs : List Tx} {cs : List Change} {a r : List OutPoint}
    (hdet : detect { s with sawBlock := true } txs = some cs)
    (hadd : addBlock s txs = some (s1, a, r)) :
    ∃ s2, applyAll applyForward { s with sawBlock := true, height := s.height + 1 } cs =
        some (s2, a, r) ∧ ({ s1 with sawBlock := true } : State).core = s2.core := by
  simp only [addBlock, hdet] at hadd
  rw [addEnd_eq] at hadd
  obtain ⟨d, hd, hh⟩ := Option.map_eq_some_iff.mp hadd
  obtain ⟨s2, a2, r2⟩ := d
  simp only [Prod.mk.injEq] at hh
  obtain ⟨rfl, rfl, rfl⟩ := hh
  exact ⟨s2, hd, rfl⟩

/-- **stability for simple blocks**: if the detected change list contains no `fundingConfirmed`,
`unilateral`, `htlcSpent`, re-detection on the post-block state yields the same change list -/
theorem stable_of_simple {s s1 : State} {txs : List Tx} {cs : List Change} {a r : List OutPoint}
    (hdet : detect { s with sawBlock := true } txs = some cs)
    (hs : ∀ c ∈ cs, c.simple)
    (hadd : addBlock s txs = some (s1, a, r)) :
    detect { s1 with sawBlock := true } txs = some cs := by
  obtain ⟨s2, h2, hc⟩ := addBlock_applyAll hdet hadd
  have h3 := applyAll_simple_core hs h2
  rw [← hdet]
  have h4 : ({ s with sawBlock := true, height := s.height + 1 } : State).core =
      ({ s with sawBlock := true } : State).core := rfl
  exact detect_core ((hc.trans h3).trans h4) txs

/-! ### a structural sufficient condition: quiet transactions produce only simple changes -/

theorem position_eq_none {v : Nat} {l : List Nat} (h : v ∉ l) : position v l = none := by
  induction l with
  | nil => rfl
  | cons x xs ih =>
    simp only [List.mem_cons, not_or] at h
    have hx : ¬ x = v := fun e => h.1 e.symm
    simp [position, hx, ih h.2]

/-- `tx` is not a funding transaction, does not spend the funding outpoint and does not spend an
HTLC output of the recorded closing transaction (all relative to the state `t`) -/
def QuietTx (t : State) (tx : Tx) : Prop :=
  tx.txid ∉ t.fundingTxids ∧
  ∀ inp ∈ tx.inputs, some inp ≠ t.fundingOutpoint ∧
    ∀ c, t.closing = some c → c.includesHtlc inp = false

theorem QuietTx_core {t u : State} (h : t.core = u.core) {tx : Tx} (q : QuietTx t tx) :
    QuietTx u tx := by
  have hcl := closing_core_cases h
  simp only [State.core, Prod.mk.injEq] at h
  obtain ⟨_, h2, _, h4, _⟩ := h
  refine ⟨h2 ▸ q.1, fun inp hi => ⟨h4 ▸ (q.2 inp hi).1, fun c hc => ?_⟩⟩
  rcases hcl with ⟨_, e'⟩ | ⟨c0, c', e, e', hcc⟩
  · rw [e'] at hc; cases hc
  · rw [e'] at hc; cases hc
    rw [← includesHtlc_core hcc]
    exact (q.2 inp hi).2 c0 e

/-- scratch invariant while a quiet transaction is processed -/
def QInv (t0 : State) (cs0 : List Change) (d : Scratch) : Prop :=
  d.t.core = t0.core ∧ d.closingIn = none ∧ d.spentHtlc = [] ∧
    ∃ new, d.changes = cs0 ++ new ∧ ∀ c ∈ new, Change.simple c

theorem QInv.addChange {t0 : State} {cs0 : List Change} {d d' : Scratch} {ch : Change}
    (q : QInv t0 cs0 d) (hs : ch.simple) (h : d.addChange ch = some d') : QInv t0 cs0 d' := by
  obtain ⟨q1, q2, q3, new, q4, q5⟩ := q
  obtain ⟨x, hx, rfl⟩ := Option.map_eq_some_iff.mp h
  obtain ⟨t', a, r⟩ := x
  refine ⟨(applyForward_simple_core hs hx).trans q1, q2, q3, new ++ [ch], ?_, ?_⟩
  · simp [q4]
  · intro c hc
    rcases List.mem_append.mp hc with hc | hc
    · exact q5 c hc
    · simp only [List.mem_singleton] at hc; subst hc; exact hs

theorem QInv.onInput {t0 : State} {cs0 : List Change} {d d' : Scratch} {inp : OutPoint}
    (q : QInv t0 cs0 d) (h1 : some inp ≠ t0.fundingOutpoint)
    (h2 : ∀ c, t0.closing = some c → c.includesHtlc inp = false)
    (h : onInput d inp = some d') : QInv t0 cs0 d' := by
  rw [onInput_eq] at h
  obtain ⟨d1, e1, h⟩ := Option.bind_eq_some_iff.mp h
  obtain ⟨d3, e3, e4⟩ := Option.bind_eq_some_iff.mp h
  -- in1
  have q1 : QInv t0 cs0 d1 := by
    simp only [in1] at e1
    split at e1
    · exact q.addChange (ch := .fundingInputSpent inp) trivial e1
    · cases e1; exact q
  -- in2
  have hfo : d1.t.fundingOutpoint = t0.fundingOutpoint := by
    have := q1.1
    simp only [State.core, Prod.mk.injEq] at this
    exact this.2.2.2.1
  have e2 : in2 inp d1 = d1 := by
    simp only [in2, hfo]
    rw [if_neg h1]
  rw [e2] at e3
  -- in3
  have q3 : QInv t0 cs0 d3 := by
    simp only [in3] at e3
    split at e3
    · rename_i c hc
      have hh : c.includesHtlc inp = false := by
        rcases closing_core_cases q1.1 with ⟨e, _⟩ | ⟨c1, c0, e, e0, hcc⟩
        · rw [e] at hc; cases hc
        · rw [e] at hc; cases hc
          rw [includesHtlc_core hcc]; exact h2 c0 e0
      simp only [hh] at e3
      split at e3
      · exact q1.addChange (ch := .ourSpent inp.2) trivial e3
      · simp only [Bool.false_eq_true, if_false] at e3
        split at e3
        · exact q1.addChange (ch := .secondSpent inp) trivial e3
        · cases e3; exact q1
    · cases e3; exact q1
  -- in4
  simp only [in4] at e4
  split at e4
  · cases e4
  · cases e4
    exact q3

theorem QInv.onInputs {t0 : State} {cs0 : List Change} {is : List OutPoint} {d d' : Scratch}
    (q : QInv t0 cs0 d)
    (h12 : ∀ inp ∈ is, some inp ≠ t0.fundingOutpoint ∧
      ∀ c, t0.closing = some c → c.includesHtlc inp = false)
    (h : onInputs d is = some d') : QInv t0 cs0 d' := by
  induction is generalizing d with
  | nil => simp only [Monitor.onInputs, Option.some.injEq] at h; subst h; exact q
  | cons i is ih =>
    simp only [Monitor.onInputs] at h
    cases e : Monitor.onInput d i with
    | none => simp [e] at h
    | some d1 =>
      simp only [e] at h
      exact ih (q.onInput (h12 i (by simp)).1 (h12 i (by simp)).2 e)
        (fun inp hi => h12 inp (by simp [hi])) h

/-- a quiet transaction leaves the projection unchanged and appends only simple changes -/
theorem QuietTx.onTx {t t' : State} {cs cs' : List Change} {tx : Tx} (q : QuietTx t tx)
    (h : onTx t cs tx = some (t', cs')) :
    t'.core = t.core ∧ ∃ new, cs' = cs ++ new ∧ ∀ c ∈ new, Change.simple c := by
  rw [onTx_eq] at h
  obtain ⟨dE, hE, hh⟩ := Option.map_eq_some_iff.mp h
  simp only [Prod.mk.injEq] at hh
  obtain ⟨rfl, rfl⟩ := hh
  obtain ⟨d, hd, hE⟩ := Option.bind_eq_some_iff.mp hE
  have q0 : QInv t cs { t := t, changes := cs, inputNum := 0, closingIn := none, spentHtlc := [] } :=
    ⟨rfl, rfl, rfl, [], by simp, by simp⟩
  have qd := q0.onInputs q.2 hd
  obtain ⟨d1, e1, hE⟩ := Option.bind_eq_some_iff.mp hE
  obtain ⟨d2, e2, hE⟩ := Option.bind_eq_some_iff.mp hE
  obtain ⟨d3, e3, e4⟩ := Option.bind_eq_some_iff.mp hE
  have x1 : d1 = d := by
    simp only [tx1] at e1
    split at e1
    · cases e1
    · cases e1; rfl
  subst x1
  have hft : d1.t.fundingTxids = t.fundingTxids := by
    have := qd.1
    simp only [State.core, Prod.mk.injEq] at this
    exact this.2.1
  have x2 : d2 = d1 := by
    simp only [tx2, hft, position_eq_none q.1] at e2
    cases e2; rfl
  subst x2
  have x3 : d3 = d2 := by
    simp only [tx3, qd.2.1] at e3
    cases e3; rfl
  subst x3
  have x4 : dE = d3 := by
    simp only [tx4, qd.2.2.1, List.map_nil, addChanges] at e4
    cases e4; rfl
  subst x4
  exact ⟨qd.1, qd.2.2.2⟩

/-- every transaction of the block is quiet relative to `t` -/
def QuietTxs (t : State) (txs : List Tx) : Prop := ∀ tx ∈ txs, QuietTx t tx

theorem QuietTxs.detectFrom {t tn : State} {cs csn : List Change} {txs : List Tx}
    (q : QuietTxs t txs) (h : detectFrom t cs txs = some (tn, csn)) :
    tn.core = t.core ∧ ∃ new, csn = cs ++ new ∧ ∀ c ∈ new, Change.simple c := by
  induction txs generalizing t cs with
  | nil =>
    simp only [Monitor.detectFrom, Option.some.injEq, Prod.mk.injEq] at h
    obtain ⟨rfl, rfl⟩ := h
    exact ⟨rfl, [], by simp, by simp⟩
  | cons tx txs ih =>
    simp only [Monitor.detectFrom] at h
    cases e : Monitor.onTx t cs tx with
    | none => simp [e] at h
    | some x =>
      obtain ⟨t', cs'⟩ := x
      simp only [e] at h
      obtain ⟨k1, new1, rfl, k3⟩ := (q tx (by simp)).onTx e
      have q' : QuietTxs t' txs := fun tx' h' => QuietTx_core k1.symm (q tx' (by simp [h']))
      obtain ⟨j1, new2, rfl, j3⟩ := ih q' h
      refine ⟨j1.trans k1, new1 ++ new2, by simp, ?_⟩
      intro c hc
      rcases List.mem_append.mp hc with hc | hc
      · exact k3 c hc
      · exact j3 c hc

theorem QuietTxs.simple {s : State} {cs : List Change} {txs : List Tx}
    (q : QuietTxs s txs) (h : detect s txs = some cs) : ∀ c ∈ cs, Change.simple c := by
  obtain ⟨x, hx, rfl⟩ := Option.map_eq_some_iff.mp h
  obtain ⟨tn, csn⟩ := x
  obtain ⟨_, new, e, k⟩ := q.detectFrom hx
  simp only [List.nil_append] at e
  subst e
  exact k

end VlsModel.Monitor
