import VlsModel.Model.Locks
/-
Helper lemmas for C20: invariance of the order discipline under steps, the termination measure, the
existence of a maximal wanted lock, and progress (no deadlock) for order-respecting requests.
-/
namespace VlsModel.Locks

variable {L : Type} [DecidableEq L]

theorem stepAt_cases {s s' : State L} {i : Nat} (h : stepAt s i = some s') :
    ∃ t, s[i]? = some t ∧
      ((∃ l r, t.todo = .acq l :: r ∧ isFree s l = true ∧ s' = s.set i ⟨l :: t.held, r⟩) ∨
       (∃ l r, t.todo = .rel l :: r ∧ s' = s.set i ⟨t.held.erase l, r⟩)) := by
  unfold stepAt at h
  cases hi : s[i]? with
  | none => simp [hi] at h
  | some t =>
    refine ⟨t, rfl, ?_⟩
    simp only [hi] at h
    cases ht : t.todo with
    | nil => simp [ht] at h
    | cons e r =>
      cases e with
      | acq l =>
        simp only [ht] at h
        by_cases hf : isFree s l = true
        · simp [hf] at h; exact Or.inl ⟨l, r, rfl, hf, h.symm⟩
        · simp [hf] at h
      | rel l =>
        simp only [ht] at h
        exact Or.inr ⟨l, r, rfl, by simpa using h.symm⟩

/-- the order discipline is an invariant of the interleaving semantics -/
theorem ordered_step (lt : L → L → Prop) {s s' : State L}
    (inv : ∀ t ∈ s, Ordered lt t.held t.todo) (h : Step s s') :
    ∀ t ∈ s', Ordered lt t.held t.todo := by
  obtain ⟨i, hi⟩ := h
  obtain ⟨t, hti, hc⟩ := stepAt_cases hi
  have htm : t ∈ s := List.mem_of_getElem? hti
  have ht := inv t htm
  intro u hu
  rcases hc with ⟨l, r, htodo, _, rfl⟩ | ⟨l, r, htodo, rfl⟩
  · rcases List.mem_or_eq_of_mem_set hu with hu | rfl
    · exact inv u hu
    · rw [htodo] at ht; exact ht.2
  · rcases List.mem_or_eq_of_mem_set hu with hu | rfl
    · exact inv u hu
    · rw [htodo] at ht; exact ht

theorem ordered_steps (lt : L → L → Prop) {n : Nat} {s s' : State L}
    (inv : ∀ t ∈ s, Ordered lt t.held t.todo) (h : Steps n s s') :
    ∀ t ∈ s', Ordered lt t.held t.todo := by
  induction h with
  | refl => exact inv
  | tail _ hs ih => exact ordered_step lt (ih inv) hs

omit [DecidableEq L] in
theorem sum_map_set (f : Thread L → Nat) :
    ∀ (s : State L) (i : Nat) (t x : Thread L), s[i]? = some t →
      ((s.set i x).map f).sum + f t = (s.map f).sum + f x := by
  intro s
  induction s with
  | nil => intro i t x h; simp at h
  | cons a as ih =>
    intro i t x h
    cases i with
    | zero =>
      simp at h; subst h
      simp only [List.set_cons_zero, List.map_cons, List.sum_cons]; omega
    | succ j =>
      simp at h
      have := ih j t x h
      simp only [List.set_cons_succ, List.map_cons, List.sum_cons]; omega

/-- every step executes exactly one event -/
theorem measure_step {s s' : State L} (h : Step s s') : measure s' + 1 = measure s := by
  obtain ⟨i, hi⟩ := h
  obtain ⟨t, hti, hc⟩ := stepAt_cases hi
  unfold measure
  rcases hc with ⟨l, r, htodo, _, rfl⟩ | ⟨l, r, htodo, rfl⟩
  · have := sum_map_set (fun t : Thread L => t.todo.length) s i t ⟨l :: t.held, r⟩ hti
    simp only [htodo, List.length_cons] at this; omega
  · have := sum_map_set (fun t : Thread L => t.todo.length) s i t ⟨t.held.erase l, r⟩ hti
    simp only [htodo, List.length_cons] at this; omega

theorem measure_steps {n : Nat} {s s' : State L} (h : Steps n s s') : measure s' + n = measure s := by
  induction h with
  | refl => simp
  | tail _ hs ih => have := measure_step hs; omega

omit [DecidableEq L] in
/-- a finite non-empty list has a maximal element w.r.t. a strict partial order -/
theorem exists_maximal (lt : L → L → Prop) (irrefl : ∀ a, ¬ lt a a)
    (trans : ∀ a b c, lt a b → lt b c → lt a c) :
    ∀ xs : List L, xs ≠ [] → ∃ m ∈ xs, ∀ y ∈ xs, ¬ lt m y := by
  intro xs
  induction xs with
  | nil => intro h; exact absurd rfl h
  | cons x xs ih =>
    intro _
    by_cases hxs : xs = []
    · subst hxs
      exact ⟨x, by simp, by intro y hy; simp at hy; subst hy; exact irrefl _⟩
    · obtain ⟨m, hm, hmax⟩ := ih hxs
      by_cases hlt : lt m x
      · refine ⟨x, by simp, ?_⟩
        intro y hy
        rcases List.mem_cons.mp hy with rfl | hy
        · exact irrefl _
        · intro hxy; exact hmax y hy (trans _ _ _ hlt hxy)
      · refine ⟨m, List.mem_cons_of_mem _ hm, ?_⟩
        intro y hy
        rcases List.mem_cons.mp hy with rfl | hy
        · exact hlt
        · exact hmax y hy

theorem isFree_false {s : State L} {l : L} (h : isFree s l = false) : ∃ u ∈ s, l ∈ u.held := by
  unfold isFree at h
  rw [List.all_eq_false] at h
  obtain ⟨u, hu, hn⟩ := h
  refine ⟨u, hu, ?_⟩
  simpa using hn

theorem ordered_held_nonempty (lt : L → L → Prop) {t : Thread L} {l : L}
    (ho : Ordered lt t.held t.todo) (hl : l ∈ t.held) : t.todo ≠ [] := by
  intro h
  rw [h] at ho
  simp [Ordered] at ho
  rw [ho] at hl
  simp at hl

/-- **Progress.**  In a state whose threads all follow the order discipline w.r.t. a strict partial
order on locks, either every thread is finished or some thread can step. -/
theorem progress (lt : L → L → Prop) (irrefl : ∀ a, ¬ lt a a)
    (trans : ∀ a b c, lt a b → lt b c → lt a c) (s : State L)
    (inv : ∀ t ∈ s, Ordered lt t.held t.todo) :
    allDone s ∨ ∃ s', Step s s' := by
  by_cases hd : allDone s
  · exact Or.inl hd
  · refine Or.inr ?_
    -- a thread whose next event is a release can always step
    by_cases hrel : ∃ t ∈ s, ∃ l r, t.todo = .rel l :: r
    · obtain ⟨t, ht, l, r, htodo⟩ := hrel
      obtain ⟨i, hi, hget⟩ := List.getElem_of_mem ht
      refine ⟨s.set i ⟨t.held.erase l, r⟩, i, ?_⟩
      have : s[i]? = some t := by rw [List.getElem?_eq_getElem hi, hget]
      simp [stepAt, this, htodo]
    · -- all unfinished threads want to acquire; look at the wanted locks
      let ws := s.filterMap want
      have hne : ws ≠ [] := by
        have hex : ∃ t ∈ s, t.todo ≠ [] := by
          apply Classical.byContradiction
          intro hno
          apply hd
          intro t ht
          exact Classical.byContradiction (fun hne => hno ⟨t, ht, hne⟩)
        obtain ⟨t, ht, hnd⟩ := hex
        cases htodo : t.todo with
        | nil => exact absurd htodo hnd
        | cons e r =>
          cases e with
          | rel l => exact absurd ⟨t, ht, l, r, htodo⟩ hrel
          | acq l =>
            intro hws
            have : l ∈ ws := List.mem_filterMap.mpr ⟨t, ht, by simp [want, htodo]⟩
            rw [hws] at this; simp at this
      obtain ⟨m, hm, hmax⟩ := exists_maximal lt irrefl trans ws hne
      obtain ⟨t, ht, hwant⟩ := List.mem_filterMap.mp hm
      have htodo : ∃ r, t.todo = .acq m :: r := by
        unfold want at hwant
        cases h : t.todo with
        | nil => simp [h] at hwant
        | cons e r =>
          cases e with
          | acq l => simp [h] at hwant; subst hwant; exact ⟨r, rfl⟩
          | rel l => simp [h] at hwant
      obtain ⟨r, htodo⟩ := htodo
      obtain ⟨i, hi, hget⟩ := List.getElem_of_mem ht
      have hsi : s[i]? = some t := by rw [List.getElem?_eq_getElem hi, hget]
      cases hfree : isFree s m with
      | true =>
        exact ⟨s.set i ⟨m :: t.held, r⟩, i, by simp [stepAt, hsi, htodo, hfree]⟩
      | false =>
        -- the holder of `m` is unfinished and wants something above `m`: contradiction
        exfalso
        obtain ⟨u, hu, hmu⟩ := isFree_false hfree
        have hou := inv u hu
        have hune := ordered_held_nonempty lt hou hmu
        cases hutodo : u.todo with
        | nil => exact hune hutodo
        | cons e r' =>
          cases e with
          | rel l => exact hrel ⟨u, hu, l, r', hutodo⟩
          | acq l =>
            rw [hutodo] at hou
            have hlt : lt m l := hou.1 m hmu
            have hl : l ∈ ws := List.mem_filterMap.mpr ⟨u, hu, by simp [want, hutodo]⟩
            exact hmax l hl hlt

/-- edges respecting `lt` + ending empty-handed ⇒ order discipline -/
theorem ordered_of_edges (lt : L → L → Prop) :
    ∀ (r : List (Ev L)) (held : List L), (∀ e ∈ edgesOf held r, lt e.1 e.2) →
      endsEmpty held r = true → Ordered lt held r := by
  intro r
  induction r with
  | nil => intro held _ he; simpa [endsEmpty, Ordered] using he
  | cons e r ih =>
    intro held hed he
    cases e with
    | acq l =>
      simp only [edgesOf, List.mem_append, List.mem_map] at hed
      refine ⟨fun h hh => hed (h, l) (Or.inl ⟨h, hh, rfl⟩), ?_⟩
      exact ih (l :: held) (fun e he' => hed e (Or.inr he')) (by simpa [endsEmpty] using he)
    | rel l =>
      exact ih (held.erase l) (by simpa [edgesOf] using hed) (by simpa [endsEmpty] using he)

theorem mkState_ordered (lt : L → L → Prop) (reqs : List (List (Ev L)))
    (h : ∀ r ∈ reqs, Ordered lt [] r) : ∀ t ∈ mkState reqs, Ordered lt t.held t.todo := by
  intro t ht
  unfold mkState at ht
  obtain ⟨r, hr, rfl⟩ := List.mem_map.mp ht
  exact h r hr

theorem rlt_irrefl (a : Nat × Nat) : ¬ rlt a a := by unfold rlt; omega

theorem rlt_trans (a b c : Nat × Nat) : rlt a b → rlt b c → rlt a c := by unfold rlt; omega

end VlsModel.Locks
