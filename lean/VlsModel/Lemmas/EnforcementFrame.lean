import VlsModel.Lemmas.EnforcementC03
/-
Frame property of the enforcement model: a refused request (result class `err:*`) leaves the channel
state unchanged.  Used by C10 as the channel-level instance.  No Mathlib.
-/
namespace VlsModel.Enforcement
open VlsModel VlsModel.Secrets

/-- the request was refused with an error status (`err:policy`, `err:invalid`, `err:internal`);
    `panic` is not a refusal: the process dies and comes back from the persisted state -/
def Res.isErr : Res → Bool
  | .errPolicy | .errInvalid | .errInternal => true
  | .ok | .panic => false

theorem frameE_fail (c : Chan) (x : Res) : (fail c x).c = c := rfl

theorem frameE_validate (c : Chan) (n info : Nat) (sv : SigFact) (pk : Bool)
    (h : (validate c n info sv pk).out.res.isErr = true) : (validate c n info sv pk).c = c := by
  revert h
  unfold validate fail
  try dsimp only
  repeat' split
  all_goals intro h
  all_goals first
    | rfl
    | (simp [Res.isErr] at h; done)

/-- what an accepted validate did -/
theorem validate_ok_cases (c : Chan) (n info : Nat) (sv : SigFact) (pk : Bool)
    (h : (validate c n info sv pk).out.res = .ok) :
    (validate c n info sv pk).c = c ∨
    (n = c.next ∧ c.closed = false ∧ (validate c n info sv pk).c = { c with nextInfo := some info }) := by
  revert h
  unfold validate fail
  try dsimp only
  split
  · intro h; simp at h
  · split
    · rename_i hp
      split
      · intro h; simp at h
      · split
        · intro h; simp at h
        · intro _
          split
          · rename_i hn
            right
            refine ⟨hn, ?_, rfl⟩
            unfold holderPolicy at hp
            repeat' split at hp
            all_goals first
              | (simp at hp; done)
              | skip
            rename_i hcl
            cases hc : c.closed with
            | false => rfl
            | true => exact absurd ⟨hn, hc⟩ hcl
          · left; rfl
    · intro h
      rename_i r hr
      simp at h
      exact absurd h (by intro e; exact hr e)

theorem release_adv_ok (c : Chan) (n : Nat) (hs : c.slot = .ready) (hn : c.next = n + 1)
    (hm : n + 1 ≤ U64.MAX) : (release c n).res = .ok := by
  unfold release getPoint getSecret U64.satAdd
  simp only [hs]
  have : min (n + 1) U64.MAX = n + 1 := Nat.min_eq_left hm
  rw [this]
  repeat' split
  all_goals first
    | rfl
    | omega
    | (exfalso; rename_i h; revert h; simp; omega)
    | simp_all

theorem frameE_revoke (c : Chan) (n : Nat) (hs : c.slot = .ready)
    (h : (revoke c n).out.res.isErr = true) : (revoke c n).c = c := by
  revert h
  unfold revoke fail
  dsimp only
  split
  · intro _; rfl
  · rename_i hne
    have hn : n = c.next := by simpa using hne
    split
    · intro _; rfl
    · split
      · intro _; rfl
      · split
        · intro h; simp [Res.isErr] at h
        · rename_i hm
          split
          · rename_i hok
            intro h; rw [hok] at h; simp [Res.isErr] at h
          · rename_i hnok
            exfalso
            apply hnok
            exact release_adv_ok _ n hs rfl (by omega)

theorem frameE_revokeP (c : Chan) (n : Nat) (po : Bool) (hs : c.slot = .ready)
    (h : (revokeP c n po).out.res.isErr = true) : (revokeP c n po).c = c := by
  rcases revokeP_cases c n po with e | e
  · rw [e] at h ⊢; exact frameE_revoke c n hs h
  · rw [e]; rfl

theorem frameE_activate (c : Chan) (_h : (activate c).out.res.isErr = true) : True := trivial

theorem frameE_generic_activate (c : Chan) (h : (activate c).out.res.isErr = true) : (activate c).c = c := by
  revert h
  unfold activate fail
  repeat' split
  all_goals intro h
  all_goals first
    | rfl
    | (simp [Res.isErr] at h; done)

theorem frameE_signHolder (c : Chan) (n : Nat) (h : (signHolder c n).out.res.isErr = true) :
    (signHolder c n).c = c := by
  revert h
  unfold signHolder fail
  repeat' split
  all_goals intro h
  all_goals first
    | rfl
    | (simp [Res.isErr] at h; done)

theorem frameE_signRecovery (c : Chan) (h : (signRecovery c).out.res.isErr = true) :
    (signRecovery c).c = c := by
  revert h
  unfold signRecovery fail
  repeat' split
  all_goals intro h
  all_goals first
    | rfl
    | (simp [Res.isErr] at h; done)

theorem frameE_signRedundant (c : Chan) (n info : Nat) (pk : Bool)
    (h : (signRedundant c n info pk).out.res.isErr = true) : (signRedundant c n info pk).c = c := by
  revert h
  unfold signRedundant fail
  repeat' split
  all_goals intro h
  all_goals first
    | rfl
    | (simp [Res.isErr] at h; done)

theorem frameE_signMutualClose (c : Chan) (pk : Bool)
    (h : (signMutualClose c pk).out.res.isErr = true) : (signMutualClose c pk).c = c := by
  revert h
  unfold signMutualClose fail
  repeat' split
  all_goals intro h
  all_goals first
    | rfl
    | (simp [Res.isErr] at h; done)

/-- an accepted revoke of `m ≥ 1` whose reply carries no secret did not advance -/
theorem revoke_ok_nosecret (c : Chan) (m : Nat) (h1 : 1 ≤ m) (hok : (revoke c m).out.res = .ok)
    (hsec : (revoke c m).out.secret = none) : (revoke c m).c = c := by
  revert hok hsec
  unfold revoke fail
  dsimp only
  split
  · intro _ _; rfl
  · split
    · intro _ _; rfl
    · split
      · intro _ _; rfl
      · split
        · intro hok; simp at hok
        · split
          · rename_i hrel
            intro _ hsec
            rw [release_ok_secret hrel h1] at hsec
            cases hsec
          · rename_i hnok
            intro hok; exact absurd hok hnok

theorem revokeP_ok_nosecret (c : Chan) (m : Nat) (po : Bool) (h1 : 1 ≤ m) (hok : (revokeP c m po).out.res = .ok)
    (hsec : (revokeP c m po).out.secret = none) : (revokeP c m po).c = c := by
  rcases revokeP_cases c m po with e | e
  · rw [e] at hok hsec ⊢; exact revoke_ok_nosecret c m h1 hok hsec
  · rw [e]; rfl

theorem isErr_not_ok {r : Res} (h : r.isErr = true) : r ≠ .ok := by
  intro e; subst e; simp [Res.isErr] at h

theorem frameE_needReady (c : Chan) (f : Chan → R)
    (hf : c.slot = .ready → (f c).out.res.isErr = true → (f c).c = c)
    (h : (needReady c f).out.res.isErr = true) : (needReady c f).c = c := by
  revert h
  unfold needReady
  split
  · intro _; rfl
  · rename_i hs; exact hf hs

/-- **frame, channel level**: a refused request leaves the channel state unchanged -/
theorem chanStep_frameE (F : Nat → Bytes → Bytes) (c : Chan) (op : Op)
    (h : (chanStep F c op).out.res.isErr = true) : (chanStep F c op).c = c := by
  cases op with
  | setup =>
    revert h
    simp only [chanStep]
    split
    · intro h; simp [Res.isErr] at h
    · intro _; rfl
  | getPoint n => rfl
  | getSecret n => rfl
  | getSecretOrNone n => rfl
  | validate n info sv pk => exact frameE_needReady c (validate · n info sv pk) (fun _ => frameE_validate c n info sv pk) h
  | revoke n po => exact frameE_needReady c (revokeP · n po) (fun hs => frameE_revokeP c n po hs) h
  | activate => exact frameE_needReady c activate (fun _ => frameE_generic_activate c) h
  | signHolder n => exact frameE_needReady c (signHolder · n) (fun _ => frameE_signHolder c n) h
  | signRecovery => exact frameE_needReady c signRecovery (fun _ => frameE_signRecovery c) h
  | signRedundant n info pk => exact frameE_needReady c (signRedundant · n info pk) (fun _ => frameE_signRedundant c n info pk) h
  | signMutualClose pk => exact frameE_needReady c (signMutualClose · pk) (fun _ => frameE_signMutualClose c pk) h
  | signCp n pt info pk =>
    refine frameE_needReady c (signCp · n pt info pk) (fun _ he => signCp_notok (isErr_not_ok he)) h
  | revokeCp n s pt =>
    refine frameE_needReady c (revokeCp F · n s pt) (fun _ he => revokeCp_notok (isErr_not_ok he)) h
  | restart => rfl
  | hValidate ver n info sv pk =>
    simp only [chanStep] at h ⊢
    refine frameE_needReady c _ (fun hs => ?_) h
    unfold andThen
    split
    · rename_i hok
      dsimp only
      rcases validate_ok_cases c n info sv pk hok with hsame | ⟨hn, hcl, hch⟩
      · -- validate left the state alone: the second half decides
        rw [hsame]
        split
        · exact frameE_revoke c n hs
        · split
          · split
            · intro _; rfl
            · intro _; rfl
          · exact frameE_generic_activate c
      · -- validate stored the next commitment: the second half cannot be refused
        intro he
        exfalso
        rw [hch] at he
        revert he
        split
        · -- old protocol: revoke n = next advances
          unfold revoke fail
          simp only [hn, hcl]
          simp only [ne_eq, not_true_eq_false, ↓reduceIte, Bool.false_eq_true]
          split
          · simp [Res.isErr]
          · rename_i hm
            have hok2 := release_adv_ok
              { c with nextInfo := none, next := c.next + 1, cur := some info } c.next hs rfl (by omega)
            rw [hcl] at hok2
            simp [hok2, Res.isErr]
        · split
          · split
            · simp [fail, Res.isErr]
            · rename_i hm
              have : getPoint { c with nextInfo := some info } (n + 1) = .ok := by
                unfold getPoint; simp [hs, hn]
              simp [fail, this, Res.isErr]
          · rename_i hz
            have hz : n = 0 := by omega
            unfold activate
            simp [← hn, hz, Res.isErr]
    · exact frameE_validate c n info sv pk
  | hRevoke ver n po =>
    revert h
    simp only [chanStep]
    split
    · intro _; rfl
    · intro h
      refine frameE_needReady c _ (fun hs => ?_) h
      split
      · intro _; rfl
      · split
        · -- reply without secret: only possible without a state change
          rename_i hcond
          intro _
          exact revokeP_ok_nosecret c (n + 1) po (by omega) hcond.1 hcond.2
        · intro he; exact frameE_revokeP c (n + 1) po hs he
  | hGetPoint ver n =>
    simp only [chanStep]
    repeat' split
    all_goals rfl
  | hGetPoint2 n => rfl

/-- **Enforcement_frame (memory)**: for every state, a refused request leaves the in-memory channel
    unchanged -/
theorem step_frame_mem (F : Nat → Bytes → Bytes) (s : Sys) (op : Op)
    (h : (step F s op).2.res.isErr = true) : (step F s op).1.mem = s.mem := by
  by_cases hr : op = .restart
  · subst hr; simp [step, Res.isErr] at h
  · rw [step_eq F s hr] at h ⊢
    exact chanStep_frameE F s.mem op h

/-- **Enforcement_frame**: when the persisted copy is up to date, a refused request leaves the whole
    model state (memory and disk) unchanged -/
theorem step_frame (F : Nat → Bytes → Bytes) (s : Sys) (op : Op) (hd : s.disk = s.mem)
    (h : (step F s op).2.res.isErr = true) : (step F s op).1 = s := by
  by_cases hr : op = .restart
  · subst hr; simp [step, Res.isErr] at h
  · have hm := step_frame_mem F s op h
    rw [step_eq F s hr] at hm ⊢
    dsimp only [sysAfter] at hm ⊢
    cases s with
    | mk mem disk =>
      simp only at hd hm ⊢
      subst hd
      rw [hm]
      simp

/-! ### durability: what did not persist did not change (channel-level instance for C11) -/

theorem np_validate (c : Chan) (n info : Nat) (sv : SigFact) (pk : Bool)
    (h : (validate c n info sv pk).persisted = false) : (validate c n info sv pk).c = c := by
  revert h
  unfold validate fail
  try dsimp only
  repeat' split
  all_goals intro h
  all_goals first
    | rfl
    | (simp at h; done)

theorem np_revoke (c : Chan) (n : Nat) (hs : c.slot = .ready) (h : (revoke c n).persisted = false)
    (hp : (revoke c n).out.res ≠ .panic) : (revoke c n).c = c := by
  revert h hp
  unfold revoke fail
  dsimp only
  split
  · intro _ _; rfl
  · rename_i hne
    have hn : n = c.next := by simpa using hne
    split
    · intro _ _; rfl
    · split
      · intro _ _; rfl
      · split
        · intro _ hp; exact absurd rfl hp
        · rename_i hm
          split
          · intro h; simp at h
          · rename_i hnok
            exfalso
            exact hnok (release_adv_ok _ n hs rfl (by omega))

theorem np_revokeP (c : Chan) (n : Nat) (po : Bool) (hs : c.slot = .ready) (h : (revokeP c n po).persisted = false)
    (hp : (revokeP c n po).out.res ≠ .panic) : (revokeP c n po).c = c := by
  rcases revokeP_cases c n po with e | e
  · rw [e] at h hp ⊢; exact np_revoke c n hs h hp
  · rw [e]; rfl

theorem np_simple_activate (c : Chan) (h : (activate c).persisted = false) : (activate c).c = c := by
  revert h; unfold activate fail
  repeat' split
  all_goals intro h
  all_goals first
    | rfl
    | (simp at h; done)

theorem np_signHolder (c : Chan) (n : Nat) (h : (signHolder c n).persisted = false) : (signHolder c n).c = c := by
  revert h; unfold signHolder fail
  repeat' split
  all_goals intro h
  all_goals first
    | rfl
    | (simp at h; done)

theorem np_signRecovery (c : Chan) (h : (signRecovery c).persisted = false) : (signRecovery c).c = c := by
  revert h; unfold signRecovery fail
  repeat' split
  all_goals intro h
  all_goals first
    | rfl
    | (simp at h; done)

theorem np_signRedundant (c : Chan) (n info : Nat) (pk : Bool)
    (h : (signRedundant c n info pk).persisted = false) : (signRedundant c n info pk).c = c := by
  revert h; unfold signRedundant fail
  repeat' split
  all_goals intro h
  all_goals first
    | rfl
    | (simp at h; done)

theorem np_signMutualClose (c : Chan) (pk : Bool)
    (h : (signMutualClose c pk).persisted = false) : (signMutualClose c pk).c = c := by
  revert h; unfold signMutualClose fail
  repeat' split
  all_goals intro h
  all_goals first
    | rfl
    | (simp at h; done)

theorem np_signCp (c : Chan) (n pt info : Nat) (pk : Bool)
    (h : (signCp c n pt info pk).persisted = false) : (signCp c n pt info pk).c = c := by
  by_cases hok : (signCp c n pt info pk).out.res = .ok
  · rw [signCp_ok_persisted hok] at h; cases h
  · exact signCp_notok hok

theorem np_revokeCp (F : Nat → Bytes → Bytes) (c : Chan) (n : Nat) (s : Bytes) (pt : Nat)
    (h : (revokeCp F c n s pt).persisted = false) : (revokeCp F c n s pt).c = c := by
  by_cases hok : (revokeCp F c n s pt).out.res = .ok
  · rw [revokeCp_ok_persisted hok] at h; cases h
  · exact revokeCp_notok hok

theorem np_needReady (c : Chan) (f : Chan → R)
    (hf : c.slot = .ready → (f c).persisted = false → (f c).out.res ≠ .panic → (f c).c = c)
    (h : (needReady c f).persisted = false) (hp : (needReady c f).out.res ≠ .panic) : (needReady c f).c = c := by
  revert h hp
  unfold needReady
  split
  · intro _ _; rfl
  · rename_i hs; exact hf hs

/-- **durability, channel level**: a reply that is not a panic and did not persist left the channel
    state unchanged -/
theorem chanStep_np (F : Nat → Bytes → Bytes) (c : Chan) (op : Op)
    (h : (chanStep F c op).persisted = false) (hp : (chanStep F c op).out.res ≠ .panic) :
    (chanStep F c op).c = c := by
  cases op with
  | setup =>
    revert h
    simp only [chanStep]
    split
    · intro h; simp at h
    · intro _; rfl
  | getPoint n => rfl
  | getSecret n => rfl
  | getSecretOrNone n => rfl
  | validate n info sv pk => exact np_needReady c (validate · n info sv pk) (fun _ h _ => np_validate c n info sv pk h) h hp
  | revoke n po => exact np_needReady c (revokeP · n po) (fun hs h hp => np_revokeP c n po hs h hp) h hp
  | activate => exact np_needReady c activate (fun _ h _ => np_simple_activate c h) h hp
  | signHolder n => exact np_needReady c (signHolder · n) (fun _ h _ => np_signHolder c n h) h hp
  | signRecovery => exact np_needReady c signRecovery (fun _ h _ => np_signRecovery c h) h hp
  | signRedundant n info pk => exact np_needReady c (signRedundant · n info pk) (fun _ h _ => np_signRedundant c n info pk h) h hp
  | signMutualClose pk => exact np_needReady c (signMutualClose · pk) (fun _ h _ => np_signMutualClose c pk h) h hp
  | signCp n pt info pk => exact np_needReady c (signCp · n pt info pk) (fun _ h _ => np_signCp c n pt info pk h) h hp
  | revokeCp n s pt => exact np_needReady c (revokeCp F · n s pt) (fun _ h _ => np_revokeCp F c n s pt h) h hp
  | restart => rfl
  | hValidate ver n info sv pk =>
    simp only [chanStep] at h hp ⊢
    refine np_needReady c _ (fun _ => ?_) h hp
    unfold andThen
    split
    · rename_i hs hok
      intro h2 hp2
      dsimp only at h2 hp2 ⊢
      simp only [Bool.or_eq_false_iff] at h2
      have e1 := np_validate c n info sv pk h2.1
      have h22 := h2.2
      rw [e1] at h22 hp2 ⊢
      revert h22 hp2
      split
      · intro hp2 h22; exact np_revoke c n hs h22 hp2
      · split
        · split
          · intro _ _; rfl
          · intro _ _; rfl
        · intro _ h22; exact np_simple_activate c h22
    · intro h2 _
      exact np_validate c n info sv pk h2
  | hRevoke ver n po =>
    revert h hp
    simp only [chanStep]
    split
    · intro _ _; rfl
    · intro h hp
      refine np_needReady c _ (fun hs => ?_) h hp
      split
      · intro _ _; rfl
      · split
        · rename_i hcond
          intro _ _
          exact revokeP_ok_nosecret c (n + 1) po (by omega) hcond.1 hcond.2
        · intro h2 hp2; exact np_revokeP c (n + 1) po hs h2 hp2
  | hGetPoint ver n =>
    simp only [chanStep]
    repeat' split
    all_goals rfl
  | hGetPoint2 n => rfl

/-- **Enforcement_durable_step**: if the persisted copy is up to date before a request and the reply is
    not a panic, it is up to date afterwards -/
theorem step_durable (F : Nat → Bytes → Bytes) (s : Sys) (op : Op) (hd : s.disk = s.mem)
    (hp : (step F s op).2.res ≠ .panic) : (step F s op).1.disk = (step F s op).1.mem := by
  by_cases hr : op = .restart
  · subst hr; rfl
  · rw [step_eq F s hr] at hp ⊢
    dsimp only [sysAfter] at hp ⊢
    split
    · rfl
    · rename_i hnp
      rw [hd, chanStep_np F s.mem op (by simpa using hnp) hp]

/-- no reply in the history is a panic -/
def NoPanic (h : Hist) : Prop := ∀ e ∈ h, e.2.res ≠ .panic

theorem run_durable (F : Nat → Bytes → Bytes) (ops : List Op) (s : Sys) (h : Hist)
    (hd : s.disk = s.mem) (hnp : NoPanic (runH F s h ops).2) :
    (runH F s h ops).1.disk = (runH F s h ops).1.mem := by
  induction ops generalizing s h with
  | nil => exact hd
  | cons op rest ih =>
    simp only [runH] at hnp ⊢
    apply ih _ _ ?_ hnp
    apply step_durable F s op hd
    -- the event of this step is in the final history
    have hmem : ∀ (ops : List Op) (s : Sys) (h : Hist) (e : Op × Out), e ∈ h → e ∈ (runH F s h ops).2 := by
      intro ops
      induction ops with
      | nil => intro s h e he; exact he
      | cons o r ih2 => intro s h e he; exact ih2 _ _ e (List.mem_cons_of_mem _ he)
    exact hnp _ (hmem rest _ _ _ List.mem_cons_self)

/-! ### the remaining `panic` of the holder side needs 2^64-1 accepted advances -/

theorem next_le_step (F : Nat → Bytes → Bytes) {s : Sys} {h : Hist} (inv : K s h) (op : Op) :
    (step F s op).1.mem.next ≤ s.mem.next + 1 := by
  by_cases hr : op = .restart
  · subst hr; simp only [step]; rw [inv.dnext]; omega
  · rw [step_eq F s hr]
    have f := chanStep_facts F s.mem inv.fresh op
    dsimp only [sysAfter]
    by_cases hlt : s.mem.next < (chanStep F s.mem op).c.next
    · have := (f.adv_secret hlt).1; omega
    · omega

theorem run_next_le (F : Nat → Bytes → Bytes) (ops : List Op) (s : Sys) (h : Hist) (inv : K s h)
    (nn : NoNewAfterSign h) :
    (runH F s h ops).1.mem.next ≤ s.mem.next + ops.length := by
  induction ops generalizing s h with
  | nil => simp [runH]
  | cons op rest ih =>
    have st := K_step F inv op
    have := ih _ _ st.1 ⟨st.2, nn⟩
    have h1 := next_le_step F inv op
    simp only [runH, List.length_cons]
    omega

theorem revoke_panic_only_overflow (c : Chan) (n : Nat) (h : (revoke c n).out.res = .panic) :
    c.next + 1 > U64.MAX := by
  revert h
  unfold revoke fail
  dsimp only
  split
  · intro h
    exfalso
    revert h
    unfold release getSecret
    repeat' split
    all_goals simp
  · rename_i hne
    have hn : n = c.next := by simpa using hne
    split
    · intro h; simp at h
    · split
      · intro h; simp at h
      · split
        · intro _; omega
        · split
          · rename_i hok
            intro h; rw [hok] at h; cases h
          · intro h
            exfalso
            revert h
            unfold release getSecret
            repeat' split
            all_goals simp

end VlsModel.Enforcement
