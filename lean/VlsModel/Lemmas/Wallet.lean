import VlsModel.Model.Wallet
/-
What `Wallet::can_spend` and `Wallet::allowlist_contains` (Model/Wallet.lean) accept, as characterisations
over all key-derivation styles, paths, scripts and allowlists.  Used by Props/C08.lean and Props/C09.lean.
-/
namespace VlsModel.Wallet

/-- the three segwit address forms of a key: what the layer-1 wallet can spend -/
def SpendableForm (s : Script) (k : Key) : Prop :=
  s = .addr .p2wpkh k ∨ s = .addr .p2shwpkh k ∨ s = .addr .p2tr k

/-- the forms accepted for a child of an allowlisted extended key (p2pkh yes, p2sh-p2wpkh no) -/
def XpubForm (s : Script) (k : Key) : Prop :=
  s = .addr .p2wpkh k ∨ s = .addr .p2pkh k ∨ s = .addr .p2tr k

/-- the path has the length the key-derivation style asks for -/
def PathFits (style : Style) (path : List Nat) : Prop :=
  ∀ n, style.keyPathLen = some n → path.length = n

theorem walletKey?_some (style : Style) (path : List Nat) (k : Key) :
    walletKey? style path = some k ↔ PathFits style path ∧ k = .account path := by
  unfold walletKey? PathFits
  cases h : style.keyPathLen with
  | none => simp [eq_comm]
  | some n =>
    by_cases hl : path.length = n
    · simp [hl, eq_comm]
    · simp only [ne_eq, hl, not_false_eq_true, if_true]
      constructor
      · intro h'; cases h'
      · rintro ⟨hf, _⟩; exact absurd (hf n rfl) hl

theorem walletKey?_none (style : Style) (path : List Nat) :
    walletKey? style path = none ↔ ∃ n, style.keyPathLen = some n ∧ path.length ≠ n := by
  unfold walletKey?
  cases h : style.keyPathLen with
  | none => simp
  | some n => by_cases hl : path.length = n <;> simp [hl]

/-- **`can_spend` = Ok(true)** exactly for the three segwit forms of the account key at a non-empty path of the
    length the style admits -/
theorem canSpend_true (style : Style) (path : List Nat) (s : Script) :
    canSpend style path s = some true ↔ path ≠ [] ∧ PathFits style path ∧ SpendableForm s (.account path) := by
  unfold canSpend SpendableForm
  by_cases hp : path = []
  · subst hp; simp
  · have hl : ¬ path.length = 0 := by simpa using hp
    simp only [hl, if_false, ne_eq, hp, not_false_eq_true, true_and]
    cases hk : walletKey? style path with
    | none =>
      obtain ⟨n, h1, h2⟩ := (walletKey?_none style path).mp hk
      constructor
      · intro h'; cases h'
      · rintro ⟨hf, _⟩; exact absurd (hf n h1) h2
    | some k =>
      obtain ⟨hf, rfl⟩ := (walletKey?_some style path k).mp hk
      simp [hf, Bool.or_eq_true, beq_iff_eq, or_assoc]

/-- **`can_spend` = Err** exactly for a non-empty path of the wrong length -/
theorem canSpend_err (style : Style) (path : List Nat) (s : Script) :
    canSpend style path s = none ↔ path ≠ [] ∧ ∃ n, style.keyPathLen = some n ∧ path.length ≠ n := by
  unfold canSpend
  by_cases hp : path = []
  · subst hp; simp
  · have hl : ¬ path.length = 0 := by simpa using hp
    simp only [hl, if_false, ne_eq, hp, not_false_eq_true, true_and]
    cases hk : walletKey? style path with
    | none => simpa using (walletKey?_none style path).mp hk
    | some k =>
      simp only [reduceCtorEq, false_iff, not_exists, not_and, Decidable.not_not]
      intro n hn
      exact ((walletKey?_some style path k).mp hk).1 n hn

theorem xpubLoop_yes (path : List Nat) (s : Script) (allow : List Allowable) :
    xpubLoop path s allow = .yes ↔
      path.any hardened = false ∧ ∃ j, .xpub j ∈ allow ∧ XpubForm s (xpubKey j path) := by
  induction allow with
  | nil => simp [xpubLoop]
  | cons a rest ih =>
    cases a with
    | script t => simp [xpubLoop, ih]
    | payee n => simp [xpubLoop, ih]
    | xpub j =>
      unfold xpubLoop
      by_cases hh : path.any hardened = true
      · simp [hh]
      · have hh' : path.any hardened = false := by simpa using hh
        simp only [hh', Bool.false_eq_true, if_false, true_and]
        by_cases hm : XpubForm s (xpubKey j path)
        · have : (s == .addr .p2wpkh (xpubKey j path) || s == .addr .p2pkh (xpubKey j path) ||
              s == .addr .p2tr (xpubKey j path)) = true := by
            simpa [XpubForm, Bool.or_eq_true, beq_iff_eq, or_assoc] using hm
          simp only [this, if_true, true_iff]
          exact ⟨j, by simp, hm⟩
        · have : (s == .addr .p2wpkh (xpubKey j path) || s == .addr .p2pkh (xpubKey j path) ||
              s == .addr .p2tr (xpubKey j path)) = false := by
            have h' : ¬ (s = .addr .p2wpkh (xpubKey j path) ∨ s = .addr .p2pkh (xpubKey j path) ∨
                s = .addr .p2tr (xpubKey j path)) := hm
            simp only [not_or] at h'
            simp [Bool.or_eq_false_iff, h'.1, h'.2.1, h'.2.2]
          simp only [this, Bool.false_eq_true, if_false, ih, hh', true_and]
          constructor
          · rintro ⟨j', hj', hf⟩; exact ⟨j', by simp [hj'], hf⟩
          · rintro ⟨j', hj', hf⟩
            rcases List.mem_cons.mp hj' with h | h
            · cases h; exact absurd hf hm
            · exact ⟨j', h, hf⟩

theorem xpubLoop_panic (path : List Nat) (s : Script) (allow : List Allowable) :
    xpubLoop path s allow = .panic ↔ path.any hardened = true ∧ ∃ j, .xpub j ∈ allow := by
  induction allow with
  | nil => simp [xpubLoop]
  | cons a rest ih =>
    cases a with
    | script t => simp [xpubLoop, ih]
    | payee n => simp [xpubLoop, ih]
    | xpub j =>
      unfold xpubLoop
      by_cases hh : path.any hardened = true
      · simp [hh]
      · have hh' : path.any hardened = false := by simpa using hh
        simp only [hh', Bool.false_eq_true, if_false, false_and, iff_false]
        split
        · simp
        · rw [ih]; simp [hh']

/-- **`allowlist_contains` = true** exactly for a listed script, or (non-empty path without hardened components) a
    p2wpkh / p2pkh / p2tr child at that path of an allowlisted extended key -/
theorem allowlistContains_yes (allow : List Allowable) (s : Script) (path : List Nat) :
    allowlistContains allow s path = .yes ↔
      .script s ∈ allow ∨
        (path ≠ [] ∧ path.any hardened = false ∧ ∃ j, .xpub j ∈ allow ∧ XpubForm s (xpubKey j path)) := by
  unfold allowlistContains
  by_cases hs : Allowable.script s ∈ allow
  · simp [hs]
  · have hc : allow.contains (.script s) = false := by simpa using hs
    simp only [hc, Bool.false_eq_true, if_false, hs, false_or]
    by_cases hp : path = []
    · subst hp; simp
    · have : path.isEmpty = false := by simpa using hp
      simp only [this, Bool.false_eq_true, if_false, ne_eq, hp, not_false_eq_true, true_and]
      exact xpubLoop_yes path s allow

/-- **`allowlist_contains` panics** exactly when the script is not listed, an extended key is allowlisted and the
    (non-empty) path has a hardened component: `derive_pub(..).unwrap()` -/
theorem allowlistContains_panic (allow : List Allowable) (s : Script) (path : List Nat) :
    allowlistContains allow s path = .panic ↔
      .script s ∉ allow ∧ path ≠ [] ∧ path.any hardened = true ∧ ∃ j, .xpub j ∈ allow := by
  unfold allowlistContains
  by_cases hs : Allowable.script s ∈ allow
  · simp [hs]
  · have hc : allow.contains (.script s) = false := by simpa using hs
    simp only [hc, Bool.false_eq_true, if_false, hs, not_false_eq_true, true_and]
    by_cases hp : path = []
    · subst hp; simp
    · have : path.isEmpty = false := by simpa using hp
      simp only [this, Bool.false_eq_true, if_false, ne_eq, hp, not_false_eq_true, true_and]
      exact xpubLoop_panic path s allow

/-- a legacy p2pkh output to the wallet's own key is **not** spendable by `can_spend` (only an allowlisted xpub
    accepts p2pkh), and a p2sh-p2wpkh child of an allowlisted extended key is **not** allowlisted -/
example : canSpend .native [5] (.addr .p2pkh (.account [5])) = some false
    ∧ allowlistContains [.xpub 1] (.addr .p2shwpkh (.xpub 1 [5])) [5] = .no
    ∧ allowlistContains [.xpub 1] (.addr .p2pkh (.xpub 1 [5])) [5] = .yes
    ∧ allowlistContains [.xpub ownXpub] (.addr .p2wpkh (.account [5])) [5] = .yes
    ∧ allowlistContains [.xpub 1] (.addr .p2wpkh (.xpub 1 [5])) [2147483653] = .panic
    ∧ canSpend .native [1, 2] (.addr .p2wpkh (.account [1, 2])) = none
    ∧ canSpend .lnd [1, 2] (.addr .p2tr (.account [1, 2])) = some true := by decide

end VlsModel.Wallet
