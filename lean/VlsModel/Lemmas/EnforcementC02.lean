import VlsModel.Lemmas.Enforcement
/-
Helper lemmas for C02: what one request can do to `next_holder_commit_num` / `channel_closed`,
and which secrets / holder signatures it can return.  No Mathlib.
-/
namespace VlsModel.Enforcement
open VlsModel VlsModel.Secrets

/-- facts about one channel method relative to the counter `n0` and the closed flag `cl0` before it -/
structure Facts (n0 : Nat) (cl0 : Bool) (r : R) : Prop where
  next_mono : n0 ≤ r.c.next
  closed_mono : cl0 = true → r.c.closed = true
  secret_le : ∀ k, r.out.secret = some k → k + 2 ≤ r.c.next
  signed : ∀ n, r.out.signed = some n → r.c.closed = true ∧ r.c.next ≤ n + 1
  adv_closed : cl0 = true → r.c.next = n0 ∨ (n0 = 0 ∧ r.c.next = 1)
  adv_secret : n0 < r.c.next → r.c.next = n0 + 1 ∧ (n0 ≥ 1 → r.out.secret = some (n0 - 1))

theorem facts_fail (c : Chan) (x : Res) : Facts c.next c.closed (fail c x) := by
  constructor <;> simp [fail]

theorem getSecret_le {c : Chan} {n k : Nat} (hk : (getSecret c n).secret = some k) : k + 2 ≤ c.next := by
  unfold getSecret at hk
  repeat' split at hk
  all_goals simp at hk
  omega

theorem getSecretOrNone_le {c : Chan} {n k : Nat} (hk : (getSecretOrNone c n).secret = some k) :
    k + 2 ≤ c.next := by
  unfold getSecretOrNone at hk
  repeat' split at hk
  all_goals simp at hk
  omega

theorem getSecret_signed (c : Chan) (n : Nat) : (getSecret c n).signed = none := by
  unfold getSecret; repeat' split
  all_goals rfl

theorem getSecretOrNone_signed (c : Chan) (n : Nat) : (getSecretOrNone c n).signed = none := by
  unfold getSecretOrNone; repeat' split
  all_goals rfl

theorem facts_getSecret (c : Chan) (n : Nat) : Facts c.next c.closed { c := c, out := getSecret c n } :=
  ⟨Nat.le_refl _, fun h => h, fun _ hk => getSecret_le hk, fun k hk => by simp [getSecret_signed] at hk,
   fun _ => Or.inl rfl, fun h => absurd h (Nat.lt_irrefl _)⟩

theorem facts_getSecretOrNone (c : Chan) (n : Nat) :
    Facts c.next c.closed { c := c, out := getSecretOrNone c n } :=
  ⟨Nat.le_refl _, fun h => h, fun _ hk => getSecretOrNone_le hk,
   fun k hk => by simp [getSecretOrNone_signed] at hk,
   fun _ => Or.inl rfl, fun h => absurd h (Nat.lt_irrefl _)⟩

theorem release_secret_ok {c : Chan} {n k : Nat} (hk : (release c n).secret = some k) :
    (release c n).res = .ok := by
  unfold release getSecret at hk ⊢
  repeat' split at hk
  all_goals simp at hk
  all_goals simp_all
  all_goals (repeat' split) <;> first | rfl | omega

theorem release_ok_secret {c : Chan} {n : Nat} (hok : (release c n).res = .ok) (h1 : 1 ≤ n) :
    (release c n).secret = some (n - 1) := by
  unfold release getSecret at hok ⊢
  repeat' split at hok
  all_goals simp at hok
  all_goals simp_all
  rw [if_neg (by omega), if_neg (by omega)]

theorem release_signed (c : Chan) (n : Nat) : (release c n).signed = none := by
  unfold release getSecret
  repeat' split
  all_goals rfl

theorem validate_frame (c : Chan) (n info : Nat) (sv : SigFact) (pk : Bool) :
    (validate c n info sv pk).c.next = c.next ∧ (validate c n info sv pk).c.closed = c.closed ∧
    (validate c n info sv pk).c.slot = c.slot ∧
    (validate c n info sv pk).out.secret = none ∧ (validate c n info sv pk).out.signed = none := by
  unfold validate fail
  try dsimp only
  repeat' split
  all_goals simp

theorem facts_validate (c : Chan) (n info : Nat) (sv : SigFact) (pk : Bool) :
    Facts c.next c.closed (validate c n info sv pk) := by
  have f := validate_frame c n info sv pk
  constructor <;> simp [f.1, f.2.1, f.2.2.2.1, f.2.2.2.2]

theorem facts_revoke (c : Chan) (n : Nat) : Facts c.next c.closed (revoke c n) := by
  unfold revoke
  split
  · constructor <;> simp [release_signed]
    intro k hk
    exact (release_secret hk).1
  · rename_i hne
    have hn : n = c.next := by simpa using hne
    split
    · exact facts_fail c _
    · rename_i hcl
      split
      · exact facts_fail c _
      · split
        · refine ⟨Nat.le_refl _, fun h => h, by simp, by simp, fun _ => Or.inl rfl, fun h => absurd h (Nat.lt_irrefl _)⟩
        · dsimp only
          split
          · rename_i hok
            constructor <;> simp [release_signed, hn]
            · intro k hk
              have := release_secret hk
              simp at this
              omega
            · intro hc; exact absurd hc hcl
            · intro h1
              subst hn
              exact release_ok_secret hok h1
          · rename_i hnok
            constructor <;> simp [release_signed]
            intro k hk
            exact absurd (release_secret_ok hk) hnok

theorem facts_revokeP (c : Chan) (n : Nat) (po : Bool) : Facts c.next c.closed (revokeP c n po) := by
  rcases revokeP_cases c n po with e | e <;> rw [e]
  · exact facts_revoke c n
  · exact facts_fail c _

theorem facts_activate (c : Chan) : Facts c.next c.closed (activate c) := by
  unfold activate
  split
  · exact facts_fail c _
  · rename_i hz
    have hz : c.next = 0 := by simpa using hz
    split
    · constructor <;> simp [hz]
    · exact facts_fail c _

theorem facts_signHolder (c : Chan) (n : Nat) : Facts c.next c.closed (signHolder c n) := by
  unfold signHolder
  split
  · exact facts_fail c _
  · split
    · exact facts_fail c _
    · split
      · exact facts_fail c _
      · constructor <;> simp
        omega

theorem facts_signRecovery (c : Chan) : Facts c.next c.closed (signRecovery c) := by
  unfold signRecovery
  split
  · exact facts_fail c _
  · split
    · exact facts_fail c _
    · constructor <;> simp
      omega

theorem holderPolicy_ok {c : Chan} {n info : Nat} {pk : Bool} (h : holderPolicy c n info pk = .ok) :
    c.next ≤ n + 1 := by
  unfold holderPolicy at h
  repeat' split at h
  all_goals first
    | (simp at h; done)
    | omega

theorem facts_signRedundant (c : Chan) (n info : Nat) (pk : Bool) :
    Facts c.next c.closed (signRedundant c n info pk) := by
  unfold signRedundant
  split
  · exact facts_fail c _
  · split
    · rename_i hp
      constructor <;> simp
      exact holderPolicy_ok hp
    · exact facts_fail c _

theorem facts_signMutualClose (c : Chan) (pk : Bool) : Facts c.next c.closed (signMutualClose c pk) := by
  unfold signMutualClose
  repeat' split
  all_goals first
    | exact facts_fail c _
    | (constructor <;> simp)

theorem facts_signCp (c : Chan) (n pt info : Nat) (pk : Bool) :
    Facts c.next c.closed (signCp c n pt info pk) := by
  have f := signCp_frame c n pt info pk
  constructor <;> simp [f.1, f.2.2.1, f.2.2.2.2.2.1, f.2.2.2.2.2.2.1]

theorem facts_revokeCp (F : Nat → Bytes → Bytes) (c : Chan) (n : Nat) (s : Bytes) (pt : Nat) :
    Facts c.next c.closed (revokeCp F c n s pt) := by
  have f := revokeCp_frame F c n s pt
  constructor <;> simp [f.1, f.2.2.1, f.2.2.2.2.2.1, f.2.2.2.2.2.2.1]

theorem facts_needReady (c : Chan) (f : Chan → R) (hf : Facts c.next c.closed (f c)) :
    Facts c.next c.closed (needReady c f) := by
  unfold needReady
  split
  · exact facts_fail c _
  · exact hf

/-- a stub is always the default channel value -/
def StubFresh (c : Chan) : Prop := c.slot = .stub → c = {}

theorem chanStep_facts (F : Nat → Bytes → Bytes) (c : Chan) (hs : StubFresh c) (op : Op) :
    Facts c.next c.closed (chanStep F c op) := by
  cases op with
  | setup =>
    simp only [chanStep]
    split
    · rename_i hst
      rw [hs hst]
      constructor <;> simp
    · exact facts_fail c _
  | getPoint n => exact facts_fail c _
  | getSecret n => exact facts_getSecret c n
  | getSecretOrNone n => exact facts_getSecretOrNone c n
  | validate n info sv pk => exact facts_needReady c (validate · n info sv pk) (facts_validate c n info sv pk)
  | revoke n po => exact facts_needReady c (revokeP · n po) (facts_revokeP c n po)
  | activate => exact facts_needReady c activate (facts_activate c)
  | signHolder n => exact facts_needReady c (signHolder · n) (facts_signHolder c n)
  | signRecovery => exact facts_needReady c signRecovery (facts_signRecovery c)
  | signRedundant n info pk => exact facts_needReady c (signRedundant · n info pk) (facts_signRedundant c n info pk)
  | signMutualClose pk => exact facts_needReady c (signMutualClose · pk) (facts_signMutualClose c pk)
  | signCp n pt info pk => exact facts_needReady c (signCp · n pt info pk) (facts_signCp c n pt info pk)
  | revokeCp n s pt => exact facts_needReady c (revokeCp F · n s pt) (facts_revokeCp F c n s pt)
  | restart => exact facts_fail c _
  | hValidate ver n info sv pk =>
    simp only [chanStep]
    apply facts_needReady
    have f := validate_frame c n info sv pk
    unfold andThen
    split
    · -- second half runs on a state with the same counter and closed flag
      have key : ∀ r2 : R, Facts c.next c.closed r2 →
          Facts c.next c.closed { c := r2.c, out := { r2.out with validated := (validate c n info sv pk).out.validated },
                                  persisted := (validate c n info sv pk).persisted || r2.persisted } := by
        intro r2 h2
        exact ⟨h2.1, h2.2, h2.3, h2.4, h2.5, h2.6⟩
      apply key
      split
      · have := facts_revoke (validate c n info sv pk).c n
        rwa [f.1, f.2.1] at this
      · split
        · split
          · have := facts_fail (validate c n info sv pk).c .panic
            rwa [f.1, f.2.1] at this
          · have := facts_fail (validate c n info sv pk).c (getPoint (validate c n info sv pk).c (n + 1))
            rwa [f.1, f.2.1] at this
        · have := facts_activate (validate c n info sv pk).c
          rwa [f.1, f.2.1] at this
    · exact facts_validate c n info sv pk
  | hRevoke ver n po =>
    simp only [chanStep]
    split
    · exact facts_fail c _
    · apply facts_needReady
      split
      · exact facts_fail c _
      · have h2 := facts_revokeP c (n + 1) po
        split
        · rename_i hcond
          refine ⟨h2.1, h2.2, by simp, by simp, h2.5, ?_⟩
          intro hlt
          have := h2.6 hlt
          refine ⟨this.1, ?_⟩
          intro h1
          have := this.2 h1
          rw [hcond.2] at this
          simp at this
        · exact h2
  | hGetPoint ver n =>
    simp only [chanStep]
    split
    · exact facts_fail c _
    · split
      · exact facts_getSecret c _
      · exact facts_fail c _
  | hGetPoint2 n => exact facts_fail c _

/-! ### slot kind, persistence -/

/-- what a request does not do: change the slot kind of a ready channel, or change the counter /
    the closed flag without persisting -/
structure Frame (c : Chan) (r : R) : Prop where
  slot : r.c.slot = c.slot
  np : r.persisted = false → r.c.next = c.next ∧ r.c.closed = c.closed

theorem frame_fail (c : Chan) (x : Res) : Frame c (fail c x) := ⟨rfl, fun _ => ⟨rfl, rfl⟩⟩

theorem frame_validate (c : Chan) (n info : Nat) (sv : SigFact) (pk : Bool) : Frame c (validate c n info sv pk) := by
  have f := validate_frame c n info sv pk
  exact ⟨f.2.2.1, fun _ => ⟨f.1, f.2.1⟩⟩

theorem frame_revoke (c : Chan) (n : Nat) : Frame c (revoke c n) := by
  unfold revoke fail
  dsimp only
  repeat' split
  all_goals constructor <;> simp

theorem frame_revokeP (c : Chan) (n : Nat) (po : Bool) : Frame c (revokeP c n po) := by
  rcases revokeP_cases c n po with e | e <;> rw [e]
  · exact frame_revoke c n
  · exact frame_fail c _

theorem frame_activate (c : Chan) : Frame c (activate c) := by
  unfold activate fail
  repeat' split
  all_goals constructor <;> simp

theorem frame_signHolder (c : Chan) (n : Nat) : Frame c (signHolder c n) := by
  unfold signHolder fail
  repeat' split
  all_goals constructor <;> simp

theorem frame_signRecovery (c : Chan) : Frame c (signRecovery c) := by
  unfold signRecovery fail
  repeat' split
  all_goals constructor <;> simp

theorem frame_signRedundant (c : Chan) (n info : Nat) (pk : Bool) : Frame c (signRedundant c n info pk) := by
  unfold signRedundant fail
  repeat' split
  all_goals constructor <;> simp

theorem frame_signMutualClose (c : Chan) (pk : Bool) : Frame c (signMutualClose c pk) := by
  unfold signMutualClose fail
  repeat' split
  all_goals constructor <;> simp

theorem frame_signCp (c : Chan) (n pt info : Nat) (pk : Bool) : Frame c (signCp c n pt info pk) := by
  have f := signCp_frame c n pt info pk
  exact ⟨f.2.2.2.1, fun _ => ⟨f.1, f.2.2.1⟩⟩

theorem frame_revokeCp (F : Nat → Bytes → Bytes) (c : Chan) (n : Nat) (s : Bytes) (pt : Nat) :
    Frame c (revokeCp F c n s pt) := by
  have f := revokeCp_frame F c n s pt
  exact ⟨f.2.2.2.1, fun _ => ⟨f.1, f.2.2.1⟩⟩

theorem frame_needReady (c : Chan) (f : Chan → R) (hf : Frame c (f c)) : Frame c (needReady c f) := by
  unfold needReady
  split
  · exact frame_fail c _
  · exact hf

theorem frame_trans {c : Chan} {r1 r2 : R} (h1 : Frame c r1) (h2 : Frame r1.c r2) (v : Option Nat) :
    Frame c { c := r2.c, out := { r2.out with validated := v }, persisted := r1.persisted || r2.persisted } := by
  refine ⟨h2.1.trans h1.1, ?_⟩
  intro hp
  simp at hp
  have a := h1.2 hp.1
  have b := h2.2 hp.2
  exact ⟨b.1.trans a.1, b.2.trans a.2⟩

/-- ready channels stay ready; a stub only changes through `setup`, which persists -/
theorem chanStep_frame (F : Nat → Bytes → Bytes) (c : Chan) (op : Op) :
    (c.slot = .ready → Frame c (chanStep F c op)) ∧
    (c.slot = .stub → (chanStep F c op).c = c ∨ ((chanStep F c op).c = { slot := .ready } ∧ (chanStep F c op).persisted = true)) := by
  constructor
  · intro hr
    cases op with
    | setup => simp only [chanStep, hr]; exact frame_fail c _
    | getPoint n => exact frame_fail c _
    | getSecret n => exact ⟨rfl, fun _ => ⟨rfl, rfl⟩⟩
    | getSecretOrNone n => exact ⟨rfl, fun _ => ⟨rfl, rfl⟩⟩
    | validate n info sv pk => exact frame_needReady c (validate · n info sv pk) (frame_validate c n info sv pk)
    | revoke n po => exact frame_needReady c (revokeP · n po) (frame_revokeP c n po)
    | activate => exact frame_needReady c activate (frame_activate c)
    | signHolder n => exact frame_needReady c (signHolder · n) (frame_signHolder c n)
    | signRecovery => exact frame_needReady c signRecovery (frame_signRecovery c)
    | signRedundant n info pk => exact frame_needReady c (signRedundant · n info pk) (frame_signRedundant c n info pk)
    | signMutualClose pk => exact frame_needReady c (signMutualClose · pk) (frame_signMutualClose c pk)
    | signCp n pt info pk => exact frame_needReady c (signCp · n pt info pk) (frame_signCp c n pt info pk)
    | revokeCp n s pt => exact frame_needReady c (revokeCp F · n s pt) (frame_revokeCp F c n s pt)
    | restart => exact frame_fail c _
    | hValidate ver n info sv pk =>
      simp only [chanStep]
      apply frame_needReady
      unfold andThen
      split
      · apply frame_trans (frame_validate c n info sv pk)
        split
        · exact frame_revoke _ n
        · split
          · split
            · exact frame_fail _ _
            · exact frame_fail _ _
          · exact frame_activate _
      · exact frame_validate c n info sv pk
    | hRevoke ver n po =>
      simp only [chanStep]
      split
      · exact frame_fail c _
      · apply frame_needReady
        split
        · exact frame_fail c _
        · have h2 := frame_revokeP c (n + 1) po
          split
          · exact ⟨h2.1, h2.2⟩
          · exact h2
    | hGetPoint ver n =>
      simp only [chanStep]
      repeat' split
      all_goals first
        | exact frame_fail c _
        | exact ⟨rfl, fun _ => ⟨rfl, rfl⟩⟩
    | hGetPoint2 n => exact frame_fail c _
  · intro hs
    cases op <;> simp [chanStep, needReady, hs, fail]
    all_goals (repeat' split) <;> simp [fail]

theorem chanStep_stubFresh (F : Nat → Bytes → Bytes) (c : Chan) (hs : StubFresh c) (op : Op) :
    StubFresh (chanStep F c op).c := by
  have f := chanStep_frame F c op
  intro hst
  cases hc : c.slot with
  | ready => have := (f.1 hc).1; rw [hc, hst] at this; cases this
  | stub =>
    rcases f.2 hc with h | ⟨h, _⟩
    · rw [h]; exact hs hc
    · rw [h] at hst; cases hst

/-! ### C02 invariant over ghost sets -/

/-- a holder signature on commitment `n` was released somewhere in `h` -/
def Signed (h : Hist) (n : Nat) : Prop := ∃ e ∈ h, e.2.signed = some n
/-- the secret of holder commitment `k` was disclosed somewhere in `h` -/
def Revoked (h : Hist) (k : Nat) : Prop := ∃ e ∈ h, e.2.secret = some k

theorem signed_cons {h : Hist} {n : Nat} {e : Op × Out} :
    Signed (e :: h) n ↔ (e.2.signed = some n ∨ Signed h n) := by
  constructor
  · rintro ⟨x, hx, hv⟩
    rcases List.mem_cons.mp hx with rfl | hx
    · exact Or.inl hv
    · exact Or.inr ⟨x, hx, hv⟩
  · rintro (hv | ⟨x, hx, hv⟩)
    · exact ⟨e, List.mem_cons_self, hv⟩
    · exact ⟨x, List.mem_cons_of_mem _ hx, hv⟩

theorem revoked_cons {h : Hist} {k : Nat} {e : Op × Out} :
    Revoked (e :: h) k ↔ (e.2.secret = some k ∨ Revoked h k) := by
  constructor
  · rintro ⟨x, hx, hv⟩
    rcases List.mem_cons.mp hx with rfl | hx
    · exact Or.inl hv
    · exact Or.inr ⟨x, hx, hv⟩
  · rintro (hv | ⟨x, hx, hv⟩)
    · exact ⟨e, List.mem_cons_self, hv⟩
    · exact ⟨x, List.mem_cons_of_mem _ hx, hv⟩

/-- C02 invariant: a released holder signature on `n` freezes the channel (`closed`) at a counter
    `≤ n + 1`; the disclosed secrets are exactly those of the numbers `k` with `k + 2 ≤ next`;
    memory and disk agree on counter and closed flag. -/
structure K (s : Sys) (h : Hist) : Prop where
  fresh : StubFresh s.mem
  freshd : StubFresh s.disk
  dnext : s.disk.next = s.mem.next
  dclosed : s.disk.closed = s.mem.closed
  signed : ∀ n, Signed h n → s.mem.closed = true ∧ s.mem.next ≤ n + 1
  revoked : ∀ k, Revoked h k ↔ k + 2 ≤ s.mem.next

theorem K_init : K init [] := by
  refine ⟨fun _ => rfl, fun _ => rfl, rfl, rfl, ?_, ?_⟩
  · rintro n ⟨e, he, _⟩; cases he
  · intro k
    constructor
    · rintro ⟨e, he, _⟩; cases he
    · intro hk; simp [init] at hk

/-- after a holder signature was released, a request discloses only secrets disclosed before -/
def NoNewAfterSign : Hist → Prop
  | [] => True
  | e :: pre => ((∃ n, Signed pre n) → ∀ k, e.2.secret = some k → Revoked pre k) ∧ NoNewAfterSign pre

/-- **step lemma of C02** -/
theorem K_step (F : Nat → Bytes → Bytes) {s : Sys} {h : Hist} (inv : K s h) (op : Op) :
    K (step F s op).1 ((op, (step F s op).2) :: h) ∧
    ((∃ n, Signed h n) → ∀ k, (step F s op).2.secret = some k → Revoked h k) := by
  by_cases hr : op = .restart
  · subst hr
    refine ⟨⟨inv.freshd, inv.freshd, rfl, rfl, ?_, ?_⟩, by intro _ k hk; simp [step] at hk⟩
    · intro n hn
      rw [signed_cons] at hn
      rcases hn with hn | hn
      · simp [step] at hn
      · have := inv.signed n hn
        simpa [step, inv.dnext, inv.dclosed] using this
    · intro k
      rw [revoked_cons]
      simp only [step, inv.dnext]
      constructor
      · rintro (hk | hk)
        · simp at hk
        · exact (inv.revoked k).1 hk
      · intro hk; exact Or.inr ((inv.revoked k).2 hk)
  · rw [step_eq F s hr]
    have f := chanStep_facts F s.mem inv.fresh op
    have fr := chanStep_frame F s.mem op
    have sf := chanStep_stubFresh F s.mem inv.fresh op
    generalize hrr : chanStep F s.mem op = r at f fr sf
    dsimp only [sysAfter]
    -- disk follows memory on counter and closed flag
    have hnp : r.persisted = false → r.c.next = s.mem.next ∧ r.c.closed = s.mem.closed := by
      intro hp
      cases hc : s.mem.slot with
      | ready => exact (fr.1 hc).2 hp
      | stub =>
        rcases fr.2 hc with h1 | ⟨_, h2⟩
        · rw [h1]; exact ⟨rfl, rfl⟩
        · rw [hp] at h2; cases h2
    refine ⟨⟨sf, ?_, ?_, ?_, ?_, ?_⟩, ?_⟩
    · split
      · exact sf
      · exact inv.freshd
    · split
      · rfl
      · rename_i hp
        rw [(hnp (by simpa using hp)).1]; exact inv.dnext
    · split
      · rfl
      · rename_i hp
        rw [(hnp (by simpa using hp)).2]; exact inv.dclosed
    · intro n hn
      rw [signed_cons] at hn
      dsimp only at hn ⊢
      rcases hn with hn | hn
      · exact f.signed n hn
      · have old := inv.signed n hn
        refine ⟨f.closed_mono old.1, ?_⟩
        rcases f.adv_closed old.1 with h1 | ⟨_, h1⟩
        · omega
        · omega
    · intro k
      rw [revoked_cons]
      dsimp only
      constructor
      · rintro (hk | hk)
        · exact f.secret_le k hk
        · have := (inv.revoked k).1 hk
          have := f.next_mono
          omega
      · intro hk
        by_cases hold : k + 2 ≤ s.mem.next
        · exact Or.inr ((inv.revoked k).2 hold)
        · have adv := f.adv_secret (by omega)
          have h1 : s.mem.next ≥ 1 := by omega
          have := adv.2 h1
          refine Or.inl ?_
          rw [this]
          congr 1
          omega
    · rintro ⟨n, hn⟩ k hk
      have old := inv.signed n hn
      have hle := f.secret_le k hk
      refine (inv.revoked k).2 ?_
      rcases f.adv_closed old.1 with h1 | ⟨_, h1⟩
      · omega
      · omega

theorem runK (F : Nat → Bytes → Bytes) (ops : List Op) (s : Sys) (h : Hist)
    (inv : K s h) (nn : NoNewAfterSign h) :
    K (runH F s h ops).1 (runH F s h ops).2 ∧ NoNewAfterSign (runH F s h ops).2 := by
  induction ops generalizing s h with
  | nil => exact ⟨inv, nn⟩
  | cons op rest ih =>
    have st := K_step F inv op
    exact ih _ _ st.1 ⟨st.2, nn⟩

end VlsModel.Enforcement
