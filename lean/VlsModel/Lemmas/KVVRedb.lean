import VlsModel.Lemmas.KVV
/- Helper lemmas for property C16: the redb backend (table + cached versions, staged batches). -/
namespace VlsModel.KVV

theorem lookup_rebuild (t : Tab) (k : Key) : lookup (Redb.rebuild t) k = (lookup t k).map (·.1) := by
  induction t with
  | nil => rfl
  | cons e t ih =>
    simp only [Redb.rebuild, List.map_cons, lookup]
    split
    · rfl
    · exact ih

/-- two sorted tables with the same lookups are the same list -/
theorem sorted_ext {α : Type} {t t' : AL α} (hs : Sorted t) (hs' : Sorted t')
    (h : ∀ k, lookup t k = lookup t' k) : t = t' := by
  induction t generalizing t' with
  | nil =>
    cases t' with
    | nil => rfl
    | cons e' t' => have := h e'.1; simp [lookup] at this
  | cons e t ih =>
    cases t' with
    | nil => have := h e.1; simp [lookup] at this
    | cons e' t' =>
      obtain ⟨k, a⟩ := e
      obtain ⟨k', a'⟩ := e'
      obtain ⟨h1, h2⟩ := hs
      obtain ⟨h1', h2'⟩ := hs'
      have hk : k = k' := by
        rcases Nat.lt_trichotomy k k' with hlt | heq | hgt
        · have := h k
          simp only [lookup, if_pos] at this
          rw [if_neg (by komega)] at this
          rw [lookup_none_of_lt (fun e he => by have := h1' e he; simp at this; komega)] at this
          cases this
        · exact heq
        · have := h k'
          simp only [lookup, if_pos] at this
          rw [if_neg (by komega)] at this
          rw [lookup_none_of_lt (fun e he => by have := h1 e he; simp at this; komega)] at this
          cases this
      subst hk
      have ha : a = a' := by have := h k; simpa [lookup] using this
      subst ha
      congr 1
      apply ih h2 h2'
      intro j
      by_cases hj : k = j
      · subst hj
        rw [lookup_none_of_lt (fun e he => by have := h1 e he; simpa using this),
            lookup_none_of_lt (fun e he => by have := h1' e he; simpa using this)]
      · have := h j; simpa [lookup, hj] using this

namespace Redb

/-- the table is in key order and the cached versions are exactly the versions in the table -/
structure Inv (s : Redb) : Prop where
  sorted : Sorted s.tab
  cache : ∀ k, lookup s.cache k = (lookup s.tab k).map (·.1)

theorem inv_empty : Inv Redb.empty := ⟨trivial, fun _ => rfl⟩

theorem inv_reopen {s : Redb} (h : Sorted s.tab) : Inv (reopen s) :=
  ⟨h, fun k => lookup_rebuild s.tab k⟩

/-- `put_with_version`: same decision and same table as the memory store -/
theorem putV_sim {s : Redb} (h : Inv s) (k : Key) (v : Nat) (x : Val) :
    (putV s k v x).1.tab = (Mem.putV s.tab k v x).1 ∧ (putV s k v x).2 = (Mem.putV s.tab k v x).2 ∧
      Inv (putV s k v x).1 := by
  unfold putV Mem.putV
  rw [h.cache k]
  cases hl : lookup s.tab k with
  | none =>
    refine ⟨rfl, rfl, sorted_insert _ _ h.sorted, ?_⟩
    intro j; by_cases hj : k = j <;> simp [lookup_insert, h.cache j, hj]
  | some r0 =>
    obtain ⟨v0, x0⟩ := r0
    simp only [Option.map_some]
    split
    · exact ⟨rfl, rfl, h⟩
    · split
      · rename_i hlt heq
        subst heq
        by_cases hx : x0 = x
        · subst hx; simp [h]
        · have : ¬ ((v, x0) = (v, x)) := by simp [hx]
          simp [hx, h]
      · refine ⟨rfl, rfl, sorted_insert _ _ h.sorted, ?_⟩
        intro j; by_cases hj : k = j <;> simp [lookup_insert, h.cache j, hj]

theorem put_sim {s : Redb} (h : Inv s) (k : Key) (x : Val) :
    (put s k x).1.tab = (Mem.put s.tab k x).1 ∧ (put s k x).2 = (Mem.put s.tab k x).2 ∧
      Inv (put s k x).1 := by
  unfold put Mem.put
  rw [h.cache k]
  split
  · exact ⟨rfl, rfl, h⟩
  · exact putV_sim h _ _ _

/-! ### the `put_batch` loop -/

/-- invariant of the loop after the entries `done` -/
structure LoopInv (s : Redb) (done : List (Key × Rec)) (a : Acc) : Prop where
  np : a.panicked = false
  st : Sorted a.tab
  ss : Sorted a.staged
  each : ∀ k, (lookup a.staged k = none ∧ lookup a.tab k = lookup s.tab k) ∨
      (∃ r, lookup a.tab k = some r ∧ lookup a.staged k = some r.1 ∧ (k, r) ∈ done ∧
        (a.bad = false → ∀ r0, lookup s.tab k = some r0 → r0.1 < r.1))
  /-- unless a mismatch was found, the staged table is what inserting all entries in order gives -/
  seq : a.bad = false → ∀ k, lookup a.tab k = lookup (insertAll s.tab done) k
  /-- unless a mismatch was found, every entry passed the memory store's test as well -/
  okm : a.bad = false → done.all (entryOk s.tab) = true

theorem insertAll_snoc {α : Type} (t : AL α) (es : List (Key × α)) (e : Key × α) :
    insertAll t (es ++ [e]) = insert (insertAll t es) e.1 e.2 := by
  simp [insertAll, List.foldl_append]

theorem loopInv_init (s : Redb) (h : Inv s) : LoopInv s [] ⟨s.tab, [], false, false⟩ :=
  ⟨rfl, h.sorted, trivial, fun _ => Or.inl ⟨rfl, rfl⟩, fun _ _ => rfl, fun _ => rfl⟩

/-- the insert branch of one iteration -/
theorem loopInv_insert {s : Redb} {done : List (Key × Rec)} {a : Acc} (e : Key × Rec) (b : Bool)
    (li : LoopInv s done a) (hb : a.bad = true → b = true)
    (hnew : b = false → (∀ r0, lookup s.tab e.1 = some r0 → r0.1 < e.2.1)) :
    LoopInv s (done ++ [e])
      { a with bad := b, tab := insert a.tab e.1 e.2, staged := insert a.staged e.1 e.2.1 } := by
  have hb' : b = false → a.bad = false := by
    intro h; cases hbad : a.bad with
    | false => rfl
    | true => rw [hb hbad] at h; cases h
  refine ⟨li.np, sorted_insert _ _ li.st, sorted_insert _ _ li.ss, ?_, ?_, ?_⟩
  · intro k
    by_cases hk : e.1 = k
    · right; subst hk
      exact ⟨e.2, lookup_insert_self _ _ _, lookup_insert_self _ _ _, by simp, hnew⟩
    · rcases li.each k with ⟨h1, h2⟩ | ⟨r, h1, h2, h3, h4⟩
      · left; simp only [lookup_insert_ne _ _ hk]; exact ⟨h1, h2⟩
      · right; refine ⟨r, ?_, ?_, by simp [h3], fun hbf => h4 (hb' hbf)⟩
        · simp only [lookup_insert_ne _ _ hk]; exact h1
        · simp only [lookup_insert_ne _ _ hk]; exact h2
  · intro hbf k
    simp only [insertAll_snoc, lookup_insert, li.seq (hb' hbf) k]
  · intro hbf
    simp only [List.all_append, li.okm (hb' hbf), List.all_cons, List.all_nil, Bool.and_true, Bool.true_and]
    rw [entryOk_iff]
    intro r0 hr0
    exact Or.inl (hnew hbf r0 hr0)

theorem loopInv_step {s : Redb} (h : Inv s) {done : List (Key × Rec)} {a : Acc} (e : Key × Rec)
    (li : LoopInv s done a) : LoopInv s (done ++ [e]) (batchStep s.cache a e) := by
  unfold batchStep
  rw [h.cache e.1]
  cases hl : lookup s.tab e.1 with
  | none =>
    simp only [Option.map_none]
    have := loopInv_insert e a.bad li (fun hb => hb) (fun _ r0 hr0 => by rw [hl] at hr0; cases hr0)
    simpa using this
  | some r0 =>
    obtain ⟨v0, x0⟩ := r0
    simp only [Option.map_some]
    split
    · exact loopInv_insert e true li (fun _ => rfl) (fun hb => by cases hb)
    · split
      · rename_i hge heq
        -- same version as the cached one: compare with the staged table
        cases hs : lookup a.tab e.1 with
        | none =>
          exfalso
          rcases li.each e.1 with ⟨_, h2⟩ | ⟨r, h1, _⟩
          · rw [hs, hl] at h2; cases h2
          · rw [hs] at h1; cases h1
        | some r =>
          simp only []
          have hmem : ∀ {b : Bool}, LoopInv s (done ++ [e]) { a with bad := b } → True := fun _ => trivial
          by_cases hr : r = e.2
          · simp only [hr, if_true]
            refine ⟨li.np, li.st, li.ss, ?_, ?_, ?_⟩
            · intro k
              rcases li.each k with h1 | ⟨r', h1, h2, h3, h4⟩
              · exact Or.inl h1
              · exact Or.inr ⟨r', h1, h2, by simp [h3], h4⟩
            · intro hbf k
              simp only [insertAll_snoc, lookup_insert, ← li.seq hbf k]
              split
              · subst_vars; rw [hs]
              · rfl
            · intro hbf
              simp only [List.all_append, li.okm hbf, List.all_cons, List.all_nil, Bool.and_true, Bool.true_and]
              rw [entryOk_iff]
              intro r0' hr0'
              rw [hl] at hr0'; cases hr0'
              rcases li.each e.1 with ⟨_, h2⟩ | ⟨r', h1, _, _, h4⟩
              · rw [hs, hl] at h2; cases h2; exact Or.inr hr
              · rw [hs] at h1; cases h1
                have := h4 hbf _ hl
                rw [hr] at this; simp at this; omega
          · simp only [hr, if_false]
            refine ⟨li.np, li.st, li.ss, ?_, ?_, ?_⟩
            · intro k
              rcases li.each k with h1 | ⟨r', h1, h2, h3, _⟩
              · exact Or.inl h1
              · exact Or.inr ⟨r', h1, h2, by simp [h3], fun hb => by simp at hb⟩
            · intro hb; simp at hb
            · intro hb; simp at hb
      · rename_i hge hne
        have := loopInv_insert e a.bad li (fun hb => hb)
          (fun _ r0' hr0' => by rw [hl] at hr0'; cases hr0'; simp; omega)
        simpa using this

theorem loopInv_fold {s : Redb} (h : Inv s) (es done : List (Key × Rec)) (a : Acc)
    (li : LoopInv s done a) : LoopInv s (done ++ es) (es.foldl (batchStep s.cache) a) := by
  induction es generalizing done a with
  | nil => simpa using li
  | cons e es ih =>
    have := ih (done ++ [e]) _ (loopInv_step h e li)
    simpa [List.append_assoc] using this

theorem loopInv_loop {s : Redb} (h : Inv s) (es : List (Key × Rec)) : LoopInv s es (batchLoop s es) := by
  have := loopInv_fold h es [] _ (loopInv_init s h)
  simpa [batchLoop] using this

/-- a redb batch never hits the `unwrap` panic, leaves the store untouched when refused, and when
    accepted produces exactly the table that inserting the entries in order produces — which the
    memory store would have accepted too -/
theorem batch_spec {s : Redb} (h : Inv s) (es : List (Key × Rec)) :
    ((batch s es).2 = .mismatch ∧ (batch s es).1 = s) ∨
    ((batch s es).2 = .ok ∧ (batch s es).1.tab = insertAll s.tab es ∧ Inv (batch s es).1 ∧
      es.all (entryOk s.tab) = true) := by
  have li := loopInv_loop h es
  unfold batch
  simp only [li.np, Bool.false_eq_true, if_false]
  cases hb : (batchLoop s es).bad with
  | true => left; simp
  | false =>
    right
    simp only [Bool.false_eq_true, if_false]
    have htab : (batchLoop s es).tab = insertAll s.tab es :=
      sorted_ext li.st (sorted_insertAll _ h.sorted) (li.seq hb)
    refine ⟨by first | rfl | trivial, htab, ⟨li.st, ?_⟩, li.okm hb⟩
    intro k
    simp only [lookup_insertAll_sorted _ _ _ li.ss]
    rcases li.each k with ⟨h1, h2⟩ | ⟨r, h1, h2, _, _⟩
    · simp only [h1, h2, h.cache k]
    · simp only [h1, h2, Option.map_some]

/-- with pairwise distinct keys in the batch the two acceptance tests coincide -/
theorem batch_bad_distinct {s : Redb} (h : Inv s) (es done : List (Key × Rec)) (a : Acc)
    (li : LoopInv s done a) (hd : ((done ++ es).map (·.1)).Nodup)
    (hbad : a.bad = !(done.all (entryOk s.tab))) :
    (es.foldl (batchStep s.cache) a).bad = !((done ++ es).all (entryOk s.tab)) := by
  induction es generalizing done a with
  | nil => simpa using hbad
  | cons e es ih =>
    have hnot : ∀ r, (e.1, r) ∉ done := by
      intro r hr
      rw [List.map_append, List.nodup_append] at hd
      have := hd.2.2 e.1 (List.mem_map.2 ⟨(e.1, r), hr, rfl⟩) e.1 (by simp)
      exact this rfl
    have hsame : lookup a.tab e.1 = lookup s.tab e.1 := by
      rcases li.each e.1 with ⟨_, h2⟩ | ⟨r, _, _, h3, _⟩
      · exact h2
      · exact absurd h3 (hnot r)
    have hstep : (batchStep s.cache a e).bad = !((done ++ [e]).all (entryOk s.tab)) := by
      simp only [List.all_append, List.all_cons, List.all_nil, Bool.and_true, Bool.not_and, ← hbad]
      unfold batchStep entryOk
      rw [h.cache e.1, hsame]
      cases hl : lookup s.tab e.1 with
      | none => simp
      | some r0 =>
        obtain ⟨v0, x0⟩ := r0
        simp only [Option.map_some]
        split
        · simp
        · split
          · rename_i heq
            obtain ⟨k, v, x⟩ := e
            simp only at heq
            subst heq
            by_cases hx : x0 = x
            · subst hx; simp
            · have : ¬ ((v, x0) = (v, x)) := by simp [hx]
              simp [hx, this]
          · simp
    have := ih (done ++ [e]) _ (loopInv_step h e li) (by simpa [List.append_assoc] using hd) hstep
    simpa [List.append_assoc] using this

/-- `put_batch` with distinct keys: same decision and same table as the memory store -/
theorem batch_sim {s : Redb} (h : Inv s) (es : List (Key × Rec)) (hd : (es.map (·.1)).Nodup) :
    (batch s es).1.tab = (Mem.batch s.tab es).1 ∧ (batch s es).2 = (Mem.batch s.tab es).2 := by
  have hbad := batch_bad_distinct h es [] _ (loopInv_init s h) (by simpa using hd) rfl
  have li := loopInv_loop h es
  have hspec := batch_spec h es
  simp only [List.nil_append] at hbad
  change (batchLoop s es).bad = _ at hbad
  unfold Mem.batch
  unfold batch at hspec ⊢
  simp only [li.np, Bool.false_eq_true, if_false] at hspec ⊢
  cases hall : es.all (entryOk s.tab) with
  | true =>
    rw [hall] at hbad; simp only [Bool.not_true] at hbad
    simp only [hbad, Bool.false_eq_true, if_false, if_true] at hspec ⊢
    rcases hspec with ⟨h1, _⟩ | ⟨_, h2, _, _⟩
    · cases h1
    · exact ⟨h2, by first | rfl | trivial⟩
  | false =>
    rw [hall] at hbad; simp only [Bool.not_false] at hbad
    simp [hbad]

end Redb
end VlsModel.KVV
