import VlsModel.Lemmas.KVV
/- Helper lemmas for property C16: the redb backend (table + cached versions, staged batches). -/
namespace VlsModel.KVV

theorem lookup_rebuild (t : Tab) (k : Key) : lookup (Redb.rebuild t) k = (lookup t k).map (·.1) := by
  induction t with
  | nil => rfl
  | cons e t ih =>
    simp only [Redb.rebuild, List.map_cons, lookup]
    split
    · rfl
    · exact ih

/-- two sorted tables with the same lookups are the same list -/
theorem sorted_ext {α : Type} {t t' : AL α} (hs : Sorted t) (hs' : Sorted t')
    (h : ∀ k, lookup t k = lookup t' k) : t = t' := by
  induction t generalizing t' with
  | nil =>
    cases t' with
    | nil => rfl
    | cons e' t' => have := h e'.1; simp [lookup] at this
  | cons e t ih =>
    cases t' with
    | nil => have := h e.1; simp [lookup] at this
    | cons e' t' =>
      obtain ⟨k, a⟩ := e
      obtain ⟨k', a'⟩ := e'
      obtain ⟨h1, h2⟩ := hs
      obtain ⟨h1', h2'⟩ := hs'
      have hk : k = k' := by
        rcases Nat.lt_trichotomy k k' with hlt | heq | hgt
        · have := h k
          simp only [lookup, if_pos] at this
          rw [if_neg (by komega)] at this
          rw [lookup_none_of_lt (fun e he => by have := h1' e he; simp at this; komega)] at this
          cases this
        · exact heq
        · have := h k'
          simp only [lookup, if_pos] at this
          rw [if_neg (by komega)] at this
          rw [lookup_none_of_lt (fun e he => by have := h1 e he; simp at this; komega)] at this
          cases this
      subst hk
      have ha : a = a' := by have := h k; simpa [lookup] using this
      subst ha
      congr 1
      apply ih h2 h2'
      intro j
      by_cases hj : k = j
      · subst hj
        rw [lookup_none_of_lt (fun e he => by have := h1 e he; simpa using this),
            lookup_none_of_lt (fun e he => by have := h1' e he; simpa using this)]
      · have := h j; simpa [lookup, hj] using this

theorem lookup_insertAll_olookup {α : Type} (es : AL α) (t : AL α) (k : Key) (hs : Sorted es) :
    lookup (insertAll t es) k = olookup es t k := by
  rw [lookup_insertAll_sorted _ _ _ hs]
  unfold olookup
  cases lookup es k <;> rfl

namespace Redb

/-- the table is in key order and the cached versions are exactly the versions in the table -/
structure Inv (s : Redb) : Prop where
  sorted : Sorted s.tab
  cache : ∀ k, lookup s.cache k = (lookup s.tab k).map (·.1)

theorem inv_empty : Inv Redb.empty := ⟨trivial, fun _ => rfl⟩

theorem inv_reopen {s : Redb} (h : Sorted s.tab) : Inv (reopen s) :=
  ⟨h, fun k => lookup_rebuild s.tab k⟩

/-- `put_with_version`: same decision and same table as the memory store -/
theorem putV_sim {s : Redb} (h : Inv s) (k : Key) (v : Nat) (x : Val) :
    (putV s k v x).1.tab = (Mem.putV s.tab k v x).1 ∧ (putV s k v x).2 = (Mem.putV s.tab k v x).2 ∧
      Inv (putV s k v x).1 := by
  unfold putV Mem.putV
  rw [h.cache k]
  cases hl : lookup s.tab k with
  | none =>
    refine ⟨rfl, rfl, sorted_insert _ _ h.sorted, ?_⟩
    intro j; by_cases hj : k = j <;> simp [lookup_insert, h.cache j, hj]
  | some r0 =>
    obtain ⟨v0, x0⟩ := r0
    simp only [Option.map_some]
    split
    · exact ⟨rfl, rfl, h⟩
    · split
      · rename_i hlt heq
        subst heq
        by_cases hx : x0 = x
        · subst hx; simp [h]
        · have : ¬ ((v, x0) = (v, x)) := by simp [hx]
          simp [hx, h]
      · refine ⟨rfl, rfl, sorted_insert _ _ h.sorted, ?_⟩
        intro j; by_cases hj : k = j <;> simp [lookup_insert, h.cache j, hj]

theorem put_sim {s : Redb} (h : Inv s) (k : Key) (x : Val) :
    (put s k x).1.tab = (Mem.put s.tab k x).1 ∧ (put s k x).2 = (Mem.put s.tab k x).2 ∧
      Inv (put s k x).1 := by
  unfold put Mem.put
  rw [h.cache k]
  split
  · exact ⟨rfl, rfl, h⟩
  · exact putV_sim h _ _ _

/-! ### the `put_batch` loop (after the F8 fix) -/

theorem insertAll_snoc {α : Type} (t : AL α) (es : List (Key × α)) (e : Key × α) :
    insertAll t (es ++ [e]) = insert (insertAll t es) e.1 e.2 := by
  simp [insertAll, List.foldl_append]

/-- the part of the loop invariant that does not depend on the mismatch flag -/
structure LoopBase (s : Redb) (a : Acc) : Prop where
  np : a.panicked = false
  st : Sorted a.tab
  ss : Sorted a.staged
  /-- a key with a (staged or cached) version is in the staged table: the `unwrap` cannot fire -/
  dom : ∀ k, (olookup a.staged s.cache k).isSome = true → (lookup a.tab k).isSome = true

theorem loopBase_init (s : Redb) (h : Inv s) : LoopBase s ⟨s.tab, [], false, false⟩ := by
  refine ⟨rfl, h.sorted, trivial, ?_⟩
  intro k hk
  simp only [olookup, lookup, h.cache k] at hk
  cases hl : lookup s.tab k with
  | none => rw [hl] at hk; simp at hk
  | some _ => rfl

theorem loopBase_insert {s : Redb} {a : Acc} (lb : LoopBase s a) (e : Key × Rec) (b : Bool) :
    LoopBase s { a with bad := b, tab := insert a.tab e.1 e.2, staged := insert a.staged e.1 e.2.1 } := by
  refine ⟨lb.np, sorted_insert _ _ lb.st, sorted_insert _ _ lb.ss, ?_⟩
  intro k hk
  simp only [Mem.olookup_insert, lookup_insert] at hk ⊢
  by_cases he : e.1 = k
  · simp [he]
  · simp only [he, if_false] at hk ⊢
    exact lb.dom k hk

theorem loopBase_step {s : Redb} {a : Acc} (lb : LoopBase s a) (e : Key × Rec) :
    LoopBase s (batchStep s.cache a e) := by
  unfold batchStep
  cases hv : olookup a.staged s.cache e.1 with
  | none => exact loopBase_insert lb e a.bad
  | some v0 =>
    simp only []
    split
    · exact loopBase_insert lb e true
    · split
      · have := lb.dom e.1 (by rw [hv]; rfl)
        cases hs : lookup a.tab e.1 with
        | none => rw [hs] at this; cases this
        | some r =>
          simp only []
          split
          · exact lb
          · exact ⟨lb.np, lb.st, lb.ss, lb.dom⟩
      · exact loopBase_insert lb e a.bad

theorem batchStep_bad_mono (c : AL Nat) (a : Acc) (e : Key × Rec) (h : a.bad = true) :
    (batchStep c a e).bad = true := by
  unfold batchStep
  repeat' split
  all_goals first | exact h | rfl

/-- invariant of the loop after the entries `done`, relative to the sequential reference -/
structure LoopInv (s : Redb) (done : List (Key × Rec)) (a : Acc) : Prop where
  base : LoopBase s a
  /-- no mismatch so far: the reference accepted `done`, the staged table answers as the reference table,
      and the staged-or-cached versions are the versions of the reference table -/
  good : a.bad = false → ∃ T, Mem.seqRun s.tab done = some T ∧ (∀ k, lookup a.tab k = lookup T k) ∧
      (∀ k, olookup a.staged s.cache k = (lookup T k).map (·.1))
  /-- a mismatch was found: the reference refuses `done` as well -/
  badc : a.bad = true → Mem.seqRun s.tab done = none

theorem loopInv_init (s : Redb) (h : Inv s) : LoopInv s [] ⟨s.tab, [], false, false⟩ :=
  ⟨loopBase_init s h, fun _ => ⟨s.tab, rfl, fun _ => rfl, fun k => by simp [olookup, lookup, h.cache k]⟩,
   fun hb => by cases hb⟩

theorem loopInv_step {s : Redb} {done : List (Key × Rec)} {a : Acc} (e : Key × Rec)
    (li : LoopInv s done a) : LoopInv s (done ++ [e]) (batchStep s.cache a e) := by
  refine ⟨loopBase_step li.base e, ?_, ?_⟩
  · intro hb'
    cases hb : a.bad with
    | true => rw [batchStep_bad_mono _ _ _ hb] at hb'; cases hb'
    | false =>
      obtain ⟨T, hT, htab, hver⟩ := li.good hb
      have hins : ∀ r : Rec, (∀ k, lookup (insert a.tab e.1 r) k = lookup (insert T e.1 r) k) ∧
          (∀ k, olookup (insert a.staged e.1 r.1) s.cache k = (lookup (insert T e.1 r) k).map (·.1)) := by
        intro r
        refine ⟨fun k => by rw [lookup_insert, lookup_insert, htab k], fun k => ?_⟩
        rw [Mem.olookup_insert, lookup_insert, hver k]
        split <;> rfl
      revert hb'
      rw [Mem.seqRun_snoc, hT]
      simp only []
      rw [Mem.putV?_eq]
      unfold batchStep
      rw [hver e.1]
      cases hl : lookup T e.1 with
      | none =>
        intro _
        exact ⟨insert T e.1 e.2, rfl, (hins e.2).1, (hins e.2).2⟩
      | some r0 =>
        obtain ⟨v0, x0⟩ := r0
        simp only [Option.map_some]
        split
        · intro hb'; cases hb'
        · split
          · rename_i hlt heq
            have hs : lookup a.tab e.1 = some (v0, x0) := by rw [htab e.1, hl]
            rw [hs]
            simp only []
            by_cases hx : x0 = e.2.2
            · have : (v0, x0) = e.2 := by
                cases e with | mk k r => cases r; simp_all
              rw [if_pos this, if_pos hx]
              intro _
              exact ⟨T, rfl, htab, hver⟩
            · have : ¬ ((v0, x0) = e.2) := by
                intro h'; apply hx; rw [← h']
              simp only [this, if_false]
              intro hb'; cases hb'
          · intro _
            exact ⟨insert T e.1 e.2, rfl, (hins e.2).1, (hins e.2).2⟩
  · intro hb'
    cases hb : a.bad with
    | true => rw [Mem.seqRun_snoc, li.badc hb]
    | false =>
      obtain ⟨T, hT, htab, hver⟩ := li.good hb
      revert hb'
      rw [Mem.seqRun_snoc, hT]
      simp only []
      rw [Mem.putV?_eq]
      unfold batchStep
      rw [hver e.1]
      cases hl : lookup T e.1 with
      | none => intro hb'; simp only [Option.map_none] at hb'; rw [hb] at hb'; cases hb'
      | some r0 =>
        obtain ⟨v0, x0⟩ := r0
        simp only [Option.map_some]
        split
        · intro _; rfl
        · split
          · rename_i hlt heq
            have hs : lookup a.tab e.1 = some (v0, x0) := by rw [htab e.1, hl]
            rw [hs]
            simp only []
            by_cases hx : x0 = e.2.2
            · have : (v0, x0) = e.2 := by
                cases e with | mk k r => cases r; simp_all
              simp only [this, if_true]
              intro hb'; rw [hb] at hb'; cases hb'
            · have : ¬ ((v0, x0) = e.2) := by
                intro h'; apply hx; rw [← h']
              simp only [this, hx, if_false]
              intro _; first | rfl | trivial
          · intro hb'; simp only [] at hb'; rw [hb] at hb'; cases hb'

theorem loopInv_fold {s : Redb} (es done : List (Key × Rec)) (a : Acc)
    (li : LoopInv s done a) : LoopInv s (done ++ es) (es.foldl (batchStep s.cache) a) := by
  induction es generalizing done a with
  | nil => simpa using li
  | cons e es ih =>
    have := ih (done ++ [e]) _ (loopInv_step e li)
    simpa [List.append_assoc] using this

theorem loopInv_loop {s : Redb} (h : Inv s) (es : List (Key × Rec)) : LoopInv s es (batchLoop s es) := by
  have := loopInv_fold es [] _ (loopInv_init s h)
  simpa [batchLoop] using this

/-- the repaired redb `put_batch` = the sequence of `put_with_version` calls, all or nothing: it never
    hits the `unwrap` panic, leaves table and cache untouched when the sequence is refused, and otherwise
    ends with the table that inserting all entries in order gives, the invariant re-established -/
theorem batch_spec {s : Redb} (h : Inv s) (es : List (Key × Rec)) :
    (Mem.seqRun s.tab es = none ∧ batch s es = (s, .mismatch)) ∨
    (∃ T, Mem.seqRun s.tab es = some T ∧ (batch s es).2 = .ok ∧
      (batch s es).1.tab = insertAll s.tab es ∧ Inv (batch s es).1) := by
  have li := loopInv_loop h es
  unfold batch
  simp only [li.base.np, Bool.false_eq_true, if_false]
  cases hb : (batchLoop s es).bad with
  | true => left; exact ⟨li.badc hb, by simp⟩
  | false =>
    right
    obtain ⟨T, hT, htab, hver⟩ := li.good hb
    simp only [Bool.false_eq_true, if_false]
    have heq : (batchLoop s es).tab = insertAll s.tab es :=
      sorted_ext li.base.st (sorted_insertAll _ h.sorted)
        (fun k => by rw [htab k, Mem.seqRun_lookup (fun _ => rfl) hT k])
    refine ⟨T, hT, by first | rfl | trivial, heq, ⟨li.base.st, ?_⟩⟩
    intro k
    show lookup (insertAll s.cache (batchLoop s es).staged) k = _
    rw [lookup_insertAll_olookup _ _ _ li.base.ss, hver k, htab k]

/-- `put_batch`: same decision and same table as the memory store, for every batch -/
theorem batch_sim {s : Redb} (h : Inv s) (es : List (Key × Rec)) :
    (batch s es).1.tab = (Mem.batch s.tab es).1 ∧ (batch s es).2 = (Mem.batch s.tab es).2 := by
  rcases batch_spec h es with ⟨h1, h2⟩ | ⟨T, h1, h2, h3, _⟩
  · rcases Mem.batch_spec s.tab es with ⟨_, m2⟩ | ⟨T', m1, _⟩
    · rw [h2, m2]; exact ⟨rfl, rfl⟩
    · rw [h1] at m1; cases m1
  · rcases Mem.batch_spec s.tab es with ⟨m1, _⟩ | ⟨T', _, m2, _⟩
    · rw [h1] at m1; cases m1
    · rw [m2]; exact ⟨h3, h2⟩

end Redb
end VlsModel.KVV
