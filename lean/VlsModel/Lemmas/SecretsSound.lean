import VlsModel.Lemmas.Secrets
/-
Retrievability of the compact secret store: after consecutive descending accepted `provide_secret`
calls from index 2^48-1, `get_secret` returns every provided secret — for every derivation step `F`.
No Mathlib.
-/
namespace VlsModel.Secrets

theorem hi_eq (p j : Nat) : hi p j = j / 2 ^ p * 2 ^ p := by
  unfold hi
  rw [Nat.shiftLeft_eq, Nat.shiftRight_eq_div_pow]

theorem two_pow_pos' (p : Nat) : 0 < 2 ^ p := Nat.pos_of_ne_zero (by exact Nat.ne_of_gt (Nat.two_pow_pos p))

theorem hi_le (p j : Nat) : hi p j ≤ j := by
  rw [hi_eq]; exact Nat.div_mul_le_self j (2 ^ p)

theorem lt_hi_add (p j : Nat) : j < hi p j + 2 ^ p := by
  rw [hi_eq]
  have h := Nat.div_add_mod j (2 ^ p)
  have h2 := Nat.mod_lt j (two_pow_pos' p)
  rw [Nat.mul_comm] at h
  omega

theorem hi_dvd (p j : Nat) : 2 ^ p ∣ hi p j := by
  rw [hi_eq]; exact Nat.dvd_mul_left _ _

/-- `x` is the `2^p`-aligned block start of `j` -/
theorem hi_of_range {p x j : Nat} (hd : 2 ^ p ∣ x) (h1 : x ≤ j) (h2 : j < x + 2 ^ p) : hi p j = x := by
  obtain ⟨a, rfl⟩ := hd
  rw [hi_eq]
  have hP := two_pow_pos' p
  have : j / 2 ^ p = a := by
    apply Nat.div_eq_of_lt_le
    · rw [Nat.mul_comm]; exact h1
    · rw [Nat.succ_mul, Nat.mul_comm]; exact h2
  rw [this, Nat.mul_comm]

theorem mod_two_pow_of_clear (x : Nat) : ∀ p, (∀ b, b < p → x.testBit b = false) → x % 2 ^ p = 0 := by
  intro p h
  apply Nat.eq_of_testBit_eq
  intro i
  rw [Nat.testBit_mod_two_pow, Nat.zero_testBit]
  by_cases hi' : i < p
  · simp [hi', h i hi']
  · simp [hi']

theorem place_dvd (x : Nat) : 2 ^ place x ∣ x :=
  Nat.dvd_of_mod_eq_zero (mod_two_pow_of_clear x (place x) (fun b hb => place_clear x b hb))

theorem placeFrom_set (idx : Nat) : ∀ fuel i, i + fuel ≤ 48 → placeFrom idx i fuel < i + fuel →
    idx.testBit (placeFrom idx i fuel) = true
  | 0, i, hb, h => by simp [placeFrom] at h; omega
  | fuel + 1, i, hb, h => by
    unfold placeFrom at h ⊢
    split
    · assumption
    · rename_i hbit
      rw [if_neg hbit] at h
      exact placeFrom_set idx fuel (i + 1) (by omega) (by omega)

theorem placeFrom_ge (idx : Nat) : ∀ fuel i, i + fuel ≤ 48 → (placeFrom idx i fuel = 48 ∨ placeFrom idx i fuel < i + fuel)
  | 0, i, h => by simp [placeFrom]
  | fuel + 1, i, h => by
    unfold placeFrom
    split
    · right; omega
    · rcases placeFrom_ge idx fuel (i + 1) (by omega) with h1 | h1
      · left; exact h1
      · right; omega

theorem place_set (x : Nat) (h : place x < 48) : x.testBit (place x) = true := by
  unfold place at h ⊢
  rcases placeFrom_ge x 48 0 (by omega) with h1 | h1
  · omega
  · exact placeFrom_set x 48 0 (by omega) h1

/-- below 48 the place is exact: the next power of two does not divide -/
theorem place_not_dvd (x : Nat) (h : place x < 48) : ¬ 2 ^ (place x + 1) ∣ x := by
  intro hd
  have hs := place_set x h
  have : x % 2 ^ (place x + 1) = 0 := Nat.mod_eq_zero_of_dvd hd
  have hb : (x % 2 ^ (place x + 1)).testBit (place x) = true := by
    rw [Nat.testBit_mod_two_pow]; simp [hs]
  rw [this, Nat.zero_testBit] at hb
  cases hb

theorem pow_dvd_pow_two {a b : Nat} (h : a ≤ b) : 2 ^ a ∣ 2 ^ b := Nat.pow_dvd_pow 2 h

/-- characterisation of `place` by divisibility -/
theorem place_unique {x p : Nat} (hp : p < 48) (hd : 2 ^ p ∣ x) (hn : ¬ 2 ^ (p + 1) ∣ x) : place x = p := by
  have h48 := place_le x
  by_cases hlt : place x < p
  · exact absurd (Nat.dvd_trans (pow_dvd_pow_two (by omega)) hd) (place_not_dvd x (by omega))
  · by_cases hgt : p < place x
    · exact absurd (Nat.dvd_trans (pow_dvd_pow_two (by omega)) (place_dvd x)) hn
    · omega

theorem le_minSeen {S : Type} (m : Nat) : ∀ (st : Store S) (acc : Nat), m ≤ acc → (∀ e ∈ st, m ≤ e.2) →
    m ≤ st.foldl (fun a e => if e.2 < a then e.2 else a) acc
  | [], acc, h, _ => h
  | e :: rest, acc, h, he => by
    simp only [List.foldl_cons]
    apply le_minSeen m rest
    · split
      · exact he e List.mem_cons_self
      · exact h
    · intro e' he'; exact he e' (List.mem_cons_of_mem _ he')

/-- with a fresh (smaller) index an accepted provide really stores the secret -/
theorem provide_strict {S : Type} [DecidableEq S] (F : Nat → S → S) {st st' : Store S} {idx : Nat} {secret : S}
    (h : provide F st idx secret = some st') (hm : idx < minSeen st) :
    (place idx < st.length ∧ st' = st.set (place idx) (secret, idx)) ∨
    (place idx = st.length ∧ st' = st ++ [(secret, idx)]) := by
  unfold provide at h
  dsimp only at h
  split at h
  · cases h
  · split at h
    · cases h
    · split at h
      · omega
      · split at h
        · rename_i hlt
          left; exact ⟨hlt, by simpa using h.symm⟩
        · right
          exact ⟨by omega, by simpa using h.symm⟩

/-! ### arithmetic on aligned blocks -/

theorem no_multiple_between {P a b : Nat} (ha : P ∣ a) (hb : P ∣ b) (h1 : a < b) (h2 : b < a + P) : False := by
  obtain ⟨a', rfl⟩ := ha
  obtain ⟨b', rfl⟩ := hb
  have hP : 0 < P := by
    cases P with
    | zero => simp at h1
    | succ n => exact Nat.succ_pos n
  have hab : a' < b' := Nat.lt_of_mul_lt_mul_left h1
  have : P * (a' + 1) ≤ P * b' := Nat.mul_le_mul_left P hab
  rw [Nat.mul_add, Nat.mul_one] at this
  omega

theorem odd_of_not_dvd {P a : Nat} (hn : ¬ 2 * P ∣ P * a) : a % 2 = 1 := by
  rcases Nat.mod_two_eq_zero_or_one a with h | h
  · exfalso
    apply hn
    refine ⟨a / 2, ?_⟩
    have h2 : 2 * (a / 2) = a := by have := Nat.div_add_mod a 2; omega
    calc P * a = P * (2 * (a / 2)) := by rw [h2]
      _ = 2 * P * (a / 2) := by rw [← Nat.mul_assoc, Nat.mul_comm P 2]
  · exact h

theorem next_block_dvd {P x : Nat} (hd : P ∣ x) (hn : ¬ 2 * P ∣ x) : 2 * P ∣ x + P := by
  obtain ⟨a, rfl⟩ := hd
  have ho := odd_of_not_dvd hn
  refine ⟨(a + 1) / 2, ?_⟩
  have h2 : 2 * ((a + 1) / 2) = a + 1 := by have := Nat.div_add_mod (a + 1) 2; omega
  calc P * a + P = P * (a + 1) := by rw [Nat.mul_add, Nat.mul_one]
    _ = P * (2 * ((a + 1) / 2)) := by rw [h2]
    _ = 2 * P * ((a + 1) / 2) := by rw [← Nat.mul_assoc, Nat.mul_comm P 2]

theorem odd_blocks_apart {P x y : Nat} (hx : P ∣ x) (hy : P ∣ y) (nx : ¬ 2 * P ∣ x) (ny : ¬ 2 * P ∣ y)
    (hlt : x < y) : x + 2 * P ≤ y := by
  obtain ⟨a, rfl⟩ := hx
  obtain ⟨b, rfl⟩ := hy
  have ha := odd_of_not_dvd nx
  have hb := odd_of_not_dvd ny
  have hab : a < b := Nat.lt_of_mul_lt_mul_left hlt
  have : a + 2 ≤ b := by omega
  have := Nat.mul_le_mul_left P this
  rw [Nat.mul_add] at this
  have e : P * 2 = 2 * P := Nat.mul_comm _ _
  omega

theorem not_dvd_add_two {P x : Nat} (nx : ¬ 2 * P ∣ x) : ¬ 2 * P ∣ x + 2 * P := by
  intro h
  apply nx
  have := (Nat.dvd_add_left (Nat.dvd_refl (2 * P))).mp h
  exact this

theorem two_pow_succ' (p : Nat) : 2 ^ (p + 1) = 2 * 2 ^ p := by rw [Nat.pow_succ, Nat.mul_comm]

/-! ### the invariant -/

/-- After all indices `m ≤ j < 2^48` were provided with secrets `sec j`: (A) every slot that covers a
    provided index derives its secret, (B) every provided index is covered, (P) slot `p` holds a provided
    index with exactly `p` trailing zeros, (D) the smallest such index. -/
structure SInv {S : Type} (F : Nat → S → S) (st : Store S) (sec : Nat → S) (m : Nat) : Prop where
  mle : m ≤ N48
  A : ∀ p os oi j, st[p]? = some (os, oi) → m ≤ j → j < N48 → hi p j = oi → derive F os p j = sec j
  B : ∀ j, m ≤ j → j < N48 → ∃ p os oi, st[p]? = some (os, oi) ∧ hi p j = oi
  P : ∀ p os oi, st[p]? = some (os, oi) → place oi = p ∧ m ≤ oi ∧ oi < N48
  D : ∀ p os oi y, st[p]? = some (os, oi) → m ≤ y → y < oi → place y ≠ p

theorem SInv_init {S : Type} (F : Nat → S → S) (sec : Nat → S) : SInv F ([] : Store S) sec N48 :=
  ⟨Nat.le_refl _, by intro p os oi j h; simp at h, by intro j h1 h2; omega,
   by intro p os oi h; simp at h, by intro p os oi y h; simp at h⟩

theorem N48_eq : N48 = 2 ^ 48 := by decide

theorem getElem?_step {S : Type} (st st' : Store S) (pos : Nat) (v : S × Nat)
    (h : (pos < st.length ∧ st' = st.set pos v) ∨ (pos = st.length ∧ st' = st ++ [v])) :
    ∀ p, st'[p]? = if p = pos then some v else st[p]? := by
  intro p
  rcases h with ⟨hl, rfl⟩ | ⟨hl, rfl⟩
  · rw [List.getElem?_set]
    by_cases hp : pos = p
    · subst hp; simp [hl]
    · have : ¬ p = pos := fun e => hp e.symm
      simp [hp, this]
  · by_cases hp : p = pos
    · subst hp; subst hl; simp
    · simp only [hp, ↓reduceIte]
      by_cases hlt : p < st.length
      · rw [List.getElem?_append_left hlt]
      · have : st.length < p := by omega
        rw [List.getElem?_eq_none (by simp; omega), List.getElem?_eq_none (by omega)]

/-- **step**: providing the next lower index with an accepted secret keeps the invariant -/
theorem SInv_step {S : Type} [DecidableEq S] (F : Nat → S → S) {st st' : Store S} {sec : Nat → S} {m : Nat}
    (inv : SInv F st sec m) (hm : 0 < m) (s : S) (h : provide F st (m - 1) s = some st') :
    SInv F st' (fun j => if j = m - 1 then s else sec j) (m - 1) := by
  have hmin : m - 1 < minSeen st := by
    have : m ≤ minSeen st := by
      unfold minSeen
      apply le_minSeen m st N48 inv.mle
      intro e he
      obtain ⟨p, hp, rfl⟩ := List.getElem_of_mem he
      have := inv.P p st[p].1 st[p].2 (by simp [hp])
      exact this.2.1
    omega
  have hstr := provide_strict F h hmin
  have hget := getElem?_step st st' (place (m - 1)) (s, m - 1) hstr
  obtain ⟨hposle, hlow, _⟩ := provide_some F h
  -- the acceptance check in `?` form
  have hlow' : ∀ i os oi, st[i]? = some (os, oi) → i < place (m - 1) → derive F s (place (m - 1)) oi = os := by
    intro i os oi hi' hlt
    obtain ⟨hil, he⟩ := List.getElem?_eq_some_iff.mp hi'
    have := hlow i hil hlt
    rw [he] at this; exact this
  have hdvd := place_dvd (m - 1)
  have hself : hi (place (m - 1)) (m - 1) = m - 1 :=
    hi_of_range hdvd (Nat.le_refl _) (by have := two_pow_pos' (place (m - 1)); omega)
  refine ⟨by have := inv.mle; omega, ?_, ?_, ?_, ?_⟩
  · -- (A)
    intro p os oi j hp hj1 hj2 hcov
    rw [hget p] at hp
    by_cases hpp : p = place (m - 1)
    · simp only [hpp, ↓reduceIte, Option.some.injEq, Prod.mk.injEq] at hp
      obtain ⟨rfl, rfl⟩ := hp
      subst hpp
      by_cases hjm : j = m - 1
      · simp only [hjm, ↓reduceIte]; exact derive_self F _ _
      · simp only [hjm, ↓reduceIte]
        have hj : m ≤ j := by omega
        obtain ⟨i, osi, oii, hi', hcovi⟩ := inv.B j hj hj2
        have hPi := inv.P i osi oii hi'
        have hilt : i < place (m - 1) := by
          refine Classical.byContradiction fun hge => ?_
          have hge : place (m - 1) ≤ i := by omega
          have d1 : 2 ^ place (m - 1) ∣ oii := by
            rw [← hcovi]; exact Nat.dvd_trans (pow_dvd_pow_two hge) (hi_dvd i j)
          have l1 : oii ≤ j := by rw [← hcovi]; exact hi_le i j
          have l2 := lt_hi_add (place (m - 1)) j
          rw [hcov] at l2
          exact no_multiple_between hdvd d1 (by omega) (by omega)
        rw [derive_hi F j i (place (m - 1)) s (by omega), hcovi, hlow' i osi oii hi' hilt]
        exact inv.A i osi oii j hi' hj hj2 hcovi
    · simp only [hpp, ↓reduceIte] at hp
      have hP := inv.P p os oi hp
      by_cases hjm : j = m - 1
      · exfalso
        have := hi_le p j
        omega
      · simp only [hjm, ↓reduceIte]
        exact inv.A p os oi j hp (by omega) hj2 hcov
  · -- (B)
    intro j hj1 hj2
    by_cases hjm : j = m - 1
    · refine ⟨place (m - 1), s, m - 1, ?_, ?_⟩
      · rw [hget]; simp
      · rw [hjm]; exact hself
    · have hj : m ≤ j := by omega
      obtain ⟨p, os, oi, hp, hcov⟩ := inv.B j hj hj2
      by_cases hpp : p = place (m - 1)
      · -- the covering slot is the one being overwritten: the next higher block covers
        subst hpp
        have hP := inv.P (place (m - 1)) os oi hp
        have hD := inv.D (place (m - 1)) os oi
        have h48 : place (m - 1) < 48 := by
          refine Classical.byContradiction fun hge => ?_
          have hpl := place_le (m - 1)
          have e48 : place (m - 1) = 48 := by omega
          have hd48 := place_dvd oi
          rw [hP.1, e48, ← N48_eq] at hd48
          have : oi = 0 := by
            obtain ⟨k, hk⟩ := hd48
            cases k with
            | zero => simpa using hk
            | succ k => rw [Nat.mul_succ] at hk; have := hP.2.2; omega
          omega
        -- notation
        generalize hPdef : 2 ^ place (m - 1) = Pw at *
        have hPpos : 0 < Pw := by rw [← hPdef]; exact two_pow_pos' _
        have n1 : ¬ 2 * Pw ∣ m - 1 := by
          rw [← hPdef, ← two_pow_succ']; exact place_not_dvd (m - 1) h48
        have dI : Pw ∣ oi := by have := place_dvd oi; rw [hP.1, hPdef] at this; exact this
        have nI : ¬ 2 * Pw ∣ oi := by
          have := place_not_dvd oi (by rw [hP.1]; exact h48)
          rw [hP.1, two_pow_succ', hPdef] at this; exact this
        have hIy : m - 1 + 2 * Pw ≤ oi := odd_blocks_apart hdvd dI n1 nI (by omega)
        -- the smallest index ≥ m with this place is m-1+2P, so oi is it
        have hyplace : place (m - 1 + 2 * Pw) = place (m - 1) := by
          apply place_unique h48
          · rw [hPdef]; exact (Nat.dvd_add_right hdvd).mpr ⟨2, by rw [Nat.mul_comm]⟩
          · rw [two_pow_succ', hPdef]; exact not_dvd_add_two n1
        have hIeq : oi = m - 1 + 2 * Pw := by
          refine Classical.byContradiction fun hne => ?_
          exact hD (m - 1 + 2 * Pw) hp (by omega) (by omega) hyplace
        -- x = m-1+P is provided and 2P-aligned
        have dx : 2 * Pw ∣ m - 1 + Pw := next_block_dvd hdvd n1
        obtain ⟨q, osq, oiq, hq, hcovq⟩ := inv.B (m - 1 + Pw) (by omega) (by omega)
        have hPq := inv.P q osq oiq hq
        have hqgt : place (m - 1) < q := by
          refine Classical.byContradiction fun hle => ?_
          have hle : q ≤ place (m - 1) := by omega
          have dq : 2 ^ q ∣ m - 1 + Pw := by
            refine Nat.dvd_trans ?_ dx
            rw [← hPdef, ← two_pow_succ']; exact pow_dvd_pow_two (by omega)
          have : hi q (m - 1 + Pw) = m - 1 + Pw :=
            hi_of_range dq (Nat.le_refl _) (by have := two_pow_pos' q; omega)
          rw [this] at hcovq
          have hpx : place (m - 1 + Pw) = q := by rw [hcovq]; exact hPq.1
          have := place_not_dvd (m - 1 + Pw) (by omega)
          rw [hpx] at this
          apply this
          refine Nat.dvd_trans ?_ dx
          rw [← hPdef, ← two_pow_succ']; exact pow_dvd_pow_two (by omega)
        have d2q : 2 * Pw ∣ 2 ^ q := by
          rw [← hPdef, ← two_pow_succ']; exact pow_dvd_pow_two (by omega)
        have hoiq : oiq = m - 1 + Pw := by
          have dq := hi_dvd q (m - 1 + Pw)
          rw [hcovq] at dq
          have l1 : oiq ≤ m - 1 + Pw := by rw [← hcovq]; exact hi_le _ _
          refine Classical.byContradiction fun hne => ?_
          exact no_multiple_between (Nat.dvd_trans d2q dq) dx (by omega) (by omega)
        refine ⟨q, osq, oiq, ?_, ?_⟩
        · rw [hget]; simp [show ¬ q = place (m - 1) by omega]; exact hq
        · rw [hoiq]
          have dq := hi_dvd q (m - 1 + Pw)
          rw [hcovq, hoiq] at dq
          have l1 : oi ≤ j := by rw [← hcov]; exact hi_le _ _
          have l2 := lt_hi_add (place (m - 1)) j
          rw [hcov, hPdef] at l2
          have l3 : 2 * Pw ≤ 2 ^ q := Nat.le_of_dvd (two_pow_pos' q) d2q
          exact hi_of_range dq (by omega) (by omega)
      · exact ⟨p, os, oi, by rw [hget]; simp [hpp]; exact hp, hcov⟩
  · -- (P)
    intro p os oi hp
    rw [hget p] at hp
    by_cases hpp : p = place (m - 1)
    · simp only [hpp, ↓reduceIte, Option.some.injEq, Prod.mk.injEq] at hp
      obtain ⟨rfl, rfl⟩ := hp
      have := inv.mle
      exact ⟨hpp.symm, Nat.le_refl _, by omega⟩
    · simp only [hpp, ↓reduceIte] at hp
      have := inv.P p os oi hp
      exact ⟨this.1, by omega, this.2.2⟩
  · -- (D)
    intro p os oi y hp hy1 hy2
    rw [hget p] at hp
    by_cases hpp : p = place (m - 1)
    · simp only [hpp, ↓reduceIte, Option.some.injEq, Prod.mk.injEq] at hp
      obtain ⟨rfl, rfl⟩ := hp
      omega
    · simp only [hpp, ↓reduceIte] at hp
      by_cases hym : y = m - 1
      · rw [hym]; exact fun e => hpp e.symm
      · exact inv.D p os oi y hp (by omega) hy2

/-- the search loop returns the derivation of the first covering slot; all covering slots agree -/
theorem getFrom_spec {S : Type} (F : Nat → S → S) (j : Nat) (v : S) :
    ∀ (l : List (S × Nat)) (i : Nat),
      (∀ k os oi, l[k]? = some (os, oi) → hi (i + k) j = oi → derive F os (i + k) j = v) →
      (∃ k os oi, l[k]? = some (os, oi) ∧ hi (i + k) j = oi) →
      getFrom F j l i = some v
  | [], i, _, ⟨k, os, oi, hk, _⟩ => by simp at hk
  | (os0, oi0) :: rest, i, hall, ⟨k, os, oi, hk, hc⟩ => by
    unfold getFrom
    split
    · rename_i h0
      have := hall 0 os0 oi0 (by simp) (by simpa using h0)
      simpa using congrArg some this
    · rename_i h0
      apply getFrom_spec F j v rest (i + 1)
      · intro k' os' oi' hk' hc'
        have := hall (k' + 1) os' oi' (by simpa using hk') (by rw [← Nat.add_assoc, Nat.add_right_comm]; exact hc')
        rw [← Nat.add_assoc, Nat.add_right_comm] at this; exact this
      · cases k with
        | zero =>
          exfalso
          simp at hk
          obtain ⟨rfl, rfl⟩ := hk
          exact h0 (by simpa using hc)
        | succ k' =>
          refine ⟨k', os, oi, by simpa using hk, ?_⟩
          rw [Nat.add_right_comm, Nat.add_assoc]; exact hc

/-- under the invariant `get_secret` returns every provided secret -/
theorem SInv_get {S : Type} (F : Nat → S → S) {st : Store S} {sec : Nat → S} {m : Nat}
    (inv : SInv F st sec m) (j : Nat) (h1 : m ≤ j) (h2 : j < N48) : get F st j = .some (sec j) := by
  unfold get
  have : getFrom F j st 0 = some (sec j) := by
    apply getFrom_spec F j (sec j) st 0
    · intro k os oi hk hc
      simp only [Nat.zero_add] at hc ⊢
      exact inv.A k os oi j hk h1 h2 hc
    · obtain ⟨p, os, oi, hp, hc⟩ := inv.B j h1 h2
      exact ⟨p, os, oi, hp, by simpa using hc⟩
  rw [this]

/-- provide the secrets `ss` at consecutive descending indices starting just below `m`;
    `none` as soon as one is rejected -/
def provideDesc {S : Type} [DecidableEq S] (F : Nat → S → S) : Store S → Nat → List S → Option (Store S)
  | st, _, [] => some st
  | _, 0, _ :: _ => none
  | st, m + 1, s :: rest =>
    match provide F st m s with
    | none => none
    | some st' => provideDesc F st' m rest

/-- the secret provided for index `j` by `provideDesc … m ss` (`j < m`) -/
def secAt {S : Type} (dflt : S) (m : Nat) (ss : List S) (j : Nat) : S := ss.getD (m - 1 - j) dflt

theorem provideDesc_inv {S : Type} [DecidableEq S] (F : Nat → S → S) :
    ∀ (ss : List S) (st : Store S) (m : Nat) (sec : Nat → S) (st' : Store S),
      SInv F st sec m → provideDesc F st m ss = some st' →
      ∃ sec', SInv F st' sec' (m - ss.length) ∧ ss.length ≤ m ∧
        (∀ j, m ≤ j → sec' j = sec j) ∧ (∀ k (hk : k < ss.length), sec' (m - 1 - k) = ss[k])
  | [], st, m, sec, st', inv, h => by
    simp only [provideDesc, Option.some.injEq] at h
    subst h
    exact ⟨sec, by simpa using inv, Nat.zero_le _, fun _ _ => rfl, fun k hk => absurd hk (Nat.not_lt_zero _)⟩
  | s :: rest, st, 0, sec, st', inv, h => by simp [provideDesc] at h
  | s :: rest, st, m + 1, sec, st', inv, h => by
    simp only [provideDesc] at h
    cases hp : provide F st m s with
    | none => rw [hp] at h; cases h
    | some st1 =>
      rw [hp] at h
      have step := SInv_step F inv (Nat.succ_pos m) s (by simpa using hp)
      simp only [Nat.add_sub_cancel] at step
      obtain ⟨sec', inv', hlen, hold, hnew⟩ := provideDesc_inv F rest st1 m _ st' step h
      refine ⟨sec', ?_, ?_, ?_, ?_⟩
      · have : m + 1 - (s :: rest).length = m - rest.length := by simp
        rw [this]; exact inv'
      · simp; omega
      · intro j hj
        rw [hold j (by omega)]
        simp [show ¬ j = m by omega]
      · intro k hk
        cases k with
        | zero =>
          simp only [Nat.add_sub_cancel, Nat.sub_zero, List.getElem_cons_zero]
          rw [hold m (Nat.le_refl _)]; simp
        | succ k' =>
          have hk' : k' < rest.length := by simpa using hk
          have := hnew k' hk'
          simp only [List.getElem_cons_succ]
          rw [← this]
          congr 1
          omega

/-! ### completeness: secrets generated from one seed are always accepted -/

theorem checkLower_complete {S : Type} [DecidableEq S] (F : Nat → S → S) (secret : S) (pos : Nat) :
    ∀ (l : List (S × Nat)) (k : Nat),
      (∀ i (hi : i < l.length), i < k → derive F secret pos (l[i]).2 = (l[i]).1) →
      checkLower F secret pos l k = true
  | _, 0, _ => by simp [checkLower]
  | [], _ + 1, _ => by simp [checkLower]
  | (os, oi) :: rest, k + 1, h => by
    unfold checkLower
    have h0 := h 0 (by simp) (by omega)
    simp only [List.getElem_cons_zero] at h0
    rw [if_pos h0]
    apply checkLower_complete F secret pos rest k
    intro i hi hk
    have := h (i + 1) (by simpa using hi) (by omega)
    simpa using this

theorem provide_accepts {S : Type} [DecidableEq S] (F : Nat → S → S) (st : Store S) (idx : Nat) (secret : S)
    (hpos : place idx ≤ st.length)
    (hlow : ∀ i (hi : i < st.length), i < place idx → derive F secret (place idx) (st[i]).2 = (st[i]).1) :
    ∃ st', provide F st idx secret = some st' := by
  unfold provide
  dsimp only
  rw [if_neg (by omega)]
  rw [checkLower_complete F secret (place idx) st (place idx) hlow]
  simp only [Bool.not_true, Bool.false_eq_true, ↓reduceIte]
  split
  · exact ⟨_, rfl⟩
  · split <;> exact ⟨_, rfl⟩

theorem two_pow_lt {a b : Nat} (h : a < b) : 2 ^ a < 2 ^ b := Nat.pow_lt_pow_right (by omega) h

/-- under the invariant, slot `i` below the place of the next index holds the index `m - 1 + 2^i` -/
theorem SInv_lower_slot {S : Type} (F : Nat → S → S) {st : Store S} {sec : Nat → S} {m : Nat}
    (inv : SInv F st sec m) (hm : 0 < m) (i : Nat) (hi' : i < place (m - 1)) :
    ∃ os, st[i]? = some (os, m - 1 + 2 ^ i) := by
  have h48 := place_le (m - 1)
  have hdvd := place_dvd (m - 1)
  have hi48 : i < 48 := by omega
  have d1 : 2 ^ (i + 1) ∣ m - 1 := Nat.dvd_trans (pow_dvd_pow_two (by omega)) hdvd
  have dj : 2 ^ i ∣ m - 1 + 2 ^ i :=
    (Nat.dvd_add_right (Nat.dvd_trans (pow_dvd_pow_two (by omega)) hdvd)).mpr (Nat.dvd_refl _)
  have hpi := two_pow_pos' i
  have nj : ¬ 2 ^ (i + 1) ∣ m - 1 + 2 ^ i := by
    intro hd
    have := (Nat.dvd_add_right d1).mp hd
    have := Nat.le_of_dvd hpi this
    rw [two_pow_succ'] at this
    omega
  have hplace : place (m - 1 + 2 ^ i) = i := place_unique hi48 dj nj
  -- the index is in range
  have hlt : m - 1 + 2 ^ place (m - 1) ≤ N48 := by
    refine Classical.byContradiction fun hgt => ?_
    have dN : 2 ^ place (m - 1) ∣ N48 := by rw [N48_eq]; exact pow_dvd_pow_two h48
    have := inv.mle
    exact no_multiple_between hdvd dN (by omega) (by omega)
  have hjN : m - 1 + 2 ^ i < N48 := by have := two_pow_lt hi'; omega
  obtain ⟨q, os, oi, hq, hcov⟩ := inv.B (m - 1 + 2 ^ i) (by omega) hjN
  have hP := inv.P q os oi hq
  have hqi : q = i := by
    refine Classical.byContradiction fun hne => ?_
    by_cases hlt' : q < i
    · have : hi q (m - 1 + 2 ^ i) = m - 1 + 2 ^ i :=
        hi_of_range (Nat.dvd_trans (pow_dvd_pow_two (by omega)) dj) (Nat.le_refl _) (by have := two_pow_pos' q; omega)
      rw [this] at hcov
      rw [← hcov, hplace] at hP
      omega
    · have hgt : i + 1 ≤ q := by omega
      have dq : 2 ^ (i + 1) ∣ oi := by rw [← hcov]; exact Nat.dvd_trans (pow_dvd_pow_two hgt) (hi_dvd q _)
      have l1 : oi ≤ m - 1 + 2 ^ i := by rw [← hcov]; exact hi_le _ _
      have : m - 1 + 2 ^ i < m - 1 + 2 ^ (i + 1) := by rw [two_pow_succ']; omega
      exact no_multiple_between d1 dq (by omega) (by omega)
  subst hqi
  have : hi q (m - 1 + 2 ^ q) = m - 1 + 2 ^ q := hi_of_range dj (Nat.le_refl _) (by omega)
  rw [this] at hcov
  exact ⟨os, by rw [hcov]; exact hq⟩

/-- **completeness step**: with the store filled from one seed, the next seeded secret is accepted -/
theorem SInv_accepts {S : Type} [DecidableEq S] (F : Nat → S → S) (seed : S) {st : Store S} {sec : Nat → S} {m : Nat}
    (inv : SInv F st sec m) (hm : 0 < m) (hsec : ∀ j, m ≤ j → j < N48 → sec j = fromSeed F seed j) :
    ∃ st', provide F st (m - 1) (fromSeed F seed (m - 1)) = some st' := by
  have h48 := place_le (m - 1)
  have hdvd := place_dvd (m - 1)
  apply provide_accepts
  · -- every lower slot exists
    cases hp : place (m - 1) with
    | zero => omega
    | succ p =>
      obtain ⟨os, hs⟩ := SInv_lower_slot F inv hm p (by omega)
      have := (List.getElem?_eq_some_iff.mp hs).1
      omega
  · intro i hil hip
    obtain ⟨os, hs⟩ := SInv_lower_slot F inv hm i hip
    obtain ⟨_, he⟩ := List.getElem?_eq_some_iff.mp hs
    rw [he]
    simp only
    have hP := inv.P i os _ hs
    have di : 2 ^ i ∣ m - 1 + 2 ^ i := by have := place_dvd (m - 1 + 2 ^ i); rw [hP.1] at this; exact this
    -- the stored secret is the seeded one
    have hself : hi i (m - 1 + 2 ^ i) = m - 1 + 2 ^ i :=
      hi_of_range di (Nat.le_refl _) (by have := two_pow_pos' i; omega)
    have hA := inv.A i os _ (m - 1 + 2 ^ i) hs hP.2.1 hP.2.2 hself
    have hown : derive F os i (m - 1 + 2 ^ i) = os := by
      have := derive_self F os (m - 1 + 2 ^ i)
      rw [hP.1] at this; exact this
    rw [hown] at hA
    rw [hA, hsec _ hP.2.1 hP.2.2]
    -- tree law
    unfold fromSeed
    rw [derive_hi F (m - 1 + 2 ^ i) (place (m - 1)) 48 seed h48]
    have : hi (place (m - 1)) (m - 1 + 2 ^ i) = m - 1 :=
      hi_of_range hdvd (by omega) (by have := two_pow_lt hip; omega)
    rw [this]

/-- the secrets a peer holding `seed` reveals for the indices `m-1, m-2, …` (`k` of them) -/
def seedDesc {S : Type} (F : Nat → S → S) (seed : S) : Nat → Nat → List S
  | _, 0 => []
  | 0, _ + 1 => []
  | m + 1, k + 1 => fromSeed F seed m :: seedDesc F seed m k

theorem seedDesc_length {S : Type} (F : Nat → S → S) (seed : S) : ∀ m k, k ≤ m → (seedDesc F seed m k).length = k
  | m, 0, _ => by cases m <;> simp [seedDesc]
  | 0, k + 1, h => by omega
  | m + 1, k + 1, h => by simp [seedDesc, seedDesc_length F seed m k (by omega)]

theorem seedDesc_get {S : Type} (F : Nat → S → S) (seed : S) :
    ∀ m k i (hi : i < (seedDesc F seed m k).length), (seedDesc F seed m k)[i] = fromSeed F seed (m - 1 - i)
  | _, 0, i, hi => by simp [seedDesc] at hi
  | 0, k + 1, i, hi => by simp [seedDesc] at hi
  | m + 1, k + 1, 0, _ => by simp [seedDesc]
  | m + 1, k + 1, i + 1, hi => by
    simp only [seedDesc, List.getElem_cons_succ]
    rw [seedDesc_get F seed m k i (by simpa [seedDesc] using hi)]
    congr 1
    omega

theorem provideDesc_complete {S : Type} [DecidableEq S] (F : Nat → S → S) (seed : S) :
    ∀ (k m : Nat) (st : Store S) (sec : Nat → S), SInv F st sec m →
      (∀ j, m ≤ j → j < N48 → sec j = fromSeed F seed j) → k ≤ m →
      ∃ st', provideDesc F st m (seedDesc F seed m k) = some st'
  | 0, m, st, sec, _, _, _ => ⟨st, by simp [seedDesc, provideDesc]⟩
  | k + 1, 0, st, sec, _, _, h => by omega
  | k + 1, m + 1, st, sec, inv, hsec, hk => by
    obtain ⟨st1, h1⟩ := SInv_accepts F seed inv (Nat.succ_pos m) hsec
    simp only [Nat.add_sub_cancel] at h1
    have step := SInv_step F inv (Nat.succ_pos m) (fromSeed F seed m) (by simpa using h1)
    simp only [Nat.add_sub_cancel] at step
    simp only [seedDesc, provideDesc, h1]
    apply provideDesc_complete F seed k m st1 _ step ?_ (by omega)
    intro j hj1 hj2
    by_cases hjm : j = m
    · simp [hjm]
    · simp only [hjm, ↓reduceIte]
      exact hsec j (by omega) hj2

end VlsModel.Secrets
