import VlsModel.Model.Tracker
/-
Helper lemmas for C13: structure of `maybeFinish`, `validateBlock`, `doAddBlock`, `doRemoveBlock`.
-/
namespace VlsModel.Tracker
open VlsModel.Monitor VlsModel.Gen.Chain

/-- the tracker with the streaming decode state taken (`decode_state.take()`) -/
def Tracker.undecode (t : Tracker) : Tracker := { t with decoding := none }

theorem undecode_of_none {t : Tracker} (h : t.decoding = none) : t.undecode = t := by
  cases t; simp_all [Tracker.undecode]

@[simp] theorem undecode_view (t : Tracker) : t.undecode.view = t.view := rfl
@[simp] theorem undecode_tip (t : Tracker) : t.undecode.tip = t.tip := rfl
@[simp] theorem undecode_height (t : Tracker) : t.undecode.height = t.height := rfl
@[simp] theorem undecode_headers (t : Tracker) : t.undecode.headers = t.headers := rfl
@[simp] theorem undecode_listeners (t : Tracker) : t.undecode.listeners = t.listeners := rfl
@[simp] theorem undecode_trusted (t : Tracker) : t.undecode.trusted = t.trusted := rfl
@[simp] theorem undecode_network (t : Tracker) : t.undecode.network = t.network := rfl
@[simp] theorem undecode_allowDeep (t : Tracker) : t.undecode.allowDeep = t.allowDeep := rfl
@[simp] theorem undecode_ldec (t : Tracker) : t.undecode.ldec = t.ldec := rfl
@[simp] theorem undecode_decoding (t : Tracker) : t.undecode.decoding = none := rfl

/-- `maybeFinish` either panics or returns the tracker with the decode state taken; a compact
(non-external) delivery passes only when there is no decode state. -/
theorem maybeFinish_some {t : Tracker} {p : Proof} {e : Nat} {t1 : Tracker} {r : Option ErrKind}
    (h : maybeFinish t p e = some (t1, r)) :
    t1 = t.undecode ∧ (p.ptype ≠ .external → t.decoding = none) := by
  unfold maybeFinish at h
  split at h
  · cases h
  · rename_i hne
    split at h
    · rename_i hd
      simp only [Option.some.injEq, Prod.mk.injEq] at h
      refine ⟨?_, fun _ => hd⟩
      rw [← h.1, undecode_of_none hd]
    · rename_i hd
      simp only [Option.some.injEq, Prod.mk.injEq] at h
      refine ⟨h.1.symm, ?_⟩
      intro hp
      exfalso
      apply hne
      simp [hd, hp]

theorem validateBlock_none {t : Tracker} {height : Nat} {prev cur : Headers} {p : Proof}
    (h : validateBlock t height prev cur p = none) :
    headerCheck t.network height prev.hdr cur.hdr = none ∧
      (prev.fh = 0 ∨ proofOk t.trusted p = true) := by
  unfold validateBlock at h
  split at h
  · cases h
  · rename_i hc
    refine ⟨hc, ?_⟩
    split at h
    · left; assumption
    · split at h
      · right; assumption
      · cases h

theorem headerCheck_none {net : Network} {height : Nat} {prev hdr : Header}
    (h : headerCheck net height prev hdr = none) : hdr.prev = prev.hash ∧ hdr.powOk = true := by
  unfold headerCheck at h
  split at h
  · cases h
  · rename_i h1
    split at h
    · cases h
    · rename_i h2
      exact ⟨by simpa using h1, by simpa using h2⟩

theorem keyMatches_le (trusted attested : List Nat) : keyMatches trusted attested ≤ trusted.length := by
  unfold keyMatches
  exact List.length_filter_le _ _

theorem proofOk_true {trusted : List Nat} {p : Proof} (h : proofOk trusted p = true) :
    p.verifyOk = true ∧ trusted.length ≤ 2 * keyMatches trusted p.attested := by
  unfold proofOk requiredMajority at h
  simp only [Bool.and_eq_true, decide_eq_true_eq] at h
  exact ⟨h.1, by omega⟩

/-- the tracker after a successful `doAddBlock` -/
def Tracker.added (t : Tracker) (hdr : Header) (p : Proof) (ls : List (Nat × Listener)) : Tracker :=
  { t.undecode with
    listeners := ls, ldec := if p.ptype == .external then false else t.ldec,
    headers := t.tip :: t.headers.take (maxReorgSize - 1),
    tip := ⟨hdr, p.fh⟩, height := t.height + 1 }

/-- the tracker after a successful `doRemoveBlock` -/
def Tracker.removed (t : Tracker) (p : Proof) (prev : Headers) (ls : List (Nat × Listener)) : Tracker :=
  { t.undecode with
    listeners := ls, ldec := if p.ptype == .external then false else t.ldec,
    headers := t.headers.drop 1, tip := prev, height := t.height - 1 }

/-- Complete case analysis of `doAddBlock`. -/
theorem doAddBlock_cases (t : Tracker) (hdr : Header) (p : Proof) :
    (doAddBlock t hdr p).2 = .panic ∨
    (∃ k, doAddBlock t hdr p = (t.undecode, .err k) ∧ (p.ptype ≠ .external → t.decoding = none)) ∨
    (∃ ls, doAddBlock t hdr p = (t.added hdr p ls, .ok) ∧
        (p.ptype ≠ .external → t.decoding = none) ∧
        mapListeners (·.add p.txs) t.listeners = some ls ∧
        validateBlock t.undecode t.height t.tip ⟨hdr, p.fh⟩ p = none) := by
  unfold doAddBlock
  split
  · left; rfl
  · rename_i t1 e hm
    obtain ⟨rfl, hd⟩ := maybeFinish_some hm
    right; left; exact ⟨e, rfl, hd⟩
  · rename_i t1 hm
    obtain ⟨rfl, hd⟩ := maybeFinish_some hm
    split
    · left; rfl
    · simp only
      split
      · rename_i e _
        right; left; exact ⟨e, rfl, hd⟩
      · rename_i hv
        split
        · right; left; exact ⟨_, rfl, hd⟩
        · split
          · left; rfl
          · rename_i ls hl
            right; right
            exact ⟨ls, rfl, hd, hl, hv⟩

/-- Complete case analysis of `doRemoveBlock.removeCore`. -/
theorem removeCore_cases (t : Tracker) (p : Proof) (prev : Headers) :
    (doRemoveBlock.removeCore t p prev).2 = .panic ∨
    (∃ k, doRemoveBlock.removeCore t p prev = (t.undecode, .err k) ∧
        (p.ptype ≠ .external → t.decoding = none)) ∨
    (∃ ls, doRemoveBlock.removeCore t p prev = (t.removed p prev ls, .ok) ∧
        (p.ptype ≠ .external → t.decoding = none) ∧
        mapListeners (·.remove p.txs) t.listeners = some ls ∧ t.height ≠ 0 ∧
        validateBlock t.undecode (t.height - 1) prev t.tip p = none) := by
  unfold doRemoveBlock.removeCore
  split
  · left; rfl
  · rename_i t1 e hm
    obtain ⟨rfl, hd⟩ := maybeFinish_some hm
    right; left; exact ⟨e, rfl, hd⟩
  · rename_i t1 hm
    obtain ⟨rfl, hd⟩ := maybeFinish_some hm
    split
    · left; rfl
    · rename_i hh
      split
      · rename_i e _
        right; left; exact ⟨e, rfl, hd⟩
      · rename_i hv
        split
        · right; left; exact ⟨_, rfl, hd⟩
        · split
          · left; rfl
          · rename_i ls hl
            right; right
            exact ⟨ls, rfl, hd, hl, hh, hv⟩

/-- Complete case analysis of `doRemoveBlock`.  A rejection before `removeCore` returns `t` itself
(the decode state is not even taken); we record only what all rejections share. -/
theorem doRemoveBlock_cases (t : Tracker) (p : Proof) (prev : Headers) :
    (doRemoveBlock t p prev).2 = .panic ∨
    (∃ k, (doRemoveBlock t p prev).2 = .err k ∧
        ((doRemoveBlock t p prev).1 = t ∨ (doRemoveBlock t p prev).1 = t.undecode) ∧
        (p.ptype ≠ .external → (doRemoveBlock t p prev).1 = t)) ∨
    (∃ ls, doRemoveBlock t p prev = (t.removed p prev ls, .ok) ∧
        (p.ptype ≠ .external → t.decoding = none) ∧
        mapListeners (·.remove p.txs) t.listeners = some ls ∧ t.height ≠ 0 ∧
        validateBlock t.undecode (t.height - 1) prev t.tip p = none ∧
        (∀ h0 rest, t.headers = h0 :: rest → prev = h0) ∧
        (t.headers = [] → t.allowDeep = true)) := by
  have core := removeCore_cases t p prev
  have coreErr : ∀ k, doRemoveBlock.removeCore t p prev = (t.undecode, .err k) →
      (p.ptype ≠ .external → t.decoding = none) →
      ∃ k, (doRemoveBlock.removeCore t p prev).2 = .err k ∧
        ((doRemoveBlock.removeCore t p prev).1 = t ∨ (doRemoveBlock.removeCore t p prev).1 = t.undecode) ∧
        (p.ptype ≠ .external → (doRemoveBlock.removeCore t p prev).1 = t) := by
    intro k hk hd
    refine ⟨k, by rw [hk], Or.inr (by rw [hk]), fun hp => ?_⟩
    rw [hk]; exact undecode_of_none (hd hp)
  unfold doRemoveBlock
  split
  · right; left; exact ⟨_, rfl, Or.inl rfl, fun _ => rfl⟩
  · rename_i hdeep
    split
    · rename_i h0 rest hh
      split
      · right; left; exact ⟨_, rfl, Or.inl rfl, fun _ => rfl⟩
      · rename_i h1
        split
        · right; left; exact ⟨_, rfl, Or.inl rfl, fun _ => rfl⟩
        · rename_i h2
          rcases core with c | ⟨k, hk, hd⟩ | ⟨ls, hk, hd, hl, hne, hv⟩
          · left; exact c
          · right; left; exact coreErr k hk hd
          · right; right
            refine ⟨ls, hk, hd, hl, hne, hv, ?_, ?_⟩
            · intro h0' rest' heq
              rw [hh] at heq
              cases heq
              have a : prev.hdr = h0.hdr := by simpa using h1
              have b : prev.fh = h0.fh := by simpa using h2
              cases prev; cases h0; simp_all
            · intro he; rw [hh] at he; cases he
    · rename_i hh
      rcases core with c | ⟨k, hk, hd⟩ | ⟨ls, hk, hd, hl, hne, hv⟩
      · left; exact c
      · right; left; exact coreErr k hk hd
      · right; right
        refine ⟨ls, hk, hd, hl, hne, hv, ?_, ?_⟩
        · intro h0' rest' heq; rw [hh] at heq; cases heq
        · intro _
          simp only [hh, List.isEmpty_nil, Bool.true_and, Bool.not_eq_true', Bool.not_eq_false] at hdeep
          simpa using hdeep

/-! ### the public wrappers (fix b36e377: a refused streamed request aborts the stream) -/

/-- the tracker after a refused request: if a stream was in progress, the tracker's decode state and
the monitors' per-block decode states are dropped; otherwise nothing changes -/
def Tracker.aborted (t : Tracker) : Tracker :=
  { t with decoding := none, ldec := if t.decoding.isSome then false else t.ldec }

theorem aborted_of_none {t : Tracker} (h : t.decoding = none) : t.aborted = t := by
  cases t; simp_all [Tracker.aborted]

theorem abortIfStreamed_of_ok (t : Tracker) (r : Tracker × Out) (h : r.2 = .ok) :
    abortIfStreamed t r = r := by
  unfold abortIfStreamed; rw [h]

theorem abortIfStreamed_of_panic (t : Tracker) (r : Tracker × Out) (h : r.2 = .panic) :
    abortIfStreamed t r = r := by
  unfold abortIfStreamed; rw [h]

theorem abortIfStreamed_err (t t' : Tracker) (k : ErrKind) (h : t' = t ∨ t' = t.undecode) :
    abortIfStreamed t (t', .err k) = (t.aborted, .err k) := by
  unfold abortIfStreamed Tracker.aborted
  cases hd : t.decoding with
  | none =>
    rcases h with rfl | rfl
    · cases t'; simp_all
    · cases t; simp_all [Tracker.undecode]
  | some d =>
    rcases h with rfl | rfl
    · simp [hd]
    · simp [Tracker.undecode]

/-- Complete case analysis of `addBlock`. -/
theorem addBlock_cases (t : Tracker) (hdr : Header) (p : Proof) :
    (addBlock t hdr p).2 = .panic ∨
    (∃ k, addBlock t hdr p = (t.aborted, .err k) ∧ (p.ptype ≠ .external → t.decoding = none)) ∨
    (∃ ls, addBlock t hdr p = (t.added hdr p ls, .ok) ∧
        (p.ptype ≠ .external → t.decoding = none) ∧
        mapListeners (·.add p.txs) t.listeners = some ls ∧
        validateBlock t.undecode t.height t.tip ⟨hdr, p.fh⟩ p = none) := by
  unfold addBlock
  rcases doAddBlock_cases t hdr p with c | ⟨k, hk, hd⟩ | ⟨ls, hk, rest⟩
  · left; rw [abortIfStreamed_of_panic _ _ c]; exact c
  · right; left; exact ⟨k, by rw [hk]; exact abortIfStreamed_err t _ k (Or.inr rfl), hd⟩
  · right; right; exact ⟨ls, by rw [hk]; exact abortIfStreamed_of_ok _ _ rfl, rest⟩

/-- Complete case analysis of `removeBlock`. -/
theorem removeBlock_cases (t : Tracker) (p : Proof) (prev : Headers) :
    (removeBlock t p prev).2 = .panic ∨
    (∃ k, removeBlock t p prev = (t.aborted, .err k)) ∨
    (∃ ls, removeBlock t p prev = (t.removed p prev ls, .ok) ∧
        (p.ptype ≠ .external → t.decoding = none) ∧
        mapListeners (·.remove p.txs) t.listeners = some ls ∧ t.height ≠ 0 ∧
        validateBlock t.undecode (t.height - 1) prev t.tip p = none ∧
        (∀ h0 rest, t.headers = h0 :: rest → prev = h0) ∧
        (t.headers = [] → t.allowDeep = true)) := by
  unfold removeBlock
  rcases doRemoveBlock_cases t p prev with c | ⟨k, hk, h1, _⟩ | ⟨ls, hk, rest⟩
  · left; rw [abortIfStreamed_of_panic _ _ c]; exact c
  · right; left
    refine ⟨k, ?_⟩
    have e : doRemoveBlock t p prev = ((doRemoveBlock t p prev).1, .err k) := by
      rw [← hk]
    rw [e]; exact abortIfStreamed_err t _ k h1
  · right; right; exact ⟨ls, by rw [hk]; exact abortIfStreamed_of_ok _ _ rfl, rest⟩

/-- no stream in progress ⇒ the monitors hold no decode state -/
def Clean (t : Tracker) : Prop := t.decoding = none → t.ldec = false

/-- what the block chunks do to the monitors: `on_block_start` sets `saw_block` -/
def sawAll (ls : List (Nat × Listener)) : List (Nat × Listener) :=
  ls.map fun (k, l) => (k, { l with st := { l.st with sawBlock := true } })

theorem sawAll_id (ls : List (Nat × Listener)) (h : ∀ e ∈ ls, e.2.st.sawBlock = true) :
    sawAll ls = ls := by
  induction ls with
  | nil => rfl
  | cons e rest ih =>
    obtain ⟨k, l⟩ := e
    have h1 : l.st.sawBlock = true := h (k, l) (by simp)
    have h2 := ih (fun e he => h e (by simp [he]))
    simp only [sawAll, List.map_cons] at h2 ⊢
    rw [h2]
    congr 1
    cases l with | mk st slot => cases st; simp_all

/-- a successful `block_chunk`: no stream was in progress, no monitor held a decode state -/
theorem blockChunk_ok {t : Tracker} {d a : Nat} (h : (blockChunk t d a).2 = .ok) :
    t.decoding = none ∧ (t.listeners.isEmpty = true ∨ t.ldec = false) ∧
    (blockChunk t d a).1 =
      { t with decoding := some d, ldec := !t.listeners.isEmpty, listeners := sawAll t.listeners } := by
  unfold blockChunk at h ⊢
  by_cases h1 : t.decoding.isSome = true
  · simp [h1] at h
  · by_cases h2 : d ≠ a
    · simp [h1, h2] at h
    · by_cases h3 : (!t.listeners.isEmpty && t.ldec) = true
      · simp [h1, h2, h3] at h
      · simp only [h1, h2, h3, if_false]
        refine ⟨by simpa using h1, ?_, rfl⟩
        cases hl : t.listeners.isEmpty <;> cases hd : t.ldec <;> simp_all

end VlsModel.Tracker
