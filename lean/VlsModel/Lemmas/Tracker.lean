import VlsModel.Model.Tracker
/-
Helper lemmas for C13: structure of `maybeFinish`, `validateBlock`, `addBlock`, `removeBlock`.
-/
namespace VlsModel.Tracker
open VlsModel.Monitor VlsModel.Gen.Chain

/-- the tracker with the streaming decode state taken (`decode_state.take()`) -/
def Tracker.undecode (t : Tracker) : Tracker := { t with decoding := none }

theorem undecode_of_none {t : Tracker} (h : t.decoding = none) : t.undecode = t := by
  cases t; simp_all [Tracker.undecode]

@[simp] theorem undecode_view (t : Tracker) : t.undecode.view = t.view := rfl
@[simp] theorem undecode_tip (t : Tracker) : t.undecode.tip = t.tip := rfl
@[simp] theorem undecode_height (t : Tracker) : t.undecode.height = t.height := rfl
@[simp] theorem undecode_headers (t : Tracker) : t.undecode.headers = t.headers := rfl
@[simp] theorem undecode_listeners (t : Tracker) : t.undecode.listeners = t.listeners := rfl
@[simp] theorem undecode_trusted (t : Tracker) : t.undecode.trusted = t.trusted := rfl
@[simp] theorem undecode_network (t : Tracker) : t.undecode.network = t.network := rfl
@[simp] theorem undecode_allowDeep (t : Tracker) : t.undecode.allowDeep = t.allowDeep := rfl
@[simp] theorem undecode_ldec (t : Tracker) : t.undecode.ldec = t.ldec := rfl
@[simp] theorem undecode_decoding (t : Tracker) : t.undecode.decoding = none := rfl

/-- `maybeFinish` either panics or returns the tracker with the decode state taken; a compact
(non-external) delivery passes only when there is no decode state. -/
theorem maybeFinish_some {t : Tracker} {p : Proof} {e : Nat} {t1 : Tracker} {r : Option ErrKind}
    (h : maybeFinish t p e = some (t1, r)) :
    t1 = t.undecode ∧ (p.ptype ≠ .external → t.decoding = none) := by
  unfold maybeFinish at h
  split at h
  · cases h
  · rename_i hne
    split at h
    · rename_i hd
      simp only [Option.some.injEq, Prod.mk.injEq] at h
      refine ⟨?_, fun _ => hd⟩
      rw [← h.1, undecode_of_none hd]
    · rename_i hd
      simp only [Option.some.injEq, Prod.mk.injEq] at h
      refine ⟨h.1.symm, ?_⟩
      intro hp
      exfalso
      apply hne
      simp [hd, hp]

theorem validateBlock_none {t : Tracker} {height : Nat} {prev cur : Headers} {p : Proof}
    (h : validateBlock t height prev cur p = none) :
    headerCheck t.network height prev.hdr cur.hdr = none ∧
      (prev.fh = 0 ∨ proofOk t.trusted p = true) := by
  unfold validateBlock at h
  split at h
  · cases h
  · rename_i hc
    refine ⟨hc, ?_⟩
    split at h
    · left; assumption
    · split at h
      · right; assumption
      · cases h

theorem headerCheck_none {net : Network} {height : Nat} {prev hdr : Header}
    (h : headerCheck net height prev hdr = none) : hdr.prev = prev.hash ∧ hdr.powOk = true := by
  unfold headerCheck at h
  split at h
  · cases h
  · rename_i h1
    split at h
    · cases h
    · rename_i h2
      exact ⟨by simpa using h1, by simpa using h2⟩

theorem keyMatches_le (trusted attested : List Nat) : keyMatches trusted attested ≤ trusted.length := by
  unfold keyMatches
  exact List.length_filter_le _ _

theorem proofOk_true {trusted : List Nat} {p : Proof} (h : proofOk trusted p = true) :
    p.verifyOk = true ∧ trusted.length ≤ 2 * keyMatches trusted p.attested := by
  unfold proofOk requiredMajority at h
  simp only [Bool.and_eq_true, decide_eq_true_eq] at h
  exact ⟨h.1, by omega⟩

/-- the tracker after a successful `addBlock` -/
def Tracker.added (t : Tracker) (hdr : Header) (p : Proof) (ls : List (Nat × Listener)) : Tracker :=
  { t.undecode with
    listeners := ls, ldec := if p.ptype == .external then false else t.ldec,
    headers := t.tip :: t.headers.take (maxReorgSize - 1),
    tip := ⟨hdr, p.fh⟩, height := t.height + 1 }

/-- the tracker after a successful `removeBlock` -/
def Tracker.removed (t : Tracker) (p : Proof) (prev : Headers) (ls : List (Nat × Listener)) : Tracker :=
  { t.undecode with
    listeners := ls, ldec := if p.ptype == .external then false else t.ldec,
    headers := t.headers.drop 1, tip := prev, height := t.height - 1 }

/-- Complete case analysis of `addBlock`. -/
theorem addBlock_cases (t : Tracker) (hdr : Header) (p : Proof) :
    (addBlock t hdr p).2 = .panic ∨
    (∃ k, addBlock t hdr p = (t.undecode, .err k) ∧ (p.ptype ≠ .external → t.decoding = none)) ∨
    (∃ ls, addBlock t hdr p = (t.added hdr p ls, .ok) ∧
        (p.ptype ≠ .external → t.decoding = none) ∧
        mapListeners (·.add p.txs) t.listeners = some ls ∧
        validateBlock t.undecode t.height t.tip ⟨hdr, p.fh⟩ p = none) := by
  unfold addBlock
  split
  · left; rfl
  · rename_i t1 e hm
    obtain ⟨rfl, hd⟩ := maybeFinish_some hm
    right; left; exact ⟨e, rfl, hd⟩
  · rename_i t1 hm
    obtain ⟨rfl, hd⟩ := maybeFinish_some hm
    split
    · left; rfl
    · simp only
      split
      · rename_i e _
        right; left; exact ⟨e, rfl, hd⟩
      · rename_i hv
        split
        · right; left; exact ⟨_, rfl, hd⟩
        · split
          · left; rfl
          · rename_i ls hl
            right; right
            exact ⟨ls, rfl, hd, hl, hv⟩

/-- Complete case analysis of `removeBlock.removeCore`. -/
theorem removeCore_cases (t : Tracker) (p : Proof) (prev : Headers) :
    (removeBlock.removeCore t p prev).2 = .panic ∨
    (∃ k, removeBlock.removeCore t p prev = (t.undecode, .err k) ∧
        (p.ptype ≠ .external → t.decoding = none)) ∨
    (∃ ls, removeBlock.removeCore t p prev = (t.removed p prev ls, .ok) ∧
        (p.ptype ≠ .external → t.decoding = none) ∧
        mapListeners (·.remove p.txs) t.listeners = some ls ∧ t.height ≠ 0 ∧
        validateBlock t.undecode (t.height - 1) prev t.tip p = none) := by
  unfold removeBlock.removeCore
  split
  · left; rfl
  · rename_i t1 e hm
    obtain ⟨rfl, hd⟩ := maybeFinish_some hm
    right; left; exact ⟨e, rfl, hd⟩
  · rename_i t1 hm
    obtain ⟨rfl, hd⟩ := maybeFinish_some hm
    split
    · left; rfl
    · rename_i hh
      split
      · rename_i e _
        right; left; exact ⟨e, rfl, hd⟩
      · rename_i hv
        split
        · right; left; exact ⟨_, rfl, hd⟩
        · split
          · left; rfl
          · rename_i ls hl
            right; right
            exact ⟨ls, rfl, hd, hl, hh, hv⟩

/-- Complete case analysis of `removeBlock`.  A rejection before `removeCore` returns `t` itself
(the decode state is not even taken); we record only what all rejections share. -/
theorem removeBlock_cases (t : Tracker) (p : Proof) (prev : Headers) :
    (removeBlock t p prev).2 = .panic ∨
    (∃ k, (removeBlock t p prev).2 = .err k ∧
        ((removeBlock t p prev).1 = t ∨ (removeBlock t p prev).1 = t.undecode) ∧
        (p.ptype ≠ .external → (removeBlock t p prev).1 = t)) ∨
    (∃ ls, removeBlock t p prev = (t.removed p prev ls, .ok) ∧
        (p.ptype ≠ .external → t.decoding = none) ∧
        mapListeners (·.remove p.txs) t.listeners = some ls ∧ t.height ≠ 0 ∧
        validateBlock t.undecode (t.height - 1) prev t.tip p = none ∧
        (∀ h0 rest, t.headers = h0 :: rest → prev = h0) ∧
        (t.headers = [] → t.allowDeep = true)) := by
  have core := removeCore_cases t p prev
  have coreErr : ∀ k, removeBlock.removeCore t p prev = (t.undecode, .err k) →
      (p.ptype ≠ .external → t.decoding = none) →
      ∃ k, (removeBlock.removeCore t p prev).2 = .err k ∧
        ((removeBlock.removeCore t p prev).1 = t ∨ (removeBlock.removeCore t p prev).1 = t.undecode) ∧
        (p.ptype ≠ .external → (removeBlock.removeCore t p prev).1 = t) := by
    intro k hk hd
    refine ⟨k, by rw [hk], Or.inr (by rw [hk]), fun hp => ?_⟩
    rw [hk]; exact undecode_of_none (hd hp)
  unfold removeBlock
  split
  · right; left; exact ⟨_, rfl, Or.inl rfl, fun _ => rfl⟩
  · rename_i hdeep
    split
    · rename_i h0 rest hh
      split
      · right; left; exact ⟨_, rfl, Or.inl rfl, fun _ => rfl⟩
      · rename_i h1
        split
        · right; left; exact ⟨_, rfl, Or.inl rfl, fun _ => rfl⟩
        · rename_i h2
          rcases core with c | ⟨k, hk, hd⟩ | ⟨ls, hk, hd, hl, hne, hv⟩
          · left; exact c
          · right; left; exact coreErr k hk hd
          · right; right
            refine ⟨ls, hk, hd, hl, hne, hv, ?_, ?_⟩
            · intro h0' rest' heq
              rw [hh] at heq
              cases heq
              have a : prev.hdr = h0.hdr := by simpa using h1
              have b : prev.fh = h0.fh := by simpa using h2
              cases prev; cases h0; simp_all
            · intro he; rw [hh] at he; cases he
    · rename_i hh
      rcases core with c | ⟨k, hk, hd⟩ | ⟨ls, hk, hd, hl, hne, hv⟩
      · left; exact c
      · right; left; exact coreErr k hk hd
      · right; right
        refine ⟨ls, hk, hd, hl, hne, hv, ?_, ?_⟩
        · intro h0' rest' heq; rw [hh] at heq; cases heq
        · intro _
          simp only [hh, List.isEmpty_nil, Bool.true_and, Bool.not_eq_true', Bool.not_eq_false] at hdeep
          simpa using hdeep

end VlsModel.Tracker
