import VlsModel.Prim.Rs
/-
Helper lemmas about the runtime operators of the Rust-body translator (`Prim/Rs.lean`), used by the
`Props/CxxGen.lean` theorems that tie hand-written models to generated function bodies.
-/
namespace VlsModel.Rs

@[simp] theorem bind_ok {α β : Type} (a : α) (f : α → M β) : (Except.ok a : M α) >>= f = f a := rfl
@[simp] theorem bind_err {α β : Type} (e : Fail) (f : α → M β) : (Except.error e : M α) >>= f = Except.error e := rfl
@[simp] theorem pure_eq {α : Type} (a : α) : (pure a : M α) = Except.ok a := rfl

theorem vecInsert_zero {α : Type} (l : List α) (x : α) : vecInsert l 0 x = Except.ok (x :: l) := by
  simp [vecInsert]

theorem vecResize_le {α : Type} (l : List α) (n : Nat) (x : α) (h : n ≤ l.length) :
    vecResize l n x = l.take n := by
  simp [vecResize, Nat.sub_eq_zero_of_le h]

/-- `g` applied `n` times -/
def iter {σ : Type} (g : σ → σ) : Nat → σ → σ
  | 0, s => s
  | n + 1, s => iter g n (g s)

/-- a loop body that cannot fail and ignores the loop variable: `for _ in l { s = g(s) }` -/
theorem foldlM_ok {σ β : Type} (f : σ → β → M σ) (g : σ → σ) (hf : ∀ s x, f s x = Except.ok (g s)) :
    ∀ (l : List β) (s : σ), List.foldlM f s l = Except.ok (iter g l.length s) := by
  intro l
  induction l with
  | nil => intro s; rfl
  | cons x xs ih => intro s; simp [List.foldlM_cons, hf, ih, iter]

theorem foldlM_uadd (max : Nat) : ∀ (l : List Nat) (acc : Nat), acc ≤ max →
    List.foldlM (fun a x => uadd max a x) acc l
      = if acc + l.sum ≤ max then Except.ok (acc + l.sum) else Except.error Fail.overflow := by
  intro l
  induction l with
  | nil => intro acc h; simp [h]
  | cons x xs ih =>
    intro acc h
    rw [List.foldlM_cons, List.sum_cons]
    by_cases hx : acc + x ≤ max
    · have e : uadd max acc x = Except.ok (acc + x) := by simp [uadd, hx]
      rw [e, bind_ok, ih _ hx, Nat.add_assoc]
    · have e : uadd max acc x = Except.error Fail.overflow := by simp [uadd, hx, overflow]
      have h2 : ¬ acc + (x + xs.sum) ≤ max := by omega
      rw [e, bind_err]; simp [h2]

/-- `iter.sum::<uN>()`: the checked left fold overflows iff the mathematical sum leaves the range -/
theorem usum_eq (max : Nat) (l : List Nat) :
    usum max l = if l.sum ≤ max then Except.ok l.sum else Except.error Fail.overflow := by
  have := foldlM_uadd max l 0 (Nat.zero_le _)
  simpa [usum] using this

/-- `(fee as u128 * 1000 + 999)` cannot overflow for a 64-bit fee -/
theorem fee_rate_fits (a : Nat) (h : a ≤ U64_MAX) : a * 1000 ≤ U128_MAX ∧ a * 1000 + 999 ≤ U128_MAX := by
  unfold U64_MAX at h
  unfold U128_MAX
  omega

theorem smapGet_insert {α : Type} (m : List (String × α)) (k k' : String) (x : α) :
    smapGet (smapInsert m k x) k' = if k = k' then some x else smapGet m k' := by
  induction m with
  | nil => simp [smapInsert, smapGet]
  | cons e m ih =>
    obtain ⟨k0, v0⟩ := e
    simp only [smapInsert]
    by_cases h1 : k0 = k
    · subst h1; simp [smapGet]; by_cases h2 : k0 = k' <;> simp [h2]
    · by_cases h2 : k < k0
      · simp [h1, h2, smapGet]
      · simp only [h1, h2, if_false, smapGet, ih]
        by_cases h3 : k0 = k'
        · have : ¬ k = k' := fun h => h1 (h3.trans h.symm)
          simp [h3, this]
        · simp [h3]

theorem range_length (a b : Nat) : (range a b).length = b - a := by simp [range]

/-! ### round 8: maps with other than string keys, loops with early exit -/

theorem omapGet_omapInsert {κ α : Type} [DecidableEq κ] (m : List (κ × α)) (k k' : κ) (x : α) :
    omapGet (omapInsert m k x) k' = if k = k' then some x else omapGet m k' := by
  induction m with
  | nil => simp [omapInsert, omapGet]
  | cons e m ih =>
    obtain ⟨k0, v0⟩ := e
    simp only [omapInsert]
    by_cases h1 : k0 = k
    · subst h1; simp [omapGet]; by_cases h2 : k0 = k' <;> simp [h2]
    · simp only [h1, if_false, omapGet, ih]
      by_cases h3 : k0 = k'
      · have : ¬ k = k' := fun h => h1 (h3.trans h.symm)
        simp [h3, this]
      · simp [h3]

theorem omapGet_nmapInsert {α : Type} (m : List (Nat × α)) (k k' : Nat) (x : α) :
    omapGet (nmapInsert m k x) k' = if k = k' then some x else omapGet m k' := by
  induction m with
  | nil => simp [nmapInsert, omapGet]
  | cons e m ih =>
    obtain ⟨k0, v0⟩ := e
    simp only [nmapInsert]
    by_cases h1 : k0 = k
    · subst h1; simp [omapGet]; by_cases h2 : k0 = k' <;> simp [h2]
    · by_cases h2 : k < k0
      · simp [h1, h2, omapGet]
      · simp only [h1, h2, if_false, omapGet, ih]
        by_cases h3 : k0 = k'
        · have : ¬ k = k' := fun h => h1 (h3.trans h.symm)
          simp [h3, this]
        · simp [h3]

@[simp] theorem loopM_nil {α σ ρ : Type} (s : σ) (f : σ → α → M (Flow σ ρ)) :
    loopM ([] : List α) s f = Except.ok (.inl s) := rfl

/-- a body that never leaves the loop early is the plain monadic fold -/
theorem loopM_next {α σ ρ : Type} (f : σ → α → M (Flow σ ρ)) (g : σ → α → M σ)
    (hf : ∀ s x, f s x = (g s x >>= fun s' => pure (.next s'))) :
    ∀ (l : List α) (s : σ), loopM l s f = (List.foldlM g s l >>= fun s' => pure (.inl s')) := by
  intro l
  induction l with
  | nil => intro s; rfl
  | cons x xs ih =>
    intro s
    rw [loopM, hf, List.foldlM_cons]
    cases h : g s x with
    | error e => rfl
    | ok s' => simp [ih]

theorem slice_ok {α : Type} (l : List α) (a b : Nat) (h : a ≤ b ∧ b ≤ l.length) :
    slice l a b = Except.ok ((l.drop a).take (b - a)) := by
  simp [slice, h]

end VlsModel.Rs
