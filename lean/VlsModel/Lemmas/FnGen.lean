import VlsModel.Prim.Rs
/-
Helper lemmas about the runtime operators of the Rust-body translator (`Prim/Rs.lean`), used by the
`Props/CxxGen.lean` theorems that tie hand-written models to generated function bodies.
-/
namespace VlsModel.Rs

@[simp] theorem bind_ok {α β : Type} (a : α) (f : α → M β) : (Except.ok a : M α) >>= f = f a := rfl
@[simp] theorem bind_err {α β : Type} (e : Fail) (f : α → M β) : (Except.error e : M α) >>= f = Except.error e := rfl
@[simp] theorem pure_eq {α : Type} (a : α) : (pure a : M α) = Except.ok a := rfl

theorem vecInsert_zero {α : Type} (l : List α) (x : α) : vecInsert l 0 x = Except.ok (x :: l) := by
  simp [vecInsert]

theorem vecResize_le {α : Type} (l : List α) (n : Nat) (x : α) (h : n ≤ l.length) :
    vecResize l n x = l.take n := by
  simp [vecResize, Nat.sub_eq_zero_of_le h]

/-- `g` applied `n` times -/
def iter {σ : Type} (g : σ → σ) : Nat → σ → σ
  | 0, s => s
  | n + 1, s => iter g n (g s)

/-- a loop body that cannot fail and ignores the loop variable: `for _ in l { s = g(s) }` -/
theorem foldlM_ok {σ β : Type} (f : σ → β → M σ) (g : σ → σ) (hf : ∀ s x, f s x = Except.ok (g s)) :
    ∀ (l : List β) (s : σ), List.foldlM f s l = Except.ok (iter g l.length s) := by
  intro l
  induction l with
  | nil => intro s; rfl
  | cons x xs ih => intro s; simp [List.foldlM_cons, hf, ih, iter]

theorem range_length (a b : Nat) : (range a b).length = b - a := by simp [range]

end VlsModel.Rs
