import VlsModel.Lemmas.Monitor
import VlsModel.Lemmas.MonitorPre
/-
Preservation of the bookkeeping well-formedness `WF` by block connection (C14).

* under `Pre`, a swept closing is left untouched by every applicable change
  (`closing_kept_of_swept`), and a swept "our output" stays swept (`ourSwept_kept`);
* `dsHeight` is only ever set to the current height, kept, or cleared (`fwdDs_le`);
* `addEnd_WF` / `addBlock_WF`: `WF` is preserved by `on_add_block_end` / `addBlock` whenever the
  detected changes are applicable along the forward run (`PreAll`).
-/
namespace VlsModel.Monitor

theorem firstFlag_of_all {op : OutPoint} {l : List (OutPoint × Bool)}
    (h : l.all (·.2) = true) : firstFlag op l ≠ some false := by
  induction l with
  | nil => simp [firstFlag]
  | cons x xs ih =>
    simp only [List.all_cons, Bool.and_eq_true] at h
    simp only [firstFlag]
    split
    · rw [h.1]; simp
    · exact ih h.2

/-- under its precondition, no change touches a completely swept closing -/
theorem closing_kept_of_swept {s s1 : State} {c : Change} {a r : List OutPoint}
    (hp : Pre s c) (h : applyForward s c = some (s1, a, r)) (hs : s.isClosingSwept = true) :
    s1.closing = s.closing := by
  cases c with
  | fundingConfirmed op =>
    simp only [applyForward, Option.some.injEq, Prod.mk.injEq] at h
    obtain ⟨rfl, _, _⟩ := h; rfl
  | fundingInputSpent op =>
    simp only [applyForward, Option.some.injEq, Prod.mk.injEq] at h
    obtain ⟨rfl, _, _⟩ := h; rfl
  | «mutual» txid fo =>
    simp only [applyForward, Option.some.injEq, Prod.mk.injEq] at h
    obtain ⟨rfl, _, _⟩ := h; rfl
  | unilateral txid fo our htlcs =>
    obtain ⟨_, h2⟩ := hp
    simp [State.isClosingSwept, h2] at hs
  | ourSpent v =>
    obtain ⟨cl, hcl, hour⟩ := hp
    simp [State.isClosingSwept, hcl, Closing.isAllSpent, hour] at hs
  | htlcSpent v sl =>
    obtain ⟨cl, i, hcl, _, hget, _⟩ := hp
    simp only [State.isClosingSwept, hcl, Closing.isAllSpent, Bool.and_eq_true] at hs
    have hall := hs.1.2
    rw [List.all_eq_true] at hall
    have := hall false (List.mem_of_getElem? hget)
    simp at this
  | secondSpent op =>
    obtain ⟨cl, hcl, hff⟩ := hp
    simp only [State.isClosingSwept, hcl, Closing.isAllSpent, Bool.and_eq_true] at hs
    exact absurd hff (firstFlag_of_all hs.2)

/-- under its precondition, no change un-sweeps our output -/
theorem ourSwept_kept {s s1 : State} {c : Change} {a r : List OutPoint}
    (hp : Pre s c) (h : applyForward s c = some (s1, a, r)) (hs : s.isOurSwept = true) :
    s1.isOurSwept = true := by
  cases c with
  | fundingConfirmed op =>
    simp only [applyForward, Option.some.injEq, Prod.mk.injEq] at h
    obtain ⟨rfl, _, _⟩ := h; exact hs
  | fundingInputSpent op =>
    simp only [applyForward, Option.some.injEq, Prod.mk.injEq] at h
    obtain ⟨rfl, _, _⟩ := h; exact hs
  | «mutual» txid fo =>
    simp only [applyForward, Option.some.injEq, Prod.mk.injEq] at h
    obtain ⟨rfl, _, _⟩ := h; exact hs
  | unilateral txid fo our htlcs =>
    obtain ⟨_, h2⟩ := hp
    simp [State.isOurSwept, h2] at hs
  | ourSpent v =>
    obtain ⟨cl, hcl, hour⟩ := hp
    simp [State.isOurSwept, hcl, hour] at hs
  | htlcSpent v sl =>
    simp only [applyForward] at h
    cases hcl : s.closing with
    | none => simp [hcl] at h
    | some cl =>
      simp only [hcl] at h
      obtain ⟨c', hc', hh⟩ := Option.map_eq_some_iff.mp h
      simp only [Prod.mk.injEq] at hh
      obtain ⟨rfl, _, _⟩ := hh
      simp only [Closing.setHtlcSpent] at hc'
      split at hc'
      · cases hc'
      · split at hc'
        · simp only [Option.some.injEq] at hc'
          subst hc'
          simpa [State.isOurSwept, hcl, Closing.addSecond] using hs
        · cases hc'
  | secondSpent op =>
    simp only [applyForward] at h
    cases hcl : s.closing with
    | none => simp [hcl] at h
    | some cl =>
      simp only [hcl] at h
      obtain ⟨c', hc', hh⟩ := Option.map_eq_some_iff.mp h
      simp only [Prod.mk.injEq] at hh
      obtain ⟨rfl, _, _⟩ := hh
      obtain ⟨l, _, rfl⟩ := Option.map_eq_some_iff.mp hc'
      simpa [State.isOurSwept, hcl] using hs

theorem closingSwept_kept_all {s s1 : State} {cs : List Change} {a r : List OutPoint}
    (hp : PreAll s cs) (h : applyAll applyForward s cs = some (s1, a, r))
    (hs : s.isClosingSwept = true) : s1.isClosingSwept = true := by
  induction cs generalizing s a r with
  | nil =>
    simp only [applyAll, Option.some.injEq, Prod.mk.injEq] at h
    obtain ⟨rfl, _, _⟩ := h; exact hs
  | cons c cs ih =>
    simp only [applyAll] at h
    cases hf : applyForward s c with
    | none => simp [hf] at h
    | some d =>
      obtain ⟨sa, a1, r1⟩ := d
      simp only [hf] at h
      cases hrest : applyAll applyForward sa cs with
      | none => simp [hrest] at h
      | some d2 =>
        obtain ⟨sx, a2, r2⟩ := d2
        simp only [hrest, Option.some.injEq, Prod.mk.injEq] at h
        obtain ⟨rfl, _, _⟩ := h
        have hk := closing_kept_of_swept hp.1 hf hs
        have hs' : sa.isClosingSwept = true := by
          simp only [State.isClosingSwept, hk]; exact hs
        exact ih (hp.2 sa a1 r1 hf) hrest hs'

theorem ourSwept_kept_all {s s1 : State} {cs : List Change} {a r : List OutPoint}
    (hp : PreAll s cs) (h : applyAll applyForward s cs = some (s1, a, r))
    (hs : s.isOurSwept = true) : s1.isOurSwept = true := by
  induction cs generalizing s a r with
  | nil =>
    simp only [applyAll, Option.some.injEq, Prod.mk.injEq] at h
    obtain ⟨rfl, _, _⟩ := h; exact hs
  | cons c cs ih =>
    simp only [applyAll] at h
    cases hf : applyForward s c with
    | none => simp [hf] at h
    | some d =>
      obtain ⟨sa, a1, r1⟩ := d
      simp only [hf] at h
      cases hrest : applyAll applyForward sa cs with
      | none => simp [hrest] at h
      | some d2 =>
        obtain ⟨sx, a2, r2⟩ := d2
        simp only [hrest, Option.some.injEq, Prod.mk.injEq] at h
        obtain ⟨rfl, _, _⟩ := h
        exact ih (hp.2 sa a1 r1 hf) hrest (ourSwept_kept hp.1 hf hs)

/-- `dsHeight` stays bounded by the height of the block being connected -/
theorem fwdDs_le (H : Nat) (cs : List Change) (d : Option Nat)
    (hd : ∀ h0, d = some h0 → h0 ≤ H) :
    ∀ h0, cs.foldl (fwdDs1 H) d = some h0 → h0 ≤ H := by
  induction cs generalizing d with
  | nil => exact hd
  | cons c cs ih =>
    simp only [List.foldl_cons]
    apply ih
    intro h0 hh
    cases c <;> simp only [fwdDs1] at hh
    case fundingConfirmed => cases hh
    case fundingInputSpent =>
      cases d with
      | none => simp at hh; omega
      | some x => simp at hh; subst hh; exact hd x rfl
    all_goals exact hd h0 hh

/-- **`WF` is preserved by `on_add_block_end`** when the changes are applicable along the run -/
theorem addEnd_WF {s s1 : State} {cs : List Change} {a r : List OutPoint}
    (hwf : WF s)
    (hp : PreAll { s with sawBlock := true, height := s.height + 1 } cs)
    (h : addEnd s cs = some (s1, a, r)) : WF s1 := by
  obtain ⟨wf1, wf2, wf3⟩ := hwf
  rw [addEnd_eq] at h
  cases hfw : applyAll applyForward { s with sawBlock := true, height := s.height + 1 } cs with
  | none => simp [hfw] at h
  | some d =>
    obtain ⟨s2, adds, removes⟩ := d
    simp only [hfw, Option.map_some, Option.some.injEq, Prod.mk.injEq] at h
    obtain ⟨hs1, _, _⟩ := h
    obtain ⟨f1, f2, f3, f4, f5⟩ := applyAll_forward_frame hfw
    have kc : s.isClosingSwept = true → s2.isClosingSwept = true :=
      fun hh => closingSwept_kept_all hp hfw hh
    have ko : s.isOurSwept = true → s2.isOurSwept = true :=
      fun hh => ourSwept_kept_all hp hfw hh
    have hds := fwdDs_le (s.height + 1) cs s.dsHeight
      (fun h0 hh => Nat.le_succ_of_le (wf3 h0 hh))
    subst hs1
    refine ⟨?_, ?_, ?_⟩
    · intro hsw
      have hsw2 : s2.isClosingSwept = false := hsw
      have hsw0 : s.isClosingSwept = false := by
        cases hb : s.isClosingSwept with
        | false => rfl
        | true => rw [kc hb] at hsw2; cases hsw2
      simp only [markSw, hsw2, hsw0]
      simp only [Bool.and_false]
      exact f2.trans (wf1 hsw0)
    · intro hsw
      have hsw2 : s2.isOurSwept = false := hsw
      have hsw0 : s.isOurSwept = false := by
        cases hb : s.isOurSwept with
        | false => rfl
        | true => rw [ko hb] at hsw2; cases hsw2
      simp only [markSw, hsw2, hsw0]
      simp only [Bool.and_false]
      exact f3.trans (wf2 hsw0)
    · intro h0 hh
      have hh2 : s2.dsHeight = some h0 := hh
      rw [f5] at hh2
      have : (markSw s.isClosingSwept s2.isClosingSwept s.isOurSwept s2.isOurSwept s2).height =
          s.height + 1 := f1
      rw [this]
      exact hds h0 hh2

/-- **`WF` is preserved by `addBlock`** when the detected changes are applicable -/
theorem addBlock_WF {s s1 : State} {txs : List Tx} {cs : List Change} {a r : List OutPoint}
    (hwf : WF s)
    (hdet : detect { s with sawBlock := true } txs = some cs)
    (hp : PreAll { s with sawBlock := true, height := s.height + 1 } cs)
    (h : addBlock s txs = some (s1, a, r)) : WF s1 := by
  simp only [addBlock, hdet] at h
  have hwf' : WF { s with sawBlock := true } := hwf
  exact addEnd_WF hwf' hp h

/-! ### applicability implies that `apply_forward_change` does not panic -/

theorem setFirst_of_firstFlag {op : OutPoint} {b b' : Bool} {l : List (OutPoint × Bool)}
    (h : firstFlag op l = some b) : ∃ l', setFirst op b' l = some l' := by
  induction l with
  | nil => simp [firstFlag] at h
  | cons x xs ih =>
    simp only [firstFlag] at h
    simp only [setFirst]
    split
    · exact ⟨_, rfl⟩
    · rename_i hx
      simp only [hx, if_false] at h
      obtain ⟨l', hl'⟩ := ih h
      exact ⟨x :: l', by simp [hl']⟩

/-- an applicable change is applied without panic -/
theorem applyForward_of_pre {s : State} {c : Change} (hp : Pre s c) :
    ∃ s1 a r, applyForward s c = some (s1, a, r) := by
  cases c with
  | fundingConfirmed op => exact ⟨_, _, _, rfl⟩
  | fundingInputSpent op => exact ⟨_, _, _, rfl⟩
  | «mutual» txid fo => exact ⟨_, _, _, rfl⟩
  | unilateral txid fo our htlcs => exact ⟨_, _, _, rfl⟩
  | ourSpent v =>
    obtain ⟨cl, hcl, hour⟩ := hp
    exact ⟨_, _, _, by simp only [applyForward, hcl, Closing.setOurSpent, hour, if_true,
      Option.map_some]; rfl⟩
  | htlcSpent v sl =>
    obtain ⟨cl, i, hcl, hpos, hget, _⟩ := hp
    have hlt : i < cl.htlcSpents.length := by
      rcases List.getElem?_eq_some_iff.mp hget with ⟨hh, _⟩; exact hh
    exact ⟨_, _, _, by simp only [applyForward, hcl, Closing.setHtlcSpent, hpos, hlt, if_true,
      Option.map_some]; rfl⟩
  | secondSpent op =>
    obtain ⟨cl, hcl, hff⟩ := hp
    obtain ⟨l', hl'⟩ := setFirst_of_firstFlag (b' := true) hff
    exact ⟨_, _, _, by simp only [applyForward, hcl, Closing.setSecondSpent, hl', Option.map_some]; rfl⟩

theorem applyAll_of_preAll {s : State} {cs : List Change} (hp : PreAll s cs) :
    ∃ s1 a r, applyAll applyForward s cs = some (s1, a, r) := by
  induction cs generalizing s with
  | nil => exact ⟨_, _, _, rfl⟩
  | cons c cs ih =>
    obtain ⟨s1, a1, r1, h1⟩ := applyForward_of_pre hp.1
    obtain ⟨s2, a2, r2, h2⟩ := ih (hp.2 s1 a1 r1 h1)
    exact ⟨s2, a1 ++ a2, r1 ++ r2, by simp only [applyAll, h1, h2]⟩

/-- `on_add_block_end` does not panic when the changes are applicable along the run -/
theorem addEnd_of_preAll {s : State} {cs : List Change}
    (hp : PreAll { s with sawBlock := true, height := s.height + 1 } cs) :
    ∃ s1 a r, addEnd s cs = some (s1, a, r) := by
  obtain ⟨s2, a, r, h⟩ := applyAll_of_preAll hp
  rw [addEnd_eq, h]
  exact ⟨_, _, _, rfl⟩

end VlsModel.Monitor
