import VlsModel.Model.Onchain
/-
Helper lemmas for C08: what one iteration of the output loop of `validate_onchain_tx` implies under a
non-permissive filter, the loop invariant (`outLoop_done`), and the checked sums.
-/
namespace VlsModel.Onchain
open VlsModel

theorem chanStep_add (flt : Filter) (hs : flt.Strict) (o : Out) (c : ChanFacts) (v : Nat)
    (h : chanStep flt o c = .add v) : ChanOk o c ∧ v = c.value := by
  unfold chanStep at h; unfold Filter.Strict at hs; unfold ChanOk
  obtain ⟨_, _, h3, h4, h5, h6, h7, _⟩ := hs
  simp only [h3, h4, h5, h6, h7, and_true] at h
  generalize c.pushMsat / 1000 = push at h ⊢
  split at h
  · cases h
  split at h
  · cases h
  split at h
  · cases h
  split at h
  · cases h
  split at h
  · cases h
  split at h
  · cases h
  rename_i h1 h2 h3 h4 h5 h6
  simp only [OutRes.add.injEq] at h
  refine ⟨⟨by omega, by simpa using h2, by simpa using h4, by omega, by omega⟩, by omega⟩

theorem chanStep_cases (flt : Filter) (o : Out) (c : ChanFacts) :
    chanStep flt o c ≠ .unknown ∧ chanStep flt o c ≠ .skip := by
  unfold chanStep
  generalize c.pushMsat / 1000 = push
  grind

theorem classifyStep_add (flt : Filter) (hs : flt.Strict) (o : Out) (v : Nat)
    (h : classifyStep flt o = .add v) : Accepted o ∧ v = beneficialOf o := by
  unfold classifyStep at h
  unfold Accepted beneficialOf classify
  have hc := fun c => chanStep_add flt hs o c v
  grind

theorem classifyStep_unknown (flt : Filter) (o : Out) :
    classifyStep flt o = .unknown ↔ classify o = .unknown := by
  unfold classifyStep classify
  have hc := fun c => chanStep_cases flt o c
  grind

theorem classifyStep_skip (flt : Filter) (hs : flt.Strict) (o : Out) : classifyStep flt o ≠ .skip := by
  unfold classifyStep; unfold Filter.Strict at hs
  have hc := fun c => chanStep_cases flt o c
  grind

theorem checkedAdd_some (a b s : Nat) (h : U64.checkedAdd a b = some s) : s = a + b ∧ a + b ≤ U64.MAX := by
  unfold U64.checkedAdd at h
  split at h
  · cases h; exact ⟨rfl, by assumption⟩
  · cases h

theorem outLoop_done (flt : Filter) (hs : flt.Strict) (n : Nat) (outs : List Out) :
    ∀ (i sum : Nat) (unk : List Nat) (s : Nat) (u : List Nat),
      outLoop flt n outs i sum unk = .done s u →
      s = sum + sumBeneficial outs ∧ u = unk.reverse ++ unknownIdxs outs i ∧
      (∀ o ∈ outs, Accepted o ∨ classify o = .unknown) := by
  induction outs with
  | nil =>
    intro i sum unk s u h
    simp only [outLoop, LoopRes.done.injEq] at h
    simp [sumBeneficial, unknownIdxs, h.1.symm, h.2.symm]
  | cons o rest ih =>
    intro i sum unk s u h
    unfold outLoop at h
    split at h
    · cases h
    · cases hc : classifyStep flt o with
      | add v =>
        simp only [hc] at h
        cases hca : U64.checkedAdd sum v with
        | none => simp [hca] at h
        | some s1 =>
          simp only [hca] at h
          obtain ⟨hacc, hv⟩ := classifyStep_add flt hs o v hc
          obtain ⟨hs1, _⟩ := checkedAdd_some _ _ _ hca
          obtain ⟨e1, e2, e3⟩ := ih _ _ _ _ _ h
          have hnu : classify o ≠ .unknown := by
            intro hu; rw [← classifyStep_unknown flt o] at hu; rw [hc] at hu; cases hu
          refine ⟨?_, ?_, ?_⟩
          · simp only [sumBeneficial, List.map_cons, List.sum_cons] at e1 ⊢
            omega
          · simp only [unknownIdxs, hnu, if_false]; exact e2
          · intro o' ho'
            rcases List.mem_cons.mp ho' with rfl | ho'
            · exact Or.inl hacc
            · exact e3 o' ho'
      | skip => exact absurd hc (classifyStep_skip flt hs o)
      | unknown =>
        simp only [hc] at h
        obtain ⟨e1, e2, e3⟩ := ih _ _ _ _ _ h
        have hu : classify o = .unknown := (classifyStep_unknown flt o).mp hc
        refine ⟨?_, ?_, ?_⟩
        · have : beneficialOf o = 0 := by simp [beneficialOf, hu]
          simp only [sumBeneficial, List.map_cons, List.sum_cons, this] at e1 ⊢
          omega
        · simp only [unknownIdxs, hu, if_true]
          simp only [List.reverse_cons, List.append_assoc, List.singleton_append] at e2
          exact e2
        · intro o' ho'
          rcases List.mem_cons.mp ho' with rfl | ho'
          · exact Or.inr hu
          · exact e3 o' ho'
      | err t => simp [hc] at h
      | panic => simp [hc] at h

theorem sumInputs_some (vs : List Nat) : ∀ (acc s : Nat), sumInputs vs acc = some s → s = acc + vs.sum := by
  induction vs with
  | nil => intro acc s h; simp [sumInputs] at h; simp [h]
  | cons v rest ih =>
    intro acc s h
    unfold sumInputs at h
    cases hca : U64.checkedAdd acc v with
    | none => simp [hca] at h
    | some a =>
      simp only [hca] at h
      obtain ⟨ha, _⟩ := checkedAdd_some _ _ _ hca
      have := ih _ _ h
      simp only [List.sum_cons]; omega
/-- whatever the policy filter tolerates, a funded channel is credited net of the push -/
theorem chanStep_add_net (flt : Filter) (o : Out) (c : ChanFacts) (v : Nat) (h : chanStep flt o c = .add v) :
    v = c.value - c.pushMsat / 1000 ∧ c.pushMsat / 1000 ≤ c.value := by
  unfold chanStep at h
  generalize c.pushMsat / 1000 = push at h ⊢
  split at h
  · cases h
  split at h
  · cases h
  split at h
  · cases h
  split at h
  · cases h
  split at h
  · cases h
  split at h
  · cases h
  rename_i hlt
  simp only [OutRes.add.injEq] at h
  exact ⟨h.symm, Nat.le_of_not_lt hlt⟩

theorem outLoop_credit (flt : Filter) (n : Nat) (outs : List Out) :
    ∀ (i sum : Nat) (unk : List Nat) (s : Nat) (u : List Nat),
      outLoop flt n outs i sum unk = .done s u → s = sum + sumCredit flt outs := by
  induction outs with
  | nil =>
    intro i sum unk s u h
    simp only [outLoop, LoopRes.done.injEq] at h
    simp [sumCredit, h.1.symm]
  | cons o rest ih =>
    intro i sum unk s u h
    unfold outLoop at h
    split at h
    · cases h
    · cases hc : classifyStep flt o with
      | add v =>
        simp only [hc] at h
        cases hca : U64.checkedAdd sum v with
        | none => simp [hca] at h
        | some s1 =>
          simp only [hca] at h
          obtain ⟨hs1, _⟩ := checkedAdd_some _ _ _ hca
          have e := ih _ _ _ _ _ h
          simp only [sumCredit, List.map_cons, List.sum_cons, credit, hc] at e ⊢
          omega
      | skip =>
        simp only [hc] at h
        have e := ih _ _ _ _ _ h
        simp only [sumCredit, List.map_cons, List.sum_cons, credit, hc] at e ⊢
        omega
      | unknown =>
        simp only [hc] at h
        have e := ih _ _ _ _ _ h
        simp only [sumCredit, List.map_cons, List.sum_cons, credit, hc] at e ⊢
        omega
      | err t => simp [hc] at h
      | panic => simp [hc] at h


end VlsModel.Onchain
