import VlsModel.Model.KVV
/- Helper lemmas for property C16 (association lists, order on tables, backend invariants). -/
namespace VlsModel.KVV

variable {α : Type}

/-- `omega` after unfolding the `Key` abbreviation (it does not see through it) -/
macro "komega" : tactic => `(tactic| ((try unfold Key at *); omega))

/-! ### association lists -/

theorem lookup_insert (t : AL α) (k k' : Key) (a : α) :
    lookup (insert t k a) k' = if k = k' then some a else lookup t k' := by
  induction t with
  | nil => simp [insert, lookup]
  | cons e t ih =>
    obtain ⟨k0, a0⟩ := e
    simp only [insert]
    split
    · simp [lookup]
    · split
      · subst_vars; simp only [lookup]; split <;> simp_all
      · simp only [lookup, ih]
        split <;> split <;> simp_all

theorem lookup_insert_self (t : AL α) (k : Key) (a : α) : lookup (insert t k a) k = some a := by
  simp [lookup_insert]

theorem lookup_insert_ne (t : AL α) {k k' : Key} (a : α) (h : k ≠ k') :
    lookup (insert t k a) k' = lookup t k' := by
  simp [lookup_insert, h]

/-- keys strictly ascending -/
def Sorted : AL α → Prop
  | [] => True
  | e :: t => (∀ e' ∈ t, e.1 < e'.1) ∧ Sorted t

theorem mem_insert {t : AL α} {k : Key} {a : α} {e : Key × α} (h : e ∈ insert t k a) :
    e = (k, a) ∨ e ∈ t := by
  induction t with
  | nil => simp [insert] at h; exact Or.inl h
  | cons e0 t ih =>
    simp only [insert] at h
    split at h
    · simp at h; rcases h with h | h | h <;> simp [h]
    · split at h
      · simp at h; rcases h with h | h <;> simp [h]
      · simp at h; rcases h with h | h
        · simp [h]
        · rcases ih h with h | h <;> simp [h]

theorem sorted_insert {t : AL α} (k : Key) (a : α) (h : Sorted t) : Sorted (insert t k a) := by
  induction t with
  | nil => simp [insert, Sorted]
  | cons e0 t ih =>
    obtain ⟨h1, h2⟩ := h
    simp only [insert]
    split
    · refine ⟨?_, h1, h2⟩
      intro e' he'
      simp at he'
      rcases he' with rfl | he'
      · assumption
      · have := h1 e' he'; simp at *; komega
    · split
      · subst_vars; exact ⟨h1, h2⟩
      · refine ⟨?_, ih h2⟩
        intro e' he'
        rcases mem_insert he' with rfl | he'
        · simp; komega
        · exact h1 e' he'

theorem lookup_none_of_lt {t : AL α} {k : Key} (h : ∀ e ∈ t, k < e.1) : lookup t k = none := by
  induction t with
  | nil => rfl
  | cons e0 t ih =>
    simp only [lookup]
    have := h e0 (by simp)
    split
    · komega
    · exact ih (fun e he => h e (by simp [he]))

/-- on a sorted list re-inserting what is already there changes nothing -/
theorem insert_same {t : AL α} {k : Key} {a : α} (hs : Sorted t) (h : lookup t k = some a) :
    insert t k a = t := by
  induction t with
  | nil => simp [lookup] at h
  | cons e0 t ih =>
    obtain ⟨k0, a0⟩ := e0
    obtain ⟨h1, h2⟩ := hs
    simp only [lookup] at h
    simp only [insert]
    split at h
    · subst_vars; simp at h; subst h; simp
    · have hk : lookup t k ≠ none := by simp [h]
      split
      · exfalso; apply hk; apply lookup_none_of_lt
        intro e he; have := h1 e he; simp at this; komega
      · split
        · komega
        · rw [ih h2 h]

theorem insertAll_nil (t : AL α) : insertAll t [] = t := rfl
theorem insertAll_cons (t : AL α) (e : Key × α) (es : List (Key × α)) :
    insertAll t (e :: es) = insertAll (insert t e.1 e.2) es := rfl

theorem sorted_insertAll {t : AL α} (es : List (Key × α)) (h : Sorted t) : Sorted (insertAll t es) := by
  induction es generalizing t with
  | nil => exact h
  | cons e es ih => exact ih (sorted_insert _ _ h)

/-- after applying a list of entries a key holds what it held, or one of the entries for it -/
theorem lookup_insertAll (es : List (Key × α)) (t : AL α) (k : Key) :
    lookup (insertAll t es) k = lookup t k ∨
      ∃ a, (k, a) ∈ es ∧ lookup (insertAll t es) k = some a := by
  induction es generalizing t with
  | nil => exact Or.inl rfl
  | cons e es ih =>
    rw [insertAll_cons]
    rcases ih (insert t e.1 e.2) with h | ⟨a, ha, h⟩
    · by_cases hk : e.1 = k
      · right; refine ⟨e.2, ?_, ?_⟩
        · subst hk; simp
        · rw [h, lookup_insert]; simp [hk]
      · left; rw [h, lookup_insert]; simp [hk]
    · right; exact ⟨a, by simp [ha], h⟩

theorem lookup_insertAll_not_mem (es : List (Key × α)) (t : AL α) (k : Key)
    (h : ∀ e ∈ es, e.1 ≠ k) : lookup (insertAll t es) k = lookup t k := by
  rcases lookup_insertAll es t k with h' | ⟨a, ha, _⟩
  · exact h'
  · exact absurd rfl (h _ ha)

/-- for a sorted (duplicate-free) entry list the result is the entry, else the old content -/
theorem lookup_insertAll_sorted (es : AL α) (t : AL α) (k : Key) (hs : Sorted es) :
    lookup (insertAll t es) k = (match lookup es k with | some a => some a | none => lookup t k) := by
  induction es generalizing t with
  | nil => rfl
  | cons e es ih =>
    obtain ⟨k0, a0⟩ := e
    obtain ⟨h1, h2⟩ := hs
    rw [insertAll_cons, ih _ h2]
    simp only [lookup]
    by_cases hk : k0 = k
    · subst hk
      have : lookup es k0 = none := lookup_none_of_lt (fun e he => by have := h1 e he; simpa using this)
      simp [this, lookup_insert]
    · simp [hk, lookup_insert]


/-! ### the "never rolls back" order on committed tables -/

/-- a record may be replaced by one with a higher version, or stay exactly as it is -/
def RecLe (r r' : Rec) : Prop := r.1 < r'.1 ∨ r = r'

/-- every key present stays present, with a higher version or exactly the same record -/
def Le (t t' : Tab) : Prop := ∀ k r, lookup t k = some r → ∃ r', lookup t' k = some r' ∧ RecLe r r'

theorem RecLe.refl (r : Rec) : RecLe r r := Or.inr rfl

theorem RecLe.trans {a b c : Rec} (h1 : RecLe a b) (h2 : RecLe b c) : RecLe a c := by
  rcases h1 with h1 | rfl
  · rcases h2 with h2 | rfl
    · exact Or.inl (Nat.lt_trans h1 h2)
    · exact Or.inl h1
  · exact h2

theorem Le.refl (t : Tab) : Le t t := fun _ r h => ⟨r, h, RecLe.refl r⟩

theorem Le.trans {a b c : Tab} (h1 : Le a b) (h2 : Le b c) : Le a c := by
  intro k r h
  obtain ⟨r', h', l'⟩ := h1 k r h
  obtain ⟨r'', h'', l''⟩ := h2 k r' h'
  exact ⟨r'', h'', l'.trans l''⟩

/-- what `entryOk` means -/
theorem entryOk_iff (t : Tab) (e : Key × Rec) :
    entryOk t e = true ↔ ∀ r0, lookup t e.1 = some r0 → RecLe r0 e.2 := by
  unfold entryOk
  cases h : lookup t e.1 with
  | none => simp
  | some r0 =>
    obtain ⟨v0, x0⟩ := r0
    obtain ⟨k, v, x⟩ := e
    simp only [RecLe, Option.some.injEq, forall_eq', Prod.mk.injEq]
    split
    · constructor
      · intro hh; cases hh
      · rintro (hh | ⟨hh, _⟩) <;> (simp at *; omega)
    · split
      · subst_vars; simp
      · simp; left; simp at *; omega

theorem le_insert_of_ok {t : Tab} {e : Key × Rec} (h : entryOk t e = true) : Le t (insert t e.1 e.2) := by
  intro k r hr
  rw [lookup_insert]
  split
  · subst_vars; exact ⟨e.2, rfl, (entryOk_iff t e).1 h r hr⟩
  · exact ⟨r, hr, RecLe.refl r⟩

namespace Mem

theorem putV_le (t : Tab) (k : Key) (v : Nat) (x : Val) : Le t (putV t k v x).1 := by
  unfold putV
  split
  · rename_i h
    exact le_insert_of_ok (e := (k, (v, x))) (by simp [entryOk, h])
  · rename_i v0 x0 h
    split
    · exact Le.refl t
    · split
      · split <;> exact Le.refl t
      · exact le_insert_of_ok (e := (k, (v, x))) (by simp [entryOk, h]; omega)

theorem put_le (t : Tab) (k : Key) (x : Val) : Le t (put t k x).1 := by
  unfold put; split
  · exact Le.refl t
  · exact putV_le _ _ _ _

/-- `put_with_version` as a partial function on tables: `none` = refused -/
def putV? (t : Tab) (e : Key × Rec) : Option Tab :=
  match putV t e.1 e.2.1 e.2.2 with
  | (t', .ok) => some t'
  | _ => none

/-- reference semantics of a batch: its entries as a sequence of `put_with_version` calls -/
def seqRun : Tab → List (Key × Rec) → Option Tab
  | t, [] => some t
  | t, e :: es =>
    match putV? t e with
    | some t' => seqRun t' es
    | none => none

theorem putV?_eq (t : Tab) (e : Key × Rec) :
    putV? t e = (match lookup t e.1 with
      | none => some (insert t e.1 e.2)
      | some (v0, x0) =>
        if e.2.1 < v0 then none
        else if e.2.1 = v0 then (if x0 = e.2.2 then some t else none)
        else some (insert t e.1 e.2)) := by
  unfold putV? putV
  cases lookup t e.1 with
  | none => rfl
  | some r0 =>
    obtain ⟨v0, x0⟩ := r0
    simp only []
    by_cases h1 : e.2.1 < v0
    · simp [h1]
    · by_cases h2 : e.2.1 = v0
      · by_cases h3 : x0 = e.2.2 <;> simp [h2, h3]
      · simp [h1, h2]

theorem seqRun_snoc (t : Tab) (es : List (Key × Rec)) (e : Key × Rec) :
    seqRun t (es ++ [e]) = (match seqRun t es with | some T => putV? T e | none => none) := by
  induction es generalizing t with
  | nil => simp only [List.nil_append, seqRun]; cases putV? t e <;> rfl
  | cons e0 es ih =>
    simp only [List.cons_append, seqRun]
    cases putV? t e0 with
    | none => rfl
    | some t' => exact ih t'

theorem putV?_le {t t' : Tab} {e : Key × Rec} (h : putV? t e = some t') : Le t t' := by
  have := putV_le t e.1 e.2.1 e.2.2
  unfold putV? at h
  generalize putV t e.1 e.2.1 e.2.2 = p at h this
  obtain ⟨t1, r⟩ := p
  cases r <;> simp at h
  subst h; exact this

theorem seqRun_le {t T : Tab} {es : List (Key × Rec)} (h : seqRun t es = some T) : Le t T := by
  induction es generalizing t with
  | nil => simp only [seqRun] at h; cases h; exact Le.refl _
  | cons e es ih =>
    simp only [seqRun] at h
    cases hp : putV? t e with
    | none => rw [hp] at h; cases h
    | some t' => rw [hp] at h; exact (putV?_le hp).trans (ih h)

/-- inserting all entries in order gives, key by key, the table the sequence of accepted
    `put_with_version` calls gives (a same-version entry re-inserts the record that is there) -/
theorem seqRun_lookup {es : List (Key × Rec)} {t0 T0 T : Tab} (h0 : ∀ k, lookup t0 k = lookup T0 k)
    (h : seqRun T0 es = some T) : ∀ k, lookup (insertAll t0 es) k = lookup T k := by
  induction es generalizing t0 T0 with
  | nil => simp only [seqRun] at h; cases h; exact h0
  | cons e es ih =>
    simp only [seqRun] at h
    cases hp : putV? T0 e with
    | none => rw [hp] at h; cases h
    | some T1 =>
      rw [hp] at h
      rw [insertAll_cons]
      refine ih ?_ h
      intro k
      rw [lookup_insert]
      rw [putV?_eq] at hp
      cases hl : lookup T0 e.1 with
      | none =>
        rw [hl] at hp; cases hp
        rw [lookup_insert, h0 k]
      | some r0 =>
        obtain ⟨v0, x0⟩ := r0
        rw [hl] at hp
        simp only [] at hp
        split at hp
        · cases hp
        · split at hp
          · split at hp
            · cases hp
              rename_i hv hx
              split
              · subst_vars; rw [hl]
              · exact h0 k
            · cases hp
          · cases hp; rw [lookup_insert, h0 k]

theorem olookup_insert {α : Type} (st t : AL α) (k k' : Key) (a : α) :
    olookup (insert st k a) t k' = if k = k' then some a else olookup st t k' := by
  by_cases h : k = k' <;> simp [olookup, lookup_insert, h]

theorem foldl_checkStep_none (t : Tab) (es : List (Key × Rec)) : es.foldl (checkStep t) none = none := by
  induction es with
  | nil => rfl
  | cons e es ih => simpa [List.foldl, checkStep] using ih

/-- the check loop of the repaired `put_batch` accepts exactly when the sequential reference does -/
theorem check_fold (t : Tab) (es : List (Key × Rec)) (st T : Tab)
    (h : ∀ k, olookup st t k = lookup T k) :
    (es.foldl (checkStep t) (some st)).isSome = (seqRun T es).isSome := by
  induction es generalizing st T with
  | nil => rfl
  | cons e es ih =>
    simp only [List.foldl, seqRun]
    rw [putV?_eq]
    simp only [checkStep, h e.1]
    have hins : ∀ k, olookup (insert st e.1 e.2) t k = lookup (insert T e.1 e.2) k := by
      intro k; rw [olookup_insert, lookup_insert, h k]
    cases lookup T e.1 with
    | none => exact ih _ _ hins
    | some r0 =>
      obtain ⟨v0, x0⟩ := r0
      simp only []
      split
      · rw [foldl_checkStep_none]
      · split
        · split
          · exact ih _ _ h
          · rw [foldl_checkStep_none]
        · exact ih _ _ hins

theorem le_congr_right {a b b' : Tab} (h : ∀ k, lookup b k = lookup b' k) (hl : Le a b) : Le a b' := by
  intro k r hr
  obtain ⟨r', h1, h2⟩ := hl k r hr
  exact ⟨r', by rw [← h k]; exact h1, h2⟩

/-- the repaired memory `put_batch` = the sequence of `put_with_version` calls, all or nothing -/
theorem batch_spec (t : Tab) (es : List (Key × Rec)) :
    (seqRun t es = none ∧ batch t es = (t, .mismatch)) ∨
    (∃ T, seqRun t es = some T ∧ batch t es = (insertAll t es, .ok) ∧
      ∀ k, lookup (insertAll t es) k = lookup T k) := by
  have hc := check_fold t es [] t (fun _ => rfl)
  unfold batch
  cases hs : seqRun t es with
  | none =>
    left
    rw [hs] at hc
    cases hf : es.foldl (checkStep t) (some []) with
    | none => exact ⟨rfl, rfl⟩
    | some _ => rw [hf] at hc; cases hc
  | some T =>
    right
    rw [hs] at hc
    cases hf : es.foldl (checkStep t) (some []) with
    | none => rw [hf] at hc; cases hc
    | some _ => exact ⟨T, rfl, rfl, seqRun_lookup (fun _ => rfl) hs⟩

theorem batch_le (t : Tab) (es : List (Key × Rec)) : Le t (batch t es).1 := by
  rcases batch_spec t es with ⟨_, h⟩ | ⟨T, hs, h, hl⟩
  · rw [h]; exact Le.refl _
  · rw [h]; exact le_congr_right (fun k => (hl k).symm) (seqRun_le hs)

theorem step_le (t : Tab) (op : Op) : Le t (step t op).1 := by
  cases op <;> simp only [step] <;> first | exact Le.refl t | exact putV_le _ _ _ _ | exact put_le _ _ _ | exact batch_le _ _

theorem putV_sorted {t : Tab} (k : Key) (v : Nat) (x : Val) (h : Sorted t) : Sorted (putV t k v x).1 := by
  unfold putV; repeat' split
  all_goals first | exact h | exact sorted_insert _ _ h

theorem put_sorted {t : Tab} (k : Key) (x : Val) (h : Sorted t) : Sorted (put t k x).1 := by
  unfold put; split
  · exact h
  · exact putV_sorted _ _ _ h

theorem batch_sorted {t : Tab} (es : List (Key × Rec)) (h : Sorted t) : Sorted (batch t es).1 := by
  unfold batch; split
  · exact sorted_insertAll _ h
  · exact h

theorem step_sorted {t : Tab} (op : Op) (h : Sorted t) : Sorted (step t op).1 := by
  cases op <;> simp only [step] <;>
    first | exact h | exact putV_sorted _ _ _ h | exact put_sorted _ _ h | exact batch_sorted _ h

end Mem

end VlsModel.KVV
