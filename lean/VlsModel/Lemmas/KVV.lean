import VlsModel.Model.KVV
/- Helper lemmas for property C16 (association lists, order on tables, backend invariants). -/
namespace VlsModel.KVV

variable {α : Type}

/-- `omega` after unfolding the `Key` abbreviation (it does not see through it) -/
macro "komega" : tactic => `(tactic| ((try unfold Key at *); omega))

/-! ### association lists -/

theorem lookup_insert (t : AL α) (k k' : Key) (a : α) :
    lookup (insert t k a) k' = if k = k' then some a else lookup t k' := by
  induction t with
  | nil => simp [insert, lookup]
  | cons e t ih =>
    obtain ⟨k0, a0⟩ := e
    simp only [insert]
    split
    · simp [lookup]
    · split
      · subst_vars; simp only [lookup]; split <;> simp_all
      · simp only [lookup, ih]
        split <;> split <;> simp_all

theorem lookup_insert_self (t : AL α) (k : Key) (a : α) : lookup (insert t k a) k = some a := by
  simp [lookup_insert]

theorem lookup_insert_ne (t : AL α) {k k' : Key} (a : α) (h : k ≠ k') :
    lookup (insert t k a) k' = lookup t k' := by
  simp [lookup_insert, h]

/-- keys strictly ascending -/
def Sorted : AL α → Prop
  | [] => True
  | e :: t => (∀ e' ∈ t, e.1 < e'.1) ∧ Sorted t

theorem mem_insert {t : AL α} {k : Key} {a : α} {e : Key × α} (h : e ∈ insert t k a) :
    e = (k, a) ∨ e ∈ t := by
  induction t with
  | nil => simp [insert] at h; exact Or.inl h
  | cons e0 t ih =>
    simp only [insert] at h
    split at h
    · simp at h; rcases h with h | h | h <;> simp [h]
    · split at h
      · simp at h; rcases h with h | h <;> simp [h]
      · simp at h; rcases h with h | h
        · simp [h]
        · rcases ih h with h | h <;> simp [h]

theorem sorted_insert {t : AL α} (k : Key) (a : α) (h : Sorted t) : Sorted (insert t k a) := by
  induction t with
  | nil => simp [insert, Sorted]
  | cons e0 t ih =>
    obtain ⟨h1, h2⟩ := h
    simp only [insert]
    split
    · refine ⟨?_, h1, h2⟩
      intro e' he'
      simp at he'
      rcases he' with rfl | he'
      · assumption
      · have := h1 e' he'; simp at *; komega
    · split
      · subst_vars; exact ⟨h1, h2⟩
      · refine ⟨?_, ih h2⟩
        intro e' he'
        rcases mem_insert he' with rfl | he'
        · simp; komega
        · exact h1 e' he'

theorem lookup_none_of_lt {t : AL α} {k : Key} (h : ∀ e ∈ t, k < e.1) : lookup t k = none := by
  induction t with
  | nil => rfl
  | cons e0 t ih =>
    simp only [lookup]
    have := h e0 (by simp)
    split
    · komega
    · exact ih (fun e he => h e (by simp [he]))

/-- on a sorted list re-inserting what is already there changes nothing -/
theorem insert_same {t : AL α} {k : Key} {a : α} (hs : Sorted t) (h : lookup t k = some a) :
    insert t k a = t := by
  induction t with
  | nil => simp [lookup] at h
  | cons e0 t ih =>
    obtain ⟨k0, a0⟩ := e0
    obtain ⟨h1, h2⟩ := hs
    simp only [lookup] at h
    simp only [insert]
    split at h
    · subst_vars; simp at h; subst h; simp
    · have hk : lookup t k ≠ none := by simp [h]
      split
      · exfalso; apply hk; apply lookup_none_of_lt
        intro e he; have := h1 e he; simp at this; komega
      · split
        · komega
        · rw [ih h2 h]

theorem insertAll_nil (t : AL α) : insertAll t [] = t := rfl
theorem insertAll_cons (t : AL α) (e : Key × α) (es : List (Key × α)) :
    insertAll t (e :: es) = insertAll (insert t e.1 e.2) es := rfl

theorem sorted_insertAll {t : AL α} (es : List (Key × α)) (h : Sorted t) : Sorted (insertAll t es) := by
  induction es generalizing t with
  | nil => exact h
  | cons e es ih => exact ih (sorted_insert _ _ h)

/-- after applying a list of entries a key holds what it held, or one of the entries for it -/
theorem lookup_insertAll (es : List (Key × α)) (t : AL α) (k : Key) :
    lookup (insertAll t es) k = lookup t k ∨
      ∃ a, (k, a) ∈ es ∧ lookup (insertAll t es) k = some a := by
  induction es generalizing t with
  | nil => exact Or.inl rfl
  | cons e es ih =>
    rw [insertAll_cons]
    rcases ih (insert t e.1 e.2) with h | ⟨a, ha, h⟩
    · by_cases hk : e.1 = k
      · right; refine ⟨e.2, ?_, ?_⟩
        · subst hk; simp
        · rw [h, lookup_insert]; simp [hk]
      · left; rw [h, lookup_insert]; simp [hk]
    · right; exact ⟨a, by simp [ha], h⟩

theorem lookup_insertAll_not_mem (es : List (Key × α)) (t : AL α) (k : Key)
    (h : ∀ e ∈ es, e.1 ≠ k) : lookup (insertAll t es) k = lookup t k := by
  rcases lookup_insertAll es t k with h' | ⟨a, ha, _⟩
  · exact h'
  · exact absurd rfl (h _ ha)

/-- for a sorted (duplicate-free) entry list the result is the entry, else the old content -/
theorem lookup_insertAll_sorted (es : AL α) (t : AL α) (k : Key) (hs : Sorted es) :
    lookup (insertAll t es) k = (match lookup es k with | some a => some a | none => lookup t k) := by
  induction es generalizing t with
  | nil => rfl
  | cons e es ih =>
    obtain ⟨k0, a0⟩ := e
    obtain ⟨h1, h2⟩ := hs
    rw [insertAll_cons, ih _ h2]
    simp only [lookup]
    by_cases hk : k0 = k
    · subst hk
      have : lookup es k0 = none := lookup_none_of_lt (fun e he => by have := h1 e he; simpa using this)
      simp [this, lookup_insert]
    · simp [hk, lookup_insert]


/-! ### the "never rolls back" order on committed tables -/

/-- a record may be replaced by one with a higher version, or stay exactly as it is -/
def RecLe (r r' : Rec) : Prop := r.1 < r'.1 ∨ r = r'

/-- every key present stays present, with a higher version or exactly the same record -/
def Le (t t' : Tab) : Prop := ∀ k r, lookup t k = some r → ∃ r', lookup t' k = some r' ∧ RecLe r r'

theorem RecLe.refl (r : Rec) : RecLe r r := Or.inr rfl

theorem RecLe.trans {a b c : Rec} (h1 : RecLe a b) (h2 : RecLe b c) : RecLe a c := by
  rcases h1 with h1 | rfl
  · rcases h2 with h2 | rfl
    · exact Or.inl (Nat.lt_trans h1 h2)
    · exact Or.inl h1
  · exact h2

theorem Le.refl (t : Tab) : Le t t := fun _ r h => ⟨r, h, RecLe.refl r⟩

theorem Le.trans {a b c : Tab} (h1 : Le a b) (h2 : Le b c) : Le a c := by
  intro k r h
  obtain ⟨r', h', l'⟩ := h1 k r h
  obtain ⟨r'', h'', l''⟩ := h2 k r' h'
  exact ⟨r'', h'', l'.trans l''⟩

/-- what `entryOk` means -/
theorem entryOk_iff (t : Tab) (e : Key × Rec) :
    entryOk t e = true ↔ ∀ r0, lookup t e.1 = some r0 → RecLe r0 e.2 := by
  unfold entryOk
  cases h : lookup t e.1 with
  | none => simp
  | some r0 =>
    obtain ⟨v0, x0⟩ := r0
    obtain ⟨k, v, x⟩ := e
    simp only [RecLe, Option.some.injEq, forall_eq', Prod.mk.injEq]
    split
    · constructor
      · intro hh; cases hh
      · rintro (hh | ⟨hh, _⟩) <;> (simp at *; omega)
    · split
      · subst_vars; simp
      · simp; left; simp at *; omega

theorem le_insert_of_ok {t : Tab} {e : Key × Rec} (h : entryOk t e = true) : Le t (insert t e.1 e.2) := by
  intro k r hr
  rw [lookup_insert]
  split
  · subst_vars; exact ⟨e.2, rfl, (entryOk_iff t e).1 h r hr⟩
  · exact ⟨r, hr, RecLe.refl r⟩

/-- an accepted memory batch: every key ends at its old record or at one of the (checked) entries -/
theorem le_insertAll_of_ok {t : Tab} {es : List (Key × Rec)} (h : es.all (entryOk t) = true) :
    Le t (insertAll t es) := by
  intro k r hr
  rcases lookup_insertAll es t k with h' | ⟨a, ha, h'⟩
  · exact ⟨r, h'.trans hr, RecLe.refl r⟩
  · refine ⟨a, h', ?_⟩
    have := List.all_eq_true.1 h (k, a) ha
    exact (entryOk_iff t (k, a)).1 this r hr

namespace Mem

theorem putV_le (t : Tab) (k : Key) (v : Nat) (x : Val) : Le t (putV t k v x).1 := by
  unfold putV
  split
  · rename_i h
    exact le_insert_of_ok (e := (k, (v, x))) (by simp [entryOk, h])
  · rename_i v0 x0 h
    split
    · exact Le.refl t
    · split
      · split <;> exact Le.refl t
      · exact le_insert_of_ok (e := (k, (v, x))) (by simp [entryOk, h]; omega)

theorem put_le (t : Tab) (k : Key) (x : Val) : Le t (put t k x).1 := by
  unfold put; split
  · exact Le.refl t
  · exact putV_le _ _ _ _

theorem batch_le (t : Tab) (es : List (Key × Rec)) : Le t (batch t es).1 := by
  unfold batch; split
  · exact le_insertAll_of_ok (by assumption)
  · exact Le.refl t

theorem step_le (t : Tab) (op : Op) : Le t (step t op).1 := by
  cases op <;> simp only [step] <;> first | exact Le.refl t | exact putV_le _ _ _ _ | exact put_le _ _ _ | exact batch_le _ _

theorem putV_sorted {t : Tab} (k : Key) (v : Nat) (x : Val) (h : Sorted t) : Sorted (putV t k v x).1 := by
  unfold putV; repeat' split
  all_goals first | exact h | exact sorted_insert _ _ h

theorem put_sorted {t : Tab} (k : Key) (x : Val) (h : Sorted t) : Sorted (put t k x).1 := by
  unfold put; split
  · exact h
  · exact putV_sorted _ _ _ h

theorem batch_sorted {t : Tab} (es : List (Key × Rec)) (h : Sorted t) : Sorted (batch t es).1 := by
  unfold batch; split
  · exact sorted_insertAll _ h
  · exact h

theorem step_sorted {t : Tab} (op : Op) (h : Sorted t) : Sorted (step t op).1 := by
  cases op <;> simp only [step] <;>
    first | exact h | exact putV_sorted _ _ _ h | exact put_sorted _ _ h | exact batch_sorted _ h

end Mem

end VlsModel.KVV
