import VlsModel.Lemmas.EnforcementC03
import VlsModel.Lemmas.SecretsSound
/-
C03_chain: the secret store of the channel is the compact image of the accepted counterparty
revocations — every accepted (advancing) revocation secret stays retrievable.  No Mathlib.
-/
namespace VlsModel.Enforcement
open VlsModel VlsModel.Secrets

theorem minSeen_le_acc {S : Type} : ∀ (st : Store S) (acc : Nat),
    st.foldl (fun a e => if e.2 < a then e.2 else a) acc ≤ acc
  | [], acc => Nat.le_refl _
  | e :: rest, acc => by
    simp only [List.foldl_cons]
    refine Nat.le_trans (minSeen_le_acc rest _) ?_
    split <;> omega

theorem minSeen_le_mem {S : Type} : ∀ (st : Store S) (acc : Nat) (e : S × Nat), e ∈ st →
    st.foldl (fun a e => if e.2 < a then e.2 else a) acc ≤ e.2
  | [], _, e, he => by cases he
  | x :: rest, acc, e, he => by
    simp only [List.foldl_cons]
    rcases List.mem_cons.mp he with rfl | he
    · refine Nat.le_trans (minSeen_le_acc rest _) ?_
      split <;> omega
    · exact minSeen_le_mem rest _ e he

/-- re-providing an index that is already covered leaves the store as it is -/
theorem provide_old_same {S : Type} [DecidableEq S] (F : Nat → S → S) {st st' : Store S} {sec : Nat → S} {m : Nat}
    (inv : SInv F st sec m) {idx : Nat} {x : S} (h1 : m ≤ idx) (h2 : idx < N48)
    (h : provide F st idx x = some st') : st' = st := by
  -- the smallest provided index `m` is stored, so `minSeen ≤ m ≤ idx`
  have hmin : minSeen st ≤ idx := by
    obtain ⟨p, os, oi, hp, hcov⟩ := inv.B m (Nat.le_refl _) (by omega)
    have hP := inv.P p os oi hp
    have : oi ≤ m := by rw [← hcov]; exact hi_le p m
    have hmem : (os, oi) ∈ st := List.mem_of_getElem? hp
    have := minSeen_le_mem st N48 (os, oi) hmem
    unfold minSeen
    simp only at this
    omega
  unfold provide at h
  dsimp only at h
  split at h
  · cases h
  · split at h
    · cases h
    · exact (Option.some.inj h).symm

theorem provideDesc_snoc {S : Type} [DecidableEq S] (F : Nat → S → S) :
    ∀ (ss : List S) (st : Store S) (m : Nat) (st1 : Store S) (x : S),
      provideDesc F st m ss = some st1 → ss.length < m →
      provideDesc F st m (ss ++ [x]) = provide F st1 (m - ss.length - 1) x
  | [], st, m, st1, x, h, hl => by
    simp only [provideDesc, Option.some.injEq] at h
    subst h
    cases m with
    | zero => simp at hl
    | succ m =>
      simp only [List.nil_append, provideDesc, List.length_nil, Nat.sub_zero, Nat.add_sub_cancel]
      cases provide F st m x <;> rfl
  | s :: rest, st, 0, st1, x, h, hl => by simp [provideDesc] at h
  | s :: rest, st, m + 1, st1, x, h, hl => by
    simp only [provideDesc, List.cons_append] at h ⊢
    cases hp : provide F st m s with
    | none => rw [hp] at h; cases h
    | some st2 =>
      rw [hp] at h
      simp only
      rw [provideDesc_snoc F rest st2 m st1 x h (by simpa using hl)]
      congr 1
      simp

end VlsModel.Enforcement

namespace VlsModel.Enforcement
open VlsModel VlsModel.Secrets

theorem revokeCp_ok_store {F : Nat → Bytes → Bytes} {c : Chan} {n : Nat} {s : Bytes} {pt : Nat}
    (h : (revokeCp F c n s pt).out.res = .ok) (st : Store Bytes) (hst : c.secrets = some st) :
    n ≤ INITIAL ∧ ∃ st', provide F st (INITIAL - n) s = some st' ∧ (revokeCp F c n s pt).c.secrets = some st' := by
  revert h
  unfold revokeCp fail
  simp only [hst]
  cases hp : provide F st (INITIAL - n) s with
  | none =>
    dsimp only
    repeat' split
    all_goals intro h
    all_goals simp at h
  | some st' =>
    dsimp only
    repeat' split
    all_goals intro h
    all_goals simp at h
    all_goals exact ⟨by omega, st', rfl, rfl⟩

end VlsModel.Enforcement

namespace VlsModel.Enforcement
open VlsModel VlsModel.Secrets

/-- a revocation of counterparty commitment `j` by the secret `sec` was accepted somewhere in `h` -/
def AcceptedRev (h : Hist) (j : Nat) (sec : Bytes) : Prop :=
  ∃ e ∈ h, (∃ pt, e.1 = .revokeCp j sec pt) ∧ e.2.res = .ok

theorem AcceptedRev.mono {h : Hist} {j : Nat} {sec : Bytes} (e : Op × Out) (a : AcceptedRev h j sec) :
    AcceptedRev (e :: h) j sec := by
  obtain ⟨x, hx, hv⟩ := a
  exact ⟨x, List.mem_cons_of_mem _ hx, hv⟩

/-- the store is the compact image of the list of accepted revocation secrets (one per revoked number) -/
def Chain (F : Nat → Bytes → Bytes) (c : Chan) (h : Hist) : Prop :=
  ∃ (ss : List Bytes) (st : Store Bytes), c.secrets = some st ∧ provideDesc F [] N48 ss = some st ∧
    ss.length = c.cpRevoke ∧ ss.length ≤ N48 ∧ ∀ j (hj : j < ss.length), AcceptedRev h j ss[j]

theorem Chain_init (F : Nat → Bytes → Bytes) : Chain F init.mem [] :=
  ⟨[], [], rfl, rfl, rfl, Nat.zero_le _, fun j hj => absurd hj (Nat.not_lt_zero _)⟩

theorem Chain_transfer {F : Nat → Bytes → Bytes} {c c' : Chan} {h : Hist} (e : Op × Out) (ch : Chain F c h)
    (hcp : cpPart c' = cpPart c) : Chain F c' (e :: h) := by
  simp only [cpPart, Prod.mk.injEq] at hcp
  obtain ⟨_, m2, _, _, _, _, m7⟩ := hcp
  obtain ⟨ss, st, a, b, c1, d, f⟩ := ch
  exact ⟨ss, st, by rw [m7]; exact a, b, by rw [m2]; exact c1, d, fun j hj => (f j hj).mono e⟩

theorem INITIAL_succ : INITIAL + 1 = N48 := by decide

/-- **step lemma of C03_chain** -/
theorem Chain_step (F : Nat → Bytes → Bytes) {s : Sys} {h : Hist} (inv : L s h) (ch : Chain F s.mem h) (op : Op) :
    Chain F (step F s op).1.mem ((op, (step F s op).2) :: h) := by
  by_cases hr : op = .restart
  · subst hr
    exact Chain_transfer _ ch (by simpa [step] using inv.sync)
  · rw [step_eq F s hr]
    dsimp only [sysAfter]
    by_cases hrev : ∃ n sec pt, op = .revokeCp n sec pt
    · obtain ⟨n, sec, pt, rfl⟩ := hrev
      cases hslot : s.mem.slot with
      | stub =>
        have hc : chanStep F s.mem (.revokeCp n sec pt) = fail s.mem .errInvalid := by
          simp [chanStep, needReady, hslot]
        rw [hc]; exact Chain_transfer _ ch rfl
      | ready =>
        have hc : chanStep F s.mem (.revokeCp n sec pt) = revokeCp F s.mem n sec pt := by
          simp [chanStep, needReady, hslot]
        rw [hc]
        by_cases hok : (revokeCp F s.mem n sec pt).out.res = .ok
        · obtain ⟨ss, st, a, b, c1, d, f⟩ := ch
          obtain ⟨hwhich, _, _, _, _, m2, _, _, _⟩ := revokeCp_ok hok
          obtain ⟨hnI, st', hprov, hsec'⟩ := revokeCp_ok_store hok st a
          have hidx : INITIAL - n = N48 - n - 1 := by have := INITIAL_succ; omega
          rcases hwhich with hadv | hretry
          · -- advancing revocation: one more secret in the list
            have hlt : ss.length < N48 := by have := INITIAL_succ; omega
            refine ⟨ss ++ [sec], st', hsec', ?_, ?_, ?_, ?_⟩
            · rw [provideDesc_snoc F ss [] N48 st sec b hlt, c1, ← hadv, ← hidx]; exact hprov
            · rw [m2, List.length_append, c1, hadv]; rfl
            · simp; omega
            · intro j hj
              by_cases hjl : j < ss.length
              · rw [List.getElem_append_left hjl]; exact (f j hjl).mono _
              · have hjn : j = n := by simp at hj; omega
                subst hjn
                have : (ss ++ [sec])[j] = sec := by
                  rw [List.getElem_append_right (by omega)]; simp
                rw [this]
                exact ⟨_, List.mem_cons_self, ⟨pt, rfl⟩, hok⟩
          · -- retry of the previous revocation: the store does not move
            have hss : ss ≠ [] := by intro e; rw [e] at c1; simp at c1; omega
            obtain ⟨sec', inv', _, _, _⟩ :=
              provideDesc_inv F ss [] N48 (fun _ => sec) st (SInv_init F _) b
            have hsame : st' = st :=
              provide_old_same F inv' (by have := INITIAL_succ; omega) (by have := INITIAL_succ; omega) hprov
            refine ⟨ss, st, by rw [hsec', hsame], b, by rw [m2, c1, hretry], d, fun j hj => (f j hj).mono _⟩
        · rw [revokeCp_notok hok]; exact Chain_transfer _ ch rfl
    · by_cases hsig : ∃ n pt info pk, op = .signCp n pt info pk
      · obtain ⟨n, pt, info, pk, rfl⟩ := hsig
        cases hslot : s.mem.slot with
        | stub =>
          have hc : chanStep F s.mem (.signCp n pt info pk) = fail s.mem .errInvalid := by
            simp [chanStep, needReady, hslot]
          rw [hc]; exact Chain_transfer _ ch rfl
        | ready =>
          have hc : chanStep F s.mem (.signCp n pt info pk) = signCp s.mem n pt info pk := by
            simp [chanStep, needReady, hslot]
          rw [hc]
          by_cases hok : (signCp s.mem n pt info pk).out.res = .ok
          · obtain ⟨ss, st, a, b, c1, d, f⟩ := ch
            rcases (signCp_ok hok).2.2 with ⟨_, hcp⟩ | ⟨_, _, _, hsame⟩
            · simp only [cpPart, Prod.mk.injEq] at hcp
              obtain ⟨_, m2, _, _, _, _, m7⟩ := hcp
              exact ⟨ss, st, by rw [m7]; exact a, b, by rw [m2]; exact c1, d, fun j hj => (f j hj).mono _⟩
            · rw [hsame]; exact ⟨ss, st, a, b, c1, d, fun j hj => (f j hj).mono _⟩
          · rw [signCp_notok hok]; exact Chain_transfer _ ch rfl
      · have h1 : ∀ n pt info pk, op ≠ .signCp n pt info pk := fun n pt info pk hh => hsig ⟨n, pt, info, pk, hh⟩
        have h2 : ∀ n sec pt, op ≠ .revokeCp n sec pt := fun n sec pt hh => hrev ⟨n, sec, pt, hh⟩
        exact Chain_transfer _ ch (chanStep_cpPart F s.mem inv.fresh op h1 h2)

theorem runChain (F : Nat → Bytes → Bytes) (ops : List Op) (s : Sys) (h : Hist)
    (inv : L s h) (cj : CpJustified h) (ch : Chain F s.mem h) :
    Chain F (runH F s h ops).1.mem (runH F s h ops).2 := by
  induction ops generalizing s h with
  | nil => exact ch
  | cons op rest ih =>
    have st := L_step F inv op
    refine ih _ _ st.1 ⟨⟨?_, ?_⟩, cj⟩ (Chain_step F inv ch op)
    · intro n pt info pk he hok; exact (st.2.1 n pt info pk he hok).2
    · intro n sec pt he hok; exact st.2.2 n sec pt he hok

end VlsModel.Enforcement
