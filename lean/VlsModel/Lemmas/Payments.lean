import VlsModel.Model.Payments
/-
Helper lemmas for C06 (payments ledger): sums over channels, key sets, the validation outcome, and the
node-wide invariant `Inv` with its preservation by every request.
-/
namespace VlsModel.Payments
open VlsModel

/-! ### sums over channels -/

theorem sumCh_mono {n : Nat} {f g : Nat → Nat} (h : ∀ c, c < n → f c ≤ g c) : sumCh n f ≤ sumCh n g := by
  induction n with
  | zero => simp [sumCh]
  | succ k ih =>
    simp only [sumCh]
    have := ih (fun c hc => h c (by omega))
    have := h k (by omega)
    omega

theorem sumCh_congr {n : Nat} {f g : Nat → Nat} (h : ∀ c, c < n → f c = g c) : sumCh n f = sumCh n g :=
  Nat.le_antisymm (sumCh_mono (fun c hc => Nat.le_of_eq (h c hc)))
    (sumCh_mono (fun c hc => Nat.le_of_eq (h c hc).symm))

theorem sumCh_upd_ge {n : Nat} (f : Nat → Nat) (c : Nat) (v : Nat) (hc : n ≤ c) :
    sumCh n (upd f c v) = sumCh n f :=
  sumCh_congr (fun c' hc' => by simp only [upd]; split <;> omega)

theorem sumCh_upd {n : Nat} (f : Nat → Nat) (c : Nat) (v : Nat) (hc : c < n) :
    sumCh n (upd f c v) + f c = sumCh n f + v := by
  induction n with
  | zero => omega
  | succ k ih =>
    simp only [sumCh]
    by_cases hk : c = k
    · subst hk
      have := sumCh_upd_ge (n := c) f c v (Nat.le_refl _)
      simp only [upd, if_true] at *
      omega
    · have := ih (by omega)
      have : upd f c v k = f k := by simp only [upd]; split <;> omega
      omega

theorem sumCh_ge {n : Nat} (f : Nat → Nat) (c : Nat) (hc : c < n) : f c ≤ sumCh n f := by
  induction n with
  | zero => omega
  | succ k ih =>
    simp only [sumCh]
    by_cases hk : c = k
    · subst hk; omega
    · have := ih (by omega); omega

/-- `sum + new - old` of `updated_incoming_outgoing` is the sum with the channel's entry replaced -/
theorem sumCh_replace {n : Nat} (f : Nat → Nat) (c : Nat) (v : Nat) (hc : c < n) :
    sumCh n f + v - f c = sumCh n (upd f c v) := by
  have := sumCh_upd f c v hc
  have := sumCh_ge f c hc
  omega

/-! ### per-hash sums and key sets -/

theorem sumFor_of_not_mem {l : List Htlc} {h : Hash} (hn : h ∉ hashes l) : sumFor l h = 0 := by
  induction l with
  | nil => rfl
  | cons x xs ih =>
    simp only [hashes, List.map_cons, List.mem_cons, not_or] at hn
    simp only [sumFor]
    have : ¬ x.hash = h := fun e => hn.1 e.symm
    simp only [this, if_false, Nat.zero_add]
    exact ih (by simpa [hashes] using hn.2)

theorem not_mem_keys {hEff cEff hCur cCur : Info} {h : Hash} (hn : h ∉ keys hEff cEff hCur cCur) :
    inVal hEff cEff h = 0 ∧ outVal hEff cEff h = 0 ∧ inVal hCur cCur h = 0 ∧ outVal hCur cCur h = 0 := by
  simp only [keys, List.mem_append, List.mem_filter, not_or, not_and, decide_eq_true_eq] at hn
  obtain ⟨⟨⟨⟨⟨⟨h1, h2⟩, h3⟩, h4⟩, h5⟩, h6⟩, h7⟩ := hn
  have e2 := sumFor_of_not_mem h2
  have e4 := sumFor_of_not_mem h4
  have e5 := sumFor_of_not_mem h5
  have e6 := sumFor_of_not_mem h6
  have e7 := sumFor_of_not_mem h7
  refine ⟨?_, ?_, ?_, ?_⟩
  · simp only [inVal]
    by_cases hm : h ∈ hashes hEff.inc
    · rw [sumFor_of_not_mem (h1 hm)]; omega
    · rw [sumFor_of_not_mem hm]; omega
  · simp only [outVal, e4, e5]; omega
  · simp only [inVal, e2]; omega
  · simp only [outVal, e6, e7]; omega


/-! ### validation outcome -/

theorem balance_ok_some {pol : Policy} {i o a : Nat} (h : balance pol i o (some a) = .ok) :
    o ≤ i + a + pol.maxFee := by
  unfold balance at h
  simp only at h
  split at h
  · cases h
  · split at h
    · cases h
    · split at h
      · cases h
      · omega

theorem balance_ok_none {pol : Policy} {i o : Nat} (h : balance pol i o none = .ok) : o ≤ i := by
  unfold balance at h
  simp only at h
  split at h
  · cases h
  · omega

def getIn (p : Option Payment) (c : Nat) : Nat := match p with | some p => p.inc c | none => 0
def getOut (p : Option Payment) (c : Nat) : Nat := match p with | some p => p.out c | none => 0

theorem validate_ok {n : Node} {c : Nat} {hEff cEff : Info} (hv : validate n c hEff cEff = .ok) :
    ∀ h, h ∈ keys hEff cEff (n.chans c).hcur (n.chans c).ccur →
      checkHash n.invoices n.payments n.pol n.nch c (inVal hEff cEff h) (outVal hEff cEff h) h = .ok := by
  unfold validate at hv
  simp only at hv
  split at hv
  · cases hv
  · split at hv
    · cases hv
    · split at hv
      · rename_i hall
        intro h hm
        have := List.all_eq_true.mp hall h hm
        simpa using this
      · cases hv

theorem sumCh_zero (n : Nat) : sumCh n (fun _ => 0) = 0 := by
  induction n with
  | zero => rfl
  | succ k ih => simp [sumCh, ih]

theorem sumCh_upd_zero {n : Nat} (c v : Nat) (hc : c < n) : sumCh n (upd (fun _ => 0) c v) = v := by
  have := sumCh_upd (n := n) (fun _ => 0) c v hc
  rw [sumCh_zero] at this
  omega

/-- an accepted hash that has an invoice balances, with the channel's entry replaced by the new values -/
theorem checkHash_ok_invoiced {invoices : Hash → Option Invoice} {payments : Hash → Option Payment}
    {pol : Policy} {nch c ni no : Nat} {h : Hash} {inv : Invoice} (hc : c < nch)
    (hk : checkHash invoices payments pol nch c ni no h = .ok) (hi : invoices h = some inv) :
    sumCh nch (upd (getOut (payments h)) c no) * 1000
      ≤ sumCh nch (upd (getIn (payments h)) c ni) * 1000 + inv.amount + pol.maxFee := by
  unfold checkHash at hk
  cases hp : payments h with
  | none =>
    simp only [hp, hi, Option.map_some, Option.isSome_none, Bool.false_and, Bool.not_true,
      Bool.false_eq_true, if_false] at hk
    by_cases hov : ni * 1000 > U64.MAX ∨ no * 1000 > U64.MAX
    · simp [hov] at hk
    · simp only [hov, if_false] at hk
      cases hb : balance pol (ni * 1000) (no * 1000) (some inv.amount) with
      | ok =>
        have := balance_ok_some hb
        have e1 : sumCh nch (upd (getOut none) c no) = no := sumCh_upd_zero c no hc
        have e2 : sumCh nch (upd (getIn none) c ni) = ni := sumCh_upd_zero c ni hc
        rw [e1, e2]; omega
      | err => simp [hb] at hk
      | panic => simp [hb] at hk
  | some p =>
    simp only [hp, hi, Option.map_some, Option.isNone_some, Bool.and_false] at hk
    cases hcl : cltvGate pol p with
    | false => simp [hcl] at hk
    | true =>
      simp only [hcl, Bool.not_true, Bool.false_eq_true, if_false] at hk
      unfold Payment.updated at hk
      by_cases hsum : sumCh nch p.inc + ni ≤ U64.MAX ∧ sumCh nch p.out + no ≤ U64.MAX
      · simp only [hsum, and_self, if_true] at hk
        by_cases hov : (sumCh nch p.inc + ni - p.inc c) * 1000 > U64.MAX ∨ (sumCh nch p.out + no - p.out c) * 1000 > U64.MAX
        · simp [hov] at hk
        · simp only [hov, if_false] at hk
          cases hb : balance pol ((sumCh nch p.inc + ni - p.inc c) * 1000) ((sumCh nch p.out + no - p.out c) * 1000) (some inv.amount) with
          | ok =>
            have := balance_ok_some hb
            show sumCh nch (upd p.out c no) * 1000 ≤ sumCh nch (upd p.inc c ni) * 1000 + inv.amount + pol.maxFee
            rw [← sumCh_replace p.out c no hc, ← sumCh_replace p.inc c ni hc]
            omega
          | err => simp [hb] at hk
          | panic => simp [hb] at hk
      · simp [hsum] at hk

/-- an accepted hash with neither invoice nor payment entry carries no more outgoing than incoming value -/
theorem checkHash_ok_unseen {invoices : Hash → Option Invoice} {payments : Hash → Option Payment}
    {pol : Policy} {nch c ni no : Nat} {h : Hash}
    (hk : checkHash invoices payments pol nch c ni no h = .ok) (hi : invoices h = none) (hp : payments h = none) :
    no ≤ ni := by
  unfold checkHash at hk
  simp only [hp, hi, Option.map_none, Option.isSome_none, Bool.false_and, Bool.not_true,
      Bool.false_eq_true, if_false] at hk
  by_cases hov : ni * 1000 > U64.MAX ∨ no * 1000 > U64.MAX
  · simp [hov] at hk
  · simp only [hov, if_false] at hk
    cases hb : balance pol (ni * 1000) (no * 1000) none with
    | ok => have := balance_ok_none hb; omega
    | err => simp [hb] at hk
    | panic => simp [hb] at hk


/-! ### ghost ledger and the node-wide invariant -/

/-- outgoing value in flight for `h` on channel `c` according to the *current* commitments (max of the views) -/
def outL (n : Node) (c : Nat) (h : Hash) : Nat := outVal (n.chans c).hcur (n.chans c).ccur h
/-- incoming value in flight for `h` on channel `c` according to the current commitments (min of the views) -/
def inL (n : Node) (c : Nat) (h : Hash) : Nat := inVal (n.chans c).hcur (n.chans c).ccur h
def totalOut (n : Node) (h : Hash) : Nat := sumCh n.nch (fun c => outL n c h)
def totalIn (n : Node) (h : Hash) : Nat := sumCh n.nch (fun c => inL n c h)

/-- the conservation inequality of C06 for hash `h` (amounts in msat) -/
def Bal (n : Node) (h : Hash) : Prop :=
  ∀ inv, n.invoices h = some inv → totalOut n h * 1000 ≤ totalIn n h * 1000 + inv.amount + n.pol.maxFee

structure Inv (n : Node) : Prop where
  /-- the node never believes in more incoming value than the current commitments carry -/
  inSync : ∀ h c, c < n.nch → getIn (n.payments h) c ≤ inL n c h
  /-- for an approved hash the node knows about all outgoing value of the current commitments -/
  outSync : ∀ h, n.invoices h ≠ none → ∀ c, c < n.nch → outL n c h ≤ getOut (n.payments h) c
  bal : ∀ h, Bal n h
  disk : ∀ h, n.disk.invoices h = n.invoices h
  known : ∀ h, n.invoices h ≠ none → h ∈ n.known

theorem getIn_apply (payments : Hash → Option Payment) (c : Nat) (hEff cEff hCur cCur newInfo : Info) (h : Hash) (c' : Nat) :
    getIn (applyPayments payments c hEff cEff hCur cCur newInfo h) c' =
      if h ∈ keys hEff cEff hCur cCur then (if c' = c then inVal hEff cEff h else getIn (payments h) c')
      else getIn (payments h) c' := by
  unfold applyPayments
  by_cases hk : h ∈ keys hEff cEff hCur cCur
  · simp only [hk, if_true]
    cases payments h <;> simp [getIn, Payment.apply, upd, Payment.new]
  · simp only [hk, if_false]

theorem getOut_apply (payments : Hash → Option Payment) (c : Nat) (hEff cEff hCur cCur newInfo : Info) (h : Hash) (c' : Nat) :
    getOut (applyPayments payments c hEff cEff hCur cCur newInfo h) c' =
      if h ∈ keys hEff cEff hCur cCur then (if c' = c then outVal hEff cEff h else getOut (payments h) c')
      else getOut (payments h) c' := by
  unfold applyPayments
  by_cases hk : h ∈ keys hEff cEff hCur cCur
  · simp only [hk, if_true]
    cases payments h <;> simp [getOut, Payment.apply, upd, Payment.new]
  · simp only [hk, if_false]

/-- state after an accepted validate-and-apply on channel `c` -/
def commitNext (n : Node) (c : Nat) (hEff cEff newInfo : Info) (st' : ChanSt) : Node :=
  { n with payments := applyPayments n.payments c hEff cEff (n.chans c).hcur (n.chans c).ccur newInfo,
           chans := upd n.chans c st' }

/-- **Per-op preservation, commitment updates.**  An accepted validate-and-apply on channel `c`
    (counterparty signing: `hEff` = current holder tx, `cEff` = new counterparty tx; revocation:
    `hEff` = the validated next holder tx, `cEff` = current counterparty tx) keeps the invariant. -/
theorem commit_preserves {n : Node} (hI : Inv n) {c : Nat} (hc : c < n.nch) {hEff cEff newInfo : Info}
    {st' : ChanSt} (hv : validate n c hEff cEff = .ok) (h1 : st'.hcur = hEff) (h2 : st'.ccur = cEff) :
    Inv (commitNext n c hEff cEff newInfo st') := by
  have hchk := validate_ok hv
  -- ledger of the new state
  have hout : ∀ h c', outL (commitNext n c hEff cEff newInfo st') c' h = if c' = c then outVal hEff cEff h else outL n c' h := by
    intro h c'
    simp only [outL, commitNext, upd]
    split
    · rw [h1, h2]
    · rfl
  have hin : ∀ h c', inL (commitNext n c hEff cEff newInfo st') c' h = if c' = c then inVal hEff cEff h else inL n c' h := by
    intro h c'
    simp only [inL, commitNext, upd]
    split
    · rw [h1, h2]
    · rfl
  refine ⟨?_, ?_, ?_, hI.disk, hI.known⟩
  · intro h c' hc'
    rw [hin]
    show getIn (applyPayments n.payments c hEff cEff (n.chans c).hcur (n.chans c).ccur newInfo h) c' ≤ _
    rw [getIn_apply]
    by_cases hk : h ∈ keys hEff cEff (n.chans c).hcur (n.chans c).ccur
    · simp only [hk, if_true]
      split
      · exact Nat.le_refl _
      · exact hI.inSync h c' hc'
    · simp only [hk, if_false]
      split
      · rename_i e
        subst e
        have := hI.inSync h c' hc'
        have z := not_mem_keys hk
        simp only [inL] at this
        omega
      · exact hI.inSync h c' hc'
  · intro h hinv c' hc'
    rw [hout]
    show _ ≤ getOut (applyPayments n.payments c hEff cEff (n.chans c).hcur (n.chans c).ccur newInfo h) c'
    rw [getOut_apply]
    by_cases hk : h ∈ keys hEff cEff (n.chans c).hcur (n.chans c).ccur
    · simp only [hk, if_true]
      split
      · exact Nat.le_refl _
      · exact hI.outSync h hinv c' hc'
    · simp only [hk, if_false]
      split
      · rename_i e
        subst e
        have z := not_mem_keys hk
        omega
      · exact hI.outSync h hinv c' hc'
  · intro h inv hinv
    have hinv' : n.invoices h = some inv := hinv
    show sumCh n.nch (fun c' => outL (commitNext n c hEff cEff newInfo st') c' h) * 1000 ≤
      sumCh n.nch (fun c' => inL (commitNext n c hEff cEff newInfo st') c' h) * 1000 + inv.amount + n.pol.maxFee
    by_cases hk : h ∈ keys hEff cEff (n.chans c).hcur (n.chans c).ccur
    · have hb := checkHash_ok_invoiced hc (hchk h hk) hinv'
      have hne : n.invoices h ≠ none := by rw [hinv']; simp
      have e1 : sumCh n.nch (fun c' => outL (commitNext n c hEff cEff newInfo st') c' h) ≤ sumCh n.nch (upd (getOut (n.payments h)) c (outVal hEff cEff h)) := by
        apply sumCh_mono
        intro c' hc'
        rw [hout]
        simp only [upd]
        split
        · exact Nat.le_refl _
        · exact hI.outSync h hne c' hc'
      have e2 : sumCh n.nch (upd (getIn (n.payments h)) c (inVal hEff cEff h)) ≤
          sumCh n.nch (fun c' => inL (commitNext n c hEff cEff newInfo st') c' h) := by
        apply sumCh_mono
        intro c' hc'
        rw [hin]
        simp only [upd]
        split
        · exact Nat.le_refl _
        · exact hI.inSync h c' hc'
      have m1 := Nat.mul_le_mul_right 1000 e1
      have m2 := Nat.mul_le_mul_right 1000 e2
      exact Nat.le_trans m1 (Nat.le_trans hb (Nat.add_le_add_right (Nat.add_le_add_right m2 _) _))
    · have z := not_mem_keys hk
      have e1 : sumCh n.nch (fun c' => outL (commitNext n c hEff cEff newInfo st') c' h) = sumCh n.nch (fun c' => outL n c' h) := by
        apply sumCh_congr
        intro c' _
        rw [hout]
        split
        · rename_i e; subst e; simp only [outL]; omega
        · rfl
      have e2 : sumCh n.nch (fun c' => inL (commitNext n c hEff cEff newInfo st') c' h) = sumCh n.nch (fun c' => inL n c' h) := by
        apply sumCh_congr
        intro c' _
        rw [hin]
        split
        · rename_i e; subst e; simp only [inL]; omega
        · rfl
      have := hI.bal h inv hinv'
      simp only [totalOut, totalIn] at this
      rw [e1, e2]
      exact this


/-- The invariant only looks at: channel count, policy, invoices, the per-channel amounts of the payment
    entries, the *current* commitments, the persisted invoices and the support list. -/
theorem Inv.transfer {n n' : Node} (hI : Inv n) (e1 : n'.nch = n.nch) (e2 : n'.pol = n.pol)
    (e3 : n'.invoices = n.invoices)
    (e4 : ∀ h c, getIn (n'.payments h) c = getIn (n.payments h) c ∧ getOut (n'.payments h) c = getOut (n.payments h) c)
    (e5 : ∀ c, (n'.chans c).hcur = (n.chans c).hcur ∧ (n'.chans c).ccur = (n.chans c).ccur)
    (e6 : n'.disk.invoices = n.disk.invoices) (e7 : ∀ h, h ∈ n.known → h ∈ n'.known) : Inv n' := by
  have hout : ∀ c h, outL n' c h = outL n c h := by
    intro c h; simp only [outL, (e5 c).1, (e5 c).2]
  have hin : ∀ c h, inL n' c h = inL n c h := by
    intro c h; simp only [inL, (e5 c).1, (e5 c).2]
  refine ⟨?_, ?_, ?_, ?_, ?_⟩
  · intro h c hc
    rw [hin, (e4 h c).1]
    exact hI.inSync h c (e1 ▸ hc)
  · intro h hne c hc
    rw [hout, (e4 h c).2]
    exact hI.outSync h (e3 ▸ hne) c (e1 ▸ hc)
  · intro h inv hinv
    have := hI.bal h inv (e3 ▸ hinv)
    simp only [totalOut, totalIn] at *
    rw [e1, e2]
    simp only [hout, hin]
    exact this
  · intro h; rw [e6, e3]; exact hI.disk h
  · intro h hne; exact e7 h (hI.known h (e3 ▸ hne))

theorem cpSign_preserves {n n' : Node} {c : Nat} {r : Bool} {info : Info} (hI : Inv n)
    (h : n.cpSign c r info = (n', .ok)) : Inv n' := by
  unfold Node.cpSign at h
  dsimp only at h
  by_cases hc : c ≥ n.nch
  · simp [hc] at h
  · by_cases hr : (r && info != (n.chans c).ccur) = true
    · simp [hc, hr] at h
    · by_cases hn : (!r && (n.chans c).cpNum != (n.chans c).cpRev + 1) = true
      · simp [hc, hr, hn] at h
      · simp only [hc, hr, hn, if_false] at h
        cases hv : validate n c (n.chans c).hcur info with
        | ok =>
          simp only [hv] at h
          rw [if_neg (by simp), if_neg (by simp)] at h
          by_cases hq : (r && !((n.chans c).cpNum == 1 || decide ((n.chans c).cpNum ≥ (n.chans c).cpRev + 2))) = true
          · rw [if_pos hq] at h; simp at h
          · rw [if_neg hq] at h
            cases h
            exact commit_preserves hI (Nat.lt_of_not_ge hc) hv rfl rfl
        | err => simp [hv] at h
        | panic => simp [hv] at h

theorem revoke_preserves {n n' : Node} {c : Nat} (hI : Inv n) (h : n.revoke c = (n', .ok)) : Inv n' := by
  unfold Node.revoke at h
  dsimp only at h
  by_cases hc : c ≥ n.nch
  · simp [hc] at h
  · simp only [hc, if_false] at h
    cases hnx : (n.chans c).hnext with
    | none => simp [hnx] at h
    | some info =>
      simp only [hnx] at h
      cases hv : validate n c info (n.chans c).ccur with
      | ok =>
        simp only [hv] at h
        cases h
        exact commit_preserves hI (Nat.lt_of_not_ge hc) hv rfl rfl
      | err => simp [hv] at h
      | panic => simp [hv] at h

theorem setChan_hnext_transfer {n : Node} (hI : Inv n) (c : Nat) (st' : ChanSt)
    (e1 : st'.hcur = (n.chans c).hcur) (e2 : st'.ccur = (n.chans c).ccur) : Inv (n.setChan c st') := by
  refine hI.transfer rfl rfl rfl (fun _ _ => ⟨rfl, rfl⟩) ?_ rfl (fun _ hk => hk)
  intro c'
  simp only [Node.setChan, upd]
  split
  · rename_i e; subst e; exact ⟨e1, e2⟩
  · exact ⟨rfl, rfl⟩

theorem hValidate_preserves {n n' : Node} {c : Nat} {r : Bool} {info : Info} (hI : Inv n)
    (h : n.hValidate c r info = (n', .ok)) : Inv n' := by
  unfold Node.hValidate at h
  dsimp only at h
  by_cases hc : c ≥ n.nch
  · simp [hc] at h
  · by_cases hr : (r && info != (n.chans c).hcur) = true
    · simp [hc, hr] at h
    · simp only [hc, hr, if_false] at h
      cases hv : validate n c info (n.chans c).ccur with
      | ok =>
        simp only [hv] at h
        cases h
        split
        · exact hI
        · exact setChan_hnext_transfer hI c _ rfl rfl
      | err => simp [hv] at h
      | panic => simp [hv] at h

theorem cpRevoke_preserves {n n' : Node} {c : Nat} (hI : Inv n) (h : n.cpRevoke c = (n', .ok)) : Inv n' := by
  unfold Node.cpRevoke at h
  dsimp only at h
  by_cases hc : c ≥ n.nch
  · simp [hc] at h
  · simp only [hc, if_false] at h
    split at h
    · cases h
      exact setChan_hnext_transfer hI c _ rfl rfl
    · simp at h


/-! ### approvals, preimages, pruning, restart -/

/-- hypothesis of `C06_partial`: a hash is newly approved only while nothing is outgoing in flight for it -/
def FreshApproval (n : Node) : Op → Prop
  | .approve h _ _ => n.invoices h = none → ∀ c, c < n.nch → outL n c h = 0
  | _ => True

theorem sumCh_eq_zero {n : Nat} {f : Nat → Nat} (h : ∀ c, c < n → f c = 0) : sumCh n f = 0 := by
  rw [sumCh_congr (g := fun _ => 0) h, sumCh_zero]

theorem approve_preserves {n n' : Node} {h : Hash} {inv : Invoice} {r : ARes} (hI : Inv n)
    (hf : n.invoices h = none → ∀ c, c < n.nch → outL n c h = 0)
    {now : Nat} (ha : n.approve h inv now = (n', r)) : Inv n' := by
  unfold Node.approve at ha
  cases hinv : n.invoices h with
  | some old => simp only [hinv] at ha; cases ha; exact hI
  | none =>
    simp only [hinv] at ha
    cases hvi : n.vc.mem.insert now inv.amount with
    | none => simp only [hvi] at ha; cases ha; exact hI
    | some res =>
    obtain ⟨v, okv⟩ := res
    cases okv with
    | false =>
      simp only [hvi] at ha; cases ha
      exact hI.transfer rfl rfl rfl (fun _ _ => ⟨rfl, rfl⟩) (fun _ => ⟨rfl, rfl⟩) rfl (fun _ hk => hk)
    | true =>
    simp only [hvi] at ha
    cases ha
    have hz := hf hinv
    have hg : ∀ h' c, getIn (upd n.payments h (some ((n.payments h).getD Payment.new)) h') c = getIn (n.payments h') c ∧
        getOut (upd n.payments h (some ((n.payments h).getD Payment.new)) h') c = getOut (n.payments h') c := by
      intro h' c
      simp only [upd]
      split
      · rename_i e; subst e
        cases n.payments h' <;> simp [getIn, getOut, Payment.new]
      · exact ⟨rfl, rfl⟩
    refine ⟨?_, ?_, ?_, ?_, ?_⟩
    · intro h' c hc
      show getIn (upd n.payments h _ h') c ≤ inL n c h'
      rw [(hg h' c).1]; exact hI.inSync h' c hc
    · intro h' hne c hc
      show outL n c h' ≤ getOut (upd n.payments h _ h') c
      rw [(hg h' c).2]
      by_cases e : h' = h
      · subst e; rw [hz c hc]; exact Nat.zero_le _
      · refine hI.outSync h' ?_ c hc
        have : upd n.invoices h (some inv) h' = n.invoices h' := by simp [upd, e]
        intro hn; exact hne (by show upd n.invoices h (some inv) h' = none; rw [this]; exact hn)
    · intro h' inv' hinv'
      have hinv'' : upd n.invoices h (some inv) h' = some inv' := hinv'
      show sumCh n.nch (fun c => outL n c h') * 1000 ≤ sumCh n.nch (fun c => inL n c h') * 1000 + inv'.amount + n.pol.maxFee
      by_cases e : h' = h
      · subst e
        rw [sumCh_eq_zero (f := fun c => outL n c h') hz]
        omega
      · simp only [upd, e, if_false] at hinv''
        exact hI.bal h' inv' hinv''
    · intro h'; rfl
    · intro h' hne
      have hne' : upd n.invoices h (some inv) h' ≠ none := hne
      show h' ∈ h :: n.known
      by_cases e : h' = h
      · subst e; exact List.mem_cons_self
      · simp only [upd, e, if_false] at hne'
        exact List.mem_cons_of_mem _ (hI.known h' hne')

theorem fulfill_preserves {n : Node} {h : Hash} (hI : Inv n) : Inv (n.fulfill h).1 := by
  unfold Node.fulfill
  cases hp : n.payments h with
  | none => exact hI
  | some p =>
    simp only
    split
    · exact hI
    · refine hI.transfer rfl rfl rfl ?_ (fun _ => ⟨rfl, rfl⟩) rfl (fun _ hk => hk)
      intro h' c
      simp only [upd]
      split
      · rename_i e; subst e; rw [hp]; exact ⟨rfl, rfl⟩
      · exact ⟨rfl, rfl⟩

theorem getIn_none (c : Nat) : getIn none c = 0 := rfl
theorem getOut_none (c : Nat) : getOut none c = 0 := rfl

/-- pruning: invoices and payment entries only disappear, and never the entry of a hash that keeps its invoice -/
theorem prune_preserves {n : Node} (hI : Inv n) (inv1 : Hash → Option Invoice) (pay2 : Hash → Option Payment)
    (d : Disk) (hinv : ∀ h, inv1 h = none ∨ inv1 h = n.invoices h)
    (hpay : ∀ h, pay2 h = none ∨ pay2 h = n.payments h)
    (hkeep : ∀ h, inv1 h ≠ none → pay2 h = n.payments h) (hd : ∀ h, d.invoices h = inv1 h)
    (v : Velocity.NodeVC) (iss diss : Hash → Option Invoice) :
    Inv { n with invoices := inv1, payments := pay2, disk := d, vc := v, issued := iss, diskIssued := diss } := by
  refine ⟨?_, ?_, ?_, hd, ?_⟩
  · intro h c hc
    show getIn (pay2 h) c ≤ inL n c h
    rcases hpay h with e | e
    · rw [e, getIn_none]; exact Nat.zero_le _
    · rw [e]; exact hI.inSync h c hc
  · intro h hne c hc
    have hne' : inv1 h ≠ none := hne
    show outL n c h ≤ getOut (pay2 h) c
    rw [hkeep h hne']
    refine hI.outSync h ?_ c hc
    rcases hinv h with e | e
    · exact absurd e hne'
    · rw [← e]; exact hne'
  · intro h inv hi
    have hi' : inv1 h = some inv := hi
    rcases hinv h with e | e
    · rw [e] at hi'; cases hi'
    · exact hI.bal h inv (e ▸ hi')
  · intro h hne
    have hne' : inv1 h ≠ none := hne
    refine hI.known h ?_
    rcases hinv h with e | e
    · exact absurd e hne'
    · rw [← e]; exact hne'

theorem heartbeat_preserves {n n' : Node} {now : Nat} (hI : Inv n) (hh : n.heartbeat now = some n') : Inv n' := by
  unfold Node.heartbeat at hh
  split at hh
  · cases hh
  · injection hh with hh
    subst hh
    have hinv : ∀ h, n.inv1 now h = none ∨ n.inv1 now h = n.invoices h := by
      intro h; simp only [Node.inv1]; split
      · exact Or.inl rfl
      · exact Or.inr rfl
    have hpay : ∀ h, n.pay2 now h = none ∨ n.pay2 now h = n.payments h := by
      intro h; simp only [Node.pay2, Node.pay1]
      split
      · exact Or.inl rfl
      · split
        · exact Or.inl rfl
        · exact Or.inr rfl
    have hkeep : ∀ h, n.inv1 now h ≠ none → n.pay2 now h = n.payments h := by
      intro h hne
      have hprh : n.pr now h = false := by
        cases e : n.pr now h with
        | false => rfl
        | true => simp [Node.inv1, e] at hne
      have hfw : n.fw now h = false := by
        simp only [Node.fw]
        cases hp1 : n.pay1 now h with
        | none => rfl
        | some p =>
          simp only
          have : (n.inv1 now h).isNone = false := by
            cases hi : n.inv1 now h with
            | none => exact absurd hi hne
            | some _ => rfl
          simp [this]
      simp [Node.pay2, Node.pay1, hfw, hprh]
    split
    · exact prune_preserves hI _ _ _ hinv hpay hkeep (fun _ => rfl) _ _ _
    · rename_i hany
      refine prune_preserves hI _ _ _ hinv hpay hkeep ?_ n.vc (n.iss1 now) n.diskIssued
      intro h
      rw [hI.disk h]
      have hprh : n.pr now h = false := by
        cases e : n.pr now h with
        | false => rfl
        | true =>
          exfalso
          by_cases hk : h ∈ n.known
          · apply hany
            rw [List.any_eq_true]
            exact ⟨h, hk, by simp [e]⟩
          · have : n.invoices h = none := by
              by_cases hn : n.invoices h = none
              · exact hn
              · exact absurd (hI.known h hn) hk
            simp [Node.pr, this] at e
      simp [Node.inv1, hprh]


/-! ### restart -/

theorem getIn_restoreChan (chans : Nat → ChanSt) (P : Hash → Option Payment) (k : Nat) (h : Hash) (c : Nat) :
    getIn (restoreChan chans P k h) c =
      if h ∈ keys (chans k).hcur (chans k).ccur (chans k).hcur (chans k).ccur then
        (if c = k then inVal (chans k).hcur (chans k).ccur h else getIn (P h) c)
      else getIn (P h) c := by
  unfold restoreChan
  split
  · cases P h <;> simp [getIn, Payment.apply, upd, Payment.new]
  · rfl

theorem getOut_restoreChan (chans : Nat → ChanSt) (P : Hash → Option Payment) (k : Nat) (h : Hash) (c : Nat) :
    getOut (restoreChan chans P k h) c =
      if h ∈ keys (chans k).hcur (chans k).ccur (chans k).hcur (chans k).ccur then
        (if c = k then outVal (chans k).hcur (chans k).ccur h else getOut (P h) c)
      else getOut (P h) c := by
  unfold restoreChan
  split
  · cases P h <;> simp [getOut, Payment.apply, upd, Payment.new]
  · rfl

/-- after `restore_payments` on the channels `0 … k-1` the rebuilt entries carry exactly the ledger values -/
theorem restoreAll_spec (chans : Nat → ChanSt) (base : Hash → Option Payment)
    (hb : ∀ h c, getIn (base h) c = 0 ∧ getOut (base h) c = 0) (k : Nat) (h : Hash) (c : Nat) :
    getIn (restoreAll chans k base h) c = (if c < k then inVal (chans c).hcur (chans c).ccur h else 0) ∧
    getOut (restoreAll chans k base h) c = (if c < k then outVal (chans c).hcur (chans c).ccur h else 0) := by
  induction k with
  | zero => simp only [restoreAll, Nat.not_lt_zero, if_false]; exact hb h c
  | succ k ih =>
    simp only [restoreAll]
    rw [getIn_restoreChan, getOut_restoreChan]
    by_cases hk : h ∈ keys (chans k).hcur (chans k).ccur (chans k).hcur (chans k).ccur
    · simp only [hk, if_true]
      by_cases e : c = k
      · subst e; simp
      · simp only [e, if_false]
        rw [ih.1, ih.2]
        have : (c < k + 1) = (c < k) := by
          apply propext; constructor <;> intro <;> omega
        simp only [this]
        trivial
    · simp only [hk, if_false]
      rw [ih.1, ih.2]
      have z := not_mem_keys hk
      by_cases e : c = k
      · subst e
        simp only [Nat.lt_irrefl, if_false, Nat.lt_succ_self, if_true]
        omega
      · have : (c < k + 1) = (c < k) := by
          apply propext; constructor <;> intro <;> omega
        simp only [this]
        trivial

theorem restoreAll_none (chans : Nat → ChanSt) (base : Hash → Option Payment) (h : Hash) (hb : base h = none)
    (k : Nat) (hk : ∀ c, c < k → h ∉ keys (chans c).hcur (chans c).ccur (chans c).hcur (chans c).ccur) :
    restoreAll chans k base h = none := by
  induction k with
  | zero => exact hb
  | succ k ih =>
    simp only [restoreAll, restoreChan]
    have := hk k (Nat.lt_succ_self k)
    simp only [this, if_false]
    exact ih (fun c hc => hk c (Nat.lt_succ_of_lt hc))

theorem restart_sync (n : Node) (h : Hash) (c : Nat) (hc : c < n.nch) :
    getIn (n.restart.payments h) c = inL n c h ∧ getOut (n.restart.payments h) c = outL n c h := by
  have := restoreAll_spec n.chans
    (fun h => if (n.disk.invoices h).isSome then some Payment.new
              else if n.disk.pre h then some { Payment.new with pre := true } else none)
    (by intro h c; dsimp only; split
        · exact ⟨rfl, rfl⟩
        · split <;> exact ⟨rfl, rfl⟩) n.nch h c
  simp only [hc, if_true] at this
  exact this

theorem restart_preserves {n : Node} (hI : Inv n) : Inv n.restart := by
  refine ⟨?_, ?_, ?_, ?_, ?_⟩
  · intro h c hc
    have := (restart_sync n h c hc).1
    show getIn (n.restart.payments h) c ≤ inL n c h
    omega
  · intro h _ c hc
    have := (restart_sync n h c hc).2
    show outL n c h ≤ getOut (n.restart.payments h) c
    omega
  · intro h inv hi
    have hi' : n.disk.invoices h = some inv := hi
    rw [hI.disk h] at hi'
    exact hI.bal h inv hi'
  · intro h; rfl
  · intro h hne
    have hne' : n.disk.invoices h ≠ none := hne
    rw [hI.disk h] at hne'
    exact hI.known h hne'

/-! ### one request, request lists -/

theorem init_inv (nch : Nat) (pol : Policy) : Inv (Node.init nch pol) := by
  refine ⟨?_, ?_, ?_, ?_, ?_⟩
  · intro h c _; exact Nat.zero_le _
  · intro h hne; exact absurd rfl hne
  · intro h inv hi; cases hi
  · intro h; rfl
  · intro h hne; exact absurd rfl hne

theorem issue_preserves {n : Node} (hI : Inv n) (h : Hash) (inv : Invoice) : Inv (n.issue h inv).1 := by
  unfold Node.issue
  split
  · exact hI
  · cases n.issued h with
    | some old => exact hI
    | none =>
      simp only
      split
      · exact hI.transfer rfl rfl rfl (fun _ _ => ⟨rfl, rfl⟩) (fun _ => ⟨rfl, rfl⟩) rfl (fun _ hk => hk)
      · exact hI

theorem step_preserves {n n' : Node} {op : Op} {acc : Bool} (hI : Inv n) (hf : FreshApproval n op)
    (hs : n.step op = some (n', acc)) : Inv n' := by
  unfold Node.step at hs
  have hI0 : Inv { n with known := op.mentioned ++ n.known } :=
    hI.transfer rfl rfl rfl (fun _ _ => ⟨rfl, rfl⟩) (fun _ => ⟨rfl, rfl⟩) rfl
      (fun _ hk => List.mem_append_right _ hk)
  generalize hn0 : ({ n with known := op.mentioned ++ n.known } : Node) = n0 at hs hI0
  cases op with
  | cpSign c r i =>
    simp only [Node.exec] at hs
    cases hd : untrimmed n0.dust i.inc i.out with
    | false => simp only [hd, Bool.not_false, ↓reduceIte] at hs; cases hs; exact hI0
    | true =>
    simp only [hd, Bool.not_true, Bool.false_eq_true, ↓reduceIte] at hs
    cases hr : n0.cpSign c r i with
    | mk n1 v =>
      cases v with
      | ok => simp only [hr] at hs; cases hs; exact cpSign_preserves hI0 hr
      | err => simp only [hr] at hs; cases hs; exact hI0
      | panic => simp [hr] at hs
  | hValidate c r i =>
    simp only [Node.exec] at hs
    cases hd : untrimmed n0.dust i.out i.inc with
    | false => simp only [hd, Bool.not_false, ↓reduceIte] at hs; cases hs; exact hI0
    | true =>
    simp only [hd, Bool.not_true, Bool.false_eq_true, ↓reduceIte] at hs
    cases hr : n0.hValidate c r i with
    | mk n1 v =>
      cases v with
      | ok => simp only [hr] at hs; cases hs; exact hValidate_preserves hI0 hr
      | err => simp only [hr] at hs; cases hs; exact hI0
      | panic => simp [hr] at hs
  | revoke c =>
    simp only [Node.exec] at hs
    cases hr : n0.revoke c with
    | mk n1 v =>
      cases v with
      | ok => simp only [hr] at hs; cases hs; exact revoke_preserves hI0 hr
      | err => simp only [hr] at hs; cases hs; exact hI0
      | panic => simp [hr] at hs
  | cpRevoke c =>
    simp only [Node.exec] at hs
    cases hr : n0.cpRevoke c with
    | mk n1 v =>
      cases v with
      | ok => simp only [hr] at hs; cases hs; exact cpRevoke_preserves hI0 hr
      | err => simp only [hr] at hs; cases hs; exact hI0
      | panic => simp only [hr] at hs; cases hs; exact hI0
  | approve h inv now =>
    simp only [Node.exec] at hs
    cases hfull : (n0.full && (n0.invoices h).isNone) with
    | true => simp only [hfull, ↓reduceIte] at hs; cases hs; exact hI0
    | false =>
    simp only [hfull, Bool.false_eq_true, ↓reduceIte] at hs
    have hf0 : n0.invoices h = none → ∀ c, c < n0.nch → outL n0 c h = 0 := by
      subst hn0; exact hf
    cases hr : n0.approve h inv now with
    | mk n1 v =>
      have := approve_preserves hI0 hf0 hr
      cases v with
      | added => simp only [hr] at hs; cases hs; exact this
      | same => simp only [hr] at hs; cases hs; exact hI0
      | different => simp only [hr] at hs; cases hs; exact hI0
      | declined => simp only [hr] at hs; cases hs; exact this
      | panic => simp [hr] at hs
  | decline h inv =>
    simp only [Node.exec] at hs
    cases hs
    exact hI0
  | issue h inv =>
    simp only [Node.exec] at hs
    cases hr : n0.issue h inv with
    | mk n1 b =>
      simp only [hr, Option.some.injEq, Prod.mk.injEq] at hs
      obtain ⟨e1, _⟩ := hs
      subst e1
      have := issue_preserves hI0 h inv
      rw [hr] at this
      exact this
  | fulfill h =>
    simp only [Node.exec] at hs
    cases hs
    exact fulfill_preserves hI0
  | heartbeat now =>
    simp only [Node.exec] at hs
    cases hh : n0.heartbeat now with
    | none => simp [hh] at hs
    | some n1 =>
      simp only [hh, Option.map_some] at hs
      cases hs
      exact heartbeat_preserves hI0 hh
  | restart =>
    simp only [Node.exec] at hs
    cases hs
    exact restart_preserves hI0


/-! ### request lists (used by Props/C06) -/

/-- run a request list; `none` = the implementation panicked on the way -/
def run : Node → List Op → Option Node
  | n, [] => some n
  | n, op :: ops => match n.step op with
    | none => none
    | some (n', _) => run n' ops

/-- every *new* approval along the run happens while nothing is outgoing in flight for that hash -/
def FreshRun : Node → List Op → Prop
  | _, [] => True
  | n, op :: ops => FreshApproval n op ∧ match n.step op with
    | none => True
    | some (n', _) => FreshRun n' ops

/-- the conservation inequality, in msat, on the ghost ledger of the current commitments -/
def Conserved (n : Node) : Prop :=
  ∀ h inv, n.invoices h = some inv →
    totalOut n h * 1000 ≤ totalIn n h * 1000 + inv.amount + n.pol.maxFee

theorem inv_run (ops : List Op) : ∀ (n n' : Node), Inv n → FreshRun n ops → run n ops = some n' → Inv n' := by
  induction ops with
  | nil => intro n n' hI _ hr; simp only [run] at hr; cases hr; exact hI
  | cons op ops ih =>
    intro n n' hI hf hr
    simp only [run] at hr
    simp only [FreshRun] at hf
    cases hs : n.step op with
    | none => simp [hs] at hr
    | some r =>
      obtain ⟨n1, acc⟩ := r
      simp only [hs] at hr hf
      exact ih n1 n' (step_preserves hI hf.1 hs) hf.2 hr

def overpaid (n : Node) (h : Hash) : Bool :=
  match n.invoices h with
  | some inv => decide (totalOut n h * 1000 > totalIn n h * 1000 + inv.amount + n.pol.maxFee)
  | none => false

theorem not_conserved_of_overpaid {n : Node} {h : Hash} (ho : overpaid n h = true) : ¬ Conserved n := by
  intro hc
  unfold overpaid at ho
  cases hi : n.invoices h with
  | none => simp [hi] at ho
  | some inv =>
    simp only [hi, decide_eq_true_eq] at ho
    have := hc h inv hi
    omega

theorem validate_of_cpSign {n n' : Node} {c : Nat} {r : Bool} {info : Info}
    (h : n.cpSign c r info = (n', .ok)) : validate n c (n.chans c).hcur info = .ok := by
  unfold Node.cpSign at h
  dsimp only at h
  cases hv : validate n c (n.chans c).hcur info with
  | ok => rfl
  | err => exfalso; simp only [hv] at h; repeat (first | (split at h) | (simp at h))
  | panic => exfalso; simp only [hv] at h; repeat (first | (split at h) | (simp at h))

theorem validate_of_hValidate {n n' : Node} {c : Nat} {r : Bool} {info : Info}
    (h : n.hValidate c r info = (n', .ok)) : validate n c info (n.chans c).ccur = .ok := by
  unfold Node.hValidate at h
  dsimp only at h
  cases hv : validate n c info (n.chans c).ccur with
  | ok => rfl
  | err => exfalso; simp only [hv] at h; repeat (first | (split at h) | (simp at h))
  | panic => exfalso; simp only [hv] at h; repeat (first | (split at h) | (simp at h))


end VlsModel.Payments
