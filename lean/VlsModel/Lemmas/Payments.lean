import VlsModel.Model.Payments
/-
Helper lemmas for C06 (payments ledger): sums over channels, key sets, the validation outcome, and the
node-wide invariant `Inv` with its preservation by every request.
-/
namespace VlsModel.Payments
open VlsModel

/-! ### sums over channels -/

theorem sumCh_mono {n : Nat} {f g : Nat → Nat} (h : ∀ c, c < n → f c ≤ g c) : sumCh n f ≤ sumCh n g := by
  induction n with
  | zero => simp [sumCh]
  | succ k ih =>
    simp only [sumCh]
    have := ih (fun c hc => h c (by omega))
    have := h k (by omega)
    omega

theorem sumCh_congr {n : Nat} {f g : Nat → Nat} (h : ∀ c, c < n → f c = g c) : sumCh n f = sumCh n g :=
  Nat.le_antisymm (sumCh_mono (fun c hc => Nat.le_of_eq (h c hc)))
    (sumCh_mono (fun c hc => Nat.le_of_eq (h c hc).symm))

theorem sumCh_upd_ge {n : Nat} (f : Nat → Nat) (c : Nat) (v : Nat) (hc : n ≤ c) :
    sumCh n (upd f c v) = sumCh n f :=
  sumCh_congr (fun c' hc' => by simp only [upd]; split <;> omega)

theorem sumCh_upd {n : Nat} (f : Nat → Nat) (c : Nat) (v : Nat) (hc : c < n) :
    sumCh n (upd f c v) + f c = sumCh n f + v := by
  induction n with
  | zero => omega
  | succ k ih =>
    simp only [sumCh]
    by_cases hk : c = k
    · subst hk
      have := sumCh_upd_ge (n := c) f c v (Nat.le_refl _)
      simp only [upd, if_true] at *
      omega
    · have := ih (by omega)
      have : upd f c v k = f k := by simp only [upd]; split <;> omega
      omega

theorem sumCh_ge {n : Nat} (f : Nat → Nat) (c : Nat) (hc : c < n) : f c ≤ sumCh n f := by
  induction n with
  | zero => omega
  | succ k ih =>
    simp only [sumCh]
    by_cases hk : c = k
    · subst hk; omega
    · have := ih (by omega); omega

/-- `sum + new - old` of `updated_incoming_outgoing` is the sum with the channel's entry replaced -/
theorem sumCh_replace {n : Nat} (f : Nat → Nat) (c : Nat) (v : Nat) (hc : c < n) :
    sumCh n f + v - f c = sumCh n (upd f c v) := by
  have := sumCh_upd f c v hc
  have := sumCh_ge f c hc
  omega

/-! ### per-hash sums and key sets -/

theorem sumFor_of_not_mem {l : List Htlc} {h : Hash} (hn : h ∉ hashes l) : sumFor l h = 0 := by
  induction l with
  | nil => rfl
  | cons x xs ih =>
    simp only [hashes, List.map_cons, List.mem_cons, not_or] at hn
    simp only [sumFor]
    have : ¬ x.hash = h := fun e => hn.1 e.symm
    simp only [this, if_false, Nat.zero_add]
    exact ih (by simpa [hashes] using hn.2)

theorem not_mem_keys {hEff cEff hCur cCur : Info} {h : Hash} (hn : h ∉ keys hEff cEff hCur cCur) :
    inVal hEff cEff h = 0 ∧ outVal hEff cEff h = 0 ∧ inVal hCur cCur h = 0 ∧ outVal hCur cCur h = 0 := by
  simp only [keys, List.mem_append, List.mem_filter, not_or, not_and, decide_eq_true_eq] at hn
  obtain ⟨⟨⟨⟨⟨⟨h1, h2⟩, h3⟩, h4⟩, h5⟩, h6⟩, h7⟩ := hn
  have e2 := sumFor_of_not_mem h2
  have e4 := sumFor_of_not_mem h4
  have e5 := sumFor_of_not_mem h5
  have e6 := sumFor_of_not_mem h6
  have e7 := sumFor_of_not_mem h7
  refine ⟨?_, ?_, ?_, ?_⟩
  · simp only [inVal]
    by_cases hm : h ∈ hashes hEff.inc
    · rw [sumFor_of_not_mem (h1 hm)]; omega
    · rw [sumFor_of_not_mem hm]; omega
  · simp only [outVal, e4, e5]; omega
  · simp only [inVal, e2]; omega
  · simp only [outVal, e6, e7]; omega


/-! ### validation outcome -/

theorem balance_ok_some {pol : Policy} {i o a : Nat} (h : balance pol i o (some a) = .ok) :
    o ≤ i + a + pol.maxFee := by
  unfold balance at h
  simp only at h
  split at h
  · cases h
  · split at h
    · cases h
    · split at h
      · cases h
      · omega

theorem balance_ok_none {pol : Policy} {i o : Nat} (h : balance pol i o none = .ok) : o ≤ i := by
  unfold balance at h
  simp only at h
  split at h
  · cases h
  · omega

def getIn (p : Option Payment) (c : Nat) : Nat := match p with | some p => p.inc c | none => 0
def getOut (p : Option Payment) (c : Nat) : Nat := match p with | some p => p.out c | none => 0

theorem validate_ok {n : Node} {c : Nat} {hEff cEff : Info} (hv : validate n c hEff cEff = .ok) :
    ∀ h, h ∈ keys hEff cEff (n.chans c).hcur (n.chans c).ccur →
      checkHash n.invoices n.payments n.pol n.nch c (inVal hEff cEff h) (outVal hEff cEff h) h = .ok := by
  unfold validate at hv
  simp only at hv
  split at hv
  · cases hv
  · split at hv
    · cases hv
    · split at hv
      · rename_i hall
        intro h hm
        have := List.all_eq_true.mp hall h hm
        simpa using this
      · cases hv

theorem sumCh_zero (n : Nat) : sumCh n (fun _ => 0) = 0 := by
  induction n with
  | zero => rfl
  | succ k ih => simp [sumCh, ih]

theorem sumCh_upd_zero {n : Nat} (c v : Nat) (hc : c < n) : sumCh n (upd (fun _ => 0) c v) = v := by
  have := sumCh_upd (n := n) (fun _ => 0) c v hc
  rw [sumCh_zero] at this
  omega

/-- an accepted hash that has an invoice balances, with the channel's entry replaced by the new values -/
theorem checkHash_ok_invoiced {invoices : Hash → Option Invoice} {payments : Hash → Option Payment}
    {pol : Policy} {nch c ni no : Nat} {h : Hash} {inv : Invoice} (hc : c < nch)
    (hk : checkHash invoices payments pol nch c ni no h = .ok) (hi : invoices h = some inv) :
    sumCh nch (upd (getOut (payments h)) c no) * 1000
      ≤ sumCh nch (upd (getIn (payments h)) c ni) * 1000 + inv.amount + pol.maxFee := by
  unfold checkHash at hk
  cases hp : payments h with
  | none =>
    simp only [hp, hi, Option.map_some, Option.isSome_none, Bool.false_and, Bool.not_true,
      Bool.false_eq_true, if_false] at hk
    by_cases hov : ni * 1000 > U64.MAX ∨ no * 1000 > U64.MAX
    · simp [hov] at hk
    · simp only [hov, if_false] at hk
      cases hb : balance pol (ni * 1000) (no * 1000) (some inv.amount) with
      | ok =>
        have := balance_ok_some hb
        have e1 : sumCh nch (upd (getOut none) c no) = no := sumCh_upd_zero c no hc
        have e2 : sumCh nch (upd (getIn none) c ni) = ni := sumCh_upd_zero c ni hc
        rw [e1, e2]; omega
      | err => simp [hb] at hk
      | panic => simp [hb] at hk
  | some p =>
    simp only [hp, hi, Option.map_some, Option.isNone_some, Bool.and_false] at hk
    cases hcl : cltvGate pol p with
    | false => simp [hcl] at hk
    | true =>
      simp only [hcl, Bool.not_true, Bool.false_eq_true, if_false] at hk
      unfold Payment.updated at hk
      by_cases hsum : sumCh nch p.inc + ni ≤ U64.MAX ∧ sumCh nch p.out + no ≤ U64.MAX
      · simp only [hsum, and_self, if_true] at hk
        by_cases hov : (sumCh nch p.inc + ni - p.inc c) * 1000 > U64.MAX ∨ (sumCh nch p.out + no - p.out c) * 1000 > U64.MAX
        · simp [hov] at hk
        · simp only [hov, if_false] at hk
          cases hb : balance pol ((sumCh nch p.inc + ni - p.inc c) * 1000) ((sumCh nch p.out + no - p.out c) * 1000) (some inv.amount) with
          | ok =>
            have := balance_ok_some hb
            show sumCh nch (upd p.out c no) * 1000 ≤ sumCh nch (upd p.inc c ni) * 1000 + inv.amount + pol.maxFee
            rw [← sumCh_replace p.out c no hc, ← sumCh_replace p.inc c ni hc]
            omega
          | err => simp [hb] at hk
          | panic => simp [hb] at hk
      · simp [hsum] at hk

/-- an accepted hash with neither invoice nor payment entry carries no more outgoing than incoming value -/
theorem checkHash_ok_unseen {invoices : Hash → Option Invoice} {payments : Hash → Option Payment}
    {pol : Policy} {nch c ni no : Nat} {h : Hash}
    (hk : checkHash invoices payments pol nch c ni no h = .ok) (hi : invoices h = none) (hp : payments h = none) :
    no ≤ ni := by
  unfold checkHash at hk
  simp only [hp, hi, Option.map_none, Option.isSome_none, Bool.false_and, Bool.not_true,
      Bool.false_eq_true, if_false] at hk
  by_cases hov : ni * 1000 > U64.MAX ∨ no * 1000 > U64.MAX
  · simp [hov] at hk
  · simp only [hov, if_false] at hk
    cases hb : balance pol (ni * 1000) (no * 1000) none with
    | ok => have := balance_ok_none hb; omega
    | err => simp [hb] at hk
    | panic => simp [hb] at hk


/-! ### ghost ledger and the node-wide invariant -/

/-- outgoing value in flight for `h` on channel `c` according to the *current* commitments (max of the views) -/
def outL (n : Node) (c : Nat) (h : Hash) : Nat := outVal (n.chans c).hcur (n.chans c).ccur h
/-- incoming value in flight for `h` on channel `c` according to the current commitments (min of the views) -/
def inL (n : Node) (c : Nat) (h : Hash) : Nat := inVal (n.chans c).hcur (n.chans c).ccur h
def totalOut (n : Node) (h : Hash) : Nat := sumCh n.nch (fun c => outL n c h)
def totalIn (n : Node) (h : Hash) : Nat := sumCh n.nch (fun c => inL n c h)

/-- the conservation inequality of C06 for hash `h` (amounts in msat) -/
def Bal (n : Node) (h : Hash) : Prop :=
  ∀ inv, n.invoices h = some inv → totalOut n h * 1000 ≤ totalIn n h * 1000 + inv.amount + n.pol.maxFee

structure Inv (n : Node) : Prop where
  /-- the node never believes in more incoming value than the current commitments carry -/
  inSync : ∀ h c, c < n.nch → getIn (n.payments h) c ≤ inL n c h
  /-- for an approved hash the node knows about all outgoing value of the current commitments -/
  outSync : ∀ h, n.invoices h ≠ none → ∀ c, c < n.nch → outL n c h ≤ getOut (n.payments h) c
  bal : ∀ h, Bal n h
  disk : ∀ h, n.disk.invoices h = n.invoices h
  known : ∀ h, n.invoices h ≠ none → h ∈ n.known

theorem getIn_apply (payments : Hash → Option Payment) (c : Nat) (hEff cEff hCur cCur newInfo : Info) (h : Hash) (c' : Nat) :
    getIn (applyPayments payments c hEff cEff hCur cCur newInfo h) c' =
      if h ∈ keys hEff cEff hCur cCur then (if c' = c then inVal hEff cEff h else getIn (payments h) c')
      else getIn (payments h) c' := by
  unfold applyPayments
  by_cases hk : h ∈ keys hEff cEff hCur cCur
  · simp only [hk, if_true]
    cases payments h <;> simp [getIn, Payment.apply, upd, Payment.new]
  · simp only [hk, if_false]

theorem getOut_apply (payments : Hash → Option Payment) (c : Nat) (hEff cEff hCur cCur newInfo : Info) (h : Hash) (c' : Nat) :
    getOut (applyPayments payments c hEff cEff hCur cCur newInfo h) c' =
      if h ∈ keys hEff cEff hCur cCur then (if c' = c then outVal hEff cEff h else getOut (payments h) c')
      else getOut (payments h) c' := by
  unfold applyPayments
  by_cases hk : h ∈ keys hEff cEff hCur cCur
  · simp only [hk, if_true]
    cases payments h <;> simp [getOut, Payment.apply, upd, Payment.new]
  · simp only [hk, if_false]

/-- state after an accepted validate-and-apply on channel `c` -/
def commitNext (n : Node) (c : Nat) (hEff cEff newInfo : Info) (st' : ChanSt) : Node :=
  { n with payments := applyPayments n.payments c hEff cEff (n.chans c).hcur (n.chans c).ccur newInfo,
           chans := upd n.chans c st' }

/-- **Per-op preservation, commitment updates.**  An accepted validate-and-apply on channel `c`
    (counterparty signing: `hEff` = current holder tx, `cEff` = new counterparty tx; revocation:
    `hEff` = the validated next holder tx, `cEff` = current counterparty tx) keeps the invariant. -/
theorem commit_preserves {n : Node} (hI : Inv n) {c : Nat} (hc : c < n.nch) {hEff cEff newInfo : Info}
    {st' : ChanSt} (hv : validate n c hEff cEff = .ok) (h1 : st'.hcur = hEff) (h2 : st'.ccur = cEff) :
    Inv (commitNext n c hEff cEff newInfo st') := by
  have hchk := validate_ok hv
  -- ledger of the new state
  have hout : ∀ h c', outL (commitNext n c hEff cEff newInfo st') c' h = if c' = c then outVal hEff cEff h else outL n c' h := by
    intro h c'
    simp only [outL, commitNext, upd]
    split
    · rw [h1, h2]
    · rfl
  have hin : ∀ h c', inL (commitNext n c hEff cEff newInfo st') c' h = if c' = c then inVal hEff cEff h else inL n c' h := by
    intro h c'
    simp only [inL, commitNext, upd]
    split
    · rw [h1, h2]
    · rfl
  refine ⟨?_, ?_, ?_, hI.disk, hI.known⟩
  · intro h c' hc'
    rw [hin]
    show getIn (applyPayments n.payments c hEff cEff (n.chans c).hcur (n.chans c).ccur newInfo h) c' ≤ _
    rw [getIn_apply]
    by_cases hk : h ∈ keys hEff cEff (n.chans c).hcur (n.chans c).ccur
    · simp only [hk, if_true]
      split
      · exact Nat.le_refl _
      · exact hI.inSync h c' hc'
    · simp only [hk, if_false]
      split
      · rename_i e
        subst e
        have := hI.inSync h c' hc'
        have z := not_mem_keys hk
        simp only [inL] at this
        omega
      · exact hI.inSync h c' hc'
  · intro h hinv c' hc'
    rw [hout]
    show _ ≤ getOut (applyPayments n.payments c hEff cEff (n.chans c).hcur (n.chans c).ccur newInfo h) c'
    rw [getOut_apply]
    by_cases hk : h ∈ keys hEff cEff (n.chans c).hcur (n.chans c).ccur
    · simp only [hk, if_true]
      split
      · exact Nat.le_refl _
      · exact hI.outSync h hinv c' hc'
    · simp only [hk, if_false]
      split
      · rename_i e
        subst e
        have z := not_mem_keys hk
        omega
      · exact hI.outSync h hinv c' hc'
  · intro h inv hinv
    have hinv' : n.invoices h = some inv := hinv
    show sumCh n.nch (fun c' => outL (commitNext n c hEff cEff newInfo st') c' h) * 1000 ≤
      sumCh n.nch (fun c' => inL (commitNext n c hEff cEff newInfo st') c' h) * 1000 + inv.amount + n.pol.maxFee
    by_cases hk : h ∈ keys hEff cEff (n.chans c).hcur (n.chans c).ccur
    · have hb := checkHash_ok_invoiced hc (hchk h hk) hinv'
      have hne : n.invoices h ≠ none := by rw [hinv']; simp
      have e1 : sumCh n.nch (fun c' => outL (commitNext n c hEff cEff newInfo st') c' h) ≤ sumCh n.nch (upd (getOut (n.payments h)) c (outVal hEff cEff h)) := by
        apply sumCh_mono
        intro c' hc'
        rw [hout]
        simp only [upd]
        split
        · exact Nat.le_refl _
        · exact hI.outSync h hne c' hc'
      have e2 : sumCh n.nch (upd (getIn (n.payments h)) c (inVal hEff cEff h)) ≤
          sumCh n.nch (fun c' => inL (commitNext n c hEff cEff newInfo st') c' h) := by
        apply sumCh_mono
        intro c' hc'
        rw [hin]
        simp only [upd]
        split
        · exact Nat.le_refl _
        · exact hI.inSync h c' hc'
      have m1 := Nat.mul_le_mul_right 1000 e1
      have m2 := Nat.mul_le_mul_right 1000 e2
      exact Nat.le_trans m1 (Nat.le_trans hb (Nat.add_le_add_right (Nat.add_le_add_right m2 _) _))
    · have z := not_mem_keys hk
      have e1 : sumCh n.nch (fun c' => outL (commitNext n c hEff cEff newInfo st') c' h) = sumCh n.nch (fun c' => outL n c' h) := by
        apply sumCh_congr
        intro c' _
        rw [hout]
        split
        · rename_i e; subst e; simp only [outL]; omega
        · rfl
      have e2 : sumCh n.nch (fun c' => inL (commitNext n c hEff cEff newInfo st') c' h) = sumCh n.nch (fun c' => inL n c' h) := by
        apply sumCh_congr
        intro c' _
        rw [hin]
        split
        · rename_i e; subst e; simp only [inL]; omega
        · rfl
      have := hI.bal h inv hinv'
      simp only [totalOut, totalIn] at this
      rw [e1, e2]
      exact this


/-- The invariant only looks at: channel count, policy, invoices, the per-channel amounts of the payment
    entries, the *current* commitments, the persisted invoices and the support list. -/
theorem Inv.transfer {n n' : Node} (hI : Inv n) (e1 : n'.nch = n.nch) (e2 : n'.pol = n.pol)
    (e3 : n'.invoices = n.invoices)
    (e4 : ∀ h c, getIn (n'.payments h) c = getIn (n.payments h) c ∧ getOut (n'.payments h) c = getOut (n.payments h) c)
    (e5 : ∀ c, (n'.chans c).hcur = (n.chans c).hcur ∧ (n'.chans c).ccur = (n.chans c).ccur)
    (e6 : n'.disk.invoices = n.disk.invoices) (e7 : ∀ h, h ∈ n.known → h ∈ n'.known) : Inv n' := by
  have hout : ∀ c h, outL n' c h = outL n c h := by
    intro c h; simp only [outL, (e5 c).1, (e5 c).2]
  have hin : ∀ c h, inL n' c h = inL n c h := by
    intro c h; simp only [inL, (e5 c).1, (e5 c).2]
  refine ⟨?_, ?_, ?_, ?_, ?_⟩
  · intro h c hc
    rw [hin, (e4 h c).1]
    exact hI.inSync h c (e1 ▸ hc)
  · intro h hne c hc
    rw [hout, (e4 h c).2]
    exact hI.outSync h (e3 ▸ hne) c (e1 ▸ hc)
  · intro h inv hinv
    have := hI.bal h inv (e3 ▸ hinv)
    simp only [totalOut, totalIn] at *
    rw [e1, e2]
    simp only [hout, hin]
    exact this
  · intro h; rw [e6, e3]; exact hI.disk h
  · intro h hne; exact e7 h (hI.known h (e3 ▸ hne))

theorem cpSign_preserves {n n' : Node} {c : Nat} {r : Bool} {info : Info} (hI : Inv n)
    (h : n.cpSign c r info = (n', .ok)) : Inv n' := by
  unfold Node.cpSign at h
  dsimp only at h
  by_cases hc : c ≥ n.nch
  · simp [hc] at h
  · by_cases hr : (r && info != (n.chans c).ccur) = true
    · simp [hc, hr] at h
    · by_cases hn : (!r && (n.chans c).cpNum != (n.chans c).cpRev + 1) = true
      · simp [hc, hr, hn] at h
      · simp only [hc, hr, hn, if_false] at h
        cases hv : validate n c (n.chans c).hcur info with
        | ok =>
          simp only [hv] at h
          rw [if_neg (by simp), if_neg (by simp)] at h
          by_cases hq : (r && !((n.chans c).cpNum == 1 || decide ((n.chans c).cpNum ≥ (n.chans c).cpRev + 2))) = true
          · rw [if_pos hq] at h; simp at h
          · rw [if_neg hq] at h
            cases h
            exact commit_preserves hI (Nat.lt_of_not_ge hc) hv rfl rfl
        | err => simp [hv] at h
        | panic => simp [hv] at h

theorem revoke_preserves {n n' : Node} {c : Nat} (hI : Inv n) (h : n.revoke c = (n', .ok)) : Inv n' := by
  unfold Node.revoke at h
  dsimp only at h
  by_cases hc : c ≥ n.nch
  · simp [hc] at h
  · simp only [hc, if_false] at h
    cases hnx : (n.chans c).hnext with
    | none => simp [hnx] at h
    | some info =>
      simp only [hnx] at h
      cases hv : validate n c info (n.chans c).ccur with
      | ok =>
        simp only [hv] at h
        cases h
        exact commit_preserves hI (Nat.lt_of_not_ge hc) hv rfl rfl
      | err => simp [hv] at h
      | panic => simp [hv] at h

theorem setChan_hnext_transfer {n : Node} (hI : Inv n) (c : Nat) (st' : ChanSt)
    (e1 : st'.hcur = (n.chans c).hcur) (e2 : st'.ccur = (n.chans c).ccur) : Inv (n.setChan c st') := by
  refine hI.transfer rfl rfl rfl (fun _ _ => ⟨rfl, rfl⟩) ?_ rfl (fun _ hk => hk)
  intro c'
  simp only [Node.setChan, upd]
  split
  · rename_i e; subst e; exact ⟨e1, e2⟩
  · exact ⟨rfl, rfl⟩

theorem hValidate_preserves {n n' : Node} {c : Nat} {r : Bool} {info : Info} (hI : Inv n)
    (h : n.hValidate c r info = (n', .ok)) : Inv n' := by
  unfold Node.hValidate at h
  dsimp only at h
  by_cases hc : c ≥ n.nch
  · simp [hc] at h
  · by_cases hr : (r && info != (n.chans c).hcur) = true
    · simp [hc, hr] at h
    · simp only [hc, hr, if_false] at h
      cases hv : validate n c info (n.chans c).ccur with
      | ok =>
        simp only [hv] at h
        cases h
        split
        · exact hI
        · exact setChan_hnext_transfer hI c _ rfl rfl
      | err => simp [hv] at h
      | panic => simp [hv] at h

theorem cpRevoke_preserves {n n' : Node} {c : Nat} (hI : Inv n) (h : n.cpRevoke c = (n', .ok)) : Inv n' := by
  unfold Node.cpRevoke at h
  dsimp only at h
  by_cases hc : c ≥ n.nch
  · simp [hc] at h
  · simp only [hc, if_false] at h
    split at h
    · cases h
      exact setChan_hnext_transfer hI c _ rfl rfl
    · simp at h

end VlsModel.Payments
