import VlsModel.Model.Wire
/- Helper lemmas for the wire codec round trip (property C19). -/
namespace VlsModel.Wire

theorem beBytes_length (k n : Nat) : (beBytes k n).length = k := by
  induction k generalizing n with
  | zero => rfl
  | succ k ih => simp [beBytes, ih]

theorem beVal_snoc (a : Bytes) (x : UInt8) : beVal (a ++ [x]) = beVal a * 256 + x.toNat := by
  simp [beVal, List.foldl_append]

theorem beVal_beBytes (k n : Nat) (h : n < 256 ^ k) : beVal (beBytes k n) = n := by
  induction k generalizing n with
  | zero => simp [beBytes, beVal] at *; omega
  | succ k ih =>
    have h1 : n / 256 < 256 ^ k := by
      apply Nat.div_lt_of_lt_mul
      rw [Nat.pow_succ, Nat.mul_comm] at h; exact h
    simp only [beBytes, beVal_snoc, ih _ h1, UInt8.toNat_ofNat']
    have := Nat.div_add_mod n 256
    omega

theorem splitAt?_append (k : Nat) (a r : Bytes) (h : a.length = k) :
    splitAt? k (a ++ r) = some (a, r) := by
  induction a generalizing k with
  | nil => subst h; simp [splitAt?]
  | cons x a ih =>
    subst h
    simp [splitAt?, ih a.length rfl]

theorem splitNul_append (a r : Bytes) (h : a.contains 0 = false) :
    splitNul (a ++ 0 :: r) = some (a, r) := by
  induction a with
  | nil => simp [splitNul]
  | cons x a ih =>
    simp at h
    have hx : x ≠ 0 := fun e => h.1 e.symm
    have := ih (by simpa using h.2)
    simp [splitNul, hx, this]

theorem bool_byte (b : Bool) : (((if b then 1 else 0 : UInt8)) != 0) = b := by
  cases b <;> decide

theorem decArr_encArr (f : Val α → Bytes) (d : Bytes → Option (Val α × Bytes)) (p : Val α → Bool)
    (n : α → α)
    (h : ∀ x rest, p x = true → d (f x ++ rest) = some (x.norm n, rest)) :
    ∀ (v : Val α) (rest : Bytes), allArr p v = true →
      decArr d (vlen v) (encArr f v ++ rest) = some (v.norm n, rest) := by
  intro v
  induction v with
  | unit => intro rest _; simp [vlen, encArr, decArr, Val.norm]
  | pair x xs _ ihs =>
    intro rest hw
    simp [allArr] at hw
    simp [vlen, encArr, decArr, List.append_assoc, h x _ hw.1, ihs rest hw.2, Val.norm]
  | _ => intro rest hw; simp [allArr] at hw


theorem Val.norm_id {α : Type} (v : Val α) : v.norm id = v := by
  induction v with
  | some v ih => simp [Val.norm, ih]
  | pair x y ihx ihy => simp [Val.norm, ihx, ihy]
  | _ => simp [Val.norm]

/-- decidable form of `r = .ok (.msg i v)` (for closed examples) -/
def isMsg {α : Type} [DecidableEq α] (r : Except WireErr (Decoded α)) (i : Nat) (v : Val α) : Bool :=
  match r with
  | .ok (.msg j w) => decide (j = i) && decide (w = v)
  | _ => false

theorem isMsg_iff {α : Type} [DecidableEq α] (r : Except WireErr (Decoded α)) (i : Nat) (v : Val α) :
    isMsg r i v = true ↔ r = .ok (.msg i v) := by
  unfold isMsg
  split
  · rename_i j w
    simp
  · rename_i h
    constructor
    · intro x; cases x
    · intro e; exact absurd e (by intro e; exact h i v e)

/-- indices of the entries whose id is taken by an earlier entry (never reached by `from_vec`) -/
def shadowedIdx (reg : List Entry) : List Nat :=
  (List.range reg.length).filter fun i =>
    match reg[i]? with
    | some e => dispatch reg e.id != some i
    | none => false

def shadowedIds (reg : List Entry) : List Nat :=
  (shadowedIdx reg).filterMap fun i => reg[i]?.map (·.id)

theorem dispatch_of_not_shadowed (reg : List Entry) (i : Nat) (e : Entry)
    (hi : reg[i]? = some e) (hn : i ∉ shadowedIdx reg) : dispatch reg e.id = some i := by
  have hlt : i < reg.length := by
    rcases Nat.lt_or_ge i reg.length with h | h
    · exact h
    · simp [List.getElem?_eq_none h] at hi
  simp only [shadowedIdx, List.mem_filter, List.mem_range, hi] at hn
  simp [hlt] at hn
  exact hn

/-- what `dispatch` returns is the first entry with that id -/
theorem dispatch_spec (reg : List Entry) (id i : Nat) (h : dispatch reg id = some i) :
    (∃ e, reg[i]? = some e ∧ e.id = id) ∧ ∀ j e, j < i → reg[j]? = some e → e.id ≠ id := by
  induction reg generalizing i with
  | nil => simp [dispatch] at h
  | cons e es ih =>
    simp only [dispatch] at h
    split at h
    · rename_i he
      cases h
      exact ⟨⟨e, by simp, he⟩, by intro j _ hj; omega⟩
    · rename_i he
      cases hd : dispatch es id with
      | none => simp [hd] at h
      | some k =>
        simp [hd] at h
        subst h
        have ⟨⟨e', h1, h2⟩, h3⟩ := ih k hd
        refine ⟨⟨e', by simpa using h1, h2⟩, ?_⟩
        intro j e'' hj hje
        cases j with
        | zero => simp at hje; subst hje; exact he
        | succ j => exact h3 j e'' (by omega) (by simpa using hje)

end VlsModel.Wire
