import VlsModel.Model.Secrets
/-
Lemmas about the compact secret store, for every derivation step `F` (hence every hash function).
No Mathlib.
-/
namespace VlsModel.Secrets

theorem placeFrom_le (idx : Nat) : ∀ fuel i, i + fuel ≤ 48 → placeFrom idx i fuel ≤ 48
  | 0, _, _ => by simp [placeFrom]
  | fuel + 1, i, h => by
    unfold placeFrom
    split
    · omega
    · exact placeFrom_le idx fuel (i + 1) (by omega)

theorem place_le (idx : Nat) : place idx ≤ 48 := placeFrom_le idx 48 0 (by omega)

/-- bits below `place idx` are clear -/
theorem placeFrom_clear (idx : Nat) : ∀ fuel i, (∀ b, b < i → idx.testBit b = false) →
    ∀ b, b < placeFrom idx i fuel → b < i + fuel → idx.testBit b = false
  | 0, i, hlow, b, _, hb2 => hlow b (by omega)
  | fuel + 1, i, hlow, b, hb, hb2 => by
    unfold placeFrom at hb
    split at hb
    · exact hlow b hb
    · rename_i hbit
      refine placeFrom_clear idx fuel (i + 1) ?_ b hb (by omega)
      intro b' hb'
      by_cases h : b' < i
      · exact hlow b' h
      · have : b' = i := by omega
        subst this; simpa using hbit

theorem place_clear (idx b : Nat) (hb : b < place idx) : idx.testBit b = false :=
  placeFrom_clear idx 48 0 (fun _ h => absurd h (Nat.not_lt_zero _)) b hb (by have := place_le idx; omega)

/-- deriving over clear bits does nothing -/
theorem derive_clear {S : Type} (F : Nat → S → S) (s : S) (idx : Nat) :
    ∀ bits, (∀ b, b < bits → idx.testBit b = false) → derive F s bits idx = s
  | 0, _ => rfl
  | bits + 1, h => by
    unfold derive
    rw [h bits (Nat.lt_succ_self _)]
    simp only [Bool.false_eq_true, ↓reduceIte]
    exact derive_clear F s idx bits (fun b hb => h b (Nat.lt_succ_of_lt hb))

/-- a secret stored at its own place derives itself -/
theorem derive_self {S : Type} (F : Nat → S → S) (s : S) (idx : Nat) :
    derive F s (place idx) idx = s :=
  derive_clear F s idx (place idx) (fun b hb => place_clear idx b hb)

theorem testBit_hi (c j b : Nat) : (hi c j).testBit b = (decide (c ≤ b) && j.testBit b) := by
  unfold hi
  rw [Nat.testBit_shiftLeft, Nat.testBit_shiftRight]
  by_cases h : c ≤ b
  · simp [h, Nat.add_sub_cancel' h]
  · simp [h]

theorem derive_succ {S : Type} (F : Nat → S → S) (s : S) (b idx : Nat) :
    derive F s (b + 1) idx = derive F (if idx.testBit b then F b s else s) b idx := rfl

/-- **tree law**: deriving `j` from a secret with `a` free bits equals deriving first the node that
    shares `j`'s bits from `c` upward and then the low `c` bits — for every `F`. -/
theorem derive_hi {S : Type} (F : Nat → S → S) (j c : Nat) :
    ∀ a (s : S), c ≤ a → derive F s a j = derive F (derive F s a (hi c j)) c j := by
  intro a
  induction a with
  | zero =>
    intro s hca
    have : c = 0 := by omega
    subst this
    rfl
  | succ a' ih =>
    intro s hca
    by_cases h : a' + 1 = c
    · subst h
      rw [derive_clear F s (hi (a' + 1) j) (a' + 1) (fun b hb => by rw [testBit_hi]; simp; omega)]
    · have hc : c ≤ a' := by omega
      rw [derive_succ, derive_succ, testBit_hi]
      simp only [hc, decide_true, Bool.true_and]
      exact ih _ hc

/-- `checkLower` succeeded: every one of the first `k` entries derives from the new secret -/
theorem checkLower_sound {S : Type} [DecidableEq S] (F : Nat → S → S) (secret : S) (pos : Nat) :
    ∀ (l : List (S × Nat)) (k : Nat), checkLower F secret pos l k = true →
      ∀ i (hi : i < l.length), i < k → derive F secret pos (l[i]).2 = (l[i]).1
  | _, 0, _, i, _, hk => absurd hk (Nat.not_lt_zero _)
  | [], _ + 1, _, i, hi, _ => absurd hi (Nat.not_lt_zero _)
  | (os, oi) :: rest, k + 1, h, i, hi, hk => by
    unfold checkLower at h
    split at h
    · rename_i heq
      cases i with
      | zero => simpa using heq
      | succ i' =>
        simp only [List.getElem_cons_succ]
        exact checkLower_sound F secret pos rest k h i' (by simpa using hi) (by omega)
    · cases h

/-- an accepted `provide_secret` has its position inside the store, its lower slots derivable, and
    the store grows by at most one entry -/
theorem provide_some {S : Type} [DecidableEq S] (F : Nat → S → S) {st st' : Store S} {idx : Nat} {secret : S}
    (h : provide F st idx secret = some st') :
    place idx ≤ st.length ∧
    (∀ i (hi : i < st.length), i < place idx → derive F secret (place idx) (st[i]).2 = (st[i]).1) ∧
    (st' = st ∨ (place idx < st.length ∧ st' = st.set (place idx) (secret, idx)) ∨
      (place idx = st.length ∧ st' = st ++ [(secret, idx)])) := by
  unfold provide at h
  dsimp only at h
  split at h
  · cases h
  · rename_i hpos
    split at h
    · cases h
    · rename_i hchk
      have hchk : checkLower F secret (place idx) st (place idx) = true := by simpa using hchk
      refine ⟨by omega, checkLower_sound F secret _ st _ hchk, ?_⟩
      split at h
      · left; simpa using h.symm
      · split at h
        · rename_i hlt
          right; left; exact ⟨hlt, by simpa using h.symm⟩
        · right; right
          exact ⟨by omega, by simpa using h.symm⟩

/-- **size**: the store never holds more than 49 entries -/
theorem provide_length {S : Type} [DecidableEq S] (F : Nat → S → S) {st st' : Store S} {idx : Nat} {secret : S}
    (h : provide F st idx secret = some st') (hl : st.length ≤ 49) : st'.length ≤ 49 := by
  obtain ⟨_, _, h3⟩ := provide_some F h
  have := place_le idx
  rcases h3 with rfl | ⟨_, rfl⟩ | ⟨hp, rfl⟩
  · exact hl
  · simpa using hl
  · simp; omega

end VlsModel.Secrets
