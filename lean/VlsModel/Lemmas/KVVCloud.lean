import VlsModel.Lemmas.KVVRun
/- Helper lemmas for property C16: the cloud store's commit log only holds entries that advance their
   key beyond the local store, hence `commit` is always accepted by the local store. -/
namespace VlsModel.KVV

theorem lookup_of_mem_sorted {α : Type} {t : AL α} (hs : Sorted t) {k : Key} {a : α} (h : (k, a) ∈ t) :
    lookup t k = some a := by
  induction t with
  | nil => cases h
  | cons e t ih =>
    obtain ⟨k0, a0⟩ := e
    obtain ⟨h1, h2⟩ := hs
    simp only [lookup]
    rcases List.mem_cons.1 h with heq | hmem
    · cases heq; simp
    · have := h1 _ hmem
      simp only at this
      rw [if_neg (by komega)]
      exact ih h2 hmem

namespace Cloud

/-- every logged entry is above the committed record of its key; the log is in key order -/
structure Inv (c : Cloud) : Prop where
  adv : ∀ lg, c.log = some lg → Sorted lg ∧
    ∀ k r, lookup lg k = some r → ∀ r0, lookup c.loc k = some r0 → r0.1 < r.1

theorem inv_empty (sid : Val) : Inv (Cloud.empty sid) := ⟨fun lg h => by cases h⟩

theorem inv_log_insert {c : Cloud} (h : Inv c) {lg : Tab} (hl : c.log = some lg) (k : Key) (r : Rec)
    (hadv : ∀ r0, lookup c.loc k = some r0 → r0.1 < r.1) :
    Inv { c with log := some (insert lg k r) } := by
  refine ⟨fun lg' h' => ?_⟩
  cases h'
  obtain ⟨hs, ha⟩ := h.adv lg hl
  refine ⟨sorted_insert _ _ hs, ?_⟩
  intro k' r' hl' r0 h0
  rw [lookup_insert] at hl'
  split at hl'
  · subst_vars; cases hl'; exact hadv r0 h0
  · exact ha k' r' hl' r0 h0

theorem putV_inv {c : Cloud} (h : Inv c) (k : Key) (v : Nat) (x : Val) : Inv (putV c k v x).1 := by
  unfold putV
  split
  · exact h
  · split
    · exact ⟨fun lg h' => h.adv lg h'⟩
    · rename_i lg hl
      split
      · exact h
      split
      · rename_i hloc
        exact inv_log_insert h hl k (v, x) (fun r0 h0 => by rw [hloc] at h0; cases h0)
      · rename_i v0 x0 hloc
        split
        · exact h
        · split
          · split <;> exact h
          · exact inv_log_insert h hl k (v, x) (fun r0 h0 => by rw [hloc] at h0; cases h0; simp; omega)

theorem put_inv {c : Cloud} (h : Inv c) (k : Key) (x : Val) : Inv (put c k x).1 := by
  unfold put; split
  · exact h
  · exact putV_inv h _ _ _

theorem batch_inv {c : Cloud} (h : Inv c) (es : List (Key × Rec)) : Inv (batch c es).1 := by
  induction es generalizing c with
  | nil => exact h
  | cons e es ih =>
    simp only [batch]
    have := putV_inv h e.1 e.2.1 e.2.2
    generalize putV c e.1 e.2.1 e.2.2 = p at this ⊢
    obtain ⟨c', r⟩ := p
    cases r <;> simp only [] <;> first | exact ih this | exact this

theorem get_inv {c : Cloud} (h : Inv c) (k : Key) : Inv (get c k).1 := by
  unfold get
  split
  · exact h
  · split
    · exact ⟨fun lg h' => h.adv lg h'⟩
    · split <;> exact h

theorem enter_inv {c : Cloud} (h : Inv c) : Inv (enter c).1 := by
  unfold enter
  split
  · exact h
  · rename_i nv hnv
    split
    · exact h
    · split
      · exact ⟨fun lg h' => h.adv lg h'⟩
      · refine ⟨fun lg h' => ?_⟩
        cases h'
        refine ⟨⟨fun _ he => (by cases he), trivial⟩, ?_⟩
        intro k r hl r0 h0
        simp only [lookup] at hl
        split at hl
        · subst_vars; cases hl
          simp only [h0, Option.map_some, nextVer] at hnv
          split at hnv
          · cases hnv; simp
          · cases hnv
        · cases hl

theorem prepare_inv {c : Cloud} (h : Inv c) : Inv (prepare c).1 := by
  unfold prepare
  split
  · exact h
  · split
    · exact ⟨fun lg h' => h.adv lg h'⟩
    · split
      · split
        · refine ⟨fun lg h' => ?_⟩
          cases h'
          exact ⟨trivial, fun k r hl => by cases hl⟩
        · exact ⟨fun lg h' => h.adv lg h'⟩
      · exact h

theorem commit_inv {c : Cloud} (_h : Inv c) : Inv (commit c).1 := by
  unfold commit
  split
  · exact _h
  · split
    · exact ⟨fun lg h' => _h.adv lg h'⟩
    · exact ⟨fun lg h' => by cases h'⟩

theorem step_inv {c : Cloud} (h : Inv c) (op : Op) : Inv (step c op).1 := by
  cases op with
  | put k x => exact put_inv h k x
  | putV k v x => exact putV_inv h k v x
  | del k => exact put_inv h k []
  | batch es => exact batch_inv h es
  | get k =>
    simp only [step]
    have := get_inv h k
    split <;> (rename_i heq; rw [heq] at this; exact this)
  | getVer k =>
    simp only [step]
    have := get_inv h k
    split <;> (rename_i heq; rw [heq] at this; exact this)
  | getPrefix p => exact h
  | reopen => exact h
  | enter => exact enter_inv h
  | prepare =>
    simp only [step]
    have := prepare_inv h
    split <;> (rename_i heq; rw [heq] at this; exact this)
  | commit => exact commit_inv h

/-- entries in key order, each above the committed record of its key, are accepted one after the other -/
theorem seqRun_of_adv (lg : Tab) (t : Tab) (hs : Sorted lg)
    (ha : ∀ e ∈ lg, ∀ r0, lookup t e.1 = some r0 → r0.1 < e.2.1) : ∃ T, Mem.seqRun t lg = some T := by
  induction lg generalizing t with
  | nil => exact ⟨t, rfl⟩
  | cons e lg ih =>
    obtain ⟨h1, h2⟩ := hs
    have hp : Mem.putV? t e = some (insert t e.1 e.2) := by
      rw [Mem.putV?_eq]
      cases hl : lookup t e.1 with
      | none => rfl
      | some r0 =>
        obtain ⟨v0, x0⟩ := r0
        have := ha e (by simp) _ hl
        simp only at this
        have n1 : ¬ e.2.1 < v0 := by omega
        have n2 : ¬ e.2.1 = v0 := by omega
        simp [n1, n2]
    simp only [Mem.seqRun, hp]
    apply ih _ h2
    intro e' he' r0 hr0
    have hne : e.1 ≠ e'.1 := by have := h1 e' he'; komega
    rw [lookup_insert_ne _ _ hne] at hr0
    exact ha e' (by simp [he']) r0 hr0

/-- under the invariant the local store accepts the whole log -/
theorem log_accepted {c : Cloud} (h : Inv c) {lg : Tab} (hl : c.log = some lg) :
    Mem.batch c.loc lg = (insertAll c.loc lg, .ok) := by
  obtain ⟨hs, ha⟩ := h.adv lg hl
  obtain ⟨T, hT⟩ := seqRun_of_adv lg c.loc hs
    (fun e he r0 h0 => ha e.1 e.2 (lookup_of_mem_sorted hs he) r0 h0)
  rcases Mem.batch_spec c.loc lg with ⟨h1, _⟩ | ⟨_, _, h2, _⟩
  · rw [hT] at h1; cases h1
  · exact h2

end Cloud
end VlsModel.KVV
