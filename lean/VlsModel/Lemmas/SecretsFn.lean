import VlsModel.Model.Secrets
import VlsModel.Lemmas.Secrets
import VlsModel.Gen.FnSecrets
import VlsModel.Lemmas.FnGen
/-
C03 — the compact BOLT-3 secret store `CounterpartyCommitmentSecrets` (vls-core/src/policy/validator.rs:571-660) as
`translate/rs2lean.py` regenerates it on every run (`Gen/FnSecrets.lean`), against the hand-written generic model
`Model/Secrets.lean`.  Helper lemmas; the tying theorems are in `Props/C03Fn.lean`.

Secrets are `[u8; 32]` in the code, `List Nat` in the generated bodies (every `v[i]` is a partial operation there), the
model is generic in the secret type `S` and the one-bit step `F`.  The tie instantiates `S := List Nat` and
`F := stepN h tb` = "flip bit `b` (`res[b / 8] ^= 1 << (b & 7)`), then `Sha256::hash(..).to_byte_array()`", the hash being
the two declared externals `h`, `tb` of the generated definitions; hypotheses: secrets have 32 bytes, the hash returns 32.
-/
namespace VlsModel.Lemmas.SecretsFn
open VlsModel VlsModel.Secrets
open VlsModel.Gen.FnSecrets

/-- `res[bitpos / 8] ^= 1 << (bitpos & 7)` on a byte list -/
def flipN (s : List Nat) (b : Nat) : List Nat :=
  s.set (b / 8) (s.getD (b / 8) 0 ^^^ ((1 <<< (b &&& 7)) % 2 ^ 8))

/-- the one-bit derivation step over the external hash: `Sha256::hash(&flip(res, b)).to_byte_array()` -/
def stepN {H : Type} (h : List Nat → H) (tb : H → List Nat) : Nat → List Nat → List Nat :=
  fun b s => tb (h (flipN s b))

theorem shl_one (b : Nat) (hb : b < 64) : Rs.ushl 64 1 b = Except.ok (2 ^ b) := by
  have : (1 <<< b) % 2 ^ 64 = 2 ^ b := by
    rw [Nat.shiftLeft_eq, Nat.one_mul]
    exact Nat.mod_eq_of_lt (Nat.pow_lt_pow_right (by omega) hb)
  simp [Rs.ushl, hb, this]

/-- `idx & (1 << b) == (1 << b)` is "bit `b` of `idx` is set" -/
theorem and_pow_beq (idx b : Nat) : ((idx &&& 2 ^ b) == 2 ^ b) = idx.testBit b := by
  cases hb : idx.testBit b
  · have : idx &&& 2 ^ b ≠ 2 ^ b := by
      intro h
      have := congrArg (fun x => x.testBit b) h
      simp [Nat.testBit_two_pow, hb] at this
    simp [this]
  · have : idx &&& 2 ^ b = 2 ^ b := by
      apply Nat.eq_of_testBit_eq
      intro i
      simp only [Nat.testBit_and, Nat.testBit_two_pow]
      by_cases e : b = i
      · subst e; simp [hb]
      · simp [e]
    simp [this]

theorem flipN_length (s : List Nat) (b : Nat) : (flipN s b).length = s.length := by simp [flipN]

theorem derive_length {H : Type} (h : List Nat → H) (tb : H → List Nat) (hh : ∀ l, (tb (h l)).length = 32) :
    ∀ (bits : Nat) (s : List Nat) (idx : Nat), s.length = 32 → (derive (stepN h tb) s bits idx).length = 32
  | 0, s, _, hs => by simpa [derive] using hs
  | b + 1, s, idx, hs => by
    simp only [derive]
    apply derive_length h tb hh b
    split
    · exact hh _
    · exact hs

/-- the body of the loop of `derive_secret` (text of the generated definition) -/
def deriveStep {H : Type} (h : List Nat → H) (tb : H → List Nat) (bits idx : Nat) : List Nat → Nat → Rs.M (List Nat) :=
  fun res i => do
        let t_1 ← Rs.usub bits 1
        let bitpos ← Rs.usub t_1 i
        let res ← do
            let t_3 ← Rs.ushl 64 1 bitpos
            let t_4 ← Rs.ushl 64 1 bitpos
            if ((idx &&& t_3) == t_4) then
              let t_7 ← Rs.udiv bitpos 8
              let x_8 ← Rs.index res t_7
              let t_9 ← Rs.ushl 8 1 (bitpos &&& 7)
              let t_10 ← Rs.udiv bitpos 8
              let v_11 ← Rs.setIndex res t_10 (x_8 ^^^ t_9)
              let res := v_11
              let res := (tb (h res))
              pure res
            else
              pure res
        pure res

theorem deriveStep_eq {H : Type} (h : List Nat → H) (tb : H → List Nat) (idx k b : Nat) (res : List Nat)
    (hl : res.length = 32) (hk : k + b < 64) :
    deriveStep h tb (k + (b + 1)) idx res k
      = Except.ok (if idx.testBit b then stepN h tb b res else res) := by
  have e1 : Rs.usub (k + (b + 1)) 1 = Except.ok (k + b) := by simp [Rs.usub]
  have e2 : Rs.usub (k + b) k = Except.ok b := by simp [Rs.usub]
  have hb : b < 64 := by omega
  have h8 : b / 8 < res.length := by omega
  have h7 : b &&& 7 < 8 := by
    have := @Nat.and_le_right b 7
    omega
  unfold deriveStep
  simp only [e1, e2, Rs.bind_ok, shl_one b hb, and_pow_beq]
  cases hbit : idx.testBit b
  · simp
  · simp [Rs.udiv, Rs.index, Rs.ushl, h7, Rs.setIndex, h8, stepN, flipN, List.getD]

/-- the loop of `derive_secret`, started at loop index `k` of a loop over `k .. k + b` with `bits = k + b`: it treats the
    bits `b - 1 … 0`, like `derive … b idx` -/
theorem derive_loop {H : Type} (h : List Nat → H) (tb : H → List Nat) (hh : ∀ l, (tb (h l)).length = 32) (idx : Nat) :
    ∀ (b k : Nat) (res : List Nat), res.length = 32 → k + b ≤ 64 →
      List.foldlM (deriveStep h tb (k + b) idx) res (List.range' k b)
        = Except.ok (derive (stepN h tb) res b idx)
  | 0, k, res, _, _ => by simp [derive]
  | b + 1, k, res, hl, hk => by
    rw [List.range'_succ, List.foldlM_cons, deriveStep_eq h tb idx k b res hl (by omega)]
    simp only [Rs.bind_ok]
    have hl' : (if idx.testBit b then stepN h tb b res else res).length = 32 := by
      split
      · exact hh _
      · exact hl
    have := derive_loop h tb hh idx b (k + 1) _ hl' (by omega)
    have e3 : k + 1 + b = k + (b + 1) := by omega
    rw [e3] at this
    rw [this]
    simp [derive]

theorem range_zero (n : Nat) : Rs.range 0 n = List.range' 0 n := by simp [Rs.range]

/-- first set bit of `idx` among `k, …, k + fuel - 1` -/
def firstBit (idx : Nat) : Nat → Nat → Option Nat
  | _, 0 => none
  | k, fuel + 1 => if idx.testBit k then some k else firstBit idx (k + 1) fuel

theorem placeFrom_eq (idx : Nat) : ∀ (fuel k : Nat), placeFrom idx k fuel = (firstBit idx k fuel).getD 48
  | 0, k => by simp [placeFrom, firstBit]
  | fuel + 1, k => by
    simp only [placeFrom, firstBit]
    split
    · simp
    · exact placeFrom_eq idx fuel (k + 1)

/-- the body of the search loop of `place_secret` (text of the generated definition) -/
def placeStep (idx : Nat) : Unit → Nat → Rs.M (Rs.Flow Unit Nat) := fun () i => do
  let t_1 ← Rs.ushl 64 1 i
  let t_2 ← Rs.ushl 64 1 i
  if ((idx &&& t_1) == t_2) then
    pure (.ret i)
  else
    pure (.next ())

theorem place_loop (idx : Nat) : ∀ (fuel k : Nat), k + fuel ≤ 64 →
    Rs.loopM (List.range' k fuel) () (placeStep idx)
      = Except.ok (match firstBit idx k fuel with | some i => Sum.inr i | none => Sum.inl ())
  | 0, k, _ => by simp [firstBit]
  | fuel + 1, k, hk => by
    rw [List.range'_succ, Rs.loopM]
    have hstep : placeStep idx () k = Except.ok (if idx.testBit k then .ret k else .next ()) := by
      unfold placeStep
      simp only [shl_one k (by omega), Rs.bind_ok, and_pow_beq]
      cases idx.testBit k <;> simp
    rw [hstep]
    simp only [Rs.bind_ok, firstBit]
    cases hb : idx.testBit k
    · simp only [Bool.false_eq_true, if_false]
      exact place_loop idx fuel (k + 1) (by omega)
    · simp

theorem pow48 : (2 : Nat) ^ 48 = N48 := by decide

/-- `derive_secret` on a 32-byte secret with `bits ≤ 64` never fails and is `Secrets.derive` over `stepN` -/
theorem derive_secret_eq {H : Type} (h : List Nat → H) (tb : H → List Nat) (hh : ∀ l, (tb (h l)).length = 32)
    (s : List Nat) (bits idx : Nat) (hs : s.length = 32) (hb : bits ≤ 64) :
    CounterpartyCommitmentSecrets.derive_secret h tb s bits idx = Except.ok (derive (stepN h tb) s bits idx) := by
  have e : CounterpartyCommitmentSecrets.derive_secret h tb s bits idx
      = List.foldlM (deriveStep h tb bits idx) s (Rs.range 0 bits) := rfl
  have key := derive_loop h tb hh idx bits 0 s hs (by omega)
  simp only [Nat.zero_add] at key
  rw [e, range_zero, key]

/-! ### generic loops over the indices of a vector -/

/-- do the first `n` entries of a list satisfy `P` (entries missing: nothing to check) -/
def allFrom {α : Type} (P : α → Bool) : List α → Nat → Bool
  | _, 0 => true
  | [], _ + 1 => true
  | x :: r, n + 1 => P x && allFrom P r n

/-- `for i in k..k+n { let x = v[i]; if !P(x) { return Err(tag) } }` -/
theorem loop_check {α ρ : Type} (st : List α) (P : α → Bool) (tag : String) (n k : Nat)
    (f : Unit → Nat → Rs.M (Rs.Flow Unit ρ))
    (hf : ∀ i (hi : i < st.length), f () i = if P st[i] then Except.ok (.next ()) else Except.error (.err tag))
    (hk : k + n ≤ st.length) :
    Rs.loopM (List.range' k n) () f
      = if allFrom P (st.drop k) n then Except.ok (Sum.inl ()) else Except.error (.err tag) := by
  induction n generalizing k with
  | zero => simp [allFrom]
  | succ n ih =>
    have hlt : k < st.length := by omega
    rw [List.range'_succ, Rs.loopM, hf k hlt, List.drop_eq_getElem_cons hlt]
    simp only [allFrom]
    by_cases hp : P st[k] = true
    · simp only [hp, if_true, Rs.bind_ok, Bool.true_and]
      exact ih (k + 1) (by omega)
    · simp [hp]

/-- first entry from position `i` on that satisfies `Q`, mapped by `R` (both see the position) -/
def findFrom {α ρ : Type} (Q : Nat → α → Bool) (R : Nat → α → ρ) : List α → Nat → Option ρ
  | [], _ => none
  | x :: r, i => if Q i x then some (R i x) else findFrom Q R r (i + 1)

/-- `for i in k..len { if Q(i, v[i]) { return R(i, v[i]) } }` -/
theorem loop_find {α ρ : Type} (st : List α) (Q : Nat → α → Bool) (R : Nat → α → ρ) (n k : Nat)
    (f : Unit → Nat → Rs.M (Rs.Flow Unit ρ))
    (hf : ∀ i (hi : i < st.length), f () i = if Q i st[i] then Except.ok (.ret (R i st[i])) else Except.ok (.next ()))
    (hk : k + n = st.length) :
    Rs.loopM (List.range' k n) () f
      = Except.ok (match findFrom Q R (st.drop k) k with | some r => Sum.inr r | none => Sum.inl ()) := by
  induction n generalizing k with
  | zero =>
    have : st.drop k = [] := List.drop_eq_nil_of_le (by omega)
    simp [this, findFrom]
  | succ n ih =>
    have hlt : k < st.length := by omega
    rw [List.range'_succ, Rs.loopM, hf k hlt, List.drop_eq_getElem_cons hlt]
    simp only [findFrom]
    by_cases hq : Q k st[k] = true
    · simp [hq]
    · simp only [hq, if_false, Rs.bind_ok]
      exact ih (k + 1) (by omega)

theorem checkLower_eq_allFrom {S : Type} [DecidableEq S] (F : Nat → S → S) (secret : S) (pos : Nat) :
    ∀ (l : List (S × Nat)) (n : Nat),
      checkLower F secret pos l n = allFrom (fun e => decide (derive F secret pos e.2 = e.1)) l n
  | _, 0 => by simp [checkLower, allFrom]
  | [], _ + 1 => by simp [checkLower, allFrom]
  | (os, oi) :: rest, k + 1 => by
    simp only [checkLower, allFrom]
    by_cases c : derive F secret pos oi = os
    · simp [c, checkLower_eq_allFrom F secret pos rest k]
    · simp [c]

theorem getFrom_eq_findFrom {S : Type} (F : Nat → S → S) (idx : Nat) :
    ∀ (l : List (S × Nat)) (i : Nat),
      getFrom F idx l i = findFrom (fun i e => decide (hi i idx = e.2)) (fun i e => derive F e.1 i idx) l i
  | [], _ => by simp [getFrom, findFrom]
  | (os, oi) :: rest, i => by
    simp only [getFrom, findFrom]
    by_cases c : hi i idx = oi
    · simp [c]
    · simp [c, getFrom_eq_findFrom F idx rest (i + 1)]

theorem u64max_eq : Rs.U64_MAX = 2 ^ 64 - 1 := by decide

/-- `idx & !((1 << i) - 1)` on `u64` clears the `i` low bits (`Secrets.hi`) -/
theorem hi_eq (idx i : Nat) (hidx : idx < 2 ^ 64) (hi64 : i < 64) :
    idx &&& (Rs.unot Rs.U64_MAX (2 ^ i - 1)) = hi i idx := by
  have hx : 2 ^ i - 1 < 2 ^ 64 := by
    have := Nat.pow_lt_pow_right (a := 2) (by omega) hi64
    omega
  have e : Rs.unot Rs.U64_MAX (2 ^ i - 1) = 2 ^ 64 - (2 ^ i - 1 + 1) := by
    unfold Rs.unot
    rw [u64max_eq]
    omega
  rw [e]
  apply Nat.eq_of_testBit_eq
  intro j
  rw [Nat.testBit_and, Nat.testBit_two_pow_sub_succ hx, Nat.testBit_two_pow_sub_one, testBit_hi]
  by_cases a : j < 64
  · by_cases b : j < i
    · have b' : ¬ i ≤ j := by omega
      simp [a, b, b']
    · have b' : i ≤ j := by omega
      simp [a, b, b']
  · have : idx.testBit j = false := by
      apply Nat.testBit_lt_two_pow
      exact Nat.lt_of_lt_of_le hidx (Nat.pow_le_pow_right (by omega) (by omega))
    simp [a, this]

theorem findFrom_some {α ρ : Type} (Q : Nat → α → Bool) (R : Nat → α → ρ) :
    ∀ (l : List α) (i : Nat), findFrom Q (fun i e => some (R i e)) l i = (findFrom Q R l i).map some
  | [], _ => by simp [findFrom]
  | x :: r, i => by
    simp only [findFrom]
    split
    · simp
    · exact findFrom_some Q R r (i + 1)

end VlsModel.Lemmas.SecretsFn
